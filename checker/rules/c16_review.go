package rules

// C16, clauses added by the mutation self-review: the selection of the chunked form of cbor
// byte/text strings, the value flow of their chunks, the asn1 end-of-contents octets, the asn1
// boolean / integer / bit string content and the high-tag-number form.

import (
	"fmt"
	"go/constant"
	"go/token"
	"go/types"

	"golang.org/x/tools/go/ssa"

	"fqverif/fw"
)

// ---------------------------------------------------------------------------
// cbor

// cborFormSelect: major types 2 and 3. RFC 8949 3.2.3: the string is chunked exactly when the
// additional information (shortCount) is 31; a definite string whose length happens to be 31 has
// count == 31 with shortCount 24.
func (x *c16) cborFormSelect(ri *fw.Rule, k int64, h *ssa.Function) {
	key := fmt.Sprintf("major:%d:form-select", k)
	pos := x.p.Rel(h.Pos())
	sc := ssa.Value(h.Params[1])
	fl := c16Facts(h, nil)
	ops := x.opsOfFn(h, newC16Eval())
	nArr, nVal := 0, 0
	msg := ""
	for _, o := range ops {
		switch {
		case o.Kind == "Array":
			nArr++
			fss := fl.At(o.Call.Block())
			for _, fs := range fss {
				if !fs.holdsEq(sc, c16CborIndef) {
					msg = "the chunk array is decoded on a path that does not know shortCount == 31 (a definite-length string can take it, e.g. one of exactly 31 bytes when count is tested)"
				}
			}
			if len(fss) == 0 {
				msg = "the chunk array is unreachable"
			}
		case o.isRead() && o.Field == "value":
			nVal++
			fss := fl.At(o.Call.Block())
			for _, fs := range fss {
				if !fs.knowsNe(sc, c16CborIndef) {
					msg = "the definite-length payload read is on a path that does not know shortCount != 31"
				}
			}
			if len(fss) == 0 {
				msg = "the definite-length payload read is unreachable"
			}
		}
	}
	if msg == "" && (nArr != 1 || nVal != 1) {
		msg = fmt.Sprintf("expected one chunk array and one definite payload read, found %d and %d", nArr, nVal)
	}
	ri.Check(msg == "", key, pos, "chunked exactly when shortCount == 31", fmt.Sprintf("major type %d: %s", k, msg))
}

// cborDispatchReturn: the dispatcher hands the handler's result to its caller (the chunk loops
// consume it).
func (x *c16) cborDispatchReturn(rk *fw.Rule, tableFn *ssa.Function, dyn *ssa.Call) {
	ok := false
	if refs := dyn.Referrers(); refs != nil {
		for _, r := range *refs {
			if ret, isRet := r.(*ssa.Return); isRet && len(ret.Results) == 1 && ret.Results[0] == ssa.Value(dyn) {
				ok = true
			}
		}
	}
	rk.Check(ok, "dispatch:return", x.p.Rel(dyn.Pos()), "handler result returned", tableFn.Name()+" does not return the handler's result: every chunk of an indefinite-length string arrives as nil and is rejected as a non-string chunk")
}

func c16IsByteSlice(t types.Type) bool {
	s, ok := t.Underlying().(*types.Slice)
	if !ok {
		return false
	}
	b, ok := s.Elem().Underlying().(*types.Basic)
	return ok && b.Kind() == types.Uint8
}

func c16IsString(t types.Type) bool {
	b, ok := t.Underlying().(*types.Basic)
	return ok && b.Kind() == types.String
}

// c16FlowsFrom: v is computed from src through at most depth value operands.
func c16FlowsFrom(v, src ssa.Value, depth int) bool {
	if v == src {
		return true
	}
	if depth == 0 {
		return false
	}
	ins, ok := v.(ssa.Instruction)
	if !ok {
		return false
	}
	for _, op := range ins.Operands(nil) {
		if *op != nil && c16FlowsFrom(*op, src, depth-1) {
			return true
		}
	}
	return false
}

// cborChunks: value flow of the chunks of an indefinite-length string (major type 2 / 3).
func (x *c16) cborChunks(rk *fw.Rule, k int64, h *ssa.Function, tableFn *ssa.Function) {
	sc := ssa.Value(h.Params[1])
	pos := x.p.Rel(h.Pos())
	isWant := c16IsByteSlice
	wantName := "[]byte"
	if k == 3 {
		isWant, wantName = c16IsString, "string"
	}
	// (1) the definite path returns the payload it read
	fl := c16Facts(h, nil)
	e := newC16Eval()
	var valRead *ssa.Call
	for _, o := range x.opsOfFn(h, e) {
		if o.isRead() && o.Field == "value" {
			valRead = o.Call
		}
	}
	msg := ""
	nDef := 0
	for _, b := range h.Blocks {
		ret, ok := b.Instrs[len(b.Instrs)-1].(*ssa.Return)
		if !ok || len(ret.Results) != 1 {
			continue
		}
		definite := false
		for _, fs := range fl.At(b) {
			if !fs.holdsEq(sc, c16CborIndef) {
				definite = true
			}
		}
		if !definite {
			continue
		}
		nDef++
		inner, t := stripIface(ret.Results[0])
		switch {
		case valRead == nil:
			msg = "no payload read named value"
		case !isWant(t):
			msg = "the definite path returns " + t.String() + ", the chunk loop accepts only " + wantName
		case !c16FlowsFrom(inner, valRead, 3):
			msg = "the returned " + wantName + " is not the payload read as \"value\""
		}
	}
	if nDef == 0 && msg == "" {
		msg = "no return on the definite path"
	}
	rk.Check(msg == "", fmt.Sprintf("major:%d:return", k), pos, "definite path returns its payload as "+wantName, fmt.Sprintf("major type %d: %s: chunks of an indefinite-length string are rejected or lost", k, msg))

	// (2) every chunk is appended to the buffer the value is built from
	msg = "no chunk decoded through " + tableFn.Name()
	var buf ssa.Value
	for _, fn := range fw.WithClosures(h) {
		if fn == h {
			continue
		}
		for _, c := range fw.CallsIn(fn) {
			call, ok := c.(*ssa.Call)
			if !ok || call.Common().StaticCallee() != tableFn || call.Referrers() == nil {
				continue
			}
			msg = "the chunk is not type-asserted to " + wantName
			for _, r := range *call.Referrers() {
				ta, ok := r.(*ssa.TypeAssert)
				if !ok || !isWant(ta.AssertedType) {
					continue
				}
				msg = "the asserted chunk is not appended to a buffer"
				var vals []ssa.Value
				if ta.CommaOk {
					for _, rr := range *ta.Referrers() {
						if ex, ok := rr.(*ssa.Extract); ok && ex.Index == 0 {
							vals = append(vals, ex)
						}
					}
				} else {
					vals = append(vals, ta)
				}
				for _, v := range vals {
					if v.Referrers() == nil {
						continue
					}
					for _, rr := range *v.Referrers() {
						w, ok := rr.(*ssa.Call)
						if !ok || len(w.Common().Args) != 2 || w.Common().Args[1] != v {
							continue
						}
						cal := w.Common().StaticCallee()
						if cal == nil || cal.Pkg == nil || (cal.Name() != "Write" && cal.Name() != "WriteString") {
							continue
						}
						if pp := cal.Pkg.Pkg.Path(); pp != "bytes" && pp != "strings" {
							continue
						}
						buf = c16Origin(w.Common().Args[0])
						msg = ""
					}
				}
			}
		}
	}
	if msg == "" {
		// the "value" field of the indefinite path is built from buf.Bytes() / buf.String()
		msg = "the \"value\" field of the chunked form is not built from the buffer the chunks are appended to"
		var take *ssa.Call
		for _, c := range fw.CallsIn(h) {
			call, ok := c.(*ssa.Call)
			if !ok {
				continue
			}
			cal := call.Common().StaticCallee()
			if cal != nil && (cal.Name() == "Bytes" || cal.Name() == "String") && len(call.Common().Args) == 1 && c16Origin(call.Common().Args[0]) == buf {
				take = call
			}
		}
		if take != nil {
			for _, o := range x.opsOfFn(h, newC16Eval()) {
				if o.Field != "value" || o.isRead() {
					continue
				}
				for _, a := range o.Args[1:] {
					if c16FlowsFrom(a, take, 4) {
						msg = ""
						// a bit reader over the bytes must cover all of them
						for _, c := range fw.CallsIn(h) {
							nb, ok := c.(*ssa.Call)
							if !ok || nb.Common().StaticCallee() == nil || nb.Common().StaticCallee().Name() != "NewBitReader" || len(nb.Common().Args) != 2 {
								continue
							}
							if !c16FlowsFrom(nb.Common().Args[0], take, 2) {
								continue
							}
							l := newC16Eval().lin(nb.Common().Args[1])
							if cst, isC := l.isConst(); isC {
								if cst != -1 {
									msg = fmt.Sprintf("the concatenated chunks are wrapped in a bit reader of %d bits instead of all (-1)", cst)
								}
							} else {
								all8 := l.C%8 == 0
								for _, f := range l.T {
									if f%8 != 0 {
										all8 = false
									}
								}
								if !all8 {
									msg = "the concatenated chunks are wrapped in a bit reader whose length " + l.String() + " is not a multiple of 8 bits per byte"
								}
							}
						}
					}
				}
			}
		}
	}
	rk.Check(msg == "", fmt.Sprintf("major:%d:accumulate", k), pos, "chunks appended, value built from the buffer", fmt.Sprintf("major type %d: %s", k, msg))
}

// ---------------------------------------------------------------------------
// asn1

// c16UpperBound: the largest value of orig the dominating ordering guards of b allow.
func c16UpperBound(b *ssa.BasicBlock, orig ssa.Value) (int64, bool) {
	best, has := int64(0), false
	for _, g := range fw.Guards(b) {
		g = c16ResolveGuard(g.Normalize())
		bo, ok := g.Cond.(*ssa.BinOp)
		if !ok {
			continue
		}
		op := bo.Op
		var c int64
		if cc, isC := c16ConstInt(bo.Y); isC && c16Origin(bo.X) == orig {
			c = cc
		} else if cc, isC := c16ConstInt(bo.X); isC && c16Origin(bo.Y) == orig {
			c = cc
			switch op { // c op v  ==  v op' c
			case token.LSS:
				op = token.GTR
			case token.GTR:
				op = token.LSS
			case token.LEQ:
				op = token.GEQ
			case token.GEQ:
				op = token.LEQ
			}
		} else {
			continue
		}
		if !g.True {
			switch op {
			case token.GTR:
				op = token.LEQ
			case token.GEQ:
				op = token.LSS
			case token.LSS:
				op = token.GEQ
			case token.LEQ:
				op = token.GTR
			case token.EQL:
				op = token.NEQ
			case token.NEQ:
				op = token.EQL
			}
		}
		var ub int64
		switch op {
		case token.LEQ, token.EQL:
			ub = c
		case token.LSS:
			ub = c - 1
		default:
			continue
		}
		if !has || ub < best {
			best, has = ub, true
		}
	}
	return best, has
}

// asn1IntWidth: X.690 8.3 integers are two's complement of `length` octets; the fixed-width
// signed reader takes at most 64 bits, so it may only serve lengths up to 8 (a uint64 above
// 2^63-1 needs 9 octets).
func (x *c16) asn1IntWidth(rr *fw.Rule, ard []c16Op, lenOrig ssa.Value, pos string) {
	msg := ""
	nS := 0
	for _, o := range ard {
		if o.Kind != "S" {
			continue
		}
		nS++
		ub, ok := c16UpperBound(o.Call.Block(), lenOrig)
		switch {
		case !ok:
			msg = "the 64-bit signed reader is not limited to lengths <= 8 octets"
		case ub > 8:
			msg = fmt.Sprintf("the 64-bit signed reader serves lengths up to %d octets (more than 64 bits): integers of 9..%d octets fail to decode", ub, ub)
		}
		if ok && ub <= 8 {
			pos = x.p.Rel(o.Call.Pos())
		}
	}
	big := false
	for _, o := range ard {
		if o.Kind == "SBig" {
			big = true
		}
	}
	if msg == "" && !big && nS > 0 {
		msg = "no arbitrary-precision read for integers longer than 8 octets"
	}
	rr.Check(msg == "", "tag:integer:width", pos, "S for <= 8 octets, big integer above", "universal integer: "+msg)
}

func c16ConstBool(v ssa.Value) (bool, bool) {
	inner, _ := stripIface(v)
	c, ok := inner.(*ssa.Const)
	if !ok || c.Value == nil || c.Value.Kind() != constant.Bool {
		return false, false
	}
	return constant.BoolVal(c.Value), true
}

// asn1BoolSym: X.690 8.2.2: content octet 0 is FALSE, any other value is TRUE; torepr takes the Sym.
func (x *c16) asn1BoolSym(rr *fw.Rule, op c16Op) {
	pos := x.p.Rel(op.Call.Pos())
	var rows []c16Row
	for _, m := range c16Mappers(op.Call) {
		if sl, ok := m.(*ssa.Slice); ok {
			if a, ok := sl.X.(*ssa.Alloc); ok {
				rows = c16SliceRows(a)
			}
		}
	}
	if len(rows) == 0 {
		rr.Fail("tag:boolean:sym", pos, "universal boolean: the content octet is not mapped to false / true by a literal range table: torepr yields a number")
		return
	}
	u := func(row c16Row, k string) int64 {
		if v, ok := row.Fields[k]; ok {
			if i, ok := c16ConstInt(v); ok {
				return i
			}
			return -1
		}
		return 0
	}
	var okF, okT bool
	msg := ""
	for _, row := range rows {
		lo, hi := u(row, "Range[0]"), u(row, "Range[1]")
		sym, isB := c16ConstBool(row.Fields["S.Sym"])
		if !isB || lo < 0 || hi < lo {
			msg = "range entry with a non-constant bound or a non-boolean Sym"
			continue
		}
		switch {
		case lo == 0 && hi == 0:
			okF = !sym
			if sym {
				msg = "content octet 0 is mapped to true"
			}
		case lo >= 1 && !sym:
			msg = fmt.Sprintf("content octets %d..%d are mapped to false", lo, hi)
		case lo == 1 && hi >= 0xff:
			okT = true
		case lo == 0 && hi > 0:
			msg = fmt.Sprintf("one entry covers 0..%d: false and true are not separated", hi)
		}
	}
	if msg == "" && !(okF && okT) {
		msg = "the table does not map 0 to false and 1..255 to true"
	}
	rr.Check(msg == "", "tag:boolean:sym", pos, "0 -> false, 1..255 -> true", "universal boolean: "+msg)
}

// asn1TagNumber: X.690 8.1.2: low five bits of the identifier octet; 31 announces the high form:
// base-128 digits, most significant first, bit 8 set on all but the last.
func (x *c16) asn1TagNumber(rr *fw.Rule, tagOps []c16Op, vpos string) {
	var fn *ssa.Function
	same := true
	for _, o := range tagOps {
		f := c16FnArg(o, 1)
		if fn != nil && f != fn {
			same = false
		}
		fn = f
	}
	if fn == nil || !same {
		rr.Check(same && fn != nil, "identifier:tag-number", vpos, "", "the tag number is not scanned by one function for every class")
		return
	}
	pos := x.p.Rel(fn.Pos())
	e := newC16Eval()
	rd := c16Reads(x.opsOfFn(fn, e))
	isK := func(o c16Op, kind string, w int64) bool {
		c, ok := o.Bits.isConst()
		return o.Kind == kind && ok && c == w
	}
	msg := ""
	var low, more, digit *c16Op
	for i := range rd {
		o := &rd[i]
		switch {
		case low == nil && isK(*o, "U", 5):
			low = o
		case more == nil && isK(*o, "Bool", 1):
			more = o
		case digit == nil && isK(*o, "U", 7):
			digit = o
		default:
			msg = fmt.Sprintf("unexpected read %s%s", o.Kind, o.Bits)
		}
	}
	if msg == "" && (low == nil || more == nil || digit == nil || rd[0].Call != low.Call) {
		msg = "expected U5, then per following octet a continuation bit and 7 digit bits; found " + c16OpsStr(rd)
	}
	if msg == "" {
		// 31 selects the high form
		sel := false
		for k := range c16CaseConsts(fn, low.Call) {
			if k == "31" {
				sel = true
			}
		}
		// continuation bit before the digit, in the same block, and it steers a branch
		steer := false
		var walk func(v ssa.Value, d int)
		walk = func(v ssa.Value, d int) {
			if d == 0 || v.Referrers() == nil {
				return
			}
			for _, r := range *v.Referrers() {
				switch t := r.(type) {
				case *ssa.If:
					steer = true
				case *ssa.Phi:
					walk(t, d-1)
				case *ssa.UnOp:
					walk(t, d-1)
				case *ssa.Store:
					// a captured / address-taken local: follow its loads
					if t.Addr.Referrers() != nil {
						for _, rr := range *t.Addr.Referrers() {
							if ld, ok := rr.(*ssa.UnOp); ok && ld.Op == token.MUL {
								walk(ld, d-1)
							}
						}
					}
				}
			}
		}
		walk(more.Call, 4)
		// v = v<<7 | digit
		acc := false
		if digit.Call.Referrers() != nil {
			for _, r := range *digit.Call.Referrers() {
				bo, ok := r.(*ssa.BinOp)
				if !ok || (bo.Op != token.OR && bo.Op != token.ADD) {
					continue
				}
				other := bo.X
				if other == ssa.Value(digit.Call) {
					other = bo.Y
				}
				if sh, ok := other.(*ssa.BinOp); ok {
					if c, isC := c16ConstInt(sh.Y); isC && ((sh.Op == token.SHL && c == 7) || (sh.Op == token.MUL && c == 128)) {
						acc = true
					}
				}
			}
		}
		switch {
		case !sel:
			msg = "the low five bits are not compared with 31 to select the high-tag-number form"
		case more.Call.Block() != digit.Call.Block() || c16InstrIdx(more.Call) > c16InstrIdx(digit.Call):
			msg = "the continuation bit is not read before the 7 digit bits of the same octet"
		case !steer:
			msg = "the continuation bit does not steer the loop"
		case !acc:
			msg = "digits are not accumulated as v<<7 | digit"
		}
	}
	rr.Check(msg == "", "identifier:tag-number", pos, "U5, 31 -> base-128 digits", "tag number: "+msg)
}

func c16InstrIdx(ins ssa.Instruction) int {
	for i, x := range ins.Block().Instrs {
		if x == ins {
			return i
		}
	}
	return -1
}

// asn1EndOfContents: X.690 8.1.5: an indefinite-length constructed value ends with the two
// end-of-contents octets 00 00. The member loop must look for them and the decoder must consume
// exactly 16 bits after the members, and only for the indefinite form.
func (x *c16) asn1EndOfContents(rl *fw.Rule, body *ssa.Function, opt *c16FlowOpt, lenOrig ssa.Value, sentinel int64) {
	pos := x.p.Rel(body.Pos())
	var arr *c16Op
	for _, o := range c16Find(x.opsOfFn(body, newC16Eval()), "Array") {
		o := o
		if cl := c16FnArg(o, 1); cl != nil && arr == nil {
			for _, so := range c16Find(x.opsOfFn(cl, newC16Eval()), "Struct") {
				_ = so
				arr = &o
			}
		}
	}
	if arr == nil {
		rl.Undecided("indefinite:end-marker", pos, "member array not found")
		return
	}
	ev := func(ins ssa.Instruction) string {
		c, ok := ins.(*ssa.Call)
		if !ok {
			return ""
		}
		if c == arr.Call {
			return "members"
		}
		if o, ok := x.op(c, newC16Eval()); ok && o.Kind == "U" {
			if w, isC := o.Bits.isConst(); isC && w == 16 {
				return "u16"
			}
		}
		return ""
	}
	fl := c16FactsOpt(body, ev, opt)
	if fl.Overflow {
		rl.Undecided("indefinite:end-marker", pos, "too many paths")
		return
	}
	msg := ""
	hit := false
	for _, b := range body.Blocks {
		if _, isRet := b.Instrs[len(b.Instrs)-1].(*ssa.Return); !isRet {
			continue
		}
		for _, fs := range fl.AtExit(b) {
			indef := fs.holdsEq(lenOrig, sentinel)
			switch {
			case fs.events["members"] && indef && !fs.events["u16"]:
				msg = "an indefinite-length constructed value returns without consuming the two end-of-contents octets: they are decoded as siblings"
			case fs.events["u16"] && !indef:
				msg = "two octets are consumed as end-of-contents on a path that does not know the length is indefinite"
			case fs.events["members"] && indef:
				hit = true
			}
		}
	}
	if msg == "" && !hit {
		msg = "no path decodes members with indefinite length"
	}
	rl.Check(msg == "", "indefinite:end-marker", x.p.Rel(arr.Call.Pos()), "00 00 consumed exactly for the indefinite form", "asn1_ber: "+msg)

	// the member loop stops in front of the end-of-contents octets
	cl := c16FnArg(*arr, 1)
	test := false
	fw.EachInstr(cl, func(ins ssa.Instruction) {
		bo, ok := ins.(*ssa.BinOp)
		if !ok || (bo.Op != token.EQL && bo.Op != token.NEQ) {
			return
		}
		for _, pair := range [][2]ssa.Value{{bo.X, bo.Y}, {bo.Y, bo.X}} {
			call, isCall := pair[0].(*ssa.Call)
			c, isC := c16ConstInt(pair[1])
			if !isCall || !isC || c != 0 {
				continue
			}
			if o, ok := x.op(call, newC16Eval()); ok && o.Kind == "Peek" && len(o.Args) > 0 {
				if w, ok := c16ConstInt(o.Args[0]); ok && (w == 8 || w == 16) {
					test = true
				}
			}
		}
	})
	rl.Check(test, "indefinite:end-test", x.p.Rel(cl.Pos()), "member loop peeks for the 00 octets", "asn1_ber: the member loop does not test the next octets against the end-of-contents marker: an indefinite-length value swallows its terminator and siblings")
}
