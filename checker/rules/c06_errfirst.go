package rules

import (
	"fmt"
	"go/token"
	"go/types"
	"strings"

	"golang.org/x/tools/go/ssa"

	"fqverif/fw"
)

// ---------------------------------------------------------------------------
// C06.errfirst: the value returned next to an error is not used before the error is looked at
//
// (x, err) := f(...) for a library constructor or a function value (zlib.NewReader, a reader factory
// handed in by a decoder, regexp.Compile, ...) returns a nil x together with a non-nil err; this is where
// a decoder turns a malformed stream into a decode error. Calling a method of x, deferring x.Close() or
// reading a field of x before the `err != nil` test dereferences nil: a runtime.Error that recoverfn.Run
// re-panics. Obligation, in pkg/decode, pkg/interp and format/**, for every call that is not a static call
// of an fq function (those are C06.nilres, which knows the callee's nil returns) and returns (.., x, ..,
// error) with x a pointer or interface whose error result is bound: every dereferencing use of x (method
// invoke, also in defer/go; field access; load; handing x to a library function or to an fq function that
// dereferences the parameter) is dominated by err == nil
// or x != nil.

var errFirstExceptions = map[string]string{
	"(*pkg/decode.D).TryFieldValue|param:fn#0|1": "the value callback always returns a non-nil *Value, also together with an error (every static caller passes a closure whose returns are checked here); the value is needed to record name and range of the failed field",
}

var errFirstExceptionChecks = map[string]func(p *fw.Program) string{
	"(*pkg/decode.D).TryFieldValue|param:fn#0|1": func(p *fw.Program) string {
		return c06ClosureArgNeverNil(p, "(*pkg/decode.D).TryFieldValue", 2, 0)
	},
}

// c06ClosureArgNeverNil: every static caller of fn passes, as argument argIdx, a function literal (or a
// named function) none of whose returns has the nil constant as result resIdx. "" when so.
func c06ClosureArgNeverNil(p *fw.Program, fn string, argIdx, resIdx int) string {
	f := p.Fn(fn)
	if f == nil {
		return fn + " not found"
	}
	cs := callersOf(p, f)
	if len(cs) == 0 {
		return "no static callers of " + fn
	}
	for _, c := range cs {
		args := c.Common().Args
		if argIdx >= len(args) {
			return "argument missing in " + fw.ShortFn(c.Parent())
		}
		var cb *ssa.Function
		switch a := args[argIdx].(type) {
		case *ssa.MakeClosure:
			cb, _ = a.Fn.(*ssa.Function)
		case *ssa.Function:
			cb = a
		}
		if cb == nil {
			return fw.ShortFn(c.Parent()) + " passes a callback that is not a function literal"
		}
		bad := ""
		fw.EachInstr(cb, func(ins ssa.Instruction) {
			if ret, ok := ins.(*ssa.Return); ok && resIdx < len(ret.Results) {
				if isNilConst(ret.Results[resIdx]) {
					bad = "callback in " + fw.ShortFn(c.Parent()) + " returns nil"
				}
				// a forwarded call result: must itself be a literal-returning callback of the same kind
				if ex, ok := ret.Results[resIdx].(*ssa.Extract); ok {
					if cl, ok := ex.Tuple.(*ssa.Call); ok {
						if idxs, _ := c06NilReturns(cl.Common().StaticCallee()); cl.Common().StaticCallee() == nil || idxs[ex.Index] {
							bad = "callback in " + fw.ShortFn(c.Parent()) + " forwards a result that may be nil"
						}
					}
				}
			}
		})
		if bad != "" {
			return bad
		}
	}
	return ""
}

func c06ErrFirst(r *fw.Run, p *fw.Program) {
	ru := r.Rule("C06.errfirst", "in pkg/decode, pkg/interp and format/**, a pointer or interface returned together with an error by a library function or a function value is dereferenced (method call incl. defer/go, field access, load) only where the guards establish err == nil or value != nil: the `defer x.Close()` placed before the error test is a nil dereference on the failure path, i.e. on malformed input", 10)
	errT := types.Universe.Lookup("error").Type()
	for _, fn := range p.FqFunctions() {
		pr := pkgRel(fn)
		if !strings.HasPrefix(pr, "format") && pr != "pkg/decode" && pr != "pkg/interp" {
			continue
		}
		if !linkedPackages(p)[fw.FnPkgPath(fn)] {
			continue
		}
		if fn.TypeParams().Len() > 0 && len(fn.TypeArgs()) == 0 {
			continue
		}
		ord := map[string]int{}
		for _, ci := range fw.CallsIn(fn) {
			call, ok := ci.(*ssa.Call)
			if !ok || call.Referrers() == nil {
				continue
			}
			cc := call.Common()
			if cal := cc.StaticCallee(); cal != nil && fw.InFq(cal) {
				continue
			}
			sig := cc.Signature()
			if sig == nil || sig.Results().Len() < 2 || !types.Identical(sig.Results().At(sig.Results().Len()-1).Type(), errT) {
				continue
			}
			results := map[int]ssa.Value{}
			for _, rf := range *call.Referrers() {
				if ex, ok := rf.(*ssa.Extract); ok {
					results[ex.Index] = ex
				}
			}
			errV := results[sig.Results().Len()-1]
			if errV == nil || errV.Referrers() == nil || len(*errV.Referrers()) == 0 {
				continue // error discarded: nothing to order against
			}
			for i := 0; i < sig.Results().Len()-1; i++ {
				rv := results[i]
				if rv == nil || rv.Referrers() == nil {
					continue
				}
				switch rv.Type().Underlying().(type) {
				case *types.Pointer, *types.Interface:
				default:
					continue
				}
				var derefs []ssa.Instruction
				for _, use := range *rv.Referrers() {
					switch x := use.(type) {
					case *ssa.FieldAddr:
						if x.X == rv {
							derefs = append(derefs, x)
						}
					case *ssa.UnOp:
						if x.Op == token.MUL && x.X == rv {
							derefs = append(derefs, x)
						}
					case ssa.CallInstruction:
						c2 := x.Common()
						if c2.IsInvoke() {
							if c2.Value == rv {
								derefs = append(derefs, x)
							}
							continue
						}
						// x handed to a function (receiver or argument): library code uses it; fq code is looked at
						for ai, a := range c2.Args {
							if a != rv {
								continue
							}
							callee := c2.StaticCallee()
							if callee != nil && fw.InFq(callee) {
								if ai < len(callee.Params) && c06DerefsParam(callee.Params[ai], 0) {
									derefs = append(derefs, x)
								}
								continue
							}
							if _, isB := c2.Value.(*ssa.Builtin); isB {
								continue
							}
							derefs = append(derefs, x)
						}
					}
				}
				if len(derefs) == 0 {
					continue
				}
				name := fw.CalleeName(call)
				if name == "" {
					switch v := cc.Value.(type) {
					case *ssa.Parameter:
						name = "param:" + v.Name()
					default:
						name = "dynamic"
					}
				}
				ord[name]++
				key := fmt.Sprintf("%s|%s#%d|%d", fw.ShortFn(fn), name, i, ord[name])
				bad, badPos := "", ""
				for _, use := range derefs {
					if !c06GuardedNonNil(rv, errV, true, use.Block()) && bad == "" {
						bad = "result #" + fmt.Sprint(i) + " of " + name + " is used before the error returned with it is tested"
						badPos = p.Rel(use.Pos())
					}
				}
				if bad == "" {
					ru.Ok(key, p.Rel(call.Pos()), fmt.Sprintf("%d uses, all after the error test", len(derefs)))
					continue
				}
				if reason, has := errFirstExceptions[key]; has {
					if chk := errFirstExceptionChecks[key]; chk != nil {
						if why := chk(p); why != "" {
							ru.Fail(key, badPos, "the exception for this use ("+reason+") no longer holds: "+why)
							continue
						}
					}
					ru.Except(key, badPos, reason)
					continue
				}
				ru.Fail(key, badPos, bad+": on the failure path (malformed input) the value is nil and the use is a nil dereference that ends fq instead of a decode error")
			}
		}
	}
}
