package rules

import (
	"fmt"
	"go/constant"
	"go/types"
	"strings"

	"golang.org/x/tools/go/ssa"

	"fqverif/fw"
)

func init() { Register("C06", runC06) }

func recoverableIface(p *fw.Program) *types.Interface {
	n := p.NamedType("internal/recoverfn", "RecoverableErrorer")
	if n == nil {
		return nil
	}
	i, _ := n.Underlying().(*types.Interface)
	return i
}

func runC06(r *fw.Run, p *fw.Program) {
	recov := recoverableIface(p)
	if recov == nil {
		r.Fatal("anchor missing: internal/recoverfn.RecoverableErrorer")
		return
	}
	roots, nonFunc := DecodeRoots(p)
	rRoots := r.Rule("C06.roots", "every decode.Format.DecodeFn store is a resolvable function (decode roots enumerated)", 125)
	for _, f := range roots {
		rRoots.Ok(fw.ShortFn(f), p.Rel(f.Pos()), "decode root")
	}
	for _, ins := range nonFunc {
		// parameter-forwarding helpers (decode.FormatFn style) are fine when the stored value is a parameter
		st := ins.(*ssa.Store)
		if _, ok := st.Val.(*ssa.Parameter); ok {
			rRoots.Ok("param:"+fw.ShortFn(ins.Parent()), p.Rel(ins.Pos()), "DecodeFn forwarded from parameter")
			continue
		}
		if _, ok := st.Val.(*ssa.UnOp); ok {
			// copy of another Format's DecodeFn field
			rRoots.Ok("copy:"+fw.ShortFn(ins.Parent()), p.Rel(ins.Pos()), "DecodeFn copied from a value")
			continue
		}
		rRoots.Undecided("store:"+fw.ShortFn(ins.Parent()), p.Rel(ins.Pos()), "DecodeFn stored from unresolvable value "+st.Val.String())
	}
	reach := p.Reachable(roots)
	r.Notes["functions_reachable_from_decode_roots"] = len(reach)

	c06Recover(r, p, recov)
	c06RecoverFlow(r, p)
	c06FailPrimitives(r, p)
	c06Panic(r, p, recov, reach)
	c06Assert(r, p, reach)
	c06ErrVal(r, p, roots)
	c06Table(r, p, reach)
	c06Idx(r, p, reach)
	c06Force(r, p)
	c06Param(r, p, reach)
	c06BufSlice(r, p, reach)
	c06Alloc(r, p)
	c06Bounds(r, p, reach)
	c06Sentinel(r, p, reach)
	c06WrapGuard(r, p)
	c06ForceEq(r, p)
	c06TypedNil(r, p)
	c06Div(r, p)
	c06LenIdx(r, p)
	c06Array(r, p)
	c06ApiSign(r, p)
	c06WrapConv(r, p)
	c06NilRes(r, p)
	c06USub(r, p)
	c06RdSlice(r, p)
	c06LenMin(r, p)
	c06ErrFirst(r, p)
	c06LoopGuard(r, p)
	c06NilField(r, p)
	c06ExploreArrays(p)
	c06ExploreNilField(p)
	c06ExploreRecSeek(p)
	c06Sym(r, p)
	c06OutType(r, p)
	c06DebugSSA(p)
	c06ExploreConstIdx(p)
	r.GxDumpObligations("C06")
}

// ---------------------------------------------------------------------------
// C06.recover

func c06Recover(r *fw.Run, p *fw.Program, recov *types.Interface) {
	ru := r.Rule("C06.recover", "DecodeFn is only invoked inside recoverfn.Run; Run recovers exactly RecoverableErrorer values with IsRecoverableError()==true and re-panics the rest; the decode error types implement it returning true; the recovered value reaches decode() and is consumed exactly when Run reports not-ok; D.Fatalf/IOPanic never return and D.Errorf panics exactly without force", 13)
	named, idx := decodeFormatField(p, "DecodeFn")
	runFn := p.Fn("internal/recoverfn.Run")
	if runFn == nil {
		ru.Undecided("anchor", "", "internal/recoverfn.Run not found")
		return
	}
	// (a) every dynamic call of a value loaded from Format.DecodeFn is inside a closure passed to recoverfn.Run
	n := 0
	for _, fn := range p.FqFunctions() {
		for _, c := range fw.CallsIn(fn) {
			cc := c.Common()
			if cc.IsInvoke() || cc.StaticCallee() != nil {
				continue
			}
			ld, ok := cc.Value.(*ssa.UnOp)
			if !ok || !isFieldAddrOf(ld.X, named, idx) {
				continue
			}
			n++
			key := "call-DecodeFn:" + fw.ShortFn(fn)
			ok2 := false
			if fn.Parent() != nil {
				// find MakeClosure of fn in parent and its use as argument of recoverfn.Run
				fw.EachInstr(fn.Parent(), func(ins ssa.Instruction) {
					mc, ok := ins.(*ssa.MakeClosure)
					if !ok || mc.Fn != fn {
						return
					}
					for _, ref := range *mc.Referrers() {
						if call, ok := ref.(*ssa.Call); ok && call.Common().StaticCallee() == runFn {
							ok2 = true
						}
					}
				})
			}
			ru.Check(ok2, key, p.Rel(c.Pos()), "inside closure passed to recoverfn.Run", "Format.DecodeFn invoked outside recoverfn.Run: a decoder panic would not be recovered")
		}
	}
	if n == 0 {
		ru.Undecided("call-DecodeFn", "", "no invocation of Format.DecodeFn found")
	}
	// (b) shape of recoverfn.Run
	var recFn *ssa.Function
	var recCall *ssa.Call
	for _, f := range fw.WithClosures(runFn) {
		for _, c := range fw.CallsIn(f) {
			if fw.IsBuiltinCall(c, "recover") {
				if cl, ok := c.(*ssa.Call); ok {
					recFn, recCall = f, cl
				}
			}
		}
	}
	if recFn == nil {
		ru.Fail("Run:recover", p.Rel(runFn.Pos()), "recoverfn.Run has no recover() call")
	} else {
		// deferred?
		deferred := false
		for _, f := range fw.WithClosures(runFn) {
			fw.EachInstr(f, func(ins ssa.Instruction) {
				if d, ok := ins.(*ssa.Defer); ok {
					if mc, ok := d.Call.Value.(*ssa.MakeClosure); ok && mc.Fn == recFn {
						deferred = true
					}
					if d.Call.Value == ssa.Value(recFn) {
						deferred = true
					}
				}
			})
		}
		ru.Check(deferred, "Run:deferred", p.Rel(recCall.Pos()), "recover() runs in a deferred closure", "recover() is not in a deferred closure of Run")
		// every Return-terminated block of recFn reachable after recover must be guarded by
		// recoverV == nil, or by (assert ok) and IsRecoverableError() true; and a panic(recoverV) exists.
		var rePanic *ssa.Panic
		fw.EachInstr(recFn, func(ins ssa.Instruction) {
			if pn, ok := ins.(*ssa.Panic); ok && pn.X == ssa.Value(recCall) {
				rePanic = pn
			}
		})
		ru.Check(rePanic != nil, "Run:repanic", p.Rel(recCall.Pos()), "panic(recoverV) present", "Run does not re-panic the recovered value")
		var assert *ssa.TypeAssert
		var isRec *ssa.Call
		fw.EachInstr(recFn, func(ins ssa.Instruction) {
			if ta, ok := ins.(*ssa.TypeAssert); ok && ta.X == ssa.Value(recCall) && ta.CommaOk {
				if it, ok := ta.AssertedType.Underlying().(*types.Interface); ok && types.Identical(it, recov) {
					assert = ta
				}
			}
			if c, ok := ins.(*ssa.Call); ok && c.Common().IsInvoke() && c.Common().Method.Name() == "IsRecoverableError" {
				isRec = c
			}
		})
		if assert == nil || isRec == nil {
			ru.Fail("Run:filter", p.Rel(recCall.Pos()), "Run does not test recovered value with .(RecoverableErrorer) and IsRecoverableError()")
		} else {
			okAll := true
			detail := ""
			for _, b := range recFn.Blocks {
				if _, isRet := b.Instrs[len(b.Instrs)-1].(*ssa.Return); !isRet {
					continue
				}
				gs := fw.Guards(b)
				nilGuard, okGuard, recGuard := false, false, false
				for _, g := range gs {
					g = g.Normalize()
					if bo, ok := g.Cond.(*ssa.BinOp); ok && (bo.X == ssa.Value(recCall) || bo.Y == ssa.Value(recCall)) {
						// recoverV != nil  false  or recoverV == nil true
						if (bo.Op.String() == "!=" && !g.True) || (bo.Op.String() == "==" && g.True) {
							nilGuard = true
						}
					}
					if ex, ok := g.Cond.(*ssa.Extract); ok && ex.Tuple == ssa.Value(assert) && ex.Index == 1 && g.True {
						okGuard = true
					}
					if g.Cond == ssa.Value(isRec) && g.True {
						recGuard = true
					}
				}
				if !(nilGuard || (okGuard && recGuard)) {
					okAll = false
					detail = fmt.Sprintf("return in block %d reachable without (ok && IsRecoverableError()) or recoverV==nil", b.Index)
				}
			}
			ru.Check(okAll, "Run:filter", p.Rel(recCall.Pos()), "only recoverable values are swallowed", "Run can swallow a non-recoverable panic: "+detail)
		}
	}
	// (c) the three decode error types implement RecoverableErrorer with constant true
	for _, tn := range []string{"IOError", "DecoderError", "FormatsError"} {
		nt := p.NamedType("pkg/decode", tn)
		if nt == nil {
			ru.Undecided("type:"+tn, "", "decode."+tn+" not found")
			continue
		}
		if !fw.Implements(nt, recov) {
			ru.Fail("type:"+tn, "", "decode."+tn+" does not implement RecoverableErrorer: its panics kill fq")
			continue
		}
		m := p.Fn("(pkg/decode." + tn + ").IsRecoverableError")
		okTrue := false
		if m != nil && len(m.Blocks) == 1 {
			if ret, ok := m.Blocks[0].Instrs[len(m.Blocks[0].Instrs)-1].(*ssa.Return); ok && len(ret.Results) == 1 {
				if c, ok := ret.Results[0].(*ssa.Const); ok && c.Value != nil && c.Value.String() == "true" {
					okTrue = true
				}
			}
		}
		ru.Check(okTrue, "type:"+tn, "", "IsRecoverableError() is constant true", "decode."+tn+".IsRecoverableError does not return constant true")
	}
}

// ---------------------------------------------------------------------------
// C06.panic

// panicExceptions: explicit panics reachable (per VTA) from a decode root whose operand is not a
// RecoverableErrorer. key = function|operand type|constant message. One line of reason each.
var panicExceptions = map[string]string{
	// --- unreachable by construction (argued from the code; exhaustiveness of the guarding table is checked by the named rule where one exists)
	"(*format/inet/flowsdecoder.TCPConnection).ReassembledSG|string|unreachable":                       "unreachable: reassembly.TCPFlowDirection is a bool; both values are cases (C19.dir checks the switch)",
	"format/cbor.decodeCBORValue|string|unreachable":                                                   "unreachable: typ is a 3-bit read and majorTypeMap has keys 0..7 (C16.cbor checks totality)",
	"format/msgpack.decodeMsgPackValue|string|unreachable":                                             "unreachable: formatMap ranges partition 0x00..0xff (C16.msgpack checks the partition)",
	"format/elf.elfReadSectionHeaders|string|unreachable":                                              "unreachable: ec.archBits is assigned only the constants 32 or 64 (other class values are fatal earlier)",
	"format/matroska.decodeLacingFn|string|unreachable":                                                "unreachable: lacingType is a 2-bit read; all four values are handled before the default",
	"format/riff.aviParseChunkID|string|unreachable":                                                   "unreachable: Atoi of a two-character string already tested by isDigits",
	"format/xml.fromHTMLToArray|string|unreachable":                                                    "unreachable: n is the non-nil parse root; the loop only replaces it by a non-nil child",
	"(*internal/ctxreadseeker.Reader).loop|string|unreachable":                                         "unreachable: fnCh is never closed",
	"(*pkg/decode.D).Format|string|unreachable":                                                        "unreachable: a root value created by newDecoder always holds *Compound",
	"(*pkg/decode.Value).postProcess|error|(*github.com/wader/fq/pkg/decode.Value).WalkRootPostOrder:": "unreachable: the walk callback returns nil on every path",
	"format/luajit.u64tof64|error|encoding/binary.Read:":                                               "unreachable: binary.Read of 8 bytes from an 8-byte buffer into a float64 cannot fail",
	"format/markdown.decodeMarkdown|error|":                                                            "io.ReadAll over an in-memory bit reader range: read errors are not input-dependent",
	// --- internal API contracts with constant / validated arguments at every call site
	"(*internal/bitiox.ZeroReadAtSeeker).SeekBits|string|unknown whence":                                                "api-misuse: whence is one of the three io.Seek* constants at every call site in fq",
	"(*pkg/bitio.MultiReader).SeekBits|string|unknown whence":                                                           "api-misuse: whence is one of the three io.Seek* constants at every call site in fq",
	"(*pkg/bitio.SectionReader).SeekBits|string|unknown whence":                                                         "api-misuse: whence is one of the three io.Seek* constants at every call site in fq",
	"pkg/bitio.Read64|string|fmt.Sprintf:nBits must be 0-64 (%d)":                                                       "api-misuse: callers bound nBits (TryUintBits rejects <0 or >64; other callers pass constants or clamp to 64)",
	"pkg/bitio.Write64|string|fmt.Sprintf:nBits must be 0-64 (%d)":                                                      "api-misuse: callers pass constants or clamp to 64",
	"pkg/bitio.ReverseBytes64|string|fmt.Sprintf:unsupported bit length %d":                                             "api-misuse: only called after TryUintBits accepted nBits <= 64",
	"pkg/bitio.BytesFromBitString|string|fmt.Sprintf:invalid bit string %q at index %d %q":                              "api-misuse: called with constant bit-string literals only",
	"(*pkg/checksum.CRC).Sum|string|fmt.Sprintf:unsupported crc bit length %d":                                          "api-misuse: CRC.Bits is a constant 8/16/32 in every CRC literal in fq",
	"(*pkg/checksum.CRC).Write|string|fmt.Sprintf:unsupported crc bit length %d":                                        "api-misuse: CRC.Bits is a constant 8/16/32 in every CRC literal in fq",
	"pkg/decode.UintAssertBytes|string|invalid endian":                                                                  "api-misuse: endian is LittleEndian/BigEndian constant or D.Endian which is only assigned those",
	"pkg/decode.UintAssertBytes|string|invalid bs length":                                                               "api-misuse: expected byte strings are literals of length 1/2/4/8 at the call sites",
	"pkg/decode.decode|string|group is nil, failed to register format?":                                                 "api-misuse: groups are package-level variables registered at init",
	"(*pkg/decode.D).FieldGet|string|fmt.Sprintf:%s is not a struct":                                                    "api-misuse: decoder asks for a field of its own struct; independent of input bytes",
	"(*pkg/decode.D).FieldMustGet|string|fmt.Sprintf:%s not found in struct %s":                                         "api-misuse: constant field names the same decoder added earlier on the same path",
	"(*pkg/decode.Value).TryBitBufScalarFn|string|not a scalar value":                                                   "api-misuse: applied by decoders to a field they created with the matching scalar kind",
	"(*pkg/decode.Value).TryUintScalarFn|string|not a scalar value":                                                     "api-misuse: applied by decoders to a field they created with the matching scalar kind",
	"internal/mathx.NewFloat80FromBytes|error|fmt.Errorf:invalid length of float80 representation, expected 10, got %d": "api-misuse: tryFEndian passes exactly 80 bits (10 bytes)",
	"format/tls.decodeTLS$3|string|fmt.Sprintf:tls PostFn in not *tlsCtx %+#v":                                          "internal contract: the TCP stream decoder passes the peer's own out value (*tlsCtx)",
	"format/tls.decodeTLSPostKeyExchange|string|fmt.Sprintf:unknown ke type %d":                                         "internal contract: key-exchange contexts are created only for the two handled handshake types",
	"format/tls.decodeTLSPostKeyExchange|error|(*github.com/wader/fq/pkg/decode.Value).Remove:":                         "internal contract: the removed value was added to this struct by the same decoder (C03.byname keeps ByName in sync)",
	"(*format/inet/flowsdecoder.Decoder).packet|string|not a PacketBuilder":                                             "third-party contract: gopacket.NewPacket always returns a PacketBuilder",
	"format/tls/rezlib.NewReader|string|zlib reader not a Resetter":                                                     "stdlib contract: compress/zlib readers implement zlib.Resetter",
	"(*format/tls/rezlib.Reader).Read|string|fmt.Sprintf:zlib reader could not reset %s":                                "needs a user-supplied matching TLS keylog to be reached (decrypted stream); see DESIGN C06 residual",
	"(*format/tls/tlsdecrypt.halfConn).decrypt|string|unknown cipher type":                                              "internal contract: cipher values come from the cipherSuite table constructors (Stream/aead/cbcMode)",
	"(*format/tls/tlsdecrypt.halfConn).explicitNonceLen|string|unknown cipher type":                                     "internal contract: cipher values come from the cipherSuite table constructors (Stream/aead/cbcMode)",
	"(*format/tls/tlsdecrypt.halfConn).incSeq|string|TLS: sequence number wraparound":                                   "needs 2^64 records in one connection",
	"format/tls/tlsdecrypt.aeadAESGCM|string|tls: internal error: wrong nonce length":                                   "internal contract: nonce length fixed by the cipherSuite table",
	"format/tls/tlsdecrypt.aeadAESGCM|error|":                                                                           "needs a user-supplied TLS keylog; key length fixed by the cipherSuite table",
	"format/tls/tlsdecrypt.aeadChaCha20Poly1305|string|tls: internal error: wrong nonce length":                         "internal contract: nonce length fixed by the cipherSuite table",
	"format/tls/tlsdecrypt.aeadChaCha20Poly1305|error|":                                                                 "needs a user-supplied TLS keylog; key length fixed by the cipherSuite table",
	"format/ogg.decodeOgg$1|string|page decode is not a oggPageOut":                                                     "format out-value contract (ogg_page always returns format.Ogg_Page_Out; C06.outtype)",
}

func panicKey(p *fw.Program, pn *ssa.Panic) (string, types.Type) {
	_, t := stripIface(pn.X)
	msg := ""
	if s, ok := constString(pn.X); ok {
		msg = s
	} else if v, _ := stripIface(pn.X); v != nil {
		// fmt.Sprintf("const", ...) / errors.New("const")
		if c, ok := v.(*ssa.Call); ok {
			for _, a := range c.Common().Args {
				if s, ok := constString(a); ok {
					msg = s
					break
				}
			}
			msg = fw.CalleeName(c) + ":" + msg
		}
	}
	return fmt.Sprintf("%s|%s|%s", fw.ShortFn(pn.Parent()), shortType(t), msg), t
}

func c06Panic(r *fw.Run, p *fw.Program, recov *types.Interface, reach map[*ssa.Function]bool) {
	ru := r.Rule("C06.panic", "every explicit panic in fq code reachable from a decode root panics with a RecoverableErrorer type (recovered as a decode error) or is a classified exception", 140)
	seen := map[string]int{}
	for _, fn := range p.FqFunctions() {
		if !reach[fn] {
			continue
		}
		fw.EachInstr(fn, func(ins ssa.Instruction) {
			pn, ok := ins.(*ssa.Panic)
			if !ok {
				return
			}
			key, t := panicKey(p, pn)
			seen[key]++
			base := key
			if seen[key] > 1 {
				key = fmt.Sprintf("%s||%d", key, seen[key])
			}
			if fw.Implements(t, recov) {
				ru.Ok(key, p.Rel(pn.Pos()), "recoverable type "+shortType(t))
				return
			}
			if reason, ok := panicExceptions[base]; ok {
				if chk, has := panicExceptionChecks[base]; has {
					if why := chk(p, pn); why != "" {
						ru.Fail(key, p.Rel(pn.Pos()), "the exception for this panic ("+reason+") no longer holds: "+why)
						return
					}
					reason += " [precondition checked]"
				}
				ru.Except(key, p.Rel(pn.Pos()), reason)
				return
			}
			if reason := panicClass(p, pn); reason != "" {
				ru.Except(key, p.Rel(pn.Pos()), reason)
				return
			}
			ru.Fail(key, p.Rel(pn.Pos()), "panic with non-recoverable operand type "+shortType(t)+" reachable from a decode root: would terminate fq instead of producing a decode error")
		})
	}
}

// panicClass recognises structural classes of benign panics; "" if none.
func panicClass(p *fw.Program, pn *ssa.Panic) string {
	fn := pn.Parent()
	switch pkgRel(fn) {
	case "pkg/interp", "internal/gojqx", "internal/colorjson", "internal/mapstruct":
		return "jq-function side (reached from decode roots only through VTA over-approximation); decided by C13.panic"
	}
	if !pn.Pos().IsValid() {
		if s, ok := constString(pn.X); ok && s == "blocking select matched no case" {
			return "synthetic go/ssa panic for a select without default; not a source construct"
		}
	}
	if s, ok := constString(pn.X); ok && (s == "not map" || s == "not array") {
		if jqRegistered(p)[fw.Top(fn)] || jqRegisteredClosure(p, fn) {
			return "jq-function side; decided by C13.panic"
		}
	}
	if pn.Parent().Name() == "Run$1$1" && pkgRel(fn) == "internal/recoverfn" {
		return "the re-panic of non-recoverable values in recoverfn.Run (C06.recover)"
	}
	if r := outTypeContract(p, pn); r != "" {
		return r
	}
	if s, ok := constString(pn.X); ok && s == "unknown version" && pkgRel(fn) == "format/tls/tlsdecrypt" {
		if tlsVersionGuarded(p) {
			return "api-misuse, checked: (*Decryptor).Decrypt reaches key derivation only through a version == TLS1.0/1.1/1.2/SSL3.0 test (other versions return an error)"
		}
		return ""
	}
	if r := exhaustiveTypeSwitch(p, pn); r != "" {
		return r
	}
	if r := scalarKindContract(p, pn); r != "" {
		return r
	}
	if pkgRel(fn) == "pkg/scalar" && strings.HasPrefix(fn.Name(), "Sym") {
		return "panicking Sym accessor: every call site is decided by C06.sym"
	}
	return ""
}

// scalarKindContract: the generated TryFieldScalar<K>Fn helpers assert that the value they
// themselves just built (&Value{V: &s}) holds *scalar.<K>.
func scalarKindContract(p *fw.Program, pn *ssa.Panic) string {
	fn := pn.Parent()
	if pkgRel(fn) != "pkg/decode" || !strings.HasPrefix(fn.Name(), "TryFieldScalar") {
		return ""
	}
	if s, ok := constString(pn.X); !ok || s != "not a scalar value" {
		return ""
	}
	return "generated TryFieldScalar*Fn: asserts the kind of the scalar its own closure constructed"
}

// exhaustiveTypeSwitch: the panic sits in the default arm of a type switch over an interface
// (not any) and every named type of the interface's package that implements it is a case.
func exhaustiveTypeSwitch(p *fw.Program, pn *ssa.Panic) string {
	var x ssa.Value
	covered := map[string]bool{}
	for _, g := range fw.Guards(pn.Block()) {
		g = g.Normalize()
		ex, ok := g.Cond.(*ssa.Extract)
		if !ok || g.True || ex.Index != 1 {
			continue
		}
		ta, ok := ex.Tuple.(*ssa.TypeAssert)
		if !ok {
			continue
		}
		if x == nil {
			x = ta.X
		}
		if ta.X != x {
			continue
		}
		covered[types.TypeString(ta.AssertedType, nil)] = true
	}
	if x == nil || len(covered) < 3 {
		return ""
	}
	named, ok := x.Type().(*types.Named)
	if !ok {
		return ""
	}
	iface, ok := named.Underlying().(*types.Interface)
	if !ok || iface.NumMethods() == 0 || named.Obj().Pkg() == nil {
		return ""
	}
	scope := named.Obj().Pkg().Scope()
	missing := []string{}
	n := 0
	for _, name := range scope.Names() {
		tn, ok := scope.Lookup(name).(*types.TypeName)
		if !ok || tn.IsAlias() {
			continue
		}
		if _, isIface := tn.Type().Underlying().(*types.Interface); isIface {
			continue
		}
		for _, t := range []types.Type{tn.Type(), types.NewPointer(tn.Type())} {
			if types.Implements(t, iface) {
				// value type implementing means pointer also does; the switch needs the form used
				if covered[types.TypeString(t, nil)] || covered[types.TypeString(types.NewPointer(tn.Type()), nil)] {
					n++
				} else {
					missing = append(missing, types.TypeString(t, nil))
				}
				break
			}
		}
	}
	// a missing implementation is tolerated when it is only an embedded base of covered struct types
	var realMissing []string
	for _, m := range missing {
		base := strings.TrimPrefix(m, "*")
		embedded := false
		for _, name := range scope.Names() {
			tn, ok := scope.Lookup(name).(*types.TypeName)
			if !ok {
				continue
			}
			st, ok := tn.Type().Underlying().(*types.Struct)
			if !ok {
				continue
			}
			for i := 0; i < st.NumFields(); i++ {
				if st.Field(i).Embedded() && types.TypeString(st.Field(i).Type(), nil) == base {
					embedded = true
				}
			}
		}
		if !embedded {
			realMissing = append(realMissing, m)
		}
	}
	if len(realMissing) > 0 || n == 0 {
		return ""
	}
	return fmt.Sprintf("exhaustive type switch: all %d implementations of %s in its package are cases", n, types.TypeString(named, nil))
}

// outTypeContract: panic guarded by a failed comma-ok assertion of a decode out value to a
// format.*Out type (the sub-format contract checked by C06.outtype).
func outTypeContract(p *fw.Program, pn *ssa.Panic) string {
	for _, g := range fw.Guards(pn.Block()) {
		g = g.Normalize()
		ex, ok := g.Cond.(*ssa.Extract)
		if !ok || g.True || ex.Index != 1 {
			continue
		}
		ta, ok := ex.Tuple.(*ssa.TypeAssert)
		if !ok {
			continue
		}
		if n, ok := ta.AssertedType.(*types.Named); ok && n.Obj().Pkg() != nil &&
			n.Obj().Pkg().Path() == fw.Mod+"/format" && (strings.HasSuffix(n.Obj().Name(), "_Out") || strings.HasSuffix(n.Obj().Name(), "Out")) {
			return "format out-value contract: asserted type " + n.Obj().Name() + " (C06.outtype checks the producing formats)"
		}
	}
	return ""
}

// ---------------------------------------------------------------------------
// C06.assert

func c06Assert(r *fw.Run, p *fw.Program, reach map[*ssa.Function]bool) {
	ru := r.Rule("C06.assert", "no single-result type assertion x.(T) in format/** or pkg/decode code reachable from a decode root (a failed one is an unrecoverable runtime panic)", 1)
	n := 0
	nCommaOk := 0
	for _, fn := range p.FqFunctions() {
		if !reach[fn] {
			continue
		}
		rel := pkgRel(fn)
		if !(strings.HasPrefix(rel, "format") || rel == "pkg/decode" || rel == "pkg/scalar") {
			continue
		}
		ord := 0
		fw.EachInstr(fn, func(ins ssa.Instruction) {
			ta, ok := ins.(*ssa.TypeAssert)
			if !ok {
				return
			}
			if ta.CommaOk {
				nCommaOk++
				return
			}
			// type switches compile to CommaOk asserts; a non-CommaOk assert is a plain x.(T)
			ord++
			n++
			key := fmt.Sprintf("%s|%s|%d", fw.ShortFn(fn), shortType(ta.AssertedType), ord)
			if reason, ok := assertExceptions[fmt.Sprintf("%s|%s", fw.ShortFn(fn), shortType(ta.AssertedType))]; ok {
				ru.Except(key, p.Rel(ta.Pos()), reason)
				return
			}
			ru.Fail(key, p.Rel(ta.Pos()), "unchecked type assertion to "+shortType(ta.AssertedType)+" reachable from a decode root")
		})
	}
	ru.Ok("scan", "", fmt.Sprintf("%d checked (comma-ok / type-switch) assertions seen, %d unchecked", nCommaOk, n))
	r.Notes["C06.assert.commaok_seen"] = nCommaOk
}

var assertExceptions = map[string]string{}

// ---------------------------------------------------------------------------
// C06.errval

func c06ErrVal(r *fw.Run, p *fw.Program, roots []*ssa.Function) {
	ru := r.Rule("C06.errval", "a DecodeFn never returns an error value as its out value (a failed decode would be reported as success)", 125)
	errT := types.Universe.Lookup("error").Type().Underlying().(*types.Interface)
	for _, f := range roots {
		bad := ""
		pos := f.Pos()
		fw.EachInstr(f, func(ins ssa.Instruction) {
			ret, ok := ins.(*ssa.Return)
			if !ok || len(ret.Results) != 1 {
				return
			}
			var visit func(v ssa.Value, depth int)
			seen := map[ssa.Value]bool{}
			visit = func(v ssa.Value, depth int) {
				if seen[v] || depth > 8 {
					return
				}
				seen[v] = true
				switch x := v.(type) {
				case *ssa.Phi:
					for _, e := range x.Edges {
						visit(e, depth+1)
					}
				case *ssa.MakeInterface:
					if types.Implements(x.X.Type(), errT) {
						bad = "returns a value of type " + shortType(x.X.Type())
						pos = ret.Pos()
					}
				case *ssa.ChangeInterface:
					if types.Implements(x.X.Type(), errT) && !types.IsInterface(x.Type()) == false {
						if it, ok := x.X.Type().Underlying().(*types.Interface); ok && it.NumMethods() > 0 && types.Implements(x.X.Type(), errT) {
							bad = "returns an error interface value"
							pos = ret.Pos()
						}
					}
				}
			}
			visit(ret.Results[0], 0)
		})
		ru.Check(bad == "", fw.ShortFn(f), p.Rel(pos), "no error-typed out value", "DecodeFn "+bad+" as its out value instead of failing through Fatalf/IOPanic")
	}
}

// tlsVersionGuarded: in (*tlsdecrypt.Decryptor).Decrypt the establishKeys call is unreachable once
// the true-edges of the `version == <supported constant>` tests are removed.
func tlsVersionGuarded(p *fw.Program) bool {
	fn := p.Fn("(*format/tls/tlsdecrypt.Decryptor).Decrypt")
	if fn == nil || len(fn.Blocks) == 0 {
		return false
	}
	var target *ssa.BasicBlock
	for _, c := range fw.CallsIn(fn) {
		if cal := c.Common().StaticCallee(); cal != nil && cal.Name() == "establishKeys" {
			target = c.Block()
		}
	}
	if target == nil {
		return false
	}
	supported := map[int64]bool{0x0300: true, 0x0301: true, 0x0302: true, 0x0303: true}

	type edge struct{ from, to *ssa.BasicBlock }
	seen := map[edge]bool{}
	stack := []edge{{nil, fn.Blocks[0]}}
	for len(stack) > 0 {
		e := stack[len(stack)-1]
		stack = stack[:len(stack)-1]
		if seen[e] {
			continue
		}
		seen[e] = true
		b := e.to
		if b == target {
			return false
		}
		push := func(to *ssa.BasicBlock) { stack = append(stack, edge{b, to}) }
		if ifi, ok := b.Instrs[len(b.Instrs)-1].(*ssa.If); ok {
			// a && / || join: the condition is a phi whose value on the incoming edge is a constant
			if ph, ok := ifi.Cond.(*ssa.Phi); ok && ph.Block() == b && e.from != nil {
				for i, pred := range b.Preds {
					if pred != e.from {
						continue
					}
					if c, ok := ph.Edges[i].(*ssa.Const); ok && c.Value != nil && c.Value.Kind() == constant.Bool {
						if constant.BoolVal(c.Value) {
							push(b.Succs[0])
						} else {
							push(b.Succs[1])
						}
						goto next
					}
				}
			}
			if bo, ok := ifi.Cond.(*ssa.BinOp); ok && bo.Op.String() == "==" {
				isAccept := false
				for _, o := range []ssa.Value{bo.X, bo.Y} {
					if c, ok := o.(*ssa.Const); ok && c.Value != nil && c.Value.Kind() == constant.Int && supported[c.Int64()] {
						isAccept = true
					}
				}
				if isAccept {
					push(b.Succs[1]) // only the false edge: the accepting edge is removed
					continue
				}
			}
		}
		for _, sc := range b.Succs {
			push(sc)
		}
	next:
	}
	return true
}
