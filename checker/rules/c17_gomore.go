package rules

import (
	"fmt"
	"go/constant"
	"go/token"
	"go/types"

	"golang.org/x/tools/go/ssa"

	"fqverif/fw"
)

// c17FieldName returns the name of the struct field addressed by a FieldAddr / read by a Field.
func c17FieldName(v ssa.Value) string {
	var t types.Type
	idx := -1
	switch x := v.(type) {
	case *ssa.FieldAddr:
		t, idx = x.X.Type(), x.Field
	case *ssa.Field:
		t, idx = x.X.Type(), x.Field
	default:
		return ""
	}
	if p, ok := t.Underlying().(*types.Pointer); ok {
		t = p.Elem()
	}
	st, ok := t.Underlying().(*types.Struct)
	if !ok || idx < 0 || idx >= st.NumFields() {
		return ""
	}
	return st.Field(idx).Name()
}

// c17IsFieldRead: v reads the struct field name (load of a field address, or a field of a value).
func c17IsFieldRead(v ssa.Value, name string) bool {
	switch x := v.(type) {
	case *ssa.UnOp:
		if x.Op == token.MUL {
			return c17FieldName(x.X) == name
		}
	case *ssa.Field:
		return c17FieldName(x) == name
	}
	return false
}

// c17FieldGuard: is the boolean field `name` known true (+1) / false (-1) at block b.
func c17FieldGuard(b *ssa.BasicBlock, name string) int {
	for _, g := range fw.Guards(b) {
		g = g.Normalize()
		if c17IsFieldRead(g.Cond, name) {
			if g.True {
				return 1
			}
			return -1
		}
	}
	return 0
}

// c17EdgeFieldGuard: the same for the edge pred -> b (the branch at the end of pred counts).
func c17EdgeFieldGuard(pred, b *ssa.BasicBlock, name string) int {
	if len(pred.Instrs) > 0 {
		if ifi, ok := pred.Instrs[len(pred.Instrs)-1].(*ssa.If); ok && len(pred.Succs) == 2 && pred.Succs[0] != pred.Succs[1] {
			g := fw.Guard{Cond: ifi.Cond, True: pred.Succs[0] == b, If: ifi}.Normalize()
			if c17IsFieldRead(g.Cond, name) {
				if g.True {
					return 1
				}
				return -1
			}
		}
	}
	return c17FieldGuard(pred, name)
}

// c17GoMore: compact output and the stream names used by the jq side.
func c17GoMore(m *c17Model, ru *fw.Rule) {
	p := m.p
	// ----- -c / --compact-output: JSON is printed with indent 0 exactly when options.compact is set
	if fn := p.Fn("(*pkg/interp.Interp)._printColorJSON"); fn == nil {
		ru.Undecided("compact:anchor", "", "(*interp.Interp)._printColorJSON not found")
	} else {
		pos := p.Rel(fn.Pos())
		var indent ssa.Value
		n := 0
		fw.EachInstr(fn, func(ins ssa.Instruction) {
			st, ok := ins.(*ssa.Store)
			if !ok {
				return
			}
			if fa, ok := st.Addr.(*ssa.FieldAddr); ok && c17FieldName(fa) == "Indent" {
				indent = st.Val
				n++
			}
		})
		switch {
		case n != 1:
			ru.Undecided("compact:indent", pos, fmt.Sprintf("%d stores to the Indent field of the JSON encoder options, expected 1", n))
		default:
			phi, ok := indent.(*ssa.Phi)
			if !ok {
				ru.Fail("compact:indent", pos, "the indent given to the JSON encoder does not depend on options.compact: "+indent.String())
				break
			}
			nCompact, bad := 0, ""
			for i, e := range phi.Edges {
				c, isC := e.(*ssa.Const)
				if !isC || c.Value == nil || c.Value.Kind() != constant.Int {
					bad = "an indent that is not a constant: " + e.String()
					continue
				}
				g := c17EdgeFieldGuard(phi.Block().Preds[i], phi.Block(), "Compact")
				k := c.Int64()
				switch {
				case g == 1:
					nCompact++
					if k != 0 {
						bad = fmt.Sprintf("indent %d when options.compact is set (jq -c prints every value on one line: indent 0)", k)
					}
				case g == -1:
					if k <= 0 {
						bad = fmt.Sprintf("indent %d when options.compact is not set", k)
					}
				default:
					if k <= 0 {
						bad = fmt.Sprintf("indent %d on a path that does not test options.compact", k)
					}
				}
			}
			if bad == "" && nCompact == 0 {
				bad = "no path on which options.compact is known to be set selects the indent"
			}
			ru.Check(bad == "", "compact:indent", pos, "indent 0 iff options.compact, a positive indent otherwise", "_printColorJSON: "+bad)
		}
	}

	// ----- the stream names the jq side uses ("stdin"/"stdout"/"stderr") select the matching OS stream
	if fn := p.Fn("(*pkg/interp.Interp)._stdioFdName"); fn == nil {
		ru.Undecided("stdio-fd:anchor", "", "(*interp.Interp)._stdioFdName not found")
	} else {
		pos := p.Rel(fn.Pos())
		want := map[string]string{"stdin": "Stdin", "stdout": "Stdout", "stderr": "Stderr"}
		seen := map[string]bool{}
		for _, ret := range returnsOf(fn) {
			if len(ret.Results) == 0 {
				continue
			}
			var inner ssa.Value = ret.Results[0]
			switch x := inner.(type) {
			case *ssa.MakeInterface:
				inner = x.X
			case *ssa.ChangeInterface:
				inner = x.X
			}
			call, ok := inner.(*ssa.Call)
			if !ok || !call.Common().IsInvoke() {
				continue
			}
			meth := call.Common().Method.Name()
			name := ""
			for _, g := range fw.Guards(ret.Block()) {
				g = g.Normalize()
				bo, ok := g.Cond.(*ssa.BinOp)
				if !ok || bo.Op != token.EQL || !g.True {
					continue
				}
				for _, side := range []ssa.Value{bo.X, bo.Y} {
					if s, ok := constString(side); ok {
						name = s
					}
				}
			}
			if name == "" {
				ru.Undecided("stdio-fd:"+meth, p.Rel(ret.Pos()), "cannot tell for which stream name OS."+meth+"() is returned")
				continue
			}
			seen[name] = true
			w, known := want[name]
			if !known {
				continue
			}
			ru.Check(meth == w, "stdio-fd:"+name, p.Rel(ret.Pos()), name+" -> OS."+w+"()", "the stream name \""+name+"\" selects OS."+meth+"(): messages for "+name+" end up on the wrong stream")
		}
		for n := range want {
			if !seen[n] {
				ru.Fail("stdio-fd:"+n, pos, "no case for the stream name \""+n+"\"")
			}
		}
	}

	// ----- the process streams behind OS.Stdout()/OS.Stderr()
	for _, w := range []struct{ recv, global string }{{"stderrOutput", "Stderr"}, {"stdoutOutput", "Stdout"}} {
		fn := p.Fn("(pkg/cli." + w.recv + ").Write")
		if fn == nil {
			ru.Undecided("os-stream:"+w.recv, "", "(cli."+w.recv+").Write not found")
			continue
		}
		nOK, nBad := 0, 0
		for _, c := range fw.CallsIn(fn) {
			f := c.Common().StaticCallee()
			if f == nil || f.String() != "(*os.File).Write" || len(c.Common().Args) < 1 {
				continue
			}
			ld, ok := c.Common().Args[0].(*ssa.UnOp)
			if !ok || ld.Op != token.MUL {
				nBad++
				continue
			}
			g, ok := ld.X.(*ssa.Global)
			if ok && g.Pkg != nil && g.Pkg.Pkg.Path() == "os" && g.Name() == w.global {
				nOK++
			} else {
				nBad++
			}
		}
		ru.Check(nOK >= 1 && nBad == 0, "os-stream:"+w.recv, p.Rel(fn.Pos()), "writes to os."+w.global, "(cli."+w.recv+").Write does not write (only) to os."+w.global)
	}
}
