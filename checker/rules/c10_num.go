package rules

import (
	"fmt"
	"go/ast"
	"go/constant"
	"go/token"
	"go/types"
	"math"
	"sort"
	"strings"

	"golang.org/x/tools/go/ssa"

	"fqverif/fw"
)

// ---------------------------------------------------------------------------
// C10.tables

func c10TableRules(r *fw.Run, p *fw.Program) {
	ru := r.Rule("C10.tables", "constant tables behind the display: hexpairwriter.Pair(c) is table[2c:2c+2] of the 512-character %02x table; SafeASCII maps exactly 32..126 to themselves and the rest to '.'; mathx.BasePrefixMap = {2:0b, 8:0o, 16:0x}; DisplayFormat.FormatBase = {decimal:10, binary:2, octal:8, hex:16}; ansi.Code.Wrap returns s or Set+s+Reset; colorjson escapes control bytes as \\u00 + hex[b>>4] + hex[b&15]", 7)
	// Pair
	if pair := p.Fn("internal/hexpairwriter.Pair"); pair == nil || pair.Blocks == nil || len(pair.Params) != 1 {
		ru.Undecided("pair", "", "hexpairwriter.Pair(c byte) not found")
	} else {
		env := c10Env(pair, false)
		var sl *ssa.Slice
		fw.EachInstr(pair, func(ins ssa.Instruction) {
			if s, ok := ins.(*ssa.Slice); ok {
				sl = s
			}
		})
		rets := c10Returns(pair)
		if sl == nil || len(rets) != 1 || rets[0].Results[0] != ssa.Value(sl) {
			ru.Undecided("pair", p.Rel(pair.Pos()), "Pair does not return one slice of a table")
		} else {
			tbl, okT := c10ConstStr(sl.X)
			var want strings.Builder
			for i := 0; i < 256; i++ {
				fmt.Fprintf(&want, "%02x", i)
			}
			ru.Check(okT && tbl == want.String(), "pair:table", p.Rel(sl.Pos()), "table is %02x of 0..255", "the hex pair table is not the 512 characters 00 01 .. ff: some byte value is displayed as another one's digits")
			c := fw.PAtom(pair.Params[0].Name())
			lo, hi := fw.NewPoly(), fw.NewPoly()
			if sl.Low != nil {
				lo = env.Of(sl.Low)
			}
			if sl.High != nil {
				hi = env.Of(sl.High)
			}
			ru.Check(lo.Equal(c.MulC(2)) && hi.Equal(c.MulC(2).Add(fw.PConst(2))), "pair:index", p.Rel(sl.Pos()), "Pair(c) = table[2c : 2c+2]", "Pair(c) slices table["+lo.String()+" : "+hi.String()+"], expected [2c : 2c+2]")
		}
	}
	// SafeASCII
	if sa := p.Fn("internal/asciiwriter.SafeASCII"); sa == nil || sa.Blocks == nil || len(sa.Params) != 1 {
		ru.Undecided("safeascii", "", "asciiwriter.SafeASCII(c byte) not found")
	} else {
		env := c10Env(sa, false)
		c := fw.PAtom(sa.Params[0].Name())
		ok, nSelf, nDot := true, 0, 0
		why := ""
		for _, rt := range c10Returns(sa) {
			res := rt.Results[0]
			if s, isC := c10ConstStr(res); isC {
				if s != "." {
					ok, why = false, "placeholder is "+s
				}
				nDot++
				// reached only for c < 32 or c > 126: every path condition known here must be one of them
				continue
			}
			cv, isCv := res.(*ssa.Convert)
			if !isCv || cv.X != ssa.Value(sa.Params[0]) {
				ok, why = false, "returns "+res.String()
				continue
			}
			nSelf++
			b := rt.Block()
			// the byte is returned as itself exactly under 32 <= c <= 126
			lo := c10Holds(env, b, fw.Cmp{P: c.Sub(fw.PConst(32)), Rel: fw.GE})
			hi := c10Holds(env, b, fw.Cmp{P: c.Sub(fw.PConst(126)), Rel: fw.LE})
			tooStrong := c10Holds(env, b, fw.Cmp{P: c.Sub(fw.PConst(33)), Rel: fw.GE}) || c10Holds(env, b, fw.Cmp{P: c.Sub(fw.PConst(125)), Rel: fw.LE})
			if !lo || !hi || tooStrong {
				ok, why = false, "a byte is shown as itself under "+c10FactsString(env, b)
			}
		}
		ru.Check(ok && nSelf == 1 && nDot >= 1, "safeascii", p.Rel(sa.Pos()), "bytes 32..126 are shown as themselves, all others as '.'", "SafeASCII: "+why+" (expected exactly 32 <= c <= 126 shown as themselves)")
	}
	// BasePrefixMap
	c10CheckIntStringMap(ru, p, "internal/mathx", "BasePrefixMap", map[int64]string{2: "0b", 8: "0o", 16: "0x"})
	// FormatBase
	if fb := p.Fn("(pkg/scalar.DisplayFormat).FormatBase"); fb == nil || fb.Blocks == nil {
		ru.Undecided("formatbase", "", "scalar.DisplayFormat.FormatBase not found")
	} else {
		env := c10Env(fb, false)
		df := fw.PAtom(fb.Params[0].Name())
		want := map[string]int64{"NumberDecimal": 10, "NumberBinary": 2, "NumberOctal": 8, "NumberHex": 16}
		got := map[string]int64{}
		pk := p.Pkg("pkg/scalar")
		for name := range want {
			o, _ := pk.Types.Scope().Lookup(name).(*types.Const)
			if o == nil {
				ru.Undecided("formatbase:"+name, "", "scalar."+name+" not found")
				continue
			}
			k, _ := constant.Int64Val(o.Val())
			for _, rt := range c10Returns(fb) {
				if c10Holds(env, rt.Block(), fw.Cmp{P: df.Sub(fw.PConst(k)), Rel: fw.EQ}) {
					if v, ok := c10ConstInt(rt.Results[0]); ok {
						got[name] = v
					}
				}
			}
		}
		okAll := true
		for n, v := range want {
			if got[n] != v {
				okAll = false
			}
		}
		ru.Check(okAll, "formatbase", p.Rel(fb.Pos()), "decimal:10 binary:2 octal:8 hex:16", fmt.Sprintf("FormatBase maps %v, expected %v: numbers are printed in a base other than their prefix says", got, want))
	}
	// ansi.Code.Wrap
	if wr := p.Fn("(internal/ansi.Code).Wrap"); wr == nil || wr.Blocks == nil || len(wr.Params) != 2 {
		ru.Undecided("wrap", "", "ansi.Code.Wrap not found")
	} else {
		ok := true
		for _, rt := range c10Returns(wr) {
			parts := c10ConcatParts(rt.Results[0])
			switch len(parts) {
			case 1:
				ok = ok && parts[0] == ssa.Value(wr.Params[1])
			case 3:
				_, f0, _, ok0 := c10FieldLoad(parts[0])
				_, f2, _, ok2 := c10FieldLoad(parts[2])
				ok = ok && parts[1] == ssa.Value(wr.Params[1]) && ok0 && ok2 && f0 == "SetString" && f2 == "ResetString"
			default:
				ok = false
			}
		}
		ru.Check(ok, "wrap", p.Rel(wr.Pos()), "Wrap(s) is s or SetString+s+ResetString", "ansi.Code.Wrap does not return its argument unchanged between the set and reset sequences")
	}
	// colorjson.encodeString: \u00XX escape
	if es := p.Fn("(*internal/colorjson.Encoder).encodeString"); es == nil || es.Blocks == nil {
		ru.Undecided("json:escape", "", "colorjson.(*Encoder).encodeString not found")
	} else {
		var hi4, lo4 bool
		hexOK := true
		n := 0
		fw.EachInstr(es, func(ins ssa.Instruction) {
			var lkX, lkIndex ssa.Value
			switch lk := ins.(type) {
			case *ssa.Lookup:
				lkX, lkIndex = lk.X, lk.Index
			case *ssa.Index:
				lkX, lkIndex = lk.X, lk.Index
			default:
				return
			}
			tbl, ok := c10ConstStr(lkX)
			if !ok {
				return
			}
			n++
			if tbl != "0123456789abcdef" {
				hexOK = false
			}
			if b, ok := c10Strip(lkIndex).(*ssa.BinOp); ok {
				k, _ := c10ConstInt(b.Y)
				if b.Op == token.SHR && k == 4 {
					hi4 = true
				}
				if b.Op == token.AND && k == 15 {
					lo4 = true
				}
			}
		})
		ru.Check(n == 2 && hexOK && hi4 && lo4, "json:escape", p.Rel(es.Pos()), "control bytes are escaped as \\u00 + hex[b>>4] + hex[b&15]", "the \\u00XX escape of control bytes does not use hex[b>>4], hex[b&0xF] over 0123456789abcdef: strings with control characters are not valid/equal JSON")
	}
}

// c10CheckIntStringMap compares a package-level map[int]string literal with want.
func c10CheckIntStringMap(ru *fw.Rule, p *fw.Program, rel, name string, want map[int64]string) {
	pk := p.Pkg(rel)
	if pk == nil {
		ru.Undecided("map:"+name, "", "package "+rel+" not loaded")
		return
	}
	var lit *ast.CompositeLit
	var at token.Pos
	for _, f := range pk.Syntax {
		for _, d := range f.Decls {
			gd, ok := d.(*ast.GenDecl)
			if !ok || gd.Tok != token.VAR {
				continue
			}
			for _, s := range gd.Specs {
				vs := s.(*ast.ValueSpec)
				for i, n := range vs.Names {
					if n.Name == name && i < len(vs.Values) {
						lit, _ = vs.Values[i].(*ast.CompositeLit)
						at = n.Pos()
					}
				}
			}
		}
	}
	if lit == nil {
		ru.Undecided("map:"+name, "", rel+"."+name+" is not a package-level composite literal")
		return
	}
	got := map[int64]string{}
	for _, e := range lit.Elts {
		kv, ok := e.(*ast.KeyValueExpr)
		if !ok {
			continue
		}
		kt, vt := pk.TypesInfo.Types[kv.Key], pk.TypesInfo.Types[kv.Value]
		if kt.Value == nil || vt.Value == nil {
			ru.Undecided("map:"+name, p.Rel(at), "non-constant entry in "+name)
			return
		}
		k, _ := constant.Int64Val(kt.Value)
		got[k] = constant.StringVal(vt.Value)
	}
	same := len(got) == len(want)
	for k, v := range want {
		if got[k] != v {
			same = false
		}
	}
	// no other writer of the map
	writers := 0
	for _, fn := range p.FqFunctions() {
		if pkgRel(fn) != rel {
			continue
		}
		fw.EachInstr(fn, func(ins ssa.Instruction) {
			if mu, ok := ins.(*ssa.MapUpdate); ok {
				if ld, ok := mu.Map.(*ssa.UnOp); ok {
					if g, ok := ld.X.(*ssa.Global); ok && g.Name() == name && fn.Name() != "init" {
						writers++
					}
				}
			}
		})
	}
	ru.Check(same && writers == 0, "map:"+name, p.Rel(at), fmt.Sprintf("%s = %v", name, want), fmt.Sprintf("%s is %v (runtime writers: %d), expected %v: numbers carry a prefix that does not name their base", name, got, writers, want))
}

// ---------------------------------------------------------------------------
// C10.bits: mathx.Bits / BitRange / PadFormat*

func c10BitsRules(r *fw.Run, p *fw.Program) {
	ru := r.Rule("C10.bits", "mathx: Bits.StringByteBits prints prefix[base] + (b>>3) [+ '.' + (b&7) iff b&7 != 0], both parts in the caller's base (mask == 2^shift-1); BitRange prints Start and Start+Len as '%s-%s'; ranges.Range.Stop is Start+Len; PadFormatInt/Uint/BigInt format the value itself with strconv/Text in the given base and pass (base,prefix,width) through; padFormatNumber returns prefix + zero pad of width-len(s)-len(prefix) + s; DigitsInBase is len(prefix) (iff basePrefix) + 1 + floor(log_base n), 1 digit for 0", 9)
	// Bits.StringByteBits
	sb := p.Fn("(internal/mathx.Bits).StringByteBits")
	if sb == nil || sb.Blocks == nil || len(sb.Params) != 2 {
		ru.Undecided("bits", "", "mathx.Bits.StringByteBits(base) not found")
	} else {
		b, base := sb.Params[0], sb.Params[1]
		shiftOf := func(v ssa.Value) (op token.Token, k int64, ok bool) {
			bo, isB := c10Strip(v).(*ssa.BinOp)
			if !isB || c10Strip(bo.X) != ssa.Value(b) {
				return 0, 0, false
			}
			k, ok = c10ConstInt(bo.Y)
			return bo.Op, k, ok
		}
		env := c10Env(sb, false)
		nRet := 0
		for i, rt := range c10Returns(sb) {
			nRet++
			key := fmt.Sprintf("bits:return#%d", i)
			parts := c10ConcatParts(rt.Results[0])
			desc := []string{}
			good := true
			var shift, mask int64 = -1, -1
			for _, pt := range parts {
				switch x := pt.(type) {
				case *ssa.Lookup:
					g := false
					if ld, ok := x.X.(*ssa.UnOp); ok {
						if gl, ok := ld.X.(*ssa.Global); ok && gl.Name() == "BasePrefixMap" && x.Index == ssa.Value(base) {
							g = true
						}
					}
					good = good && g
					desc = append(desc, "prefix")
				case *ssa.Call:
					if fw.CalleeName(x) != "strconv.FormatUint" || x.Call.Args[1] != ssa.Value(base) {
						good = false
						desc = append(desc, "?call")
						continue
					}
					op, k, ok := shiftOf(x.Call.Args[0])
					switch {
					case ok && op == token.SHR:
						shift = k
						desc = append(desc, "bytes")
					case ok && op == token.AND:
						mask = k
						desc = append(desc, "bits")
					default:
						good = false
						desc = append(desc, "?value")
					}
				case *ssa.Const:
					s, _ := c10ConstStr(x)
					desc = append(desc, "'"+s+"'")
				default:
					good = false
					desc = append(desc, "?")
				}
			}
			shape := strings.Join(desc, "+")
			hasBits := c10Holds(env, rt.Block(), fw.Cmp{P: fw.PAtom("(7 & " + b.Name() + ")"), Rel: fw.NE})
			noBits := c10Holds(env, rt.Block(), fw.Cmp{P: fw.PAtom("(7 & " + b.Name() + ")"), Rel: fw.EQ})
			switch shape {
			case "prefix+bytes+'.'+bits":
				ru.Check(good && shift == 3 && mask == 7 && hasBits, key, p.Rel(rt.Pos()), "prefix + (b>>3) + '.' + (b&7) when b&7 != 0",
					fmt.Sprintf("byte.bit form uses >>%d and &%d under %s: expected >>3, &7 under b&7 != 0", shift, mask, c10FactsString(env, rt.Block())))
			case "prefix+bytes":
				ru.Check(good && shift == 3 && noBits, key, p.Rel(rt.Pos()), "prefix + (b>>3) when b&7 == 0", fmt.Sprintf("whole-byte form uses >>%d under %s: expected >>3 under b&7 == 0 (dropping a non-zero bit part)", shift, c10FactsString(env, rt.Block())))
			default:
				ru.Fail(key, p.Rel(rt.Pos()), "StringByteBits returns "+shape+", expected prefix+bytes['.'+bits] with both numbers FormatUint(.., base)")
			}
		}
		if nRet < 2 {
			ru.Undecided("bits:returns", p.Rel(sb.Pos()), "StringByteBits has fewer than two result forms")
		}
	}
	// BitRange.StringByteBits
	br := p.Fn("(internal/mathx.BitRange).StringByteBits")
	if br == nil || br.Blocks == nil || len(br.Params) != 2 {
		ru.Undecided("bitrange", "", "mathx.BitRange.StringByteBits(base) not found")
	} else {
		env := c10Env(br, false)
		var sp *ssa.Call
		for _, c := range c10CallsTo(br, "fmt.Sprintf") {
			sp = c
		}
		good, why := false, "no fmt.Sprintf"
		if sp != nil {
			f, _ := c10ConstStr(sp.Call.Args[0])
			el := c10VarargElems(sp.Call.Args[1])
			if f != "%s-%s" || len(el) != 2 {
				why = "format " + f
			} else {
				var polys [2]*fw.Poly
				okc := true
				for i := int64(0); i < 2; i++ {
					c, ok := c10Strip(el[i]).(*ssa.Call)
					if !ok || fw.CalleeName(c) != c10BitsSBB || c.Call.Args[1] != ssa.Value(br.Params[1]) {
						okc = false
						continue
					}
					polys[i] = env.Of(c.Call.Args[0])
				}
				if okc {
					d := polys[1].Sub(polys[0])
					s0, s1 := c10NoStoreSuffix(polys[0].String()), c10NoStoreSuffix(d.String())
					good = strings.HasSuffix(s0, ".Start") && strings.HasSuffix(s1, ".Len") && strings.TrimSuffix(s0, ".Start") == strings.TrimSuffix(s1, ".Len")
					why = "prints " + polys[0].String() + " and " + polys[1].String()
				} else {
					why = "operands are not Bits(..).StringByteBits(base)"
				}
			}
		}
		ru.Check(good, "bitrange", p.Rel(br.Pos()), "prints Bits(Start) '-' Bits(Start+Len) in the caller's base", "BitRange.StringByteBits "+why+": expected Start and Start+Len of the receiver")
	}
	// ranges.Range.Stop
	if st := p.Fn("(pkg/ranges.Range).Stop"); st == nil || st.Blocks == nil {
		ru.Undecided("stop:body", "", "ranges.Range.Stop not found")
	} else {
		env := c10Env(st, false)
		rets := c10Returns(st)
		good := false
		if len(rets) == 1 {
			s := c10NoStoreSuffix(env.Of(rets[0].Results[0]).String())
			good = s == "local:r.Len + local:r.Start" || s == "r.Len + r.Start" || (strings.Count(s, ".Len") == 1 && strings.Count(s, ".Start") == 1 && strings.Count(s, " + ") == 1 && !strings.Contains(s, "*") && !strings.Contains(s, "-"))
		}
		ru.Check(good, "stop:body", p.Rel(st.Pos()), "Stop() == Start + Len", "ranges.Range.Stop is not Start+Len (the dump rules substitute it)")
	}
	// PadFormat*
	type pf struct {
		name, conv string
	}
	for _, f := range []pf{{"PadFormatInt", "strconv.FormatInt"}, {"PadFormatUint", "strconv.FormatUint"}, {"PadFormatBigInt", "(*math/big.Int).Text"}} {
		insts := c10FnInstances(p, fw.Mod+"/internal/mathx."+f.name)
		if len(insts) == 0 {
			ru.Undecided("pad:"+f.name, "", "mathx."+f.name+" has no instance with a body")
			continue
		}
		for _, fn := range insts {
			key := "pad:" + strings.TrimPrefix(fw.ShortFn(fn), "internal/mathx.")
			good, why := false, ""
			rets := c10Returns(fn)
			if len(rets) == 1 && len(fn.Params) == 4 {
				if pc, ok := rets[0].Results[0].(*ssa.Call); ok && pc.Call.StaticCallee() != nil && pc.Call.StaticCallee().Name() == "padFormatNumber" && len(pc.Call.Args) == 4 {
					cc, ok := pc.Call.Args[0].(*ssa.Call)
					if ok && fw.CalleeName(cc) == f.conv && len(cc.Call.Args) == 2 && c10Strip(cc.Call.Args[0]) == ssa.Value(fn.Params[0]) && cc.Call.Args[1] == ssa.Value(fn.Params[1]) &&
						pc.Call.Args[1] == ssa.Value(fn.Params[1]) && pc.Call.Args[2] == ssa.Value(fn.Params[2]) && pc.Call.Args[3] == ssa.Value(fn.Params[3]) {
						good = true
					} else {
						why = "value/base/prefix/width are not passed through in order"
					}
				} else {
					why = "does not return padFormatNumber(..)"
				}
			}
			ru.Check(good, key, p.Rel(fn.Pos()), f.conv+"(value, base) padded with (base, prefix, width)", f.name+": "+why+": the digits printed are not the value's digits in the requested base")
		}
	}
	// padFormatNumber
	if pn := p.Fn("internal/mathx.padFormatNumber"); pn == nil || pn.Blocks == nil || len(pn.Params) != 4 {
		ru.Undecided("padnumber", "", "mathx.padFormatNumber(s, base, basePrefix, width) not found")
	} else {
		env := c10Env(pn, false)
		rets := c10Returns(pn)
		good, why := false, "shape"
		if len(rets) == 1 {
			parts := c10ConcatParts(rets[0].Results[0])
			if len(parts) == 3 && parts[2] == ssa.Value(pn.Params[0]) {
				// prefix: phi{"" , BasePrefixMap[base]} ; the lookup only under basePrefix
				pfxOK := false
				for _, lf := range c10PhiLeaves(parts[0]) {
					if lk, ok := lf.V.(*ssa.Lookup); ok && lk.Index == ssa.Value(pn.Params[1]) {
						for _, c := range c10Conds(lk.Block()) {
							if c.V == ssa.Value(pn.Params[2]) && c.True {
								pfxOK = true
							}
						}
					} else if s, ok := c10ConstStr(lf.V); !ok || s != "" {
						pfxOK = false
						break
					}
				}
				padOK := false
				for _, lf := range c10PhiLeaves(parts[1]) {
					if c, ok := lf.V.(*ssa.Call); ok && fw.CalleeName(c) == "strings.Repeat" {
						z, _ := c10ConstStr(c.Call.Args[0])
						n := env.Of(c.Call.Args[1])
						want := fw.PAtom(pn.Params[3].Name()).Sub(fw.PAtom("len(" + pn.Params[0].Name() + ")"))
						// minus len(prefix): an atom len(<phi>)
						d := want.Sub(n)
						padOK = z == "0" && len(d.T) == 1 && strings.HasPrefix(d.Atoms()[0], "len(")
					} else if s, ok := c10ConstStr(lf.V); !ok || s != "" {
						padOK = false
						break
					}
				}
				good = pfxOK && padOK
				why = fmt.Sprintf("prefix ok=%v pad ok=%v", pfxOK, padOK)
			}
		}
		ru.Check(good, "padnumber", p.Rel(pn.Pos()), "prefix[base] (iff basePrefix) + '0'*(width-len(s)-len(prefix)) + s", "padFormatNumber is not prefix + zero padding + digits ("+why+")")
	}
	c10DigitsFn(ru, p)
}

// ---------------------------------------------------------------------------
// C10.opts

func c10OptsRules(r *fw.Run, p *fw.Program) {
	ru := r.Rule("C10.opts", "OptionsFromValue clamps after mapping the jq options: LineBytes >= 1 (divisor of the row arithmetic), Addrbase/Sizebase in 2..36 (strconv precondition), DisplayBytes >= 0; mathx.Clamp(a,b,v) == max(a, min(b, v)); every dump/hexdump gets Options produced by OptionsFromValue", 6)
	of := p.Fn("pkg/interp.OptionsFromValue")
	if of == nil || of.Blocks == nil {
		ru.Undecided("anchor", "", "interp.OptionsFromValue not found")
		return
	}
	type want struct {
		field  string
		lo, hi int64 // hi < 0: none
	}
	var mapCall ssa.Instruction
	for _, c := range fw.CallsIn(of) {
		if strings.HasSuffix(fw.CalleeName(c), "mapstruct.ToStruct") {
			mapCall = c
		}
	}
	for _, w := range []want{{"LineBytes", 1, -1}, {"DisplayBytes", 0, -1}, {"Addrbase", 2, 36}, {"Sizebase", 2, 36}} {
		var last *ssa.Store
		fw.EachInstr(of, func(ins ssa.Instruction) {
			st, ok := ins.(*ssa.Store)
			if !ok {
				return
			}
			if fa, ok := st.Addr.(*ssa.FieldAddr); ok && fieldNameOf(fa.X.Type(), fa.Field) == w.field {
				if _, isAlloc := fa.X.(*ssa.Alloc); isAlloc {
					last = st
				}
			}
		})
		key := "clamp:" + w.field
		if last == nil {
			ru.Fail(key, p.Rel(of.Pos()), "Options."+w.field+" is not clamped in OptionsFromValue")
			continue
		}
		good := false
		self := func(v ssa.Value) bool { _, f, _, ok := c10FieldLoad(v); return ok && f == w.field }
		if c, ok := last.Val.(*ssa.Call); ok {
			switch {
			case w.hi < 0 && fw.IsBuiltinCall(c, "max") && len(c.Call.Args) == 2:
				for i := 0; i < 2; i++ {
					if k, ok := c10ConstInt(c.Call.Args[i]); ok && k == w.lo && self(c.Call.Args[1-i]) {
						good = true
					}
				}
			case w.hi >= 0 && fw.CalleeName(c) == fw.Mod+"/internal/mathx.Clamp" && len(c.Call.Args) == 3:
				a, ok1 := c10ConstInt(c.Call.Args[0])
				b, ok2 := c10ConstInt(c.Call.Args[1])
				good = ok1 && ok2 && a == w.lo && b == w.hi && self(c.Call.Args[2])
			}
		} else {
			// if-form: every store to the field is `field = lo` under exactly field < lo, or `field = hi` under exactly field > hi
			oenv := c10Env(of, false)
			var fieldPoly *fw.Poly
			fw.EachInstr(of, func(ins ssa.Instruction) {
				if ld, ok := ins.(*ssa.UnOp); ok && self(ld) && fieldPoly == nil {
					fieldPoly = fw.PAtom(c10NoStoreSuffix(oenv.Of(ld).String()))
				}
			})
			sawLo, sawHi, allOK := false, false, fieldPoly != nil
			fw.EachInstr(of, func(ins ssa.Instruction) {
				st, ok := ins.(*ssa.Store)
				if !ok || !allOK {
					return
				}
				fa, ok := st.Addr.(*ssa.FieldAddr)
				if !ok || fieldNameOf(fa.X.Type(), fa.Field) != w.field {
					return
				}
				if _, isAlloc := fa.X.(*ssa.Alloc); !isAlloc {
					return
				}
				k, isC := c10ConstInt(st.Val)
				facts := c10Facts(oenv, st.Block())
				match := func(q fw.Cmp) bool {
					for _, f := range facts {
						f.P = fw.ParsePoly(c10NoStoreSuffix(f.P.String()))
						if f.Implies(q) && q.Implies(f) {
							return true
						}
					}
					return false
				}
				switch {
				case isC && k == w.lo && match(fw.Cmp{P: fieldPoly.Sub(fw.PConst(w.lo)), Rel: fw.LT}):
					sawLo = true
				case isC && w.hi >= 0 && k == w.hi && match(fw.Cmp{P: fieldPoly.Sub(fw.PConst(w.hi)), Rel: fw.GT}):
					sawHi = true
				default:
					allOK = false
				}
			})
			good = allOK && sawLo && (w.hi < 0 || sawHi)
		}
		after := mapCall != nil && (mapCall.Block() != last.Block() || c10InstrIndex(mapCall) < c10InstrIndex(last))
		if w.hi < 0 {
			ru.Check(good && after, key, p.Rel(last.Pos()), fmt.Sprintf("%s = max(%d, %s) after mapping", w.field, w.lo, w.field), fmt.Sprintf("Options.%s is not max(%d, itself) after the options are mapped: a zero/negative value reaches the row arithmetic (division by zero / wrong rows)", w.field, w.lo))
		} else {
			ru.Check(good && after, key, p.Rel(last.Pos()), fmt.Sprintf("%s = Clamp(%d, %d, %s) after mapping", w.field, w.lo, w.hi, w.field), fmt.Sprintf("Options.%s is not Clamp(%d, %d, itself) after the options are mapped: strconv panics or prints in another base", w.field, w.lo, w.hi))
		}
	}
	// Clamp
	for _, fn := range c10FnInstances(p, fw.Mod+"/internal/mathx.Clamp") {
		if len(fn.Params) != 3 || !c10IsInt(fn.Params[2].Type()) {
			continue
		}
		good := false
		rets := c10Returns(fn)
		if len(rets) == 1 {
			if mx, ok := rets[0].Results[0].(*ssa.Call); ok && fw.IsBuiltinCall(mx, "max") && len(mx.Call.Args) == 2 {
				for i := 0; i < 2; i++ {
					mn, ok := mx.Call.Args[1-i].(*ssa.Call)
					if mx.Call.Args[i] == ssa.Value(fn.Params[0]) && ok && fw.IsBuiltinCall(mn, "min") && len(mn.Call.Args) == 2 {
						a0, a1 := mn.Call.Args[0], mn.Call.Args[1]
						if (a0 == ssa.Value(fn.Params[1]) && a1 == ssa.Value(fn.Params[2])) || (a1 == ssa.Value(fn.Params[1]) && a0 == ssa.Value(fn.Params[2])) {
							good = true
						}
					}
				}
			}
		}
		ru.Check(good, "clampfn:"+strings.TrimPrefix(fw.ShortFn(fn), "internal/mathx."), p.Rel(fn.Pos()), "Clamp(a,b,v) = max(a, min(b, v))", "mathx.Clamp is not max(a, min(b, v))")
	}
	// provenance of *Options reaching the dumper: calls of functions with the dumper role get a value
	// that is a parameter (forwarded) or the result of OptionsFromValue
	cands := c10FindByRole(p, "pkg/interp", c10ColNew)
	if len(cands) != 1 {
		ru.Undecided("provenance", "", "tree dump entry not resolved")
		return
	}
	optT := p.NamedType("pkg/interp", "Options")
	seen := map[*ssa.Function]bool{}
	work := []*ssa.Function{cands[0]}
	n, bad := 0, ""
	for len(work) > 0 {
		callee := work[0]
		work = work[1:]
		if seen[callee] {
			continue
		}
		seen[callee] = true
		pi := -1
		for i, prm := range callee.Params {
			if pt, ok := prm.Type().(*types.Pointer); ok && optT != nil && types.Identical(pt.Elem(), optT) {
				pi = i
			}
		}
		if pi < 0 {
			continue
		}
		for _, fn := range p.FqFunctions() {
			if pkgRel(fn) != "pkg/interp" {
				continue
			}
			for _, c := range fw.CallsIn(fn) {
				if c.Common().StaticCallee() != callee {
					continue
				}
				n++
				arg := c.Common().Args[pi]
				switch x := arg.(type) {
				case *ssa.Parameter:
					work = append(work, fw.Top(fn))
					if fn.Parent() != nil {
						// a closure's own parameter: its callers are dynamic
						bad = fw.ShortFn(fn)
					}
				case *ssa.Extract:
					if cl, ok := x.Tuple.(*ssa.Call); !ok || cl.Call.StaticCallee() != of {
						bad = fw.ShortFn(fn)
					}
				default:
					bad = fw.ShortFn(fn) + " passes " + arg.String()
				}
			}
		}
	}
	// interface method Display(w, opts): implementations forward their parameter; the invoker passes OptionsFromValue
	ru.Check(bad == "" && n >= 2, "provenance", p.Rel(cands[0].Pos()), fmt.Sprintf("%d static call sites forward a parameter or pass OptionsFromValue's result", n), "a dump is started with Options not produced by OptionsFromValue (in "+bad+"): LineBytes/bases are unclamped")
	invOK, ninv := true, 0
	for _, fn := range p.FqFunctions() {
		if pkgRel(fn) != "pkg/interp" {
			continue
		}
		for _, c := range fw.CallsIn(fn) {
			cc := c.Common()
			if !cc.IsInvoke() || cc.Method.Name() != "Display" || len(cc.Args) != 2 {
				continue
			}
			ninv++
			ex, ok := cc.Args[1].(*ssa.Extract)
			if !ok {
				invOK = false
				continue
			}
			if cl, ok := ex.Tuple.(*ssa.Call); !ok || cl.Call.StaticCallee() != of {
				invOK = false
			}
		}
	}
	ru.Check(invOK && ninv >= 1, "provenance:display", p.Rel(of.Pos()), fmt.Sprintf("%d Display invocations pass OptionsFromValue's result", ninv), "Display is invoked with Options not produced by OptionsFromValue")
}

// ---------------------------------------------------------------------------
// C10.json

func c10JSONRules(r *fw.Run, p *fw.Program) {
	ru := r.Rule("C10.json", "colorjson: the encoder has an arm for every gojq value type; int -> strconv.AppendInt(.., int64(v), 10), *big.Int -> v.Append(.., 10) (exact base 10), float64 -> encodeFloat64, string -> encodeString; encodeFloat64 prints NaN as null, substitutes +-MaxFloat64 for f only under a guard implying f is beyond that constant on the same side of zero, formats with AppendFloat(.., 'f'|'e', -1, 64) (shortest exact) and may delete a character of the result only where it is proved to be the leading '0' of a two-digit negative exponent; _printColorJSON marshals its input through colorjson with a ValueFn; previewValue prints integers through PadFormat*(value, FormatBase, prefix) and floats with FormatFloat(.., 'g', -1, 64); indentation is a run of blanks or tabs, written as prefixes of that run or copied from the tail of the buffer's current contents; encodeString leaves a byte unescaped only if 0x20 <= b < 0x80 and not quote/backslash, its escape arms write the JSON escape of their byte and no byte is dropped; arrays/objects are bracketed, elements separated by ',' exactly from the second on, keys followed by ':'", 28)
	enc := p.Fn("(*internal/colorjson.Encoder).encode")
	if enc == nil || enc.Blocks == nil || len(enc.Params) != 2 {
		ru.Undecided("anchor:encode", "", "colorjson.(*Encoder).encode(v) not found")
		return
	}
	v := enc.Params[1]
	asserts := map[string]*ssa.TypeAssert{}
	fw.EachInstr(enc, func(ins ssa.Instruction) {
		if ta, ok := ins.(*ssa.TypeAssert); ok && ta.X == ssa.Value(v) {
			asserts[c10TypeName(ta.AssertedType)] = ta
		}
	})
	asserted := func(val ssa.Value, ty string) bool {
		ex, ok := c10StripWidening(val).(*ssa.Extract)
		return ok && ex.Index == 0 && asserts[ty] != nil && ex.Tuple == ssa.Value(asserts[ty])
	}
	for _, ty := range []string{"bool", "int", "float64", "*math/big.Int", "string", "[]any", "map[string]any"} {
		ru.Check(asserts[ty] != nil, "arm:"+ty, p.Rel(enc.Pos()), "encoder has an arm for "+ty, "the encoder has no arm for gojq value type "+ty+": such values fall to the ValueFn/default arm")
	}
	nilArm := false
	fw.EachInstr(enc, func(ins ssa.Instruction) {
		if b, ok := ins.(*ssa.BinOp); ok && b.Op == token.EQL && b.X == ssa.Value(v) && isNilConst(b.Y) {
			nilArm = true
		}
	})
	ru.Check(nilArm, "arm:nil", p.Rel(enc.Pos()), "encoder has an arm for null", "the encoder has no arm for nil")
	// int
	ai := c10CallsTo(enc, "strconv.AppendInt")
	if len(ai) != 1 {
		ru.Fail("int:base10", p.Rel(enc.Pos()), fmt.Sprintf("%d strconv.AppendInt calls in the encoder, expected the one of the int arm", len(ai)))
	} else {
		k, ok := c10ConstInt(ai[0].Call.Args[2])
		ru.Check(ok && k == 10 && asserted(ai[0].Call.Args[1], "int"), "int:base10", p.Rel(ai[0].Pos()), "int is printed by AppendInt(int64(v), 10)", "the int arm does not print the asserted value itself in base 10")
	}
	ab := c10CallsTo(enc, "(*math/big.Int).Append")
	if len(ab) != 1 {
		ru.Fail("bigint:base10", p.Rel(enc.Pos()), fmt.Sprintf("%d (*big.Int).Append calls in the encoder, expected the one of the *big.Int arm", len(ab)))
	} else {
		k, ok := c10ConstInt(ab[0].Call.Args[2])
		ru.Check(ok && k == 10 && asserted(ab[0].Call.Args[0], "*math/big.Int"), "bigint:base10", p.Rel(ab[0].Pos()), "*big.Int is printed exactly by Append(.., 10)", "the *big.Int arm does not print the asserted value itself in base 10 (e.g. via float64): integers beyond 2^53 lose digits")
	}
	ef := p.Fn("(*internal/colorjson.Encoder).encodeFloat64")
	es := p.Fn("(*internal/colorjson.Encoder).encodeString")
	// one printer per number type: no second, lossy route (a "fast path" through uint64 / int64 / float64)
	c10OnlyPrinters(ru, p, enc, "encode", map[string]bool{"strconv.AppendInt": true, "(*math/big.Int).Append": true})
	if ef != nil && ef.Blocks != nil {
		c10OnlyPrinters(ru, p, ef, "encodeFloat64", map[string]bool{"strconv.AppendFloat": true})
	}
	for _, a := range []struct {
		k, ty string
		fn    *ssa.Function
	}{{"float", "float64", ef}, {"string", "string", es}} {
		good := false
		if a.fn != nil {
			for _, c := range c10CallsTo(enc, a.fn.String()) {
				if asserted(c.Call.Args[1], a.ty) {
					good = true
				}
			}
		}
		ru.Check(good, a.k+":arm", p.Rel(enc.Pos()), a.ty+" arm encodes the asserted value", "the "+a.ty+" arm does not hand the asserted value to its encoder")
	}
	if ef != nil && ef.Blocks != nil {
		c10FloatRules(ru, p, ef)
	} else {
		ru.Undecided("float:anchor", "", "encodeFloat64 not found")
	}
	c10JSONStringRules(ru, p)
	c10JSONSeparators(ru, p)
	// _printColorJSON
	pj := p.Fn("(*pkg/interp.Interp)._printColorJSON")
	if pj == nil || pj.Blocks == nil {
		ru.Undecided("print:anchor", "", "interp.(*Interp)._printColorJSON not found")
	} else {
		named := p.NamedType("internal/colorjson", "Options")
		vfOK := false
		fw.EachInstr(pj, func(ins ssa.Instruction) {
			st, ok := ins.(*ssa.Store)
			if !ok {
				return
			}
			fa, ok := st.Addr.(*ssa.FieldAddr)
			if !ok || fieldNameOf(fa.X.Type(), fa.Field) != "ValueFn" {
				return
			}
			if pt, ok := fa.X.Type().Underlying().(*types.Pointer); !ok || named == nil || !types.Identical(pt.Elem(), named) {
				return
			}
			if mc, ok := st.Val.(*ssa.MakeClosure); ok {
				if f, ok := mc.Fn.(*ssa.Function); ok && len(c10CallsTo(f, fw.Mod+"/pkg/interp.toValue")) == 1 {
					vfOK = true
				}
			}
		})
		ru.Check(vfOK, "print:valuefn", p.Rel(pj.Pos()), "colorjson.Options.ValueFn converts fq values with toValue", "_printColorJSON does not install a ValueFn calling toValue: decode values reach the encoder's default arm")
		mOK := false
		for _, c := range c10CallsTo(pj, "(*"+fw.Mod+"/internal/colorjson.Encoder).Marshal") {
			if c.Call.Args[1] == ssa.Value(pj.Params[1]) {
				mOK = true
			}
		}
		ru.Check(mOK, "print:marshal", p.Rel(pj.Pos()), "the input value itself is marshalled", "_printColorJSON does not marshal its input value")
	}
	// previewValue
	pv := p.Fn("pkg/interp.previewValue")
	if pv == nil || pv.Blocks == nil || len(pv.Params) != 3 {
		ru.Undecided("preview:anchor", "", "interp.previewValue(v, df, opts) not found")
		return
	}
	pas := map[string]*ssa.TypeAssert{}
	fw.EachInstr(pv, func(ins ssa.Instruction) {
		if ta, ok := ins.(*ssa.TypeAssert); ok && ta.X == ssa.Value(pv.Params[0]) {
			pas[c10TypeName(ta.AssertedType)] = ta
		}
	})
	for _, a := range []struct{ ty, callee string }{
		{"int", fw.Mod + "/internal/mathx.PadFormatInt"}, {"int64", fw.Mod + "/internal/mathx.PadFormatInt"},
		{"uint64", fw.Mod + "/internal/mathx.PadFormatUint"}, {"*math/big.Int", fw.Mod + "/internal/mathx.PadFormatBigInt"},
	} {
		ta := pas[a.ty]
		good, why := false, "no arm"
		if ta != nil {
			for _, c := range c10CallsTo(pv, a.callee) {
				ex, ok := c10Strip(c.Call.Args[0]).(*ssa.Extract)
				if !ok || ex.Tuple != ssa.Value(ta) || ex.Index != 0 {
					continue
				}
				why = "base/prefix"
				bc, ok := c.Call.Args[1].(*ssa.Call)
				pfx, _ := c10ConstBool(c.Call.Args[2])
				if ok && fw.CalleeName(bc) == "("+fw.Mod+"/pkg/scalar.DisplayFormat).FormatBase" && bc.Call.Args[0] == ssa.Value(pv.Params[1]) && pfx {
					good = true
				}
			}
		}
		ru.Check(good, "preview:"+a.ty, p.Rel(pv.Pos()), a.ty+" is printed by "+strings.TrimPrefix(a.callee, fw.Mod+"/internal/")+"(value, df.FormatBase(), prefix)", "previewValue's "+a.ty+" arm ("+why+") does not print the value itself in its display format's base with the base prefix")
	}
	ff := c10CallsTo(pv, "strconv.FormatFloat")
	good := false
	if len(ff) == 1 && pas["float64"] != nil {
		ex, ok := ff[0].Call.Args[0].(*ssa.Extract)
		f, _ := c10ConstInt(ff[0].Call.Args[1])
		pr, _ := c10ConstInt(ff[0].Call.Args[2])
		bs, _ := c10ConstInt(ff[0].Call.Args[3])
		good = ok && ex.Tuple == ssa.Value(pas["float64"]) && (f == 'g' || f == 'e' || f == 'f') && pr == -1 && bs == 64
	}
	ru.Check(good, "preview:float64", p.Rel(pv.Pos()), "float64 is printed with FormatFloat(v, 'g', -1, 64)", "previewValue's float arm does not use the shortest exact representation (precision -1, 64 bit)")
}

// c10FloatRules: encodeFloat64.
func c10FloatRules(ru *fw.Rule, p *fw.Program, ef *ssa.Function) {
	f := ef.Params[1]
	afs := c10CallsTo(ef, "strconv.AppendFloat")
	if len(afs) != 1 {
		ru.Undecided("float:append", p.Rel(ef.Pos()), fmt.Sprintf("%d AppendFloat calls in encodeFloat64", len(afs)))
		return
	}
	af := afs[0]
	prec, _ := c10ConstInt(af.Call.Args[3])
	bits, _ := c10ConstInt(af.Call.Args[4])
	fmtOK := true
	var fmts []string
	for _, lf := range c10PhiLeaves(af.Call.Args[2]) {
		k, ok := c10ConstInt(lf.V)
		if !ok || (k != 'f' && k != 'e') {
			fmtOK = false
		}
		fmts = append(fmts, string(rune(k)))
	}
	sort.Strings(fmts)
	valOK := true
	sawF := false
	for _, lf := range c10PhiLeaves(af.Call.Args[1]) {
		if lf.V == ssa.Value(f) {
			sawF = true
			continue
		}
		if cl, isCall := lf.V.(*ssa.Call); isCall {
			// max(-K, min(K, f)): decided by float:clamp
			if ok, _ := c10FloatClampExpr(cl, f); ok {
				sawF = true
				continue
			}
			if k, ok := c10Copysign(cl, f); ok && math.Abs(k) == math.MaxFloat64 {
				continue
			}
		}
		c, ok := lf.V.(*ssa.Const)
		if !ok || c.Value == nil || c.Value.Kind() != constant.Float {
			valOK = false
			continue
		}
		fv, _ := constant.Float64Val(c.Value)
		if fv != 1.7976931348623157e308 && fv != -1.7976931348623157e308 {
			valOK = false
		}
	}
	ru.Check(prec == -1 && bits == 64 && fmtOK && valOK && sawF, "float:append", p.Rel(af.Pos()), "AppendFloat(f or +-MaxFloat64, "+strings.Join(fmts, "|")+", -1, 64)", fmt.Sprintf("AppendFloat is called with precision %d, bit size %d, formats %v, value ok=%v: the printed number is not the shortest representation that parses back to the value", prec, bits, fmts, valOK && sawF))
	c10FloatClamp(ru, p, ef, af)
	// NaN -> null
	nan := false
	for _, c := range c10Conds(af.Block()) {
		if cl, ok := c.V.(*ssa.Call); ok && fw.CalleeName(cl) == "math.IsNaN" && cl.Call.Args[0] == ssa.Value(f) && !c.True {
			nan = true
		}
	}
	nullOK := false
	fw.EachInstr(ef, func(ins ssa.Instruction) {
		if cv, ok := ins.(*ssa.Convert); ok {
			if s, ok := c10ConstStr(cv.X); ok && s == "null" {
				for _, c := range c10Conds(cv.Block()) {
					if cl, ok := c.V.(*ssa.Call); ok && fw.CalleeName(cl) == "math.IsNaN" && c.True {
						nullOK = true
					}
				}
			}
		}
	})
	ru.Check(nan && nullOK, "float:nan", p.Rel(ef.Pos()), "NaN is printed as null and never formatted", "NaN is not diverted to null before AppendFloat: output 'NaN' is not valid JSON")
	// stores into the formatted buffer
	env := c10Env(ef, false)
	n := fw.PAtom("n")
	idxPoly := func(v ssa.Value) (*fw.Poly, bool) {
		// index expressions are len(buf) - k
		pl := env.Of(v)
		out := fw.NewPoly()
		okLen := false
		for m, c := range pl.T {
			if m == "" {
				out = out.Add(fw.PConst(c.Int64()))
			} else if strings.HasPrefix(m, "len(") && c.IsInt64() && c.Int64() == 1 {
				out = out.Add(n)
				okLen = true
			} else {
				return nil, false
			}
		}
		return out, okLen
	}
	nStores := 0
	fw.EachInstr(ef, func(ins ssa.Instruction) {
		st, ok := ins.(*ssa.Store)
		if !ok {
			return
		}
		ia, ok := st.Addr.(*ssa.IndexAddr)
		if !ok || ia.X != ssa.Value(af) {
			return
		}
		nStores++
		key := fmt.Sprintf("float:edit#%d", nStores)
		I, okI := idxPoly(ia.Index)
		if !okI {
			ru.Undecided(key, p.Rel(st.Pos()), "store into the formatted number at an index that is not len(buf)-k")
			return
		}
		// known characters
		known := map[string]int64{}
		for _, c := range c10Conds(st.Block()) {
			b, ok := c.V.(*ssa.BinOp)
			if !ok || b.Op != token.EQL || !c.True {
				continue
			}
			ld, ok := b.X.(*ssa.UnOp)
			if !ok {
				continue
			}
			lia, ok := ld.X.(*ssa.IndexAddr)
			if !ok || lia.X != ssa.Value(af) {
				continue
			}
			if ip, ok := idxPoly(lia.Index); ok {
				if k, ok := c10ConstInt(b.Y); ok {
					known[ip.String()] = k
				}
			}
		}
		at := func(d int64) int64 {
			if k, ok := known[I.Add(fw.PConst(d)).String()]; ok {
				return k
			}
			return -1
		}
		// moved value: buf[I+1], which is the last character; result is buf[:n-1]
		moved := false
		if ld, ok := st.Val.(*ssa.UnOp); ok {
			if lia, ok := ld.X.(*ssa.IndexAddr); ok && lia.X == ssa.Value(af) {
				if ip, ok := idxPoly(lia.Index); ok && ip.Equal(I.Add(fw.PConst(1))) && ip.Equal(n.Sub(fw.PConst(1))) {
					moved = true
				}
			}
		}
		shrunk := false
		fw.EachInstr(ef, func(x ssa.Instruction) {
			if sl, ok := x.(*ssa.Slice); ok && sl.X == ssa.Value(af) && sl.High != nil && sl.Block() == st.Block() {
				if hp, ok := idxPoly(sl.High); ok && hp.Equal(n.Sub(fw.PConst(1))) {
					shrunk = true
				}
			}
		})
		fmtE := false
		for _, c := range c10Conds(st.Block()) {
			if b, ok := c.V.(*ssa.BinOp); ok && b.Op == token.EQL && c.True && c10Strip(b.X) == c10Strip(af.Call.Args[2]) {
				if k, ok := c10ConstInt(b.Y); ok && k == 'e' {
					fmtE = true
				}
			}
		}
		ru.Check(at(0) == '0' && at(-1) == '-' && at(-2) == 'e' && moved && shrunk && fmtE, key, p.Rel(st.Pos()),
			"the only edit deletes buf[n-2] where buf[n-4:n-1] == \"e-0\" is proved (leading zero of a two-digit negative exponent)",
			fmt.Sprintf("the formatted number is edited at %s where the characters proved are [%s-2]=%s [%s-1]=%s [%s]=%s (format 'e' proved: %v, moves last char: %v, drops one char: %v): a significant digit of the number can be deleted",
				I.String(), I.String(), c10Ch(at(-2)), I.String(), c10Ch(at(-1)), I.String(), c10Ch(at(0)), fmtE, moved, shrunk))
	})
	if nStores == 0 {
		ru.Ok("float:edit", p.Rel(ef.Pos()), "the formatted number is not edited")
	}
}

// c10FloatFacts is what the branch conditions dominating a block say about one float64 value.
type c10FloatFacts struct {
	lo, hi       float64 // f >= lo, f <= hi (valid with hasLo/hasHi)
	hasLo, hasHi bool
	inf          bool // |f| == +Inf
	notNaN       bool
	notPosInf    bool
	notNegInf    bool
}

func (ff c10FloatFacts) String() string {
	var s []string
	if ff.hasLo {
		s = append(s, fmt.Sprintf("f >= %g", ff.lo))
	}
	if ff.hasHi {
		s = append(s, fmt.Sprintf("f <= %g", ff.hi))
	}
	if ff.inf {
		s = append(s, "IsInf(f)")
	}
	if ff.notPosInf {
		s = append(s, "f != +Inf")
	}
	if ff.notNegInf {
		s = append(s, "f != -Inf")
	}
	if len(s) == 0 {
		return "{nothing about f}"
	}
	return "{" + strings.Join(s, "; ") + "}"
}

func c10FloatConst(v ssa.Value) (float64, bool) {
	c, ok := v.(*ssa.Const)
	if !ok || c.Value == nil || (c.Value.Kind() != constant.Float && c.Value.Kind() != constant.Int) {
		return 0, false
	}
	if b, isB := c.Type().Underlying().(*types.Basic); !isB || b.Info()&types.IsFloat == 0 {
		return 0, false
	}
	fv, _ := constant.Float64Val(c.Value)
	return fv, true
}

// c10FloatFactsAt collects the facts about f known at block b (comparisons of f with float
// constants, math.IsInf(f, sign), math.IsNaN(f)). Negated comparisons only count once NaN is excluded.
func c10FloatFactsAt(b *ssa.BasicBlock, f ssa.Value) c10FloatFacts {
	var ff c10FloatFacts
	conds := c10Conds(b)
	for _, c := range conds {
		if cl, ok := c.V.(*ssa.Call); ok && fw.CalleeName(cl) == "math.IsNaN" && len(cl.Call.Args) == 1 && cl.Call.Args[0] == f && !c.True {
			ff.notNaN = true
		}
	}
	setLo := func(k float64) {
		if !ff.hasLo || k > ff.lo {
			ff.lo, ff.hasLo = k, true
		}
	}
	setHi := func(k float64) {
		if !ff.hasHi || k < ff.hi {
			ff.hi, ff.hasHi = k, true
		}
	}
	inf := math.Inf(1)
	for _, c := range conds {
		switch x := c.V.(type) {
		case *ssa.Call:
			if fw.CalleeName(x) == "math.IsInf" && len(x.Call.Args) == 2 && x.Call.Args[0] == f {
				sgn, ok := c10ConstInt(x.Call.Args[1])
				switch {
				case !ok:
				case !c.True:
					ff.notPosInf = ff.notPosInf || sgn > 0
					ff.notNegInf = ff.notNegInf || sgn < 0
				case sgn > 0:
					setLo(inf)
				case sgn < 0:
					setHi(-inf)
				default:
					ff.inf = true
				}
			}
		case *ssa.BinOp:
			op := x.Op
			var k float64
			var ok bool
			switch {
			case x.X == f:
				k, ok = c10FloatConst(x.Y)
			case x.Y == f:
				k, ok = c10FloatConst(x.X)
				// k op f  ==  f op' k
				switch op {
				case token.LSS:
					op = token.GTR
				case token.LEQ:
					op = token.GEQ
				case token.GTR:
					op = token.LSS
				case token.GEQ:
					op = token.LEQ
				}
			}
			if !ok {
				continue
			}
			if !c.True {
				if !ff.notNaN && op != token.NEQ {
					continue // !(f >= k) also holds for NaN
				}
				switch op {
				case token.LSS:
					op = token.GEQ
				case token.LEQ:
					op = token.GTR
				case token.GTR:
					op = token.LEQ
				case token.GEQ:
					op = token.LSS
				case token.EQL:
					op = token.NEQ
				case token.NEQ:
					op = token.EQL
				}
			}
			switch op {
			case token.GEQ, token.GTR:
				setLo(k)
			case token.LEQ, token.LSS:
				setHi(k)
			case token.EQL:
				setLo(k)
				setHi(k)
			}
		}
	}
	return ff
}

// c10FloatClampExpr: v is f, or min(v', K) with K >= MaxFloat64, or max(v', K) with K <= -MaxFloat64
// (builtin or package math), i.e. a value that differs from f only for +-Inf.
func c10FloatClampExpr(v, f ssa.Value) (bool, string) {
	if v == f {
		return true, ""
	}
	c, ok := v.(*ssa.Call)
	if !ok {
		return false, "value " + v.String()
	}
	kind := ""
	switch {
	case len(c.Call.Args) != 2:
	case fw.IsBuiltinCall(c, "min"), fw.CalleeName(c) == "math.Min":
		kind = "min"
	case fw.IsBuiltinCall(c, "max"), fw.CalleeName(c) == "math.Max":
		kind = "max"
	}
	if kind == "" {
		return false, "call " + fw.CalleeName(c)
	}
	for i := 0; i < 2; i++ {
		k, isK := c10FloatConst(c.Call.Args[i])
		if !isK {
			continue
		}
		if (kind == "min" && k < math.MaxFloat64) || (kind == "max" && k > -math.MaxFloat64) {
			return false, fmt.Sprintf("%s(f, %g) replaces finite values of f", kind, k)
		}
		return c10FloatClampExpr(c.Call.Args[1-i], f)
	}
	return false, kind + " without a constant bound"
}

// c10Copysign: v is math.Copysign(K, f) with a constant K.
func c10Copysign(v, f ssa.Value) (float64, bool) {
	c, ok := v.(*ssa.Call)
	if !ok || fw.CalleeName(c) != "math.Copysign" || len(c.Call.Args) != 2 || c.Call.Args[1] != f {
		return 0, false
	}
	return c10FloatConst(c.Call.Args[0])
}

// c10FloatClamp: JSON has no infinities, so encodeFloat64 may substitute a finite constant for f
// before formatting; the printed number then is that constant. It equals the value (up to the
// documented clamp of +-Inf to +-MaxFloat64) only if the guard the substitution sits under
// implies that f is at least as large in magnitude and of the same sign: f >= c for c > 0,
// f <= c for c < 0 (directly, or as IsInf(f, sign) / IsInf(f, 0) together with the sign of f).
// The builtin or math min/max forms max(-K, min(K, f)) are accepted when K >= MaxFloat64.
func c10FloatClamp(ru *fw.Rule, p *fw.Program, ef *ssa.Function, af *ssa.Call) {
	f := ssa.Value(ef.Params[1])
	clampExpr := func(v ssa.Value) (bool, string) { return c10FloatClampExpr(v, f) }
	n, bad := 0, ""
	for _, lf := range c10PhiLeaves(af.Call.Args[1]) {
		if lf.V == f {
			continue
		}
		c, isC := c10FloatConst(lf.V)
		if k, isCS := c10Copysign(lf.V, f); isCS {
			// Copysign(K, f) has f's sign by construction; the guard must imply |f| >= K
			n++
			k = math.Abs(k)
			var ff c10FloatFacts
			if lf.Pred != nil {
				ff = c10FloatFactsAt(lf.Pred, f)
			}
			if !(ff.inf || (ff.hasLo && ff.lo >= k) || (ff.hasHi && ff.hi <= -k)) {
				bad = fmt.Sprintf("Copysign(%g, f) is substituted for f where only %s is known", k, ff.String())
			}
			continue
		}
		if !isC {
			if ok, why := clampExpr(lf.V); ok {
				n++
			} else {
				bad = why
			}
			continue
		}
		n++
		if lf.Pred == nil {
			bad = fmt.Sprintf("the constant %g is formatted unconditionally", c)
			continue
		}
		ff := c10FloatFactsAt(lf.Pred, f)
		ok := false
		switch {
		case c > 0:
			// |f| == Inf and f is not -Inf (bounded below, or IsInf(f,-1) refuted): f == +Inf
			ok = (ff.hasLo && ff.lo >= c) || (ff.inf && (ff.notNegInf || (ff.hasLo && ff.lo > math.Inf(-1))))
		case c < 0:
			ok = (ff.hasHi && ff.hi <= c) || (ff.inf && (ff.notPosInf || (ff.hasHi && ff.hi < math.Inf(1))))
		default:
			ok = ff.hasLo && ff.hasHi && ff.lo == 0 && ff.hi == 0
		}
		if !ok {
			bad = fmt.Sprintf("%g is substituted for f where only %s is known", c, ff.String())
		}
	}
	ru.Check(bad == "", "float:clamp", p.Rel(af.Pos()), fmt.Sprintf("%d substitutions for f, each under a guard implying f is beyond the constant on the same side of zero", n),
		"encodeFloat64: "+bad+": a value of the other sign (e.g. -Inf) or of smaller magnitude is printed as that constant, the JSON number does not equal the value")
}

func c10Ch(k int64) string {
	if k < 0 {
		return "unproved"
	}
	return fmt.Sprintf("%q", rune(k))
}

// c10TypeName prints a type with the empty interface spelled "any" whatever the toolchain's alias mode.
func c10TypeName(t types.Type) string {
	return strings.ReplaceAll(types.TypeString(t, nil), "interface{}", "any")
}

// c10OnlyPrinters: in the number arms of the JSON encoder the digits come from the one exact printer of
// the arm's type. Any other strconv / math/big formatting or narrowing call (AppendUint of
// v.Uint64(), AppendInt of int64(f), v.Int64(), v.Float64() ...) is a second route that prints some
// values of the type differently (sign or high bits lost); a float converted to an integer type is the
// same route spelled as a conversion.
func c10OnlyPrinters(ru *fw.Rule, p *fw.Program, fn *ssa.Function, name string, allowed map[string]bool) {
	bad := ""
	pos := p.Rel(fn.Pos())
	for _, f := range fw.WithClosures(fn) {
		for _, c := range fw.CallsIn(f) {
			n := fw.CalleeName(c)
			if allowed[n] {
				continue
			}
			if strings.HasPrefix(n, "strconv.") || strings.HasPrefix(n, "(*math/big.Int).") || strings.HasPrefix(n, "(*math/big.Float).") {
				if bad == "" {
					bad = n
					pos = p.Rel(c.Pos())
				}
			}
		}
		fw.EachInstr(f, func(ins ssa.Instruction) {
			cv, ok := ins.(*ssa.Convert)
			if !ok {
				return
			}
			from, okF := cv.X.Type().Underlying().(*types.Basic)
			to, okT := cv.Type().Underlying().(*types.Basic)
			if okF && okT && from.Info()&types.IsFloat != 0 && to.Info()&types.IsInteger != 0 && bad == "" {
				bad = "a conversion of the float to " + to.Name()
				pos = p.Rel(cv.Pos())
			}
		})
	}
	ru.Check(bad == "", name+":one-printer", pos, "numbers are printed only by the exact printer of their type", "the encoder also formats a number through "+bad+": values outside that route's range (negative or > 64 bit integers, integral floats >= 2^63) print as a different number")
}
