package rules

// jq-side machinery of C11: small structural evaluators over gojq ASTs of the bundled jq sources.

import (
	"fmt"
	"sort"
	"strings"

	"github.com/wader/gojq"

	"fqverif/fw"
)

const (
	c11QueryJQ = "pkg/interp/query.jq"
	c11EvalJQ  = "pkg/interp/eval.jq"
	c11JSONJQ  = "format/json/jq.jq"
)

type c11Ctx struct {
	r  *fw.Run
	p  *fw.Program
	jq *fw.JQ
	sc *c11Schema

	callKeys   map[*fw.JQDef]map[string]bool // cache: name/arity called anywhere inside a top-level def
	strNames   map[string]bool               // cache: every constant string of pkg/interp/*.jq
	inlCache   map[*fw.JQDef]*fw.JQDef
	interpList []*fw.JQDef
}

func (c *c11Ctx) pos(d *fw.JQDef) string {
	if d == nil {
		return ""
	}
	return d.File.Rel + ":" + d.Key()
}

// def resolves the unique top-level definition name/arity of a file; nil + Undecided if absent or ambiguous.
func (c *c11Ctx) def(ru *fw.Rule, rel, name string, arity int) *fw.JQDef {
	return c.inl(c.defRaw(ru, rel, name, arity))
}

// defRaw is def without inlining of local helper definitions (for rules that are about a local helper).
func (c *c11Ctx) defRaw(ru *fw.Rule, rel, name string, arity int) *fw.JQDef {
	var found []*fw.JQDef
	for _, d := range c.jq.Defs {
		if d.Parent == nil && d.File.Rel == rel && d.Def.Name == name && len(d.Def.Args) == arity {
			found = append(found, d)
		}
	}
	key := fmt.Sprintf("anchor:%s/%d", name, arity)
	if len(found) == 0 {
		ru.Undecided(key, rel, "jq definition not found")
		return nil
	}
	if len(found) > 1 {
		ru.Undecided(key, rel, "jq definition defined more than once in the file; which one is called depends on position")
		return nil
	}
	return found[0]
}

// ---------------------------------------------------------------------------
// small AST predicates

func c11Plain(q *gojq.Query) bool { return q != nil && len(q.FuncDefs) == 0 }

// c11Unparen strips redundant parentheses.
func c11Unparen(q *gojq.Query) *gojq.Query {
	for q != nil && len(q.FuncDefs) == 0 && q.Left == nil && q.Term != nil && q.Term.Type == gojq.TermTypeQuery && len(q.Term.SuffixList) == 0 && q.Term.Query != nil {
		q = q.Term.Query
	}
	return q
}

func c11IsIdentity(q *gojq.Query) bool {
	q = c11Unparen(q)
	return c11Plain(q) && q.Left == nil && q.Term != nil && q.Term.Type == gojq.TermTypeIdentity && len(q.Term.SuffixList) == 0
}

// c11Call returns the call when q is exactly name(args...) (any name if name == "").
func c11Call(q *gojq.Query, name string, arity int) *gojq.Func {
	q = c11Unparen(q)
	if !c11Plain(q) || q.Left != nil || q.Term == nil || q.Term.Type != gojq.TermTypeFunc || len(q.Term.SuffixList) != 0 || q.Term.Func == nil {
		return nil
	}
	f := q.Term.Func
	if strings.HasPrefix(f.Name, "$") {
		return nil
	}
	if (name == "" || f.Name == name) && (arity < 0 || len(f.Args) == arity) {
		return f
	}
	return nil
}

// c11Var reports whether q is exactly the variable $name ("" = any) and returns its name.
func c11Var(q *gojq.Query, name string) (string, bool) {
	q = c11Unparen(q)
	if !c11Plain(q) || q.Left != nil || q.Term == nil || q.Term.Type != gojq.TermTypeFunc || len(q.Term.SuffixList) != 0 || q.Term.Func == nil {
		return "", false
	}
	n := q.Term.Func.Name
	if !strings.HasPrefix(n, "$") || len(q.Term.Func.Args) != 0 {
		return "", false
	}
	return n, name == "" || n == name
}

// c11Chain describes a path expression: root "." or "$var", then steps ".name", "[n]", "[$v]", "[]".
type c11Chain struct {
	Root  string
	Steps []string
	Names []string // the named steps only
}

func (ch *c11Chain) String() string { return ch.Root + strings.Join(ch.Steps, "") }

// Path renders the steps only (relative path).
func (ch *c11Chain) Path() string { return strings.Join(ch.Steps, "") }

func c11IndexStep(ix *gojq.Index) (string, string, bool) {
	if ix == nil {
		return "", "", false
	}
	if ix.Name != "" {
		return "." + ix.Name, ix.Name, true
	}
	if ix.Str != nil {
		if len(ix.Str.Queries) == 0 {
			return "." + ix.Str.Str, ix.Str.Str, true
		}
		return "", "", false
	}
	if ix.IsSlice || ix.End != nil || ix.Start == nil {
		return "", "", false
	}
	if n, ok := c11ConstInt(ix.Start); ok {
		return "[" + n + "]", "", true
	}
	if v, ok := c11Var(ix.Start, ""); ok {
		return "[" + v + "]", "", true
	}
	if s, ok := fw.JQConstString(ix.Start); ok {
		return "." + s, s, true
	}
	return "", "", false
}

func c11ConstInt(q *gojq.Query) (string, bool) {
	q = c11Unparen(q)
	if n, ok := fw.JQConstNumber(q); ok {
		return n, true
	}
	if c11Plain(q) && q.Left == nil && q.Term != nil && q.Term.Type == gojq.TermTypeUnary && q.Term.Unary != nil && len(q.Term.SuffixList) == 0 &&
		q.Term.Unary.Op == gojq.OpSub && q.Term.Unary.Term != nil && q.Term.Unary.Term.Type == gojq.TermTypeNumber && len(q.Term.Unary.Term.SuffixList) == 0 {
		return "-" + q.Term.Unary.Term.Number, true
	}
	return "", false
}

// c11TermChain: t is a pure path term (identity / .name / $var followed by index suffixes only).
func c11TermChain(t *gojq.Term) *c11Chain {
	if t == nil {
		return nil
	}
	ch := &c11Chain{}
	switch t.Type {
	case gojq.TermTypeIdentity:
		ch.Root = "."
	case gojq.TermTypeIndex:
		ch.Root = "."
		s, n, ok := c11IndexStep(t.Index)
		if !ok {
			return nil
		}
		ch.Steps = append(ch.Steps, s)
		if n != "" {
			ch.Names = append(ch.Names, n)
		}
	case gojq.TermTypeFunc:
		if t.Func == nil || !strings.HasPrefix(t.Func.Name, "$") || len(t.Func.Args) != 0 {
			return nil
		}
		ch.Root = t.Func.Name
	default:
		return nil
	}
	for _, s := range t.SuffixList {
		switch {
		case s.Index != nil:
			st, n, ok := c11IndexStep(s.Index)
			if !ok {
				return nil
			}
			ch.Steps = append(ch.Steps, st)
			if n != "" {
				ch.Names = append(ch.Names, n)
			}
		case s.Iter:
			ch.Steps = append(ch.Steps, "[]")
		default:
			return nil
		}
	}
	return ch
}

func c11QueryChain(q *gojq.Query) *c11Chain {
	q = c11Unparen(q)
	if !c11Plain(q) || q.Left != nil || q.Term == nil {
		return nil
	}
	return c11TermChain(q.Term)
}

// c11IsChain: q is exactly the chain root+path, e.g. ("$opts", ".catch_query").
func c11IsChain(q *gojq.Query, root, path string) bool {
	ch := c11QueryChain(q)
	return ch != nil && ch.Root == root && ch.Path() == path
}

// ---------------------------------------------------------------------------
// stages: a|b|c with binds opened up:  X as $v | rest  ->  bind(X,$v), stages(rest)

type c11Stage struct {
	Q        *gojq.Query     // nil for bind stages
	BindSrc  *gojq.Query     // source expression of a bind stage
	Patterns []*gojq.Pattern // its patterns
}

func (s c11Stage) isBind() bool { return s.Q == nil }

func c11Stages(q *gojq.Query) []c11Stage {
	q = c11Unparen(q)
	if q == nil {
		return nil
	}
	if !c11Plain(q) {
		return []c11Stage{{Q: q}}
	}
	if q.Op == gojq.OpPipe && q.Left != nil {
		return append(c11Stages(q.Left), c11Stages(q.Right)...)
	}
	if q.Left == nil && q.Term != nil && len(q.Term.SuffixList) > 0 {
		last := q.Term.SuffixList[len(q.Term.SuffixList)-1]
		if last.Bind != nil {
			src := *q.Term
			src.SuffixList = src.SuffixList[:len(src.SuffixList)-1]
			st := c11Stage{BindSrc: &gojq.Query{Term: &src}, Patterns: last.Bind.Patterns}
			return append([]c11Stage{st}, c11Stages(last.Bind.Body)...)
		}
	}
	return []c11Stage{{Q: q}}
}

func c11StageStr(s c11Stage) string {
	if s.isBind() {
		var ps []string
		for _, p := range s.Patterns {
			ps = append(ps, p.String())
		}
		return fw.JQStr(s.BindSrc) + " as " + strings.Join(ps, " ?// ")
	}
	return fw.JQStr(s.Q)
}

// ---------------------------------------------------------------------------
// abstract values for constructor evaluation

type c11Val struct {
	Kind string // obj arr seq str null true false num sym unk if set
	Obj  map[string]*c11Val
	Arr  []*c11Val // arr/seq items; if: cond,then,else; set: base,value
	S    string    // str/num value, sym name, set path
}

func c11Sym(s string) *c11Val { return &c11Val{Kind: "sym", S: s} }
func c11Unk() *c11Val         { return &c11Val{Kind: "unk"} }

func (v *c11Val) clone() *c11Val {
	if v == nil {
		return nil
	}
	o := &c11Val{Kind: v.Kind, S: v.S}
	if v.Obj != nil {
		o.Obj = map[string]*c11Val{}
		for k, x := range v.Obj {
			o.Obj[k] = x.clone()
		}
	}
	for _, x := range v.Arr {
		o.Arr = append(o.Arr, x.clone())
	}
	return o
}

// flat renders the value as sorted "path=leaf" facts.
func (v *c11Val) flat() string {
	var out []string
	var walk func(p string, x *c11Val)
	walk = func(p string, x *c11Val) {
		switch x.Kind {
		case "obj":
			if len(x.Obj) == 0 {
				out = append(out, p+"={}")
			}
			for _, k := range fw.SortedKeys(x.Obj) {
				np := k
				if p != "" {
					np = p + "." + k
				}
				walk(np, x.Obj[k])
			}
		case "arr":
			if len(x.Arr) == 0 {
				out = append(out, p+"=[]")
			}
			for i, e := range x.Arr {
				walk(fmt.Sprintf("%s[%d]", p, i), e)
			}
		default:
			out = append(out, p+"="+x.leaf())
		}
	}
	if v.Kind != "obj" && v.Kind != "arr" {
		return v.leaf()
	}
	walk("", v)
	sort.Strings(out)
	return strings.Join(out, " ")
}

func (v *c11Val) leaf() string {
	switch v.Kind {
	case "str":
		return fmt.Sprintf("%q", v.S)
	case "num":
		return v.S
	case "null", "true", "false":
		return v.Kind
	case "sym":
		return "<" + v.S + ">"
	case "if":
		return "if(" + v.Arr[0].flat() + "){" + v.Arr[1].flat() + "}{" + v.Arr[2].flat() + "}"
	case "set":
		return "set(" + v.Arr[0].flat() + ";" + v.S + "=" + v.Arr[1].flat() + ")"
	case "seq":
		var xs []string
		for _, e := range v.Arr {
			xs = append(xs, e.flat())
		}
		return "seq(" + strings.Join(xs, ",") + ")"
	case "obj", "arr":
		return "{" + v.flat() + "}"
	}
	return "<?>"
}

type c11Env struct {
	c     *c11Ctx
	file  string
	input *c11Val
	vars  map[string]*c11Val // "$x" and closure parameter names
	depth int
}

func (e *c11Env) with(input *c11Val) *c11Env {
	return &c11Env{c: e.c, file: e.file, input: input, vars: e.vars, depth: e.depth}
}

func (e *c11Env) bind(name string, v *c11Val) *c11Env {
	nv := map[string]*c11Val{}
	for k, x := range e.vars {
		nv[k] = x
	}
	nv[name] = v
	return &c11Env{c: e.c, file: e.file, input: e.input, vars: nv, depth: e.depth}
}

// evalDef evaluates def d applied to input `.` with positional symbolic arguments <arg0>, <arg1>...
func (c *c11Ctx) evalDef(d *fw.JQDef) *c11Val {
	env := &c11Env{c: c, file: d.File.Rel, input: c11Sym("."), vars: map[string]*c11Val{}}
	for i, a := range d.Def.Args {
		s := c11Sym(fmt.Sprintf("arg%d", i))
		env.vars[a] = s
		if strings.HasPrefix(a, "$") {
			env.vars[a[1:]] = s
		}
	}
	return env.query(d.Def.Body)
}

func (e *c11Env) query(q *gojq.Query) *c11Val {
	if q == nil {
		return c11Unk()
	}
	if len(q.FuncDefs) > 0 {
		return c11Unk()
	}
	if q.Term != nil && q.Left == nil {
		return e.term(q.Term)
	}
	if q.Left == nil || q.Right == nil {
		return c11Unk()
	}
	switch q.Op {
	case gojq.OpPipe:
		l := e.query(q.Left)
		if l.Kind == "seq" {
			return c11Unk()
		}
		return e.with(l).query(q.Right)
	case gojq.OpComma:
		l, r := e.query(q.Left), e.query(q.Right)
		out := &c11Val{Kind: "seq"}
		for _, x := range []*c11Val{l, r} {
			if x.Kind == "seq" {
				out.Arr = append(out.Arr, x.Arr...)
			} else {
				out.Arr = append(out.Arr, x)
			}
		}
		return out
	case gojq.OpAssign:
		ch := c11QueryChain(q.Left)
		if ch == nil || ch.Root != "." {
			return c11Unk()
		}
		return c11SetPath(e.input, ch.Steps, e.query(q.Right))
	}
	return c11Unk()
}

func c11SetPath(base *c11Val, steps []string, val *c11Val) *c11Val {
	if len(steps) == 0 {
		return val
	}
	if base.Kind == "obj" && strings.HasPrefix(steps[0], ".") {
		out := base.clone()
		k := steps[0][1:]
		cur, ok := out.Obj[k]
		if !ok {
			cur = &c11Val{Kind: "obj", Obj: map[string]*c11Val{}}
			if len(steps) > 1 && !strings.HasPrefix(steps[1], ".") {
				return c11Unk()
			}
		}
		out.Obj[k] = c11SetPath(cur, steps[1:], val)
		return out
	}
	if base.Kind == "sym" || base.Kind == "unk" {
		return &c11Val{Kind: "set", S: strings.Join(steps, ""), Arr: []*c11Val{base, val}}
	}
	return c11Unk()
}

func c11GetPath(base *c11Val, steps []string) *c11Val {
	for i, s := range steps {
		switch {
		case base.Kind == "obj" && strings.HasPrefix(s, "."):
			n, ok := base.Obj[s[1:]]
			if !ok {
				return &c11Val{Kind: "null"}
			}
			base = n
		case base.Kind == "sym":
			return c11Sym(base.S + strings.Join(steps[i:], ""))
		default:
			return c11Unk()
		}
	}
	return base
}

func (e *c11Env) term(t *gojq.Term) *c11Val {
	// bind suffix: X as $v | body
	if n := len(t.SuffixList); n > 0 && t.SuffixList[n-1].Bind != nil {
		b := t.SuffixList[n-1].Bind
		src := *t
		src.SuffixList = src.SuffixList[:n-1]
		if len(b.Patterns) != 1 || b.Patterns[0].Name == "" {
			return c11Unk()
		}
		v := e.term(&src)
		return e.bind(b.Patterns[0].Name, v).query(b.Body)
	}
	if ch := c11TermChain(t); ch != nil {
		var base *c11Val
		if ch.Root == "." {
			base = e.input
		} else if v, ok := e.vars[ch.Root]; ok {
			base = v
		} else {
			return c11Unk()
		}
		return c11GetPath(base, ch.Steps)
	}
	if len(t.SuffixList) > 0 {
		return c11Unk()
	}
	switch t.Type {
	case gojq.TermTypeNull:
		return &c11Val{Kind: "null"}
	case gojq.TermTypeTrue:
		return &c11Val{Kind: "true"}
	case gojq.TermTypeFalse:
		return &c11Val{Kind: "false"}
	case gojq.TermTypeNumber:
		return &c11Val{Kind: "num", S: t.Number}
	case gojq.TermTypeString:
		if t.Str == nil || len(t.Str.Queries) > 0 {
			return c11Unk()
		}
		return &c11Val{Kind: "str", S: t.Str.Str}
	case gojq.TermTypeQuery:
		return e.query(t.Query)
	case gojq.TermTypeObject:
		out := &c11Val{Kind: "obj", Obj: map[string]*c11Val{}}
		if t.Object == nil {
			return out
		}
		for _, kv := range t.Object.KeyVals {
			key := kv.Key
			if kv.KeyString != nil {
				if len(kv.KeyString.Queries) > 0 {
					return c11Unk()
				}
				key = kv.KeyString.Str
			}
			if kv.KeyQuery != nil || key == "" {
				return c11Unk()
			}
			var v *c11Val
			switch {
			case kv.Val != nil:
				v = e.query(kv.Val)
			case strings.HasPrefix(key, "$"):
				x, ok := e.vars[key]
				if !ok {
					return c11Unk()
				}
				v, key = x, key[1:]
			default:
				v = c11GetPath(e.input, []string{"." + key})
			}
			if v.Kind == "seq" {
				return c11Unk()
			}
			if _, dup := out.Obj[key]; dup {
				return c11Unk()
			}
			out.Obj[key] = v
		}
		return out
	case gojq.TermTypeArray:
		out := &c11Val{Kind: "arr"}
		if t.Array == nil || t.Array.Query == nil {
			return out
		}
		v := e.query(t.Array.Query)
		if v.Kind == "seq" {
			out.Arr = v.Arr
		} else if v.Kind == "unk" {
			return c11Unk()
		} else {
			out.Arr = []*c11Val{v}
		}
		return out
	case gojq.TermTypeIf:
		if t.If == nil || len(t.If.Elif) > 0 {
			return c11Unk()
		}
		cond := e.query(t.If.Cond)
		th := e.query(t.If.Then)
		el := e.input
		if t.If.Else != nil {
			el = e.query(t.If.Else)
		}
		return &c11Val{Kind: "if", Arr: []*c11Val{cond, th, el}}
	case gojq.TermTypeFunc:
		f := t.Func
		if len(f.Args) == 0 {
			if v, ok := e.vars[f.Name]; ok {
				return v
			}
		}
		if strings.HasPrefix(f.Name, "$") || e.depth > 6 {
			return c11Unk()
		}
		var target *fw.JQDef
		n := 0
		for _, d := range e.c.jq.Defs {
			if d.Parent == nil && d.File.Rel == c11QueryJQ && d.Def.Name == f.Name && len(d.Def.Args) == len(f.Args) {
				target = d
				n++
			}
		}
		if n != 1 || !strings.HasPrefix(f.Name, "_query_") {
			return c11Unk()
		}
		ne := &c11Env{c: e.c, file: target.File.Rel, input: e.input, vars: map[string]*c11Val{}, depth: e.depth + 1}
		for i, a := range target.Def.Args {
			v := e.query(f.Args[i])
			ne.vars[a] = v
			if strings.HasPrefix(a, "$") {
				ne.vars[a[1:]] = v
			}
		}
		return ne.query(target.Def.Body)
	}
	return c11Unk()
}

// validate checks an abstract value against the Go schema type typ ("Query", "Term", ...).
func (c *c11Ctx) validate(v *c11Val, f c11Field, path string, probs *[]string) {
	add := func(s string) { *probs = append(*probs, path+": "+s) }
	switch v.Kind {
	case "sym", "unk", "null":
		return
	case "if":
		c.validate(v.Arr[1], f, path, probs)
		c.validate(v.Arr[2], f, path, probs)
		return
	case "set":
		c.validate(v.Arr[0], f, path, probs)
		// walk the path through the schema
		cur := f
		ok := true
		for _, st := range c11SplitSteps(v.S) {
			if strings.HasPrefix(st, ".") {
				if cur.Kind != "struct" || cur.Slice {
					add("path " + v.S + " indexes a non-object by name at " + st)
					ok = false
					break
				}
				nf, has := c.sc.field(cur.Elem, st[1:])
				if !has {
					add("path " + v.S + ": " + st[1:] + " is not a JSON field of gojq." + cur.Elem)
					ok = false
					break
				}
				cur = nf
			} else {
				if !cur.Slice {
					add("path " + v.S + " indexes a non-array at " + st)
					ok = false
					break
				}
				cur.Slice = false
			}
		}
		if ok {
			c.validate(v.Arr[1], cur, path+v.S, probs)
		}
		return
	}
	if f.Slice {
		if v.Kind != "arr" {
			add("array field gets a " + v.Kind)
			return
		}
		ef := f
		ef.Slice = false
		for i, x := range v.Arr {
			c.validate(x, ef, fmt.Sprintf("%s[%d]", path, i), probs)
		}
		return
	}
	switch f.Kind {
	case "string":
		if v.Kind != "str" {
			add("string field gets a " + v.Kind)
		}
	case "bool":
		if v.Kind != "true" && v.Kind != "false" {
			add("bool field gets a " + v.Kind)
		}
	case "enum":
		if v.Kind != "str" {
			add(f.Elem + " field gets a " + v.Kind)
			return
		}
		if f.Elem == "TermType" {
			if _, ok := c.sc.TermTypes[v.S]; !ok {
				add(fmt.Sprintf("%q is not a TermType the decoder accepts", v.S))
			}
		} else if f.Elem == "Operator" {
			if _, ok := c.sc.Operators[v.S]; !ok {
				add(fmt.Sprintf("%q is not an operator the decoder accepts", v.S))
			}
		}
	case "struct":
		if v.Kind != "obj" {
			add("gojq." + f.Elem + " field gets a " + v.Kind)
			return
		}
		for _, k := range fw.SortedKeys(v.Obj) {
			nf, ok := c.sc.field(f.Elem, k)
			if !ok {
				add(k + " is not a JSON field of gojq." + f.Elem + " (silently ignored by the decoder)")
				continue
			}
			np := k
			if path != "" {
				np = path + "." + k
			}
			c.validate(v.Obj[k], nf, np, probs)
		}
		if f.Elem == "Term" {
			tv, ok := v.Obj["type"]
			if !ok {
				add("term without type prints as nothing")
				return
			}
			if tv.Kind != "str" {
				return
			}
			arms, ok := c.sc.TermField[tv.S]
			if !ok {
				return
			}
			allowed := map[string]bool{"type": true, "suffix_list": true}
			for _, a := range arms {
				allowed[a] = true
			}
			for _, k := range fw.SortedKeys(v.Obj) {
				if !allowed[k] {
					add("term of type " + tv.S + " carries field " + k + " which its printer arm never reads")
				}
			}
			if len(arms) > 0 {
				if _, ok := v.Obj[arms[0]]; !ok {
					add("term of type " + tv.S + " lacks field " + arms[0] + " which its printer arm dereferences")
				}
			}
		}
		if f.Elem == "Query" {
			_, hasOp := v.Obj["op"]
			_, hasL := v.Obj["left"]
			_, hasR := v.Obj["right"]
			_, hasT := v.Obj["term"]
			if hasT && (hasOp || hasL || hasR) {
				add("query has both term and operator parts; the printer prints only the term")
			}
			if !hasT && (hasOp || hasL || hasR) && !(hasOp && hasL && hasR) {
				add("binary query needs op, left and right")
			}
		}
	}
}

func c11SplitSteps(p string) []string {
	var out []string
	cur := ""
	for _, r := range p {
		if r == '.' || r == '[' {
			if cur != "" {
				out = append(out, cur)
			}
			cur = ""
		}
		cur += string(r)
	}
	if cur != "" {
		out = append(out, cur)
	}
	return out
}

// ---------------------------------------------------------------------------
// focus/sites evaluator: where (relative to the input query) and under which conditions a
// definition applies given callees.

type c11Site struct {
	Callee string // name/arity
	Focus  string // absolute path from the definition's input
	Mode   string // "" (at the input itself) | pipe | update | mixed | ?
	Guards []string
}

func (s c11Site) String() string {
	return fmt.Sprintf("%s@%s[%s]{%s}", s.Callee, s.Focus, s.Mode, strings.Join(s.Guards, " & "))
}

type c11SiteWalker struct {
	targets map[string]bool
	sites   []c11Site
}

func c11ModeAdd(mode, step string) string {
	switch {
	case mode == "" || mode == step:
		return step
	case mode == "?":
		return "?"
	}
	return "mixed"
}

func c11CondStr(q *gojq.Query, focus string) string {
	q = c11Unparen(q)
	if ch := c11QueryChain(q); ch != nil && ch.Root == "." {
		return focus + ch.Path()
	}
	if c11Plain(q) && q.Left != nil && q.Right != nil && (q.Op == gojq.OpEq || q.Op == gojq.OpNe) {
		l, r := q.Left, q.Right
		if _, ok := fw.JQConstString(c11Unparen(l)); ok {
			l, r = r, l
		}
		if ch := c11QueryChain(l); ch != nil && ch.Root == "." {
			if s, ok := fw.JQConstString(c11Unparen(r)); ok {
				return fmt.Sprintf("%s%s%s%q", focus, ch.Path(), q.Op.String(), s)
			}
		}
	}
	return "?(" + fw.JQStr(q) + ")"
}

func (w *c11SiteWalker) query(q *gojq.Query, focus, mode string, guards []string) {
	if q == nil {
		return
	}
	if q.Term != nil && q.Left == nil {
		w.term(q.Term, focus, mode, guards)
		return
	}
	if q.Left == nil || q.Right == nil {
		return
	}
	switch q.Op {
	case gojq.OpPipe:
		if ch := c11QueryChain(q.Left); ch != nil && ch.Root == "." {
			if len(ch.Steps) == 0 {
				w.query(q.Right, focus, mode, guards)
			} else {
				w.query(q.Right, focus+ch.Path(), c11ModeAdd(mode, "pipe"), guards)
			}
			return
		}
		w.query(q.Left, focus, mode, guards)
		w.query(q.Right, "?", "?", guards)
	case gojq.OpModify:
		if ch := c11QueryChain(q.Left); ch != nil && ch.Root == "." {
			w.query(q.Right, focus+ch.Path(), c11ModeAdd(mode, "update"), guards)
			return
		}
		w.query(q.Left, focus, mode, guards)
		w.query(q.Right, "?", "?", guards)
	case gojq.OpAssign, gojq.OpUpdateAdd, gojq.OpUpdateSub, gojq.OpUpdateMul, gojq.OpUpdateDiv, gojq.OpUpdateMod, gojq.OpUpdateAlt:
		w.query(q.Left, focus, mode, guards)
		w.query(q.Right, focus, c11ModeAdd(mode, "assign"), guards)
	default:
		w.query(q.Left, focus, c11ModeAdd(mode, "operand"), guards)
		w.query(q.Right, focus, c11ModeAdd(mode, "operand"), guards)
	}
}

func (w *c11SiteWalker) term(t *gojq.Term, focus, mode string, guards []string) {
	if n := len(t.SuffixList); n > 0 && t.SuffixList[n-1].Bind != nil {
		src := *t
		src.SuffixList = src.SuffixList[:n-1]
		w.term(&src, focus, c11ModeAdd(mode, "operand"), guards)
		w.query(t.SuffixList[n-1].Bind.Body, focus, mode, guards)
		return
	}
	if len(t.SuffixList) > 0 {
		// calls with suffixes etc: whatever is called inside is not at a known focus
		cp := *t
		cp.SuffixList = nil
		w.term(&cp, focus, c11ModeAdd(mode, "operand"), guards)
		return
	}
	switch t.Type {
	case gojq.TermTypeQuery:
		w.query(t.Query, focus, mode, guards)
	case gojq.TermTypeIf:
		var neg []string
		conds := []*gojq.Query{t.If.Cond}
		thens := []*gojq.Query{t.If.Then}
		for _, e := range t.If.Elif {
			conds = append(conds, e.Cond)
			thens = append(thens, e.Then)
		}
		for i := range conds {
			w.query(conds[i], focus, c11ModeAdd(mode, "cond"), append(append([]string{}, guards...), neg...))
			cs := c11CondStr(conds[i], focus)
			g := append(append(append([]string{}, guards...), neg...), "T("+cs+")")
			w.query(thens[i], focus, mode, g)
			neg = append(neg, "F("+cs+")")
		}
		if t.If.Else != nil {
			w.query(t.If.Else, focus, mode, append(append([]string{}, guards...), neg...))
		}
	case gojq.TermTypeFunc:
		key := fw.JQFuncKey(t.Func)
		if w.targets[key] {
			w.sites = append(w.sites, c11Site{Callee: key, Focus: focus, Mode: mode, Guards: append([]string{}, guards...)})
		}
		for _, a := range t.Func.Args {
			w.query(a, focus, c11ModeAdd(mode, "arg:"+t.Func.Name), guards)
		}
	case gojq.TermTypeTry:
		w.query(t.Try.Body, focus, c11ModeAdd(mode, "try"), guards)
		w.query(t.Try.Catch, "?", "?", guards)
	case gojq.TermTypeArray:
		if t.Array != nil {
			w.query(t.Array.Query, focus, c11ModeAdd(mode, "operand"), guards)
		}
	case gojq.TermTypeObject:
		if t.Object != nil {
			for _, kv := range t.Object.KeyVals {
				w.query(kv.Val, focus, c11ModeAdd(mode, "operand"), guards)
			}
		}
	case gojq.TermTypeReduce:
		w.query(t.Reduce.Query, focus, c11ModeAdd(mode, "operand"), guards)
		w.query(t.Reduce.Start, focus, c11ModeAdd(mode, "operand"), guards)
		w.query(t.Reduce.Update, "?", "?", guards)
	}
}

func c11SiteSet(sites []c11Site) []string {
	var out []string
	for _, s := range sites {
		out = append(out, s.String())
	}
	sort.Strings(out)
	return out
}
