package rules

import (
	"fmt"
	"go/token"
	"go/types"
	"strings"

	"golang.org/x/tools/go/ssa"

	"fqverif/fw"
)

// ---------------------------------------------------------------------------
// C18.ambient: decoding and evaluation consult no ambient process state
//
// "A pure function of the input bytes, the format and the options" excludes every other input: the wall
// clock, random sources, the environment, process identity, the host's time-zone database, the scheduler.
// Rule: outside the command-line front end (pkg/cli, which implements the interp.OS abstraction, and the
// test/profiling helpers) no fq function calls one of these sources or reads time.Local / os.Args; and the
// decoder side (format/**, pkg/decode, pkg/scalar, pkg/bitio, pkg/ranges) additionally starts no goroutine,
// uses no channel operation and does not call into os, os/exec, net or syscall at all.

// packages that are the process front end or tooling, not decode/eval machinery
var c18AmbientFrontEnd = map[string]string{
	"":                  "main package",
	"pkg/cli":           "command line front end: implements interp.OS (Environ, Args, files) for the interpreter",
	"pkg/fqtest":        "test driver",
	"internal/profile":  "profiling helper",
	"internal/script":   "test script runner",
	"internal/difftest": "test helper",
}

// (function|callee) pairs accepted outside the front end, each with the reason the result cannot depend on it
var c18AmbientExceptions = map[string]string{
	"(*pkg/interp.Interp)._decode|time.Now":   "progress throttling: decides only how often the progress callback is invoked while decoding, never what is decoded",
	"(*pkg/interp.Interp)._decode$2|time.Now": "progress throttling: decides only how often the progress callback is invoked while decoding, never what is decoded",
}

// c18FrontEnd: the function belongs to the process front end or to tooling (generators are package main).
func c18FrontEnd(fn *ssa.Function) bool {
	rel := pkgRel(fn)
	if _, fe := c18AmbientFrontEnd[rel]; fe || strings.HasPrefix(rel, "dev") || strings.HasPrefix(rel, "doc") {
		return true
	}
	return fn.Pkg != nil && fn.Pkg.Pkg.Name() == "main"
}

// c18AmbientCallee classifies a callee of the watched standard packages: "" = does not consult ambient state.
func c18AmbientCallee(fn *ssa.Function) string {
	if fn == nil || fn.Pkg == nil {
		return ""
	}
	pkg := fn.Pkg.Pkg.Path()
	name := fn.Name()
	recv := fn.Signature.Recv()
	switch pkg {
	case "time":
		if recv == nil {
			switch name {
			case "Now", "Since", "Until":
				return "reads the wall clock"
			case "Sleep", "After", "Tick", "NewTimer", "NewTicker", "AfterFunc":
				return "depends on real time / the scheduler"
			case "LoadLocation":
				return "reads the host's time-zone database (and the ZONEINFO environment variable)"
			}
			return ""
		}
		if name == "Local" {
			return "converts to the process-local time zone (TZ environment)"
		}
	case "math/rand", "math/rand/v2":
		if recv == nil {
			switch name {
			case "New", "NewSource", "NewZipf", "NewPCG", "NewChaCha8":
				return ""
			}
			return "draws from the process-wide random source"
		}
	case "crypto/rand":
		return "draws random bytes"
	case "os":
		if recv == nil {
			switch name {
			case "Getenv", "LookupEnv", "Environ", "ExpandEnv", "Expand":
				return "reads the process environment"
			case "Getpid", "Getppid", "Getuid", "Geteuid", "Getgid", "Getegid", "Getgroups", "Hostname", "Getwd", "UserHomeDir", "UserCacheDir", "UserConfigDir", "TempDir", "Executable", "Getpagesize":
				return "reads process / host identity"
			}
		}
	case "os/user":
		return "reads host identity"
	case "net":
		if recv == nil {
			for _, pre := range []string{"Dial", "Listen", "Lookup", "Resolve", "Interface", "FileConn", "FileListener", "FilePacketConn"} {
				if strings.HasPrefix(name, pre) {
					return "talks to the network / resolver / host interfaces"
				}
			}
		}
	case "runtime":
		switch name {
		case "NumGoroutine", "NumCPU", "GOMAXPROCS", "ReadMemStats", "NumCgoCall", "GC":
			return "reads scheduler / runtime state"
		}
	}
	return ""
}

func c18Ambient(r *fw.Run, p *fw.Program) {
	ru := r.Rule("C18.ambient", "outside the command-line front end no fq function reads ambient process state (wall clock, timers, random sources, environment, pid/host identity, host time-zone database, time.Local, os.Args, scheduler state); decoder packages (format/**, pkg/decode, pkg/scalar, pkg/bitio, pkg/ranges) in addition start no goroutine, use no channel and never call into os, os/exec or syscall, nor dial/resolve through net: a decode result is a function of input, format and options only", 55)
	watched := map[string]bool{"time": true, "math/rand": true, "math/rand/v2": true, "crypto/rand": true, "os": true, "os/user": true, "runtime": true, "os/exec": true, "net": true, "syscall": true}
	decoderSide := func(rel string) bool {
		return strings.HasPrefix(rel, "format/") || rel == "format" || rel == "pkg/decode" || rel == "pkg/scalar" || rel == "pkg/bitio" || rel == "pkg/ranges"
	}
	nFns := 0
	for _, fn := range p.FqFunctions() {
		if fn.TypeParams().Len() > 0 && len(fn.TypeArgs()) == 0 {
			continue
		}
		rel := pkgRel(fn)
		if c18FrontEnd(fn) {
			continue
		}
		nFns++
		dec := decoderSide(rel)
		ord := map[string]int{}
		key := func(what string) string {
			k := fw.ShortFn(fn) + "|" + what
			ord[k]++
			if ord[k] == 1 {
				return k
			}
			return fmt.Sprintf("%s#%d", k, ord[k])
		}
		fw.EachInstr(fn, func(ins ssa.Instruction) {
			switch x := ins.(type) {
			case *ssa.Go:
				if dec {
					ru.Fail(key("go"), p.Rel(x.Pos()), "decoder code starts a goroutine: the decode tree and the shared read buffer of a decode are not synchronised, and the result would depend on scheduling")
				}
				return
			case *ssa.Select:
				if dec {
					ru.Fail(key("select"), p.Rel(x.Pos()), "decoder code selects on channels: result depends on scheduling")
				}
				return
			case *ssa.Send:
				if dec {
					ru.Fail(key("send"), p.Rel(x.Pos()), "decoder code sends on a channel: decoders are single-threaded, unsynchronised code")
				}
				return
			case *ssa.UnOp:
				switch {
				case x.Op == token.ARROW && dec:
					ru.Fail(key("recv"), p.Rel(x.Pos()), "decoder code receives from a channel: result depends on scheduling")
				case x.Op == token.MUL:
					if g, ok := x.X.(*ssa.Global); ok && g.Pkg != nil {
						switch g.Pkg.Pkg.Path() + "." + g.Name() {
						case "time.Local":
							ru.Fail(key("time.Local"), p.Rel(x.Pos()), "reads time.Local: the process-local time zone (TZ environment, host configuration) becomes an input of the result")
						case "os.Args":
							ru.Fail(key("os.Args"), p.Rel(x.Pos()), "reads os.Args outside the command-line front end")
						}
					}
				}
				return
			}
			c, ok := ins.(ssa.CallInstruction)
			if !ok {
				return
			}
			callee := c.Common().StaticCallee()
			if callee == nil || callee.Pkg == nil || !watched[callee.Pkg.Pkg.Path()] || callee.Name() == "init" {
				return
			}
			cname := callee.String()
			if callee.Signature.Recv() == nil {
				cname = callee.Pkg.Pkg.Path() + "." + callee.Name()
			}
			why := c18AmbientCallee(callee)
			cpkg := callee.Pkg.Pkg.Path()
			if why == "" && dec && (cpkg == "os" || cpkg == "os/exec" || cpkg == "syscall") {
				why = "is a call of decoder code into " + cpkg + ": files and processes are not part of the decode input"
			}
			k := key(cname)
			if why == "" {
				ru.Ok(k, p.Rel(c.Pos()), "pure use of "+cpkg)
				return
			}
			if reason, ok := c18AmbientExceptions[fw.ShortFn(fn)+"|"+cname]; ok {
				ru.Except(k, p.Rel(c.Pos()), reason)
				return
			}
			ru.Fail(k, p.Rel(c.Pos()), fw.ShortFn(fn)+" calls "+cname+", which "+why+": the result is no longer a function of input bytes, format and options (repeated or concurrent runs differ)")
		})
	}
	ru.Ok("scan", "", fmt.Sprintf("%d functions outside the front end scanned", nFns))
}

// ---------------------------------------------------------------------------
// C18.tz: calendar fields and text of a time are taken in UTC
//
// time.Unix and friends return a Time in the process-local zone; Format, String, Date, Clock, Year...,
// AddDate (which normalises in the receiver's zone) then depend on TZ / the host zone database. Rule: every
// zone-sensitive time.Time method called from fq code outside the front end has a receiver that is provably
// in UTC (result of UTC(), of time.Date(..., time.UTC), of In(time.UTC), of zone-preserving arithmetic on such
// a value, of time.Parse, the zero Time, or a package-level variable only ever assigned such values).

var c18ZoneSensitive = map[string]bool{
	"Format": true, "AppendFormat": true, "String": true, "GoString": true,
	"Date": true, "Clock": true, "Year": true, "Month": true, "Day": true, "Hour": true, "Minute": true, "Second": true,
	"Weekday": true, "YearDay": true, "ISOWeek": true, "Zone": true, "ZoneBounds": true, "IsDST": true, "Location": true,
	"AddDate":     true,
	"MarshalJSON": true, "MarshalText": true, "MarshalBinary": true, "GobEncode": true, "AppendText": true, "AppendBinary": true,
}

var c18ZonePreserving = map[string]bool{"Add": true, "AddDate": true, "Round": true, "Truncate": true}

func c18IsTimeUTC(v ssa.Value) bool {
	u, ok := v.(*ssa.UnOp)
	if !ok || u.Op != token.MUL {
		return false
	}
	g, ok := u.X.(*ssa.Global)
	return ok && g.Pkg != nil && g.Pkg.Pkg.Path() == "time" && g.Name() == "UTC"
}

// c18UTCLocated: the time.Time value is known to carry the UTC location.
func c18UTCLocated(p *fw.Program, v ssa.Value, seen map[ssa.Value]bool) bool {
	if v == nil || seen[v] || len(seen) > 60 {
		return false
	}
	seen[v] = true
	allStoresUTC := func(addr ssa.Value, refs *[]ssa.Instruction) bool {
		if refs == nil {
			return false
		}
		n := 0
		for _, rf := range *refs {
			st, ok := rf.(*ssa.Store)
			if !ok || st.Addr != addr {
				continue
			}
			n++
			if !c18UTCLocated(p, st.Val, seen) {
				return false
			}
		}
		return n > 0
	}
	switch x := v.(type) {
	case *ssa.Const:
		return true // the zero Time is in UTC
	case *ssa.Phi:
		for _, e := range x.Edges {
			if !c18UTCLocated(p, e, seen) {
				return false
			}
		}
		return len(x.Edges) > 0
	case *ssa.UnOp:
		if x.Op != token.MUL {
			return false
		}
		switch a := x.X.(type) {
		case *ssa.Alloc:
			return allStoresUTC(a, a.Referrers())
		case *ssa.FreeVar:
			if b, ok := c18Binding(a).(*ssa.Alloc); ok {
				return allStoresUTC(b, b.Referrers())
			}
			return false
		case *ssa.Global:
			if isFqGlobal(a) == nil {
				return false
			}
			// every store to the variable anywhere in the module
			n := 0
			for _, fn := range p.FqFunctions() {
				if fn.Pkg != a.Pkg {
					continue
				}
				bad := false
				fw.EachInstr(fn, func(ins ssa.Instruction) {
					if st, ok := ins.(*ssa.Store); ok && st.Addr == ssa.Value(a) {
						n++
						if !c18UTCLocated(p, st.Val, seen) {
							bad = true
						}
					}
				})
				if bad {
					return false
				}
			}
			return n > 0
		}
		return false
	case *ssa.FreeVar:
		// captured variable: the cell bound where the closure is made
		if b := c18Binding(x); b != nil {
			return c18UTCLocated(p, b, seen)
		}
		return false
	case *ssa.Parameter:
		// every call site in the module passes a UTC time (and the function is never used as a value)
		fn := x.Parent()
		idx := -1
		for i, pa := range fn.Params {
			if pa == x {
				idx = i
			}
		}
		sites, ok := c18CallSites(p)[fn]
		if idx < 0 || !ok || len(sites) == 0 {
			return false
		}
		for _, cs := range sites {
			if cs == nil || idx >= len(cs.Common().Args) || !c18UTCLocated(p, cs.Common().Args[idx], seen) {
				return false
			}
		}
		return true
	case *ssa.Call:
		callee := x.Common().StaticCallee()
		if callee == nil || callee.Pkg == nil || callee.Pkg.Pkg.Path() != "time" {
			return false
		}
		args := x.Common().Args
		if callee.Signature.Recv() == nil {
			switch callee.Name() {
			case "Date":
				return len(args) == 8 && c18IsTimeUTC(args[7])
			}
			return false
		}
		switch {
		case callee.Name() == "UTC":
			return true
		case callee.Name() == "In":
			return len(args) == 2 && c18IsTimeUTC(args[1])
		case c18ZonePreserving[callee.Name()]:
			return len(args) > 0 && c18UTCLocated(p, args[0], seen)
		}
		return false
	case *ssa.Extract:
		if c, ok := x.Tuple.(*ssa.Call); ok && x.Index == 0 {
			if callee := c.Common().StaticCallee(); callee != nil && callee.Pkg != nil && callee.Pkg.Pkg.Path() == "time" {
				switch callee.Name() {
				case "Parse":
					return true // UTC, or the fixed offset written in the input
				case "ParseInLocation":
					return len(c.Common().Args) == 3 && c18IsTimeUTC(c.Common().Args[2])
				}
			}
		}
		return false
	}
	return false
}

func c18TZ(r *fw.Run, p *fw.Program) {
	ru := r.Rule("C18.tz", "every zone-sensitive time.Time method (Format, String, Date, Clock, Year..Second, Weekday, AddDate, Marshal*, ...) called outside the command-line front end has a receiver provably in UTC (UTC(), time.Date(..., time.UTC), In(time.UTC), zone-preserving arithmetic on such, time.Parse, zero Time, or a package-level variable only assigned such values): the text and calendar fields a decoder derives from a timestamp do not depend on the TZ environment / host zone database", 12)
	for _, fn := range p.FqFunctions() {
		if fn.TypeParams().Len() > 0 && len(fn.TypeArgs()) == 0 {
			continue
		}
		if c18FrontEnd(fn) {
			continue
		}
		ord := map[string]int{}
		for _, c := range fw.CallsIn(fn) {
			callee := c.Common().StaticCallee()
			if callee == nil || callee.Pkg == nil || callee.Pkg.Pkg.Path() != "time" || callee.Signature.Recv() == nil || !c18ZoneSensitive[callee.Name()] {
				continue
			}
			rt := callee.Signature.Recv().Type()
			if pt, ok := rt.(*types.Pointer); ok {
				rt = pt.Elem()
			}
			if n, ok := rt.(*types.Named); !ok || n.Obj().Name() != "Time" {
				continue
			}
			if len(c.Common().Args) == 0 {
				continue
			}
			k := fw.ShortFn(fn) + "|Time." + callee.Name()
			ord[k]++
			if ord[k] > 1 {
				k = fmt.Sprintf("%s#%d", k, ord[k])
			}
			if c18UTCLocated(p, c.Common().Args[0], map[ssa.Value]bool{}) {
				ru.Ok(k, p.Rel(c.Pos()), "receiver is in UTC")
			} else {
				ru.Fail(k, p.Rel(c.Pos()), "Time."+callee.Name()+" is called on a time that is not provably in UTC (time.Unix & co. return process-local times): the result depends on the TZ environment / host time-zone database, not only on the input")
			}
		}
	}
}

var c18SitesCache map[*ssa.Function][]ssa.CallInstruction
var c18SitesFor *fw.Program

// c18CallSites: static call sites of every fq function; a function whose value is used other than as the
// callee of a call has a nil site appended (unknown callers).
func c18CallSites(p *fw.Program) map[*ssa.Function][]ssa.CallInstruction {
	if c18SitesFor == p {
		return c18SitesCache
	}
	c18SitesFor = p
	m := map[*ssa.Function][]ssa.CallInstruction{}
	for _, fn := range p.FqFunctions() {
		fw.EachInstr(fn, func(ins ssa.Instruction) {
			ci, isCall := ins.(ssa.CallInstruction)
			if isCall {
				if cal := ci.Common().StaticCallee(); cal != nil {
					m[cal] = append(m[cal], ci)
					if o := cal.Origin(); o != nil {
						m[o] = append(m[o], ci)
					}
				}
			}
			for _, op := range ins.Operands(nil) {
				if op == nil || *op == nil {
					continue
				}
				if f, ok := (*op).(*ssa.Function); ok {
					if isCall && ci.Common().Value == *op {
						continue
					}
					if _, isMC := ins.(*ssa.MakeClosure); isMC {
						continue
					}
					m[f] = append(m[f], nil)
				}
			}
		})
	}
	c18SitesCache = m
	return m
}
