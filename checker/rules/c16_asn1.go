package rules

import (
	"fmt"
	"go/token"

	"golang.org/x/tools/go/ssa"

	"fqverif/fw"
)

// X.690 8.1.2 universal tag numbers used by JSON-like values and their content encoding.
var c16BerTags = []struct {
	tag   int64
	name  string
	shape string // bool | int | raw | null | utf8 | constructed
	class string
}{
	{0x01, "boolean", "bool", "scalar"},
	{0x02, "integer", "int", "scalar"},
	{0x03, "bit_string", "bits", "bytes"},
	{0x04, "octet_string", "raw", "bytes"},
	{0x05, "null", "null", "scalar"},
	{0x09, "real", "real", "scalar"},
	{0x0c, "utf8_string", "utf8", "scalar"},
	{0x10, "sequence", "constructed", "array"},
	{0x11, "set", "constructed", "array"},
	{0x13, "printable_string", "utf8", "scalar"},
	{0x16, "ia5_string", "utf8", "scalar"},
}

func (x *c16) asn1() *c16Format {
	f := &c16Format{Name: "asn1_ber", Pkg: "format/asn1", Syms: map[string]map[string]bool{"class": {}, "tag": {}}}
	rl := x.r.Rule("C16.asn1.length", "asn1_ber: the length octets are one U8; bit 8 clear = short form (the low 7 bits), 0x80 = indefinite, otherwise the low 7 bits count the following length bytes; the value signalling `indefinite` is not a possible short-form length; content is limited to length*8 bits; the member loop of an indefinite-length value looks for the 00 00 end-of-contents octets and exactly those 16 bits are consumed after it", 8)
	rr := x.r.Rule("C16.asn1.row", "asn1_ber: identifier octet is U2 class + U1 form + tag; universal tags boolean/integer/bit string/octet string/null/real/utf8/printable/ia5/sequence/set have their X.690 numbers, a Sym, and an arm reading the content as X.690 says (length bytes; boolean 0 -> false, else true; integers above 8 octets through the big-integer reader; bit string = unused-bit count + 8*(length-1)-unused bits); the tag number is U5 or, for 31, base-128 digits; a binary REAL is sign, base, scaling factor, exponent format with 1/2/3 or an explicit count of exponent octets", 17)

	root := x.decodeRootOf(f.Pkg)
	if root == nil {
		rr.Undecided("anchor", "", "format/asn1 has no resolvable DecodeFn root")
		return f
	}
	f.PkgFields = x.pkgFields(f.Pkg)
	var valFn *ssa.Function
	for _, c := range fw.CallsIn(root) {
		if cal := c.Common().StaticCallee(); cal != nil && pkgRel(cal) == f.Pkg {
			valFn = cal
		}
	}
	if valFn == nil {
		rr.Undecided("anchor:value", x.p.Rel(root.Pos()), "value decoder not found")
		return f
	}
	vpos := x.p.Rel(valFn.Pos())
	e := newC16Eval()
	ops := x.opsOfFn(valFn, e)
	rd := c16Reads(ops)
	isU := func(o c16Op, w int64) bool { c, ok := o.Bits.isConst(); return o.Kind == "U" && ok && c == w }
	if len(rd) < 2 {
		rr.Undecided("identifier", vpos, "class/form reads not found")
		return f
	}
	class, form := rd[0], rd[1]
	rr.Check(isU(class, 2) && class.Field == "class", "identifier:class", vpos, "U2 class", fmt.Sprintf("class read as %s%s named %q", class.Kind, class.Bits, class.Field))
	rr.Check(isU(form, 1), "identifier:form", vpos, "U1 constructed bit", fmt.Sprintf("form read as %s%s", form.Kind, form.Bits))
	// tag and length through scanning functions
	var tagOps []c16Op
	var lenOp *c16Op
	for _, o := range c16Find(ops, "Fn") {
		o := o
		switch o.Field {
		case "tag":
			tagOps = append(tagOps, o)
		case "length":
			lenOp = &o
		}
	}
	if len(tagOps) == 0 || lenOp == nil {
		rr.Undecided("identifier:tag", vpos, "tag/length scanning reads not found")
		return f
	}
	// Syms
	if g := c16MapperGlobal(class.Call); g != nil {
		rows, _ := x.globalMapRows(g)
		for _, row := range rows {
			if s, ok := c16Sym(row); ok {
				f.Syms["class"][s] = true
				if k, ok := c16KeyInt(row.Key); ok && k == 0 {
					f.Syms["class:universal"] = map[string]bool{s: true}
				}
			}
		}
	}
	tagSym := map[int64]string{}
	var tagCell ssa.Value
	for _, o := range tagOps {
		if g := c16MapperGlobal(o.Call); g != nil {
			rows, _ := x.globalMapRows(g)
			for _, row := range rows {
				if s, ok := c16Sym(row); ok {
					if k, ok := c16KeyInt(row.Key); ok {
						tagSym[k] = s
						f.Syms["tag"][s] = true
					}
				}
			}
			// the universal mapping must be applied only when class == universal
			fl := c16Facts(valFn, nil)
			okU := len(fl.At(o.Call.Block())) > 0
			for _, fs := range fl.At(o.Call.Block()) {
				if !fs.holdsEq(class.Call, 0) {
					okU = false
				}
			}
			rr.Check(okU, "identifier:universal-map", x.p.Rel(o.Call.Pos()), "universal names only for class 0", "universal tag names are applied to a non-universal class")
		}
		for _, r := range *o.Call.Referrers() {
			if st, ok := r.(*ssa.Store); ok {
				tagCell = st.Addr
			}
		}
	}
	if len(f.Syms["class"]) == 0 || len(tagSym) == 0 || tagCell == nil {
		rr.Undecided("identifier:maps", vpos, "class / universal tag Sym maps not resolved")
		return f
	}
	x.asn1TagNumber(rr, tagOps, vpos)
	lenFn := c16FnArg(*lenOp, 1)
	sentinel, hasSentinel := x.asn1Length(rl, lenFn)

	// content limit: l = length*8 on the definite path
	e.bind[lenOp.Call] = linA("$length")
	lims := c16Find(ops, "Limited")
	if len(lims) != 1 {
		rl.Undecided("limit", vpos, "content LimitedFn not found")
		return f
	}
	fl := c16Facts(valFn, nil)
	limOK := false
	if ld, ok := lims[0].Args[0].(*ssa.UnOp); ok {
		for _, st := range c16CellStores(ld.X) {
			if e.lin(st.Val).eq(linA("$length").mulC(8)) {
				limOK = true
				if hasSentinel {
					for _, fs := range fl.At(st.Block()) {
						if fs.holdsEq(lenOp.Call, sentinel) {
							limOK = false
						}
					}
				}
			}
		}
	} else if e.lin(lims[0].Args[0]).eq(linA("$length").mulC(8)) {
		limOK = true
	}
	rl.Check(limOK, "limit", x.p.Rel(lims[0].Call.Pos()), "definite content is limited to 8*length bits", "definite-length content is not limited to exactly 8*length bits")
	if hasSentinel {
		cs := c16CaseConsts(valFn, lenOp.Call)
		_, ok := cs[fmt.Sprint(sentinel)]
		rl.Check(ok, "indefinite:agree", vpos, "caller tests the value the length decoder returns for 0x80", "the caller does not compare the length with the value the length decoder returns for the indefinite form")
	}

	// content arms
	body := c16FnArg(lims[0], 1)
	if body == nil {
		rr.Undecided("content", vpos, "content closure unresolvable")
		return f
	}
	tagOrig := tagCell
	var formOrig ssa.Value = form.Call
	stable := map[ssa.Value]bool{tagOrig: true, ssa.Value(class.Call): true, formOrig: true, ssa.Value(lenOp.Call): true}
	bopt := &c16FlowOpt{
		Stable: stable,
		Track: func(cond ssa.Value) bool {
			ef, ok := c16EqOf(cond, true)
			return ok && stable[c16Origin(ef.X)]
		},
	}
	bfl := c16FactsOpt(body, nil, bopt)
	if hasSentinel {
		x.asn1EndOfContents(rl, body, bopt, lenOp.Call, sentinel)
	} else {
		rl.Undecided("indefinite:end-marker", vpos, "the value signalling the indefinite form is not known")
	}
	if bfl.Overflow {
		rr.Undecided("content", x.p.Rel(body.Pos()), "too many paths in the content switch")
		return f
	}
	cases := c16CaseConsts(body, tagOrig)
	len8 := linA("$length").mulC(8)
	for _, t := range c16BerTags {
		key := "tag:" + t.name
		sym, ok := tagSym[t.tag]
		if !ok || sym != t.name {
			rr.Fail(key, vpos, fmt.Sprintf("universal tag %#02x is named %q in the tag map, X.690 says %s", t.tag, sym, t.name))
			continue
		}
		if _, ok := cases[fmt.Sprint(t.tag)]; !ok {
			rr.Fail(key, x.p.Rel(body.Pos()), "no arm for this universal tag: content is left as raw bytes")
			continue
		}
		be := newC16EvalFrom(e)
		msg := ""
		var prod map[string]bool
		pos := x.p.Rel(body.Pos())
		if t.shape == "constructed" {
			// the array of nested objects is reachable knowing tag == t.tag
			hit := false
			for _, o := range c16Find(x.opsOfFn(body, be), "Array") {
				for _, fs := range bfl.At(o.Call.Block()) {
					if fs.holdsEq(tagOrig, t.tag) {
						hit = true
						prod = map[string]bool{o.Field: true}
						cl := c16FnArg(o, 1)
						nested := false
						if cl != nil {
							for _, so := range c16Find(x.opsOfFn(cl, newC16Eval()), "Struct") {
								if c16CallsOnly(c16FnArg(so, 1), valFn) {
									nested = true
								}
							}
						}
						if !nested {
							msg = "members are not decoded through " + valFn.Name()
						}
					}
				}
			}
			if !hit {
				msg = "no member array reachable for this tag"
			}
		} else {
			set := map[string]bool{fmt.Sprint(t.tag): true}
			if t.shape == "utf8" {
				// X.690 8.23: the restricted character string types share one content encoding
				for _, st := range []int64{0x0c, 0x12, 0x13, 0x14, 0x15, 0x16, 0x17, 0x19, 0x1a, 0x1b, 0x1c, 0x1e} {
					set[fmt.Sprint(st)] = true
				}
			}
			var arm []*ssa.BasicBlock
			for _, b := range bfl.armBlocks(tagOrig, set) {
				uni, mine := true, false
				for _, fs := range bfl.At(b) {
					if !fs.holdsEq(class.Call, 0) {
						uni = false
					}
					if fs.holdsEq(tagOrig, t.tag) {
						mine = true
					}
				}
				if uni && mine {
					arm = append(arm, b)
				}
			}
			aops := x.opsIn(arm, be)
			prod = c16Fields(aops)
			ard := c16Reads(aops)
			if len(arm) > 0 && len(arm[0].Instrs) > 0 {
				pos = x.p.Rel(arm[0].Instrs[0].Pos())
			}
			if len(arm) == 0 {
				msg = "no arm specific to (universal, this tag)"
			}
			switch t.shape {
			case "bool":
				if len(ard) != 1 || !isU(ard[0], 8) || ard[0].Field != "value" {
					msg = "expected one U8 named value, found " + c16OpsStr(ard)
				} else {
					x.asn1BoolSym(rr, ard[0])
				}
			case "bits":
				// X.690 8.6.2: initial octet = number of unused bits, then the bits
				if len(ard) < 2 || !isU(ard[0], 8) {
					msg = "expected the unused-bit count octet then the bits, found " + c16OpsStr(ard)
					break
				}
				want := len8.add(linC(-8)).add(linA("$1").mulC(-1))
				nv := 0
				for _, o := range ard[1:] {
					switch {
					case o.Kind == "Raw" && o.Field == "value":
						nv++
						if !o.Bits.eq(want) {
							msg = fmt.Sprintf("the bits are read as %s, expected 8*(length-1) - unused = %s", o.Bits, want)
						}
					case o.Kind == "Raw" && o.Bits.eq(linA("$1")):
						// the unused bits
					default:
						msg = "unexpected read " + o.Kind + "(" + o.Bits.String() + ")"
					}
				}
				if nv != 1 && msg == "" {
					msg = "no raw read named value"
				}
			case "int":
				n := 0
				for _, o := range ard {
					if (o.Kind == "S" || o.Kind == "SBig") && o.Field == "value" && o.Bits.eq(len8) {
						n++
					} else {
						msg = fmt.Sprintf("integer content read as %s of %s bits, expected signed 8*length", o.Kind, o.Bits)
					}
				}
				if n == 0 {
					msg = "no signed read of 8*length bits named value"
				}
				x.asn1IntWidth(rr, ard, lenOp.Call, pos)
			case "raw":
				if len(ard) != 1 || ard[0].Kind != "Raw" || !ard[0].Bits.eq(len8) || ard[0].Field != "value" {
					msg = "expected 8*length raw bits named value, found " + c16OpsStr(ard)
				}
			case "utf8":
				if len(ard) != 1 || ard[0].Kind != "UTF8" || !ard[0].Bits.eq(len8) || ard[0].Field != "value" {
					msg = "expected length bytes of text named value, found " + c16OpsStr(ard)
				}
			case "real":
				if len(arm) > 0 {
					msg = x.asn1Real(body, arm, bopt)
				}
			case "null":
				vs := c16Find(aops, "ValAny")
				if len(ard) != 0 || len(vs) != 1 || vs[0].Field != "value" {
					msg = "expected a synthetic null value"
				}
			}
		}
		rr.Check(msg == "", key, pos, "agrees with X.690", fmt.Sprintf("universal %s (%#02x): %s", t.name, t.tag, msg))
		uni := ""
		for s := range f.Syms["class:universal"] {
			uni = s
		}
		f.Rows = append(f.Rows, c16GoRow{Key: key, Attrs: map[string]string{"class": uni, "tag": sym}, Class: t.class, Produced: prod, Pos: pos})
	}
	delete(f.Syms, "class:universal")
	return f
}

// asn1Length checks the length decoder; returns the constant it yields for the indefinite form.
func (x *c16) asn1Length(rl *fw.Rule, fn *ssa.Function) (int64, bool) {
	if fn == nil {
		rl.Undecided("anchor", "", "length decoder not resolvable")
		return 0, false
	}
	pos := x.p.Rel(fn.Pos())
	e := newC16Eval()
	ops := x.opsOfFn(fn, e)
	rd := c16Reads(ops)
	if len(rd) != 2 {
		rl.Undecided("length:reads", pos, fmt.Sprintf("expected the first length octet and the long-form read, found %d reads", len(rd)))
		return 0, false
	}
	first := rd[0]
	w, isC := first.Bits.isConst()
	rl.Check(first.Kind == "U" && isC && w == 8, "length:first", pos, "first octet U8", "first length octet is not an 8-bit read")
	// masks
	var low7 []ssa.Value
	var hiTest *ssa.BinOp
	fw.EachInstr(fn, func(ins ssa.Instruction) {
		bo, ok := ins.(*ssa.BinOp)
		if !ok || bo.Op != token.AND || bo.X != ssa.Value(first.Call) {
			return
		}
		if c, ok := c16ConstInt(bo.Y); ok {
			switch c {
			case 0x7f:
				low7 = append(low7, bo)
				e.bind[bo] = linA("$n")
			case 0x80:
				hiTest = bo
			}
		}
	})
	fl := c16Facts(fn, nil)
	longForm := func(fs *c16FS) (bool, bool) { // (known, isLong)
		for _, ef := range fs.eqFacts() {
			if ef.X == ssa.Value(hiTest) {
				if i, ok := c16KeyInt(ef.C); ok && i == 0 {
					return true, !ef.Eq
				}
			}
		}
		return false, false
	}
	if hiTest == nil || len(low7) == 0 {
		rl.Fail("length:forms", pos, "the first octet is not split into bit 8 (form) and the low 7 bits")
		return 0, false
	}
	// long-form read: 8*n bits, on the long path
	long := rd[1]
	okLong := long.Kind == "U" && e.lin(long.Call.Common().Args[1]).eq(linA("$n").mulC(8))
	for _, fs := range fl.At(long.Call.Block()) {
		if k, l := longForm(fs); !k || !l {
			okLong = false
		}
	}
	rl.Check(okLong, "length:long", x.p.Rel(long.Call.Pos()), "long form reads (low 7 bits)*8 bits", "long-form length is not an unsigned read of (first & 0x7f)*8 bits on the bit-8-set path")
	// returns
	okShort, nShort := true, 0
	var sentinel int64
	hasSentinel, multi := false, false
	for _, b := range fn.Blocks {
		ret, ok := b.Instrs[len(b.Instrs)-1].(*ssa.Return)
		if !ok {
			continue
		}
		if len(ret.Results) != 1 {
			multi = true
			continue
		}
		for _, fs := range fl.At(b) {
			k, l := longForm(fs)
			if !k {
				okShort = false
				continue
			}
			if !l {
				nShort++
				v := ret.Results[0]
				if !(e.lin(v).eq(linA("$n")) || v == ssa.Value(first.Call)) {
					okShort = false
				}
				continue
			}
			if c, ok := c16ConstInt(ret.Results[0]); ok {
				// constant on the long path: the indefinite marker; must be the n == 0 path
				zero := false
				for _, ef := range fs.eqFacts() {
					if i, ok := c16KeyInt(ef.C); ok && i == 0 && ef.Eq && e.lin(ef.X).eq(linA("$n")) {
						zero = true
					}
				}
				if zero {
					sentinel, hasSentinel = c, true
				}
			}
		}
	}
	rl.Check(okShort && nShort > 0, "length:short", pos, "short form returns the low 7 bits", "short-form length is not the low 7 bits of the first octet")
	switch {
	case multi:
		rl.Ok("length:indefinite", pos, "indefinite form signalled out of band")
	case !hasSentinel:
		rl.Fail("length:indefinite-form", pos, "the 0x80 (indefinite) form is not distinguished")
	default:
		rl.Check(sentinel < 0 || sentinel > 127, "length:indefinite", pos, "indefinite marker is not a short-form length",
			fmt.Sprintf("the length decoder returns %d for the indefinite form (0x80), which is also the definite short-form length %d: zero-length primitives are rejected as \"primitive with indefinite length\" and empty SEQUENCE/SET swallow their siblings and read an end marker that is not there", sentinel, sentinel))
	}
	return sentinel, hasSentinel
}
