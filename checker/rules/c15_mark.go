package rules

import (
	"fmt"
	"go/token"
	"go/types"
	"sort"
	"strings"

	"golang.org/x/tools/go/ssa"

	"fqverif/fw"
)

// ---------------------------------------------------------------------------
// C15.mark: the require/assert/validate helpers set "valid" exactly on the matching path and
// "invalid" on the fall-through, and the decode.D wrappers bind (desc, fail) by their role.

// c15Checker is one helper of pkg/decode that compares an actual value with candidates.
type c15Checker struct {
	fn      *ssa.Function
	s       *ssa.Parameter // the scalar
	desc    *ssa.Parameter // nil: description always set
	fail    *ssa.Parameter
	isRange bool
	cands   []*ssa.Parameter // variadic candidates, or start,end
}

// c15FindCheckers resolves the helpers by signature: (… scalar.X s, [desc bool,] fail bool, candidates…) (scalar.X, error)
// in pkg/decode that store the string constants "valid"/"invalid".
func c15FindCheckers(p *fw.Program) []*c15Checker {
	var out []*c15Checker
	for _, fn := range p.FqFunctions() {
		if fn.Parent() != nil || fw.FnPkgPath(fn) != c15DecodePkg || fn.Signature.Recv() != nil {
			continue
		}
		res := fn.Signature.Results()
		if res.Len() != 2 || !isScalarNamed(res.At(0).Type()) || res.At(1).Type().String() != "error" {
			continue
		}
		storesValid := false
		fw.EachInstr(fn, func(ins ssa.Instruction) {
			if st, ok := ins.(*ssa.Store); ok {
				if s, ok := constString(st.Val); ok && (s == "valid" || s == "invalid") {
					storesValid = true
				}
			}
		})
		if !storesValid {
			continue
		}
		c := &c15Checker{fn: fn}
		var bools []*ssa.Parameter
		for _, prm := range fn.Params {
			switch {
			case c.s == nil && types.Identical(prm.Type(), res.At(0).Type()):
				c.s = prm
			case isBoolT(prm.Type()):
				bools = append(bools, prm)
			case c.s != nil && len(bools) > 0:
				if n, ok := prm.Type().(*types.Named); ok && n.Obj().Name() == "Endian" {
					continue
				}
				c.cands = append(c.cands, prm)
			}
		}
		switch len(bools) {
		case 2:
			c.desc, c.fail = bools[0], bools[1]
		case 1:
			c.fail = bools[0]
		default:
			continue
		}
		if c.s == nil || len(c.cands) == 0 {
			continue
		}
		c.isRange = len(c.cands) == 2
		out = append(out, c)
	}
	sort.Slice(out, func(i, j int) bool { return out[i].fn.Name() < out[j].fn.Name() })
	return out
}

func isScalarNamed(t types.Type) bool {
	n, ok := t.(*types.Named)
	return ok && n.Obj().Pkg() != nil && n.Obj().Pkg().Path() == fw.Mod+"/pkg/scalar"
}

func isBoolT(t types.Type) bool {
	b, ok := t.Underlying().(*types.Basic)
	return ok && b.Kind() == types.Bool
}

// derivesFrom: v is computed from parameter prm (through loads, indexing, conversions, calls).
func derivesFrom(v ssa.Value, prm *ssa.Parameter, depth int) bool {
	if depth > 10 || v == nil {
		return false
	}
	if v == ssa.Value(prm) {
		return true
	}
	switch x := v.(type) {
	case *ssa.UnOp:
		return derivesFrom(x.X, prm, depth+1)
	case *ssa.IndexAddr:
		return derivesFrom(x.X, prm, depth+1)
	case *ssa.Index:
		return derivesFrom(x.X, prm, depth+1)
	case *ssa.Convert:
		return derivesFrom(x.X, prm, depth+1)
	case *ssa.ChangeType:
		return derivesFrom(x.X, prm, depth+1)
	case *ssa.Extract:
		return derivesFrom(x.Tuple, prm, depth+1)
	case *ssa.Next:
		return derivesFrom(x.Iter, prm, depth+1)
	case *ssa.Range:
		return derivesFrom(x.X, prm, depth+1)
	case *ssa.Phi:
		for _, e := range x.Edges {
			if e != v && derivesFrom(e, prm, depth+1) {
				return true
			}
		}
	case *ssa.Call:
		for _, a := range x.Common().Args {
			if derivesFrom(a, prm, depth+1) {
				return true
			}
		}
	}
	return false
}

// isActualOf: v is s.Actual (s spilled to a local or used as a value).
func (c *c15Checker) isActual(v ssa.Value) bool {
	switch x := v.(type) {
	case *ssa.UnOp:
		if fa, ok := x.X.(*ssa.FieldAddr); ok && x.Op == token.MUL && fieldNameOf(fa.X.Type(), fa.Field) == "Actual" {
			return c.isSpill(fa.X)
		}
	case *ssa.Field:
		return fieldNameOf(x.X.Type(), x.Field) == "Actual" && x.X == ssa.Value(c.s)
	}
	return false
}

func (c *c15Checker) isSpill(v ssa.Value) bool {
	al, ok := v.(*ssa.Alloc)
	if !ok || al.Referrers() == nil {
		return false
	}
	for _, r := range *al.Referrers() {
		if st, ok := r.(*ssa.Store); ok && st.Addr == ssa.Value(al) && st.Val == ssa.Value(c.s) {
			return true
		}
	}
	return false
}

// kindOf classifies an operand of a comparison.
func (c *c15Checker) kindOf(v ssa.Value) string {
	if c.isActual(v) {
		return "actual"
	}
	if cv, ok := v.(*ssa.Const); ok && cv.Value != nil && cv.Value.ExactString() == "0" {
		return "0"
	}
	if c.isRange {
		if derivesFrom(v, c.cands[0], 0) {
			return "start"
		}
		if derivesFrom(v, c.cands[1], 0) {
			return "end"
		}
		return "?"
	}
	if derivesFrom(v, c.cands[0], 0) {
		return "cand"
	}
	// bytes of the scalar (assertBitBuf copies s.Actual into a buffer)
	return "?"
}

// matchCond normalises a branch condition into "actual <op> <operand>" ("" if it does not involve the actual value).
func (c *c15Checker) matchCond(cond ssa.Value) string {
	switch x := cond.(type) {
	case *ssa.BinOp:
		l, r, op := x.X, x.Y, x.Op
		// a.Cmp(b) op 0  ==>  a op b
		if call, ok := l.(*ssa.Call); ok {
			if callee := call.Common().StaticCallee(); callee != nil && callee.Name() == "Cmp" && len(call.Common().Args) == 2 && c.kindOf(r) == "0" {
				l, r = call.Common().Args[0], call.Common().Args[1]
			}
		}
		lk, rk := c.kindOf(l), c.kindOf(r)
		if rk == "actual" && lk != "actual" {
			lk, rk = rk, lk
			switch op {
			case token.LSS:
				op = token.GTR
			case token.GTR:
				op = token.LSS
			case token.LEQ:
				op = token.GEQ
			case token.GEQ:
				op = token.LEQ
			}
		}
		if lk != "actual" {
			return ""
		}
		return "actual" + op.String() + rk
	case *ssa.Call:
		// bytes.Equal(<bytes of actual>, candidate)
		if callee := x.Common().StaticCallee(); callee != nil && callee.String() == "bytes.Equal" {
			a, b := x.Common().Args[0], x.Common().Args[1]
			if derivesFrom(b, c.cands[0], 0) && !derivesFrom(a, c.cands[0], 0) {
				return "actual==cand"
			}
			if derivesFrom(a, c.cands[0], 0) && !derivesFrom(b, c.cands[0], 0) {
				return "actual==cand"
			}
			return "actual==?"
		}
	}
	return ""
}

type c15PathState struct {
	match   map[string]bool
	desc    int // 0 untested, 1 true, 2 false
	fail    int
	stored  string
	visited map[*ssa.BasicBlock]int
}

// c15CheckChecker enumerates the paths of a checker and compares every path's outcome with the contract.
func c15CheckChecker(ru *fw.Rule, p *fw.Program, c *c15Checker) {
	key := fw.ShortFn(c.fn)
	required := []string{"actual==cand"}
	if c.isRange {
		required = []string{"actual>=start", "actual<=end"}
	}
	// every comparison that involves the actual value must be one of the required ones
	seenReq := map[string]bool{}
	for _, b := range c.fn.Blocks {
		ifi, ok := b.Instrs[len(b.Instrs)-1].(*ssa.If)
		if !ok {
			continue
		}
		m := c.matchCond(ifi.Cond)
		if m == "" {
			continue
		}
		ok = false
		for _, r := range required {
			if r == m {
				ok = true
				seenReq[r] = true
			}
		}
		if !ok {
			ru.Fail(key+"|cond:"+m, p.Rel(ifi.Pos()), "comparison "+m+" is not one of the required "+strings.Join(required, ", ")+" (wrong operator or operand)")
		}
	}
	for _, r := range required {
		ru.Check(seenReq[r], key+"|cond:"+r, p.Rel(c.fn.Pos()), "present", "required comparison "+r+" not found")
	}
	// paths
	nPaths, bad := 0, map[string]string{}
	var walk func(b *ssa.BasicBlock, st c15PathState)
	walk = func(b *ssa.BasicBlock, st c15PathState) {
		if st.visited[b] >= 2 || nPaths > 5000 {
			return
		}
		vis := map[*ssa.BasicBlock]int{}
		for k, v := range st.visited {
			vis[k] = v
		}
		vis[b]++
		st.visited = vis
		for _, ins := range b.Instrs {
			switch x := ins.(type) {
			case *ssa.Store:
				if fa, ok := x.Addr.(*ssa.FieldAddr); ok && fieldNameOf(fa.X.Type(), fa.Field) == "Description" {
					if s, ok := constString(x.Val); ok {
						st.stored = s
					} else {
						st.stored = "?"
					}
				}
			case *ssa.Return:
				nPaths++
				matched := true
				for _, r := range required {
					if !st.match[r] {
						matched = false
					}
				}
				descOn := st.desc == 1 || c.desc == nil
				wantStored := ""
				if descOn {
					wantStored = "invalid"
					if matched {
						wantStored = "valid"
					}
				}
				if ex, ok := x.Results[1].(*ssa.Extract); ok {
					if call, ok := ex.Tuple.(*ssa.Call); ok && call.Common().StaticCallee() != nil && call.Common().StaticCallee().Pkg != nil &&
						strings.HasPrefix(call.Common().StaticCallee().Pkg.Pkg.Path(), fw.Mod) {
						return // propagation of an I/O error from reading the value: outside the contract
					}
				}
				errNonNil := !isNilErr(x.Results[1])
				wantErr := !matched && st.fail == 1
				sig := fmt.Sprintf("matched=%v desc=%v fail=%v", matched, descOn, st.fail == 1)
				if st.stored != wantStored {
					bad[sig+" description"] = fmt.Sprintf("on a path with %s the description is %q, contract says %q", sig, st.stored, wantStored)
				}
				if errNonNil != wantErr {
					bad[sig+" error"] = fmt.Sprintf("on a path with %s an error is returned=%v, contract says %v", sig, errNonNil, wantErr)
				}
				if sl, ok := stripConv(x.Results[0]).(*ssa.UnOp); !ok || !c.isSpill(sl.X) {
					if x.Results[0] != ssa.Value(c.s) {
						bad["result"] = "the returned scalar is not the (updated) input scalar"
					}
				}
				return
			case *ssa.If:
				m := c.matchCond(x.Cond)
				for i, s := range b.Succs {
					ns := st
					taken := i == 0
					switch {
					case m != "":
						ns.match = map[string]bool{}
						for k, v := range st.match {
							ns.match[k] = v
						}
						if taken {
							ns.match[m] = true
						}
					case c.desc != nil && x.Cond == ssa.Value(c.desc):
						ns.desc = 2
						if taken {
							ns.desc = 1
						}
					case x.Cond == ssa.Value(c.fail):
						ns.fail = 2
						if taken {
							ns.fail = 1
						}
					}
					walk(s, ns)
				}
				return
			case *ssa.Panic:
				return
			}
		}
		for _, s := range b.Succs {
			walk(s, st)
		}
	}
	walk(c.fn.Blocks[0], c15PathState{match: map[string]bool{}, visited: map[*ssa.BasicBlock]int{}})
	if nPaths == 0 {
		ru.Undecided(key+"|paths", p.Rel(c.fn.Pos()), "no path to a return found")
		return
	}
	if len(bad) == 0 {
		ru.Ok(key+"|paths", p.Rel(c.fn.Pos()), fmt.Sprintf("%d paths: description valid iff matched (when desc), invalid on fall-through, error iff !matched && fail", nPaths))
		return
	}
	for _, k := range fw.SortedKeys(bad) {
		ru.Fail(key+"|paths:"+k, p.Rel(c.fn.Pos()), bad[k])
	}
}

// c15Wrappers checks the decode.D methods that wrap a checker in a scalar mapper.
func c15Wrappers(ru *fw.Rule, p *fw.Program, w *c15World, checkers []*c15Checker) int {
	byFn := map[*ssa.Function]*c15Checker{}
	for _, c := range checkers {
		byFn[c.fn] = c
	}
	n := 0
	for _, m := range p.FqFunctions() {
		if m.Parent() != nil || fw.FnPkgPath(m) != c15DecodePkg || m.Signature.Recv() == nil {
			continue
		}
		for _, cl := range m.AnonFuncs {
			for _, ci := range fw.CallsIn(cl) {
				call, ok := ci.(*ssa.Call)
				if !ok {
					continue
				}
				chk := byFn[call.Common().StaticCallee()]
				if chk == nil {
					continue
				}
				n++
				c15CheckWrapper(ru, p, w, m, cl, call, chk)
			}
		}
	}
	return n
}

func c15CheckWrapper(ru *fw.Rule, p *fw.Program, w *c15World, m, cl *ssa.Function, call *ssa.Call, chk *c15Checker) {
	key := fw.ShortFn(m)
	name := m.Name()
	role := ""
	switch {
	case strings.Contains(name, "Require"):
		role = "require"
	case strings.Contains(name, "Assert"):
		role = "assert"
	case strings.Contains(name, "Validate"):
		role = "validate"
	default:
		ru.Undecided(key+"|role", p.Rel(m.Pos()), "wrapper of "+chk.fn.Name()+" whose name carries no Require/Assert/Validate role")
		return
	}
	f := w.fam(m)
	argOf := func(prm *ssa.Parameter) ssa.Value {
		for i, x := range chk.fn.Params {
			if x == prm {
				return call.Common().Args[i]
			}
		}
		return nil
	}
	pos := p.Rel(call.Pos())
	// desc
	if chk.desc != nil {
		got := f.expr(argOf(chk.desc))
		want := map[string]string{"require": "false", "assert": "true", "validate": "true"}[role]
		ru.Check(got == want, key+"|desc", pos, "desc="+got, "desc argument is "+got+", a "+role+" wrapper must pass "+want+" (the description valid/invalid would be lost or wrongly added)")
	} else {
		ru.Check(role != "require", key+"|desc", pos, "description always set", "require wrapper over a checker that always sets the description")
	}
	// fail
	got := f.expr(argOf(chk.fail))
	notForce := isNotForce(f, argOf(chk.fail), m)
	var okFail bool
	switch role {
	case "require":
		okFail = got == "true"
	case "assert":
		okFail = notForce || (chk.desc == nil && got == "true")
	case "validate":
		okFail = got == "false"
	}
	ru.Check(okFail, key+"|fail", pos, "fail="+got, "fail argument is "+got+", not the one of a "+role+" wrapper (require: true, assert: !d.Options.Force, validate: false)")
	// scalar and candidates forwarded in order
	ru.Check(call.Common().Args[paramIndex(chk.fn, chk.s)] == ssa.Value(cl.Params[0]), key+"|scalar", pos, "closure parameter forwarded", "the checked scalar is not the mapper's argument")
	var gotC, wantC []string
	for i, cp := range chk.cands {
		gotC = append(gotC, f.expr(argOf(cp)))
		wantC = append(wantC, fmt.Sprintf("param%d", i+1))
	}
	ru.Check(strings.Join(gotC, ",") == strings.Join(wantC, ","), key+"|candidates", pos, strings.Join(gotC, ","), "candidate arguments are "+strings.Join(gotC, ",")+", expected the wrapper's own parameters in order "+strings.Join(wantC, ",")+" (swapped range bounds?)")
	// endian argument of the bytes checkers
	for i, prm := range chk.fn.Params {
		if n, ok := prm.Type().(*types.Named); ok && n.Obj().Name() == "Endian" {
			e := f.expr(call.Common().Args[i])
			want := "param0.Endian"
			if strings.Contains(name, "LE") {
				want = "1"
			} else if strings.Contains(name, "BE") {
				want = "0"
			}
			if want != "param0.Endian" {
				// resolve the constants by name
				want = c15EndianConst(p, map[bool]string{true: "LittleEndian", false: "BigEndian"}[strings.Contains(name, "LE")])
			}
			ru.Check(e == want, key+"|endian", pos, "endian="+e, "endian argument is "+e+", expected "+want)
		}
	}
	// results returned unchanged
	okRet := true
	for _, ret := range returnsOf(cl) {
		for i, rv := range ret.Results {
			ex, ok := rv.(*ssa.Extract)
			if !ok || ex.Tuple != ssa.Value(call) || ex.Index != i {
				okRet = false
			}
		}
	}
	ru.Check(okRet, key+"|result", pos, "checker result returned", "the mapper does not return the checker's (scalar, error) unchanged")
}

// isNotForce: v is !d.Options.Force with d the wrapper's receiver.
func isNotForce(f *c15Family, v ssa.Value, m *ssa.Function) bool {
	u, ok := v.(*ssa.UnOp)
	if !ok || u.Op != token.NOT {
		return false
	}
	ld, ok := u.X.(*ssa.UnOp)
	if !ok || ld.Op != token.MUL {
		return false
	}
	fa, ok := ld.X.(*ssa.FieldAddr)
	if !ok || fieldNameOf(fa.X.Type(), fa.Field) != "Force" {
		return false
	}
	fo, ok := fa.X.(*ssa.FieldAddr)
	if !ok || fieldNameOf(fo.X.Type(), fo.Field) != "Options" {
		return false
	}
	return f.hashRoot(fo.X) == ssa.Value(m.Params[0])
}

func paramIndex(fn *ssa.Function, prm *ssa.Parameter) int {
	for i, x := range fn.Params {
		if x == prm {
			return i
		}
	}
	return 0
}

func c15EndianConst(p *fw.Program, name string) string {
	pk := p.Pkg("pkg/decode")
	if pk == nil {
		return "?"
	}
	if c, ok := pk.Types.Scope().Lookup(name).(*types.Const); ok {
		return c.Val().ExactString()
	}
	return "?"
}

func c15Mark(r *fw.Run, p *fw.Program, w *c15World) {
	ru := r.Rule("C15.mark", "the 13 compare helpers of pkg/decode (require<T>, requireRange<T>, assertBitBuf, UintAssertBytes) compare the actual value with ==/>=start/<=end, set \"valid\" exactly on matching paths and \"invalid\" on the others when desc is set, return an error iff unmatched and fail; the decode.D wrappers bind Require→(false,true), Assert→(true,!Force), Validate→(true,false) and forward scalar and candidates in order", 236)
	checkers := c15FindCheckers(p)
	var names []string
	for _, c := range checkers {
		names = append(names, c.fn.Name())
	}
	r.Notes["c15_compare_helpers"] = names
	if len(checkers) < 13 {
		ru.Undecided("anchor:checkers", "", fmt.Sprintf("only %d valid/invalid helpers found in pkg/decode (13 expected)", len(checkers)))
	}
	for _, c := range checkers {
		c15CheckChecker(ru, p, c)
	}
	n := c15Wrappers(ru, p, w, checkers)
	if n < 41 {
		ru.Undecided("anchor:wrappers", "", fmt.Sprintf("only %d wrappers of the helpers found (41 expected)", n))
	}
}
