package rules

// C14.xmlns: the namespace scope stack of from_xml.
//
// encoding/xml resolves prefixes to namespace URLs; from_xml undoes that with a stack of
// (prefix, url) bindings that grows while descending into the tree. A binding declared on an
// inner element shadows the outer ones, so the stack must be searched innermost first. Which end
// is "innermost" follows from how push extends the stack; whether the search takes the first or
// the last match follows from the loop of lookup. The obligations tie the three together and
// check which field plays which part.

import (
	"fmt"
	"go/token"
	"go/types"
	"sort"

	"golang.org/x/tools/go/ssa"

	"fqverif/fw"
)

func c14XMLNS(cx *c14Ctx) {
	ru := cx.r.Rule("C14.xmlns", "from_xml namespace scope stack: push adds the new (prefix, url) binding at one end, lookup scans from that end when it keeps the first match (from the other end when it keeps the last) and covers every index; lookup compares xml.Name.Space with the field that push fills from the xmlns attribute's value and returns the other field; every push call passes the attribute value as url and not as prefix", 7)
	p := cx.p
	// the stack type: a named slice of structs in format/xml with a method that returns an append of the receiver
	var push, lookup *ssa.Function
	var elem *types.Named
	for _, f := range p.FqFunctions() {
		if pkgRel(f) != "format/xml" || f.Signature.Recv() == nil || len(f.Params) == 0 {
			continue
		}
		rt, ok := f.Signature.Recv().Type().(*types.Named)
		if !ok {
			continue
		}
		sl, ok := rt.Underlying().(*types.Slice)
		if !ok {
			continue
		}
		en, ok := sl.Elem().(*types.Named)
		if !ok {
			continue
		}
		if _, isStruct := en.Underlying().(*types.Struct); !isStruct {
			continue
		}
		res := f.Signature.Results()
		switch {
		case res.Len() == 1 && types.Identical(res.At(0).Type(), rt):
			push, elem = f, en
		case res.Len() == 1 && len(c14Loops(f)) > 0:
			for _, pa := range f.Params[1:] {
				if c14NamedIs(pa.Type(), "encoding/xml", "Name") {
					lookup = f
				}
			}
		}
	}
	if push == nil || lookup == nil || elem == nil {
		ru.Undecided("xmlns|anchors", "", "namespace stack type with a push (returns the extended stack) and a lookup(xml.Name) method not found in format/xml")
		return
	}
	isElemField := func(v ssa.Value) (int, bool) {
		switch x := v.(type) {
		case *ssa.Field:
			if t, ok := x.X.Type().(*types.Named); ok && t.Obj() == elem.Obj() {
				return x.Field, true
			}
		case *ssa.FieldAddr:
			if pt, ok := x.X.Type().Underlying().(*types.Pointer); ok {
				if t, ok := pt.Elem().(*types.Named); ok && t.Obj() == elem.Obj() {
					return x.Field, true
				}
			}
		case *ssa.UnOp:
			if x.Op == token.MUL {
				if fa, ok := x.X.(*ssa.FieldAddr); ok {
					if pt, ok := fa.X.Type().Underlying().(*types.Pointer); ok {
						if t, ok := pt.Elem().(*types.Named); ok && t.Obj() == elem.Obj() {
							return fa.Field, true
						}
					}
				}
			}
		}
		return 0, false
	}
	fieldName := func(i int) string {
		if st, ok := elem.Underlying().(*types.Struct); ok && i >= 0 && i < st.NumFields() {
			return st.Field(i).Name()
		}
		return "?"
	}

	// ---- push: which end receives the new binding, which parameter fills which field
	endInner, endKnown := false, false
	diag := ""
	for _, ret := range returnsOf(push) {
		if len(ret.Results) != 1 {
			continue
		}
		rv := ret.Results[0]
		for {
			ct, ok := rv.(*ssa.ChangeType)
			if !ok {
				break
			}
			rv = ct.X
		}
		apps := c14AppendsTo(push, rv)
		if len(apps) == 0 || len(apps[0].Call.Args) != 2 {
			continue
		}
		// the append that produces the result: on which side does the new binding (built from the
		// other parameters) go, on which side the old stack
		o := apps[0]
		recv := ssa.Value(push.Params[0])
		has := func(v ssa.Value, want func(ssa.Value) bool) bool {
			for d := range c14Deps(v) {
				if want(d) {
					return true
				}
			}
			return false
		}
		isRecv := func(d ssa.Value) bool { return d == recv }
		isNew := func(d ssa.Value) bool {
			for _, pa := range push.Params[1:] {
				if d == ssa.Value(pa) {
					return true
				}
			}
			return false
		}
		oldBase, oldTail := has(o.Call.Args[0], isRecv), has(o.Call.Args[1], isRecv)
		newBase, newTail := has(o.Call.Args[0], isNew), has(o.Call.Args[1], isNew)
		diag += fmt.Sprintf(" [append(%s, %s...): old stack in base %v / tail %v, new binding in base %v / tail %v]", o.Call.Args[0].Name(), o.Call.Args[1].Name(), oldBase, oldTail, newBase, newTail)
		switch {
		case oldBase && !oldTail && newTail && !newBase:
			endInner, endKnown = true, true
		case oldTail && !oldBase && newBase && !newTail:
			endInner, endKnown = false, true
		}
	}
	if !endKnown {
		ru.Undecided("xmlns|push-end", p.Rel(push.Pos()), fw.ShortFn(push)+" does not return append(<receiver...>, new) or append(new, <receiver>...): cannot tell which end of the stack is the innermost scope"+diag)
		return
	}
	ru.Ok("xmlns|push-end", p.Rel(push.Pos()), map[bool]string{true: "new bindings go to the end", false: "new bindings go to the front"}[endInner])
	paramField := map[int]int{} // push parameter index -> element field index
	fw.EachInstr(push, func(ins ssa.Instruction) {
		st, ok := ins.(*ssa.Store)
		if !ok {
			return
		}
		fa, ok := st.Addr.(*ssa.FieldAddr)
		if !ok {
			return
		}
		fi, ok := isElemField(fa)
		if !ok {
			return
		}
		for i, pa := range push.Params {
			if c14Strip(st.Val) == ssa.Value(pa) {
				paramField[i] = fi
			}
		}
	})

	// ---- lookup: fields
	urlField, prefixFields := -1, map[int]bool{}
	var nameParam ssa.Value
	for _, pa := range lookup.Params[1:] {
		if c14NamedIs(pa.Type(), "encoding/xml", "Name") {
			nameParam = pa
		}
	}
	fw.EachInstr(lookup, func(ins ssa.Instruction) {
		bo, ok := ins.(*ssa.BinOp)
		if !ok || bo.Op != token.EQL {
			return
		}
		for _, side := range [][2]ssa.Value{{bo.X, bo.Y}, {bo.Y, bo.X}} {
			isSpace := false
			for d := range c14Deps(side[0]) {
				if c14FieldRead(d, "encoding/xml", "Name", "Space") {
					isSpace = true
				}
			}
			if !isSpace {
				continue
			}
			if fi, ok := isElemField(side[1]); ok {
				urlField = fi
			}
		}
	})
	_ = nameParam
	for _, ret := range returnsOf(lookup) {
		for _, res := range ret.Results {
			for d := range c14Deps(res) {
				if fi, ok := isElemField(d); ok {
					if _, isFA := d.(*ssa.FieldAddr); !isFA {
						prefixFields[fi] = true
					}
				}
			}
		}
	}
	var pf []int
	for fi := range prefixFields {
		pf = append(pf, fi)
	}
	sort.Ints(pf)
	fieldsOK := urlField >= 0 && len(pf) == 1 && pf[0] != urlField
	desc := "compares Name.Space with ." + fieldName(urlField)
	if len(pf) == 1 {
		desc += ", returns ." + fieldName(pf[0])
	}
	ru.Check(fieldsOK, "xmlns|lookup-fields", p.Rel(lookup.Pos()), desc,
		fmt.Sprintf("%s must compare xml.Name.Space (the resolved namespace URL) with one field of the binding and return the other one; it compares with field %s and returns field(s) %v", fw.ShortFn(lookup), fieldName(urlField), pf))

	// ---- push call sites: the xmlns attribute's value is the url
	if fieldsOK {
		type site struct {
			c   ssa.CallInstruction
			pos token.Pos
		}
		var sites []site
		for _, f := range p.FqFunctions() {
			if pkgRel(f) != "format/xml" {
				continue
			}
			for _, c := range fw.CallsIn(f) {
				if c14Resolve(c) == push {
					sites = append(sites, site{c, c.Pos()})
				}
			}
		}
		sort.Slice(sites, func(i, j int) bool { return sites[i].pos < sites[j].pos })
		for n, s := range sites {
			args := s.c.Common().Args
			good := true
			why := ""
			for pi, fi := range paramField {
				if pi >= len(args) {
					continue
				}
				fromValue := false
				for d := range c14Deps(args[pi]) {
					if c14FieldRead(d, "encoding/xml", "Attr", "Value") {
						fromValue = true
					}
				}
				switch {
				case fi == urlField && !fromValue:
					good, why = false, "the url argument is not the xmlns attribute's value"
				case fi == pf[0] && fromValue:
					good, why = false, "the prefix argument is the xmlns attribute's value"
				}
			}
			ru.Check(good, fmt.Sprintf("xmlns|push-args#%d", n+1), p.Rel(s.pos), "push(prefix, attribute value)", "a namespace binding is pushed with swapped parts: "+why)
		}
		if len(sites) == 0 {
			ru.Undecided("xmlns|push-args", p.Rel(push.Pos()), "no call of "+fw.ShortFn(push)+" found")
		}
	}

	// ---- lookup: scan order and bounds
	recv := ssa.Value(lookup.Params[0])
	env := fw.NewPolyEnv(lookup)
	var loop *c14Loop
	var index ssa.Value // the index expression used on the stack inside the loop
	for _, l := range c14Loops(lookup) {
		for b := range l.body {
			for _, ins := range b.Instrs {
				if ia, ok := ins.(*ssa.IndexAddr); ok && ia.X == recv {
					loop, index = l, ia.Index
				}
				if ix, ok := ins.(*ssa.Index); ok && ix.X == recv {
					loop, index = l, ix.Index
				}
			}
		}
	}
	if loop == nil {
		ru.Undecided("xmlns|lookup-order", p.Rel(lookup.Pos()), "no loop indexing the stack found in "+fw.ShortFn(lookup))
		return
	}
	var ind *ssa.Phi
	step := int64(0)
	var init ssa.Value
	for _, ins := range loop.head.Instrs {
		ph, ok := ins.(*ssa.Phi)
		if !ok || !c14Induction(ph, loop) {
			continue
		}
		if b, ok := ph.Type().Underlying().(*types.Basic); !ok || b.Info()&types.IsInteger == 0 {
			continue
		}
		for i, e := range ph.Edges {
			if loop.body[ph.Block().Preds[i]] {
				if bo, ok := e.(*ssa.BinOp); ok {
					if k, isC := c14ConstInt(bo.Y); isC {
						if bo.Op == token.SUB {
							k = -k
						}
						ind, step = ph, k
					}
				}
			} else {
				init = e
			}
		}
	}
	if ind == nil || init == nil || (step != 1 && step != -1) {
		ru.Undecided("xmlns|lookup-order", p.Rel(lookup.Pos()), "the stack is not scanned with an index that steps by one")
		return
	}
	// first match wins when the loop is left from its body (break / return) once a match is final
	firstWins := false
	for b := range loop.body {
		if b == loop.head {
			continue
		}
		for _, s := range b.Succs {
			if !loop.body[s] {
				firstWins = true
			}
		}
	}
	needDesc := endInner == firstWins
	// the index is the counter (possibly +/- a constant) or a mirrored counter (x - counter)
	isCounter := func(v ssa.Value) bool {
		if v == ssa.Value(ind) {
			return true
		}
		if bo, ok := v.(*ssa.BinOp); ok && (bo.Op == token.ADD || bo.Op == token.SUB) && bo.X == ssa.Value(ind) {
			_, isC := c14ConstInt(bo.Y)
			return isC
		}
		return false
	}
	mirrored := false
	switch {
	case isCounter(index):
	default:
		bo, ok := index.(*ssa.BinOp)
		// (len-1) - i  or  len - (i+1)
		if ok && bo.Op == token.SUB && isCounter(bo.Y) && !c14Deps(bo.X)[ssa.Value(ind)] {
			mirrored = true
		} else if ok && bo.Op == token.SUB && c14Deps(bo.X)[recv] {
			if inner, ok2 := bo.X.(*ssa.BinOp); ok2 && inner.Op == token.SUB && isCounter(inner.Y) {
				mirrored = true // (len - i) - 1
			} else {
				ru.Undecided("xmlns|lookup-order", p.Rel(lookup.Pos()), "the index used on the stack is not the loop counter or a mirrored counter")
				return
			}
		} else {
			ru.Undecided("xmlns|lookup-order", p.Rel(lookup.Pos()), "the index used on the stack is not the loop counter or a mirrored counter")
			return
		}
	}
	isDesc := (step == -1) != mirrored
	ru.Check(needDesc == isDesc, "xmlns|lookup-order", p.Rel(lookup.Pos()), "innermost binding is found first",
		fmt.Sprintf("%s adds new bindings at the %s of the stack and %s keeps the %s match, but scans the stack %s: a prefix declared on an inner element does not shadow the outer declaration of the same namespace",
			fw.ShortFn(push), map[bool]string{true: "end", false: "front"}[endInner], fw.ShortFn(lookup), map[bool]string{true: "first", false: "last"}[firstWins], map[bool]string{true: "from the end", false: "from the front"}[isDesc]))
	// bounds: every index is visited
	var lenP *fw.Poly
	fw.EachInstr(lookup, func(ins ssa.Instruction) {
		if l, ok := ins.(*ssa.Call); ok && fw.IsBuiltinCall(l, "len") && l.Call.Args[0] == recv {
			lenP = env.Of(l)
		}
	})
	if mirrored {
		// index = len-1-i: in range for the ascending counter exactly when the counter covers 0..len-1
		isDesc = step == -1
	}
	boundsOK := false
	why := "loop condition not modelled"
	if ifi, ok := loop.head.Instrs[len(loop.head.Instrs)-1].(*ssa.If); ok && lenP != nil {
		if bo, ok := ifi.Cond.(*ssa.BinOp); ok && loop.body[loop.head.Succs[0]] {
			x, y := env.Of(bo.X), env.Of(bo.Y)
			i0 := env.Of(init)
			iv := fw.PAtom("phi:" + ind.Name())
			_ = iv
			switch {
			case isDesc:
				// i from len-1 while i >= 0
				startOK := i0.Equal(lenP.Sub(fw.PConst(1)))
				condOK := false
				if bo.X == ssa.Value(ind) {
					if k, isC := y.IsConst(); isC {
						condOK = (bo.Op == token.GEQ && k == 0) || (bo.Op == token.GTR && k == -1)
					}
				}
				boundsOK = startOK && condOK
				why = fmt.Sprintf("a descending scan must run from len-1 (starts at %s) while the index is >= 0 (condition %s %s %s)", i0, x, bo.Op, y)
			default:
				// i from 0 while i < len, or the compiler's range form: k from -1, k+1 < len
				if bo.Op == token.LSS && y.Equal(lenP) {
					if bo.X == ssa.Value(ind) && i0.Equal(fw.PConst(0)) {
						boundsOK = true
					}
					if inc, ok := bo.X.(*ssa.BinOp); ok && inc.Op == token.ADD && inc.X == ssa.Value(ind) && c14IsConst(inc.Y, 1) && i0.Equal(fw.PConst(-1)) {
						boundsOK = true
					}
				}
				why = fmt.Sprintf("an ascending scan must run from 0 while the index is < len (starts at %s, condition %s %s %s)", i0, x, bo.Op, y)
			}
		}
	}
	ru.Check(boundsOK, "xmlns|lookup-bounds", p.Rel(lookup.Pos()), "every binding of the stack is visited", fw.ShortFn(lookup)+": "+why+": a binding at one end of the stack is never consulted")
}
