package rules

// C19: TCP streams and IPv4 datagrams are reassembled exactly.
//
// The reassembly algorithm itself lives in gopacket (reassembly, ip4defrag) and is not decided
// here. What is decided, on every run, is the fq-side plumbing that any exact reassembly needs:
// which direction buffer a callback writes, what happens on a gap, how endpoints are built, that
// IPv4 is defragmented before TCP, how "datagram complete" is recognised, the link-type table,
// what pcap/pcapng feed to it, decoder lifetime (one per capture section) and how the result is
// exposed. Values are identified by data flow ("signatures"), never by text or position.

import (
	"fmt"
	"go/constant"
	"go/token"
	"go/types"
	"sort"
	"strings"

	"golang.org/x/tools/go/ssa"

	"fqverif/fw"
)

func init() { Register("C19", runC19) }

const (
	c19FD      = "format/inet/flowsdecoder"
	c19PCAP    = "format/pcap"
	c19GP      = "github.com/gopacket/gopacket"
	c19GPLay   = c19GP + "/layers"
	c19GPReasm = c19GP + "/reassembly"
	c19GPFrag  = c19GP + "/ip4defrag"
)

type c19 struct {
	r       *fw.Run
	p       *fw.Program
	pcapFns []*ssa.Function
	fdFns   []*ssa.Function
	twCache map[string]*ssa.Store
	twDone  map[string]bool
	subst   map[*ssa.Parameter]string // signatures of a helper's parameters while its body is read at a call site
}

func runC19(r *fw.Run, p *fw.Program) {
	c := &c19{r: r, p: p, twCache: map[string]*ssa.Store{}, twDone: map[string]bool{}}
	for _, fn := range p.FqFunctions() {
		switch pkgRel(fn) {
		case c19PCAP:
			c.pcapFns = append(c.pcapFns, fn)
		case c19FD:
			c.fdFns = append(c.fdFns, fn)
		}
	}
	r.Assumption("gopacket's reassembly.ScatterGather.Info() reports skip as -1 (start of stream unknown), 0 (contiguous) or a positive count of missing bytes")
	r.Assumption("gopacket's reassembly and ip4defrag packages order, de-duplicate and join segments/fragments correctly; only fq's use of them is checked")
	c.ruleDir()
	c.ruleSkip()
	c.ruleAccept()
	c.ruleStart()
	c.ruleEndpoint()
	c.ruleDefrag()
	c.ruleLink()
	c.ruleEndian()
	c.ruleFeed()
	c.ruleSection()
	c.ruleFlow()
}

// ---------------------------------------------------------------------------
// generic helpers (data-flow identity of values)

func c19short(s string) string {
	s = strings.ReplaceAll(s, fw.Mod+"/", "")
	return strings.ReplaceAll(s, c19GP, "gopacket")
}

// c19strip removes value-preserving wrappers.
func c19strip(v ssa.Value) ssa.Value {
	for {
		switch x := v.(type) {
		case *ssa.Convert:
			v = x.X
		case *ssa.ChangeType:
			v = x.X
		case *ssa.MakeInterface:
			v = x.X
		case *ssa.ChangeInterface:
			v = x.X
		default:
			return v
		}
	}
}

func c19deref(t types.Type) types.Type {
	if p, ok := t.Underlying().(*types.Pointer); ok {
		return p.Elem()
	}
	return t
}

func c19isNamed(t types.Type, n *types.Named) bool {
	return n != nil && types.Identical(c19deref(t), n)
}

// c19fieldOf reports that fa is &x.<name> with x of (pointer to) the named struct.
func c19fieldOf(v ssa.Value, n *types.Named, name string) (*ssa.FieldAddr, bool) {
	fa, ok := v.(*ssa.FieldAddr)
	if !ok || !c19isNamed(fa.X.Type(), n) {
		return nil, false
	}
	return fa, fieldNameOf(fa.X.Type(), fa.Field) == name
}

// c19loadOfField: v is *(&x.<name>) for the named struct; returns x.
func c19loadOfField(v ssa.Value, n *types.Named, name string) (ssa.Value, bool) {
	u, ok := v.(*ssa.UnOp)
	if !ok || u.Op != token.MUL {
		return nil, false
	}
	fa, ok := c19fieldOf(u.X, n, name)
	if !ok {
		return nil, false
	}
	return fa.X, true
}

func (c *c19) freeVarBinding(fv *ssa.FreeVar) ssa.Value {
	fn := fv.Parent()
	par := fn.Parent()
	idx := -1
	for i, f := range fn.FreeVars {
		if f == fv {
			idx = i
		}
	}
	if idx < 0 || par == nil {
		return nil
	}
	var out ssa.Value
	n := 0
	fw.EachInstr(par, func(ins ssa.Instruction) {
		if mc, ok := ins.(*ssa.MakeClosure); ok && mc.Fn == ssa.Value(fn) {
			out = mc.Bindings[idx]
			n++
		}
	})
	if n != 1 {
		return nil
	}
	return out
}

// cell: the variable (Alloc) a pointer value denotes, directly or through closure captures.
func (c *c19) cell(v ssa.Value) *ssa.Alloc {
	for i := 0; i < 10 && v != nil; i++ {
		switch x := v.(type) {
		case *ssa.Alloc:
			return x
		case *ssa.FreeVar:
			v = c.freeVarBinding(x)
		default:
			return nil
		}
	}
	return nil
}

// aliases: the alloc and every free variable bound to it in nested closures.
func (c *c19) aliases(a *ssa.Alloc) []ssa.Value {
	out := []ssa.Value{a}
	for i := 0; i < len(out); i++ {
		refs := out[i].Referrers()
		if refs == nil {
			continue
		}
		for _, r := range *refs {
			if mc, ok := r.(*ssa.MakeClosure); ok {
				for j, b := range mc.Bindings {
					if b == out[i] {
						out = append(out, mc.Fn.(*ssa.Function).FreeVars[j])
					}
				}
			}
		}
	}
	return out
}

type c19cellInfo struct {
	whole   []*ssa.Store
	fields  map[string][]*ssa.Store // path of field indices "0.1" -> stores
	escapes bool                    // address used other than load/store/field/closure capture
}

func (c *c19) cellInfo(a *ssa.Alloc) *c19cellInfo {
	ci := &c19cellInfo{fields: map[string][]*ssa.Store{}}
	var walkField func(fa *ssa.FieldAddr, path string)
	walkField = func(fa *ssa.FieldAddr, path string) {
		if fa.Referrers() == nil {
			return
		}
		for _, r := range *fa.Referrers() {
			switch x := r.(type) {
			case *ssa.Store:
				if x.Addr == ssa.Value(fa) {
					ci.fields[path] = append(ci.fields[path], x)
				} else {
					ci.escapes = true
				}
			case *ssa.UnOp, *ssa.DebugRef:
			case *ssa.FieldAddr:
				walkField(x, fmt.Sprintf("%s.%d", path, x.Field))
			default:
				ci.escapes = true
			}
		}
	}
	for _, v := range c.aliases(a) {
		if v.Referrers() == nil {
			continue
		}
		for _, r := range *v.Referrers() {
			switch x := r.(type) {
			case *ssa.Store:
				if x.Addr == v {
					ci.whole = append(ci.whole, x)
				} else {
					ci.escapes = true
				}
			case *ssa.UnOp, *ssa.DebugRef, *ssa.MakeClosure:
			case *ssa.FieldAddr:
				walkField(x, fmt.Sprintf("%d", x.Field))
			default:
				ci.escapes = true
			}
		}
	}
	return ci
}

// fieldPath returns the chain of field indices from a cell to the FieldAddr, and the cell.
func (c *c19) fieldPath(fa *ssa.FieldAddr) (*ssa.Alloc, string) {
	path := fmt.Sprintf("%d", fa.Field)
	v := fa.X
	for {
		if in, ok := v.(*ssa.FieldAddr); ok {
			path = fmt.Sprintf("%d.%s", in.Field, path)
			v = in.X
			continue
		}
		break
	}
	return c.cell(v), path
}

// typeWideStore: for an unexported field of a struct declared in fq, the only store to that field
// anywhere in the declaring package (nil if there is not exactly one, or the field's address is
// used for anything but loads and stores).
func (c *c19) typeWideStore(fa *ssa.FieldAddr) *ssa.Store {
	n, ok := c19deref(fa.X.Type()).(*types.Named)
	if !ok || n.Obj().Pkg() == nil || !strings.HasPrefix(n.Obj().Pkg().Path(), fw.Mod) {
		return nil
	}
	st, ok := n.Underlying().(*types.Struct)
	if !ok || st.Field(fa.Field).Exported() {
		return nil
	}
	key := fmt.Sprintf("%s.%s#%d", n.Obj().Pkg().Path(), n.Obj().Name(), fa.Field)
	if c.twDone[key] {
		return c.twCache[key]
	}
	c.twDone[key] = true
	var stores []*ssa.Store
	bad := false
	for _, fn := range c.p.FqFunctions() {
		if fw.FnPkgPath(fn) != n.Obj().Pkg().Path() {
			continue
		}
		fw.EachInstr(fn, func(ins ssa.Instruction) {
			f2, ok := ins.(*ssa.FieldAddr)
			if !ok || f2.Field != fa.Field || !c19isNamed(f2.X.Type(), n) || f2.Referrers() == nil {
				return
			}
			for _, r := range *f2.Referrers() {
				switch x := r.(type) {
				case *ssa.Store:
					if x.Addr == ssa.Value(f2) {
						stores = append(stores, x)
					} else {
						bad = true
					}
				case *ssa.UnOp, *ssa.DebugRef:
				default:
					bad = true
				}
			}
		})
	}
	if bad || len(stores) != 1 {
		return nil
	}
	c.twCache[key] = stores[0]
	return stores[0]
}

// origin follows loads of single-assignment variables (locals, closure captures, fields of local
// struct literals, write-once unexported context fields) back to the value that was stored.
func (c *c19) origin(v ssa.Value) ssa.Value { return c.originOpt(v, false) }

// originTW additionally follows write-once unexported fields of context structs (instance-insensitive).
func (c *c19) originTW(v ssa.Value) ssa.Value { return c.originOpt(v, true) }

func (c *c19) originOpt(v ssa.Value, tw bool) ssa.Value {
	for i := 0; i < 24; i++ {
		v = c19strip(v)
		u, ok := v.(*ssa.UnOp)
		if !ok || u.Op != token.MUL {
			return v
		}
		if a := c.cell(u.X); a != nil {
			ci := c.cellInfo(a)
			if ci.escapes || len(ci.whole) != 1 || len(ci.fields) != 0 {
				return v
			}
			v = ci.whole[0].Val
			continue
		}
		if fa, ok := u.X.(*ssa.FieldAddr); ok {
			if a, path := c.fieldPath(fa); a != nil {
				ci := c.cellInfo(a)
				if !ci.escapes && len(ci.whole) == 0 && len(ci.fields[path]) == 1 {
					v = ci.fields[path][0].Val
					continue
				}
				if len(ci.whole) == 1 && len(ci.fields) == 0 && !ci.escapes {
					// field of a copied struct value: handled by sig (value.field)
					return v
				}
			}
			if tw {
				if st := c.typeWideStore(fa); st != nil {
					v = st.Val
					continue
				}
			}
		}
		return v
	}
	return v
}

func c19paramIndex(p *ssa.Parameter) int {
	for i, q := range p.Parent().Params {
		if q == p {
			return i
		}
	}
	return -1
}

func c19calleeName(cc *ssa.CallCommon) string {
	if cc.IsInvoke() {
		return "." + cc.Method.Name()
	}
	if f := cc.StaticCallee(); f != nil {
		if o := f.Origin(); o != nil {
			f = o
		}
		return c19short(f.String())
	}
	if b, ok := cc.Value.(*ssa.Builtin); ok {
		return b.Name()
	}
	return ""
}

// sig renders the data-flow identity of a value: parameters by index, field paths, resolved
// callees with the signatures of their arguments, constants. Two values with the same signature
// are computed the same way from the function's inputs.
func (c *c19) sig(v ssa.Value) string { return c.sigd(v, 0) }

func (c *c19) sigd(v ssa.Value, d int) string {
	if d > 14 {
		return "..."
	}
	// pointer to a variable (not loaded): &<stored value>
	if a := c.cell(v); a != nil {
		ci := c.cellInfo(a)
		if len(ci.whole) == 1 && len(ci.fields) == 0 {
			return "&(" + c.sigd(ci.whole[0].Val, d+1) + ")"
		}
		return "&var:" + c19short(types.TypeString(c19deref(a.Type()), nil))
	}
	v = c.origin(v)
	switch x := v.(type) {
	case *ssa.Parameter:
		if s, ok := c.subst[x]; ok {
			return s
		}
		return fmt.Sprintf("param#%d", c19paramIndex(x))
	case *ssa.Const:
		if x.Value == nil {
			return "nil"
		}
		return x.Value.ExactString()
	case *ssa.Global:
		return "&" + c19short(x.Pkg.Pkg.Path()) + "." + x.Name()
	case *ssa.Function:
		return "func:" + c19short(x.String())
	case *ssa.MakeClosure:
		return "closure:" + c19short(x.Fn.(*ssa.Function).String())
	case *ssa.FieldAddr:
		return "&" + c.sigBase(x.X, d) + "." + fieldNameOf(x.X.Type(), x.Field)
	case *ssa.Field:
		return c.sigd(x.X, d+1) + "." + fieldNameOf(x.X.Type(), x.Field)
	case *ssa.IndexAddr:
		return "&" + c.sigd(x.X, d+1) + "[" + c.sigIndex(x.Index) + "]"
	case *ssa.UnOp:
		if x.Op == token.MUL {
			switch y := x.X.(type) {
			case *ssa.Global:
				return c19short(y.Pkg.Pkg.Path()) + "." + y.Name()
			case *ssa.FieldAddr:
				return c.sigBase(y.X, d) + "." + fieldNameOf(y.X.Type(), y.Field)
			case *ssa.IndexAddr:
				return c.sigd(y.X, d+1) + "[" + c.sigIndex(y.Index) + "]"
			}
			return "*" + c.sigd(x.X, d+1)
		}
		return x.Op.String() + c.sigd(x.X, d+1)
	case *ssa.Extract:
		return c.sigd(x.Tuple, d+1) + "#" + fmt.Sprint(x.Index)
	case *ssa.TypeAssert:
		return c.sigd(x.X, d+1) + ".(" + c19short(types.TypeString(x.AssertedType, nil)) + ")"
	case *ssa.Lookup:
		return c.sigd(x.X, d+1) + "[" + c.sigd(x.Index, d+1) + "]"
	case *ssa.Index:
		return c.sigd(x.X, d+1) + "[" + c.sigIndex(x.Index) + "]"
	case *ssa.Call:
		cc := x.Common()
		var args []string
		for _, a := range cc.Args {
			args = append(args, c.sigd(a, d+1))
		}
		if cc.IsInvoke() {
			return c.sigd(cc.Value, d+1) + "." + cc.Method.Name() + "(" + strings.Join(args, ",") + ")"
		}
		name := c19calleeName(cc)
		if name == "" {
			name = "dyn:" + c.sigd(cc.Value, d+1)
		}
		return name + "(" + strings.Join(args, ",") + ")"
	case *ssa.BinOp:
		a, b := c.sigd(x.X, d+1), c.sigd(x.Y, d+1)
		op := x.Op
		if op == token.SHL {
			if k, ok := c19constInt(x.Y); ok && k >= 0 && k < 62 {
				op, b = token.MUL, fmt.Sprint(int64(1)<<uint(k))
			}
		}
		if op == token.MUL || op == token.ADD {
			if _, ok := c19strip(x.X).(*ssa.Const); ok {
				a, b = b, a
			}
		}
		return "(" + a + op.String() + b + ")"
	case *ssa.Phi:
		set := map[string]bool{}
		for _, e := range x.Edges {
			if e == ssa.Value(x) {
				continue
			}
			set[c.sigd(e, d+4)] = true
		}
		return "phi(" + strings.Join(fw.SortedKeys(set), "|") + ")"
	case *ssa.Alloc:
		return "new:" + c19short(types.TypeString(c19deref(x.Type()), nil))
	case *ssa.MakeMap:
		return "makemap"
	case *ssa.Slice:
		return "slice(" + c.sigd(x.X, d+1) + ")"
	}
	return "?" + fmt.Sprintf("%T", v)
}

// sigBase: the struct a FieldAddr selects from; a local copy of a struct value is seen through.
func (c *c19) sigBase(x ssa.Value, d int) string {
	if a := c.cell(x); a != nil {
		ci := c.cellInfo(a)
		if len(ci.whole) == 1 && len(ci.fields) == 0 {
			return c.sigd(ci.whole[0].Val, d+1)
		}
		return "var:" + c19short(types.TypeString(c19deref(a.Type()), nil))
	}
	if fa, ok := x.(*ssa.FieldAddr); ok { // embedded/nested struct
		return c.sigBase(fa.X, d) + "." + fieldNameOf(fa.X.Type(), fa.Field)
	}
	return c.sigd(x, d+1)
}

func (c *c19) sigIndex(v ssa.Value) string {
	if k, ok := c19constInt(v); ok {
		return fmt.Sprint(k)
	}
	return "*"
}

func c19constInt(v ssa.Value) (int64, bool) {
	k, ok := c19strip(v).(*ssa.Const)
	if !ok || k.Value == nil || k.Value.Kind() != constant.Int {
		return 0, false
	}
	return k.Int64(), true
}

func c19constBool(v ssa.Value) (bool, bool) {
	k, ok := c19strip(v).(*ssa.Const)
	if !ok || k.Value == nil || k.Value.Kind() != constant.Bool {
		return false, false
	}
	return constant.BoolVal(k.Value), true
}

// c19cond is a branch condition with the truth value it has on the way to a program point.
type c19cond struct {
	v ssa.Value
	t bool
}

func c19norm(v ssa.Value, t bool) c19cond {
	for {
		u, ok := v.(*ssa.UnOp)
		if !ok || u.Op != token.NOT {
			return c19cond{v, t}
		}
		v, t = u.X, !t
	}
}

// c19condsAt: conditions known in block b (dominating branches, no-return aware).
func c19condsAt(b *ssa.BasicBlock) []c19cond {
	var out []c19cond
	for _, g := range fw.Guards(b) {
		out = append(out, c19norm(g.Cond, g.True))
	}
	return out
}

// c19condsEdge: conditions known when control flows pred -> succ.
func c19condsEdge(pred, succ *ssa.BasicBlock) []c19cond {
	out := c19condsAt(pred)
	if ifi, ok := pred.Instrs[len(pred.Instrs)-1].(*ssa.If); ok && len(pred.Succs) == 2 && pred.Succs[0] != pred.Succs[1] {
		out = append(out, c19norm(ifi.Cond, pred.Succs[0] == succ))
	}
	return out
}

// c19leaf is a non-phi source of a value together with the conditions under which it is chosen.
type c19leaf struct {
	v     ssa.Value
	conds []c19cond
}

// c19leaves expands phis; use is the block where a non-phi value is consumed.
func c19leaves(v ssa.Value, use *ssa.BasicBlock) []c19leaf {
	var out []c19leaf
	seen := map[*ssa.Phi]bool{}
	var rec func(v ssa.Value, conds []c19cond)
	rec = func(v ssa.Value, conds []c19cond) {
		phi, ok := v.(*ssa.Phi)
		if !ok {
			out = append(out, c19leaf{v, conds})
			return
		}
		if seen[phi] {
			return
		}
		seen[phi] = true
		for i, e := range phi.Edges {
			rec(e, append(append([]c19cond{}, conds...), c19condsEdge(phi.Block().Preds[i], phi.Block())...))
		}
	}
	var start []c19cond
	if use != nil {
		start = c19condsAt(use)
	}
	rec(v, start)
	return out
}

func c19blockReaches(from, to *ssa.BasicBlock, avoid *ssa.BasicBlock) bool {
	seen := map[*ssa.BasicBlock]bool{}
	stack := append([]*ssa.BasicBlock{}, from.Succs...)
	for len(stack) > 0 {
		b := stack[len(stack)-1]
		stack = stack[:len(stack)-1]
		if seen[b] || b == avoid {
			continue
		}
		seen[b] = true
		if b == to {
			return true
		}
		stack = append(stack, b.Succs...)
	}
	return false
}

// c19before: a executes before b on every path reaching b, and b is never followed by a.
func c19before(a, b ssa.Instruction) bool {
	if a == b || a.Parent() != b.Parent() {
		return false
	}
	if !precedesOnAllPaths(a, b) {
		return false
	}
	if a.Block() == b.Block() {
		return true
	}
	return !c19blockReaches(b.Block(), a.Block(), nil)
}

func (c *c19) pos(ins interface{ Pos() token.Pos }) string { return c.p.Rel(ins.Pos()) }

func (c *c19) scopeConstBool(pkg, name string) (bool, bool) {
	pk := c.p.ByPath[pkg]
	if pk == nil || pk.Types == nil {
		return false, false
	}
	k, ok := pk.Types.Scope().Lookup(name).(*types.Const)
	if !ok || k.Val().Kind() != constant.Bool {
		return false, false
	}
	return constant.BoolVal(k.Val()), true
}

func (c *c19) scopeConstInt(pkg, name string) (int64, bool) {
	pk := c.p.ByPath[pkg]
	if pk == nil || pk.Types == nil {
		return 0, false
	}
	k, ok := pk.Types.Scope().Lookup(name).(*types.Const)
	if !ok || k.Val().Kind() != constant.Int {
		return 0, false
	}
	return constant.Int64Val(k.Val())
}

// invokesOn: interface method calls <recv>.<name>(...) in fn.
func c19invokesOn(fn *ssa.Function, recv ssa.Value, name string) []*ssa.Call {
	var out []*ssa.Call
	fw.EachInstr(fn, func(ins ssa.Instruction) {
		if cl, ok := ins.(*ssa.Call); ok && cl.Common().IsInvoke() && cl.Common().Method.Name() == name && cl.Common().Value == recv {
			out = append(out, cl)
		}
	})
	return out
}

// staticCalls: calls in fn whose resolved callee has the given full (module-relative) name.
func c19staticCalls(fn *ssa.Function, name string) []*ssa.Call {
	var out []*ssa.Call
	fw.EachInstr(fn, func(ins ssa.Instruction) {
		if cl, ok := ins.(*ssa.Call); ok && !cl.Common().IsInvoke() && c19calleeName(cl.Common()) == name {
			out = append(out, cl)
		}
	})
	return out
}

// ---------------------------------------------------------------------------
// ReassembledSG model shared by C19.dir and C19.skip

type c19sg struct {
	fn                     *ssa.Function
	recv, sg               *ssa.Parameter
	info, lens             *ssa.Call
	dir, start, end, skip  ssa.Value
	length                 ssa.Value
	tdir, tconn            *types.Named
	bases                  []ssa.Value // distinct *TCPDirection values whose fields are accessed
	assumeTrue             ssa.Value   // a bool value assumed true while exploring paths (nil = none)
	wantClient, wantServer bool        // value of dir for client->server / server->client
}

func (c *c19) sgModel(ru *fw.Rule) *c19sg {
	m := &c19sg{}
	m.fn = getFn(ru, c.p, "(*"+c19FD+".TCPConnection).ReassembledSG")
	if m.fn == nil {
		return nil
	}
	m.tdir = c.p.NamedType(c19FD, "TCPDirection")
	m.tconn = c.p.NamedType(c19FD, "TCPConnection")
	if m.tdir == nil || m.tconn == nil || len(m.fn.Params) < 2 {
		ru.Undecided("anchor:TCPDirection", "", "flowsdecoder.TCPDirection/TCPConnection or the ReassembledSG signature changed")
		return nil
	}
	m.recv, m.sg = m.fn.Params[0], m.fn.Params[1]
	infos := c19invokesOn(m.fn, m.sg, "Info")
	lens := c19invokesOn(m.fn, m.sg, "Lengths")
	if len(infos) != 1 || len(lens) != 1 {
		ru.Undecided("anchor:sg.Info", c.pos(m.fn), fmt.Sprintf("expected one sg.Info() and one sg.Lengths() call on the ScatterGather parameter, found %d and %d", len(infos), len(lens)))
		return nil
	}
	m.info, m.lens = infos[0], lens[0]
	m.dir, m.start, m.end, m.skip = extractOf(m.info, 0), extractOf(m.info, 1), extractOf(m.info, 2), extractOf(m.info, 3)
	m.length = extractOf(m.lens, 0)
	var ok1, ok2 bool
	m.wantClient, ok1 = c.scopeConstBool(c19GPReasm, "TCPDirClientToServer")
	m.wantServer, ok2 = c.scopeConstBool(c19GPReasm, "TCPDirServerToClient")
	if !ok1 || !ok2 || m.wantClient == m.wantServer {
		ru.Undecided("anchor:TCPDir", "", "reassembly.TCPDirClientToServer/TCPDirServerToClient are not distinct bool constants any more")
		return nil
	}
	seen := map[ssa.Value]bool{}
	fw.EachInstr(m.fn, func(ins ssa.Instruction) {
		if fa, ok := ins.(*ssa.FieldAddr); ok && c19isNamed(fa.X.Type(), m.tdir) && !seen[fa.X] {
			seen[fa.X] = true
			m.bases = append(m.bases, fa.X)
		}
	})
	return m
}

// dirValues: which values of dir are possible under the conditions (nil cond list = both).
func (m *c19sg) dirValues(conds []c19cond) (canFalse, canTrue bool) {
	canFalse, canTrue = true, true
	for _, cd := range conds {
		if m.dir != nil && cd.v == m.dir {
			if cd.t {
				canFalse = false
			} else {
				canTrue = false
			}
			continue
		}
		bo, ok := cd.v.(*ssa.BinOp)
		if !ok || (bo.Op != token.EQL && bo.Op != token.NEQ) {
			continue
		}
		var k bool
		if bo.X == m.dir {
			if k, ok = c19constBool(bo.Y); !ok {
				continue
			}
		} else if bo.Y == m.dir {
			if k, ok = c19constBool(bo.X); !ok {
				continue
			}
		} else {
			continue
		}
		eq := (bo.Op == token.EQL) == cd.t // dir == k holds
		val := k
		if !eq {
			val = !k
		}
		if val {
			canFalse = false
		} else {
			canTrue = false
		}
	}
	return
}

// ---------------------------------------------------------------------------
// C19.dir

func (c *c19) ruleDir() {
	ru := c.r.Rule("C19.dir", "ReassembledSG selects the direction record from sg.Info()'s direction: ClientToServer -> t.Client, ServerToClient -> t.Server, on every path, and every field it touches belongs to that record", 4)
	m := c.sgModel(ru)
	if m == nil {
		return
	}
	fnKey := "ReassembledSG"
	ru.Check(m.dir != nil, fnKey+":dir-source", c.pos(m.info), "direction is result #0 of sg.Info()", "result #0 (direction) of sg.Info() is not used: the direction record cannot depend on the segment's direction")
	if len(m.bases) == 0 {
		ru.Undecided(fnKey+":select", c.pos(m.fn), "no TCPDirection field is accessed in ReassembledSG")
		return
	}
	var clientOK, serverOK int
	var problems []string
	classify := func(v ssa.Value, recv ssa.Value, canF, canT bool) {
		var field string
		if x, ok := c19loadOfField(v, m.tconn, "Client"); ok && x == recv {
			field = "Client"
		} else if x, ok := c19loadOfField(v, m.tconn, "Server"); ok && x == recv {
			field = "Server"
		} else {
			problems = append(problems, "a direction record comes from "+c.sig(v)+", not from the receiver's Client/Server field")
			return
		}
		if canF && canT {
			problems = append(problems, "t."+field+" is used on a path where the direction has not been tested")
			return
		}
		isClientDir := (canT && m.wantClient) || (canF && !m.wantClient)
		switch {
		case isClientDir && field == "Client":
			clientOK++
		case !isClientDir && field == "Server":
			serverOK++
		case isClientDir:
			problems = append(problems, "TCPDirClientToServer selects t.Server")
		default:
			problems = append(problems, "TCPDirServerToClient selects t.Client")
		}
	}
	for _, base := range m.bases {
		var use *ssa.BasicBlock
		if _, isPhi := base.(*ssa.Phi); !isPhi {
			if ins, ok := base.(ssa.Instruction); ok {
				use = ins.Block()
			}
		}
		for _, lf := range c19leaves(base, use) {
			canF, canT := m.dirValues(lf.conds)
			if !canF && !canT {
				continue // infeasible edge (e.g. zero value after an exhaustive switch)
			}
			// a selector helper of the package: t.direction(dir) - read its returns in the caller's terms
			if cl, ok := lf.v.(*ssa.Call); ok && !cl.Common().IsInvoke() {
				if f := cl.Common().StaticCallee(); f != nil && f.Blocks != nil && pkgRel(f) == c19FD && len(f.Params) == len(cl.Common().Args) && f.Signature.Results().Len() == 1 {
					m2 := &c19sg{tconn: m.tconn, tdir: m.tdir, wantClient: m.wantClient, wantServer: m.wantServer}
					for i, a := range cl.Common().Args {
						switch c.origin(a) {
						case ssa.Value(m.recv):
							m2.recv = f.Params[i]
						case m.dir:
							m2.dir = f.Params[i]
						}
					}
					if m2.recv != nil {
						for _, ret := range returnsOf(f) {
							var use2 *ssa.BasicBlock
							if _, isPhi := ret.Results[0].(*ssa.Phi); !isPhi {
								use2 = ret.Block()
							}
							for _, l2 := range c19leaves(ret.Results[0], use2) {
								f2, t2 := true, true
								if m2.dir != nil {
									f2, t2 = m2.dirValues(l2.conds)
								}
								if (canF && f2) || (canT && t2) {
									classify(l2.v, m2.recv, canF && f2, canT && t2)
								}
							}
						}
						continue
					}
				}
			}
			classify(lf.v, m.recv, canF, canT)
		}
	}
	sort.Strings(problems)
	msg := strings.Join(problems, "; ")
	ru.Check(clientOK > 0 && !strings.Contains(msg, "TCPDirClientToServer"), fnKey+":ClientToServer", c.pos(m.fn), "client->server data goes to t.Client", "client->server data is not written to t.Client: "+msg)
	ru.Check(serverOK > 0 && !strings.Contains(msg, "TCPDirServerToClient"), fnKey+":ServerToClient", c.pos(m.fn), "server->client data goes to t.Server", "server->client data is not written to t.Server: "+msg)
	ru.Check(len(problems) == 0 && clientOK > 0 && serverOK > 0, fnKey+":total", c.pos(m.fn), "every accessed direction record is selected by the tested direction", "direction selection is not total/exact: "+msg)
}

// ---------------------------------------------------------------------------
// C19.skip

const (
	c19NEG1 = iota // skip == -1: start of stream not seen
	c19ZERO        // contiguous
	c19POS         // bytes missing
)

var c19className = [...]string{"skip == -1", "skip == 0", "skip > 0"}

// evalSkip evaluates a branch condition for one class of skip; known=false when it does not decide.
func (m *c19sg) evalSkip(cond ssa.Value, class int) (val, known bool) {
	cd := c19norm(cond, true)
	bo, ok := cd.v.(*ssa.BinOp)
	if !ok {
		return false, false
	}
	op := bo.Op
	var k int64
	if bo.X == m.skip {
		if k, ok = c19constInt(bo.Y); !ok {
			return false, false
		}
	} else if bo.Y == m.skip {
		if k, ok = c19constInt(bo.X); !ok {
			return false, false
		}
		switch op { // k op skip  ==  skip op' k
		case token.LSS:
			op = token.GTR
		case token.GTR:
			op = token.LSS
		case token.LEQ:
			op = token.GEQ
		case token.GEQ:
			op = token.LEQ
		}
	} else {
		return false, false
	}
	res := func(b bool) (bool, bool) { return b == cd.t, true }
	if class != c19POS {
		v := int64(-1)
		if class == c19ZERO {
			v = 0
		}
		switch op {
		case token.EQL:
			return res(v == k)
		case token.NEQ:
			return res(v != k)
		case token.LSS:
			return res(v < k)
		case token.LEQ:
			return res(v <= k)
		case token.GTR:
			return res(v > k)
		case token.GEQ:
			return res(v >= k)
		}
		return false, false
	}
	// skip in [1, inf)
	switch op {
	case token.EQL:
		if k < 1 {
			return res(false)
		}
	case token.NEQ:
		if k < 1 {
			return res(true)
		}
	case token.GTR:
		if k < 1 {
			return res(true)
		}
	case token.GEQ:
		if k <= 1 {
			return res(true)
		}
	case token.LSS:
		if k <= 1 {
			return res(false)
		}
	case token.LEQ:
		if k < 1 {
			return res(false)
		}
	}
	return false, false
}

// feasibleSuccs: successors of b that a run with skip in the class can take.
func (m *c19sg) feasibleSuccs(b *ssa.BasicBlock, class int) []*ssa.BasicBlock {
	if fw.CurrentNR != nil && fw.CurrentNR.CutIndex(b) >= 0 {
		return nil
	}
	if ifi, ok := b.Instrs[len(b.Instrs)-1].(*ssa.If); ok && len(b.Succs) == 2 {
		if cd := c19norm(ifi.Cond, true); m.assumeTrue != nil && cd.v == m.assumeTrue {
			if cd.t {
				return b.Succs[:1]
			}
			return b.Succs[1:]
		}
		if v, known := m.evalSkip(ifi.Cond, class); known {
			if v {
				return b.Succs[:1]
			}
			return b.Succs[1:]
		}
	}
	return b.Succs
}

// classReach: blocks reachable from entry for the class; stop marks blocks not to go beyond.
func (m *c19sg) classReach(class int, stop map[*ssa.BasicBlock]bool) map[*ssa.BasicBlock]bool {
	seen := map[*ssa.BasicBlock]bool{}
	stack := []*ssa.BasicBlock{m.fn.Blocks[0]}
	for len(stack) > 0 {
		b := stack[len(stack)-1]
		stack = stack[:len(stack)-1]
		if seen[b] {
			continue
		}
		seen[b] = true
		if stop[b] {
			continue
		}
		stack = append(stack, m.feasibleSuccs(b, class)...)
	}
	return seen
}

func c19isReturnBlock(b *ssa.BasicBlock) bool {
	_, ok := b.Instrs[len(b.Instrs)-1].(*ssa.Return)
	return ok
}

// mustPass: every class-feasible path from entry to a return goes through one of the blocks.
func (m *c19sg) mustPass(class int, blocks map[*ssa.BasicBlock]bool) bool {
	if len(blocks) == 0 {
		return false
	}
	for b := range m.classReach(class, blocks) {
		if c19isReturnBlock(b) && !blocks[b] {
			return false
		}
	}
	return true
}

func (c *c19) ruleSkip() {
	ru := c.r.Rule("C19.skip", "ReassembledSG: a gap (skip > 0) is added to SkippedBytes and nothing is appended on that path; skip -1/0 append exactly sg.Fetch(length from sg.Lengths()) and never touch SkippedBytes with -1; HasStart/HasEnd accumulate start/end", 9)
	m := c.sgModel(ru)
	if m == nil {
		return
	}
	k := "ReassembledSG"
	if m.skip == nil {
		ru.Fail(k+":skip-source", c.pos(m.info), "result #3 (skip) of sg.Info() is not used: missing bytes cannot be detected")
		return
	}
	ru.Ok(k+":skip-source", c.pos(m.info), "skip is result #3 of sg.Info()")
	isBase := map[ssa.Value]bool{}
	for _, b := range m.bases {
		isBase[b] = true
	}
	// classify effects
	var acct []*ssa.Store
	var appends, goodAppends []*ssa.Call
	var startSt, endSt []*ssa.Store
	var escapes []string
	fw.EachInstr(m.fn, func(ins ssa.Instruction) {
		switch x := ins.(type) {
		case *ssa.Store:
			if fa, ok := c19fieldOf(x.Addr, m.tdir, "SkippedBytes"); ok && fa != nil {
				acct = append(acct, x)
			}
			if _, ok := c19fieldOf(x.Addr, m.tdir, "HasStart"); ok {
				startSt = append(startSt, x)
			}
			if _, ok := c19fieldOf(x.Addr, m.tdir, "HasEnd"); ok {
				endSt = append(endSt, x)
			}
			if _, ok := c19fieldOf(x.Addr, m.tdir, "Buffer"); ok {
				escapes = append(escapes, "the Buffer field is replaced")
			}
		case *ssa.Call:
			cc := x.Common()
			for i, a := range cc.Args {
				if _, ok := c19loadOfField(c19strip(a), m.tdir, "Buffer"); !ok {
					continue
				}
				name := ""
				if f := cc.StaticCallee(); f != nil && i == 0 && f.Signature.Recv() != nil {
					name = f.Name()
				}
				switch name {
				case "Len", "Cap", "Bytes", "String", "Available":
				case "Write", "WriteString", "WriteByte", "WriteRune", "ReadFrom":
					appends = append(appends, x)
				default:
					escapes = append(escapes, "the direction's Buffer is passed to "+c19calleeName(cc))
				}
			}
		}
	})
	if len(escapes) > 0 {
		ru.Undecided(k+":buffer-use", c.pos(m.fn), strings.Join(escapes, "; ")+": appends can no longer be enumerated")
		return
	}
	// (1) the appended data
	for _, w := range appends {
		cc := w.Common()
		good := cc.StaticCallee().Name() == "Write" && len(cc.Args) == 2
		why := "the stream is extended by " + c19calleeName(cc) + ", not by Write(sg.Fetch(length))"
		if good {
			good = false
			why = "appended data is " + c.sig(cc.Args[1]) + ", expected sg.Fetch(n) with n = first result of sg.Lengths()"
			if f, ok := c19strip(cc.Args[1]).(*ssa.Call); ok && f.Common().IsInvoke() && f.Common().Value == ssa.Value(m.sg) && f.Common().Method.Name() == "Fetch" && len(f.Common().Args) == 1 {
				if m.length != nil && c19strip(f.Common().Args[0]) == m.length {
					good = true
				}
			}
		}
		if good {
			goodAppends = append(goodAppends, w)
		} else {
			ru.Fail(k+":data", c.pos(w), why)
		}
	}
	if len(appends) == 0 {
		ru.Fail(k+":data", c.pos(m.fn), "no append to the direction's Buffer: streams stay empty")
	} else if len(goodAppends) == len(appends) {
		ru.Ok(k+":data", c.pos(appends[0]), "Buffer.Write(sg.Fetch(length)), length = sg.Lengths() #0")
	}
	// (2) accounting value: SkippedBytes = SkippedBytes + skip on the same record
	var goodAcct []*ssa.Store
	for _, st := range acct {
		fa := st.Addr.(*ssa.FieldAddr)
		ok := false
		if bo, isb := c19strip(st.Val).(*ssa.BinOp); isb && bo.Op == token.ADD {
			for _, pr := range [][2]ssa.Value{{bo.X, bo.Y}, {bo.Y, bo.X}} {
				if x, isOld := c19loadOfField(pr[0], m.tdir, "SkippedBytes"); isOld && x == fa.X && c19strip(pr[1]) == m.skip {
					ok = true
				}
			}
		}
		if ok {
			goodAcct = append(goodAcct, st)
		} else {
			ru.Fail(k+":account-value", c.pos(st), "SkippedBytes is set to "+c.sig(st.Val)+", expected the same record's SkippedBytes + skip")
		}
	}
	if len(acct) == 0 {
		ru.Fail(k+":account-value", c.pos(m.fn), "SkippedBytes is never updated: lost data would not be signalled")
	} else if len(goodAcct) == len(acct) {
		ru.Ok(k+":account-value", c.pos(acct[0]), "SkippedBytes += skip")
	}
	blocksOf := func(ins []ssa.Instruction) map[*ssa.BasicBlock]bool {
		out := map[*ssa.BasicBlock]bool{}
		for _, i := range ins {
			out[i.Block()] = true
		}
		return out
	}
	var acctI, goodI []ssa.Instruction
	for _, x := range goodAcct {
		acctI = append(acctI, x)
	}
	for _, x := range goodAppends {
		goodI = append(goodI, x)
	}
	// (3) nothing is appended after a gap was reported
	reachPOS := m.classReach(c19POS, nil)
	bad := ""
	for _, w := range appends {
		if reachPOS[w.Block()] {
			bad = c.pos(w)
		}
	}
	ru.Check(bad == "", k+":gap-no-append", bad, "no Buffer append is reachable when skip > 0", "a Buffer append is reachable when sg.Info() reports missing bytes (skip > 0): data after the hole would be glued to the data before it")
	// (4) the gap is counted on every such path
	ru.Check(m.mustPass(c19POS, blocksOf(acctI)), k+":gap-counted", c.pos(m.fn), "every path with skip > 0 adds skip to SkippedBytes before returning", "a path with skip > 0 returns without adding skip to SkippedBytes: the loss is not signalled")
	// (5) -1 is not a byte count
	reachNEG := m.classReach(c19NEG1, nil)
	bad = ""
	for _, st := range acct {
		if reachNEG[st.Block()] {
			bad = c.pos(st)
		}
	}
	ru.Check(bad == "", k+":start-marker", bad, "SkippedBytes is not updated when skip == -1", "SkippedBytes is updated when skip == -1 (start-of-stream marker): uint64(-1) would be added")
	// (6) contiguous data and unknown-start data are appended
	for _, cl := range []int{c19NEG1, c19ZERO} {
		key := k + ":append-" + map[int]string{c19NEG1: "start", c19ZERO: "contiguous"}[cl]
		ru.Check(m.mustPass(cl, blocksOf(goodI)), key, c.pos(m.fn), "every path with "+c19className[cl]+" appends the fetched bytes", "a path with "+c19className[cl]+" returns without appending sg.Fetch(length): stream bytes are dropped")
	}
	// (7) HasStart / HasEnd
	for _, sp := range []struct {
		name string
		sts  []*ssa.Store
		src  ssa.Value
		what string
	}{{"HasStart", startSt, m.start, "start (sg.Info() #1)"}, {"HasEnd", endSt, m.end, "end (sg.Info() #2)"}} {
		key := k + ":" + sp.name
		if len(sp.sts) == 0 || sp.src == nil {
			ru.Fail(key, c.pos(m.fn), sp.name+" is never set from "+sp.what)
			continue
		}
		okAll := true
		for _, st := range sp.sts {
			if why := c.stickyOr(m, st, sp.name, sp.src); why != "" {
				okAll = false
				ru.Fail(key, c.pos(st), sp.name+" must become old "+sp.name+" OR "+sp.what+": "+why)
			}
		}
		if okAll {
			var si []ssa.Instruction
			for _, st := range sp.sts {
				si = append(si, st)
			}
			m.assumeTrue = sp.src
			ok := m.mustPass(c19NEG1, blocksOf(si)) && m.mustPass(c19ZERO, blocksOf(si))
			m.assumeTrue = nil
			ru.Check(ok, key, c.pos(sp.sts[0]), sp.name+" = "+sp.name+" || "+sp.what+" on every appending path", "a path that appends data with the flag set returns without updating "+sp.name)
		}
	}
}

// stickyOr explains why the store does not implement field = field || src ("" if it does).
func (c *c19) stickyOr(m *c19sg, st *ssa.Store, field string, src ssa.Value) string {
	fa := st.Addr.(*ssa.FieldAddr)
	isOld := func(v ssa.Value) bool {
		x, ok := c19loadOfField(v, m.tdir, field)
		return ok && x == fa.X
	}
	sawSrc, sawOld := false, false
	var use *ssa.BasicBlock
	if _, isPhi := st.Val.(*ssa.Phi); !isPhi {
		use = st.Block()
	}
	for _, lf := range c19leaves(st.Val, use) {
		v := c19strip(lf.v)
		if v == src {
			sawSrc = true
			continue
		}
		if isOld(v) {
			sawOld = true
			continue
		}
		if b, ok := c19constBool(v); ok && b {
			just := false
			for _, cd := range lf.conds {
				if cd.t && cd.v == src {
					sawSrc, just = true, true
				}
				if cd.t && isOld(cd.v) {
					sawOld, just = true, true
				}
			}
			if !just {
				return "it is set to true on a path where neither the old value nor the flag is known to be true"
			}
			continue
		}
		return "it can become " + c.sig(lf.v)
	}
	// a conditional "if src { field = true }" keeps the old value implicitly
	if !sawOld {
		for _, cd := range c19condsAt(st.Block()) {
			if cd.t && cd.v == src {
				sawOld = true
			}
		}
	}
	if !sawSrc {
		return "the flag reported by sg.Info() does not reach it"
	}
	if !sawOld {
		return "the previous value is overwritten (a later segment without the flag would clear it)"
	}
	return ""
}

// ---------------------------------------------------------------------------
// C19.accept

// errFromOptCheck: v is the error of gopacket's TCPOptionCheck.Accept, possibly handed through fq
// helpers that return it unchanged (or nil).
func (c *c19) errFromOptCheck(v ssa.Value, d int) bool {
	if d > 4 {
		return false
	}
	switch x := c19strip(v).(type) {
	case *ssa.Phi:
		for _, e := range x.Edges {
			if k, ok := e.(*ssa.Const); ok && k.Value == nil {
				continue
			}
			if !c.errFromOptCheck(e, d+1) {
				return false
			}
		}
		return len(x.Edges) > 0
	case *ssa.Call:
		cc := x.Common()
		if cc.IsInvoke() {
			return false
		}
		if strings.HasSuffix(c19calleeName(cc), "gopacket/reassembly.TCPOptionCheck).Accept") {
			return true
		}
		f := cc.StaticCallee()
		if f == nil || !fw.InFq(f) || f.Blocks == nil || f.Signature.Results().Len() != 1 {
			return false
		}
		n := 0
		for _, ret := range returnsOf(f) {
			if k, ok := ret.Results[0].(*ssa.Const); ok && k.Value == nil {
				continue
			}
			if !c.errFromOptCheck(ret.Results[0], d+1) {
				return false
			}
			n++
		}
		return n > 0
	}
	return false
}

func (c *c19) ruleAccept() {
	ru := c.r.Rule("C19.accept", "Accept admits a segment exactly when the connection FSM (and the optional option checker) accept it, passing the segment's own direction; ReassemblyComplete keeps the connection", 4)
	fn := getFn(ru, c.p, "(*"+c19FD+".TCPConnection).Accept")
	if fn != nil && len(fn.Params) >= 4 {
		tconn := c.p.NamedType(c19FD, "TCPConnection")
		calls := c19staticCalls(fn, "(*gopacket/reassembly.TCPSimpleFSM).CheckState")
		if len(calls) != 1 {
			ru.Undecided("Accept:CheckState", c.pos(fn), fmt.Sprintf("expected one call of TCPSimpleFSM.CheckState, found %d", len(calls)))
		} else {
			cs := calls[0]
			a := cs.Common().Args
			x, okRecv := c19loadOfField(a[0], tconn, "tcpState")
			ru.Check(okRecv && x == ssa.Value(fn.Params[0]) && a[1] == ssa.Value(fn.Params[1]) && a[2] == ssa.Value(fn.Params[3]),
				"Accept:CheckState-args", c.pos(cs), "t.tcpState.CheckState(tcp, dir)", "CheckState is called as "+c.sig(cs)+", expected the connection's own FSM with the segment and its direction")
			okT, okF := true, true
			nT := 0
			for _, ret := range returnsOf(fn) {
				if len(ret.Results) != 1 {
					continue
				}
				b, isConst := c19constBool(ret.Results[0])
				if !isConst {
					okT = false
					continue
				}
				csTrue, csFalse, other := false, false, false
				for _, cd := range c19condsAt(ret.Block()) {
					if cd.v == ssa.Value(cs) {
						if cd.t {
							csTrue = true
						} else {
							csFalse = true
						}
					} else if bo, ok := cd.v.(*ssa.BinOp); ok && bo.Op == token.NEQ && cd.t {
						// err != nil from the option checker
						if c.errFromOptCheck(bo.X, 0) {
							other = true
						}
					}
				}
				if b {
					nT++
					if !csTrue {
						okT = false
					}
				} else if !(csFalse || other) {
					okF = false
				}
			}
			ru.Check(okT && nT > 0, "Accept:true", c.pos(fn), "returns true only after CheckState accepted", "Accept can return true without CheckState having accepted the segment (or never returns true)")
			ru.Check(okF, "Accept:false", c.pos(fn), "returns false only when CheckState or the option checker rejected", "Accept rejects a segment that the FSM and the option checker accepted")
		}
	}
	rc := getFn(ru, c.p, "(*"+c19FD+".TCPConnection).ReassemblyComplete")
	if rc != nil {
		ok := true
		for _, ret := range returnsOf(rc) {
			b, isConst := c19constBool(ret.Results[0])
			if !isConst || b {
				ok = false
			}
		}
		ru.Check(ok, "ReassemblyComplete:keep", c.pos(rc), "returns false (connection stays in the pool for late/duplicate segments)", "ReassemblyComplete may return true: the connection is dropped from the pool and late or duplicate segments open a second, bogus connection")
	}
}
