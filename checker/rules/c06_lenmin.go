package rules

import (
	"fmt"
	"go/token"
	"go/types"
	"strings"

	"golang.org/x/tools/go/ssa"

	"fqverif/fw"
)

// ---------------------------------------------------------------------------
// C06.lenmin: x[len(x)-k] and x[.. : len(x)-k] need len(x) >= k
//
// "The last element" is written x[len(x)-1]; on an empty x the index is -1 and fq dies. Obligation, for
// every index or slice bound whose polynomial is len(x)-k (k > 0) of the very slice/string it is applied
// to: the dominating guards (failing arm returns or does not continue; the `n > 0 && x[n-1]` short circuit
// counts) prove len(x) >= k, or x has a known constant length >= k, or x is the result of an append of at
// least one element.

var lenMinExceptions = map[string]string{
	"(*format/apple.PosLoopDetector[int64]).Pop[int64]|pld|1":   "Pop is only returned by PushAndPop after the Push of the same detector (stack discipline: every Pop follows its Push)",
	"(*format/apple.PosLoopDetector[uint64]).Pop[uint64]|pld|1": "Pop is only returned by PushAndPop after the Push of the same detector (stack discipline: every Pop follows its Push)",
	"format/mp4.decodeBoxWithParentData|local:ctx.path|1":       "box path stack: starts with the root entry and is only pushed (append) and popped in this function, balanced (stores checked here)",
	"format/mp4.decodeBoxWithParentData|local:ctx.path|2":       "box path stack: the pop of the entry pushed three statements earlier in the same function (stores checked here)",
	"(*format/mp4.decodeContext).parent|ctx.path|1":             "box path stack: parent() is only called from decodeBox, which runs between the push and the pop of decodeBoxWithParentData on a stack that always holds the root entry (stores and callers checked here)",
}

var lenMinExceptionChecks = map[string]func(p *fw.Program) string{
	"format/mp4.decodeBoxWithParentData|local:ctx.path|1": func(p *fw.Program) string { return c06StackFieldDiscipline(p, "format/mp4", "decodeContext", "path") },
	"format/mp4.decodeBoxWithParentData|local:ctx.path|2": func(p *fw.Program) string { return c06StackFieldDiscipline(p, "format/mp4", "decodeContext", "path") },
	"(*format/mp4.decodeContext).parent|ctx.path|1": func(p *fw.Program) string {
		if why := c06StackFieldDiscipline(p, "format/mp4", "decodeContext", "path"); why != "" {
			return why
		}
		return c06OnlyCalledUnder(p, "(*format/mp4.decodeContext).parent", "format/mp4.decodeBox", "format/mp4.decodeBoxWithParentData")
	},
}

func c06LenMin(r *fw.Run, p *fw.Program) {
	ru := r.Rule("C06.lenmin", "an index or slice bound written len(x)-k (k > 0) on x itself is dominated by a proof of len(x) >= k (guards whose failing arm does not continue, short-circuit tests, constant length, result of append): on a shorter x the operand is negative and fq dies (decoder packages, pkg/decode, internal/recoverfn)", 10)
	for _, fn := range p.FqFunctions() {
		if pr := pkgRel(fn); (!c06DecodePkg(pr) && pr != "internal/recoverfn") || !linkedPackages(p)[fw.FnPkgPath(fn)] || pr == "format/tls/tlsdecrypt" {
			continue
		}
		var env *fw.PolyEnv
		var ienv *fw.IntervalEnv
		ord := 0
		fw.EachInstr(fn, func(ins ssa.Instruction) {
			var xs ssa.Value
			var ops []ssa.Value
			switch y := ins.(type) {
			case *ssa.IndexAddr:
				xs, ops = y.X, []ssa.Value{y.Index}
			case *ssa.Index:
				xs, ops = y.X, []ssa.Value{y.Index}
			case *ssa.Slice:
				xs, ops = y.X, []ssa.Value{y.Low, y.High}
			default:
				return
			}
			switch xs.Type().Underlying().(type) {
			case *types.Slice, *types.Basic:
			default:
				return
			}
			for _, v := range ops {
				if v == nil {
					continue
				}
				if _, isC := v.(*ssa.Const); isC {
					continue
				}
				if env == nil {
					env = c06NewPolyEnv(fn)
					ienv = fw.NewIntervalEnv(fn)
				}
				la, path := c06LenAtom(env, xs)
				c, isConst := fw.StripVersions(env.Of(v)).Sub(la).IsConst()
				if !isConst || c >= 0 {
					continue
				}
				k := -c
				ord++
				kpath := path
				if _, isPath := fw.AccessPath(xs); !isPath {
					kpath = "expr"
				}
				key := fmt.Sprintf("%s|%s|%d", fw.ShortFn(fn), kpath, ord)
				ok := false
				why := ""
				if n, known := constLenOf(xs); known && n >= k {
					ok, why = true, "constant length"
				}
				if !ok && c06AppendedAtLeast(xs, k, 0) {
					ok, why = true, "result of an append"
				}
				if !ok {
					want := fw.Cmp{P: la.Sub(fw.PConst(k)), Rel: fw.GE}
					for _, f := range c06Facts(env, ins.Block()) {
						f.P = fw.StripVersions(f.P)
						if f.Implies(want) || (k == 1 && f.Implies(fw.Cmp{P: la, Rel: fw.NE})) {
							ok, why = true, "dominating length test"
						}
					}
				}
				if !ok {
					// the operand itself proved >= 0 (n := len(x); if n > 0 ... x[n-1])
					if c06ProvedNonNeg(ienv, v, ins.Block()) {
						ok, why = true, "operand proved >= 0"
					}
				}
				if ok {
					ru.Ok(key, p.Rel(ins.Pos()), why)
					continue
				}
				if reason, has := lenMinExceptions[key]; has {
					if chk := lenMinExceptionChecks[key]; chk != nil {
						if bad := chk(p); bad != "" {
							ru.Fail(key, p.Rel(ins.Pos()), "the exception for this operand ("+reason+") no longer holds: "+bad)
							continue
						}
					}
					ru.Except(key, p.Rel(ins.Pos()), reason)
					continue
				}
				ru.Fail(key, p.Rel(ins.Pos()), fmt.Sprintf("operand len(%s)-%d with no dominating proof that %s has at least %d element(s): on a shorter value the operand is negative (index / slice bounds out of range kills fq)", kpath, k, kpath, k))
			}
		})
	}
}

// c06AppendedAtLeast: v is append(s, e1..ek) with at least k elements (or a load of a local whose every
// store is such a value).
func c06AppendedAtLeast(v ssa.Value, k int64, depth int) bool {
	if depth > 3 {
		return false
	}
	switch x := v.(type) {
	case *ssa.UnOp:
		// a load that follows, in the same block, a store of an append result to the same place
		if x.Op != token.MUL {
			return false
		}
		want, ok := c06PlaceName(x.X)
		if !ok {
			return false
		}
		b := x.Block()
		var last *ssa.Store
		for _, ins := range b.Instrs {
			if ins == ssa.Instruction(x) {
				break
			}
			switch y := ins.(type) {
			case *ssa.Store:
				if nm, ok := c06PlaceName(y.Addr); ok && nm == want {
					last = y
				}
			case ssa.CallInstruction:
				if _, isB := y.Common().Value.(*ssa.Builtin); !isB {
					last = nil // a call may change the place
				}
			}
		}
		return last != nil && c06AppendedAtLeast(last.Val, k, depth+1)
	case *ssa.Call:
		if !fw.IsBuiltinCall(x, "append") || len(x.Common().Args) != 2 {
			return false
		}
		// variadic slice built from a fixed array
		if sl, ok := x.Common().Args[1].(*ssa.Slice); ok {
			if pt, ok := sl.X.Type().Underlying().(*types.Pointer); ok {
				if at, ok := pt.Elem().Underlying().(*types.Array); ok && sl.Low == nil && sl.High == nil {
					return at.Len() >= k
				}
			}
		}
	}
	return false
}

// c06PlaceName: a name for an address (access path, or structural path through element pointers).
func c06PlaceName(addr ssa.Value) (string, bool) {
	if ap, ok := fw.AccessPath(addr); ok {
		return strings.TrimPrefix(ap, "local:"), true
	}
	return c06StructPath(addr, 0)
}

// c06StackFieldDiscipline: every store to field <typ>.<field> in the package is a non-empty slice
// literal, an append of at least one element to the field, or the pop f[0:len(f)-1] in a function that
// also pushes (append) before it. "" when so.
func c06StackFieldDiscipline(p *fw.Program, pkg, typ, field string) string {
	n := 0
	bad := ""
	for _, fn := range p.FqFunctions() {
		if pkgRel(fn) != pkg {
			continue
		}
		hasPush := false
		var pops []*ssa.Store
		fw.EachInstr(fn, func(ins ssa.Instruction) {
			st, ok := ins.(*ssa.Store)
			if !ok {
				return
			}
			fa, ok := st.Addr.(*ssa.FieldAddr)
			if !ok || fieldNameOf(fa.X.Type(), fa.Field) != field || !strings.HasSuffix(shortType(fa.X.Type()), pkg[strings.LastIndex(pkg, "/")+1:]+"."+typ) {
				return
			}
			n++
			if ln, known := constLenOf(st.Val); known && ln >= 1 {
				return
			}
			if c, ok := st.Val.(*ssa.Call); ok && fw.IsBuiltinCall(c, "append") && c06AppendedAtLeast(c, 1, 0) {
				hasPush = true
				return
			}
			if sl, ok := st.Val.(*ssa.Slice); ok && sl.High != nil {
				pops = append(pops, st)
				return
			}
			bad = "store to " + typ + "." + field + " in " + fw.ShortFn(fn) + " that is neither a non-empty literal, a push nor a pop"
		})
		if len(pops) > 0 && !hasPush {
			bad = fw.ShortFn(fn) + " pops " + typ + "." + field + " without pushing"
		}
		if len(pops) > 1 {
			bad = fw.ShortFn(fn) + " pops " + typ + "." + field + " more than once"
		}
	}
	if bad != "" {
		return bad
	}
	if n == 0 {
		return "no stores to " + typ + "." + field + " found"
	}
	return ""
}

// c06OnlyCalledUnder: every static caller of fn (through same-package helpers, up to 3 levels) is inside
// the function `inside` (closures included), and `inside` is only called from `outer` (closures included).
func c06OnlyCalledUnder(p *fw.Program, fn, inside, outer string) string {
	f, in, out := p.Fn(fn), p.Fn(inside), p.Fn(outer)
	if f == nil || in == nil || out == nil {
		return "function not found: " + fn + " / " + inside + " / " + outer
	}
	var chk func(g *ssa.Function, depth int) string
	chk = func(g *ssa.Function, depth int) string {
		cs := callersOf(p, g)
		if len(cs) == 0 {
			return ""
		}
		for _, c := range cs {
			caller := fw.Top(c.Parent())
			if caller == in {
				continue
			}
			if depth < 3 && caller.Pkg == f.Pkg && caller != g {
				if why := chk(caller, depth+1); why != "" {
					return why
				}
				continue
			}
			return fw.ShortFn(g) + " is also called from " + fw.ShortFn(c.Parent())
		}
		return ""
	}
	if why := chk(f, 0); why != "" {
		return why
	}
	for _, c := range callersOf(p, in) {
		if fw.Top(c.Parent()) != out {
			return fw.ShortFn(in) + " is also called from " + fw.ShortFn(c.Parent())
		}
	}
	return ""
}
