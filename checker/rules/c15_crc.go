package rules

import (
	"fmt"
	"go/token"
	"strings"

	"golang.org/x/tools/go/ssa"

	"fqverif/fw"
)

// ---------------------------------------------------------------------------
// C15.crc: the arithmetic of pkg/checksum (table construction, register update per width, Sum
// emitting the register most significant byte first, the IPv4 one's complement sum), the four
// table constants, bzip2's bit-reversing reader, and UintAssertBytes decoding candidates
// big-endian per length. Compared as small facts (stored value, branch condition, returned
// bytes) in the same normal form as the layout tables; see c15_crctable.go.

func c15Crc(r *fw.Run, p *fw.Program) {
	ru := r.Rule("C15.crc", "pkg/checksum: MakeTable/Write/Sum of the table-driven CRC for 8/16/32 bits (shifts, masks, top-bit test, 8 rounds, MSB-first Sum), the four polynomial tables, IPv4 sum (lane shift, carry fold, complement), bzip2 bit-reversing reader; decode.UintAssertBytes decodes candidates of length 1/2/4/8 big-endian for every Endian (all callers pass hash.Sum bytes, C15.sum)", 55)
	w := newC15World(p)
	w.branches = true
	c15CompareTable(ru, nil, p, w, c15CrcTable)

	// UintAssertBytes: actual == decoded candidate, decoding per length
	fn := getFn(ru, p, "pkg/decode.UintAssertBytes")
	if fn == nil {
		return
	}
	f := w.fam(fn)
	var cmp *ssa.BinOp
	fw.EachInstr(fn, func(ins ssa.Instruction) {
		if bo, ok := ins.(*ssa.BinOp); ok && bo.Op == token.EQL {
			if _, ok := bo.Y.(*ssa.Phi); ok {
				cmp = bo
			} else if _, ok := bo.X.(*ssa.Phi); ok {
				cmp = bo
			}
		}
	})
	if cmp == nil {
		ru.Undecided("pkg/decode.UintAssertBytes|compare", p.Rel(fn.Pos()), "comparison of the actual value with the decoded candidate not found")
		return
	}
	phi, _ := cmp.Y.(*ssa.Phi)
	if phi == nil {
		phi = cmp.X.(*ssa.Phi)
	}
	want := map[string]string{
		"1": "elem(param3)[0]",
		"2": "binary.BigEndian.Uint16(elem(param3))",
		"4": "binary.BigEndian.Uint32(elem(param3))",
		"8": "binary.BigEndian.Uint64(elem(param3))",
	}
	got := map[string]string{}
	for i, e := range phi.Edges {
		pred := phi.Block().Preds[i]
		k := ""
		for _, g := range append(fw.Guards(pred), edgeGuard(pred, phi.Block())...) {
			g = g.Normalize()
			bo, ok := g.Cond.(*ssa.BinOp)
			if !ok || bo.Op != token.EQL || !g.True {
				continue
			}
			if c, ok := bo.Y.(*ssa.Const); ok && strings.HasPrefix(f.expr(bo.X), "len(") {
				k = c.Value.ExactString()
			}
		}
		if k == "" {
			ru.Fail("pkg/decode.UintAssertBytes|decode:?", p.Rel(phi.Pos()), "a candidate decoding is not selected by len(bs)==k: "+f.expr(e))
			continue
		}
		got[k] = f.expr(e)
	}
	for _, k := range fw.SortedKeys(want) {
		ru.Check(got[k] == want[k], "pkg/decode.UintAssertBytes|decode:"+k, p.Rel(phi.Pos()), got[k],
			fmt.Sprintf("a %s-byte candidate is decoded as %q, expected %q: the expected bytes are always hash.Sum output (most significant byte first) for both endians, the field's own byte order is already folded into the value read", k, got[k], want[k]))
	}
	for _, k := range fw.SortedKeys(got) {
		if _, ok := want[k]; !ok {
			ru.Fail("pkg/decode.UintAssertBytes|decode:"+k, p.Rel(phi.Pos()), "unexpected candidate length "+k)
		}
	}
}

// edgeGuard: the outcome of pred's own If when control flows pred -> succ.
func edgeGuard(pred, succ *ssa.BasicBlock) []fw.Guard {
	ifi, ok := pred.Instrs[len(pred.Instrs)-1].(*ssa.If)
	if !ok || len(pred.Succs) != 2 || pred.Succs[0] == pred.Succs[1] {
		return nil
	}
	return []fw.Guard{{Cond: ifi.Cond, True: pred.Succs[0] == succ, If: ifi}}
}
