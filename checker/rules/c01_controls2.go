package rules

// Positive controls for the C01 rules added/strengthened in the second self-review
// (c01_more.go, c01_more2.go, and the extended C01.clone / C01.ahead).

func init() {
	sec, mul, lim := "pkg/bitio/sectiontreader.go", "pkg/bitio/multireader.go", "pkg/bitio/limitreader.go"
	ibr, ior, irs, ibw := "pkg/bitio/iobitreadseeker.go", "pkg/bitio/ioreader.go", "pkg/bitio/ioreadseeker.go", "pkg/bitio/iobitwriter.go"
	buf, bio := "pkg/bitio/buffer.go", "pkg/bitio/bitio.go"
	ahd, prg, ctx := "internal/aheadreadseeker/aheadreadseeker.go", "internal/progressreadseeker/progressreaderseeker.go", "internal/ctxreadseeker/ctxreadseeker.go"
	type ctl struct{ id, rule, file, old, new, expect string }
	for _, c := range []ctl{
		// C01.ctor
		{"ctor-section-limit", "C01.ctor", sec, "bitLimit: bitOff + nBits,", "bitLimit: nBits,", "NewSectionReader:bitLimit"},
		{"ctor-section-cursor", "C01.ctor", sec, "\t\tbitOff:   bitOff,\n", "", "NewSectionReader:bitOff"},
		{"ctor-bitreader-swapped", "C01.ctor", bio, "\t\t0,\n\t\tnBits,\n\t)", "\t\tnBits,\n\t\t0,\n\t)", "NewBitReader:start"},
		{"ctor-ahead-state", "C01.ctor", ahd, "\t\tminRead: minRead,\n", "\t\tminRead: minRead,\n\t\tcacheUsed: minRead,\n", "aheadreadseeker.New:cacheUsed"},
		// C01.multi
		{"multi-ends-not-cumulative", "C01.multi", mul, "esSum += e", "esSum = e", "New:ends-sum"},
		{"multi-ends-order", "C01.multi", mul, "\t\tesSum += e\n\t\treaderEnds[i] = esSum\n", "\t\treaderEnds[i] = esSum\n\t\tesSum += e\n", "New:ends-sum"},
		{"multi-early-eof", "C01.multi", mul, "if end <= bitOff {", "if end < bitOff {", "ReadBitsAt:early-eof"},
		{"multi-no-break", "C01.multi", mul, "\t\t\treaderAt = m.readers[i]\n\t\t\tbreak\n", "\t\t\treaderAt = m.readers[i]\n", "ReadBitsAt:pick"},
		{"multi-prev-accumulates", "C01.multi", mul, "\t\tprevAtEnd = end\n", "\t\tprevAtEnd += end\n", "ReadBitsAt:rebase"},
		{"multi-endpos-restore", "C01.multi", mul, "_, err = rs.SeekBits(c, io.SeekStart)", "_, err = rs.SeekBits(c, io.SeekCurrent)", "endPos:restore"},
		{"multi-endpos-whence", "C01.multi", mul, "e, err := rs.SeekBits(0, io.SeekEnd)", "e, err := rs.SeekBits(0, io.SeekStart)", "endPos:end"},
		{"multi-seek-end-first", "C01.multi", mul, "func (m *MultiReader) SeekBits(bitOff int64, whence int) (int64, error) {\n\tvar p int64\n\tvar end int64\n\tif len(m.readers) > 0 {\n\t\tend = m.readerEnds[len(m.readers)-1]", "func (m *MultiReader) SeekBits(bitOff int64, whence int) (int64, error) {\n\tvar p int64\n\tvar end int64\n\tif len(m.readers) > 0 {\n\t\tend = m.readerEnds[0]", "SeekBits:end"},
		// C01.fetch
		{"fetch-copy-unaligned", "C01.fetch", ibr, "if readSkipBits == 0 && nBits%8 == 0 {", "if nBits%8 == 0 {", "copy:aligned"},
		{"fetch-copy-from", "C01.fetch", ibr, "copy(p[0:readBytes], r.buf[0:readBytes])", "copy(p[0:readBytes], r.buf[1:readBytes])", "copy:from-start"},
		{"fetch-last-shift", "C01.fetch", ibr, "<< (8 - restBits)", "<< (7 - restBits)", "extract:last"},
		{"fetch-last-count", "C01.fetch", ibr, "Read64(r.buf, readSkipBits+nBytes*8, restBits)", "Read64(r.buf, readSkipBits+nBytes*8, 8)", "extract:last"},
		{"fetch-loop-start", "C01.fetch", ibr, "for i := int64(0); i < nBytes; i++ {", "for i := int64(1); i < nBytes; i++ {", "extract:bytes"},
		{"fetch-short-is-error", "C01.fetch", ibr, "if err != nil && !errors.Is(err, io.ErrUnexpectedEOF) {", "if err != nil && !errors.Is(err, io.EOF) {", "short:passthrough"},
		// C01.bytes
		{"bytes-reader-whole", "C01.bytes", ior, "aBits := bBits - bBits%8", "aBits := bBits", "whole:multiple"},
		{"bytes-reader-noclamp", "C01.bytes", ior, "\t\t\tif rBits > aBits {\n\t\t\t\trBits = aBits\n\t\t\t}\n", "\t\t\t_ = aBits\n", "whole:bounded"},
		{"bytes-reader-last-zero", "C01.bytes", ior, "\t\t\t\treturn 1, r.rErr\n", "\t\t\t\treturn 0, r.rErr\n", "final:bytes"},
		{"bytes-reader-last-empty", "C01.bytes", ior, "errors.Is(r.rErr, io.EOF) && r.b.Len() > 0 {", "errors.Is(r.rErr, io.EOF) && r.b.Len() >= 0 {", "final:nonempty"},
		{"bytes-writer-whole", "C01.bytes", ibw, "w.b.ReadBits(buf[:], l-(l%8))", "w.b.ReadBits(buf[:], l)", "IOBitWriter.WriteBits:take1"},
		{"bytes-writer-fast-path", "C01.bytes", ibw, "\tif n, err = w.b.WriteBits(p, nBits); err != nil {", "\tif nBits > 0 && nBits%8 == 0 {\n\t\twn, wErr := w.w.Write(p[:nBits/8])\n\t\treturn int64(wn) * 8, wErr\n\t}\n\tif n, err = w.b.WriteBits(p, nBits); err != nil {", "from-carry"},
		{"bytes-writer-flush", "C01.bytes", ibw, "\t_, err = w.w.Write(buf[:])\n\n\treturn err", "\t_, err = w.w.Write(buf[:0])\n\n\treturn err", "IOBitWriter.Flush:take1:final:bytes"},
		// C01.ioseek
		{"ioseek-read-advance", "C01.ioseek", irs, "\tr.sPos += int64(n)\n", "", "Read:advance"},
		{"ioseek-sticky-error", "C01.ioseek", irs, "\tr.rErr = nil\n", "", "Seek:forget-error"},
		{"ioseek-test-without-buffered", "C01.ioseek", irs, "if n != r.sPos*8+r.b.Len() {", "if n != r.sPos*8 {", "Seek:changed-test"},
		{"ioseek-current-forwarded", "C01.ioseek", irs, "\t\tbitOffset -= r.b.Len()\n", "", "Seek:current"},
		{"ioseek-no-discard", "C01.ioseek", irs, "\t\tr.b.Reset()\n", "", "Seek:discard"},
		// C01.bufstate
		{"bufstate-grow-loses-bits", "C01.bufstate", buf, "\t\t\tcopy(buf, b.buf)\n", "", "WriteBits:grow"},
		{"bufstate-need", "C01.bufstate", buf, "tBytes := BitsByteCount(b.bufBits + nBits)", "tBytes := BitsByteCount(b.bufBits) + nBits/8", "WriteBits:need"},
		{"bufstate-reset", "C01.bufstate", buf, "\tb.bufBits = 0\n\tb.bitsOff = 0\n", "\tb.bufBits = 0\n", "Reset:both"},
		{"bufstate-empty", "C01.bufstate", buf, "return b.bufBits <= b.bitsOff", "return b.bufBits < b.bitsOff", "ReadBits:nonempty"},
		{"bufstate-bits-alloc", "C01.bufstate", buf, "buf := make([]byte, BitsByteCount(l))", "buf := make([]byte, l/8)", "Bits:alloc"},
		// C01.count
		{"count-floor", "C01.count", bio, "\tif nBits%8 != 0 {\n\t\tn++\n\t}\n\treturn n", "\treturn n", "BitsByteCount"},
		{"count-inverted", "C01.count", bio, "\tn := nBits / 8\n\tif nBits%8 != 0 {", "\tn := nBits / 8\n\tif nBits%8 == 0 {", "BitsByteCount"},
		// C01.copy
		{"copy-after-error", "C01.copy", bio, "\t\tif rBits > 0 {", "\t\tif rBits > 0 && rErr == nil {", "write-before-error"},
		{"copy-count", "C01.copy", bio, "dst.WriteBits(buf, rBits)", "dst.WriteBits(buf, int64(len(buf))*8)", "write"},
		// C01.stitch
		{"stitch-direct-offset", "C01.stitch", bio, "fn(p[byteOffset:], nBits-readBitOffset, bitOff+readBitOffset)", "fn(p[byteOffset:], nBits-readBitOffset, bitOff)", "direct1:offset"},
		{"stitch-direct-count", "C01.stitch", bio, "fn(p[byteOffset:], nBits-readBitOffset, bitOff+readBitOffset)", "fn(p[byteOffset:], nBits, bitOff+readBitOffset)", "direct1:count"},
		{"stitch-partial-place", "C01.stitch", bio, "Write64(uint64(pb[0]>>(8-rBits)), rBits, p, readBitOffset)", "Write64(uint64(pb[0]>>(7-rBits)), rBits, p, readBitOffset)", "partial1:place"},
		{"stitch-partial-count", "C01.stitch", bio, "if partialByteBitsLeft == 0 || leftBits < readBits {", "if partialByteBitsLeft == 0 || leftBits > readBits {", "partial1:count"},
		{"stitch-error-count", "C01.stitch", bio, "\t\t\tif err != nil {\n\t\t\t\treturn readBitOffset, err\n\t\t\t}\n\n\t\t\tcontinue", "\t\t\tif err != nil {\n\t\t\t\treturn 0, err\n\t\t\t}\n\n\t\t\tcontinue", "partial1:error"},
		{"stitch-wrapper-offset", "C01.stitch", bio, "return readFull(p, nBits, bitOff, func", "return readFull(p, nBits, 0, func", "ReadAtFull"},
		// C01.passthru
		{"passthru-progress-whence", "C01.passthru", prg, "prs.rs.Seek(offset, whence)", "prs.rs.Seek(offset, io.SeekStart)", "progressreadseeker.Reader).Seek"},
		{"passthru-progress-count", "C01.passthru", prg, "\tprs.pos = newPos\n\n\treturn n, err", "\tprs.pos = newPos\n\n\treturn len(p), err", "progressreadseeker.Reader).Read"},
		{"passthru-ctx-whence", "C01.passthru", ctx, "n, sErr = r.rs.Seek(offset, whence)", "n, sErr = r.rs.Seek(offset, io.SeekStart)", "ctxreadseeker.Reader).Seek"},
		{"passthru-ctx-slice", "C01.passthru", ctx, "n, rErr = r.rs.Read(p)", "n, rErr = r.rs.Read(p[:len(p)/2])", "ctxreadseeker.Reader).Read"},
		// extended existing rules
		{"clone-limit-shares-reader", "C01.clone", lim, "return &LimitReader{r: rc, n: r.n}, nil", "_ = rc\n\treturn &LimitReader{r: r.r, n: r.n}, nil", "LimitReader).CloneReader:r"},
		{"ahead-current-delegated", "C01.ahead", ahd, "\tcase io.SeekCurrent:\n\t\tabsOff = r.offset + offset\n\tcase io.SeekEnd:\n", "\tcase io.SeekCurrent, io.SeekEnd:\n", "not-current"},
		{"drain-unclamped", "C01.drain", ibw, "min(l-(l%8), int64(len(buf))*8)", "l-(l%8)", "IOBitWriter).WriteBits#1"},
		{"ahead-bypass-read", "C01.ahead", ahd, "\t\treadBytes := max(len(p), r.minRead)\n", "\t\tif len(p) >= r.minRead {\n\t\t\tn, err := r.rs.Read(p)\n\t\t\tr.offset += int64(n)\n\t\t\treturn n, err\n\t\t}\n\t\treadBytes := max(len(p), r.minRead)\n", "Read:single-reader"},
		{"readat-conditional-seek", "C01.readat", ibr, "\t_, err := r.rs.Seek(readBytePos, io.SeekStart)\n\tif err != nil {\n\t\treturn 0, err\n\t}\n", "\tvar err error\n\tif readBytePos != r.bitPos/8 {\n\t\tif _, err = r.rs.Seek(readBytePos, io.SeekStart); err != nil {\n\t\t\treturn 0, err\n\t\t}\n\t}\n", "ReadBitsAt:read#1:positioned"},
		{"ahead-hit-no-advance", "C01.ahead", ahd, "\t\t\tr.offset += copyLen\n", "", "Read:hit-advance"},
		{"ahead-hit-return", "C01.ahead", ahd, "return int(copyLen), nil", "return int(d), nil", "Read:hit-return"},
	} {
		AddControl(Control{ID: "c01r-" + c.id, Prop: "C01", Rule: c.rule, File: c.file, Old: c.old, New: c.new, ExpectKey: c.expect})
	}
}
