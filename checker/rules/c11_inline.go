package rules

// Inlining of local (nested) jq definitions.
//
// The jq-side rules of C11 read the body of a definition as a pipeline of stages. A stage — or a
// part of one — may be extracted into a local helper (`def f: def h: …; … h …;`) without changing
// what the definition computes: a jq closure takes its input at the point of the call and sees the
// variables of the point of its definition. c11Inline undoes such extractions on a private copy of
// the definition: every call of a non-recursive local definition is replaced by its parenthesised
// body (closure parameters by the parenthesised argument, `$x` parameters by `arg as $x | body`),
// provided no variable would change its meaning on the way. Recursive helpers and anything that
// would capture a variable stay as they are, so the rules see exactly what they saw before.

import (
	"encoding/json"
	"strings"

	"github.com/wader/gojq"

	"fqverif/fw"
)

func c11CopyQuery(q *gojq.Query) *gojq.Query {
	if q == nil {
		return nil
	}
	b, err := json.Marshal(q)
	if err != nil {
		return nil
	}
	var out gojq.Query
	if err := json.Unmarshal(b, &out); err != nil {
		return nil
	}
	return &out
}

func c11CopyFuncDef(fd *gojq.FuncDef) *gojq.FuncDef {
	b, err := json.Marshal(fd)
	if err != nil {
		return nil
	}
	var out gojq.FuncDef
	if err := json.Unmarshal(b, &out); err != nil {
		return nil
	}
	return &out
}

// c11BoundNames: every `$name` bound anywhere under n (patterns, `$x` parameters of nested defs).
func c11BoundNames(n any, out map[string]bool) {
	fw.WalkJQ(n, func(x any) bool {
		switch y := x.(type) {
		case *gojq.Pattern:
			if y.Name != "" {
				out[y.Name] = true
			}
			for _, o := range y.Object {
				if o.Val == nil && strings.HasPrefix(o.Key, "$") {
					out[o.Key] = true
				}
			}
		case *gojq.FuncDef:
			for _, a := range y.Args {
				if strings.HasPrefix(a, "$") {
					out[a] = true
				}
			}
		}
		return true
	}, false)
}

// c11UsedVars: every `$name` read anywhere under n.
func c11UsedVars(n any, out map[string]bool) {
	fw.WalkJQ(n, func(x any) bool {
		switch y := x.(type) {
		case *gojq.Func:
			if strings.HasPrefix(y.Name, "$") {
				out[y.Name] = true
			}
		case *gojq.ObjectKeyVal:
			if y.Val == nil && strings.HasPrefix(y.Key, "$") {
				out[y.Key] = true
			}
		}
		return true
	}, false)
}

func c11Intersects(a, b map[string]bool) bool {
	for k := range a {
		if b[k] {
			return true
		}
	}
	return false
}

// c11Inline returns the definition with its inlinable local definitions inlined (the same pointer
// when there is nothing to do).
func c11Inline(fd *gojq.FuncDef) *gojq.FuncDef {
	has := false
	fw.WalkJQ(fd.Body, func(x any) bool {
		if q, ok := x.(*gojq.Query); ok && len(q.FuncDefs) > 0 {
			has = true
		}
		return !has
	}, false)
	if !has {
		return fd
	}
	cp := c11CopyFuncDef(fd)
	if cp == nil || cp.Body == nil {
		return fd
	}
	changed := false
	for round := 0; round < 8; round++ {
		if !c11InlineOnce(cp) {
			break
		}
		changed = true
	}
	if !changed {
		return fd
	}
	return cp
}

func c11InlineOnce(root *gojq.FuncDef) bool {
	// names defined more than once anywhere (shadowing) are left alone
	defCount := map[string]int{}
	fw.WalkJQ(root.Body, func(x any) bool {
		if d, ok := x.(*gojq.FuncDef); ok {
			defCount[fw.JQFuncKey(&gojq.Func{Name: d.Name, Args: make([]*gojq.Query, len(d.Args))})]++
		}
		return true
	}, false)
	params := map[string]bool{}
	for _, a := range root.Args {
		params[strings.TrimPrefix(a, "$")] = true
	}
	var host *gojq.Query
	var local *gojq.FuncDef
	fw.WalkJQ(root.Body, func(x any) bool {
		if host != nil {
			return false
		}
		q, ok := x.(*gojq.Query)
		if !ok {
			return true
		}
		for _, l := range q.FuncDefs {
			if c11Inlinable(root, q, l, defCount, params) {
				host, local = q, l
				return false
			}
		}
		return true
	}, false)
	if host == nil {
		return false
	}
	arity := len(local.Args)
	subst := func(n any) {
		fw.WalkJQ(n, func(x any) bool {
			t, ok := x.(*gojq.Term)
			if !ok || t.Type != gojq.TermTypeFunc || t.Func == nil || t.Func.Name != local.Name || len(t.Func.Args) != arity {
				return true
			}
			body := c11CopyQuery(local.Body)
			args := t.Func.Args
			// closure parameters: textual substitution of the parenthesised argument
			for i, a := range local.Args {
				if strings.HasPrefix(a, "$") {
					continue
				}
				arg := args[i]
				fw.WalkJQ(body, func(y any) bool {
					pt, ok := y.(*gojq.Term)
					if ok && pt.Type == gojq.TermTypeFunc && pt.Func != nil && pt.Func.Name == a && len(pt.Func.Args) == 0 {
						pt.Type, pt.Func, pt.Query = gojq.TermTypeQuery, nil, c11CopyQuery(arg)
						return false
					}
					return true
				}, false)
			}
			// value parameters: arg as $x | body, innermost last; an argument that is a constant or a
			// path from a variable has one value whatever `.` is and is substituted in place
			for i := len(local.Args) - 1; i >= 0; i-- {
				a := local.Args[i]
				if !strings.HasPrefix(a, "$") {
					continue
				}
				if c11InputFree(args[i]) && !c11HasShorthand(body, a) {
					arg := args[i]
					fw.WalkJQ(body, func(y any) bool {
						pt, ok := y.(*gojq.Term)
						if ok && pt.Type == gojq.TermTypeFunc && pt.Func != nil && pt.Func.Name == a && len(pt.Func.Args) == 0 {
							pt.Type, pt.Func, pt.Query = gojq.TermTypeQuery, nil, c11CopyQuery(arg)
							return false
						}
						return true
					}, false)
					continue
				}
				body = &gojq.Query{Term: &gojq.Term{Type: gojq.TermTypeQuery, Query: c11CopyQuery(args[i]),
					SuffixList: []*gojq.Suffix{{Bind: &gojq.Bind{Patterns: []*gojq.Pattern{{Name: a}}, Body: body}}}}}
			}
			t.Type, t.Func, t.Query = gojq.TermTypeQuery, nil, body
			return false
		}, false)
	}
	var keep []*gojq.FuncDef
	for _, l := range host.FuncDefs {
		if l == local {
			continue
		}
		subst(l)
		keep = append(keep, l)
	}
	host.FuncDefs = keep
	subst(host.Term)
	subst(host.Left)
	subst(host.Right)
	return true
}

func c11Inlinable(root *gojq.FuncDef, host *gojq.Query, l *gojq.FuncDef, defCount map[string]int, params map[string]bool) bool {
	key := fw.JQFuncKey(&gojq.Func{Name: l.Name, Args: make([]*gojq.Query, len(l.Args))})
	if l.Body == nil || defCount[key] != 1 || (len(l.Args) == 0 && params[l.Name]) {
		return false
	}
	// not recursive, and no local definitions of its own that call it
	for _, f := range fw.JQCalls(l.Body) {
		if f.Name == l.Name && len(f.Args) == len(l.Args) {
			return false
		}
	}
	// a closure parameter that is itself called with arguments, or shadowed inside the body
	for _, a := range l.Args {
		if strings.HasPrefix(a, "$") {
			// `$x` parameters may also be called as closure x
			for _, f := range fw.JQCalls(l.Body) {
				if f.Name == a[1:] && len(f.Args) == 0 {
					return false
				}
			}
			continue
		}
		if defCount[a+"/0"] > 0 {
			return false
		}
		shadow := false
		fw.WalkJQ(l.Body, func(x any) bool {
			if d, ok := x.(*gojq.FuncDef); ok {
				for _, da := range d.Args {
					shadow = shadow || da == a
				}
			}
			return true
		}, false)
		if shadow {
			return false
		}
	}
	// variables: what the body reads must not be rebound between the definition and its calls, and
	// what the arguments read must not be rebound inside the body
	bodyUses, bodyBinds := map[string]bool{}, map[string]bool{}
	c11UsedVars(l.Body, bodyUses)
	c11BoundNames(l.Body, bodyBinds)
	paramNames := map[string]bool{}
	for _, a := range l.Args {
		if strings.HasPrefix(a, "$") {
			delete(bodyUses, a)
			paramNames[a] = true
		}
	}
	for v := range bodyBinds {
		delete(bodyUses, v)
	}
	hostBinds := map[string]bool{}
	rest := &gojq.Query{Term: host.Term, Left: host.Left, Op: host.Op, Right: host.Right}
	c11BoundNames(rest, hostBinds)
	for _, o := range host.FuncDefs {
		if o != l {
			c11BoundNames(o, hostBinds)
		}
	}
	if c11Intersects(bodyUses, hostBinds) {
		return false
	}
	argUses := map[string]bool{}
	allInputFree := true
	scan := func(n any) {
		fw.WalkJQ(n, func(x any) bool {
			if f, ok := x.(*gojq.Func); ok && f.Name == l.Name && len(f.Args) == len(l.Args) {
				for i, a := range f.Args {
					c11UsedVars(a, argUses)
					if strings.HasPrefix(l.Args[i], "$") && !(c11InputFree(a) && !c11HasShorthand(l.Body, l.Args[i])) {
						allInputFree = false
					}
				}
			}
			return true
		}, false)
	}
	scan(rest)
	for _, o := range host.FuncDefs {
		if o != l {
			scan(o)
		}
	}
	// value arguments bound with `as` nest: a later argument must not read a name an earlier parameter binds
	if !allInputFree && c11Intersects(argUses, paramNames) {
		return false
	}
	return !c11Intersects(argUses, bodyBinds)
}

// c11Anchors: definitions the rules of C11 address by name; they are never inlined into a caller.
var c11Anchors = map[string]bool{
	"_eval_query_rewrite": true, "eval": true, "_eval": true, "_repl": true, "_repl_eval": true, "_cli_eval": true,
	"_repl_slurp_eval": true, "_main": true, "_repl_slurp": true, "_slurp": true, "_help_slurp": true, "from_jq": true,
}

// fileHelpers: top-level definitions of d's own file that exist only for d — every call of them is
// inside d or inside another such helper — and that no rule addresses by name. Extracting a part of
// d into such a helper is the same refactoring as extracting it into a local definition.
func (c *c11Ctx) fileHelpers(d *fw.JQDef) []*gojq.FuncDef {
	if d.Parent != nil {
		return nil
	}
	if c.callKeys == nil {
		c.callKeys = map[*fw.JQDef]map[string]bool{}
		c.strNames = map[string]bool{}
		for _, x := range c.jq.Defs {
			if x.Parent != nil {
				continue
			}
			m := map[string]bool{}
			for _, f := range fw.JQCalls(x.Def.Body) {
				m[fw.JQFuncKey(f)] = true
			}
			c.callKeys[x] = m
		}
		// functions addressed by name as a string (slurps tables, _query_func("name"), completion …)
		for _, f := range c.jq.Files {
			fw.WalkJQ(f.Query, func(n any) bool {
				if s, ok := n.(*gojq.String); ok && len(s.Queries) == 0 {
					c.strNames[s.Str] = true
				}
				return true
			}, false)
		}
	}
	keyCount := map[string]int{}
	for _, x := range c.jq.Defs {
		if x.Parent == nil {
			keyCount[x.Key()]++
		}
	}
	byKey := map[string]*fw.JQDef{}
	for _, x := range c.jq.Defs {
		if x != d && x.Parent == nil && x.File == d.File && keyCount[x.Key()] == 1 && !strings.HasPrefix(x.Def.Name, "_query_") &&
			!c11Anchors[x.Def.Name] && !c.strNames[x.Def.Name] && x.Def.Body != nil {
			byKey[x.Key()] = x
		}
	}
	if len(byKey) == 0 {
		return nil
	}
	// reachable from d through eligible definitions
	set := map[*fw.JQDef]bool{}
	var visit func(x *fw.JQDef)
	visit = func(x *fw.JQDef) {
		for k := range c.callKeys[x] {
			if y, ok := byKey[k]; ok && !set[y] {
				set[y] = true
				visit(y)
			}
		}
	}
	visit(d)
	if len(set) == 0 {
		return nil
	}
	// drop those with a caller outside d and the set, until stable
	for changed := true; changed; {
		changed = false
		for _, x := range c.jq.Defs {
			if x.Parent != nil || x == d || set[x] {
				continue
			}
			for k := range c.callKeys[x] {
				if y, ok := byKey[k]; ok && set[y] {
					delete(set, y)
					changed = true
				}
			}
		}
	}
	var out []*gojq.FuncDef
	for _, x := range c.jq.Defs {
		if set[x] {
			out = append(out, x.Def)
		}
	}
	return out
}

// inl returns d with a body in which local helper definitions — and top-level helpers of the same
// file that only d uses — are inlined (d itself if there are none).
func (c *c11Ctx) inl(d *fw.JQDef) *fw.JQDef {
	if d == nil {
		return nil
	}
	if c.inlCache == nil {
		c.inlCache = map[*fw.JQDef]*fw.JQDef{}
	}
	if r, ok := c.inlCache[d]; ok {
		return r
	}
	r := c.inlUncached(d)
	c.inlCache[d] = r
	return r
}

// interpDefs: the top-level definitions of pkg/interp/*.jq, helpers inlined.
func (c *c11Ctx) interpDefs() []*fw.JQDef {
	if c.interpList == nil {
		for _, d := range c.jq.Defs {
			if d.Parent == nil && strings.HasPrefix(d.File.Rel, "pkg/interp/") {
				c.interpList = append(c.interpList, c.inl(d))
			}
		}
	}
	return c.interpList
}

func (c *c11Ctx) inlUncached(d *fw.JQDef) *fw.JQDef {
	src := d.Def
	if helpers := c.fileHelpers(d); len(helpers) > 0 && src.Body != nil {
		cp := c11CopyFuncDef(src)
		if cp != nil && cp.Body != nil {
			var pre []*gojq.FuncDef
			for _, h := range helpers {
				if hc := c11CopyFuncDef(h); hc != nil {
					pre = append(pre, hc)
				}
			}
			cp.Body.FuncDefs = append(pre, cp.Body.FuncDefs...)
			src = cp
		}
	}
	nd := c11Inline(src)
	if nd == src && src != d.Def {
		// helpers could not be inlined: keep the original
		return d
	}
	if nd == d.Def {
		return d
	}
	return &fw.JQDef{File: d.File, Def: nd, Parent: d.Parent, Order: d.Order}
}

// c11InputFree: the expression is a constant or a pure path from a variable — one value, independent of `.`.
func c11InputFree(q *gojq.Query) bool {
	q = c11Unparen(q)
	if _, ok := fw.JQConstString(q); ok {
		return true
	}
	if _, ok := c11ConstInt(q); ok {
		return true
	}
	if !c11Plain(q) || q.Left != nil || q.Term == nil {
		return false
	}
	switch q.Term.Type {
	case gojq.TermTypeNull, gojq.TermTypeTrue, gojq.TermTypeFalse:
		return len(q.Term.SuffixList) == 0
	}
	ch := c11TermChain(q.Term)
	if ch == nil || !strings.HasPrefix(ch.Root, "$") {
		return false
	}
	for _, st := range ch.Steps {
		if st == "[]" {
			return false
		}
	}
	return true
}

// c11HasShorthand: the body uses {$x} object shorthand for the variable (cannot be substituted textually).
func c11HasShorthand(body *gojq.Query, name string) bool {
	found := false
	fw.WalkJQ(body, func(x any) bool {
		if kv, ok := x.(*gojq.ObjectKeyVal); ok && kv.Val == nil && kv.Key == name {
			found = true
		}
		return !found
	}, false)
	return found
}
