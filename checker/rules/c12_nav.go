package rules

import (
	"go/token"
	"go/types"
	"strings"

	"golang.org/x/tools/go/ssa"

	"fqverif/fw"
)

// C12, second round: the parts of the getpath round trip that the first rule set took for granted.
//
// gojq resolves getpath(p) on a decode value component by component (funcGetpath -> funcIndex2):
//   string k : JQValueKey(k)
//   int i    : l = JQValueSliceLen(); negative i are counted from l, anything outside 0..l-1 becomes
//              a negative marker; then JQValueIndex(i)
// so next to "Children[i]" / "ByName[k]" (C12.resolve array-index / struct-key) the length the index
// is bounded with, the marker test, the has() closures that decide between field and extkey, and
// the key listings (keys/has: "its parent contains it under its reported name or index") are part
// of the necessary condition.

// c12Case is one way a function returns: the returned value, and what is known on that path.
type c12Case struct {
	val   ssa.Value
	expr  string
	facts map[string]bool // c12AP facts
	cmps  map[string]bool // canonical order facts "x<y" / "x<=y"
	pos   token.Pos
}

func c12StripIface(v ssa.Value) ssa.Value {
	for {
		switch x := v.(type) {
		case *ssa.MakeInterface:
			v = x.X
		case *ssa.ChangeType:
			v = x.X
		default:
			return v
		}
	}
}

// c12AddCmp records an order comparison in canonical form (only < and <=, negation folded).
func c12AddCmp(a *c12AP, out map[string]bool, cond ssa.Value, truth bool) {
	for {
		u, ok := cond.(*ssa.UnOp)
		if !ok || u.Op != token.NOT {
			break
		}
		cond, truth = u.X, !truth
	}
	bo, ok := cond.(*ssa.BinOp)
	if !ok {
		return
	}
	x, y := a.of(bo.X), a.of(bo.Y)
	op := bo.Op
	if !truth {
		switch op {
		case token.LSS:
			op = token.GEQ
		case token.LEQ:
			op = token.GTR
		case token.GTR:
			op = token.LEQ
		case token.GEQ:
			op = token.LSS
		default:
			return
		}
	}
	switch op {
	case token.LSS:
		out[x+"<"+y] = true
	case token.LEQ:
		out[x+"<="+y] = true
	case token.GTR:
		out[y+"<"+x] = true
	case token.GEQ:
		out[y+"<="+x] = true
	}
}

func c12CmpsAt(a *c12AP, b *ssa.BasicBlock) map[string]bool {
	out := map[string]bool{}
	for _, g := range fw.Guards(b) {
		c12AddCmp(a, out, g.Cond, g.True)
	}
	return out
}

func c12CmpsEdge(a *c12AP, pred, succ *ssa.BasicBlock) map[string]bool {
	out := c12CmpsAt(a, pred)
	if ifi, ok := pred.Instrs[len(pred.Instrs)-1].(*ssa.If); ok && len(pred.Succs) == 2 && pred.Succs[0] != pred.Succs[1] {
		c12AddCmp(a, out, ifi.Cond, pred.Succs[0] == succ)
	}
	return out
}

func c12IsOrderCmp(v ssa.Value) bool {
	bo, ok := v.(*ssa.BinOp)
	return ok && (bo.Op == token.LSS || bo.Op == token.LEQ || bo.Op == token.GTR || bo.Op == token.GEQ)
}

// c12ReturnCases lists the single-result returns of fn, one case per incoming path where the
// result is a phi (`a && b`, merged returns) and per predecessor where the return block is a
// join; a returned order comparison is split into its true and its false outcome.
func c12ReturnCases(fn *ssa.Function, a *c12AP) []c12Case {
	var out []c12Case
	var add func(v ssa.Value, facts, cmps map[string]bool, pos token.Pos, depth int)
	add = func(v ssa.Value, facts, cmps map[string]bool, pos token.Pos, depth int) {
		v = c12StripIface(v)
		if ph, ok := v.(*ssa.Phi); ok && depth < 4 {
			for i, e := range ph.Edges {
				pr := ph.Block().Preds[i]
				add(e, a.edgeFacts(pr, ph.Block()), c12CmpsEdge(a, pr, ph.Block()), pos, depth+1)
			}
			return
		}
		if c12IsOrderCmp(v) {
			for _, truth := range []bool{true, false} {
				f2, c2 := map[string]bool{}, map[string]bool{}
				for k := range facts {
					f2[k] = true
				}
				for k := range cmps {
					c2[k] = true
				}
				a.addFact(f2, v, truth)
				c12AddCmp(a, c2, v, truth)
				e := "false"
				if truth {
					e = "true"
				}
				out = append(out, c12Case{val: v, expr: e, facts: f2, cmps: c2, pos: pos})
			}
			return
		}
		out = append(out, c12Case{val: v, expr: a.of(v), facts: facts, cmps: cmps, pos: pos})
	}
	fw.EachInstr(fn, func(ins ssa.Instruction) {
		ret, ok := ins.(*ssa.Return)
		if !ok || len(ret.Results) != 1 {
			return
		}
		b := ret.Block()
		v := c12StripIface(ret.Results[0])
		if _, isPhi := v.(*ssa.Phi); !isPhi && len(b.Preds) > 1 && len(b.Instrs) == 1 {
			for _, pr := range b.Preds {
				add(v, a.edgeFacts(pr, b), c12CmpsEdge(a, pr, b), ret.Pos(), 0)
			}
			return
		}
		add(v, a.facts(b), c12CmpsAt(a, b), ret.Pos(), 0)
	})
	return out
}

// c12RangesOver: idx is the induction value of a loop counting 0,1,.. while idx < len(children).
func c12RangesOver(a *c12AP, idx ssa.Value, children string) bool {
	ph, zero := c12CountsFromZero(idx)
	if ph == nil || !zero {
		return false
	}
	h := ph.Block()
	ifi, ok := h.Instrs[len(h.Instrs)-1].(*ssa.If)
	if !ok || len(h.Succs) != 2 {
		return false
	}
	bo, ok := ifi.Cond.(*ssa.BinOp)
	return ok && bo.Op == token.LSS && bo.X == idx && a.of(bo.Y) == "len("+children+")"
}

// c12FallbackClosure returns the closure passed as argument argIdx to helper inside fn.
func c12FallbackClosure(fn *ssa.Function, helper string, nargs, argIdx int) *ssa.Function {
	var cl *ssa.Function
	for _, c := range fw.CallsIn(fn) {
		callee := c.Common().StaticCallee()
		if callee == nil || c12FnName(callee) != helper || len(c.Common().Args) != nargs {
			continue
		}
		if mc, ok := c.Common().Args[argIdx].(*ssa.MakeClosure); ok {
			if f, ok := mc.Fn.(*ssa.Function); ok && !strings.HasSuffix(f.Name(), "$bound") {
				cl = f
			}
		}
	}
	return cl
}

func c12ResolveMore(ru *fw.Rule, p *fw.Program) {
	const arrChildren = "P0.Compound.Children"
	// --- array: nil marker test of JQValueIndex
	if fn := p.Fn("(pkg/interp.ArrayDecodeValue).JQValueIndex"); fn != nil && len(fn.Params) == 2 {
		a := newC12AP()
		bad, n := "", 0
		for _, c := range c12ReturnCases(fn, a) {
			if c.expr != "nil" {
				continue
			}
			n++
			if !(c.cmps["P1<0"] || c.cmps["P1<=-1"] || c.cmps["len("+arrChildren+")<=P1"]) {
				bad = "null is returned under {" + c12FactList(c.cmps) + "}"
			}
		}
		ru.Check(bad == "", "array-index-marker", p.Rel(fn.Pos()), "null only for gojq's negative out-of-range markers (index < 0)",
			"JQValueIndex: "+bad+", not only for index < 0 (gojq passes every in-range position as 0..len-1, out-of-range as a negative marker): a valid position resolves to null")
	} else {
		ru.Undecided("array-index-marker", "", "(interp.ArrayDecodeValue).JQValueIndex(index) not found")
	}
	// --- array: the length gojq bounds (and wraps negative) indexes with
	for _, m := range []string{"JQValueSliceLen"} {
		key := "array-len:" + m
		fn := p.Fn("(pkg/interp.ArrayDecodeValue)." + m)
		if fn == nil {
			ru.Undecided(key, "", "(interp.ArrayDecodeValue)."+m+" not found")
			continue
		}
		a := newC12AP()
		got := []string{}
		good := true
		for _, c := range c12ReturnCases(fn, a) {
			got = append(got, c.expr)
			if c.expr != "len("+arrChildren+")" {
				good = false
			}
		}
		ru.Check(good && len(got) > 0, key, p.Rel(fn.Pos()), "returns len(Children)",
			m+" returns "+strings.Join(got, " | ")+", expected len("+arrChildren+"): gojq bounds and wraps path indexes with it, positions beyond it resolve to null and negative ones to the wrong child")
	}
	// --- has() closures deciding "is a field"
	type hasSite struct {
		key, method, helper string
		nargs, argIdx       int
	}
	for _, s := range []hasSite{
		{"struct-key-has", "(pkg/interp.StructDecodeValue).JQValueKey", "pkg/interp.valueOrFallbackKey", 4, 2},
		{"struct-has", "(pkg/interp.StructDecodeValue).JQValueHas", "pkg/interp.valueOrFallbackHas", 3, 2},
	} {
		fn := p.Fn(s.method)
		var cl *ssa.Function
		if fn != nil {
			cl = c12FallbackClosure(fn, s.helper, s.nargs, s.argIdx)
		}
		if cl == nil || len(cl.Params) != 1 {
			ru.Undecided(s.key, "", "the field-presence closure passed to "+s.helper+" in "+s.method+" is not resolvable")
			continue
		}
		a := newC12AP()
		present := "has(F0.Compound.ByName[as[string](P0)])"
		nTrue, bad := 0, ""
		for _, c := range c12ReturnCases(cl, a) {
			switch c.expr {
			case "true":
				nTrue++
				if !c.facts[present] {
					bad = "answers true under {" + c12FactList(c.facts) + "}, not under ByName[key] present"
				}
			case "false":
				if c.facts[present] {
					bad = "answers false although ByName[key] is present"
				}
			case present:
				nTrue++ // answers with the membership itself
			default:
				if t, ok := c.val.Type().Underlying().(*types.Basic); ok && t.Info()&types.IsBoolean != 0 {
					bad = "answers " + c.expr + ", not decidable as ByName[key] presence"
				}
			}
		}
		if nTrue == 0 && bad == "" {
			bad = "never answers true"
		}
		ru.Check(bad == "", s.key, p.Rel(cl.Pos()), "a string key is a field exactly when ByName has it",
			"struct field-presence test "+bad+": .[name]/getpath falls through to the extkey lookup (null) for an existing field, or has() denies a child its parent lists")
	}
	if fn := p.Fn("(pkg/interp.ArrayDecodeValue).JQValueHas"); fn == nil {
		ru.Undecided("array-has", "", "(interp.ArrayDecodeValue).JQValueHas not found")
	} else if cl := c12FallbackClosure(fn, "pkg/interp.valueOrFallbackHas", 3, 2); cl == nil || len(cl.Params) != 1 {
		ru.Undecided("array-has", p.Rel(fn.Pos()), "the position test closure passed to valueOrFallbackHas is not resolvable")
	} else {
		a := newC12AP()
		k, l := "as[int](P0)", "len(F0.Compound.Children)"
		// the key may come out of a converter answering (index, isNumber) - which numbers it accepts is C08.iface Has:numbers
		fw.EachInstr(cl, func(ins ssa.Instruction) {
			if cc, ok := ins.(*ssa.Call); ok && cc.Common().StaticCallee() != nil && len(cc.Common().Args) == 1 && cc.Common().Args[0] == ssa.Value(cl.Params[0]) {
				if res := cc.Common().Signature().Results(); res.Len() == 2 && types.Identical(res.At(0).Type(), types.Typ[types.Int]) && types.Identical(res.At(1).Type(), types.Typ[types.Bool]) {
					cal := cc.Common().StaticCallee()
					if cal.Pkg != nil {
						k = strings.TrimPrefix(cal.Pkg.Pkg.Path(), "github.com/wader/fq/") + "." + cal.Name() + "(P0)#0"
					}
				}
			}
		})
		nTrue, bad := 0, ""
		for _, c := range c12ReturnCases(cl, a) {
			lower := c.cmps["0<="+k] || c.cmps["-1<"+k]
			upper := c.cmps[k+"<"+l]
			switch c.expr {
			case "true":
				nTrue++
				if !lower || !upper {
					bad = "answers true under {" + c12FactList(c.cmps) + "}"
				}
				for f := range c.cmps {
					if f != "0<="+k && f != "-1<"+k && f != k+"<"+l {
						bad = "answers true only under the extra condition " + f
					}
				}
			case "false":
				if !(c.cmps[k+"<0"] || c.cmps[k+"<=-1"] || c.cmps[l+"<="+k]) {
					bad = "answers false under {" + c12FactList(c.cmps) + "}"
				}
			}
		}
		if nTrue == 0 && bad == "" {
			bad = "never answers true"
		}
		ru.Check(bad == "", "array-has", p.Rel(cl.Pos()), "an int key is a position exactly when 0 <= key < len(Children)",
			"array position test "+bad+", expected exactly 0 <= key < len(Children): has(i) disagrees with the index the child reports")
	}
	// --- the layering helpers themselves: own field first, extkey only when the value has no such field
	if fn := p.Fn("pkg/interp.valueOrFallbackKey"); fn == nil || len(fn.Params) != 4 {
		ru.Undecided("fallback-key", "", "interp.valueOrFallbackKey(name, baseKey, valueHas, valueKey) not found")
	} else {
		a := newC12AP()
		has := "dyn:P2(P0)"
		nOwn, nBase, bad := 0, 0, ""
		for _, c := range c12ReturnCases(fn, a) {
			isTrue := c.facts["is[bool]("+has+")"] && c.facts["as[bool]("+has+")"]
			switch c.expr {
			case "dyn:P3(P0)":
				nOwn++
				if !isTrue {
					bad = "the value's own lookup is returned under {" + c12FactList(c.facts) + "}, not when valueHas(name) is true"
				}
			case "dyn:P1(P0)":
				nBase++
				if isTrue {
					bad = "the extkey lookup is returned although valueHas(name) is true"
				}
			default:
				bad = "returns " + c.expr + ", neither valueKey(name) nor baseKey(name)"
			}
		}
		if bad == "" && (nOwn == 0 || nBase == 0) {
			bad = "one of the two lookups is never returned"
		}
		ru.Check(bad == "", "fallback-key", p.Rel(fn.Pos()), "valueKey(name) when valueHas(name) is true, baseKey(name) otherwise", "valueOrFallbackKey: "+bad+": .[name] of a struct no longer answers with the field of that name")
	}
	if fn := p.Fn("pkg/interp.valueOrFallbackHas"); fn == nil || len(fn.Params) != 3 {
		ru.Undecided("fallback-has", "", "interp.valueOrFallbackHas(key, baseHas, valueHas) not found")
	} else {
		a := newC12AP()
		has := "dyn:P2(P0)"
		nOwn, nBase, bad := 0, 0, ""
		for _, c := range c12ReturnCases(fn, a) {
			isFalse := c.facts["is[bool]("+has+")"] && c.facts["!as[bool]("+has+")"]
			switch c.expr {
			case has:
				nOwn++
				if isFalse {
					bad = "the value's own answer false is returned without asking baseHas"
				}
			case "dyn:P1(P0)":
				nBase++
				if !isFalse {
					bad = "baseHas(key) is returned under {" + c12FactList(c.facts) + "}, not only when valueHas(key) is false"
				}
			default:
				bad = "returns " + c.expr + ", neither valueHas(key) nor baseHas(key)"
			}
		}
		if bad == "" && (nOwn == 0 || nBase == 0) {
			bad = "one of the two answers is never returned"
		}
		ru.Check(bad == "", "fallback-has", p.Rel(fn.Pos()), "valueHas(key) unless it is false, then baseHas(key)", "valueOrFallbackHas: "+bad+": has(name)/has(i) denies a child its parent contains")
	}
	// --- key listings
	for _, w := range []struct{ recv, key string }{{"ArrayDecodeValue", "array-keys"}, {"StructDecodeValue", "struct-keys"}} {
		fn := p.Fn("(pkg/interp." + w.recv + ").JQValueKeys")
		if fn == nil {
			ru.Undecided(w.key, "", "(interp."+w.recv+").JQValueKeys not found")
			continue
		}
		a := newC12AP()
		n, bad := 0, ""
		fw.EachInstr(fn, func(ins ssa.Instruction) {
			st, ok := ins.(*ssa.Store)
			if !ok {
				return
			}
			ia, ok := st.Addr.(*ssa.IndexAddr)
			if !ok {
				return
			}
			mk, ok := ia.X.(*ssa.MakeSlice)
			if !ok {
				return
			}
			n++
			idx := a.of(ia.Index)
			want := idx
			if w.recv == "StructDecodeValue" {
				want = arrChildren + "[" + idx + "].Name"
			}
			switch {
			case a.of(mk.Len) != "len("+arrChildren+")":
				bad = "listing has " + a.of(mk.Len) + " entries, expected len(Children)"
			case !c12RangesOver(a, ia.Index, arrChildren):
				bad = "entries are not filled for i = 0 .. len(Children)-1"
			case a.of(st.Val) != want:
				bad = "entry " + idx + " is " + a.of(st.Val) + ", expected " + want
			}
		})
		if n != 1 && bad == "" {
			bad = "not exactly one listing store"
		}
		ru.Check(bad == "", w.key, p.Rel(fn.Pos()), "keys lists every child under the component its path reports", "JQValueKeys: "+bad+": keys/has disagree with the name or index a child reports")
	}
}

// c12WalkOrder: postProcess must visit children before their parent. The callback resets the
// visited compound's own Index to -1 and then numbers its children; in a pre-order walk the
// child's own reset runs after its parent numbered it, and every compound array element ends
// with Index -1.
func c12WalkOrder(ru *fw.Rule, p *fw.Program, pp *ssa.Function) {
	valT := p.NamedType("pkg/decode", "Value")
	optsT := p.NamedType("pkg/decode", "WalkOpts")
	walk := p.Fn(c12Value + ".Walk")
	iPre := c12Field(optsT, "PreOrder")
	if valT == nil || optsT == nil || walk == nil || iPre < 0 {
		ru.Undecided("walk-order", "", "decode.WalkOpts.PreOrder / (*Value).Walk not found")
		return
	}
	// preOrderOf: the constant PreOrder of the WalkOpts literal passed to Walk inside fn ("true",
	// "false", "" unknown)
	preOrderOf := func(fn *ssa.Function) (string, bool) {
		res, found := "", false
		for _, c := range fw.CallsIn(fn) {
			if c.Common().StaticCallee() != walk || len(c.Common().Args) != 2 {
				continue
			}
			found = true
			ld, ok := c.Common().Args[1].(*ssa.UnOp)
			if !ok {
				return "", true
			}
			al, ok := ld.X.(*ssa.Alloc)
			if !ok || al.Referrers() == nil {
				return "", true
			}
			res = "false"
			for _, ref := range *al.Referrers() {
				fa, ok := ref.(*ssa.FieldAddr)
				if !ok || fa.Field != iPre || fa.Referrers() == nil {
					continue
				}
				for _, r2 := range *fa.Referrers() {
					if st, ok := r2.(*ssa.Store); ok && st.Addr == ssa.Value(fa) {
						if cst, ok := st.Val.(*ssa.Const); ok && cst.Value != nil {
							res = cst.Value.ExactString()
						} else {
							res = ""
						}
					}
				}
			}
		}
		return res, found
	}
	a := newC12AP()
	n := 0
	for _, c := range fw.CallsIn(pp) {
		callee := c.Common().StaticCallee()
		if callee == nil || !strings.HasPrefix(c12FnName(callee), c12Value+".Walk") {
			continue
		}
		n++
		pos := p.Rel(c.Pos())
		if len(c.Common().Args) < 1 || a.of(c.Common().Args[0]) != "P0" {
			ru.Fail("walk-order", pos, "postProcess walks "+a.of(c.Common().Args[0])+" instead of the value it is called on")
			continue
		}
		var pre string
		var found bool
		if callee == walk {
			pre, found = preOrderOf(pp)
		} else {
			pre, found = preOrderOf(callee)
		}
		switch {
		case !found || pre == "":
			ru.Undecided("walk-order", pos, "the traversal order of "+c12FnName(callee)+" is not a constant WalkOpts.PreOrder")
		case pre == "true":
			ru.Fail("walk-order", pos, "postProcess uses the pre-order walk "+c12FnName(callee)+": a compound element's own Index reset (-1) runs after its parent array numbered it, its path component becomes -1")
		default:
			ru.Ok("walk-order", pos, "children are visited before their parent (post-order)")
		}
	}
	if n == 0 {
		ru.Undecided("walk-order", p.Rel(pp.Pos()), "postProcess does not call a (*Value).Walk* function")
	}
}

// c12BufRootMakers: values the field API builds itself. A value (or sub-decoder) reading another
// bit buffer than the calling decoder's own must be marked IsRoot, one reading the decoder's own
// buffer must not: root(findSubRoot) stops at IsRoot, so buffer_root/format_root of everything
// below would otherwise name a value of another buffer (or stop inside the same buffer).
func c12BufRootMakers(ru *fw.Rule, p *fw.Program) {
	valT := p.NamedType("pkg/decode", "Value")
	iRoot, iReader := c12Field(valT, "IsRoot"), c12Field(valT, "RootReader")
	fd := p.Fn("(*pkg/decode.D).fieldDecoder")
	if valT == nil || iRoot < 0 || iReader < 0 || fd == nil {
		ru.Undecided("maker:anchor", "", "decode.Value.IsRoot / RootReader / (*D).fieldDecoder not found")
		return
	}
	n := 0
	for _, fn := range p.FqFunctions() {
		if pkgRel(fn) != "pkg/decode" || fn == fd || fn.Signature.Recv() == nil || len(fn.Params) == 0 || shortType(fn.Params[0].Type()) != "*pkg/decode.D" {
			continue
		}
		a := newC12AP()
		// IsRoot = <const> stores of this function
		type rootStore struct {
			base  ssa.Value
			baseS string
			val   string
		}
		var roots []rootStore
		fw.EachInstr(fn, func(ins ssa.Instruction) {
			if st, ok := ins.(*ssa.Store); ok && isFieldAddrOf(st.Addr, valT, iRoot) {
				x := st.Addr.(*ssa.FieldAddr).X
				roots = append(roots, rootStore{x, a.of(x), a.of(st.Val)})
			}
		})
		k := 0
		decide := func(pos token.Pos, what, reader string, match func(rootStore) bool) {
			k++
			n++
			key := "maker:" + fw.ShortFn(fn) + "#" + string(rune('0'+k))
			marked, other := false, ""
			for _, rs := range roots {
				if !match(rs) {
					continue
				}
				if rs.val == "true" {
					marked = true
				} else {
					other = rs.val
				}
			}
			if reader == "P0.bitBuf" {
				ru.Check(!marked, key, p.Rel(pos), what+" reads the decoder's own buffer: not a root", what+" reads the decoder's own buffer but is marked IsRoot: buffer_root/format_root of the values below stop inside the buffer and the enclosing post-processing skips it")
			} else {
				ru.Check(marked && other == "", key, p.Rel(pos), what+" reads another buffer ("+reader+"): marked IsRoot", what+" reads another buffer ("+reader+") but is not marked IsRoot = true: buffer_root of the values below is a value of the enclosing buffer")
			}
		}
		for _, c := range fw.CallsIn(fn) {
			if c.Common().StaticCallee() != fd || len(c.Common().Args) != 4 || c.Value() == nil {
				continue
			}
			want := a.of(c.Value()) + ".Value"
			decide(c.Pos(), "sub-decoder", a.of(c.Common().Args[2]), func(rs rootStore) bool { return rs.baseS == want })
		}
		fw.EachInstr(fn, func(ins ssa.Instruction) {
			st, ok := ins.(*ssa.Store)
			if !ok || !isFieldAddrOf(st.Addr, valT, iReader) {
				return
			}
			base := st.Addr.(*ssa.FieldAddr).X
			decide(st.Pos(), "value", a.of(st.Val), func(rs rootStore) bool { return rs.base == base })
		})
	}
	if n == 0 {
		ru.Undecided("maker:anchor", "", "no (*D) method builds a sub-decoder or sets Value.RootReader")
	}
}

// c12ParentOwner: valuePath and root() walk Parent links; a link is consistent with the tree only
// if it is the compound the value was appended to, which AddChild guarantees (C12.unique). Any
// other writer of Value.Parent re-hangs a value without moving it between Children lists.
func c12ParentOwner(ru *fw.Rule, p *fw.Program) {
	valT := p.NamedType("pkg/decode", "Value")
	iParent := c12Field(valT, "Parent")
	addChild := p.Fn("(*pkg/decode.D).AddChild")
	if valT == nil || iParent < 0 || addChild == nil {
		ru.Undecided("parent-owner", "", "decode.Value.Parent / (*D).AddChild not found")
		return
	}
	type site struct {
		fn *ssa.Function
		st *ssa.Store
	}
	var foreign []site
	n := 0
	for _, fn := range p.FqFunctions() {
		fw.EachInstr(fn, func(ins ssa.Instruction) {
			st, ok := ins.(*ssa.Store)
			if !ok || !isFieldAddrOf(st.Addr, valT, iParent) {
				return
			}
			n++
			if fw.Top(fn) == addChild {
				ru.Ok("parent-owner:"+fw.ShortFn(fn), p.Rel(st.Pos()), "Parent written by AddChild")
				return
			}
			foreign = append(foreign, site{fn, st})
		})
	}
	if n == 0 {
		ru.Undecided("parent-owner", "", "Value.Parent is never written")
	}
	if len(foreign) == 0 {
		return
	}
	// a helper extracted from AddChild (only ever called from it) is still AddChild
	callers := map[*ssa.Function]map[*ssa.Function]bool{}
	for _, fn := range p.FqFunctions() {
		for _, c := range fw.CallsIn(fn) {
			if callee := c.Common().StaticCallee(); callee != nil {
				for _, s := range foreign {
					if callee == fw.Top(s.fn) {
						if callers[callee] == nil {
							callers[callee] = map[*ssa.Function]bool{}
						}
						callers[callee][fw.Top(fn)] = true
					}
				}
			}
		}
	}
	for _, s := range foreign {
		cs := callers[fw.Top(s.fn)]
		if len(cs) == 1 && cs[addChild] {
			ru.Ok("parent-owner:"+fw.ShortFn(s.fn), p.Rel(s.st.Pos()), "Parent written by a helper only AddChild calls")
			continue
		}
		ru.Fail("parent-owner:"+fw.ShortFn(s.fn), p.Rel(s.st.Pos()), "Value.Parent written outside AddChild: the value's path (walked over Parent) no longer leads through the compound whose Children/ByName hold it")
	}
}
