package rules

// C09, second part: rules added by the mutation self-review.
//
//   C09.err     no conversion error is swallowed on the way from a value to its bits
//   C09.seek    (borrowed from C01.seek) SeekBits of the zero-padding reader and of the
//               concatenation: the length of a padded / concatenated binary is found by seeking
//   C09.bitiox  (C05's bitiox plumbing rule under this id) Range / Len / CopyBits
//   C09.concat  endPos: a member's length is its SeekEnd position, cursor restored
//   C09.zero    (borrowed from C01.clamp) the zero reader answers inside [0, nBits) only

import (
	"fmt"
	"go/token"
	"go/types"
	"strings"

	"golang.org/x/tools/go/ssa"

	"fqverif/fw"
)

var c09ErrorIface = types.Universe.Lookup("error").Type().Underlying().(*types.Interface)

func c09IsErrorType(t types.Type) bool {
	return types.Identical(t, types.Universe.Lookup("error").Type())
}

// c09Fallible: the call can fail with an error the caller has to look at: a function/method of fq
// (or io.Copy) whose last result is an error.
func c09Fallible(c *ssa.Call) bool {
	var sig *types.Signature
	pkg := ""
	if c.Call.IsInvoke() {
		sig, _ = c.Call.Method.Type().(*types.Signature)
		if c.Call.Method.Pkg() != nil {
			pkg = c.Call.Method.Pkg().Path()
		}
	} else if f := c.Call.StaticCallee(); f != nil {
		sig = f.Signature
		pkg = fw.FnPkgPath(f)
	}
	if sig == nil || sig.Results().Len() == 0 {
		return false
	}
	if !strings.HasPrefix(pkg, fw.Mod) && pkg != "io" {
		return false
	}
	return c09IsErrorType(sig.Results().At(sig.Results().Len() - 1).Type())
}

// c09ErrValue is the error result of a fallible call (nil when it is discarded).
func c09ErrValue(c *ssa.Call) ssa.Value {
	tup, isTup := c.Type().(*types.Tuple)
	if !isTup {
		return c
	}
	if c.Referrers() == nil {
		return nil
	}
	for _, ref := range *c.Referrers() {
		if ex, ok := ref.(*ssa.Extract); ok && ex.Index == tup.Len()-1 {
			return ex
		}
	}
	return nil
}

// c09ReturnIsError: the return hands back the failed call's error value (alias) or an error that
// is non-nil by construction: a concrete error value, a sentinel variable, or the result of a call
// that returns just an error (fmt.Errorf, errors.New). The error result of another fallible call
// does not count: it is nil when that call succeeds.
func c09ReturnIsError(rt *ssa.Return, alias map[ssa.Value]bool) bool {
	for _, res := range rt.Results {
		v := c09StripIface(res)
		if alias[v] || alias[res] {
			return true
		}
		if c09IsNilConst(v) || c09IsNilConst(res) {
			continue
		}
		t := v.Type()
		if !c09IsErrorType(t) && !types.Implements(t, c09ErrorIface) {
			continue
		}
		if !types.IsInterface(t) {
			return true // concrete error value
		}
		switch x := v.(type) {
		case *ssa.Call:
			return true
		case *ssa.UnOp:
			if _, isG := x.X.(*ssa.Global); isG && x.Op == token.MUL {
				return true
			}
		}
	}
	return false
}

// c09ArmFails: every path from b ends in a return of an error (or does not return).
func c09ArmFails(b *ssa.BasicBlock, alias map[ssa.Value]bool) bool {
	seen := map[*ssa.BasicBlock]bool{}
	var rec func(b *ssa.BasicBlock) bool
	rec = func(b *ssa.BasicBlock) bool {
		if seen[b] {
			return true
		}
		seen[b] = true
		if rt, ok := b.Instrs[len(b.Instrs)-1].(*ssa.Return); ok {
			return c09ReturnIsError(rt, alias)
		}
		for _, s := range b.Succs {
			if !rec(s) {
				return false
			}
		}
		return true
	}
	return rec(b)
}

// c09ErrHandled: error value e is returned, or tested against nil with the non-nil arm failing.
func c09ErrHandled(e ssa.Value) (bool, string) {
	alias := map[ssa.Value]bool{}
	var work []ssa.Value
	add := func(v ssa.Value) {
		if !alias[v] {
			alias[v] = true
			work = append(work, v)
		}
	}
	add(e)
	handled := false
	for len(work) > 0 {
		v := work[0]
		work = work[1:]
		if v.Referrers() == nil {
			continue
		}
		for _, ref := range *v.Referrers() {
			switch x := ref.(type) {
			case *ssa.MakeInterface:
				add(x)
			case *ssa.ChangeInterface:
				add(x)
			case *ssa.Phi:
				add(x)
			case *ssa.Store:
				// kept in a (result) variable: what is loaded from it is the same error
				if al, isA := x.Addr.(*ssa.Alloc); isA && x.Val == v && al.Referrers() != nil {
					for _, r3 := range *al.Referrers() {
						if ld, isLd := r3.(*ssa.UnOp); isLd && ld.Op == token.MUL {
							add(ld)
						}
					}
				}
			case *ssa.Return:
				handled = true
			case *ssa.BinOp:
				if x.Op != token.NEQ && x.Op != token.EQL {
					continue
				}
				if !(c09IsNilConst(x.X) || c09IsNilConst(x.Y)) || x.Referrers() == nil {
					continue
				}
				for _, r2 := range *x.Referrers() {
					ifi, ok := r2.(*ssa.If)
					if !ok {
						continue
					}
					nonNil := ifi.Block().Succs[0]
					if x.Op == token.EQL {
						nonNil = ifi.Block().Succs[1]
					}
					if !c09ArmFails(nonNil, alias) {
						return false, "after a failure the function can still return a result without an error"
					}
					handled = true
				}
			}
		}
	}
	if !handled {
		return false, "the error is neither returned nor tested against nil"
	}
	return true, ""
}

var c09ErrFns = []string{
	"pkg/interp.toBitReaderEx",
	"pkg/interp.toBinary",
	"(*pkg/interp.Interp)._toBits",
	"pkg/interp.NewBinaryFromBitReader",
	"(pkg/interp.Binary).toBytesBuffer",
	"(pkg/interp.Binary).toReader",
	"(pkg/interp.Binary).JQValueIndex",
	"(pkg/interp.Binary).JQValueToNumber",
	"(pkg/interp.Binary).JQValueToGoJQ",
	"(*pkg/interp.openFile).ToBinary",
	"pkg/bitio.NewMultiReader",
	"pkg/bitio.endPos",
}

func c09Err(r *fw.Run, p *fw.Program) {
	ru := r.Rule("C09.err", "no failure is swallowed between a value and its bits: in toBitReaderEx, toBinary, _toBits, NewBinaryFromBitReader, toBytesBuffer, toReader, .[i], tonumber, tostring, openFile.ToBinary, NewMultiReader, endPos and to_hex every error result of an fq (or io.Copy) call is returned, or tested against nil with every path of the non-nil arm ending in a return of an error (a member that cannot be converted must fail the whole conversion, never be skipped)", 11)
	check := func(key string, fn *ssa.Function) {
		n, bad := 0, ""
		fw.EachInstr(fn, func(ins ssa.Instruction) {
			c, ok := ins.(*ssa.Call)
			if !ok || !c09Fallible(c) {
				return
			}
			n++
			name := strings.TrimPrefix(c09CallName(c), "invoke:")
			e := c09ErrValue(c)
			if e == nil {
				bad = "the error of " + name + " is discarded"
				return
			}
			if ok, why := c09ErrHandled(e); !ok {
				bad = "error of " + name + ": " + why
			}
		})
		if n == 0 {
			ru.Undecided(key, p.Rel(fn.Pos()), "no fallible call found (anchor moved?)")
			return
		}
		ru.Check(bad == "", key, p.Rel(fn.Pos()), fmt.Sprintf("%d fallible calls, every error propagated", n), bad)
	}
	for _, name := range c09ErrFns {
		fn := p.Fn(name)
		if fn == nil || fn.Blocks == nil {
			ru.Undecided("errors:"+name, "", "function "+name+" not found")
			continue
		}
		check("errors:"+strings.TrimPrefix(name, "pkg/interp."), fn)
	}
	var hexFn *ssa.Function
	for fn := range jqRegistered(p) {
		if jqRegisteredName(p, fn) == "to_hex" {
			hexFn = fn
		}
	}
	if hexFn == nil {
		ru.Undecided("errors:to_hex", "", "registered function to_hex not found")
	} else {
		check("errors:to_hex", hexFn)
	}
}

// c09ReturnsOnly: every return of fn gives back val, an error produced by a call, or nil where
// nilOK allows it.
func c09ReturnsOnly(fn *ssa.Function, val ssa.Value, nilOK func(b *ssa.BasicBlock) bool) (bool, string) {
	for _, rt := range c09Returns(fn) {
		if len(rt.Results) != 1 {
			return false, "unexpected result count"
		}
		v := c09StripIface(rt.Results[0])
		switch {
		case v == val:
		case c09IsNilConst(v) || c09IsNilConst(rt.Results[0]):
			if nilOK == nil || !nilOK(rt.Block()) {
				return false, "null is returned on a path where the value is required"
			}
		case c09IsErrorType(v.Type()):
		default:
			return false, "a value other than the specified one is returned: " + v.String()
		}
	}
	return true, ""
}

// c09Borrowed: sibling properties' rules that decide clauses of C09.
func c09Borrowed(r *fw.Run, p *fw.Program) {
	sc := r.Scratch()
	c01Seek(sc, p)
	c01Clamp(sc, p)
	r.Import(sc, "C01.seek", "C09.seek", "the size of a zero-padded or concatenated binary is found by seeking (bitiox.Len / endPos): ZeroReadAtSeeker.SeekBits and MultiReader.SeekBits obey the io.Seeker contract per whence (start => off, current => cursor+off, end => total+off), store that cursor and return it, and accept exactly 0..total (C01.seek obligations of these two seekers); the new cursor is stored only for 0 <= p <= total (the end itself included) and other positions are answered with an error", 12,
		func(k string) bool {
			return strings.Contains(k, "ZeroReadAtSeeker).SeekBits") || strings.Contains(k, "MultiReader).SeekBits")
		})
	r.Import(sc, "C01.clamp", "C09.zero", "", 0, func(k string) bool { return k == "ZeroReadAtSeeker.ReadBitsAt:inside" })
	// sequential reading of a concatenation (raw output, to_hex and every io copy go through ReadBits)
	r.Import(sc, "C01.clamp", "C09.concat", "", 0, func(k string) bool { return strings.HasPrefix(k, "(*pkg/bitio.MultiReader).ReadBits:") })
	c05BitioxAs(r, p, "C09.bitiox")
	c09SeekLimits(r.Rule("C09.seek", "", 0), p)
}

// c09SeekLimits: the cursor of the zero reader and of the concatenation is only ever set to a
// position in 0..total, both ends included: seeking to the end (how bitiox.Len and endPos measure
// the reader) must succeed and anything beyond must fail.
func c09SeekLimits(ru *fw.Rule, p *fw.Program) {
	for _, sp := range []struct{ fn, cursor string }{
		{"(*internal/bitiox.ZeroReadAtSeeker).SeekBits", "recv.pos"},
		{"(*pkg/bitio.MultiReader).SeekBits", "recv.pos"},
	} {
		fn := c09Fn(ru, p, sp.fn)
		if fn == nil {
			continue
		}
		key := strings.TrimPrefix(fw.ShortFn(fn), "(*") + ":limits"
		key = strings.Replace(key, ")", "", 1)
		s := newC09Sym(fn)
		var st *ssa.Store
		n := 0
		for _, x := range s.allStores() {
			if x.path == sp.cursor {
				st = x.st
				n++
			}
		}
		if st == nil || n != 1 {
			ru.Undecided(key, p.Rel(fn.Pos()), "no single store to the cursor")
			continue
		}
		ph, isPhi := st.Val.(*ssa.Phi)
		if !isPhi {
			ru.Undecided(key, p.Rel(st.Pos()), "new cursor is not selected per whence")
			continue
		}
		// the logical end: the whence arm that is neither off nor cursor+off
		off := s.Of(fn.Params[1])
		var end *fw.Poly
		for _, ed := range ph.Edges {
			d := s.Of(ed).Sub(off)
			if k, isC := d.IsConst(); isC && k == 0 {
				continue
			}
			if d.Equal(fw.PAtom(sp.cursor)) || s.Of(ed).Equal(fw.PAtom(sp.cursor)) {
				continue
			}
			end = d
		}
		if end == nil {
			ru.Undecided(key, p.Rel(st.Pos()), "SeekEnd arm not found")
			continue
		}
		P := s.Of(ph)
		lo, _, hasLo, _ := s.bounds(st.Block(), P)
		_, hi, _, hasHi := s.bounds(st.Block(), P.Sub(end))
		ru.Check(hasLo && lo == 0 && hasHi && hi == 0, key, p.Rel(st.Pos()), "cursor set only for 0 <= p <= "+end.String(),
			fmt.Sprintf("%s stores a new position proven only in [%s, %s%s]: want exactly [0, %s] (the end itself must be seekable: that is how the size of a padded or concatenated binary is measured; nothing beyond)", sp.fn, c09B(lo, hasLo), end.String(), c09Rel(hi, hasHi), end.String()))
		// a rejected position is reported as an error
		okRej := true
		for _, rt := range c09Returns(fn) {
			if len(rt.Results) != 2 || c09InstrDominates(st, rt) {
				continue
			}
			if c09IsNilConst(rt.Results[1]) {
				okRej = false
			}
		}
		ru.Check(okRej, key+"-reject", p.Rel(fn.Pos()), "positions outside are answered with an error", sp.fn+" returns without error although the cursor was not moved")
	}
}

func c09Rel(v int64, has bool) string {
	switch {
	case !has:
		return "+?"
	case v == 0:
		return ""
	case v > 0:
		return fmt.Sprintf("+%d", v)
	}
	return fmt.Sprint(v)
}

// c09EndPos (C09.concat): the length of a member is its SeekEnd position, and the member's
// cursor is put back (members are shared readers).
func c09EndPos(ru *fw.Rule, p *fw.Program) {
	fn := c09Fn(ru, p, "pkg/bitio.endPos")
	if fn == nil {
		return
	}
	s := newC09Sym(fn)
	seek := func(off c09Pat, whence string) c09Pat {
		return pCallN("invoke:SeekBits", 0, pP("a0"), off, pP(whence))
	}
	var cur, end, restore *ssa.Call
	for _, ci := range fw.CallsIn(fn) {
		c, ok := ci.(*ssa.Call)
		if !ok || !c.Call.IsInvoke() || c.Call.Method.Name() != "SeekBits" {
			continue
		}
		args := []ssa.Value{c.Call.Value, c.Call.Args[0], c.Call.Args[1]}
		m := func(i int, want string) bool { ok, _ := s.is(args[i], want); return ok }
		switch {
		case m(0, "a0") && m(1, "0") && m(2, "1"):
			cur = c
		case m(0, "a0") && m(1, "0") && m(2, "2"):
			end = c
		case m(0, "a0") && m(2, "0"):
			restore = c
		}
	}
	okEnd, whyEnd := false, "no SeekBits(0, io.SeekEnd) on the member"
	if end != nil {
		whyEnd = "the SeekEnd position is not what is returned"
		for _, rt := range c09Returns(fn) {
			if len(rt.Results) == 2 && c09IsNilConst(rt.Results[1]) {
				okEnd = c09ExtractOf(rt.Results[0], 0) == end
			}
		}
	}
	ru.Check(okEnd, "endPos:end", p.Rel(fn.Pos()), "length = SeekBits(0, SeekEnd)", "endPos (length of a concatenated member): "+whyEnd)
	okRes, whyRes := false, "the cursor is not read with SeekBits(0, io.SeekCurrent) and put back with SeekBits(that, io.SeekStart)"
	if cur != nil && end != nil && restore != nil {
		switch {
		case c09ExtractOf(restore.Call.Args[0], 0) != cur:
			whyRes = "the position restored is not the one read before seeking to the end"
		case !c09InstrDominates(cur, end) || !c09InstrDominates(end, restore):
			whyRes = "order is not: read cursor, seek to end, restore cursor"
		default:
			okRes = true
			for _, rt := range c09Returns(fn) {
				if len(rt.Results) == 2 && c09IsNilConst(rt.Results[1]) && !c09InstrDominates(restore, rt) {
					okRes, whyRes = false, "a successful return is reachable without restoring the cursor"
				}
			}
		}
	}
	ru.Check(okRes, "endPos:restore", p.Rel(fn.Pos()), "cursor restored before returning", "endPos: "+whyRes)
	_ = seek
}

func init() {
	add := func(id, rule, file, old, new, key string) {
		AddControl(Control{ID: id, Prop: "C09", Rule: rule, File: file, Old: old, New: new, ExpectKey: key})
	}
	const bin = "pkg/interp/binary.go"
	const mr = "pkg/bitio/multireader.go"
	const zr = "internal/bitiox/zeroreadatseeker.go"
	add("C09.err.member", "C09.err", bin, "\t\t\tif eErr != nil {\n\t\t\t\treturn nil, eErr\n\t\t\t}", "\t\t\tif eErr != nil {\n\t\t\t\tcontinue\n\t\t\t}", "errors:toBitReaderEx")
	add("C09.err.tobits", "C09.err", bin, "\tbr, err := bv.toReader()\n\tif err != nil {\n\t\treturn err\n\t}\n\tbb, err :=", "\tbr, _ := bv.toReader()\n\tbb, err :=", "_toBits")
	add("C09.err.endpos", "C09.err", mr, "\t_, err = rs.SeekBits(c, io.SeekStart)\n\tif err != nil {\n\t\treturn 0, err\n\t}", "\t_, _ = rs.SeekBits(c, io.SeekStart)", "errors:pkg/bitio.endPos")
	add("C09.seek.zeroend", "C09.seek", zr, "\tcase io.SeekEnd:\n\t\tp = z.nBits + bitOffset", "\tcase io.SeekEnd:\n\t\tp = z.pos + bitOffset", "ZeroReadAtSeeker).SeekBits")
	add("C09.seek.zerolimit", "C09.seek", zr, "if p < 0 || p > z.nBits {", "if p < 0 || p >= z.nBits {", "ZeroReadAtSeeker.SeekBits:limits")
	add("C09.seek.multilimit", "C09.seek", mr, "if p < 0 || p > end {", "if p < 0 || p >= end {", "MultiReader.SeekBits:limits")
	add("C09.err.inverted", "C09.err", bin, "\t\tbv, err := vv.ToBinary()\n\t\tif err != nil {\n\t\t\treturn nil, err\n\t\t}\n\t\treturn bitiox.Range", "\t\tbv, err := vv.ToBinary()\n\t\tif err == nil {\n\t\t\treturn nil, err\n\t\t}\n\t\treturn bitiox.Range", "errors:toBitReaderEx")
	add("C09.bitiox.section", "C09.bitiox", "internal/bitiox/bitiox.go", "return bitio.NewSectionReader(br, firstBitOffset, nBits), nil", "return bitio.NewSectionReader(br, firstBitOffset, nBits-1), nil", "Range:section")
	add("C09.concat.endpos", "C09.concat", mr, "\te, err := rs.SeekBits(0, io.SeekEnd)", "\te, err := rs.SeekBits(0, io.SeekCurrent)", "endPos:end")
	add("C09.concat.cursor", "C09.concat", mr, "\tm.pos += n\n", "\tm.pos = n\n", "MultiReader).ReadBits:advance")
	add("C09.zero.eof", "C09.zero", zr, "\tif bitOff == z.nBits {\n\t\treturn 0, io.EOF\n\t}\n", "", "ReadBitsAt:inside")
	add("C09.byte.slowbits", "C09.byte", bin, "return bitio.NewBitReader(b[:], -1), nil", "return bitio.NewBitReader(b[:], 1), nil", "slow-reader")
	add("C09.byte.slowwide", "C09.byte", bin, "b := [1]byte{byte(n)}", "b := [2]byte{byte(n)}", "slow-reader")
	add("C09.byte.nilguard", "C09.byte", bin, "\t\t\tif bs == nil {\n\t\t\t\tbreak\n\t\t\t}\n", "", "fast-nil")
	add("C09.byte.nilresult", "C09.byte", bin, "\t\tif bs != nil {\n\t\t\treturn bitio.NewBitReader(bs.Bytes(), -1), nil", "\t\tif bs == nil {\n\t\t\treturn bitio.NewBitReader(bs.Bytes(), -1), nil", "fast-nil")
	add("C09.accept.zerohoist", "C09.accept", bin, "\t\tif inArray {\n\t\t\tif bi.Cmp", "\t\tif bi.BitLen() == 0 {\n\t\t\tvar z0 [1]byte\n\t\t\treturn bitio.NewBitReader(z0[:], 1), nil\n\t\t}\n\t\tif inArray {\n\t\t\tif bi.Cmp", "member-byte")
	add("C09.accept.membersign", "C09.accept", bin, "\t\tif inArray {\n\t\t\tif bi.Cmp", "\t\tif inArray && bi.Sign() != 0 {\n\t\t\tif bi.Cmp", "member-byte")
	add("C09.accept.rrlen", "C09.accept", bin, "rr := make([]bitio.ReadAtSeeker, 0, len(vv))", "rr := make([]bitio.ReadAtSeeker, len(vv))", "toBitReaderEx:concat")
	add("C09.unit.keypad", "C09.unit", bin, "return Binary{br: b.br, r: b.r, unit: 1}", "return Binary{br: b.br, r: b.r, unit: 1, pad: b.pad}", "JQValueKey:bits")
	add("C09.unit.slicepad", "C09.unit", bin, "\t\tunit: b.unit,\n\t}\n}\nfunc (b Binary) JQValueKey", "\t\tunit: b.unit,\n\t\tpad:  b.pad,\n\t}\n}\nfunc (b Binary) JQValueKey", "JQValueSlice")
	add("C09.unit.sliceshortcut", "C09.unit", bin, "\trStart := int64(start * b.unit)\n", "\tif start == 0 && end == b.JQValueLength().(int) {\n\t\treturn b\n\t}\n\trStart := int64(start * b.unit)\n", "returns:Binary).JQValueSlice")
	add("C09.unit.emptynew", "C09.unit", bin, "\treturn Binary{\n\t\tbr:   br,\n\t\tr:    ranges.Range{Start: 0, Len: l},", "\tif l == 0 {\n\t\treturn Binary{}, nil\n\t}\n\treturn Binary{\n\t\tbr:   br,\n\t\tr:    ranges.Range{Start: 0, Len: l},", "returns:pkg/interp.NewBinaryFromBitReader")
	add("C09.unit.tobinary", "C09.unit", bin, "func (b Binary) ToBinary() (Binary, error) {\n\treturn b, nil", "func (b Binary) ToBinary() (Binary, error) {\n\treturn Binary{br: b.br, r: b.r, unit: 8}, nil", "Binary.ToBinary")
	add("C09.num.tostring", "C09.num", bin, "func (b Binary) JQValueToString() any {\n\treturn b.JQValueToGoJQ()", "func (b Binary) JQValueToString() any {\n\treturn b.JQValueToNumber()", "JQValueToString")
	add("C09.num.indexreturn", "C09.num", bin, "\textraBits := uint((8 - b.unit%8) % 8)\n", "\tif buf.Len() == 0 {\n\t\treturn nil\n\t}\n\textraBits := uint((8 - b.unit%8) % 8)\n", "JQValueIndex:returns")
}
