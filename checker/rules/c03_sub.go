package rules

import (
	"go/token"
	"go/types"

	"golang.org/x/tools/go/ssa"

	"fqverif/fw"
)

// optsLit: the Options composite literal passed (by value) as a call argument.
func (c *c03x) optsLit(v ssa.Value) *ssa.Alloc {
	ld, ok := v.(*ssa.UnOp)
	if !ok || ld.Op != token.MUL {
		return nil
	}
	a, ok := ld.X.(*ssa.Alloc)
	if !ok || !c.isNamed(a.Type(), c.optsT) {
		return nil
	}
	return a
}

func (c *c03x) litBool(a *ssa.Alloc, field string) (val bool, ok bool) {
	v, ok := c.litField(a, field)
	if !ok {
		return false, false
	}
	if v == nil {
		return false, true
	}
	if c03IsConstBool(v, true) {
		return true, true
	}
	if c03IsConstBool(v, false) {
		return false, true
	}
	return false, false
}

type c03SubRow struct {
	fn       string
	reader   string // "d.bitBuf" | "param:<i>"
	isRoot   bool
	start    string // "pos" | "param:<i>" | "zero"
	length   string // "bitsleft" | "param:<i>" | "zero"
	advance  string // "dv.Range.Len" | "param:<i>" | "none"
	link     string // "dv" | "children"
	setStart bool   // dv.Range.Start = d.Pos() before linking (nested buffer placed at the parent's position)
}

var c03SubTable = []c03SubRow{
	{"Format", "d.bitBuf", false, "pos", "bitsleft", "dv.Range.Len", "children", false},
	{"TryFieldFormat", "d.bitBuf", false, "pos", "bitsleft", "dv.Range.Len", "dv", false},
	{"TryFieldFormatLen", "d.bitBuf", false, "pos", "param:2", "param:2", "dv", false},
	{"TryFieldFormatRange", "d.bitBuf", false, "param:2", "param:3", "none", "dv", false},
	{"TryFieldFormatBitBuf", "param:2", true, "zero", "zero", "none", "dv", true},
}

func c03ParamRef(f *ssa.Function, s string) ssa.Value {
	if len(s) > 6 && s[:6] == "param:" {
		i := int(s[6] - '0')
		if i < len(f.Params) {
			return f.Params[i]
		}
	}
	return nil
}

func c03Sub(r *fw.Run, c *c03x) {
	ru := r.Rule("C03.sub", "nested decodes: Format/TryFieldFormat/Len/Range decode on d.bitBuf with IsRoot=false and Range = {Pos(), BitsLeft()} / {Pos(), nBits} / {firstBit, nBits}, link the result (children for Format) and advance by the decoded length / nBits / not at all; TryFieldFormatBitBuf decodes the given buffer as a root and places it at d.Pos(); Field{Array,Struct}[RootBitBufFn] create the compound kind they name, link it before fn and (root variants) mark IsRoot before fn and defer postProcess before fn so that it also runs when fn fails; decode.Decode forwards to decode() and every outside caller decodes as a root with reader and Range from one binary value; a nested result is linked / advanced over only after dv != nil and dv.Errors() == nil were established; FieldArrayValue/FieldStructValue/FieldArrayLoop/FieldStructArrayLoop/FieldStructNArray return the compound kind (of the element kind) their name says", 50)
	p := c.p
	posFn := c.fn(ru, c03D+"Pos")
	blFn := c.fn(ru, c03D+"BitsLeft")
	addChild := c.fn(ru, c03D+"AddChild")
	decodeFn := c.fn(ru, "pkg/decode.decode")
	fieldDec := c.fn(ru, c03D+"fieldDecoder")
	postProc := c.fn(ru, c03Value+"postProcess")
	if posFn == nil || blFn == nil || addChild == nil || decodeFn == nil || fieldDec == nil || postProc == nil {
		return
	}
	for _, row := range c03SubTable {
		f := c.fn(ru, c03D+row.fn)
		if f == nil {
			continue
		}
		d := ssa.Value(f.Params[0])
		dcs := c.callsTo(f, decodeFn)
		if len(dcs) != 1 {
			ru.Undecided(row.fn+":decode-call", c.at(f), "expected exactly one decode() call")
			continue
		}
		dc := dcs[0]
		a := dc.Common().Args
		// reader
		okReader := false
		if row.reader == "d.bitBuf" {
			okReader = c.pathOf(a[1]).is(d, ".bitBuf")
		} else {
			okReader = c.canon(a[1]) == c03ParamRef(f, row.reader)
		}
		ru.Check(okReader, row.fn+":reader", p.Rel(dc.Pos()), "decodes "+row.reader, row.fn+": the nested decode does not read "+row.reader)
		lit := c.optsLit(a[3])
		if lit == nil {
			ru.Undecided(row.fn+":options", p.Rel(dc.Pos()), "Options argument is not a composite literal")
			continue
		}
		ir, ok := c.litBool(lit, "IsRoot")
		msg := "a same-buffer nested format must not be a buffer root (its fields would drop out of the parent's range fold and of the rebase)"
		if row.isRoot {
			msg = "a nested buffer must be decoded as a root (its ranges are relative to its own buffer)"
		}
		ru.Check(ok && ir == row.isRoot, row.fn+":isroot", p.Rel(dc.Pos()), "IsRoot constant as expected", row.fn+": Options.IsRoot is not the constant "+c03BoolStr(row.isRoot)+": "+msg)
		// range option
		s, l, ok := c.litRange(lit, "Range")
		okRange := ok
		if ok {
			chk := func(x *c03Lin, want string) bool {
				if x == nil {
					return false
				}
				switch want {
				case "zero":
					k, ok := x.isConst()
					return ok && k == 0
				case "pos":
					return c.linIsPos(x, posFn, d) != nil
				case "bitsleft":
					t, ok := c03SingleTerm(x)
					return ok && t.path == "" && c.isCallOf(t.root, blFn, d) != nil
				default:
					return c.linIsValue(x, c03ParamRef(f, want))
				}
			}
			okRange = chk(s, row.start) && chk(l, row.length)
		}
		ru.Check(okRange, row.fn+":range-option", p.Rel(dc.Pos()), "Range = {"+row.start+", "+row.length+"}", row.fn+": the nested decode's Range option is not {Start: "+row.start+", Len: "+row.length+"}: the nested tree is rebased to / limited by the wrong bits")
		// dv
		var dv ssa.Value
		for _, ref := range *dc.Referrers() {
			if ex, ok := ref.(*ssa.Extract); ok && ex.Index == 0 {
				dv = ex
			}
		}
		acs := c.callsTo(f, addChild)
		okLink := dv != nil && len(acs) == 1
		if okLink {
			ac := acs[0]
			okLink = c.canon(ac.Common().Args[0]) == d
			arg := ac.Common().Args[1]
			if row.link == "dv" {
				okLink = okLink && c.canon(arg) == dv
			} else {
				// element of (dv.V.(*Compound)).Children
				good := false
				if ld, ok := arg.(*ssa.UnOp); ok {
					if ia, ok := ld.X.(*ssa.IndexAddr); ok {
						pp := c.pathOf(ia.X)
						good = pp.path == ".Children" && c.compOf(pp.root, dv, ".V")
					}
				}
				okLink = okLink && good
			}
		}
		ru.Check(okLink, row.fn+":link", c.at(f), "result linked with AddChild", row.fn+": the decoded "+row.link+" is not what gets linked into d's value")
		// advance
		var seeks []*ssa.Call
		fw.EachInstr(f, func(ins ssa.Instruction) {
			call, ok := ins.(*ssa.Call)
			if !ok {
				return
			}
			if call.Common().IsInvoke() && call.Common().Method.Name() == "SeekBits" {
				seeks = append(seeks, call)
			} else if cal := call.Common().StaticCallee(); cal != nil && pkgRel(cal) == "pkg/decode" && (cal.Name() == "SeekRel" || cal.Name() == "SeekAbs" || cal.Name() == "TrySeekRel" || cal.Name() == "TrySeekAbs") {
				seeks = append(seeks, call)
			}
		})
		okAdv := false
		switch row.advance {
		case "none":
			okAdv = len(seeks) == 0
		default:
			if len(seeks) == 1 && seeks[0].Common().IsInvoke() && c.pathOf(seeks[0].Common().Value).is(d, ".bitBuf") {
				wh, ok := c03ConstInt(seeks[0].Common().Args[1])
				amt := seeks[0].Common().Args[0]
				if ok && wh == 1 && c03Before(dc, seeks[0]) {
					if row.advance == "dv.Range.Len" {
						okAdv = dv != nil && c.linIsPath(c.linOf(amt), dv, ".Range.Len")
					} else {
						okAdv = c.linIsValue(c.linOf(amt), c03ParamRef(f, row.advance))
					}
				}
			}
		}
		ru.Check(okAdv, row.fn+":advance", c.at(f), "position advance: "+row.advance, row.fn+": after the nested decode the position does not advance by "+row.advance+" (relative seek on d.bitBuf): following fields overlap or skip bits")
		// the nested result is adopted (linked / flattened into d, position advanced) only after it
		// was tested: dv != nil and dv.Errors() == nil, the failing arm raising or returning
		{
			errsFn := c.p.Fn(c03Value + "Errors")
			var adopt []ssa.Instruction
			for _, ac := range acs {
				adopt = append(adopt, ac)
			}
			for _, sk := range seeks {
				adopt = append(adopt, sk)
			}
			okNil, okErr := dv != nil && errsFn != nil && len(adopt) > 0, dv != nil && errsFn != nil && len(adopt) > 0
			if okNil {
				// classify a branch condition: which successor (0/1) is taken when the nested result
				// passed the test ("nil": dv != nil, "err": dv.Errors() == nil)
				classify := func(cond ssa.Value) (kind string, pass int) {
					g := c03Norm(fw.Guard{Cond: cond, True: true})
					bo, ok := g.Cond.(*ssa.BinOp)
					if !ok || (bo.Op != token.EQL && bo.Op != token.NEQ) {
						return "", 0
					}
					var other ssa.Value
					if isNilConst(bo.X) {
						other = bo.Y
					} else if isNilConst(bo.Y) {
						other = bo.X
					} else {
						return "", 0
					}
					nonNil, isNil := 0, 1 // successor taken when other is not nil / is nil
					if (bo.Op == token.NEQ) != g.True {
						nonNil, isNil = 1, 0
					}
					if c.canon(other) == dv {
						return "nil", nonNil
					}
					if c.isCallOf(other, errsFn, dv) != nil {
						return "err", isNil
					}
					return "", 0
				}
				// reaches: an adoption instruction is reachable from the decode call without taking a
				// pass edge of the given kind and without entering a block that never completes;
				// conditions merged into a boolean variable (failed := a || b) are followed per incoming edge
				reaches := func(kind string, target *ssa.BasicBlock) bool {
					type st struct{ b, from *ssa.BasicBlock }
					seen := map[st]bool{}
					var visit func(b, from *ssa.BasicBlock) bool
					visit = func(b, from *ssa.BasicBlock) bool {
						if fw.CurrentNR != nil && fw.CurrentNR.BlockFails(b) {
							return false
						}
						if b == target {
							return true
						}
						ifi, isIf := b.Instrs[len(b.Instrs)-1].(*ssa.If)
						key := st{b, nil}
						var cond ssa.Value
						if isIf {
							cond = ifi.Cond
							polarity := true
							for {
								u, ok := cond.(*ssa.UnOp)
								if !ok || u.Op != token.NOT {
									break
								}
								cond, polarity = u.X, !polarity
							}
							if ph, ok := cond.(*ssa.Phi); ok && ph.Block() == b && from != nil {
								key = st{b, from}
								for i, pr := range b.Preds {
									if pr == from {
										cond = ph.Edges[i]
									}
								}
							}
							if seen[key] {
								return false
							}
							seen[key] = true
							if k, isK := cond.(*ssa.Const); isK && (c03IsConstBool(k, true) || c03IsConstBool(k, false)) {
								taken := 0
								if c03IsConstBool(k, true) != polarity {
									taken = 1
								}
								return visit(b.Succs[taken], b)
							}
							k, pass := classify(cond)
							if !polarity {
								pass = 1 - pass
							}
							for i, sc := range b.Succs {
								if k == kind && i == pass {
									continue
								}
								if visit(sc, b) {
									return true
								}
							}
							return false
						}
						if seen[key] {
							return false
						}
						seen[key] = true
						for _, sc := range b.Succs {
							if visit(sc, b) {
								return true
							}
						}
						return false
					}
					return visit(dc.Block(), nil)
				}
				for _, a := range adopt {
					if a.Block() == dc.Block() || reaches("nil", a.Block()) {
						okNil = false
					}
					if a.Block() == dc.Block() || reaches("err", a.Block()) {
						okErr = false
					}
				}
			}
			ru.Check(okNil && okErr, row.fn+":adopt-after-test", c.at(f), "AddChild / position advance only behind dv != nil and dv.Errors() == nil", row.fn+": the result of the nested decode is linked into d (or the position advanced by its length) on a path that has not established "+map[bool]string{true: "dv.Errors() == nil", false: "dv != nil"}[okNil]+" (failing arm raising or returning): the partial tree of a failed nested decode is adopted as if it had succeeded, its error is lost and the outer decode goes on from the wrong bits")
		}
		if row.setStart {
			okSet := false
			if dv != nil {
				s, _, sts, _ := c.valueRange(f, c03Vpath{dv, ""})
				okSet = len(sts) == 1 && s != nil && c.linIsPos(s, posFn, d) != nil && len(acs) == 1 && c03Before(sts[0], acs[0])
				for _, fs := range c.fieldStores(f, c.valueT, "Range") {
					if fs.sub != ".Start" {
						okSet = false
					}
				}
			}
			ru.Check(okSet, row.fn+":placed-at-pos", c.at(f), "dv.Range.Start = d.Pos() before linking", row.fn+": the nested buffer root is not placed at the parent's current position (only Range.Start = d.Pos())")
		}
	}

	// entry points: every call of decode.Decode from outside pkg/decode
	if dec := c.fn(ru, "pkg/decode.Decode"); dec != nil {
		// the exported wrapper forwards its arguments unchanged
		fwd := c.callsTo(dec, decodeFn)
		okFwd := len(fwd) == 1
		if okFwd {
			for i, a := range fwd[0].Common().Args {
				if i >= len(dec.Params) || c.canon(a) != ssa.Value(dec.Params[i]) {
					okFwd = false
				}
			}
		}
		ru.Check(okFwd, "Decode:forwards", c.at(dec), "Decode(ctx, br, group, opts) = decode(ctx, br, group, opts)", "decode.Decode does not forward its arguments unchanged to decode()")
		nEntry := 0
		for _, F := range p.FqFunctions() {
			if pkgRel(F) == "pkg/decode" {
				continue
			}
			for _, call := range c.callsTo(F, dec) {
				nEntry++
				key := "entry|" + fw.ShortFn(F)
				lit := c.optsLit(call.Common().Args[3])
				if lit == nil {
					ru.Undecided(key, p.Rel(call.Pos()), "Options argument is not a composite literal")
					continue
				}
				ir, ok := c.litBool(lit, "IsRoot")
				rv, ok2 := c.litField(lit, "Range")
				good := ok && ir && ok2
				if good {
					// a sub-range of a binary: reader and range must come from the same value; a reader
					// that is itself a component of a (reader, range) value needs its range
					bp := c.pathOf(call.Common().Args[1])
					if rv != nil {
						rp := c.pathOf(rv)
						good = rp.root == bp.root && rp.root != nil && rp.path != "" && bp.path != ""
					} else {
						good = bp.path == ""
					}
				}
				ru.Check(good, key, p.Rel(call.Pos()), "IsRoot: true; reader and Range taken from the same binary value", fw.ShortFn(F)+": a top-level decode is not a root decode (no postProcess: unsorted fields, no indices, unfolded ranges) or decodes a Range that belongs to another reader")
			}
		}
		if nEntry == 0 {
			ru.Undecided("entry", "", "no call of decode.Decode outside pkg/decode")
		}
	}

	c03SubWrappers(ru, c)
	// compound constructors
	for _, k := range []struct {
		fn      string
		isArray bool
		root    bool
	}{{"FieldArray", true, false}, {"FieldStruct", false, false}, {"FieldArrayRootBitBufFn", true, true}, {"FieldStructRootBitBufFn", false, true}} {
		f := c.fn(ru, c03D+k.fn)
		if f == nil {
			continue
		}
		d := ssa.Value(f.Params[0])
		fnp := ssa.Value(f.Params[len(f.Params)-1])
		fdc := c.callsTo(f, fieldDec)
		fcs := c.dynCallsOf(f, fnp)
		acs := c.callsTo(f, addChild)
		if len(fdc) != 1 || len(fcs) != 1 || len(acs) != 1 {
			ru.Undecided(k.fn+":shape", c.at(f), "expected one fieldDecoder call, one fn call and one AddChild call")
			continue
		}
		cd := ssa.Value(fdc[0])
		fa := fdc[0].Common().Args
		okKind := false
		if al, ok := c.canon(fa[3]).(*ssa.Alloc); ok && c.isNamed(al.Type(), c.compT) {
			v, ok := c.litBool(al, "IsArray")
			okKind = ok && v == k.isArray
		}
		ru.Check(okKind, k.fn+":kind", c.at(f), "Compound{IsArray: "+c03BoolStr(k.isArray)+"}", k.fn+": creates a compound whose IsArray is not "+c03BoolStr(k.isArray)+": arrays would be range-sorted and name-checked / structs would keep no names and get indices")
		okReader := false
		if k.root {
			okReader = c.canon(fa[2]) == ssa.Value(f.Params[2])
		} else {
			okReader = c.pathOf(fa[2]).is(d, ".bitBuf")
		}
		okShape := c.canon(fa[0]) == d && c.canon(fa[1]) == ssa.Value(f.Params[1]) && okReader &&
			c.canon(acs[0].Common().Args[0]) == d && c.pathOf(acs[0].Common().Args[1]).is(cd, ".Value") &&
			c.canon(fcs[0].Common().Args[0]) == cd && c03Before(acs[0], fcs[0])
		ru.Check(okShape, k.fn+":link-before-fn", c.at(f), "fieldDecoder(name, reader, c); AddChild(cd.Value); fn(cd)", k.fn+": the new compound is not created on the expected reader, linked into d and then handed to fn")
		if k.root {
			iv, ist, in := c.storedField(f, "Value", c03Vpath{cd, ".Value"}, "IsRoot")
			// postProcess must also run when fn fails with a decode error (partial tree of the nested
			// buffer: the parent root's walk does not descend into it): it has to be deferred before fn
			var defers []*ssa.Defer
			plain := 0
			fw.EachInstr(f, func(ins ssa.Instruction) {
				switch x := ins.(type) {
				case *ssa.Defer:
					if x.Call.StaticCallee() == postProc {
						defers = append(defers, x)
					}
				case *ssa.Call:
					if x.Call.StaticCallee() == postProc {
						plain++
					}
				}
			})
			okRoot := in == 1 && c03IsConstBool(iv, true) && c03Before(ist, fcs[0])
			ru.Check(okRoot, k.fn+":root-before-fn", c.at(f), "IsRoot = true before fn", k.fn+": the nested buffer compound is not marked IsRoot before fn runs")
			okPP := len(defers) == 1 && c.pathOf(defers[0].Call.Args[0]).is(cd, ".Value") && c03Before(defers[0], fcs[0])
			why := "is not post-processed (range fold, sort, indices)"
			if len(defers) == 0 && plain > 0 {
				why = "is post-processed only when fn returns normally: when fn stops with a decode error the partial tree of the nested buffer keeps index 0 for every array element, unsorted fields and unfolded ranges (the parent root's walk does not descend into nested roots)"
			}
			ru.Check(okPP, k.fn+":postprocess-deferred", c.at(f), "defer cd.Value.postProcess() registered before fn", k.fn+": the nested buffer compound "+why)
		}
	}
}

// c03Wrappers: the convenience constructors built on FieldArray / FieldStruct. outer = the compound
// they create and return; elem = the compound they create per element inside it ("" = caller's fn decides).
var c03Wrappers = []struct{ fn, outer, elem string }{
	{"FieldArrayValue", "FieldArray", ""},
	{"FieldStructValue", "FieldStruct", ""},
	{"FieldArrayLoop", "FieldArray", ""},
	{"FieldStructArrayLoop", "FieldArray", "FieldStruct"},
	{"FieldStructNArray", "FieldArray", "FieldStruct"},
}

// c03SubWrappers: each wrapper creates the compound kind its name says: exactly one call of the outer
// constructor on its own receiver with its name parameter, whose result it returns; no other compound
// constructor on the receiver; element wrappers create every element with the element constructor
// (structName, fn) on the array's decoder, inside the closure handed to the outer constructor.
func c03SubWrappers(ru *fw.Rule, c *c03x) {
	p := c.p
	ctors := map[string]*ssa.Function{}
	for _, n := range []string{"FieldArray", "FieldStruct"} {
		ctors[n] = c.fn(ru, c03D+n)
		if ctors[n] == nil {
			return
		}
	}
	for _, w := range c03Wrappers {
		f := c.fn(ru, c03D+w.fn)
		if f == nil {
			continue
		}
		d, name := ssa.Value(f.Params[0]), ssa.Value(f.Params[1])
		good, why := true, ""
		var outer *ssa.Call
		for kind, ctor := range ctors {
			for _, call := range c.callsTo(f, ctor) {
				if kind != w.outer {
					good, why = false, "calls "+kind+" on its receiver"
					continue
				}
				if outer != nil {
					good, why = false, "creates more than one compound"
				}
				outer = call
			}
		}
		if outer == nil {
			good, why = false, "does not call "+w.outer
		} else {
			a := outer.Common().Args
			if c.canon(a[0]) != d || c.canon(a[1]) != name {
				good, why = false, w.outer+" is not called on the receiver with the name parameter"
			}
			fw.EachInstr(f, func(ins ssa.Instruction) {
				if ret, ok := ins.(*ssa.Return); ok && c.canon(ret.Results[0]) != ssa.Value(outer) {
					good, why = false, "does not return the compound it created"
				}
			})
			K := c.closureFn(a[2])
			if K == nil || K.Parent() != f || len(K.Params) != 1 {
				good, why = false, "the function handed to "+w.outer+" is not a closure of the wrapper"
			} else {
				kd := ssa.Value(K.Params[0])
				nElem := 0
				for kind, ctor := range ctors {
					for _, kf := range fw.WithClosures(K) {
						for _, call := range c.callsTo(kf, ctor) {
							if kind != w.elem {
								good, why = false, "creates "+kind+" elements"
								continue
							}
							nElem++
							ea := call.Common().Args
							if c.canon(ea[0]) != kd || len(f.Params) < 3 || c.canon(ea[1]) != ssa.Value(f.Params[2]) || c.canon(ea[2]) != ssa.Value(f.Params[len(f.Params)-1]) {
								good, why = false, "elements are not "+w.elem+"(structName, fn) on the array's decoder"
							}
						}
					}
				}
				if w.elem != "" && nElem != 1 {
					good, why = false, "does not create its elements with "+w.elem
				}
			}
		}
		ru.Check(good, w.fn+":delegates", c.at(f), "returns "+w.outer+"(name, ...)"+map[bool]string{true: " of " + w.elem + "(structName, fn) elements", false: ""}[w.elem != ""], w.fn+" "+why+": the compound it hands back is not the kind its name promises (a struct keeps names, is checked for duplicates and sorted by range; an array keeps decode order and gets indices)")
	}
	_ = p
}

func c03BoolStr(b bool) string {
	if b {
		return "true"
	}
	return "false"
}

// ---------------------------------------------------------------------------
// C03.rebase

func c03Rebase(r *fw.Run, c *c03x) {
	ru := r.Rule("C03.rebase", "decode(): the format decodes on bitiox.Range(br, decodeRange.Start, decodeRange.Len) (whole buffer when the option is zero); afterwards one walk adds decodeRange.Start to Range.Start of every value of this root (taking the un-rebased extent first) and of nested buffer roots linked below it, without touching their insides; root Range = {decodeRange.Start, extent}; FillGaps runs before the walk; postProcess runs after it under exactly opts.IsRoot; no tree is returned without these steps", 12)
	p := c.p
	f := c.fn(ru, "pkg/decode.decode")
	newDec := c.fn(ru, "pkg/decode.newDecoder")
	postProc := c.fn(ru, c03Value+"postProcess")
	fillGaps := c.fn(ru, c03D+"FillGaps")
	if f == nil || newDec == nil || postProc == nil || fillGaps == nil {
		return
	}
	if len(f.Params) != 4 {
		ru.Undecided("decode:signature", c.at(f), "decode signature changed")
		return
	}
	br, opts := ssa.Value(f.Params[1]), ssa.Value(f.Params[3])

	// decodeRange cell
	var DR *ssa.Alloc
	nDR := 0
	fw.EachInstr(f, func(ins ssa.Instruction) {
		a, ok := ins.(*ssa.Alloc)
		if !ok || !c.isNamed(a.Type(), c.rangeT) {
			return
		}
		for _, w := range c.cell(a).whole {
			if c.pathOf(w.Val).is(opts, ".Range") {
				DR = a
				nDR++
			}
		}
	})
	if nDR != 1 {
		ru.Undecided("decode:decode-range", c.at(f), "cannot identify the decode range (a Range variable initialised from opts.Range)")
		return
	}
	// default: whole buffer when zero
	okDef := true
	nDef := 0
	isZeroGuard := func(b *ssa.BasicBlock) bool {
		v, found := c03GuardOn(b, func(cond ssa.Value) bool {
			call, ok := cond.(*ssa.Call)
			return ok && c.isRangeMethod(call, "IsZero") && c.pathOf(call.Common().Args[0]).is(DR, "")
		})
		return found && v
	}
	brLen := func(v ssa.Value) bool {
		ex, ok := c.canon(v).(*ssa.Extract)
		if !ok || ex.Index != 0 {
			return false
		}
		call, ok := ex.Tuple.(*ssa.Call)
		return ok && fw.CalleeName(call) == fw.Mod+"/internal/bitiox.Len" && c.canon(call.Common().Args[0]) == br
	}
	for _, fn := range fw.WithClosures(f) {
		fw.EachInstr(fn, func(ins ssa.Instruction) {
			st, ok := ins.(*ssa.Store)
			if !ok {
				return
			}
			ap := c03Vpath{}
			switch st.Addr.(type) {
			case *ssa.Alloc, *ssa.FreeVar, *ssa.FieldAddr:
				ap = c.addrPath(st.Addr)
			default:
				return
			}
			if ap.root != ssa.Value(DR) {
				return
			}
			if ap.path == "" && c.pathOf(st.Val).is(opts, ".Range") {
				return // initialisation
			}
			nDef++
			if fn != f || !isZeroGuard(st.Block()) {
				okDef = false
				return
			}
			switch ap.path {
			case "":
				if k, ok := st.Val.(*ssa.Const); !ok || k.Value != nil {
					s, l := c.rangeParts(st.Val, 0)
					sz, sok := s.isConst()
					if !(sok && sz == 0 && l != nil && len(l.t) == 1) {
						okDef = false
					}
				}
			case ".Len":
				if !brLen(st.Val) {
					okDef = false
				}
			case ".Start":
				if k, ok := c03ConstInt(st.Val); !ok || k != 0 {
					okDef = false
				}
			default:
				okDef = false
			}
		})
	}
	ru.Check(okDef && nDef >= 1, "decode:default-range", c.at(f), "zero option => {0, len(br)}", "decode(): the decode range is changed other than `zero option => Range{0, length of br}`")

	// sub-reader
	var rcs []*ssa.Call
	for _, call := range c03CallsNamed(f, fw.Mod+"/internal/bitiox.Range") {
		rcs = append(rcs, call)
	}
	ndc := c.callsTo(f, newDec)
	if len(rcs) != 1 || len(ndc) != 1 {
		ru.Undecided("decode:sub-reader", c.at(f), "expected one bitiox.Range call and one newDecoder call")
		return
	}
	rc, nd := rcs[0], ssa.Value(ndc[0])
	ra := rc.Common().Args
	ru.Check(c.canon(ra[0]) == br && c.pathOf(ra[1]).is(DR, ".Start") && c.pathOf(ra[2]).is(DR, ".Len"), "decode:sub-reader", p.Rel(rc.Pos()),
		"bitiox.Range(br, decodeRange.Start, decodeRange.Len)", "decode(): the format does not decode on the window [decodeRange.Start, +decodeRange.Len) of br: its positions are not relative to the start that is added back by the rebase")
	okND := false
	if ex, ok := c.canon(ndc[0].Common().Args[2]).(*ssa.Extract); ok && ex.Tuple == ssa.Value(rc) && ex.Index == 0 {
		okND = true
	}
	ru.Check(okND, "decode:decoder-on-sub-reader", p.Rel(ndc[0].Pos()), "newDecoder(..., sub-reader, ...)", "decode(): the decoder is not created on the sub-reader")

	// the rebase walk
	var walk *ssa.Call
	nWalk := 0
	var W *ssa.Function
	fw.EachInstr(f, func(ins ssa.Instruction) {
		call, ok := ins.(*ssa.Call)
		if !ok {
			return
		}
		cal := call.Common().StaticCallee()
		if cal == nil || cal.Signature.Recv() == nil || !c.isNamed(cal.Signature.Recv().Type(), c.valueT) || len(cal.Name()) < 4 || cal.Name()[:4] != "Walk" {
			return
		}
		nWalk++
		walk = call
	})
	if nWalk != 1 {
		ru.Undecided("decode:walk", c.at(f), "expected exactly one Walk* call in decode()")
		return
	}
	wname := walk.Common().StaticCallee().Name()
	oneRoot := wname == "WalkRootPreOrder" || wname == "WalkRootPostOrder"
	okWalkRecv := c.pathOf(walk.Common().Args[0]).is(nd, ".Value")
	if mc, ok := c.canon(walk.Common().Args[1]).(*ssa.MakeClosure); ok {
		W = mc.Fn.(*ssa.Function)
	}
	if W == nil || len(W.Params) < 1 {
		ru.Undecided("decode:walk-fn", p.Rel(walk.Pos()), "walk function is not a closure of decode()")
		return
	}
	v := ssa.Value(W.Params[0])

	// Case analysis of the walk function by the kind of value it is called on: a value of this
	// buffer root (IsRoot false, or the start value d.Value itself) and - when the walk enters
	// nested roots at all - a nested buffer root (IsRoot true, not the start value). Branches on
	// v.IsRoot and on v ==/!= d.Value are followed according to the case.
	type wcase struct{ isRoot, isStart bool }
	cutsFor := func(cs wcase) map[[2]*ssa.BasicBlock]bool {
		cut := map[[2]*ssa.BasicBlock]bool{}
		for _, b := range W.Blocks {
			ifi, ok := b.Instrs[len(b.Instrs)-1].(*ssa.If)
			if !ok {
				continue
			}
			g := c03Norm(fw.Guard{Cond: ifi.Cond, True: true})
			known, val := false, false
			if c.pathOf(g.Cond).is(v, ".IsRoot") {
				known, val = true, cs.isRoot
			} else if bo, ok := g.Cond.(*ssa.BinOp); ok && (bo.Op == token.EQL || bo.Op == token.NEQ) {
				x, y := c.canon(bo.X), c.canon(bo.Y)
				px, py := c.pathOf(bo.X), c.pathOf(bo.Y)
				if (x == v && py.is(nd, ".Value")) || (y == v && px.is(nd, ".Value")) {
					known, val = true, (bo.Op == token.EQL) == cs.isStart
				}
			}
			if !known {
				continue
			}
			if !g.True {
				val = !val
			}
			if val {
				cut[[2]*ssa.BasicBlock{b, b.Succs[1]}] = true
			} else {
				cut[[2]*ssa.BasicBlock{b, b.Succs[0]}] = true
			}
		}
		return cut
	}
	type wfacts struct {
		startStores []*ssa.Store // v.Range.Start = v.Range.Start + decodeRange.Start
		otherRange  int          // any other store into v.Range
		readerOK    int          // v.RootReader = br
		readerBad   int
		minmax      []*ssa.Call
		retNil      int
		retSkip     int
		retOther    int
		mustStart   bool // the Start store lies on every path to a return
		mustReader  bool
	}
	wantStart := c03LinTerm(v, ".Range.Start").plus(c03LinTerm(DR, ".Start"))
	analyse := func(cs wcase) wfacts {
		cut := cutsFor(cs)
		var fa wfacts
		reach := map[*ssa.BasicBlock]bool{}
		for _, b := range W.Blocks {
			if c03ReachesAvoiding(W.Blocks[0], b, nil, cut) {
				reach[b] = true
			}
		}
		var readerSt []*ssa.Store
		for _, fs := range c.fieldStores(W, c.valueT, "Range") {
			if !reach[fs.st.Block()] {
				continue
			}
			if fs.base.is(v, "") && fs.sub == ".Start" && c.linOf(fs.st.Val).equal(wantStart) {
				fa.startStores = append(fa.startStores, fs.st)
			} else {
				fa.otherRange++
			}
		}
		for _, fs := range c.fieldStores(W, c.valueT, "RootReader") {
			if !reach[fs.st.Block()] {
				continue
			}
			if fs.base.is(v, "") && fs.sub == "" && c.canon(fs.st.Val) == br {
				fa.readerOK++
				readerSt = append(readerSt, fs.st)
			} else {
				fa.readerBad++
			}
		}
		for _, mm := range c03CallsNamed(W, fw.Mod+"/pkg/ranges.MinMax") {
			if reach[mm.Block()] {
				fa.minmax = append(fa.minmax, mm)
			}
		}
		var rets []*ssa.BasicBlock
		for b := range reach {
			ret, ok := b.Instrs[len(b.Instrs)-1].(*ssa.Return)
			if !ok {
				continue
			}
			rets = append(rets, b)
			rv := ret.Results[0]
			switch {
			case isNilConst(rv):
				fa.retNil++
			case c03IsGlobalLoad(rv, fw.Mod+"/pkg/decode", "ErrWalkSkipChildren"):
				fa.retSkip++
			default:
				fa.retOther++
			}
		}
		must := func(sts []*ssa.Store) bool {
			if len(sts) != 1 {
				return false
			}
			avoid := map[*ssa.BasicBlock]bool{sts[0].Block(): true}
			for _, rb := range rets {
				if c03ReachesAvoiding(W.Blocks[0], rb, avoid, cut) {
					return false
				}
			}
			return true
		}
		fa.mustStart = must(fa.startStores)
		fa.mustReader = must(readerSt)
		return fa
	}
	sameRoot := []wcase{{false, false}, {false, true}, {true, true}}
	okRebase, okReader, okExt := true, true, true
	var MM *ssa.Alloc
	for _, cs := range sameRoot {
		fa := analyse(cs)
		if !(len(fa.startStores) == 1 && fa.otherRange == 0 && fa.mustStart && fa.retSkip == 0 && fa.retOther == 0 && fa.retNil >= 1) {
			okRebase = false
		}
		if !(fa.readerOK == 1 && fa.readerBad == 0 && fa.mustReader) {
			okReader = false
		}
		// extent
		if len(fa.minmax) != 1 || len(fa.startStores) != 1 {
			okExt = false
			continue
		}
		mm := fa.minmax[0]
		var vload *ssa.UnOp // the instruction that reads v.Range (directly, or into a snapshot local)
		var cell *ssa.Alloc
		for _, a := range mm.Common().Args {
			ld, ok := a.(*ssa.UnOp)
			if !ok {
				okExt = false
				continue
			}
			if c.pathOf(ld).is(v, ".Range") {
				vload = ld
				// old := v.Range; ... MinMax(extent, old): the read happens where the snapshot is taken
				if cl := c.cellOf(ld.X); cl != nil {
					vload = nil
					if sv := c.singleVal(cl); sv != nil {
						if sl, ok := c.canon(sv).(*ssa.UnOp); ok && sl.Op == token.MUL && sl.Parent() == W {
							vload = sl
						}
					}
				}
			} else if cl := c.cellOf(ld.X); cl != nil && c.isNamed(cl.Type(), c.rangeT) && cl != DR {
				cell = cl
			}
		}
		if cell == nil || vload == nil || !c03Before(vload, fa.startStores[0]) || (MM != nil && MM != cell) {
			okExt = false
			continue
		}
		MM = cell
		ci := c.cell(MM)
		if ci.partial || len(ci.whole) != 1 || ci.whole[0].Val != ssa.Value(mm) || MM.Parent() != f {
			okExt = false
		}
	}
	ru.Check(okRebase, "decode:rebase", c.at(W), "v.Range.Start += decodeRange.Start on every value of this root", "decode(): for a value of this buffer root the walk does not do exactly v.Range.Start += decodeRange.Start (once, Len untouched) and continue: values of a nested format report bits of the wrong place")
	ru.Check(okReader, "decode:rebase-reader", c.at(W), "v.RootReader = br", "decode(): rebased values do not get the outer reader br as RootReader (ranges are relative to br after the rebase)")
	ru.Check(okExt, "decode:extent-before-rebase", c.at(W), "extent = MinMax(extent, v.Range) read before the Start update; extent starts as zero", "decode(): the extent of the decoded values is not the MinMax fold of the un-rebased ranges starting from 0:0 (taken before Start is rebased): the root's length is wrong for nested formats")
	// nested buffer roots linked below this root (FieldRootBitBuf, Field*RootBitBufFn, TryFieldFormatBitBuf)
	// carry Range.Start = position in THIS decode's sub-reader: they need the same offset, their
	// subtrees (own coordinates, own reader) must stay untouched.
	nested := analyse(wcase{true, false})
	okNestedScope := okWalkRecv && (oneRoot || (nested.otherRange == 0 && nested.readerOK == 0 && nested.readerBad == 0 && len(nested.minmax) == 0 && nested.retNil == 0 && nested.retOther == 0 && nested.retSkip >= 1))
	ru.Check(okNestedScope, "decode:walk-scope", p.Rel(walk.Pos()), "the walk never touches the inside of nested buffer roots",
		"decode(): the rebase walk ("+wname+") enters nested buffer roots (they keep their own coordinates and reader): it must be a one-root walk, or stop at a nested root with ErrWalkSkipChildren after moving only its Start")
	okNested := okNestedScope && !oneRoot && len(nested.startStores) == 1 && nested.mustStart
	whyNested := "the walk function does not add decodeRange.Start to a nested root's Range.Start"
	if oneRoot {
		whyNested = "the one-root walk returns before calling the function on a nested root (Walk: `OneRoot && wv != start && wv.IsRoot` precedes Fn), and nothing else in decode() moves it"
	}
	ru.Check(okNested, "decode:nested-roots-rebased", p.Rel(walk.Pos()), "nested root values get Range.Start += decodeRange.Start",
		"decode(): a nested buffer root linked inside a nested format keeps Range.Start relative to the nested format's start instead of the outer buffer ("+whyNested+"): its _start is wrong by decodeRange.Start and its parent struct sorts it before fields that precede it")
	// root range
	s, l, rst, ok := c.valueRange(f, c03Vpath{nd, ".Value"})
	okRoot := ok && len(rst) == 1 && MM != nil && c.linIsPath(s, DR, ".Start") && c.linIsPath(l, MM, ".Len") && c03Before(walk, rst[0])
	rootDesc := ""
	if s != nil && l != nil {
		rootDesc = " (is " + c.showLin(s) + " : " + c.showLin(l) + ")"
	}
	ru.Check(okRoot, "decode:root-range", c.at(f), "d.Value.Range = {decodeRange.Start, extent.Len} after the walk", "decode(): the root value's range is not {decodeRange.Start, extent of its values}, set after the walk"+rootDesc)
	// FillGaps before the walk
	fgs := c.callsTo(f, fillGaps)
	okFG := len(fgs) == 1
	if okFG {
		fg := fgs[0]
		fs, fl := c.rangeParts(fg.Common().Args[1], 0)
		z, zok := fs.isConst()
		okFG = c.canon(fg.Common().Args[0]) == nd && zok && z == 0 && c.linIsPath(fl, DR, ".Len")
		if fg.Block() == walk.Block() {
			okFG = okFG && c03Before(fg, walk)
		} else {
			avoid := map[*ssa.BasicBlock]bool{walk.Block(): true}
			for _, b := range f.Blocks {
				_, isRet := b.Instrs[len(b.Instrs)-1].(*ssa.Return)
				if (isRet || b == ndc[0].Block()) && c03ReachesAvoiding(fg.Block(), b, avoid, nil) {
					okFG = false
				}
			}
		}
	}
	ru.Check(okFG, "decode:fillgaps-before-walk", c.at(f), "FillGaps({0, decodeRange.Len}) then walk", "decode(): gap fields are not added for [0, decodeRange.Len) before the rebase walk (gap ranges would miss the rebase / cover the wrong bits)")
	// postProcess
	pcs := c.callsTo(f, postProc)
	if len(pcs) != 1 || len(rst) != 1 {
		ru.Fail("decode:postprocess", c.at(f), "decode() does not call postProcess exactly once")
		return
	}
	pc := pcs[0]
	okPP := c.pathOf(pc.Common().Args[0]).is(nd, ".Value") && c03Before(rst[0], pc)
	hasIsRoot := false
	base := map[*ssa.If]bool{}
	for _, g := range fw.Guards(rst[0].Block()) {
		base[g.If] = true
	}
	extra := ""
	for _, g := range fw.Guards(pc.Block()) {
		gn := c03Norm(g)
		if c.pathOf(gn.Cond).is(opts, ".IsRoot") && gn.True {
			hasIsRoot = true
			continue
		}
		if !base[g.If] {
			okPP = false
			extra = "an additional condition"
		}
	}
	ru.Check(okPP && hasIsRoot, "decode:postprocess", p.Rel(pc.Pos()), "postProcess(d.Value) after rebase, under opts.IsRoot only", "decode(): postProcess is not run on d.Value after the rebase under exactly `opts.IsRoot` ("+extra+"): some root trees (e.g. failed/partial decodes) stay unsorted, without indices and folded ranges")
	// no tree escapes before
	okRet := true
	cut := map[[2]*ssa.BasicBlock]bool{}
	for _, b := range f.Blocks {
		ifi, ok := b.Instrs[len(b.Instrs)-1].(*ssa.If)
		if !ok {
			continue
		}
		g := c03Norm(fw.Guard{Cond: ifi.Cond, True: true})
		if c.pathOf(g.Cond).is(opts, ".IsRoot") {
			if g.True {
				cut[[2]*ssa.BasicBlock{b, b.Succs[1]}] = true
			} else {
				cut[[2]*ssa.BasicBlock{b, b.Succs[0]}] = true
			}
		}
	}
	nTree := 0
	for _, b := range f.Blocks {
		ret, ok := b.Instrs[len(b.Instrs)-1].(*ssa.Return)
		if !ok {
			continue
		}
		if k, ok := ret.Results[0].(*ssa.Const); ok && k.IsNil() {
			continue
		}
		nTree++
		if !c03Before(rst[0], ret) || !c.pathOf(ret.Results[0]).is(nd, ".Value") {
			okRet = false
		}
		if c03ReachesAvoiding(f.Blocks[0], b, map[*ssa.BasicBlock]bool{pc.Block(): true}, cut) {
			okRet = false
		}
	}
	ru.Check(okRet && nTree >= 1, "decode:no-unfinished-tree", c.at(f), "every returned tree passed rebase, root range and (for roots) postProcess", "decode(): a path returns a tree that skipped the rebase / root range / postProcess (partial trees of failed decodes included)")
	_ = types.Typ
}

// isGlobalLoad: v is a load of the named package-level variable.
func c03IsGlobalLoad(v ssa.Value, pkgPath, name string) bool {
	ld, ok := v.(*ssa.UnOp)
	if !ok || ld.Op != token.MUL {
		return false
	}
	g, ok := ld.X.(*ssa.Global)
	return ok && g.Name() == name && g.Pkg != nil && g.Pkg.Pkg.Path() == pkgPath
}
