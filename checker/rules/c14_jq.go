package rules

import (
	"fmt"
	"regexp/syntax"
	"strconv"
	"strings"
	"unicode"

	"github.com/wader/gojq"

	"fqverif/fw"
)

// c14ObjLit returns the constant string entries of an object literal query {k: "v", ...}
// (only when every value is a string literal).
func c14ObjLit(q *gojq.Query) (map[string]string, bool) {
	if q == nil || q.Term == nil || q.Left != nil || q.Term.Type != gojq.TermTypeObject || q.Term.Object == nil || len(q.Term.SuffixList) > 0 {
		return nil, false
	}
	out := map[string]string{}
	for _, kv := range q.Term.Object.KeyVals {
		k := kv.Key
		if k == "" && kv.KeyString != nil && len(kv.KeyString.Queries) == 0 {
			k = kv.KeyString.Str
		}
		v, ok := fw.JQConstString(kv.Val)
		if k == "" || !ok {
			return nil, false
		}
		out[k] = v
	}
	return out, true
}

// c14SoleCall: the def body is exactly one call name(args).
func c14SoleCall(d *fw.JQDef) *gojq.Func {
	if len(d.Def.Body.FuncDefs) > 0 {
		return nil
	}
	return fw.JQIsCall(d.Def.Body, "", -1)
}

func c14JQPos(d *fw.JQDef) string { return d.File.Rel + ":" + d.Key() }

func c14Pair(cx *c14Ctx) {
	ru := cx.r.Rule("C14.pair", "jq wrappers: to_X/from_X pass the same option literal to the matching _to_/_from_ primitive, the literal names X and is a label of the Go selector; hash wrappers to_L pass {name:L}; base64 defaults and arity-0 forms agree on both sides; compat aliases dispatch (to_X; from_X); F/0 delegates to the same primitive as F/1; to_pem/from_pem pass the same base64 variant; defaults are added to the left of the caller's options", 42)
	jq := cx.jq

	// (1) string encodings and hashes: def to_X: _to_strencoding({encoding: L});
	type side struct {
		def   *fw.JQDef
		label string
	}
	toEnc, fromEnc := map[string]side{}, map[string]side{}
	for _, d := range jq.Defs {
		if d.Parent != nil || len(d.Def.Args) != 0 {
			continue
		}
		call := c14SoleCall(d)
		if call == nil || len(call.Args) != 1 {
			continue
		}
		obj, ok := c14ObjLit(call.Args[0])
		if !ok {
			continue
		}
		name := d.Def.Name
		switch call.Name {
		case "_to_strencoding", "_from_strencoding":
			label, has := obj["encoding"]
			key := "strencoding:" + name
			if !has {
				ru.Fail(key, c14JQPos(d), name+" calls "+call.Name+" without an encoding literal")
				continue
			}
			dir := strings.TrimSuffix(strings.TrimPrefix(call.Name, "_"), "strencoding") // "to_" / "from_"
			var problems []string
			if !strings.HasPrefix(name, dir) {
				problems = append(problems, "calls "+call.Name+", the opposite direction of its name")
			} else if x := strings.TrimPrefix(name, dir); strings.ToLower(label) != x {
				problems = append(problems, fmt.Sprintf("passes encoding %q, which does not name %s", label, x))
			}
			if cx.strLabels != nil && len(cx.strLabels) > 0 && !cx.strLabels[label] {
				problems = append(problems, fmt.Sprintf("encoding %q is not a case of the Go string-encoding selector (runtime error for every input)", label))
			}
			ru.Check(len(problems) == 0, key, c14JQPos(d), call.Name+"({encoding:"+label+"})", strings.Join(problems, "; "))
			x := strings.TrimPrefix(name, dir)
			if dir == "to_" {
				toEnc[x] = side{d, label}
			} else {
				fromEnc[x] = side{d, label}
			}
		case "_to_hash":
			label, has := obj["name"]
			key := "hash:" + name
			var problems []string
			if !has {
				problems = append(problems, "no name literal")
			} else {
				if name != "to_"+label {
					problems = append(problems, fmt.Sprintf("passes name %q, which is not the hash its name says", label))
				}
				if len(cx.hashLabels) > 0 && !cx.hashLabels[label] {
					problems = append(problems, fmt.Sprintf("name %q is not a case of the Go hash selector", label))
				}
			}
			ru.Check(len(problems) == 0, key, c14JQPos(d), "_to_hash({name:"+label+"})", strings.Join(problems, "; "))
		}
	}
	for _, x := range fw.SortedKeys(toEnc) {
		t := toEnc[x]
		f, ok := fromEnc[x]
		if !ok {
			continue // one-directional wrappers are allowed
		}
		ru.Check(t.label == f.label, "strencoding-pair:"+x, c14JQPos(t.def), "both "+t.label,
			fmt.Sprintf("to_%s encodes with %q but from_%s decodes with %q", x, t.label, x, f.label))
	}

	// (2) base64: option literals agree between the directions
	b64Arg := func(name string, arity int) (*fw.JQDef, *gojq.Func) {
		d := jq.Def("format/text/encoding.jq", name, arity)
		if d == nil {
			return nil, nil
		}
		return d, c14SoleCall(d)
	}
	for _, arity := range []int{0, 1} {
		td, tc := b64Arg("to_base64", arity)
		fd, fc := b64Arg("from_base64", arity)
		key := fmt.Sprintf("base64/%d", arity)
		if td == nil || fd == nil {
			ru.Undecided(key, "", "to_base64 or from_base64 not defined at this arity")
			continue
		}
		if tc == nil || fc == nil || len(tc.Args) != 1 || len(fc.Args) != 1 {
			ru.Undecided(key, c14JQPos(td), "wrapper is not a single primitive call")
			continue
		}
		var problems []string
		if tc.Name != "_to_base64" {
			problems = append(problems, "to_base64 calls "+tc.Name)
		}
		if fc.Name != "_from_base64" {
			problems = append(problems, "from_base64 calls "+fc.Name)
		}
		if a, b := c14JQStrNorm(td, tc.Args[0]), c14JQStrNorm(fd, fc.Args[0]); a != b {
			problems = append(problems, "options differ: to passes "+a+", from passes "+b)
		}
		// {defaults} + $opts: the caller's options are the right operand (the right side of + wins)
		for _, side := range []struct {
			d   *fw.JQDef
			arg *gojq.Query
		}{{td, tc.Args[0]}, {fd, fc.Args[0]}} {
			if side.arg.Op != gojq.OpAdd || len(side.d.Def.Args) != 1 {
				continue
			}
			if _, isObj := c14ObjLit(side.arg.Right); isObj && c14Mentions(side.arg.Left, side.d.Def.Args[0]) {
				problems = append(problems, side.d.Def.Name+" adds the default object to the right of "+side.d.Def.Args[0]+": the default overrides the caller's option")
			}
		}
		ru.Check(len(problems) == 0, key, c14JQPos(td), "same options "+fw.JQStr(tc.Args[0]), strings.Join(problems, "; "))
	}
	// to_X / from_X defined in the same file around the base64 primitives (pem): same option literal
	type b64use struct {
		d   *fw.JQDef
		arg string
	}
	b64to, b64from := map[string]b64use{}, map[string]b64use{}
	for _, d := range jq.Defs {
		if d.Parent != nil || c14SoleCall(d) != nil {
			continue
		}
		for _, call := range fw.JQCalls(d.Def.Body) {
			if len(call.Args) != 1 {
				continue
			}
			k := d.File.Rel + "|"
			switch {
			case call.Name == "_to_base64" && strings.HasPrefix(d.Def.Name, "to_"):
				b64to[k+strings.TrimPrefix(d.Def.Name, "to_")] = b64use{d, fw.JQStr(call.Args[0])}
			case call.Name == "_from_base64" && strings.HasPrefix(d.Def.Name, "from_"):
				b64from[k+strings.TrimPrefix(d.Def.Name, "from_")] = b64use{d, fw.JQStr(call.Args[0])}
			}
		}
	}
	for _, k := range fw.SortedKeys(b64to) {
		f, ok := b64from[k]
		if !ok {
			continue
		}
		t := b64to[k]
		ru.Check(t.arg == f.arg, "base64-pair:"+t.d.Def.Name, c14JQPos(t.d), "both pass "+t.arg, fmt.Sprintf("%s passes %s to _to_base64 but %s passes %s to _from_base64", t.d.Def.Name, t.arg, f.d.Def.Name, f.arg))
	}

	// every literal base64 variant handed to the primitives is a selector label or names the default
	nLit := 0
	for _, d := range jq.Defs {
		for _, call := range fw.JQCalls(d.Def.Body) {
			if (call.Name != "_to_base64" && call.Name != "_from_base64") || len(call.Args) != 1 {
				continue
			}
			fw.WalkJQ(call.Args[0], func(n any) bool {
				q, ok := n.(*gojq.Query)
				if !ok {
					return true
				}
				obj, ok := c14ObjLit(q)
				if !ok {
					return true
				}
				v, has := obj["encoding"]
				if !has {
					return true
				}
				nLit++
				key := fmt.Sprintf("base64-literal:%s#%d", d.Def.Name, nLit)
				okL := cx.b64Labels[v] || strings.ToLower(v)+"encoding" == strings.ToLower(cx.b64Default)
				ru.Check(okL, key, c14JQPos(d), "variant "+v, fmt.Sprintf("base64 variant %q is neither a case of the Go selector nor the name of its default (%s): it would silently select the default", v, cx.b64Default))
				return true
			}, false)
		}
	}

	// (3) compat aliases and (4) arity-0 forms
	for _, d := range jq.Defs {
		if d.Parent != nil {
			continue
		}
		name := d.Def.Name
		call := c14SoleCall(d)
		if call == nil {
			continue
		}
		if call.Name == "_binary_or_orig" && len(call.Args) == 2 {
			a, b := fw.JQIsCall(call.Args[0], "", 0), fw.JQIsCall(call.Args[1], "", 0)
			if a == nil || b == nil || !(strings.HasPrefix(a.Name, "to_") || strings.HasPrefix(b.Name, "from_") || strings.HasPrefix(a.Name, "from_") || strings.HasPrefix(b.Name, "to_")) {
				continue
			}
			good := strings.HasPrefix(a.Name, "to_") && strings.HasPrefix(b.Name, "from_") && strings.TrimPrefix(a.Name, "to_") == strings.TrimPrefix(b.Name, "from_") && strings.TrimPrefix(a.Name, "to_") == name
			ru.Check(good, "alias:"+name, c14JQPos(d), "binary -> "+a.Name+", otherwise "+b.Name,
				fmt.Sprintf("%s dispatches _binary_or_orig(%s; %s), expected (to_%s; from_%s): binaries are encoded and strings decoded", name, a.Name, b.Name, name, name))
			continue
		}
		if len(d.Def.Args) == 0 && len(call.Args) == 0 && !strings.Contains(name, "_") && (strings.HasPrefix(name, "to") || strings.HasPrefix(name, "from")) &&
			(strings.HasPrefix(call.Name, "to_") || strings.HasPrefix(call.Name, "from_")) {
			ru.Check(strings.ReplaceAll(call.Name, "_", "") == name, "alias:"+name, c14JQPos(d), "= "+call.Name, name+" is an alias of "+call.Name+", which is a different conversion")
			continue
		}
		// F/0 next to F/1
		if len(d.Def.Args) != 0 || !(strings.HasPrefix(name, "to_") || strings.HasPrefix(name, "from_") || name == "tojson") {
			continue
		}
		one := jq.Def(d.File.Rel, name, 1)
		if one == nil {
			// F/1 registered in Go (to_xml)
			if cx.reg[name] != nil && len(call.Args) == 1 {
				ru.Check(call.Name == name, "arity0:"+name, c14JQPos(d), "delegates to "+name+"/1", name+"/0 delegates to "+call.Name+" instead of "+name+"/1")
			}
			continue
		}
		oneCall := c14SoleCall(one)
		if len(call.Args) != 1 {
			continue
		}
		target := name
		if oneCall != nil {
			target = oneCall.Name
		}
		ru.Check(call.Name == name || call.Name == target, "arity0:"+name, c14JQPos(d), "delegates to "+call.Name,
			fmt.Sprintf("%s/0 delegates to %s but %s/1 uses %s", name, call.Name, name, target))
	}
}

// ---------------------------------------------------------------------------
// C14.radix

func c14Radix(cx *c14Ctx) {
	ru := cx.r.Rule("C14.radix", "the default digit tables of to_radix/1 (string) and from_radix/1 (object) are inverse bijections covering bases up to 64: from[to[i]] == i for every position, equal sizes; to_radix/2 accepts exactly the bases up to the table length; from_radix/2 rejects exactly the digits >= base and characters missing from the table, evaluates positionally ([power*base, answer+power*digit] from [1,0] over reversed digits, or Horner most-significant-first); to_radix/2 takes . % base of successive _intdiv(.; base), reverses to most-significant-first and removes the terminal 0 once", 70)
	jq := cx.jq
	toD, fromD := jq.Def("format/math/radix.jq", "to_radix", 1), jq.Def("format/math/radix.jq", "from_radix", 1)
	if toD == nil || fromD == nil {
		ru.Undecided("defs", "", "to_radix/1 or from_radix/1 not found in the bundled jq sources")
		return
	}
	toCall, fromCall := fw.JQIsCall(toD.Def.Body, "to_radix", 2), fw.JQIsCall(fromD.Def.Body, "from_radix", 2)
	if toCall == nil || fromCall == nil {
		ru.Undecided("defs", c14JQPos(toD), "to_radix/1 or from_radix/1 is not a call of the two-argument form with a literal table")
		return
	}
	// both forward the same base parameter
	ru.Check(fw.JQStr(toCall.Args[0]) == "$"+strings.TrimPrefix(toD.Def.Args[0], "$") && fw.JQStr(fromCall.Args[0]) == "$"+strings.TrimPrefix(fromD.Def.Args[0], "$"),
		"base-forwarded", c14JQPos(toD), "base parameter forwarded", "to_radix/1 or from_radix/1 does not forward its base argument to the two-argument form")
	table, ok := fw.JQConstString(toCall.Args[1])
	if !ok {
		ru.Undecided("to-table", c14JQPos(toD), "to_radix/1 table is not a string literal")
		return
	}
	ft := fromCall.Args[1]
	if ft == nil || ft.Term == nil || ft.Term.Type != gojq.TermTypeObject || ft.Term.Object == nil {
		ru.Undecided("from-table", c14JQPos(fromD), "from_radix/1 table is not an object literal")
		return
	}
	from := map[string]int{}
	for _, kv := range ft.Term.Object.KeyVals {
		k := kv.Key
		if k == "" && kv.KeyString != nil && len(kv.KeyString.Queries) == 0 {
			k = kv.KeyString.Str
		}
		ns, ok := fw.JQConstNumber(kv.Val)
		n, err := strconv.Atoi(ns)
		if !ok || err != nil {
			ru.Undecided("from-table:"+k, c14JQPos(fromD), "value is not an integer literal")
			return
		}
		if _, dup := from[k]; dup {
			ru.Fail("from-table:"+k, c14JQPos(fromD), fmt.Sprintf("digit %q appears twice in the from_radix table", k))
		}
		from[k] = n
	}
	c14RadixGuards(cx, ru)
	c14RadixArith(cx, ru)
	digits := []rune(table)
	ru.Check(len(digits) == len(from), "sizes", c14JQPos(toD), fmt.Sprintf("%d digits", len(digits)), fmt.Sprintf("to_radix table has %d digits, from_radix table %d", len(digits), len(from)))
	ru.Check(len(digits) >= 64, "covers-64", c14JQPos(toD), "bases up to 64", fmt.Sprintf("digit table has %d digits, bases up to 64 are documented", len(digits)))
	for i, d := range digits {
		v, ok := from[string(d)]
		ru.Check(ok && v == i, fmt.Sprintf("digit:%d", i), c14JQPos(toD), fmt.Sprintf("%q <-> %d", string(d), i),
			fmt.Sprintf("to_radix writes value %d as %q but from_radix reads %q as %v (present: %v)", i, string(d), string(d), v, ok))
	}
}

// c14Mentions: the query text refers to variable v ("$base").
func c14Mentions(q *gojq.Query, v string) bool {
	found := false
	fw.WalkJQ(q, func(n any) bool {
		if f, ok := n.(*gojq.Func); ok && f.Name == v {
			found = true
		}
		return true
	}, false)
	return found
}

func c14HasCall(q *gojq.Query, name string) bool {
	for _, c := range fw.JQCalls(q) {
		if c.Name == name {
			return true
		}
	}
	return false
}

// c14RadixGuards: to_radix/2 accepts a base equal to the table length; from_radix/2 rejects a
// digit that is not below the base.
func c14RadixGuards(cx *c14Ctx, ru *fw.Rule) {
	jq := cx.jq
	const file = "format/math/radix.jq"
	to2, from2 := jq.Def(file, "to_radix", 2), jq.Def(file, "from_radix", 2)
	if to2 == nil || from2 == nil {
		ru.Undecided("defs/2", "", "to_radix/2 or from_radix/2 not found")
		return
	}
	base := to2.Def.Args[0]
	// to_radix: the comparison of $base with the table length
	nGuard := 0
	fw.WalkJQ(to2.Def.Body, func(n any) bool {
		ifn, ok := n.(*gojq.If)
		if !ok || ifn.Cond == nil || !c14Mentions(ifn.Cond, base) || !c14HasCall(ifn.Cond, "length") {
			return true
		}
		nGuard++
		c := ifn.Cond
		errThen, errElse := c14HasCall(ifn.Then, "error"), ifn.Else != nil && c14HasCall(ifn.Else, "error")
		if c.Left == nil || c.Right == nil || errThen == errElse {
			ru.Undecided("to-base-guard", c14JQPos(to2), "guard "+fw.JQStr(c)+" is not a single comparison with exactly one error branch")
			return true
		}
		baseLeft := c14Mentions(c.Left, base) && !c14Mentions(c.Right, base)
		baseRight := c14Mentions(c.Right, base) && !c14Mentions(c.Left, base)
		if !baseLeft && !baseRight {
			ru.Undecided("to-base-guard", c14JQPos(to2), "guard "+fw.JQStr(c)+" does not have the base on exactly one side")
			return true
		}
		// evaluate the comparison for base = length-1, length, length+1
		holds := func(b, l int) (bool, bool) {
			x, y := b, l
			if baseRight {
				x, y = l, b
			}
			switch c.Op {
			case gojq.OpLt:
				return x < y, true
			case gojq.OpLe:
				return x <= y, true
			case gojq.OpGt:
				return x > y, true
			case gojq.OpGe:
				return x >= y, true
			case gojq.OpEq:
				return x == y, true
			case gojq.OpNe:
				return x != y, true
			}
			return false, false
		}
		good := true
		for _, tc := range []struct {
			b       int
			wantErr bool
		}{{63, false}, {64, false}, {65, true}} {
			h, ok := holds(tc.b, 64)
			if !ok {
				ru.Undecided("to-base-guard", c14JQPos(to2), "operator of "+fw.JQStr(c)+" not modelled")
				return true
			}
			isErr := (h && errThen) || (!h && errElse)
			if isErr != tc.wantErr {
				good = false
			}
		}
		ru.Check(good, "to-base-guard", c14JQPos(to2), "a base up to the table length is accepted, a larger one is an error", "to_radix guard "+fw.JQStr(c)+" does not accept exactly the bases up to the table length: base 64 (= table length) must work and base 65 must be an error, not null digits")
		return true
	}, false)
	if nGuard == 0 {
		ru.Fail("to-base-guard", c14JQPos(to2), "to_radix/2 does not compare "+base+" with the table length: a base beyond the table yields null digits instead of an error")
	}
	c14RadixDigitGuard(ru, from2)
}

// ---------------------------------------------------------------------------
// C14.regex

func c14Regex(cx *c14Ctx) {
	ru := cx.r.Rule("C14.regex", "to_jq: the regular expression deciding that an object key may be written unquoted is anchored, non-empty, starts with a non-digit identifier character and contains identifier characters only; the key is quoted (tojson) exactly when the test fails", 2)
	jq := cx.jq
	const file = "format/json/jq.jq"
	if jq.File(file) == nil {
		ru.Undecided("file", "", file+" not found")
		return
	}
	for _, d := range jq.Defs {
		if d.File.Rel != file || d.Parent == nil || len(d.Def.Args) != 0 {
			continue
		}
		call := c14SoleCall(d)
		if call == nil || call.Name != "test" || len(call.Args) < 1 {
			continue
		}
		src, ok := fw.JQConstString(call.Args[0])
		key := "ident:" + d.Def.Name
		if !ok {
			ru.Undecided(key, c14JQPos(d), "regular expression is not a string literal")
			continue
		}
		flags := syntax.Perl
		if len(call.Args) == 2 {
			if fl, ok := fw.JQConstString(call.Args[1]); ok {
				if strings.Contains(fl, "x") || strings.Contains(fl, "i") || strings.Contains(fl, "s") || strings.Contains(fl, "n") || strings.Contains(fl, "l") {
					ru.Undecided(key, c14JQPos(d), "regular expression flags "+fl+" not modelled")
					continue
				}
			}
		}
		re, err := syntax.Parse(src, flags)
		if err != nil {
			ru.Fail(key, c14JQPos(d), "regular expression does not parse: "+err.Error())
			continue
		}
		ok2, why := c14IdentRegex(re.Simplify())
		ru.Check(ok2, key, c14JQPos(d), src+" matches jq identifiers only", fmt.Sprintf("%s = test(%q) %s: such keys are written unquoted and the output is not a jq literal (to_jq | from_jq fails)", d.Def.Name, src, why))

		// polarity of the user: if <d> | not then tojson end
		for _, u := range jq.Defs {
			if u.File != d.File || u == d {
				continue
			}
			fw.WalkJQ(u.Def.Body, func(n any) bool {
				ifn, ok := n.(*gojq.If)
				if !ok {
					return true
				}
				pipe := fw.JQPipeline(ifn.Cond)
				uses := false
				for _, st := range pipe {
					if fw.JQIsCall(st, d.Def.Name, 0) != nil {
						uses = true
					}
				}
				if !uses {
					return true
				}
				negated := fw.JQIsCall(pipe[len(pipe)-1], "not", 0) != nil
				has := func(q *gojq.Query) bool {
					for _, c := range fw.JQCalls(q) {
						if c.Name == "tojson" {
							return true
						}
					}
					return false
				}
				thenQ, elseQ := has(ifn.Then), ifn.Else != nil && has(ifn.Else)
				good := (negated && thenQ && !elseQ) || (!negated && elseQ && !thenQ)
				ru.Check(good, "quote-when-not-ident:"+u.Def.Name, c14JQPos(u), "non-identifier keys are quoted", "in "+u.Def.Name+" the key is quoted with tojson on the wrong branch of the "+d.Def.Name+" test")
				return true
			}, true)
		}
	}
}

// c14IdentRegex decides: ^ first rest $ where every consumed rune is [A-Za-z0-9_], the first
// consumed rune is not a digit, and the empty string does not match.
func c14IdentRegex(re *syntax.Regexp) (bool, string) {
	if re.Op != syntax.OpConcat || len(re.Sub) < 3 {
		return false, "is not of the form ^...$"
	}
	if re.Sub[0].Op != syntax.OpBeginText {
		return false, "is not anchored at the start (^)"
	}
	if re.Sub[len(re.Sub)-1].Op != syntax.OpEndText {
		return false, "is not anchored at the end ($)"
	}
	body := &syntax.Regexp{Op: syntax.OpConcat, Sub: re.Sub[1 : len(re.Sub)-1]}
	isIdent := func(r rune) bool { return r < 128 && (r == '_' || unicode.IsLetter(r) || unicode.IsDigit(r)) }
	var all func(re *syntax.Regexp) (bool, string)
	classOK := func(rs []rune) (bool, string) {
		for i := 0; i+1 < len(rs); i += 2 {
			if rs[i+1]-rs[i] > 200 {
				return false, fmt.Sprintf("accepts the range %q-%q", rs[i], rs[i+1])
			}
			for r := rs[i]; r <= rs[i+1]; r++ {
				if !isIdent(r) {
					return false, fmt.Sprintf("accepts %q, which is not an identifier character", r)
				}
			}
		}
		return true, ""
	}
	all = func(re *syntax.Regexp) (bool, string) {
		switch re.Op {
		case syntax.OpEmptyMatch:
			return true, ""
		case syntax.OpLiteral:
			for _, r := range re.Rune {
				if !isIdent(r) || re.Flags&syntax.FoldCase != 0 {
					return false, fmt.Sprintf("accepts %q", r)
				}
			}
			return true, ""
		case syntax.OpCharClass:
			return classOK(re.Rune)
		case syntax.OpConcat, syntax.OpAlternate, syntax.OpCapture, syntax.OpStar, syntax.OpPlus, syntax.OpQuest, syntax.OpRepeat:
			for _, s := range re.Sub {
				if ok, why := all(s); !ok {
					return false, why
				}
			}
			return true, ""
		}
		return false, "uses the construct " + re.Op.String() + ", which accepts non-identifier input"
	}
	if ok, why := all(body); !ok {
		return false, why
	}
	// first-rune set and nullability
	var first func(re *syntax.Regexp) (set []rune, nullable bool)
	first = func(re *syntax.Regexp) ([]rune, bool) {
		switch re.Op {
		case syntax.OpEmptyMatch:
			return nil, true
		case syntax.OpLiteral:
			if len(re.Rune) == 0 {
				return nil, true
			}
			return []rune{re.Rune[0], re.Rune[0]}, false
		case syntax.OpCharClass:
			return re.Rune, false
		case syntax.OpCapture:
			return first(re.Sub[0])
		case syntax.OpStar, syntax.OpQuest:
			s, _ := first(re.Sub[0])
			return s, true
		case syntax.OpPlus:
			return first(re.Sub[0])
		case syntax.OpRepeat:
			s, n := first(re.Sub[0])
			return s, n || re.Min == 0
		case syntax.OpAlternate:
			var out []rune
			null := false
			for _, s := range re.Sub {
				f, n := first(s)
				out = append(out, f...)
				null = null || n
			}
			return out, null
		case syntax.OpConcat:
			var out []rune
			for _, s := range re.Sub {
				f, n := first(s)
				out = append(out, f...)
				if !n {
					return out, false
				}
			}
			return out, true
		}
		return nil, true
	}
	set, nullable := first(body)
	if nullable {
		return false, "matches the empty string"
	}
	for i := 0; i+1 < len(set); i += 2 {
		if set[i] <= '9' && set[i+1] >= '0' {
			return false, "accepts a key that starts with a digit"
		}
	}
	return true, ""
}

// ---------------------------------------------------------------------------
// C14.jqerr: jq-level decoders raise errors

func c14JQErr(cx *c14Ctx) {
	ru := cx.r.Rule("C14.jqerr", "jq-level decoders turn failure into a jq error: fromjson raises the decode error (if ._error then error), from_jq's term dispatch ends in error(...) and the parse is wrapped in try/catch->error, from_pem errors without armor", 4)
	jq := cx.jq
	// fromjson
	if d := jq.Def("format/json/json.jq", "fromjson", 0); d == nil {
		ru.Undecided("fromjson", "", "fromjson/0 not found in format/json/json.jq")
	} else {
		good := false
		decodes := false
		for _, c := range fw.JQCalls(d.Def.Body) {
			if c.Name == "decode" && len(c.Args) >= 1 {
				if s, ok := fw.JQConstString(c.Args[0]); ok && s == "json" {
					decodes = true
				}
			}
		}
		// variables bound from the decode error (`._error as $e`, `_decode_value_error as $e`)
		errVars := map[string]bool{}
		fw.WalkJQ(d.Def.Body, func(n any) bool {
			t, ok := n.(*gojq.Term)
			if !ok {
				return true
			}
			for _, sfx := range t.SuffixList {
				if sfx.Bind == nil {
					continue
				}
				src := t.String()
				if i := strings.Index(src, " as $"); i >= 0 {
					src = src[:i]
				}
				if strings.Contains(src, "_error") {
					for _, pt := range sfx.Bind.Patterns {
						if pt.Name != "" {
							errVars[pt.Name] = true
						}
					}
				}
			}
			return true
		}, false)
		fw.WalkJQ(d.Def.Body, func(n any) bool {
			ifn, ok := n.(*gojq.If)
			if !ok || !c14HasCall(ifn.Then, "error") {
				return true
			}
			cond := fw.JQStr(ifn.Cond)
			if strings.Contains(cond, "_error") || errVars[cond] {
				good = true
			}
			return true
		}, false)
		ru.Check(good && decodes, "fromjson", c14JQPos(d), "decode(\"json\") | if ._error then error", "fromjson does not decode with the json format and raise ._error: malformed JSON would yield a value")
	}
	// from_jq
	if d := jq.Def("format/json/jq.jq", "from_jq", 0); d == nil {
		ru.Undecided("from_jq", "", "from_jq/0 not found")
	} else {
		// outermost term is try ... catch error(...)
		tryOK := false
		fw.WalkJQ(d.Def.Body, func(n any) bool {
			if t, ok := n.(*gojq.Try); ok && t.Catch != nil && c14HasCall(t.Catch, "error") && c14HasCall(t.Body, "_query_fromstring") {
				tryOK = true
			}
			return true
		}, true)
		ru.Check(tryOK, "from_jq|try", c14JQPos(d), "parse wrapped in try/catch -> error", "from_jq does not wrap _query_fromstring in try ... catch error(...)")
		// the dispatch on .term.type ends in error
		n := 0
		for _, nd := range jq.Defs {
			if nd.Parent != d {
				continue
			}
			fw.WalkJQ(nd.Def.Body, func(x any) bool {
				ifn, ok := x.(*gojq.If)
				if !ok || len(ifn.Elif) < 3 || !strings.Contains(fw.JQStr(ifn.Cond), "TermType") {
					return true
				}
				n++
				ru.Check(ifn.Else != nil && c14HasCall(ifn.Else, "error"), "from_jq|unsupported-term", c14JQPos(nd), "unsupported terms raise an error", "the term-type dispatch of from_jq has no final else error(...): a non-literal term yields null instead of an error")
				return false
			}, true)
		}
		if n == 0 {
			ru.Undecided("from_jq|unsupported-term", c14JQPos(d), "term-type dispatch not found")
		}
	}
	// from_pem
	if d := jq.Def("format/crypto/pem.jq", "from_pem", 0); d == nil {
		ru.Undecided("from_pem", "", "from_pem/0 not found")
	} else {
		b := d.Def.Body
		ru.Check(b.Op == gojq.OpAlt && b.Right != nil && c14HasCall(b.Right, "error"), "from_pem", c14JQPos(d), "... // error(...)", "from_pem does not fall back to error(...) when no armor is found")
	}
}
