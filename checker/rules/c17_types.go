package rules

import (
	"strings"

	"github.com/wader/gojq"

	"fqverif/fw"
)

// ---------------------------------------------------------------------------
// jq value kind prover (small, conservative): the set of kinds an expression can yield.
// Used where a handler receives a value the user program controls (the argument of error(...))
// and feeds it to an operation that is only defined on some kinds.

type c17Kind uint8

const (
	c17KNull c17Kind = 1 << iota
	c17KBool
	c17KNumber
	c17KString
	c17KArray
	c17KObject
	c17KAny    = c17KNull | c17KBool | c17KNumber | c17KString | c17KArray | c17KObject
	c17KScalar = c17KNull | c17KBool | c17KNumber | c17KString
)

func (k c17Kind) String() string {
	if k == c17KAny {
		return "any value"
	}
	var s []string
	for _, x := range []struct {
		k c17Kind
		n string
	}{{c17KNull, "null"}, {c17KBool, "boolean"}, {c17KNumber, "number"}, {c17KString, "string"}, {c17KArray, "array"}, {c17KObject, "object"}} {
		if k&x.k != 0 {
			s = append(s, x.n)
		}
	}
	if len(s) == 0 {
		return "nothing"
	}
	return strings.Join(s, "|")
}

type c17KEnv struct {
	dot  c17Kind
	vars map[string]c17Kind
}

func (e c17KEnv) clone() c17KEnv {
	n := c17KEnv{dot: e.dot, vars: map[string]c17Kind{}}
	for k, v := range e.vars {
		n.vars[k] = v
	}
	return n
}

// builtins whose result kind does not depend on the input
var c17KindBuiltins = map[string]c17Kind{
	"tostring/0": c17KString, "tojson/0": c17KString, "join/1": c17KString, "type/0": c17KString, "ascii_downcase/0": c17KString,
	"ascii_upcase/0": c17KString, "ltrimstr/1": c17KAny, "length/0": c17KNumber, "not/0": c17KBool, "keys/0": c17KArray,
	"to_entries/0": c17KArray, "tonumber/0": c17KNumber, "empty/0": 0, "error/0": 0, "error/1": 0, "test/1": c17KBool,
	"has/1": c17KBool, "startswith/1": c17KBool, "endswith/1": c17KBool, "_is_object/0": c17KBool, "_is_string/0": c17KBool,
	"_is_array/0": c17KBool, "_to_json/1": c17KString /* Go native behind the bundled tojson: a string or an error */, "_is_null/0": c17KBool, "_is_number/0": c17KBool, "_is_boolean/0": c17KBool, "_is_scalar/0": c17KBool,
}

// kind tests: name -> the kinds for which the test holds
var c17KindTests = map[string]c17Kind{
	"_is_object": c17KObject, "_is_string": c17KString, "_is_array": c17KArray, "_is_null": c17KNull,
	"_is_number": c17KNumber, "_is_boolean": c17KBool, "_is_scalar": c17KScalar,
	"objects": c17KObject, "strings": c17KString, "arrays": c17KArray, "nulls": c17KNull, "numbers": c17KNumber, "booleans": c17KBool, "scalars": c17KScalar,
}

var c17KindNames = map[string]c17Kind{
	"object": c17KObject, "string": c17KString, "array": c17KArray, "null": c17KNull, "number": c17KNumber, "boolean": c17KBool,
}

// kindTest recognises a condition that tests the kind of `.`; it returns the kinds for which the
// condition holds. Forms: _is_X, type == "x", type != "x", (test | not).
func (m *c17Model) kindTest(q *gojq.Query) (c17Kind, bool) {
	q = c17Unparen(q)
	if q == nil {
		return 0, false
	}
	if f := fw.JQIsCall(q, "", 0); f != nil {
		if k, ok := c17KindTests[f.Name]; ok && strings.HasPrefix(f.Name, "_is_") {
			// the _is_* helpers are part of the bundled sources: `type == "x"`
			return k, true
		}
		return 0, false
	}
	if st := c17Steps(q); len(st) == 2 && st[0].Bind == nil && st[1].Bind == nil && fw.JQIsCall(st[1].Q, "not", 0) != nil {
		if k, ok := m.kindTest(st[0].Q); ok {
			return c17KAny &^ k, true
		}
		return 0, false
	}
	if q.Left != nil && (q.Op == gojq.OpEq || q.Op == gojq.OpNe) {
		l, r := c17Unparen(q.Left), c17Unparen(q.Right)
		if fw.JQIsCall(r, "type", 0) != nil {
			l, r = r, l
		}
		if fw.JQIsCall(l, "type", 0) != nil {
			if s, ok := fw.JQConstString(r); ok {
				k := c17KindNames[s]
				if q.Op == gojq.OpNe {
					k = c17KAny &^ k
				}
				return k, true
			}
		}
	}
	return 0, false
}

// kindSeq evaluates a step list and returns the kinds of its outputs; when stop is non-nil the walk
// ends at the first step that is (or contains, as a parenthesised pipeline) that node and reports
// the kinds of `.` there.
func (m *c17Model) kindSeq(ctx *fw.JQDef, steps []c17Step, env c17KEnv, depth int) c17Kind {
	for _, s := range steps {
		v := m.kindExpr(ctx, s.Q, env, depth)
		if s.Bind != nil {
			for _, p := range s.Bind {
				for _, n := range c17PatternNames(p) {
					if p.Name != "" {
						env.vars[n] = v
					} else {
						env.vars[n] = c17KAny
					}
				}
			}
			continue
		}
		env.dot = v
		if v == 0 {
			return 0
		}
	}
	return env.dot
}

// kindAt returns the kinds of `.` at the pipeline step that is exactly the node target.
func (m *c17Model) kindAt(ctx *fw.JQDef, steps []c17Step, env c17KEnv, isTarget func(*gojq.Query) bool) (c17Kind, bool) {
	for _, s := range steps {
		if isTarget(s.Q) {
			return env.dot, true
		}
		v := m.kindExpr(ctx, s.Q, env, 0)
		if s.Bind != nil {
			for _, p := range s.Bind {
				for _, n := range c17PatternNames(p) {
					if p.Name != "" {
						env.vars[n] = v
					} else {
						env.vars[n] = c17KAny
					}
				}
			}
			continue
		}
		env.dot = v
	}
	return 0, false
}

func (m *c17Model) kindExpr(ctx *fw.JQDef, q *gojq.Query, env c17KEnv, depth int) c17Kind {
	q = c17Unparen(q)
	if q == nil || depth > 6 {
		return c17KAny
	}
	if st := c17Steps(q); len(st) > 1 {
		return m.kindSeq(ctx, st, env.clone(), depth)
	}
	if q.Left != nil {
		switch q.Op {
		case gojq.OpComma:
			return m.kindExpr(ctx, q.Left, env, depth) | m.kindExpr(ctx, q.Right, env, depth)
		case gojq.OpAlt:
			return (m.kindExpr(ctx, q.Left, env, depth) &^ c17KNull) | m.kindExpr(ctx, q.Right, env, depth)
		case gojq.OpEq, gojq.OpNe, gojq.OpLt, gojq.OpLe, gojq.OpGt, gojq.OpGe, gojq.OpAnd, gojq.OpOr:
			return c17KBool
		}
		return c17KAny
	}
	t := q.Term
	if t == nil {
		return c17KAny
	}
	if len(t.SuffixList) > 0 || t.Type == gojq.TermTypeIndex {
		// `.name` on anything but an object or null raises
		if m.kindHazards != nil && t.Type == gojq.TermTypeIndex && t.Index != nil && (t.Index.Name != "" || t.Index.Str != nil) && env.dot&^(c17KObject|c17KNull) != 0 {
			*m.kindHazards = append(*m.kindHazards, "`"+q.String()+"` is applied to a value that can be "+(env.dot&^(c17KObject|c17KNull)).String())
		}
		return c17KAny
	}
	switch t.Type {
	case gojq.TermTypeIdentity:
		return env.dot
	case gojq.TermTypeString, gojq.TermTypeFormat:
		return c17KString
	case gojq.TermTypeNumber:
		return c17KNumber
	case gojq.TermTypeObject:
		return c17KObject
	case gojq.TermTypeArray:
		return c17KArray
	case gojq.TermTypeTrue, gojq.TermTypeFalse:
		return c17KBool
	case gojq.TermTypeNull:
		return c17KNull
	case gojq.TermTypeFunc:
		f := t.Func
		if strings.HasPrefix(f.Name, "$") {
			if v, ok := env.vars[f.Name]; ok {
				return v
			}
			return c17KAny
		}
		ds := m.resolve(ctx, f)
		if len(ds) == 0 {
			if k, ok := c17KindBuiltins[fw.JQFuncKey(f)]; ok {
				return k
			}
			if k, ok := c17KindTests[f.Name]; ok && len(f.Args) == 0 {
				return env.dot & k // objects, strings, ... select by kind
			}
			return c17KAny
		}
		if len(ds) != 1 || len(f.Args) != 0 {
			return c17KAny
		}
		return m.kindSeq(ds[0], c17Steps(ds[0].Def.Body), c17KEnv{dot: env.dot, vars: map[string]c17Kind{}}, depth+1)
	case gojq.TermTypeIf:
		var out c17Kind
		cur := env.clone()
		for _, a := range c17Arms(t.If) {
			e := cur.clone()
			if a.Cond != nil {
				if k, ok := m.kindTest(a.Cond); ok {
					e.dot = cur.dot & k
					cur.dot = cur.dot &^ k
				}
			}
			if e.dot == 0 && env.dot != 0 {
				continue // the kind tests ahead leave nothing for this arm
			}
			if a.Then == nil {
				out |= e.dot
			} else {
				out |= m.kindExpr(ctx, a.Then, e, depth)
			}
		}
		return out
	case gojq.TermTypeTry:
		out := m.kindExpr(ctx, t.Try.Body, env, depth)
		if t.Try.Catch != nil {
			e := env.clone()
			e.dot = c17KAny
			out |= m.kindExpr(ctx, t.Try.Catch, e, depth)
		}
		return out
	}
	return c17KAny
}

// kindEnvAt walks pipelines towards the node target and returns the kinds known there (of `.`
// and of the variables bound by earlier steps of the enclosing pipelines).
func (m *c17Model) kindEnvAt(ctx *fw.JQDef, steps []c17Step, env c17KEnv, target any) c17KEnv {
	for _, s := range steps {
		if c17ContainsNode(s.Q, target) {
			for _, c := range c17ChildQueries(s.Q) {
				if c17ContainsNode(c, target) {
					e := env.clone()
					e.dot = c17KAny // arguments, handlers and arms start from an input we do not track
					return m.kindEnvAt(ctx, c17Steps(c), e, target)
				}
			}
			return env
		}
		v := m.kindExpr(ctx, s.Q, env, 0)
		if s.Bind != nil {
			for _, p := range s.Bind {
				for _, n := range c17PatternNames(p) {
					if p.Name != "" {
						env.vars[n] = v
					} else {
						env.vars[n] = c17KAny
					}
				}
			}
			continue
		}
		env.dot = v
	}
	return env
}
