package rules

import (
	"fmt"
	"go/token"
	"go/types"
	"sort"
	"strings"

	"golang.org/x/tools/go/ssa"

	"fqverif/fw"
)

// ---------------------------------------------------------------------------
// C10.alias: typestate of slices aliasing a bytes.Buffer
//
// (*bytes.Buffer).Bytes/Next/AvailableBuffer return a slice of the buffer's storage that denotes
// the buffer's contents only until the next write ("valid for use only until the next buffer
// modification"). After an append the slice's length predates the append (its "end" is no longer
// the end of the contents) and after Reset+write or a slide its bytes are overwritten. The output
// layers of C10 (colorjson's output buffer, columnwriter's line buffer, the buffers of pkg/interp)
// copy from such slices into what is displayed, so a slice taken before a write and used after it
// puts bytes on the screen / into the JSON text that are not the ones the code means.
//
// For every such slice r of buffer B (B identified by the SSA value or by the parameter/field path
// it is loaded from) the rule walks the CFG forward from the defining call and requires that no use
// of r (or of a slice/phi of it) is executed strictly after a write to B, where a write is
//   - a call of a writing method of B (Write, WriteString, WriteByte, WriteRune, ReadFrom, Grow),
//   - a call of a function of the scope packages that (transitively, by summary) writes to B,
//   - a call that receives B converted to an interface with a Write method.
// A use by the writing call itself (B.Write(r[i:])) is before the write. Reset/Truncate alone do
// not overwrite anything (columnwriter keeps the tail with Reset(); Write(b[pos:])), they only
// matter through the write that follows. Dynamic calls are not followed (fewer reports, never more).

var c10AliasScope = []string{
	"internal/colorjson", "internal/columnwriter", "internal/hexpairwriter", "internal/asciiwriter",
	"internal/mathx", "internal/ansi", "pkg/interp",
}

var c10BufWriters = map[string]bool{"Write": true, "WriteString": true, "WriteByte": true, "WriteRune": true, "ReadFrom": true, "Grow": true}
var c10BufAliases = map[string]bool{"Bytes": true, "Next": true, "AvailableBuffer": true}

// c10BufMethod: the call is a method of *bytes.Buffer; returns its name and the receiver value.
func c10BufMethod(c ssa.CallInstruction) (string, ssa.Value) {
	cc := c.Common()
	f := cc.StaticCallee()
	if f == nil || cc.IsInvoke() || f.Signature.Recv() == nil || len(cc.Args) == 0 {
		return "", nil
	}
	if !c10IsBufPtr(f.Signature.Recv().Type()) {
		return "", nil
	}
	return f.Name(), cc.Args[0]
}

func c10IsBufPtr(t types.Type) bool {
	pt, ok := t.Underlying().(*types.Pointer)
	if !ok {
		return false
	}
	n, ok := pt.Elem().(*types.Named)
	return ok && n.Obj().Pkg() != nil && n.Obj().Pkg().Path() == "bytes" && n.Obj().Name() == "Buffer"
}

// c10Path names a pointer value by the SSA value it is rooted at and the field/load chain from it:
// two values with the same root and chain denote the same object as long as the pointer fields on
// the chain are not reassigned (checked by c10ChainStored).
type c10Path struct {
	root  ssa.Value
	chain string
}

func c10PathOf(v ssa.Value) c10Path {
	switch x := v.(type) {
	case *ssa.ChangeType:
		return c10PathOf(x.X)
	case *ssa.FieldAddr:
		b := c10PathOf(x.X)
		return c10Path{b.root, b.chain + "." + fieldNameOf(x.X.Type(), x.Field)}
	case *ssa.UnOp:
		if x.Op == token.MUL {
			if _, isFA := x.X.(*ssa.FieldAddr); isFA {
				b := c10PathOf(x.X)
				return c10Path{b.root, b.chain + "^"}
			}
		}
	}
	return c10Path{v, ""}
}

// c10ChainStored: fn stores to a pointer field named on the chain (the path is then not a stable name).
func c10ChainStored(fn *ssa.Function, chain string) bool {
	if !strings.Contains(chain, "^") {
		return false
	}
	stored := false
	fw.EachInstr(fn, func(ins ssa.Instruction) {
		st, ok := ins.(*ssa.Store)
		if !ok {
			return
		}
		if fa, ok := st.Addr.(*ssa.FieldAddr); ok {
			if strings.Contains(chain, "."+fieldNameOf(fa.X.Type(), fa.Field)+"^") {
				stored = true
			}
		}
	})
	return stored
}

// c10WriteSummary: for every function of the scope, the (parameter index, chain) buffers it writes to.
type c10WriteSummary map[*ssa.Function]map[string]bool // "idx|chain"

func c10ParamIndex(fn *ssa.Function, v ssa.Value) int {
	for i, p := range fn.Params {
		if ssa.Value(p) == v {
			return i
		}
	}
	return -1
}

// c10WritesOf returns the buffer paths (in the caller's terms) the call instruction writes to.
func c10WritesOf(ins ssa.Instruction, sum c10WriteSummary) []c10Path {
	c, ok := ins.(*ssa.Call)
	if !ok {
		return nil
	}
	var out []c10Path
	if m, recv := c10BufMethod(c); m != "" {
		if c10BufWriters[m] {
			out = append(out, c10PathOf(recv))
		}
		return out
	}
	if g := c.Call.StaticCallee(); g != nil {
		for k := range sum[g] {
			var idx int
			var chain string
			if i := strings.IndexByte(k, '|'); i >= 0 {
				fmt.Sscanf(k[:i], "%d", &idx)
				chain = k[i+1:]
			}
			if idx < len(c.Call.Args) {
				b := c10PathOf(c.Call.Args[idx])
				out = append(out, c10Path{b.root, b.chain + chain})
			}
		}
	}
	// B handed over as an io.Writer
	for _, a := range c.Call.Args {
		mi, ok := a.(*ssa.MakeInterface)
		if !ok || !c10IsBufPtr(mi.X.Type()) {
			continue
		}
		if it, ok := mi.Type().Underlying().(*types.Interface); ok {
			for i := 0; i < it.NumMethods(); i++ {
				if it.Method(i).Name() == "Write" {
					out = append(out, c10PathOf(mi.X))
				}
			}
		}
	}
	return out
}

func c10BuildWriteSummary(fns []*ssa.Function) c10WriteSummary {
	sum := c10WriteSummary{}
	for _, fn := range fns {
		sum[fn] = map[string]bool{}
	}
	for changed := true; changed; {
		changed = false
		for _, fn := range fns {
			fw.EachInstr(fn, func(ins ssa.Instruction) {
				for _, w := range c10WritesOf(ins, sum) {
					if i := c10ParamIndex(fn, w.root); i >= 0 {
						k := fmt.Sprintf("%d|%s", i, w.chain)
						if !sum[fn][k] {
							sum[fn][k] = true
							changed = true
						}
					}
				}
			})
		}
	}
	return sum
}

func c10AliasRules(r *fw.Run, p *fw.Program) {
	ru := r.Rule("C10.alias", "no slice obtained from (*bytes.Buffer).Bytes/Next/AvailableBuffer in the output layers (colorjson, columnwriter, hex/ascii writers, pkg/interp) is used after a later write to the same buffer (direct writing method, summarised callee, or the buffer handed over as io.Writer): such a slice no longer denotes the buffer's contents, what is copied from it is not what is meant to be displayed", 7)
	inScope := map[string]bool{}
	for _, s := range c10AliasScope {
		inScope[s] = true
	}
	var fns []*ssa.Function
	for _, fn := range p.FqFunctions() {
		if inScope[pkgRel(fn)] && !strings.HasSuffix(p.RelFile(fw.Top(fn).Pos()), "_test.go") {
			fns = append(fns, fn)
		}
	}
	sum := c10BuildWriteSummary(fns)
	n := 0
	for _, fn := range fns {
		ord := map[string]int{}
		for _, b := range fn.DomPreorder() {
			for _, ins := range b.Instrs {
				c, ok := ins.(*ssa.Call)
				if !ok {
					continue
				}
				m, recv := c10BufMethod(c)
				if !c10BufAliases[m] {
					continue
				}
				n++
				ord[m]++
				key := fmt.Sprintf("alias:%s:%s#%d", fw.ShortFn(fn), m, ord[m])
				c10AliasCheck(ru, p, fn, c, recv, key, sum)
			}
		}
	}
	if n == 0 {
		ru.Undecided("anchor", "", "no (*bytes.Buffer).Bytes/Next/AvailableBuffer call found in the output layers")
	}
	c10IndentRules(r, p, sum)
}

func c10AliasCheck(ru *fw.Rule, p *fw.Program, fn *ssa.Function, def *ssa.Call, recv ssa.Value, key string, sum c10WriteSummary) {
	B := c10PathOf(recv)
	pos := p.Rel(def.Pos())
	if c10ChainStored(fn, B.chain) {
		ru.Undecided(key, pos, "the buffer is reached through a pointer field that "+fw.ShortFn(fn)+" also assigns; the rule cannot name the buffer")
		return
	}
	// derived aliases
	derived := map[ssa.Value]bool{def: true}
	for work := []ssa.Value{def}; len(work) > 0; {
		v := work[len(work)-1]
		work = work[:len(work)-1]
		if v.Referrers() == nil {
			continue
		}
		for _, rf := range *v.Referrers() {
			var d ssa.Value
			switch x := rf.(type) {
			case *ssa.Slice:
				if x.X == v {
					d = x
				}
			case *ssa.ChangeType:
				d = x
			case *ssa.Phi:
				d = x
			}
			if d != nil && !derived[d] {
				derived[d] = true
				work = append(work, d)
			}
		}
	}
	isUse := func(ins ssa.Instruction) bool {
		switch ins.(type) {
		case *ssa.Phi, *ssa.DebugRef:
			return false
		}
		for _, op := range ins.Operands(nil) {
			if *op != nil && derived[*op] {
				return true
			}
		}
		return false
	}
	writes := func(ins ssa.Instruction) bool {
		for _, w := range c10WritesOf(ins, sum) {
			if w == B {
				return true
			}
		}
		return false
	}
	type st struct {
		b     *ssa.BasicBlock
		i     int
		dirty ssa.Instruction
	}
	type sk struct {
		b     *ssa.BasicBlock
		dirty bool
	}
	seen := map[sk]bool{}
	work := []st{{def.Block(), c10InstrIndex(def) + 1, nil}}
	uses := map[ssa.Instruction]bool{}
	var badUse, badWrite ssa.Instruction
	for len(work) > 0 {
		s := work[len(work)-1]
		work = work[:len(work)-1]
		if s.i == 0 {
			k := sk{s.b, s.dirty != nil}
			if seen[k] {
				continue
			}
			seen[k] = true
		}
		stop := false
		for i := s.i; i < len(s.b.Instrs); i++ {
			ins := s.b.Instrs[i]
			if ins == ssa.Instruction(def) {
				stop = true
				break
			}
			if isUse(ins) {
				uses[ins] = true
				if s.dirty != nil && badUse == nil {
					badUse, badWrite = ins, s.dirty
				}
			}
			if s.dirty == nil && writes(ins) {
				s.dirty = ins
			}
		}
		if stop {
			continue
		}
		for _, succ := range s.b.Succs {
			work = append(work, st{succ, 0, s.dirty})
		}
	}
	if badUse != nil {
		ru.Fail(key, pos, fmt.Sprintf("the slice returned by %s() here is still used at %s after the buffer was written to at %s: it no longer denotes the buffer's contents (stale length; overwritten after Reset or a slide), so the bytes copied from it are not the ones to display",
			def.Call.StaticCallee().Name(), p.Rel(c10InsPos(badUse)), p.Rel(c10InsPos(badWrite))))
		return
	}
	ru.Ok(key, pos, fmt.Sprintf("%d uses, none after a write to the buffer", len(uses)))
}

func c10InsPos(ins ssa.Instruction) token.Pos {
	if ins.Pos() != token.NoPos {
		return ins.Pos()
	}
	// instructions without a position (loads, slices): take an operand's or a referrer's
	if v, ok := ins.(ssa.Value); ok && v.Referrers() != nil {
		for _, rf := range *v.Referrers() {
			if rf.Pos() != token.NoPos {
				return rf.Pos()
			}
		}
	}
	for _, op := range ins.Operands(nil) {
		if *op != nil && (*op).Pos() != token.NoPos {
			return (*op).Pos()
		}
	}
	return token.NoPos
}

// ---------------------------------------------------------------------------
// indentation of colorjson (part of C10.json): whatever writeIndent puts between the tokens must
// be JSON whitespace.

func c10IndentRules(r *fw.Run, p *fw.Program, sum c10WriteSummary) {
	ru := r.Rule("C10.json", "", 0)
	wi := p.Fn("(*internal/colorjson.Encoder).writeIndentInternal")
	if wi == nil || wi.Blocks == nil || len(wi.Params) != 3 {
		ru.Undecided("indent:anchor", "", "colorjson.(*Encoder).writeIndentInternal(n, spaces) not found")
		return
	}
	spaces := ssa.Value(wi.Params[2])
	// callers pass a run of one JSON whitespace character
	nc, bad := 0, ""
	for _, fn := range p.FqFunctions() {
		if pkgRel(fn) != "internal/colorjson" {
			continue
		}
		for _, c := range c10CallsTo(fn, wi.String()) {
			if c.Parent() != fn {
				continue
			}
			nc++
			s, ok := c10ConstStr(c.Call.Args[2])
			if !ok || s == "" || (strings.Trim(s, " ") != "" && strings.Trim(s, "\t") != "") {
				bad = fmt.Sprintf("%q", s)
				if !ok {
					bad = "a non-constant string"
				}
			}
		}
	}
	ru.Check(nc >= 1 && bad == "", "indent:chars", p.Rel(wi.Pos()), fmt.Sprintf("%d callers pass a run of blanks or of tabs", nc), "writeIndentInternal is called with "+bad+" as indentation unit: the text between JSON tokens is not whitespace")
	// every byte it writes is taken from that string or from the tail of what it has just written
	nw, why := 0, ""
	var order []string
	for _, b := range wi.DomPreorder() {
		for _, ins := range b.Instrs {
			c, ok := ins.(*ssa.Call)
			if !ok {
				continue
			}
			ws := c10WritesOf(c, sum)
			if len(ws) == 0 {
				continue
			}
			nw++
			m, recv := c10BufMethod(c)
			switch m {
			case "WriteString":
				src := c.Call.Args[1]
				if sl, ok := src.(*ssa.Slice); ok && sl.Low == nil {
					src = sl.X
				}
				if src != spaces {
					why = "WriteString of something other than (a prefix of) the indentation unit"
				}
				order = append(order, "unit")
			case "Write":
				if w := c10TailOfBuffer(c, recv, sum); w != "" {
					why = w
				}
				order = append(order, "tail")
			default:
				why = "writes through " + fw.CalleeName(c)
			}
		}
	}
	sort.Strings(order)
	ru.Check(nw >= 2 && why == "", "indent:src", p.Rel(wi.Pos()), fmt.Sprintf("%d writes (%s): prefixes of the indentation unit, or the last l bytes of the buffer's current contents", nw, strings.Join(order, ",")),
		"writeIndentInternal: "+why+": bytes other than the indentation just written can be copied between the JSON tokens (invalid JSON)")
}

// c10TailOfBuffer: call is B.Write(B.Bytes()[L-l:]) with L the current length of B (B.Len() or
// len of that same Bytes() result), Bytes() and L evaluated after the last write to B. Returns "" or why not.
func c10TailOfBuffer(c *ssa.Call, recv ssa.Value, sum c10WriteSummary) string {
	B := c10PathOf(recv)
	sl, ok := c.Call.Args[1].(*ssa.Slice)
	if !ok || sl.High != nil || sl.Low == nil {
		return "Write of something other than a tail slice x[k:]"
	}
	by, ok := sl.X.(*ssa.Call)
	if ok {
		if m, rv := c10BufMethod(by); m != "Bytes" || c10PathOf(rv) != B {
			ok = false
		}
	}
	if !ok {
		return "the copied slice is not taken from the buffer's own Bytes()"
	}
	sub, ok := c10Strip(sl.Low).(*ssa.BinOp)
	if !ok || sub.Op != token.SUB {
		return "the copied slice does not start at length-l"
	}
	L, ok := c10Strip(sub.X).(*ssa.Call)
	if !ok {
		return "the copied slice does not start at (current length)-l"
	}
	cur := false
	if m, rv := c10BufMethod(L); m == "Len" && c10PathOf(rv) == B {
		cur = true
	} else if fw.IsBuiltinCall(L, "len") && L.Call.Args[0] == ssa.Value(by) {
		cur = true
	}
	if !cur {
		return "the copied slice does not start at (current length)-l"
	}
	// freshness: no write to B on any path from taking the contents / the length to the copy
	for _, v := range []*ssa.Call{by, L} {
		if c10WriteOnPath(v, c, B, sum) {
			return "the buffer can be written between taking its contents/length and the copy"
		}
	}
	return ""
}

// c10WriteOnPath: some path from just after `from` (not passing `from` again) writes to B and then reaches `to`
// (`to` itself may be the write: a second execution of it in a loop counts).
func c10WriteOnPath(from, to ssa.Instruction, B c10Path, sum c10WriteSummary) bool {
	type st struct {
		b     *ssa.BasicBlock
		i     int
		dirty bool
	}
	type sk struct {
		b     *ssa.BasicBlock
		dirty bool
	}
	seen := map[sk]bool{}
	work := []st{{from.Block(), c10InstrIndex(from) + 1, false}}
	for len(work) > 0 {
		s := work[len(work)-1]
		work = work[:len(work)-1]
		if s.i == 0 {
			k := sk{s.b, s.dirty}
			if seen[k] {
				continue
			}
			seen[k] = true
		}
		stop := false
		for i := s.i; i < len(s.b.Instrs); i++ {
			ins := s.b.Instrs[i]
			if ins == to && s.dirty {
				return true
			}
			if ins == from {
				stop = true
				break
			}
			for _, w := range c10WritesOf(ins, sum) {
				if w == B {
					s.dirty = true
				}
			}
		}
		if stop {
			continue
		}
		for _, succ := range s.b.Succs {
			work = append(work, st{succ, 0, s.dirty})
		}
	}
	return false
}
