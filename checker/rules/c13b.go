package rules

import (
	"fmt"
	"strings"

	"fqverif/fw"

	"golang.org/x/tools/go/ssa"
)

// ---------------------------------------------------------------------------
// C13.alloc: no allocation sized by an unbounded jq argument
//
// make([]T, n) with n beyond what the runtime can allocate is an uncatchable "makeslice: len out of
// range" panic (or an out-of-memory kill). A size is acceptable when it is a constant, has a proved
// finite upper bound at the site, or is built only from lengths of memory that already exists
// (len/cap atoms) and bounded quantities. A size that depends on a free integer (a jq argument or an
// option member) must be bounded by a dominating guard or clamp.

func c13Alloc(r *fw.Run, p *fw.Program, scope []*ssa.Function) {
	ru := r.Rule("C13.alloc", "in code reachable from jq-callable Go functions, every make([]T, n) / Repeat count / Buffer.Grow size with a non-constant n is bounded: a proved finite upper bound at the site, or n is built only from len()/cap() of existing memory and bounded quantities (a size that is a free jq argument is an uncatchable makeslice panic)", 10)
	for _, fn := range scope {
		if fn.TypeParams().Len() > 0 && len(fn.TypeArgs()) == 0 {
			continue
		}
		var env *fw.IntervalEnv
		ord := 0
		check := func(ins ssa.Instruction, v ssa.Value, what string) {
			if _, ok := v.(*ssa.Const); ok {
				return
			}
			if env == nil {
				env = newC13Env(fn)
			}
			ord++
			key := fmt.Sprintf("%s|%s|%d", fw.ShortFn(fn), what, ord)
			ok, why := provedOrLifted(p, fn, env, v, ins.Block(), needBounded, 0)
			if ok {
				ru.Ok(key, p.Rel(ins.Pos()), "size bounded: proved upper bound, or built from lengths of existing memory and bounded quantities (possibly at every call site)")
				return
			}
			if reason, found := c13AllocExceptions[key]; found {
				ru.Except(key, p.Rel(ins.Pos()), reason)
				return
			}
			if why != "" {
				why = " [" + why + "]"
			}
			ru.Fail(key, p.Rel(ins.Pos()), "allocation of "+env.Poly.Of(v).String()+" elements has no proved upper bound (a huge jq argument / option member ends fq with 'makeslice: len out of range' or exhausts memory)"+why)
		}
		fw.EachInstr(fn, func(ins ssa.Instruction) {
			switch x := ins.(type) {
			case *ssa.MakeSlice:
				check(x, x.Len, "make")
				if x.Cap != x.Len {
					check(x, x.Cap, "make")
				}
			case ssa.CallInstruction:
				if cal := x.Common().StaticCallee(); cal != nil {
					switch cal.String() {
					case "strings.Repeat", "bytes.Repeat":
						check(x, x.Common().Args[1], "repeat")
					case "(*bytes.Buffer).Grow", "(*strings.Builder).Grow":
						// Grow(n) reserves n bytes at once: panics (bytes.ErrTooLarge / makeslice) or exhausts memory like make
						check(x, x.Common().Args[1], "grow")
					case "slices.Grow":
						check(x, x.Common().Args[1], "grow")
					}
				}
			}
		})
	}
}

var c13AllocExceptions = map[string]string{
	"(pkg/interp.ArrayDecodeValue).JQValueSlice|make|1": "gojq contract (gojq.go, JQValue interface; func.go slice): start and end are translated and clamped into 0..JQValueSliceLen() before JQValueSlice is called, so end-start <= number of children",
	"internal/asciiwriter.New|make|1":                   "width is Options.LineBytes (>= 1 by C13.inv, no upper clamp in fq): dump() first builds the column header with LineBytes string concatenations, which does not finish for any width large enough to overflow this allocation; observed as a hang (interruptible), not a runtime fault. Out of this rule's reach rather than safe by construction",
	"internal/hexpairwriter.New|make|1":                 "same as asciiwriter.New: width is Options.LineBytes, the header loop over LineBytes runs first",
	"pkg/interp.indentStr|repeat|1":                     "n is 2 * the depth of the value in the decode tree being dumped: bounded by the depth of an existing tree",
	"internal/mathx.padFormatNumber|repeat|1":           "width is a constant (0, 2) or the address column width = number of digits of an address in base >= 2 plus prefix (mathx.DigitsInBase): at most 66",
}

const c13MaxAlloc = int64(1) << 32

// c13SizeBounded: v has a proved finite upper bound at b, or is built only from len()/cap() of
// existing memory and atoms with a proved finite upper bound.
func c13SizeBounded(env *fw.IntervalEnv, v ssa.Value, b *ssa.BasicBlock) bool {
	iv := env.At(v, b)
	if !iv.HiInf && iv.Hi <= c13MaxAlloc {
		return true
	}
	pv := env.Poly.Of(v)
	if _, isC := pv.IsConst(); isC {
		return false
	}
	for _, a := range pv.Atoms() {
		if strings.HasPrefix(a, "len(") || strings.HasPrefix(a, "cap(") {
			continue
		}
		bounded := false
		for _, f := range env.Poly.Facts(b) {
			if av := fw.BoundFromFact(f, fw.PAtom(a)); !av.HiInf && av.Hi <= c13MaxAlloc {
				bounded = true
			}
		}
		if !bounded {
			return false
		}
	}
	return true
}
