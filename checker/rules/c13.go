package rules

import (
	"fmt"
	"go/token"
	"go/types"
	"os"
	"sort"
	"strings"

	"golang.org/x/tools/go/ssa"

	"fqverif/fw"
)

func init() { Register("C13", runC13) }

// c13Scope returns the fq functions reachable from the jq-side roots through static calls and
// closures, not descending into the decode subtree (pkg/decode and decoder roots: C06's territory).
func c13Scope(p *fw.Program) (roots []*ssa.Function, scope []*ssa.Function) {
	reg := jqRegistered(p)
	for f := range reg {
		roots = append(roots, f)
	}
	// gojq.JQValue methods of fq's value types
	for _, fn := range p.FqFunctions() {
		if fn.Signature.Recv() == nil {
			continue
		}
		pr := pkgRel(fn)
		if (pr == "pkg/interp" || pr == "internal/gojqx") && (strings.HasPrefix(fn.Name(), "JQValue") || fn.Name() == "ExtKeys" || fn.Name() == "ExtType") {
			roots = append(roots, fn)
		}
	}
	sort.Slice(roots, func(i, j int) bool { return roots[i].String() < roots[j].String() })
	decRoots, _ := DecodeRoots(p)
	isDec := map[*ssa.Function]bool{}
	for _, f := range decRoots {
		isDec[f] = true
	}
	seen := map[*ssa.Function]bool{}
	var stack []*ssa.Function
	push := func(f *ssa.Function) {
		if f == nil || seen[f] || f.Blocks == nil || !fw.InFq(f) || isDec[f] {
			return
		}
		if pkgRel(f) == "pkg/decode" {
			return
		}
		seen[f] = true
		stack = append(stack, f)
	}
	for _, r := range roots {
		push(r)
	}
	for len(stack) > 0 {
		f := stack[len(stack)-1]
		stack = stack[:len(stack)-1]
		scope = append(scope, f)
		for _, a := range f.AnonFuncs {
			push(a)
		}
		for _, c := range fw.CallsIn(f) {
			push(c.Common().StaticCallee())
			for _, g := range closuresBoundTo(c.Common().Value, f) {
				push(g)
			}
			// function values passed as arguments (callbacks)
			for _, a := range c.Common().Args {
				switch x := a.(type) {
				case *ssa.Function:
					push(x)
				case *ssa.MakeClosure:
					push(x.Fn.(*ssa.Function))
				}
			}
		}
	}
	sort.Slice(scope, func(i, j int) bool { return scope[i].String() < scope[j].String() })
	return
}

// closuresBoundTo resolves a called value that is a free variable (or a load of one) of closure f
// to the closures stored in the captured variable by the enclosing function.
func closuresBoundTo(v ssa.Value, f *ssa.Function) []*ssa.Function {
	if u, ok := v.(*ssa.UnOp); ok && u.Op == token.MUL {
		v = u.X
	}
	fv, ok := v.(*ssa.FreeVar)
	if !ok || f.Parent() == nil {
		return nil
	}
	idx := -1
	for i, x := range f.FreeVars {
		if x == fv {
			idx = i
		}
	}
	var out []*ssa.Function
	fw.EachInstr(f.Parent(), func(ins ssa.Instruction) {
		mc, ok := ins.(*ssa.MakeClosure)
		if !ok || mc.Fn != f || idx < 0 || idx >= len(mc.Bindings) {
			return
		}
		b := mc.Bindings[idx]
		switch x := b.(type) {
		case *ssa.MakeClosure:
			out = append(out, x.Fn.(*ssa.Function))
		case *ssa.Function:
			out = append(out, x)
		case *ssa.Alloc:
			if x.Referrers() != nil {
				for _, r := range *x.Referrers() {
					if st, ok := r.(*ssa.Store); ok && st.Addr == ssa.Value(x) {
						switch y := st.Val.(type) {
						case *ssa.MakeClosure:
							out = append(out, y.Fn.(*ssa.Function))
						case *ssa.Function:
							out = append(out, y)
						}
					}
				}
			}
		case *ssa.FreeVar:
			out = append(out, closuresBoundTo(x, f.Parent())...)
		}
	})
	return out
}

// calleePre: callee -> (argument index, requirement)
type preReq struct {
	arg  int
	kind string // "nonneg" | "base36" | "base62"
}

var calleePre = map[string]preReq{
	"strings.Repeat":                        {1, "nonneg"},
	"bytes.Repeat":                          {1, "nonneg"},
	"(*gopkg.in/yaml.v3.Encoder).SetIndent": {1, "nonneg"},
	"strconv.FormatInt":                     {1, "base36"},
	"strconv.FormatUint":                    {1, "base36"},
	"strconv.AppendInt":                     {2, "base36"},
	"strconv.AppendUint":                    {2, "base36"},
	"(*math/big.Int).Text":                  {1, "base62"},
	"(*math/big.Int).Append":                {2, "base62"},
	// math/big.Float panics with ErrNaN on a NaN operand
	"(*math/big.Float).SetFloat64": {1, "notnan"},
	"math/big.NewFloat":            {0, "notnan"},
	// reflect-based encoders that call Type() on the zero reflect.Value of a nil interface
	"(*github.com/BurntSushi/toml.Encoder).Encode": {1, "nonnil"},
}

// c13Exceptions: fault sites whose precondition the engine cannot prove but reading does. key = function|class|ordinal.
var c13Exceptions = map[string]string{
	"internal/mathx.PadFormatBigInt|base:Text|1":             "previewValue passes DisplayFormat.FormatBase(): DisplayFormat is only ever assigned the four Number* constants by the scalar mappers, for which FormatBase returns 10/2/8/16 (C10.tables); the 0 default is unreachable",
	"internal/mathx.PadFormatInt[int64]|base:FormatInt|1":    "see PadFormatBigInt: base is DisplayFormat.FormatBase() of a Number* constant, or a clamped Options base",
	"internal/mathx.PadFormatUint[uint64]|base:FormatUint|1": "see PadFormatBigInt: base is DisplayFormat.FormatBase() of a Number* constant, or a clamped Options base",
	"(*pkg/interp.Interp).Eval|assert|1":                     "internal contract: Interp.OS is always constructed with a value implementing interp.OS (type of the field)",
	"(pkg/interp.decodeValue).JQValueHas|assert|1":           "method value of the embedded gojq.JQValue interface (compiler-generated assertion on a non-nil embedded interface set by makeDecodeValueOut)",
	"(pkg/interp.decodeValue).JQValueKey|assert|1":           "method value of the embedded gojq.JQValue interface (see JQValueHas)",
	"(pkg/interp.decodeValue).JQValueKey|assert|2":           "method value of the embedded gojq.JQValue interface (see JQValueHas)",
	"(pkg/interp.ArrayDecodeValue).JQValueSlice|make|1":      "interpreter contract: gojq calls JQValueSlice with 0 <= start <= end <= JQValueSliceLen()",
	"(pkg/interp.ArrayDecodeValue).JQValueSlice|make|2":      "interpreter contract: gojq calls JQValueSlice with 0 <= start <= end <= JQValueSliceLen()",
}

func runC13(r *fw.Run, p *fw.Program) {
	c13RetireStaleControls()
	roots, scope := c13Scope(p)
	rr := r.Rule("C13.roots", "Go functions registered into jq (RegisterFunc0-2/RegisterIter0-2) and the JQValue methods of fq's value types are enumerated as totality roots", 50)
	nReg := 0
	for _, f := range roots {
		if n := jqRegisteredName(p, f); n != "" || jqRegistered(p)[f] {
			nReg++
			rr.Ok("jq:"+jqRegisteredName(p, f)+"="+fw.ShortFn(f), p.Rel(f.Pos()), "registered jq function")
		}
	}
	r.Notes["jq_registered_go_functions"] = nReg
	r.Notes["jqvalue_method_roots"] = len(roots) - nReg
	r.Notes["functions_in_scope"] = len(scope)

	c13Pre(r, p, scope)
	c13Inv(r, p)
	c13Panic(r, p, scope)
	c13Wrap(r, p)
	c13Cast(r, p)
	c13Alloc(r, p, scope)
	c13ErrVal(r, p)
	c13NilRet(r, p, scope)
	c13ErrZero(r, p, scope)
	c13Embed(r, p)
	c13JQType(r, p, scope)
	c13Idx(r, p, scope)
	c13JQRec(r, p, c13JQRecRows)
	c13ExploreIdx(p, scope)
	if os.Getenv("C13_DUMP") != "" {
		r.C13Dump(os.Stdout)
	}
}

func c13Pre(r *fw.Run, p *fw.Program, scope []*ssa.Function) {
	ru := r.Rule("C13.pre", "in code reachable from jq-callable Go functions, every fault site with a non-constant operand (integer / and %, shift by a signed count, make length, Repeat/SetIndent count, number base, constant index into an option string, unchecked type assertion, interface value handed to a reflect-based encoder that faults on nil) has its precondition established by a dominating guard, clamp, unsigned type, field invariant or interval (lifted to every call site for parameters)", 75)
	for _, fn := range scope {
		if fn.TypeParams().Len() > 0 && len(fn.TypeArgs()) == 0 {
			continue
		}
		env := newC13Env(fn)
		ord := map[string]int{}
		report := func(class string, ins ssa.Instruction, ok bool, okMsg, failMsg string) {
			ord[class]++
			key := fmt.Sprintf("%s|%s|%d", fw.ShortFn(fn), class, ord[class])
			if ok {
				ru.Ok(key, p.Rel(ins.Pos()), okMsg)
				return
			}
			if class == "assert" {
				if o := fn.Origin(); o != nil && o.String() == fw.Mod+"/internal/gojqx.CastFn" {
					if ord[class] == 1 {
						ru.Except(fw.ShortFn(fn)+"|assert|*", p.Rel(ins.Pos()), "gojqx.CastFn: every assertion any(v).(T) sits in the arm of a type switch on the zero value of T that selected exactly that type (decided per instance by C13.cast)")
					}
					return
				}
			}
			if reason, found := c13Exceptions[key]; found {
				ru.Except(key, p.Rel(ins.Pos()), reason)
				return
			}
			ru.Fail(key, p.Rel(ins.Pos()), failMsg)
		}
		need := func(class string, ins ssa.Instruction, v ssa.Value, k needKind, okMsg, failMsg string) {
			ok, why := provedOrLifted(p, fn, env, v, ins.Block(), k, 0)
			if ok {
				report(class, ins, true, okMsg, "")
				return
			}
			if why != "" {
				failMsg += " [" + why + "]"
			}
			report(class, ins, false, "", failMsg)
		}
		fw.EachInstr(fn, func(ins ssa.Instruction) {
			switch x := ins.(type) {
			case *ssa.BinOp:
				switch x.Op {
				case token.QUO, token.REM:
					if !isIntT(x.Type()) {
						return
					}
					if c, ok := x.Y.(*ssa.Const); ok && c.Value != nil && c.Int64() != 0 {
						return
					}
					need("div", x, x.Y, needNonZero, "divisor proved non-zero", "integer "+x.Op.String()+" by "+env.Poly.Of(x.Y).String()+" which is not proved non-zero (division by zero is an uncatchable runtime panic)")
				case token.SHL, token.SHR:
					if isUnsignedT(x.Y.Type()) {
						return
					}
					if c, ok := x.Y.(*ssa.Const); ok && c.Value != nil && c.Int64() >= 0 {
						return
					}
					need("shift", x, x.Y, needNonNeg, "shift count proved >= 0", "shift by signed count "+env.Poly.Of(x.Y).String()+" not proved >= 0 (negative shift is an uncatchable runtime panic)")
				}
			case *ssa.MakeSlice:
				for _, v := range []ssa.Value{x.Len, x.Cap} {
					if v == nil {
						continue
					}
					if c, ok := v.(*ssa.Const); ok && c.Value != nil && c.Int64() >= 0 {
						continue
					}
					need("make", x, v, needNonNeg, "make size proved >= 0", "make with size "+env.Poly.Of(v).String()+" not proved >= 0 (negative size is an uncatchable runtime panic)")
				}
			case *ssa.TypeAssert:
				if x.CommaOk {
					return
				}
				report("assert", x, false, "", "unchecked type assertion to "+shortType(x.AssertedType)+" in jq-callable code")
			case ssa.CallInstruction:
				callee := x.Common().StaticCallee()
				if callee == nil {
					return
				}
				name := callee.String()
				pre, ok := calleePre[name]
				if !ok {
					return
				}
				args := x.Common().Args
				if pre.arg >= len(args) {
					return
				}
				a := args[pre.arg]
				switch pre.kind {
				case "nonnil":
					if _, isIface := a.Type().Underlying().(*types.Interface); !isIface {
						return
					}
					if mi, ok := a.(*ssa.MakeInterface); ok {
						if _, isPtr := mi.X.Type().Underlying().(*types.Pointer); !isPtr {
							return // a boxed non-pointer value is never a nil interface
						}
					}
					okNil := false
					for _, g := range fw.Guards(x.Block()) {
						g = g.Normalize()
						bo, ok := g.Cond.(*ssa.BinOp)
						if !ok || (bo.Op != token.NEQ && bo.Op != token.EQL) {
							continue
						}
						var other ssa.Value
						if bo.X == a {
							other = bo.Y
						} else if bo.Y == a {
							other = bo.X
						}
						if c, ok := other.(*ssa.Const); ok && c.IsNil() && (bo.Op == token.NEQ) == g.True {
							okNil = true
						}
					}
					report("nonnil:"+callee.Name(), x, okNil, "value tested against nil first", name+" is handed an interface value that is not tested against nil: the encoder reflects on it and a nil value (jq null, a decode value that is null) is an uncatchable reflect panic")
				case "notnan":
					// proved by a dominating math.IsNaN(a) == false (or a != a false), or a is converted from an integer
					okNaN := false
					if cv, ok := a.(*ssa.Convert); ok {
						if b, ok := cv.X.Type().Underlying().(*types.Basic); ok && b.Info()&types.IsInteger != 0 {
							okNaN = true
						}
					}
					if _, ok := a.(*ssa.Const); ok {
						okNaN = true
					}
					for _, g := range fw.Guards(x.Block()) {
						g = g.Normalize()
						switch cnd := g.Cond.(type) {
						case *ssa.Call:
							if cal := cnd.Common().StaticCallee(); cal != nil && cal.String() == "math.IsNaN" && len(cnd.Common().Args) == 1 && cnd.Common().Args[0] == a && !g.True {
								okNaN = true
							}
						case *ssa.BinOp:
							if cnd.X == a && cnd.Y == a && ((cnd.Op == token.NEQ && !g.True) || (cnd.Op == token.EQL && g.True)) {
								okNaN = true
							}
						}
					}
					report("notnan:"+callee.Name(), x, okNaN, "operand proved not NaN", name+" is handed a float that is not proved to be a number: math/big panics with ErrNaN on NaN (jq nan), which nothing recovers")
				case "nonneg":
					if c, ok := a.(*ssa.Const); ok && c.Value != nil && c.Int64() >= 0 {
						return
					}
					need("count:"+callee.Name(), x, a, needNonNeg, "count proved >= 0", name+" with count "+env.Poly.Of(a).String()+" not proved >= 0 (panics on negative count)")
				case "base36", "base62":
					hi := int64(36)
					if pre.kind == "base62" {
						hi = 62
					}
					k := needBase36
					if pre.kind == "base62" {
						k = needBase62
					}
					need("base:"+callee.Name(), x, a, k, "base within range", fmt.Sprintf("%s with base %s not proved within 2..%d (panics on an illegal base)", name, env.Poly.Of(a).String(), hi))
				}
			case *ssa.Index, *ssa.IndexAddr:
				var xs, idx ssa.Value
				switch y := x.(type) {
				case *ssa.Index:
					xs, idx = y.X, y.Index
				case *ssa.IndexAddr:
					xs, idx = y.X, y.Index
				}
				// non-constant index into a fixed-size array: must be proved inside [0, len)
				if _, isConst := idx.(*ssa.Const); !isConst {
					at := xs.Type().Underlying()
					if pt, ok := at.(*types.Pointer); ok {
						at = pt.Elem().Underlying()
					}
					if arr, ok := at.(*types.Array); ok {
						iv := env.At(idx, x.(ssa.Instruction).Block())
						okIdx := !iv.LoInf && iv.Lo >= 0 && !iv.HiInf && iv.Hi < arr.Len()
						if !okIdx && isUnsignedT(idx.Type()) {
							if bt, ok := idx.Type().Underlying().(*types.Basic); ok && bt.Kind() == types.Uint8 && arr.Len() >= 256 {
								okIdx = true
							}
						}
						if !okIdx {
							// loop index of `for i := range arr` / `for i := 0; i < len(arr); i++`
							okIdx = env.Poly.Proves(x.(ssa.Instruction).Block(), fw.Cmp{P: env.Poly.Of(idx).Sub(fw.PConst(arr.Len())), Rel: fw.LT}) && env.ProvedNonNeg(idx, x.(ssa.Instruction).Block())
						}
						report("arridx", x.(ssa.Instruction), okIdx, "index proved inside the array", fmt.Sprintf("index %s into an array of %d elements is not proved inside [0,%d) (index out of range is an uncatchable runtime panic)", env.Poly.Of(idx).String(), arr.Len(), arr.Len()))
					}
					return
				}
				// constant index into a string (option strings such as comma[0])
				c, isC := idx.(*ssa.Const)
				if !isC || c.Value == nil {
					return
				}
				bt, isStr := xs.Type().Underlying().(*types.Basic)
				if !isStr || bt.Kind() != types.String {
					return
				}
				if _, isConstStr := xs.(*ssa.Const); isConstStr {
					return
				}
				k := c.Int64()
				okLen := lenProved(env, xs, x.(ssa.Instruction).Block(), k)
				report("stridx", x.(ssa.Instruction), okLen, "len > index established", fmt.Sprintf("constant index [%d] into a string whose length is not proved > %d (empty option string panics)", k, k))
			}
		})
	}
}

// c13FieldFacts: struct field invariants used to discharge fault sites; each is justified by the
// writers check of rule C13.inv (every store / literal of the field establishes it).
var c13FieldFacts = map[string]fw.Interval{
	"pkg/interp.Options.LineBytes":      fw.AtLeast(1),
	"pkg/interp.Options.Addrbase":       fw.Range(2, 36),
	"pkg/interp.Options.Sizebase":       fw.Range(2, 36),
	"pkg/interp.Options.ArrayTruncate":  fw.AtLeast(0),
	"pkg/interp.Options.StringTruncate": fw.AtLeast(0),
	"pkg/interp.Options.Depth":          fw.AtLeast(0),
	"pkg/interp.Options.DisplayBytes":   fw.AtLeast(0),
	"pkg/interp.Binary.unit":            fw.AtLeast(1),
}

func c13FieldRange(st, f string) (fw.Interval, bool) {
	iv, ok := c13FieldFacts[st+"."+f]
	return iv, ok
}

func newC13Env(fn *ssa.Function) *fw.IntervalEnv {
	env := fw.NewIntervalEnv(fn)
	env.FieldRange = c13FieldRange
	return env
}

type needKind int

const (
	needNonZero needKind = iota
	needNonNeg
	needBase36
	needBase62
	needBounded // proved finite upper bound (allocation sizes)
)

func provedNeed(env *fw.IntervalEnv, v ssa.Value, b *ssa.BasicBlock, k needKind) bool {
	switch k {
	case needNonZero:
		return env.ProvedNonZeroDeep(v, b)
	case needNonNeg:
		return env.ProvedNonNeg(v, b)
	case needBounded:
		return c13SizeBounded(env, v, b)
	case needBase36, needBase62:
		hi := int64(36)
		if k == needBase62 {
			hi = 62
		}
		iv := env.At(v, b)
		return !iv.LoInf && iv.Lo >= 2 && !iv.HiInf && iv.Hi <= hi
	}
	return false
}

// paramOf: v is (through integer conversions) c*param + d with c > 0, d >= 0; returns the parameter.
func paramOf(fn *ssa.Function, env *fw.IntervalEnv, v ssa.Value, k needKind) *ssa.Parameter {
	pv := env.Poly.Of(v)
	atoms := pv.Atoms()
	if k == needBounded {
		// lengths of existing memory are bounded: only the remaining atom has to be a parameter
		var rest []string
		for _, a := range atoms {
			if !strings.HasPrefix(a, "len(") && !strings.HasPrefix(a, "cap(") {
				rest = append(rest, a)
			}
		}
		atoms = rest
	}
	if len(atoms) != 1 {
		return nil
	}
	var par *ssa.Parameter
	for _, pa := range fn.Params {
		if pa.Name() == atoms[0] {
			par = pa
		}
	}
	if par == nil {
		return nil
	}
	c := pv.Coef(atoms[0])
	d := pv.Const()
	switch k {
	case needNonNeg:
		if c > 0 && d >= 0 {
			return par
		}
	case needBounded:
		return par
	default:
		if c == 1 && d == 0 {
			return par
		}
		if k == needNonZero && c > 0 && d == 0 {
			return par
		}
	}
	return nil
}

var c13Callers map[*ssa.Function][]ssa.CallInstruction

func callersOf(p *fw.Program, fn *ssa.Function) []ssa.CallInstruction {
	if c13Callers == nil {
		c13Callers = map[*ssa.Function][]ssa.CallInstruction{}
		for _, f := range p.FqFunctions() {
			if f.TypeParams().Len() > 0 && len(f.TypeArgs()) == 0 {
				continue
			}
			if f.Synthetic != "" && !strings.HasPrefix(f.Synthetic, "instance of") {
				continue // wrappers/thunks are entered only through dynamic calls
			}
			if !linkedPackages(p)[fw.FnPkgPath(f)] {
				continue // package not imported (transitively) by the fq main package: dead code
			}
			for _, c := range fw.CallsIn(f) {
				if cal := c.Common().StaticCallee(); cal != nil {
					c13Callers[cal] = append(c13Callers[cal], c)
				}
			}
		}
	}
	return c13Callers[fn]
}

var linkedPkgs map[string]bool

// linkedPackages: packages transitively imported by the fq main package.
func linkedPackages(p *fw.Program) map[string]bool {
	if linkedPkgs != nil {
		return linkedPkgs
	}
	linkedPkgs = map[string]bool{}
	var visit func(path string)
	visit = func(path string) {
		if linkedPkgs[path] {
			return
		}
		linkedPkgs[path] = true
		if pk := p.ByPath[path]; pk != nil {
			for ip := range pk.Imports {
				visit(ip)
			}
		}
	}
	visit(fw.Mod)
	return linkedPkgs
}

// freeVarBinding: for a free variable of closure fn, the values bound to it by the MakeClosure sites in the parent.
func freeVarBindings(fn *ssa.Function, fv *ssa.FreeVar) (vals []ssa.Value, sites []ssa.Instruction) {
	idx := -1
	for i, x := range fn.FreeVars {
		if x == fv {
			idx = i
		}
	}
	if idx < 0 || fn.Parent() == nil {
		return
	}
	fw.EachInstr(fn.Parent(), func(ins ssa.Instruction) {
		if mc, ok := ins.(*ssa.MakeClosure); ok && mc.Fn == fn && idx < len(mc.Bindings) {
			vals = append(vals, mc.Bindings[idx])
			sites = append(sites, mc)
		}
	})
	return
}

// provedOrLifted: v satisfies k at block b of fn, possibly by lifting a parameter or captured variable to the callers.
func provedOrLifted(p *fw.Program, fn *ssa.Function, env *fw.IntervalEnv, v ssa.Value, b *ssa.BasicBlock, k needKind, depth int) (bool, string) {
	if provedNeed(env, v, b, k) {
		return true, ""
	}
	if depth > 4 {
		return false, "call chain too deep"
	}
	if par := paramOf(fn, env, v, k); par != nil {
		return liftedProved(p, fn, par, k, depth)
	}
	// captured by value
	x := v
	for {
		if c, ok := x.(*ssa.Convert); ok && isIntT(c.Type()) && isIntT(c.X.Type()) {
			x = c.X
			continue
		}
		break
	}
	if u, ok := x.(*ssa.UnOp); ok && u.Op == token.MUL {
		if fv, ok := u.X.(*ssa.FreeVar); ok {
			// captured by reference: every value stored into the captured variable (in the enclosing function) must satisfy k
			vals, _ := freeVarBindings(fn, fv)
			if len(vals) == 0 {
				return false, "captured variable with unknown binding"
			}
			for _, bv := range vals {
				// captured through several closure levels: follow the binding up to the owning function
				owner := fn.Parent()
				for hops := 0; hops < 6; hops++ {
					fv2, isFV := bv.(*ssa.FreeVar)
					if !isFV || owner == nil {
						break
					}
					v2, _ := freeVarBindings(owner, fv2)
					if len(v2) != 1 {
						break
					}
					bv = v2[0]
					owner = owner.Parent()
				}
				al, ok := bv.(*ssa.Alloc)
				if !ok || al.Referrers() == nil || owner == nil {
					return false, "captured variable is not a local of the enclosing function"
				}
				// the closure itself must not write it
				n := 0
				for _, r := range *al.Referrers() {
					st, ok := r.(*ssa.Store)
					if !ok || st.Addr != ssa.Value(al) {
						continue
					}
					n++
					penv := newC13Env(owner)
					penv.CallRange = env.CallRange
					if ok, why := provedOrLifted(p, owner, penv, st.Val, st.Block(), k, depth+1); !ok {
						// assigned once, tested afterwards: the requirement holds where the closure is created
						// (a dominating no-return guard on a load of the same variable)
						if c13SingleStoreGuarded(owner, fn, al, penv, k) {
							continue
						}
						return false, why
					}
				}
				if n == 0 {
					return false, "captured variable never assigned in the enclosing function"
				}
				for _, sib := range fw.WithClosures(owner) {
					if sib == owner {
						continue
					}
					for _, w := range storesThroughFreeVar(sib, al) {
						_ = w
						return false, "captured variable is assigned inside a closure"
					}
				}
			}
			return true, ""
		}
	}
	if fv, ok := x.(*ssa.FreeVar); ok {
		vals, sites := freeVarBindings(fn, fv)
		if len(vals) == 0 {
			return false, "captured variable with unknown binding"
		}
		for i, bv := range vals {
			penv := newC13Env(fn.Parent())
			if ok, why := provedOrLifted(p, fn.Parent(), penv, bv, sites[i].Block(), k, depth+1); !ok {
				return false, why
			}
		}
		return true, ""
	}
	return false, "no local proof for " + v.Name() + " = " + v.String()
}

// liftedProved: the requirement on parameter par of fn holds at every static call site (recursively).
func liftedProved(p *fw.Program, fn *ssa.Function, par *ssa.Parameter, k needKind, depth int) (bool, string) {
	if depth > 4 {
		return false, "call chain too deep"
	}
	idx := -1
	for i, pa := range fn.Params {
		if pa == par {
			idx = i
		}
	}
	cs := callersOf(p, fn)
	if idx < 0 || len(cs) == 0 {
		return false, "no static call sites of " + fw.ShortFn(fn)
	}
	for _, c := range cs {
		args := c.Common().Args
		if idx >= len(args) {
			return false, "argument missing at a call site"
		}
		caller := c.Parent()
		env := newC13Env(caller)
		a := args[idx]
		if ok, why := provedOrLifted(p, caller, env, a, c.Block(), k, depth+1); ok {
			continue
		} else if why != "" {
			return false, why
		}
		return false, "call site in " + fw.ShortFn(caller) + " passes " + env.Poly.Of(a).String()
	}
	return true, ""
}

func isIntT(t types.Type) bool {
	b, ok := t.Underlying().(*types.Basic)
	return ok && b.Info()&types.IsInteger != 0
}

func isUnsignedT(t types.Type) bool {
	b, ok := t.Underlying().(*types.Basic)
	return ok && b.Info()&types.IsUnsigned != 0
}

// lenProved: a dominating guard establishes len(s) > k, or s != "" for k == 0.
func lenProved(env *fw.IntervalEnv, s ssa.Value, b *ssa.BasicBlock, k int64) bool {
	sp := env.Poly.Of(s).String()
	for _, g := range fw.Guards(b) {
		g = g.Normalize()
		bo, ok := g.Cond.(*ssa.BinOp)
		if !ok {
			continue
		}
		// s != "" (true) / s == "" (false)
		if k == 0 && (bo.Op == token.NEQ || bo.Op == token.EQL) {
			var other ssa.Value
			if env.Poly.Of(bo.X).String() == sp {
				other = bo.Y
			} else if env.Poly.Of(bo.Y).String() == sp {
				other = bo.X
			}
			if c, ok := other.(*ssa.Const); ok && c.Value != nil && c.Value.ExactString() == `""` {
				if (bo.Op == token.NEQ && g.True) || (bo.Op == token.EQL && !g.True) {
					return true
				}
			}
		}
	}
	// len(s) facts
	want := fw.Cmp{P: fw.PAtom("len(" + sp + ")").Sub(fw.PConst(k)), Rel: fw.GT}
	return env.Poly.Proves(b, want)
}

// c13PanicExceptions: explicit panics in jq-callable code. key = function|type|message
var c13PanicExceptions = map[string]string{
	"format/csv.toCSV|string|not array":       "unreachable: NormalizeToStrings of a []any returns a []any",
	"format/text.init#2$10|string|not map":    "unreachable: NormalizeToStrings of a map[string]any returns a map[string]any",
	"format/text.init#2$8|string|not map":     "unreachable: NormalizeToStrings of a map[string]any returns a map[string]any",
	"internal/mapstruct.ToMap|string|not map": "unreachable: callers pass struct values, which mapstructure decodes into a map",
	"(*internal/colorjson.Encoder).encode|string|fmt.Sprintf:unknown type and to ValueFn set: %[1]T (%[1]v)": "contract: fq always constructs the encoder with a ValueFn (interp._printColorJSON, json.toJSON); without one only gojq-normalised values are encoded",
	"pkg/interp.decoratorFromOptions$1|string|fmt.Sprintf:unreachable %v (%T)":                               "unreachable default of a type switch over the gojq value kinds (argued against C08.kinds)",
	"pkg/interp.dumpEx|string|fmt.Sprintf:unreachable vv %#+v":                                               "unreachable default: decode.Value.V is *Compound or a scalar.Scalarable (C08.kinds)",
	"pkg/interp.makeDecodeValueOut|string|fmt.Sprintf:unreachable dv %#+v":                                   "unreachable default: decode.Value.V is *Compound or a scalar.Scalarable (C08.kinds)",
	"pkg/interp.makeDecodeValueOut|string|fmt.Sprintf:unreachable vv %#+v":                                   "unreachable default: scalar value kinds are enumerated (C08.kinds)",
	"pkg/interp.previewValue|string|fmt.Sprintf:unreachable %v (%T)":                                         "unreachable default of a type switch over the gojq value kinds (argued against C08.kinds)",
}

// c13KindsSwitchMissing: the jq value kinds (bool, int, float64, string, *big.Int, []any, map[string]any)
// for which no failed type-switch arm dominates the panic.
func c13KindsSwitchMissing(pn *ssa.Panic) []string {
	covered := map[string]bool{}
	for _, g := range fw.Guards(pn.Block()) {
		g = g.Normalize()
		ex, ok := g.Cond.(*ssa.Extract)
		if !ok || g.True || ex.Index != 1 {
			continue
		}
		if ta, ok := ex.Tuple.(*ssa.TypeAssert); ok {
			covered[types.TypeString(ta.AssertedType, nil)] = true
		}
	}
	var missing []string
	for _, k := range []string{"bool", "int", "float64", "string", "*math/big.Int", "[]any", "map[string]any"} {
		if !covered[k] && !covered[strings.ReplaceAll(k, "any", "interface{}")] {
			missing = append(missing, k)
		}
	}
	return missing
}

func c13Panic(r *fw.Run, p *fw.Program, scope []*ssa.Function) {
	ru := r.Rule("C13.panic", "every explicit panic in jq-callable Go code is a classified unreachable/contract site; a default arm argued unreachable because the switch covers the jq value kinds is checked to have an arm for bool, int, float64, string, *big.Int, []any and map[string]any", 15)
	for _, fn := range scope {
		if fn.TypeParams().Len() > 0 && len(fn.TypeArgs()) == 0 {
			continue
		}
		seen := map[string]int{}
		fw.EachInstr(fn, func(ins ssa.Instruction) {
			pn, ok := ins.(*ssa.Panic)
			if !ok {
				return
			}
			key, _ := panicKey(p, pn)
			base := key
			seen[key]++
			if seen[key] > 1 {
				key = fmt.Sprintf("%s||%d", key, seen[key])
			}
			if !pn.Pos().IsValid() {
				ru.Except(key, "", "synthetic go/ssa panic (select without default)")
				return
			}
			if reason, ok := c13PanicExceptions[base]; ok {
				if strings.Contains(reason, "type switch over the gojq value kinds") {
					if missing := c13KindsSwitchMissing(pn); len(missing) > 0 {
						ru.Fail(key, p.Rel(pn.Pos()), "the panicking default arm of this switch over a jq value is reachable: no arm for "+strings.Join(missing, ", ")+" (every jq value kind must have an arm for the default to be unreachable)")
						return
					}
				}
				ru.Except(key, p.Rel(pn.Pos()), reason)
				return
			}
			if reason, ok := panicExceptions[base]; ok {
				ru.Except(key, p.Rel(pn.Pos()), reason)
				return
			}
			if reason := exhaustiveTypeSwitch(p, pn); reason != "" {
				ru.Except(key, p.Rel(pn.Pos()), reason)
				return
			}
			if o := fn.Origin(); o != nil && o.String() == fw.Mod+"/internal/gojqx.CastFn" {
				if why := castFnInstanceBad(p, fn); why == "" {
					ru.Ok(key, p.Rel(pn.Pos()), "CastFn instance: panic depends only on the type argument, which is a supported kind, and struct instances always get a struct mapper")
				} else {
					ru.Fail(key, p.Rel(pn.Pos()), "gojqx.CastFn instantiated such that it panics for every call: "+why)
				}
				return
			}
			ru.Fail(key, p.Rel(pn.Pos()), "explicit panic reachable from a jq-callable function: a jq program could end fq instead of getting a catchable error")
		})
	}
}

// castFnInstanceBad: the two panics of gojqx.CastFn[T] depend only on T: a struct T needs a
// non-nil structFn at every call site; other T must be one of the kinds the function handles.
func castFnInstanceBad(p *fw.Program, fn *ssa.Function) string {
	if len(fn.TypeArgs()) != 1 {
		return "unexpected type arguments"
	}
	t := fn.TypeArgs()[0]
	switch u := t.Underlying().(type) {
	case *types.Struct:
		for _, c := range callersOf(p, fn) {
			args := c.Common().Args
			if len(args) < 2 {
				return "call without struct mapper"
			}
			if k, ok := args[1].(*ssa.Const); ok && k.IsNil() {
				return "struct type " + shortType(t) + " cast with a nil struct mapper in " + fw.ShortFn(c.Parent())
			}
			if pa, ok := args[1].(*ssa.Parameter); ok {
				// forwarded by a wrapper: check the wrapper's call sites one level up
				for _, cc := range callersOf(p, c.Parent()) {
					for i, par := range c.Parent().Params {
						if par == pa && i < len(cc.Common().Args) {
							if k, ok := cc.Common().Args[i].(*ssa.Const); ok && k.IsNil() {
								return "struct type " + shortType(t) + " cast with a nil struct mapper in " + fw.ShortFn(cc.Parent())
							}
						}
					}
				}
			}
		}
		return ""
	case *types.Interface:
		return ""
	case *types.Basic:
		// the arms of the type switch match the predeclared types only, not named types built on them
		switch u.Kind() {
		case types.Bool, types.Int, types.Float64, types.String:
			if types.Identical(t, types.Typ[u.Kind()]) {
				return ""
			}
		}
		return "unsupported basic type " + shortType(t)
	case *types.Slice:
		if types.Identical(t, types.NewSlice(types.NewInterfaceType(nil, nil))) {
			return ""
		}
	case *types.Map:
		if types.Identical(t, types.NewMap(types.Typ[types.String], types.NewInterfaceType(nil, nil))) {
			return ""
		}
	case *types.Pointer:
		if shortType(t) == "*math/big.Int" {
			return ""
		}
	}
	return "unsupported type " + shortType(t)
}

// c13InvExceptions: writers of invariant fields that the engine cannot prove. key = function|field|ordinal
var c13InvExceptions = map[string]string{
	"(pkg/interp.ArrayDecodeValue).JQValueToGoJQ$1|literal:Options":  "zero Options handed to JQValueToGoJQEx, which only consults BitsFormatFn (nil => raw bits as string); never reaches dump/display",
	"(pkg/interp.StructDecodeValue).JQValueToGoJQ$1|literal:Options": "zero Options handed to JQValueToGoJQEx, which only consults BitsFormatFn (nil => raw bits as string); never reaches dump/display",
}

// c13Inv justifies the field invariants used by C13.pre: every explicit store to the field
// establishes the interval; OptionsFromValue clamps each display option after the reflective
// fill and before returning; Binary literals always set unit.
func c13Inv(r *fw.Run, p *fw.Program) {
	ru := r.Rule("C13.inv", "struct-field invariants that guard divisions/bases/sizes (Options.LineBytes>=1, Addrbase/Sizebase in 2..36, truncations/depth/display_bytes>=0, Binary.unit>=1, hexdump addrBase in 2..36) are established by every writer of the field; in OptionsFromValue every path from the reflective fill to the successful return assigns the field or passes a test that confines it to the invariant", 25)
	for _, fn := range p.FqFunctions() {
		if fn.TypeParams().Len() > 0 && len(fn.TypeArgs()) == 0 {
			continue
		}
		var env *fw.IntervalEnv
		ord := map[string]int{}
		fw.EachInstr(fn, func(ins ssa.Instruction) {
			st, ok := ins.(*ssa.Store)
			if !ok {
				return
			}
			fa, ok := st.Addr.(*ssa.FieldAddr)
			if !ok {
				return
			}
			stn := structTypeShort(fa.X.Type())
			fname := fieldNameOf(fa.X.Type(), fa.Field)
			want, ok := c13FieldFacts[stn+"."+fname]
			if !ok {
				return
			}
			if env == nil {
				env = newC13Env(fn)
				if fn.Name() == "OptionsFromValue" {
					// the establishing function: loads of Options fields here see the reflective fill, not the invariant
					env.FieldRange = func(st, f string) (fw.Interval, bool) {
						if st == "pkg/interp.Options" {
							return fw.Interval{}, false
						}
						return c13FieldRange(st, f)
					}
				}
			}
			ord[fname]++
			key := fmt.Sprintf("%s|%s.%s|%d", fw.ShortFn(fn), stn, fname, ord[fname])
			iv := env.At(st.Val, st.Block())
			within := func(iv fw.Interval) bool {
				if !want.LoInf && (iv.LoInf || iv.Lo < want.Lo) {
					return false
				}
				if !want.HiInf && (iv.HiInf || iv.Hi > want.Hi) {
					return false
				}
				return true
			}
			if within(iv) {
				ru.Ok(key, p.Rel(st.Pos()), fmt.Sprintf("stored value within [%d,%s]", iv.Lo, hiStr(iv)))
				return
			}
			// parameter / captured variable: lift to call sites
			liftWhy := ""
			switch {
			case !want.HiInf && want.Hi == 36:
				if ok, _ := provedOrLifted(p, fn, env, st.Val, st.Block(), needBase36, 0); ok {
					ru.Ok(key, p.Rel(st.Pos()), "within range at every call site")
					return
				}
			case !want.LoInf && want.Lo >= 1:
				ok1, why1 := provedOrLifted(p, fn, env, st.Val, st.Block(), needNonZero, 0)
				ok2, why2 := provedOrLifted(p, fn, env, st.Val, st.Block(), needNonNeg, 0)
				if ok1 && ok2 {
					ru.Ok(key, p.Rel(st.Pos()), "positive at every call site")
					return
				}
				liftWhy = why1 + " " + why2
			default:
				// a lower bound can be lifted to the call sites; an invariant with a finite upper bound needs the interval
				if ok, _ := provedOrLifted(p, fn, env, st.Val, st.Block(), needNonNeg, 0); ok && want.HiInf {
					ru.Ok(key, p.Rel(st.Pos()), "non-negative at every call site")
					return
				}
			}
			if reason, ok := c13InvExceptions[key]; ok {
				ru.Except(key, p.Rel(st.Pos()), reason)
				return
			}
			ru.Fail(key, p.Rel(st.Pos()), fmt.Sprintf("field %s.%s is assigned %s, which is not proved to satisfy the invariant its consumers rely on (e.g. division, number base, make size) %s", stn, fname, env.Poly.Of(st.Val).String(), liftWhy))
		})
	}
	// OptionsFromValue: each clamped field is stored after the reflective fill and before the successful return
	if fn := getFn(ru, p, "pkg/interp.OptionsFromValue"); fn != nil {
		var fill ssa.Instruction
		for _, c := range fw.CallsIn(fn) {
			if cal := c.Common().StaticCallee(); cal != nil && strings.HasSuffix(cal.String(), "internal/mapstruct.ToStruct") {
				fill = c
			}
		}
		if fill == nil {
			ru.Undecided("OptionsFromValue:fill", p.Rel(fn.Pos()), "mapstruct.ToStruct call not found")
		} else {
			var okRet *ssa.Return
			for _, ret := range returnsOf(fn) {
				if len(ret.Results) == 2 && isNilErr(ret.Results[1]) {
					okRet = ret
				}
			}
			for k := range c13FieldFacts {
				if !strings.HasPrefix(k, "pkg/interp.Options.") {
					continue
				}
				f := strings.TrimPrefix(k, "pkg/interp.Options.")
				found := false
				fw.EachInstr(fn, func(ins ssa.Instruction) {
					st, ok := ins.(*ssa.Store)
					if !ok {
						return
					}
					fa, ok := st.Addr.(*ssa.FieldAddr)
					if !ok || fieldNameOf(fa.X.Type(), fa.Field) != f || structTypeShort(fa.X.Type()) != "pkg/interp.Options" {
						return
					}
					_ = st
				})
				if okRet != nil {
					found = c13EstablishedOnAllPaths(fn, fill, okRet, f, c13FieldFacts[k])
				}
				ru.Check(found, "OptionsFromValue:clamps-"+f, p.Rel(fn.Pos()), "clamped after the reflective fill, before return", "Options."+f+" is not re-assigned (clamped) after mapstruct.ToStruct filled it from the jq value and before OptionsFromValue returns")
			}
		}
	}
	// OptionsFromValue: a copy of the whole struct handed to a helper (which may keep it in a closure: the bits_format
	// renderer formats sizes with the copy's Sizebase) is taken only after the fields that helper reads are clamped
	if fn := getFn(ru, p, "pkg/interp.OptionsFromValue"); fn != nil {
		var fill ssa.Instruction
		for _, c := range fw.CallsIn(fn) {
			if cal := c.Common().StaticCallee(); cal != nil && strings.HasSuffix(cal.String(), "internal/mapstruct.ToStruct") {
				fill = c
			}
		}
		nCopies := 0
		if fill != nil {
			fw.EachInstr(fn, func(ins ssa.Instruction) {
				ld, ok := ins.(*ssa.UnOp)
				if !ok || ld.Op != token.MUL || structTypeShort(ld.X.Type()) != "pkg/interp.Options" {
					return
				}
				if _, isStruct := ld.Type().Underlying().(*types.Struct); !isStruct {
					return
				}
				// who receives the copy
				reads := map[string]bool{}
				who := ""
				for _, u := range *ld.Referrers() {
					c, ok := u.(ssa.CallInstruction)
					if !ok || c.Common().StaticCallee() == nil {
						for k := range c13FieldFacts { // unknown receiver: every invariant field
							if strings.HasPrefix(k, "pkg/interp.Options.") {
								reads[strings.TrimPrefix(k, "pkg/interp.Options.")] = true
							}
						}
						who += "?"
						continue
					}
					cal := c.Common().StaticCallee()
					who += cal.Name()
					var fns []*ssa.Function
					var add func(f *ssa.Function)
					add = func(f *ssa.Function) {
						fns = append(fns, f)
						for _, a := range f.AnonFuncs {
							add(a)
						}
					}
					add(cal)
					for _, f := range fns {
						fw.EachInstr(f, func(in2 ssa.Instruction) {
							switch x := in2.(type) {
							case *ssa.FieldAddr:
								if structTypeShort(x.X.Type()) == "pkg/interp.Options" {
									reads[fieldNameOf(x.X.Type(), x.Field)] = true
								}
							case *ssa.Field:
								if structTypeShort(x.X.Type()) == "pkg/interp.Options" {
									reads[fieldNameOf(x.X.Type(), x.Field)] = true
								}
							}
						})
					}
				}
				nCopies++
				for k, want := range c13FieldFacts {
					if !strings.HasPrefix(k, "pkg/interp.Options.") {
						continue
					}
					f := strings.TrimPrefix(k, "pkg/interp.Options.")
					if !reads[f] {
						continue
					}
					ru.Check(c13EstablishedBefore(fn, fill, ld, f, want), "OptionsFromValue:copy:"+who+":"+f, p.Rel(ld.Pos()), "the copy is taken after the field is clamped",
						"a copy of the options is handed to "+who+", which reads "+f+", before OptionsFromValue has clamped that field: the helper (and any closure it returns) works with the unclamped value from the jq argument (e.g. sizebase 1 -> illegal number base panic in the snippet renderer) while the returned Options hold the clamped one")
				}
			})
		}
	}
	// zero-valued Options / Binary literals: composite literals that leave an invariant field unset
	for _, fn := range p.FqFunctions() {
		ord := 0
		fw.EachInstr(fn, func(ins ssa.Instruction) {
			al, ok := ins.(*ssa.Alloc)
			if !ok || al.Comment != "complit" {
				return
			}
			stn := structTypeShort(al.Type())
			if stn != "pkg/interp.Binary" && stn != "pkg/interp.Options" {
				return
			}
			set := map[string]bool{}
			n := 0
			if al.Referrers() != nil {
				for _, r := range *al.Referrers() {
					if fa, ok := r.(*ssa.FieldAddr); ok {
						set[fieldNameOf(fa.X.Type(), fa.Field)] = true
						n++
					}
				}
			}
			ord++
			key := fmt.Sprintf("%s|literal:%s|%d", fw.ShortFn(fn), stn, ord)
			switch stn {
			case "pkg/interp.Binary":
				if n == 0 {
					return // Binary{} zero value returned together with an error
				}
				ru.Check(set["unit"], key, p.Rel(al.Pos()), "literal sets unit", "Binary literal leaves unit zero: size/length/start keys divide by it")
			case "pkg/interp.Options":
				if reason, ok := c13InvExceptions[fw.ShortFn(fn)+"|literal:Options"]; ok {
					ru.Except(key, p.Rel(al.Pos()), reason)
				} else {
					ru.Fail(key, p.Rel(al.Pos()), "Options literal constructed outside OptionsFromValue: LineBytes/Addrbase/Sizebase are zero (division by zero / illegal base when displayed)")
				}
			}
		})
	}
}

// c13EstablishedOnAllPaths: on every path from the reflective fill to the successful return of
// OptionsFromValue the field is either assigned (each assignment is an obligation of its own) or the
// path passes a test that confines the filled value to the invariant (`if opts.F < 1 { opts.F = 1 }`:
// the assignment on one arm, the test on the other).
func c13EstablishedOnAllPaths(fn *ssa.Function, fill ssa.Instruction, okRet *ssa.Return, field string, want fw.Interval) bool {
	return c13EstablishedBefore(fn, fill, okRet, field, want)
}

// c13EstablishedBefore: the same, for any instruction of the function as the point that must not be reached with the
// filled value (the successful return, or a copy of the whole struct handed to a callee).
func c13EstablishedBefore(fn *ssa.Function, fill ssa.Instruction, target ssa.Instruction, field string, want fw.Interval) bool {
	env := fw.NewIntervalEnv(fn) // no field invariants: the loads see the filled value
	isFieldAddr := func(v ssa.Value) bool {
		fa, ok := v.(*ssa.FieldAddr)
		return ok && fieldNameOf(fa.X.Type(), fa.Field) == field && structTypeShort(fa.X.Type()) == "pkg/interp.Options"
	}
	var loads []*ssa.UnOp
	fw.EachInstr(fn, func(ins ssa.Instruction) {
		if u, ok := ins.(*ssa.UnOp); ok && u.Op == token.MUL && isFieldAddr(u.X) && precedesOnAllPaths(fill, u) {
			loads = append(loads, u)
		}
	})
	within := func(iv fw.Interval) bool {
		if !want.LoInf && (iv.LoInf || iv.Lo < want.Lo) {
			return false
		}
		if !want.HiInf && (iv.HiInf || iv.Hi > want.Hi) {
			return false
		}
		return true
	}
	edgeEstablishes := func(pred, succ *ssa.BasicBlock) bool {
		for _, f := range env.Poly.EdgeFacts(pred, succ) {
			for _, l := range loads {
				if l.Block() != pred && !l.Block().Dominates(pred) {
					continue
				}
				if within(fw.BoundFromFact(f, env.Poly.Of(l))) {
					return true
				}
			}
		}
		return false
	}
	visited := map[*ssa.BasicBlock]bool{}
	var walk func(b *ssa.BasicBlock, from int) bool
	walk = func(b *ssa.BasicBlock, from int) bool {
		for i := from; i < len(b.Instrs); i++ {
			if b.Instrs[i] == target {
				return false
			}
			switch x := b.Instrs[i].(type) {
			case *ssa.Store:
				if isFieldAddr(x.Addr) {
					return true
				}
			case *ssa.Return:
				return true
			}
		}
		for _, s := range b.Succs {
			if edgeEstablishes(b, s) || visited[s] {
				continue
			}
			visited[s] = true
			if !walk(s, 0) {
				return false
			}
		}
		return true
	}
	return walk(fill.Block(), instrIndex(fill)+1)
}

func structTypeShort(t types.Type) string {
	if p, ok := t.Underlying().(*types.Pointer); ok {
		t = p.Elem()
	}
	return shortType(t)
}

func hiStr(iv fw.Interval) string {
	if iv.HiInf {
		return "inf"
	}
	return fmt.Sprint(iv.Hi)
}

// storesThroughFreeVar: stores in closure cl into the captured variable bound to alloc al.
func storesThroughFreeVar(cl *ssa.Function, al *ssa.Alloc) []*ssa.Store {
	var out []*ssa.Store
	for _, fv := range cl.FreeVars {
		// resolve the free variable through enclosing closures up to the variable it captures
		var cur ssa.Value = fv
		owner := cl
		for hops := 0; hops < 8; hops++ {
			f2, isFV := cur.(*ssa.FreeVar)
			if !isFV || owner.Parent() == nil {
				break
			}
			vals, _ := freeVarBindings(owner, f2)
			if len(vals) != 1 {
				cur = nil
				break
			}
			cur = vals[0]
			owner = owner.Parent()
		}
		if cur != ssa.Value(al) {
			continue
		}
		fw.EachInstr(cl, func(ins ssa.Instruction) {
			if st, ok := ins.(*ssa.Store); ok && st.Addr == ssa.Value(fv) {
				out = append(out, st)
			}
		})
	}
	return out
}

// c13SingleStoreGuarded: al is stored exactly once in owner (no closure stores, checked by the caller) and at every
// MakeClosure in owner through which fn is created, the requirement k holds for a load of al that dominates it.
func c13SingleStoreGuarded(owner, fn *ssa.Function, al *ssa.Alloc, penv *fw.IntervalEnv, k needKind) bool {
	nst := 0
	var loads []*ssa.UnOp
	for _, r := range *al.Referrers() {
		switch x := r.(type) {
		case *ssa.Store:
			if x.Addr == ssa.Value(al) {
				nst++
			}
		case *ssa.UnOp:
			if x.Op == token.MUL {
				loads = append(loads, x)
			}
		}
	}
	_ = nst
	// no store may follow a load we rely on: blocks reachable from the load's block
	storeAfter := func(l *ssa.UnOp) bool {
		reach := map[*ssa.BasicBlock]bool{}
		stack := append([]*ssa.BasicBlock{}, l.Block().Succs...)
		for len(stack) > 0 {
			b := stack[len(stack)-1]
			stack = stack[:len(stack)-1]
			if reach[b] {
				continue
			}
			reach[b] = true
			stack = append(stack, b.Succs...)
		}
		for _, r := range *al.Referrers() {
			st, ok := r.(*ssa.Store)
			if !ok || st.Addr != ssa.Value(al) {
				continue
			}
			if reach[st.Block()] || st.Block() == l.Block() && instrIndex(st) > instrIndex(l) {
				return true
			}
		}
		return false
	}
	// closures of owner from which fn descends
	anc := map[*ssa.Function]bool{}
	for f := fn; f != nil && f != owner; f = f.Parent() {
		anc[f] = true
	}
	sites := 0
	okAll := true
	fw.EachInstr(owner, func(ins ssa.Instruction) {
		mc, ok := ins.(*ssa.MakeClosure)
		if !ok {
			return
		}
		cf, ok := mc.Fn.(*ssa.Function)
		if !ok || !anc[cf] {
			return
		}
		sites++
		proved := false
		for _, l := range loads {
			if l.Parent() == owner && precedesOnAllPaths(l, mc) && !storeAfter(l) && provedNeed(penv, l, mc.Block(), k) {
				proved = true
			}
		}
		if !proved {
			okAll = false
		}
	})
	return sites > 0 && okAll
}
