package rules

// C20.stack: the arithmetic of the interrupt stack (Push / pop closure / Stop / trigger goroutine).

import (
	"fmt"
	"go/constant"
	"go/token"
	"go/types"

	"golang.org/x/tools/go/ssa"

	"fqverif/fw"
)

// sliceField returns the index of the guarded slice-of-functions field (-1 if not unique).
func (cs *c20ctx) sliceField() int {
	out := -1
	for i := range cs.guarded {
		if sl, ok := cs.st.Field(i).Type().Underlying().(*types.Slice); ok {
			if _, ok := sl.Elem().Underlying().(*types.Signature); ok {
				if out >= 0 {
					return -1
				}
				out = i
			}
		}
	}
	return out
}

// hdrLoad: v is a load of Stack.<slice field>.
func (cs *c20ctx) hdrLoad(v ssa.Value, field int) *ssa.UnOp {
	u, ok := v.(*ssa.UnOp)
	if !ok || u.Op != token.MUL {
		return nil
	}
	fa, ok := u.X.(*ssa.FieldAddr)
	if !ok || !cs.isStackPtr(fa.X.Type()) || fa.Field != field {
		return nil
	}
	return u
}

// lenOfHdr: v is len(<load of the slice field>).
func (cs *c20ctx) lenOfHdr(v ssa.Value, field int) *ssa.UnOp {
	c, ok := v.(*ssa.Call)
	if !ok || !fw.IsBuiltinCall(c, "len") {
		return nil
	}
	return cs.hdrLoad(c.Common().Args[0], field)
}

// c20elemCall is a dynamic call of an element of the cancel-function slice.
type c20elemCall struct {
	call *ssa.Call
	ia   *ssa.IndexAddr
	site ssa.Instruction              // instruction in the analysed function (the call itself, or the call of the helper containing it)
	args map[*ssa.Parameter]ssa.Value // helper parameter -> value at the site
}

// elemCallsDeep also looks into package helpers fn calls statically (one level, e.g. an extracted
// "cancelTop"): site is the instruction in fn, args maps the helper's parameters to fn's values.
func (cs *c20ctx) elemCallsDeep(fn *ssa.Function) []c20elemCall {
	out := cs.elemCalls(fn)
	fw.EachInstr(fn, func(ins ssa.Instruction) {
		c, ok := ins.(*ssa.Call)
		if !ok {
			return
		}
		callee := c.Common().StaticCallee()
		if callee == nil || fw.FnPkgPath(callee) != c20StackPkg || callee.Blocks == nil || callee == fn {
			return
		}
		for _, ec := range cs.elemCalls(callee) {
			ec.site = c
			ec.args = map[*ssa.Parameter]ssa.Value{}
			for i, prm := range callee.Params {
				if i < len(c.Common().Args) {
					ec.args[prm] = c.Common().Args[i]
				}
			}
			out = append(out, ec)
		}
	})
	return out
}

func (cs *c20ctx) elemCalls(fn *ssa.Function) []c20elemCall {
	var out []c20elemCall
	fw.EachInstr(fn, func(ins ssa.Instruction) {
		c, ok := ins.(*ssa.Call)
		if !ok || c.Common().IsInvoke() || c.Common().StaticCallee() != nil {
			return
		}
		if ia := cs.elemOfGuarded(fn, c.Common().Value); ia != nil {
			out = append(out, c20elemCall{call: c, ia: ia, site: c})
		}
	})
	return out
}

// c20idx describes an index expression: straight-line, or affine in a loop variable.
type c20idx struct {
	env  *fw.PolyEnv
	P    *fw.Poly // the index; the loop variable (phi) is the atom $i
	loop bool
	init *fw.Poly // index value in the first iteration
	step int64
	len  *fw.Poly // len(<slice field>) as named in this function (nil if never taken)
}

const c20LoopVar = "$i"

func (cs *c20ctx) indexInfo(fn *ssa.Function, idx ssa.Value, field int) (*c20idx, string) {
	env := fw.NewPolyEnv(fn)
	env.Subst = map[ssa.Value]*fw.Poly{}
	v := idx
	for {
		switch x := v.(type) {
		case *ssa.BinOp:
			if _, ok := x.Y.(*ssa.Const); ok && (x.Op == token.ADD || x.Op == token.SUB) {
				v = x.X
				continue
			}
		case *ssa.Convert:
			v = x.X
			continue
		}
		break
	}
	info := &c20idx{env: env}
	if phi, ok := v.(*ssa.Phi); ok {
		if len(phi.Edges) != 2 {
			return nil, "index is a phi with more than two incoming edges"
		}
		env.Subst[phi] = fw.PAtom(c20LoopVar)
		var haveInit, haveStep bool
		for _, e := range phi.Edges {
			pe := env.Of(e)
			if pe.Coef(c20LoopVar) != 0 {
				d, ok := pe.Sub(fw.PAtom(c20LoopVar)).IsConst()
				if !ok || haveStep {
					return nil, "loop variable is not advanced by a constant step"
				}
				info.step, haveStep = d, true
			} else {
				if haveInit {
					return nil, "loop variable has two initial values"
				}
				info.init, haveInit = pe, true
			}
		}
		if !haveInit || !haveStep {
			return nil, "index phi is not a loop variable (init, step)"
		}
		info.loop = true
	}
	info.P = env.Of(idx)
	if info.loop {
		k, ok := info.P.Sub(fw.PAtom(c20LoopVar)).IsConst()
		if !ok {
			return nil, "index is not loop variable + constant"
		}
		info.init = info.init.Add(fw.PConst(k))
	}
	fw.EachInstr(fn, func(ins ssa.Instruction) {
		if c, ok := ins.(*ssa.Call); ok && info.len == nil && cs.lenOfHdr(c, field) != nil {
			info.len = env.Of(c)
		}
	})
	return info, ""
}

// exactFact: some dominating branch fact at block b is equivalent to q.
func exactFact(env *fw.PolyEnv, b *ssa.BasicBlock, q fw.Cmp) bool {
	for _, f := range env.Facts(b) {
		if f.Implies(q) && q.Implies(f) {
			return true
		}
	}
	return false
}

func c20Stack(r *fw.Run, cs *c20ctx) {
	ru := r.Rule("C20.stack", "stack discipline: Push derives the context from its parent, returns it and pushes the cancel function of that very context, records the index = length before appending; the pop closure is idempotent, only calls elements with index >= its own index and some loop of it calls EVERY element own..len-1, truncates to [0:index] on every effective path; Stop calls every element and closes the stop channel the trigger goroutine exits on; the trigger goroutine calls only the top element, only under a non-empty test, once per trigger, never modifies the stack itself, and returns only when the stop channel is closed", 14)
	p := cs.p
	nw := getFn(ru, p, "internal/ctxstack.New")
	push := getFn(ru, p, "(*internal/ctxstack.Stack).Push")
	stop := getFn(ru, p, "(*internal/ctxstack.Stack).Stop")
	if nw == nil || push == nil || stop == nil {
		return
	}
	field := cs.sliceField()
	if field < 0 {
		ru.Undecided("anchor:cancelFns", "", "the cancel-function slice field of Stack is not unique")
		return
	}
	isRecover := func(ins ssa.Instruction) bool {
		return ins.Parent().Recover != nil && ins.Block() == ins.Parent().Recover
	}
	guardedStores := func(fn *ssa.Function) []*ssa.Store {
		var out []*ssa.Store
		fw.EachInstr(fn, func(ins ssa.Instruction) {
			if st, ok := ins.(*ssa.Store); ok {
				if fa, ok := st.Addr.(*ssa.FieldAddr); ok && cs.isStackPtr(fa.X.Type()) && fa.Field == field {
					out = append(out, st)
				}
			}
		})
		return out
	}

	// ---- Push: index = len before append
	var idxCell *ssa.Alloc
	var idxLoad *ssa.UnOp
	nIdx := 0
	fw.EachInstr(push, func(ins ssa.Instruction) {
		st, ok := ins.(*ssa.Store)
		if !ok {
			return
		}
		a, ok := st.Addr.(*ssa.Alloc)
		if !ok {
			return
		}
		if l := cs.lenOfHdr(st.Val, field); l != nil {
			idxCell, idxLoad = a, l
			nIdx++
		}
	})
	pushStores := guardedStores(push)
	switch {
	case nIdx != 1:
		ru.Undecided("Push:index=len-before-append", p.Rel(push.Pos()), fmt.Sprintf("Push records the stack length in %d variables (expected exactly one captured index)", nIdx))
		idxCell = nil
	case len(pushStores) == 0:
		ru.Undecided("Push:index=len-before-append", p.Rel(push.Pos()), "Push does not store into the cancel-function slice")
	default:
		sts, esc := fw.CellStores(idxCell)
		bad := ""
		if esc || len(sts) != 1 {
			bad = "the recorded index variable is reassigned or its address escapes"
		}
		appended := false
		for _, st := range pushStores {
			if fw.InstrReach(st, idxLoad, nil) {
				bad = "the index is read after the slice was already modified (must be the length BEFORE the append, else pop leaves its own entry on the stack)"
			}
			if c, ok := st.Val.(*ssa.Call); ok && fw.IsBuiltinCall(c, "append") && cs.hdrLoad(c.Common().Args[0], field) != nil {
				appended = true
				if !fw.InstrReach(idxLoad, st, nil) {
					bad = "the append does not follow the recording of the index"
				}
			}
		}
		if !appended && bad == "" {
			bad = "Push does not append to the cancel-function slice"
		}
		ru.Check(bad == "", "Push:index=len-before-append", p.Rel(idxLoad.Pos()), "index = len(cancelFns) read before the append, single assignment", bad)
	}

	// ---- pop closure (second result of Push)
	var pop *ssa.Function
	for _, ret := range returnsOf(push) {
		if isRecover(ret) || len(ret.Results) != 2 {
			continue
		}
		mc, ok := fw.C20Resolve(ret.Results[1]).(*ssa.MakeClosure)
		if !ok {
			pop = nil
			break
		}
		f := mc.Fn.(*ssa.Function)
		if pop != nil && pop != f {
			pop = nil
			break
		}
		pop = f
	}
	c20PushCtx(ru, cs, push, pushStores, isRecover)
	if pop == nil {
		ru.Undecided("anchor:pop closure", p.Rel(push.Pos()), "the cancel function returned by Push is not a single closure")
	} else {
		c20Pop(ru, cs, pop, idxCell, field, guardedStores(pop), isRecover)
	}

	// ---- Stop
	var stopField = -1
	{
		calls := cs.elemCallsDeep(stop)
		if len(calls) == 0 {
			ru.Fail("Stop:cancels all", p.Rel(stop.Pos()), "Stop does not call the cancel functions on the stack")
		}
		for i, ec := range calls {
			key := fmt.Sprintf("Stop:cancels all#%d", i+1)
			info, msg := cs.indexInfo(ec.call.Parent(), ec.ia.Index, field)
			if info == nil || !info.loop || info.len == nil {
				if msg == "" {
					msg = "the element call is not in a loop over the slice"
				}
				ru.Undecided(key, p.Rel(ec.call.Pos()), msg)
				continue
			}
			b := ec.ia.Block()
			top := info.len.Sub(fw.PConst(1))
			// "0" as named where the loop is: the constant, or a parameter of the helper
			// containing the loop that Stop binds to the constant 0 (cancelFrom(0))
			zeros := []*fw.Poly{fw.PConst(0)}
			for prm, arg := range ec.args {
				if c, isC := arg.(*ssa.Const); isC && c.Value != nil && c.Value.Kind() == constant.Int && c.Int64() == 0 {
					zeros = append(zeros, info.env.Of(prm))
				}
			}
			switch {
			case info.step == -1:
				ok := false
				for _, z := range zeros {
					if info.init.Equal(top) && exactFact(info.env, b, fw.Cmp{P: info.P.Sub(z), Rel: fw.GE}) {
						ok = true
					}
				}
				ru.Check(ok, key, p.Rel(ec.call.Pos()), "for i = len-1 .. 0", fmt.Sprintf("descending loop must run from len-1 (is %s) down to and including 0 (facts: %v)", info.init, info.env.Facts(b)))
			case info.step == 1:
				ok := false
				for _, z := range zeros {
					if info.init.Equal(z) && exactFact(info.env, b, fw.Cmp{P: info.P.Sub(info.len), Rel: fw.LT}) {
						ok = true
					}
				}
				ru.Check(ok, key, p.Rel(ec.call.Pos()), "for i = 0 .. len-1", fmt.Sprintf("ascending loop must run from 0 (is %s) while i < len (facts: %v)", info.init, info.env.Facts(b)))
			default:
				ru.Fail(key, p.Rel(ec.call.Pos()), fmt.Sprintf("loop step %d skips elements", info.step))
			}
		}
		// close(stop channel)
		var closeCall *ssa.Call
		fw.EachInstr(stop, func(ins ssa.Instruction) {
			c, ok := ins.(*ssa.Call)
			if !ok || !fw.IsBuiltinCall(c, "close") {
				return
			}
			if u, ok := c.Common().Args[0].(*ssa.UnOp); ok && u.Op == token.MUL {
				if fa, ok := u.X.(*ssa.FieldAddr); ok && cs.isStackPtr(fa.X.Type()) {
					closeCall, stopField = c, fa.Field
				}
			}
		})
		if closeCall == nil {
			ru.Fail("Stop:closes stop channel", p.Rel(stop.Pos()), "Stop does not close a channel field of the Stack: the trigger goroutine never terminates and keeps cancelling after Stop")
		} else {
			ok := true
			for _, ret := range returnsOf(stop) {
				if !isRecover(ret) && !precedesOnAllPaths(closeCall, ret) {
					ok = false
				}
			}
			ru.Check(ok, "Stop:closes stop channel", p.Rel(closeCall.Pos()), "close(Stack."+cs.fieldName(stopField)+") on every path", "the stop channel is not closed on every path through Stop")
		}
	}

	// ---- trigger goroutine
	var trigger *ssa.Function
	var alloc *ssa.Alloc
	fw.EachInstr(nw, func(ins ssa.Instruction) {
		if g, ok := ins.(*ssa.Go); ok {
			if mc, ok := g.Common().Value.(*ssa.MakeClosure); ok {
				trigger, _ = mc.Fn.(*ssa.Function)
			}
		}
		if a, ok := ins.(*ssa.Alloc); ok && cs.isStackPtr(a.Type()) {
			alloc = a
		}
	})
	if trigger == nil || alloc == nil {
		ru.Undecided("anchor:trigger goroutine", p.Rel(nw.Pos()), "New does not allocate a Stack and start a closure with a go statement")
		return
	}
	// the stop channel New stores into the Stack
	var stopChan ssa.Value
	if stopField >= 0 {
		fw.EachInstr(nw, func(ins ssa.Instruction) {
			if st, ok := ins.(*ssa.Store); ok {
				if fa, ok := st.Addr.(*ssa.FieldAddr); ok && fa.Field == stopField && fw.C20Resolve(fa.X) == ssa.Value(alloc) {
					stopChan = fw.C20Resolve(st.Val)
				}
			}
		})
	}
	isStopChan := func(ch ssa.Value) bool {
		if stopChan == nil {
			return false
		}
		if _, ok := stopChan.(*ssa.MakeChan); ok && fw.C20Resolve(ch) == stopChan {
			return true
		}
		if u, ok := ch.(*ssa.UnOp); ok && u.Op == token.MUL {
			if fa, ok := u.X.(*ssa.FieldAddr); ok && cs.isStackPtr(fa.X.Type()) && fa.Field == stopField {
				return true
			}
		}
		return false
	}
	if _, ok := stopChan.(*ssa.MakeChan); !ok {
		ru.Undecided("New:stop channel", p.Rel(nw.Pos()), "New does not store a freshly made channel into the field Stop closes")
	} else {
		ru.Ok("New:stop channel", p.Rel(stopChan.Pos()), "Stack."+cs.fieldName(stopField)+" = make(chan)")
	}
	// the wait: a call of New's function parameter
	var wait *ssa.Call
	fw.EachInstr(trigger, func(ins ssa.Instruction) {
		c, ok := ins.(*ssa.Call)
		if !ok || c.Common().IsInvoke() || c.Common().StaticCallee() != nil {
			return
		}
		if prm, ok := fw.C20Resolve(c.Common().Value).(*ssa.Parameter); ok && prm.Parent() == nw {
			wait = c
		}
	})
	if wait == nil {
		ru.Undecided("trigger:wait", p.Rel(trigger.Pos()), "the trigger goroutine does not call New's trigger function parameter")
		return
	}
	ru.Check(len(wait.Common().Args) == 1 && isStopChan(wait.Common().Args[0]), "trigger:wait gets stop channel", p.Rel(wait.Pos()),
		"trigger function is handed the stop channel", "the trigger function is not handed the channel that Stop closes: it cannot return on Stop")
	// returns only on stop
	nret := 0
	for _, ret := range returnsOf(trigger) {
		if isRecover(ret) {
			continue
		}
		nret++
		ok := false
		for _, g := range fw.Guards(ret.Block()) {
			g = g.Normalize()
			bo, isBin := g.Cond.(*ssa.BinOp)
			if !isBin || bo.Op != token.EQL || !g.True {
				continue
			}
			ex, isEx := bo.X.(*ssa.Extract)
			c, isC := bo.Y.(*ssa.Const)
			if !isEx || !isC || ex.Index != 0 {
				continue
			}
			sel, isSel := ex.Tuple.(*ssa.Select)
			if !isSel {
				continue
			}
			i := int(c.Int64())
			if i >= 0 && i < len(sel.States) && sel.States[i].Dir == types.RecvOnly && isStopChan(sel.States[i].Chan) {
				ok = true
			}
		}
		ru.Check(ok, fmt.Sprintf("trigger:returns only on stop#%d", nret), p.Rel(ret.Pos()), "return guarded by receive from the stop channel",
			"the trigger goroutine can return without the stop channel being closed: later interrupts are silently ignored")
	}
	if nret == 0 {
		ru.Fail("trigger:returns only on stop", p.Rel(trigger.Pos()), "the trigger goroutine never returns (leaks after Stop)")
	}
	c20TriggerReadOnly(ru, cs, trigger, field)
	// cancels only the top, under a non-empty test, once per trigger
	calls := cs.elemCallsDeep(trigger)
	if len(calls) == 0 {
		ru.Fail("trigger:cancels top", p.Rel(trigger.Pos()), "the trigger goroutine does not call any cancel function: interrupts have no effect")
	}
	for i, ec := range calls {
		key := fmt.Sprintf("trigger:cancels top#%d", i+1)
		pos := p.Rel(ec.call.Pos())
		info, msg := cs.indexInfo(ec.call.Parent(), ec.ia.Index, field)
		if info == nil || info.len == nil {
			ru.Undecided(key, pos, "index not understood: "+msg)
			continue
		}
		switch {
		case info.loop:
			ru.Fail(key, pos, "the trigger goroutine calls cancel functions in a loop over the stack: an interrupt must cancel only the innermost evaluation")
		case !info.P.Equal(info.len.Sub(fw.PConst(1))):
			ru.Fail(key, pos, fmt.Sprintf("the trigger goroutine calls element %s, not the top len-1: an interrupt must cancel the innermost evaluation only", info.P))
		case !info.env.Proves(ec.ia.Block(), fw.Cmp{P: info.P, Rel: fw.GE}) && !c20LenNonZero(info, ec.ia.Block()):
			ru.Fail(key, pos, "no dominating test proves the stack non-empty: an interrupt before the first Push indexes [-1] and crashes fq")
		case fw.InstrReach(ec.site, ec.site, wait):
			ru.Fail(key, pos, "the cancel call can repeat without a new trigger in between")
		default:
			ru.Ok(key, pos, "cancelFns[len-1]() under len > 0, once per trigger")
		}
	}
}

func c20Pop(ru *fw.Rule, cs *c20ctx, pop *ssa.Function, idxCell *ssa.Alloc, field int, stores []*ssa.Store, isRecover func(ssa.Instruction) bool) {
	p := cs.p
	// the captured index
	var idxFV *ssa.FreeVar
	for _, fv := range pop.FreeVars {
		if idxCell != nil && fw.CellAlloc(fv) == idxCell {
			idxFV = fv
		}
	}
	if idxFV == nil {
		ru.Fail("pop:uses recorded index", p.Rel(pop.Pos()), "the pop closure does not use the index recorded by Push")
		return
	}
	env0 := fw.NewPolyEnv(pop)
	var lb *fw.Poly
	fw.EachInstr(pop, func(ins ssa.Instruction) {
		if u, ok := ins.(*ssa.UnOp); ok && u.Op == token.MUL && u.X == ssa.Value(idxFV) && lb == nil {
			lb = env0.Of(u)
		}
	})
	if lb == nil {
		ru.Fail("pop:uses recorded index", p.Rel(pop.Pos()), "the pop closure never reads the index recorded by Push")
		return
	}
	ru.Ok("pop:uses recorded index", p.Rel(pop.Pos()), "captures "+idxFV.Name())

	// ---- idempotence
	type flagT struct {
		fv  *ssa.FreeVar
		set []*ssa.Store // stores of a boolean constant
	}
	var flags []flagT
	for _, fv := range pop.FreeVars {
		pt, ok := fv.Type().(*types.Pointer)
		if !ok {
			continue
		}
		if b, ok := pt.Elem().Underlying().(*types.Basic); !ok || b.Kind() != types.Bool {
			continue
		}
		f := flagT{fv: fv}
		if fv.Referrers() != nil {
			for _, ref := range *fv.Referrers() {
				if st, ok := ref.(*ssa.Store); ok && st.Addr == ssa.Value(fv) {
					if _, ok := st.Val.(*ssa.Const); ok {
						f.set = append(f.set, st)
					}
				}
			}
		}
		if len(f.set) > 0 {
			flags = append(flags, f)
		}
	}
	// guardOf: the polarity under which ins runs w.r.t. a flag (value the flag is known to have)
	flagAt := func(ins ssa.Instruction, fv *ssa.FreeVar) (val bool, ok bool) {
		for _, g := range fw.Guards(ins.Block()) {
			g = g.Normalize()
			if u, isLoad := g.Cond.(*ssa.UnOp); isLoad && u.Op == token.MUL && u.X == ssa.Value(fv) {
				return g.True, true
			}
		}
		return false, false
	}
	var effects []ssa.Instruction
	fw.EachInstr(pop, func(ins ssa.Instruction) {
		if c, ok := ins.(*ssa.Call); ok && !c.Common().IsInvoke() && c.Common().StaticCallee() == nil {
			if _, b := c.Common().Value.(*ssa.Builtin); !b {
				effects = append(effects, ins)
			}
		} else if ok && c.Common().StaticCallee() != nil && fw.FnPkgPath(c.Common().StaticCallee()) == c20StackPkg {
			effects = append(effects, ins) // helper of the package (may cancel / modify the stack)
		}
	})
	for _, st := range stores {
		effects = append(effects, st)
	}
	var doneVal *bool // value of the flag meaning "already popped"
	var flag *ssa.FreeVar
	bad := ""
	if len(flags) == 0 {
		bad = "the pop closure has no captured boolean it sets: a second call (Eval calls it on error AND on iterator end) cancels and truncates again, hitting evaluations pushed later at the same index"
	} else if len(effects) == 0 {
		bad = "the pop closure neither calls a cancel function nor modifies the stack"
	}
	for _, e := range effects {
		if bad != "" {
			break
		}
		okE := false
		for _, f := range flags {
			val, ok := flagAt(e, f.fv)
			if !ok {
				continue
			}
			for _, st := range f.set {
				c := st.Val.(*ssa.Const)
				if c.Value == nil {
					continue
				}
				setTo := c.Value.String() == "true"
				if setTo != val && (precedesOnAllPaths(st, e) || c20FollowedBy(e, st, isRecover)) {
					okE = true
					v := setTo
					doneVal, flag = &v, f.fv
				}
			}
		}
		if !okE {
			bad = fmt.Sprintf("the effect at %s is not guarded by an already-popped flag that is set before it: the pop closure is not idempotent (a second call cancels/truncates entries pushed later)", p.Rel(e.Pos()))
		}
	}
	ru.Check(bad == "", "pop:idempotent", p.Rel(pop.Pos()), "every cancel call and stack update is guarded by the flag and preceded by setting it", bad)

	// ---- element calls: index >= own index, from len-1
	calls := cs.elemCallsDeep(pop)
	if len(calls) == 0 {
		ru.Fail("pop:cancels from own index", p.Rel(pop.Pos()), "the pop closure does not cancel the entries at and above its own index (abandoned nested evaluations stay alive)")
	}
	covered, coverKnown := false, true
	ownCancelled := c20PopCancelsOwn(cs, pop)
	for i, ec := range calls {
		key := fmt.Sprintf("pop:cancels from own index#%d", i+1)
		pos := p.Rel(ec.call.Pos())
		info, msg := cs.indexInfo(ec.call.Parent(), ec.ia.Index, field)
		if info == nil || info.len == nil {
			ru.Undecided(key, pos, "index not understood: "+msg)
			coverKnown = false
			continue
		}
		// the closure's own index as named where the call is (the closure, or a helper it is passed to)
		var own *fw.Poly
		if ec.call.Parent() == pop {
			own = info.env.Of(firstLoadOf(pop, idxFV))
		} else {
			for prm, arg := range ec.args {
				if u, ok := arg.(*ssa.UnOp); ok && u.Op == token.MUL && u.X == ssa.Value(idxFV) {
					own = info.env.Of(prm)
				}
			}
		}
		if own == nil {
			ru.Undecided(key, pos, "the helper calling the cancel functions does not receive the closure's own index")
			coverKnown = false
			continue
		}
		b := ec.ia.Block()
		top := info.len.Sub(fw.PConst(1))
		lower := info.env.Proves(b, fw.Cmp{P: info.P.Sub(own), Rel: fw.GE})
		// coverage: this call visits EVERY index of [own, len-1] (own itself may instead be
		// cancelled through the captured cancel function of the pushed context)
		if info.loop && info.P.Coef(c20LoopVar) == 1 {
			exactGE := exactFact(info.env, b, fw.Cmp{P: info.P.Sub(own), Rel: fw.GE})
			exactGT := exactFact(info.env, b, fw.Cmp{P: info.P.Sub(own), Rel: fw.GT})
			switch {
			case info.step == -1 && info.init.Equal(top) && (exactGE || (exactGT && ownCancelled)):
				covered = true
			case info.step == 1 && exactFact(info.env, b, fw.Cmp{P: info.P.Sub(info.len), Rel: fw.LT}) &&
				(info.init.Equal(own) || (ownCancelled && info.init.Equal(own.Add(fw.PConst(1))))):
				covered = true
			}
		}
		noLower := fmt.Sprintf("called element index %s is not proven >= the closure's own index: finishing an evaluation would cancel ENCLOSING evaluations (facts: %v)", info.P, info.env.Facts(b))
		switch {
		case !info.loop:
			ru.Check(lower && (info.P.Equal(own) || info.P.Equal(top)), key, pos, "single element", noLower)
		case info.step == -1 && !lower:
			ru.Fail(key, pos, noLower)
		case info.step == -1:
			ru.Check(info.init.Equal(top), key, pos, "for i = len-1 down to own index", fmt.Sprintf("descending loop must start at len-1, starts at %s (index out of range / skips the innermost)", info.init))
		case info.step == 1 && !info.init.Equal(own):
			ru.Fail(key, pos, fmt.Sprintf("ascending loop starts at %s, not at the closure's own index %s: finishing an evaluation would cancel ENCLOSING evaluations or skip its own", info.init, own))
		case info.step == 1:
			ru.Check(info.env.Proves(b, fw.Cmp{P: info.P.Sub(info.len), Rel: fw.LT}), key, pos, "for i = own index .. len-1", "ascending loop is not bounded by i < len")
		default:
			ru.Fail(key, pos, fmt.Sprintf("loop step %d", info.step))
		}
	}

	if len(calls) > 0 && coverKnown {
		ru.Check(covered, "pop:cancels every entry from own index", p.Rel(pop.Pos()), "one loop visits every index own..len-1 (step 1, exact bounds)",
			"no loop of the pop closure calls EVERY cancel function from its own index up to len-1 (the called index does not follow the loop variable, or a bound is off): an abandoned nested evaluation is dropped from the stack by the truncation without being cancelled and keeps running, no interrupt can reach it any more")
	}

	// ---- truncation to [0:own index] on every effective path
	// stores in the closure itself and in package helpers it calls (site = instruction in the closure)
	type storeAt struct {
		st   *ssa.Store
		site ssa.Instruction
		args map[*ssa.Parameter]ssa.Value
	}
	var all []storeAt
	for _, st := range stores {
		all = append(all, storeAt{st: st, site: st})
	}
	fw.EachInstr(pop, func(ins ssa.Instruction) {
		c, ok := ins.(*ssa.Call)
		if !ok {
			return
		}
		callee := c.Common().StaticCallee()
		if callee == nil || fw.FnPkgPath(callee) != c20StackPkg || callee.Blocks == nil {
			return
		}
		args := map[*ssa.Parameter]ssa.Value{}
		for i, prm := range callee.Params {
			if i < len(c.Common().Args) {
				args[prm] = c.Common().Args[i]
			}
		}
		fw.EachInstr(callee, func(x ssa.Instruction) {
			if st, ok := x.(*ssa.Store); ok {
				if fa, ok := st.Addr.(*ssa.FieldAddr); ok && cs.isStackPtr(fa.X.Type()) && fa.Field == field {
					all = append(all, storeAt{st: st, site: c, args: args})
				}
			}
		})
	})
	var trunc ssa.Instruction
	var truncGuard *ssa.If // branch that skips the reslice because index > len (nothing to remove)
	truncBad := ""
	for _, sa := range all {
		st := sa.st
		sl, ok := st.Val.(*ssa.Slice)
		if !ok || cs.hdrLoad(sl.X, field) == nil {
			truncBad = "the pop closure stores something else than a reslice into the slice"
			continue
		}
		env := fw.NewPolyEnv(st.Parent())
		var own *fw.Poly
		if st.Parent() == pop {
			own = env.Of(firstLoadOf(pop, idxFV))
		} else {
			for prm, arg := range sa.args {
				if u, ok := arg.(*ssa.UnOp); ok && u.Op == token.MUL && u.X == ssa.Value(idxFV) {
					own = env.Of(prm)
				}
			}
			if own == nil {
				truncBad = "the helper that reslices the stack does not receive the closure's own index"
				continue
			}
			// the store must be executed on every path through the helper
			for _, ret := range returnsOf(st.Parent()) {
				if !isRecover(ret) && !precedesOnAllPaths(st, ret) {
					truncBad = "the helper does not reslice the stack on every path"
				}
			}
		}
		lowOK := sl.Low == nil
		if c, ok := sl.Low.(*ssa.Const); ok && c.Int64() == 0 {
			lowOK = true
		}
		// [0:min(index, len)] is the same reslice with the growth guard built in
		high := sl.High
		viaMin := false
		if mc, ok := high.(*ssa.Call); ok && fw.IsBuiltinCall(mc, "min") && len(mc.Common().Args) == 2 {
			a0, a1 := mc.Common().Args[0], mc.Common().Args[1]
			if cs.lenOfHdr(a0, field) != nil {
				a0, a1 = a1, a0
			}
			if cs.lenOfHdr(a1, field) != nil {
				high, viaMin = a0, true
			}
		}
		if !lowOK || high == nil || sl.Max != nil || !env.Of(high).Equal(own) {
			hi := "len"
			if sl.High != nil {
				hi = env.Of(sl.High).String()
			}
			truncBad = fmt.Sprintf("the stack is resliced to [..:%s] instead of [0:%s]: entries of finished evaluations stay on (or enclosing ones drop off) the stack, later interrupts hit the wrong context", hi, own)
			continue
		}
		trunc = sa.site
		// growth: s[0:index] with index > len(s) is legal Go up to cap(s) and RESURRECTS dead entries
		var lenP *fw.Poly
		fw.EachInstr(st.Parent(), func(ins ssa.Instruction) {
			if c, ok := ins.(*ssa.Call); ok && lenP == nil && cs.lenOfHdr(c, field) != nil {
				lenP = env.Of(c)
			}
		})
		grows := !viaMin
		if grows && lenP != nil {
			for _, g := range fw.Guards(st.Block()) {
				gn := g.Normalize()
				c, ok := env.CmpOf(gn.Cond)
				if !ok {
					continue
				}
				if !gn.True {
					c.Rel = c.Rel.Negate()
				}
				if c.Implies(fw.Cmp{P: own.Sub(lenP), Rel: fw.LE}) {
					grows = false
					truncGuard = g.If
				}
			}
		}
		ru.Check(!grows, "pop:reslice never grows the stack", p.Rel(st.Pos()), "index <= len proven (or min(index, len))",
			"cancelFns[0:index] is executed without index <= len(cancelFns) being established: when an ENCLOSING evaluation was popped first (it truncated below this index), this late pop reslices UP to the old length (legal within capacity) and puts dead cancel functions back on top of the stack; the next interrupts cancel those instead of the evaluation still running")
	}
	switch {
	case trunc == nil && truncBad == "":
		ru.Fail("pop:truncates to own index", p.Rel(pop.Pos()), "the pop closure never removes its entries from the stack: after the evaluation finished an interrupt cancels its dead context instead of the enclosing evaluation")
	case truncBad != "":
		ru.Fail("pop:truncates to own index", p.Rel(pop.Pos()), truncBad)
	default:
		ok := true
		for _, ret := range returnsOf(pop) {
			if isRecover(ret) || precedesOnAllPaths(trunc, ret) {
				continue
			}
			if truncGuard != nil && trunc.Parent() == pop && precedesOnAllPaths(truncGuard, ret) && precedesOnAllPaths(truncGuard, trunc) {
				continue // skipped only by the index > len branch
			}
			// early return: only when the flag says "already popped"
			early := false
			if flag != nil && doneVal != nil {
				if v, known := flagAt(ret, flag); known && v == *doneVal {
					early = true
				}
			}
			if !early {
				ok = false
			}
		}
		ru.Check(ok, "pop:truncates to own index", p.Rel(trunc.Pos()), "cancelFns = cancelFns[0:index] on every path except the already-popped return", "some path through the pop closure returns without truncating the stack")
	}
}

func firstLoadOf(fn *ssa.Function, fv *ssa.FreeVar) ssa.Value {
	var out ssa.Value
	fw.EachInstr(fn, func(ins ssa.Instruction) {
		if u, ok := ins.(*ssa.UnOp); ok && out == nil && u.Op == token.MUL && u.X == ssa.Value(fv) {
			out = u
		}
	})
	return out
}
