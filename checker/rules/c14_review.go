package rules

// Clauses added by the self-review by mutation (round 3). Each is a structural necessary
// condition of C14; see the rule descriptions.

import (
	"fmt"
	"go/token"
	"go/types"
	"sort"
	"strings"

	"golang.org/x/tools/go/ssa"

	"fqverif/fw"
)

// ---------------------------------------------------------------------------
// small helpers

func c14NamedIs(t types.Type, pkg, name string) bool {
	if p, ok := t.(*types.Pointer); ok {
		t = p.Elem()
	}
	n, ok := t.(*types.Named)
	return ok && n.Obj().Pkg() != nil && n.Obj().Pkg().Path() == pkg && n.Obj().Name() == name
}

// c14FieldRead: v is a read (or the address) of field `field` of the named struct pkg.name.
func c14FieldRead(v ssa.Value, pkg, name, field string) bool {
	switch x := v.(type) {
	case *ssa.FieldAddr:
		return c14NamedIs(x.X.Type(), pkg, name) && fieldNameOf(x.X.Type(), x.Field) == field
	case *ssa.Field:
		return c14NamedIs(x.X.Type(), pkg, name) && fieldNameOf(x.X.Type(), x.Field) == field
	}
	return false
}

// c14Shallow walks the operands of v (not through lookups, phis, parameters, maps) and calls
// visit on every value met.
func c14Shallow(v ssa.Value, visit func(ssa.Value)) {
	seen := map[ssa.Value]bool{}
	var walk func(v ssa.Value, depth int)
	walk = func(v ssa.Value, depth int) {
		if v == nil || depth > 8 || seen[v] {
			return
		}
		seen[v] = true
		visit(v)
		switch v.(type) {
		case *ssa.Lookup, *ssa.MakeMap, *ssa.Phi, *ssa.Parameter, *ssa.FreeVar, *ssa.Alloc:
			return
		}
		if ins, ok := v.(ssa.Instruction); ok {
			for _, op := range ins.Operands(nil) {
				if op != nil && *op != nil {
					walk(*op, depth+1)
				}
			}
		}
	}
	walk(v, 0)
}

// c14PathRange: minimum and maximum of sum(count(b)) over the paths of one iteration of l that
// return to the loop head.
func c14PathRange(l *c14Loop, count func(b *ssa.BasicBlock) int) (int, int) {
	minE, maxE := -1, 0
	var walk func(b *ssa.BasicBlock, n, depth int)
	walk = func(b *ssa.BasicBlock, n, depth int) {
		if depth > 64 {
			return
		}
		n += count(b)
		for _, s := range b.Succs {
			if s == l.head {
				if minE < 0 || n < minE {
					minE = n
				}
				if n > maxE {
					maxE = n
				}
				continue
			}
			if l.body[s] {
				walk(s, n, depth+1)
			}
		}
	}
	walk(l.head, 0, 0)
	if minE < 0 {
		minE = 0
	}
	return minE, maxE
}

// c14Actuals resolves a parameter of a local helper to the arguments passed at its call sites
// inside fns (other values are returned as they are).
func c14Actuals(v ssa.Value, fns []*ssa.Function, depth int) []ssa.Value {
	pa, ok := c14Strip(v).(*ssa.Parameter)
	if !ok || depth > 3 || pa.Parent() == nil || len(fns) == 0 || pa.Parent() == fns[0] {
		return []ssa.Value{c14Strip(v)}
	}
	idx := -1
	for i, q := range pa.Parent().Params {
		if q == pa {
			idx = i
		}
	}
	var out []ssa.Value
	for _, f := range fns {
		for _, c := range fw.CallsIn(f) {
			if c14Resolve(c) != pa.Parent() || idx < 0 || idx >= len(c.Common().Args) {
				continue
			}
			out = append(out, c14Actuals(c.Common().Args[idx], fns, depth+1)...)
		}
	}
	if len(out) == 0 {
		return []ssa.Value{c14Strip(v)}
	}
	return out
}

// c14DepsVia is c14Deps that continues from the parameters of local helpers into the arguments
// of their call sites (fns[0] is the entry point, its parameters are the inputs).
func c14DepsVia(v ssa.Value, fns []*ssa.Function) map[ssa.Value]bool {
	out := map[ssa.Value]bool{}
	var add func(v ssa.Value, depth int)
	add = func(v ssa.Value, depth int) {
		for d := range c14Deps(v) {
			if out[d] {
				continue
			}
			out[d] = true
			if pa, ok := d.(*ssa.Parameter); ok && depth < 3 && len(fns) > 0 && pa.Parent() != fns[0] {
				for _, a := range c14Actuals(pa, fns, 0) {
					if a != d {
						add(a, depth+1)
					}
				}
			}
		}
	}
	add(v, 0)
	return out
}

// c14PrecedesVia: a precedes b on all paths; when a sits in a local helper, a call of that
// helper in b's function does.
func c14PrecedesVia(a, b *ssa.Call, fns []*ssa.Function) bool {
	if a.Parent() == b.Parent() {
		return precedesOnAllPaths(a, b)
	}
	for _, c := range fw.CallsIn(b.Parent()) {
		if cc, ok := c.(*ssa.Call); ok && c14Resolve(cc) == a.Parent() && precedesOnAllPaths(cc, b) {
			return true
		}
	}
	return false
}

func c14IsBufferRead(c *ssa.Call) bool {
	switch c14Name(c) {
	case "(*bytes.Buffer).String", "(*bytes.Buffer).Bytes":
		return true
	}
	return false
}

// ---------------------------------------------------------------------------
// C14.feed: the codec is fed from the input and its output is what is returned

func c14Feed(cx *c14Ctx) {
	ru := cx.r.Rule("C14.feed", "the reference codec works on the input value: in the streaming conversions (to_hex, _to_base64, _to_hash, _to_strencoding, _from_strencoding) io.Copy reads from a reader derived from the input argument and writes to the encoder/buffer that is read for the result (for _to_hash: to the hash whose Sum(nil) is returned, before Sum); the one-call conversions pass the input argument itself to the codec; to_jsonl ends every value with a newline", 19)
	p := cx.p
	streaming := map[string]bool{"to_hex": true, "_to_base64": true, "_to_hash": true, "_to_strencoding": true, "_from_strencoding": true}
	direct := []string{"from_hex", "_from_base64", "from_urlencode", "to_urlencode", "from_urlpath", "to_urlpath", "from_urlquery", "from_url", "from_xmlentities", "to_xmlentities"}
	for _, jq := range fw.SortedKeys(streaming) {
		root := cx.reg[jq]
		if root == nil || len(root.Params) < 2 {
			ru.Undecided(jq, "", "registered function not found or has no input parameter")
			continue
		}
		in := ssa.Value(root.Params[1])
		fns := c14Local(root)
		var sums []*ssa.Call
		for _, f := range fns {
			for _, ci := range fw.CallsIn(f) {
				if c, ok := ci.(*ssa.Call); ok && c14Name(c) == "hash.Hash.Sum" {
					sums = append(sums, c)
				}
			}
		}
		n := 0
		for _, f := range fns {
			for _, ci := range fw.CallsIn(f) {
				cp, ok := ci.(*ssa.Call)
				if !ok || c14Name(cp) != "io.Copy" || len(cp.Call.Args) != 2 {
					continue
				}
				n++
				pos := p.Rel(cp.Pos())
				dst, src := cp.Call.Args[0], cp.Call.Args[1]
				ru.Check(c14DepsVia(src, fns)[in], fmt.Sprintf("%s|source#%d", jq, n), pos, "io.Copy reads the input argument",
					"the reader handed to io.Copy in "+jq+" is not derived from the input argument: the codec converts something else than the input")
				key := fmt.Sprintf("%s|sink#%d", jq, n)
				if jq == "_to_hash" {
					good := len(sums) > 0
					why := "no hash.Hash.Sum call"
					for _, s := range sums {
						same := true
						for _, a := range c14Actuals(dst, fns, 0) {
							for _, r := range c14Actuals(s.Call.Value, fns, 0) {
								if a != r {
									same = false
								}
							}
						}
						switch {
						case !same:
							good, why = false, "io.Copy writes to a different value than the hash whose Sum is returned"
						case !isNilConst(s.Call.Args[0]):
							good, why = false, "Sum is called with a non-nil prefix: the digest is appended to other bytes"
						case !c14PrecedesVia(cp, s, fns):
							good, why = false, "Sum is not preceded by the io.Copy that feeds the hash"
						}
					}
					ru.Check(good, key, pos, "io.Copy feeds the hash whose Sum(nil) is the result", "_to_hash: "+why)
					continue
				}
				read := false
				for d := range c14DepsVia(dst, fns) {
					a, ok := d.(*ssa.Alloc)
					if !ok || !c14NamedIs(a.Type(), "bytes", "Buffer") || a.Referrers() == nil {
						continue
					}
					for _, ref := range *a.Referrers() {
						if c, ok := ref.(*ssa.Call); ok && c14IsBufferRead(c) {
							read = true
						}
					}
				}
				ru.Check(read, key, pos, "io.Copy writes (through the encoder) into the buffer that is read for the result",
					"the destination of io.Copy in "+jq+" does not lead to a bytes.Buffer whose String/Bytes is read: the converted output is discarded")
			}
		}
		if n == 0 {
			// no stream: if the input's bits are read into a byte buffer first, the buffer holds the whole
			// zero-padded byte view: io.ReadAll, or io.ReadFull into make([]byte, bitio.BitsByteCount(bits))
			bad := ""
			for _, f := range fns {
				for _, ci := range fw.CallsIn(f) {
					c, ok := ci.(*ssa.Call)
					if !ok || c14Name(c) != "io.ReadFull" || len(c.Call.Args) != 2 {
						continue
					}
					sized := false
					buf := c.Call.Args[1]
					if sl, ok := buf.(*ssa.Slice); ok {
						buf = sl.X
					}
					if ms, ok := buf.(*ssa.MakeSlice); ok {
						ln := ms.Len
						if cv, ok := ln.(*ssa.Convert); ok {
							ln = cv.X
						}
						if lc, ok := ln.(*ssa.Call); ok && lc.Call.StaticCallee() != nil && lc.Call.StaticCallee().Name() == "BitsByteCount" {
							sized = true
						}
					}
					if !sized {
						bad = p.Rel(c.Pos())
					}
				}
			}
			ru.Check(bad == "", jq, p.Rel(root.Pos()), "no io.Copy stream (one-call codec API); any pre-read of the input is sized by BitsByteCount", jq+" reads its input into a buffer (io.ReadFull at "+bad+") that is not sized bitio.BitsByteCount(bit length): for an input that is not a whole number of bytes the zero-padded last byte is dropped, so the result differs from the reference codec applied to the same bytes the other conversions see")
		}
	}
	for _, jq := range direct {
		root := cx.reg[jq]
		if root == nil || len(root.Params) < 2 {
			ru.Undecided(jq+"|arg", "", "registered function not found or has no input parameter")
			continue
		}
		in := ssa.Value(root.Params[1])
		good := false
		var pos string
		for _, f := range c14Local(root) {
			for _, ci := range fw.CallsIn(f) {
				if !c14CodecPkgs[c14CalleePkg(ci)] {
					continue
				}
				for _, a := range ci.Common().Args {
					if c14Strip(a) == in {
						good = true
						pos = p.Rel(ci.Pos())
					}
				}
			}
		}
		ru.Check(good, jq+"|arg", pos, "the input argument is passed to the codec", jq+" passes no codec call its input argument: it converts something else than the input")
	}
	// to_jsonl: one newline per value
	if root := cx.reg["to_jsonl"]; root == nil {
		ru.Undecided("to_jsonl|newline", "", "registered function to_jsonl not found")
	} else {
		found := false
		for _, f := range c14Local(root) {
			for _, l := range c14Loops(f) {
				hasMarshal := false
				var mpos token.Pos
				for b := range l.body {
					for _, ins := range b.Instrs {
						if c, ok := ins.(*ssa.Call); ok && strings.HasSuffix(c14Name(c), "colorjson.Encoder).Marshal") {
							hasMarshal = true
							mpos = c.Pos()
						}
					}
				}
				if !hasMarshal {
					continue
				}
				found = true
				minNL, maxNL := c14PathRange(l, func(b *ssa.BasicBlock) int {
					n := 0
					for _, ins := range b.Instrs {
						c, ok := ins.(*ssa.Call)
						if !ok {
							continue
						}
						switch c14Name(c) {
						case "(*bytes.Buffer).WriteByte", "(*bytes.Buffer).WriteRune":
							if c14IsConst(c.Call.Args[1], '\n') {
								n++
							}
						case "(*bytes.Buffer).WriteString":
							if s, ok := c14Str(c.Call.Args[1]); ok && s == "\n" {
								n++
							}
						}
					}
					return n
				})
				ru.Check(minNL == 1 && maxNL == 1, "to_jsonl|newline", p.Rel(mpos), "every value is followed by exactly one newline",
					fmt.Sprintf("an iteration of the to_jsonl loop writes between %d and %d newlines: values run together (\"1\" and \"2\" read back as 12) or blank lines appear", minNL, maxNL))
			}
		}
		if !found {
			ru.Undecided("to_jsonl|newline", p.Rel(root.Pos()), "no loop marshalling the values found in to_jsonl")
		}
	}
}

// ---------------------------------------------------------------------------
// C14.flow: entries are built from the ranged value; per-element slices start fresh

// c14SliceWeb walks a slice value back through phis and append bases; returns the phis met and
// whether an append was met.
func c14SliceWeb(v ssa.Value) (phis []*ssa.Phi, hasAppend bool) {
	seen := map[ssa.Value]bool{}
	var walk func(v ssa.Value)
	walk = func(v ssa.Value) {
		if v == nil || seen[v] {
			return
		}
		seen[v] = true
		switch x := v.(type) {
		case *ssa.Phi:
			phis = append(phis, x)
			for _, e := range x.Edges {
				walk(e)
			}
		case *ssa.Call:
			if fw.IsBuiltinCall(x, "append") && len(x.Call.Args) > 0 {
				hasAppend = true
				walk(x.Call.Args[0])
			}
		case *ssa.ChangeType:
			walk(x.X)
		}
	}
	walk(v)
	return
}

func c14Flow(cx *c14Ctx) {
	ru := cx.r.Rule("C14.flow", "element-wise conversions carry the element: inside a range over a map, an entry stored under a key derived from the ranged key has a value derived from the ranged value (not from the key or an unrelated value); a slice that is built by append and handed on (call argument, map entry, stored element) inside a loop is not carried over from the previous iteration of that loop (each row / key gets its own fresh list)", 18)
	p := cx.p
	for _, f := range p.FqFunctions() {
		if !c14InScope(f) {
			continue
		}
		fn := fw.ShortFn(f)
		loops := c14Loops(f)
		if len(loops) == 0 {
			continue
		}
		// (1) map entries
		nEntry := 0
		for _, l := range loops {
			var nx *ssa.Next
			for _, ins := range l.head.Instrs {
				if x, ok := ins.(*ssa.Next); ok {
					if rg, ok := x.Iter.(*ssa.Range); ok {
						if _, isMap := rg.X.Type().Underlying().(*types.Map); isMap {
							nx = x
						}
					}
				}
			}
			if nx == nil || nx.Referrers() == nil {
				continue
			}
			var kx, vx ssa.Value
			for _, ref := range *nx.Referrers() {
				if e, ok := ref.(*ssa.Extract); ok {
					switch e.Index {
					case 1:
						kx = e
					case 2:
						vx = e
					}
				}
			}
			if kx == nil || vx == nil {
				continue
			}
			var mus []*ssa.MapUpdate
			for b := range l.body {
				for _, ins := range b.Instrs {
					if mu, ok := ins.(*ssa.MapUpdate); ok {
						mus = append(mus, mu)
					}
				}
			}
			sort.Slice(mus, func(i, j int) bool { return mus[i].Pos() < mus[j].Pos() })
			for _, mu := range mus {
				if !c14Deps(mu.Key)[kx] {
					continue
				}
				nEntry++
				ru.Check(c14Deps(mu.Value)[vx], fmt.Sprintf("%s|entry#%d", fn, nEntry), p.Rel(mu.Pos()), "entry value derives from the ranged value",
					"in "+fn+" an entry stored under the ranged key gets a value that does not derive from the ranged value: the element's content is lost")
			}
		}
		// (2) fresh per iteration
		nFresh := 0
		fw.EachInstr(f, func(ins ssa.Instruction) {
			b := ins.Block()
			var cands []ssa.Value
			switch x := ins.(type) {
			case *ssa.Call:
				if _, isBuiltin := x.Call.Value.(*ssa.Builtin); isBuiltin {
					return
				}
				cands = append(cands, x.Call.Args...)
			case *ssa.MapUpdate:
				cands = append(cands, x.Value)
			case *ssa.Store:
				cands = append(cands, x.Val)
			default:
				return
			}
			for _, c := range cands {
				s := c14Strip(c)
				if _, isSlice := s.Type().Underlying().(*types.Slice); !isSlice {
					continue
				}
				phis, hasAppend := c14SliceWeb(s)
				if !hasAppend {
					continue
				}
				inLoop := false
				var carried *c14Loop
				for _, l := range loops {
					if !l.body[b] {
						continue
					}
					inLoop = true
					for _, ph := range phis {
						if ph.Block() != l.head {
							continue
						}
						for i := range ph.Edges {
							if l.body[ph.Block().Preds[i]] {
								carried = l
							}
						}
					}
				}
				if !inLoop {
					continue
				}
				nFresh++
				ru.Check(carried == nil, fmt.Sprintf("%s|fresh#%d", fn, nFresh), p.Rel(ins.Pos()), "the list handed on starts fresh in every iteration",
					"in "+fn+" a list built by append is handed on in every iteration of a loop but is carried over from the previous iteration: each row / key also contains the elements of all earlier ones")
			}
		})
	}
	// (3) one entry of a collected map is returned in place of the map only when it is the only entry
	for _, f := range p.FqFunctions() {
		if !c14InScope(f) {
			continue
		}
		nSole := 0
		rets := returnsOf(f)
		if len(rets) < 2 {
			continue
		}
		env := fw.NewPolyEnv(f)
		for _, ret := range rets {
			for i, res := range ret.Results {
				lk, ok := c14Strip(res).(*ssa.Lookup)
				if !ok || lk.CommaOk {
					continue
				}
				mm, ok := lk.X.(*ssa.MakeMap)
				if !ok {
					continue
				}
				if _, isConst := c14Str(lk.Index); !isConst {
					continue
				}
				whole := false
				for _, r2 := range rets {
					if r2 != ret && i < len(r2.Results) && c14Strip(r2.Results[i]) == ssa.Value(mm) {
						whole = true
					}
				}
				if !whole {
					continue
				}
				nSole++
				proved := false
				fw.EachInstr(f, func(ins ssa.Instruction) {
					if l, ok := ins.(*ssa.Call); ok && fw.IsBuiltinCall(l, "len") && l.Call.Args[0] == ssa.Value(mm) {
						if env.Proves(ret.Block(), fw.Cmp{P: env.Of(l).Sub(fw.PConst(1)), Rel: fw.EQ}) {
							proved = true
						}
					}
				})
				ru.Check(proved, fmt.Sprintf("%s|sole-entry#%d", fw.ShortFn(f), nSole), p.Rel(ret.Pos()), "returned alone only when len(map) == 1",
					"in "+fw.ShortFn(f)+" a single entry of the collected map is returned in place of the map without establishing that it is the only entry: the other entries (attributes, children) are dropped")
			}
		}
	}
}

// ---------------------------------------------------------------------------
// C14.urlkeys (fields): a key is filled from and stored into the same url.URL field

func c14URLFields(cx *c14Ctx, ru *fw.Rule, from, to *ssa.Function) {
	p := cx.p
	fromF := map[string]map[string]bool{}
	posOf := map[string]string{}
	for _, f := range fw.WithClosures(from) {
		fw.EachInstr(f, func(ins ssa.Instruction) {
			mu, ok := ins.(*ssa.MapUpdate)
			if !ok {
				return
			}
			k, ok := c14Str(mu.Key)
			if !ok {
				return
			}
			c14Shallow(mu.Value, func(v ssa.Value) {
				for _, fld := range []string{"Scheme", "Opaque", "Host", "Path", "RawPath", "RawQuery", "Fragment", "RawFragment"} {
					if c14FieldRead(v, "net/url", "URL", fld) {
						if fromF[k] == nil {
							fromF[k] = map[string]bool{}
						}
						fromF[k][fld] = true
						posOf[k] = p.Rel(mu.Pos())
					}
				}
			})
		})
	}
	toF := map[string]map[string]bool{}
	for _, f := range fw.WithClosures(to) {
		fw.EachInstr(f, func(ins ssa.Instruction) {
			st, ok := ins.(*ssa.Store)
			if !ok {
				return
			}
			fa, ok := st.Addr.(*ssa.FieldAddr)
			if !ok || !c14NamedIs(fa.X.Type(), "net/url", "URL") {
				return
			}
			fld := fieldNameOf(fa.X.Type(), fa.Field)
			for d := range c14Deps(st.Val) {
				lk, ok := d.(*ssa.Lookup)
				if !ok {
					continue
				}
				if k, ok := c14Str(lk.Index); ok {
					if toF[k] == nil {
						toF[k] = map[string]bool{}
					}
					toF[k][fld] = true
				}
			}
		})
	}
	// user name and password keep their places
	lookups := func(v ssa.Value) map[string]bool {
		out := map[string]bool{}
		for d := range c14Deps(v) {
			if lk, ok := d.(*ssa.Lookup); ok {
				if k, ok := c14Str(lk.Index); ok {
					out[k] = true
				}
			}
		}
		return out
	}
	for _, f := range fw.WithClosures(to) {
		for _, ci := range fw.CallsIn(f) {
			c, ok := ci.(*ssa.Call)
			if !ok {
				continue
			}
			switch c14Name(c) {
			case "net/url.UserPassword":
				u, pw := lookups(c.Call.Args[0]), lookups(c.Call.Args[1])
				ru.Check(u["username"] && !u["password"] && pw["password"] && !pw["username"], "userinfo:to_url", p.Rel(c.Pos()), "UserPassword(username, password)",
					"to_url builds the user info with url.UserPassword from other keys than (username, password) in this order")
			case "net/url.User":
				u := lookups(c.Call.Args[0])
				ru.Check(u["username"] && !u["password"], "userinfo:to_url:user", p.Rel(c.Pos()), "User(username)", "to_url builds the user info with url.User from another key than username")
			}
		}
	}
	for _, f := range fw.WithClosures(from) {
		fw.EachInstr(f, func(ins ssa.Instruction) {
			mu, ok := ins.(*ssa.MapUpdate)
			if !ok {
				return
			}
			k, ok := c14Str(mu.Key)
			if !ok || (k != "username" && k != "password") {
				return
			}
			want := map[string]string{"username": "(*net/url.Userinfo).Username", "password": "(*net/url.Userinfo).Password"}
			calls := c14DepCalls(mu.Value)
			other := want["password"]
			if k == "password" {
				other = want["username"]
			}
			ru.Check(calls[want[k]] != nil && calls[other] == nil, "userinfo:from_url:"+k, p.Rel(mu.Pos()), k+" from "+want[k], fmt.Sprintf("from_url fills %q from something else than %s", k, want[k]))
		})
	}
	for _, k := range fw.SortedKeys(fromF) {
		if toF[k] == nil {
			continue // not consumed at all: reported by the key clause
		}
		ff, tf := fw.SortedKeys(fromF[k]), fw.SortedKeys(toF[k])
		ru.Check(strings.Join(ff, ",") == strings.Join(tf, ","), "field:"+k, posOf[k], fmt.Sprintf("%s <-> URL.%s", k, strings.Join(ff, ",")),
			fmt.Sprintf("from_url fills %q from URL field(s) %v but to_url stores it into %v: the component moves to another part of the URL on the way back", k, ff, tf))
	}
}

// ---------------------------------------------------------------------------
// C14.err (json paths, xml trailing default)

// c14JSONDecodeSite finds the function of the json decode root that calls Decode and tests the
// error with errors.Is(err, io.EOF).
func c14JSONDecodeSite(p *fw.Program) (*ssa.Function, *ssa.If) {
	root := c14DecodeRoot(p, "JSON")
	if root == nil {
		return nil, nil
	}
	for _, f := range c14Local(root) {
		for _, ci := range fw.CallsIn(f) {
			dec, ok := ci.(*ssa.Call)
			if !ok || c14Name(dec) != "(*encoding/json.Decoder).Decode" || dec.Referrers() == nil {
				continue
			}
			for _, ref := range *dec.Referrers() {
				is, ok := ref.(*ssa.Call)
				if !ok || c14Name(is) != "errors.Is" || len(is.Call.Args) != 2 || is.Referrers() == nil {
					continue
				}
				if g := c14LoadedGlobal(is.Call.Args[1]); g == nil || g.Name() != "EOF" || g.Pkg.Pkg.Path() != "io" {
					continue
				}
				for _, r2 := range *is.Referrers() {
					if ifi, ok := r2.(*ssa.If); ok {
						return f, ifi
					}
				}
			}
		}
	}
	return nil, nil
}

func c14JSONPaths(cx *c14Ctx, ru *fw.Rule) {
	p := cx.p
	f, ifEOF := c14JSONDecodeSite(p)
	if f == nil {
		return // reported by the eof-flag clause
	}
	// (a) an error that is not io.EOF never leads to a normal return, whatever the mode flags are
	var flags []*ssa.Parameter
	for _, pa := range f.Params {
		if b, ok := pa.Type().Underlying().(*types.Basic); ok && b.Kind() == types.Bool {
			flags = append(flags, pa)
		}
	}
	if len(flags) <= 4 {
		var bad []string
		for m := 0; m < 1<<len(flags); m++ {
			known := map[ssa.Value]bool{}
			var desc []string
			for i, pa := range flags {
				known[pa] = m&(1<<i) != 0
				desc = append(desc, fmt.Sprintf("%s=%v", pa.Name(), known[pa]))
			}
			if c14Reach(ifEOF.Block().Succs[1], known, c14Search{target: c14IsReturnBlock}) {
				bad = append(bad, strings.Join(desc, ","))
			}
		}
		ru.Check(len(bad) == 0, "decode:json|error-continues", p.Rel(ifEOF.Cond.Pos()), "a decode error other than io.EOF always ends in d.Fatalf",
			"after a json decode error that is not io.EOF "+fw.ShortFn(f)+" can still return normally (with "+strings.Join(bad, " / ")+"): malformed input after the first values yields a value instead of an error")
	}
	// (b) the value taken as element 0 is the only one
	n := 0
	fw.EachInstr(f, func(ins ssa.Instruction) {
		ia, ok := ins.(*ssa.IndexAddr)
		if !ok || !c14IsConst(ia.Index, 0) {
			return
		}
		if _, isSlice := ia.X.Type().Underlying().(*types.Slice); !isSlice {
			return
		}
		if _, hasAppend := c14SliceWeb(ia.X); !hasAppend {
			return
		}
		n++
		good := map[[2]*ssa.BasicBlock]bool{}
		fw.EachInstr(f, func(i2 ssa.Instruction) {
			ifi, ok := i2.(*ssa.If)
			if !ok {
				return
			}
			bo, ok := ifi.Cond.(*ssa.BinOp)
			if !ok || (bo.Op != token.EQL && bo.Op != token.NEQ) {
				return
			}
			lc, k := bo.X, bo.Y
			if _, isC := lc.(*ssa.Const); isC {
				lc, k = k, lc
			}
			l, ok := lc.(*ssa.Call)
			if !ok || !fw.IsBuiltinCall(l, "len") || l.Call.Args[0] != ia.X || !c14IsConst(k, 1) {
				return
			}
			succ := ifi.Block().Succs[0]
			if bo.Op == token.NEQ {
				succ = ifi.Block().Succs[1]
			}
			good[[2]*ssa.BasicBlock{ifi.Block(), succ}] = true
		})
		reach := c14Reach(f.Blocks[0], nil, c14Search{
			target: func(b *ssa.BasicBlock) bool { return b == ia.Block() },
			avoid:  func(from, to *ssa.BasicBlock) bool { return good[[2]*ssa.BasicBlock{from, to}] },
		})
		ru.Check(!reach, fmt.Sprintf("decode:json|single-value#%d", n), p.Rel(ia.Pos()), "element 0 is used only after len == 1 was established",
			"in "+fw.ShortFn(f)+" the first decoded value is used on a path that never established that exactly one value was decoded: further top-level values are silently dropped")
	})
}

func c14XMLTrailing(cx *c14Ctx, ru *fw.Rule) {
	p := cx.p
	root := c14DecodeRoot(p, "XML")
	if root == nil {
		return
	}
	for _, f := range c14Local(root) {
		for _, ci := range fw.CallsIn(f) {
			tk, ok := ci.(*ssa.Call)
			if !ok || c14Name(tk) != "(*encoding/xml.Decoder).Token" {
				continue
			}
			t := extractOf(tk, 0)
			if t == nil || t.Referrers() == nil {
				continue
			}
			// the type-switch chain on the token
			falseSucc := map[*ssa.BasicBlock]*ssa.BasicBlock{} // block holding the assert -> not-this-type successor
			var first *ssa.BasicBlock
			for _, ref := range *t.Referrers() {
				ta, ok := ref.(*ssa.TypeAssert)
				if !ok || !ta.CommaOk || ta.Referrers() == nil {
					continue
				}
				for _, r2 := range *ta.Referrers() {
					ex, ok := r2.(*ssa.Extract)
					if !ok || ex.Index != 1 || ex.Referrers() == nil {
						continue
					}
					for _, r3 := range *ex.Referrers() {
						if ifi, ok := r3.(*ssa.If); ok && ifi.Block() == ta.Block() {
							falseSucc[ta.Block()] = ifi.Block().Succs[1]
							if first == nil || ta.Block().Dominates(first) {
								first = ta.Block()
							}
						}
					}
				}
			}
			if first == nil {
				ru.Undecided("decode:xml|trailing-default", p.Rel(tk.Pos()), "no type switch on the trailing token found")
				continue
			}
			d := first
			for steps := 0; steps < 32; steps++ {
				nx, ok := falseSucc[d]
				if !ok {
					break
				}
				d = nx
			}
			fails := fw.CurrentNR != nil && fw.CurrentNR.BlockFails(d)
			ru.Check(fails, "decode:xml|trailing-default", p.Rel(tk.Pos()), "a trailing token of any other kind (and a nil token after a read error) is fatal",
				"the type switch over the tokens after the root element has no failing default arm: trailing end tags / directives / comments are accepted, and a read error (nil token) loops instead of failing")
		}
	}
}

// ---------------------------------------------------------------------------
// C14.xmlkeys (attribute prefix applied on both sides or on neither)

func c14XMLAttrPrefix(cx *c14Ctx, ru *fw.Rule, mode string, from, to *ssa.Function) {
	p := cx.p
	fromAttr, fromPref := 0, 0
	for _, g := range fw.WithClosures(from) {
		fw.EachInstr(g, func(ins ssa.Instruction) {
			mu, ok := ins.(*ssa.MapUpdate)
			if !ok {
				return
			}
			isAttr := false
			c14Shallow(mu.Value, func(v ssa.Value) {
				if c14FieldRead(v, "encoding/xml", "Attr", "Value") {
					isAttr = true
				}
			})
			if !isAttr {
				return
			}
			fromAttr++
			for d := range c14Deps(mu.Key) {
				if c14FieldRead(d, fw.Mod+"/format", "XML_In", "AttributePrefix") {
					fromPref++
					return
				}
			}
		})
	}
	toPref := false
	for _, g := range fw.WithClosures(to) {
		for _, ci := range fw.CallsIn(g) {
			switch c14Name(ci) {
			case "strings.HasPrefix", "strings.TrimPrefix", "strings.CutPrefix":
				for d := range c14Deps(ci.Common().Args[1]) {
					if c14FieldRead(d, fw.Mod+"/format/xml", "ToXMLOpts", "AttributePrefix") {
						toPref = true
					}
				}
			}
		}
	}
	if fromAttr == 0 {
		ru.Undecided("mode:"+mode+":attr-prefix", p.Rel(from.Pos()), "no map entry filled from xml.Attr.Value found in "+fw.ShortFn(from))
		return
	}
	good := (toPref && fromPref == fromAttr) || (!toPref && fromPref == 0)
	ru.Check(good, "mode:"+mode+":attr-prefix", p.Rel(from.Pos()), fmt.Sprintf("attribute keys prefixed on both sides: %v", toPref),
		fmt.Sprintf("%s prefixes %d of %d attribute keys with the attribute_prefix option while %s recognises attributes by prefix: %v; attributes and child elements are confused on the way back", fw.ShortFn(from), fromPref, fromAttr, fw.ShortFn(to), toPref))
}

// ---------------------------------------------------------------------------
// C14.seq (flag and lock-step)

// c14AppendsTo lists the append calls that extend the slice v denotes: for a local slice
// variable the appends of its phi web, for a load of a struct field the appends stored back
// into the same field of the same object.
func c14AppendsTo(f *ssa.Function, v ssa.Value) []*ssa.Call {
	var out []*ssa.Call
	if ld, ok := v.(*ssa.UnOp); ok && ld.Op == token.MUL {
		if fa, ok := ld.X.(*ssa.FieldAddr); ok {
			fw.EachInstr(f, func(ins ssa.Instruction) {
				st, ok := ins.(*ssa.Store)
				if !ok {
					return
				}
				fa2, ok := st.Addr.(*ssa.FieldAddr)
				if !ok || fa2.X != fa.X || fa2.Field != fa.Field {
					return
				}
				if c, ok := st.Val.(*ssa.Call); ok && fw.IsBuiltinCall(c, "append") {
					out = append(out, c)
				}
			})
			return out
		}
	}
	seen := map[ssa.Value]bool{}
	var walk func(v ssa.Value)
	walk = func(v ssa.Value) {
		if v == nil || seen[v] {
			return
		}
		seen[v] = true
		switch x := v.(type) {
		case *ssa.Phi:
			for _, e := range x.Edges {
				walk(e)
			}
		case *ssa.Call:
			if fw.IsBuiltinCall(x, "append") && len(x.Call.Args) > 0 {
				out = append(out, x)
				walk(x.Call.Args[0])
			}
		}
	}
	walk(v)
	return out
}

// c14ProxySortKind: "ProxySort" / "ProxyStable" when c calls that function of internal/sortx, else "".
func c14ProxySortKind(c ssa.CallInstruction) string {
	name := fw.CalleeName(c)
	for _, k := range []string{"ProxySort", "ProxyStable"} {
		if strings.HasSuffix(name, "/internal/sortx."+k) {
			return k
		}
	}
	return ""
}

// c14StableImpl: sortx.ProxyStable is implemented with a stable standard-library sort.
func c14StableImpl(cx *c14Ctx, ru *fw.Rule) {
	f := cx.p.Fn("internal/sortx.ProxyStable")
	if f == nil {
		ru.Undecided("sortx.ProxyStable|stable-impl", "", "internal/sortx.ProxyStable not found")
		return
	}
	stable, unstable := false, false
	for _, c := range fw.CallsIn(f) {
		switch fw.CalleeName(c) {
		case "sort.Stable", "sort.SliceStable", "slices.SortStableFunc":
			stable = true
		case "sort.Sort", "sort.Slice", "slices.SortFunc", "slices.Sort":
			unstable = true
		}
	}
	ru.Check(stable && !unstable, "sortx.ProxyStable|stable-impl", cx.p.Rel(f.Pos()), "calls sort.Stable", "sortx.ProxyStable does not sort with a stable standard-library sort (sort.Stable / SliceStable / SortStableFunc)")
}

func c14SeqExtra(cx *c14Ctx, ru *fw.Rule, f *ssa.Function, seqBlocks map[*ssa.BasicBlock]bool, seqArms []*ssa.BasicBlock) {
	p := cx.p
	fn := fw.ShortFn(f)
	c14StableImpl(cx, ru)
	// lock-step: the key slice and the sorted slice of every ProxySort grow together
	nSort := 0
	for _, ci := range fw.CallsIn(f) {
		c, ok := ci.(*ssa.Call)
		if !ok || c14ProxySortKind(c) == "" || len(c.Call.Args) != 3 {
			continue
		}
		nSort++
		ru.Check(c14ProxySortKind(c) == "ProxyStable", fmt.Sprintf("%s|stable#%d", fn, nSort), p.Rel(c.Pos()), "stable sort: equal keys keep their order",
			"the siblings in "+fn+" are ordered with the unstable sortx.ProxySort: elements with equal keys (the elements of an array under one name, children without #seq) come out in an arbitrary order, array order does not survive to_xml")
		per := map[*ssa.BasicBlock][2]int{}
		for _, a := range c14AppendsTo(f, c.Call.Args[0]) {
			x := per[a.Block()]
			x[0]++
			per[a.Block()] = x
		}
		for _, a := range c14AppendsTo(f, c.Call.Args[1]) {
			x := per[a.Block()]
			x[1]++
			per[a.Block()] = x
		}
		good := len(per) > 0
		for _, x := range per {
			if x[0] != x[1] {
				good = false
			}
		}
		ru.Check(good, fmt.Sprintf("%s|lockstep#%d", fn, nSort), p.Rel(c.Pos()), "keys and sorted elements are appended together",
			"the key slice and the element slice handed to sortx.ProxySort in "+fn+" are not appended in lock-step (some place appends to one of them only): keys no longer belong to their elements, siblings are reordered or the sort panics")
	}
	// flag: a child that carries #seq forces the numeric order
	boolIdx := -1
	res := f.Signature.Results()
	for i := 0; i < res.Len(); i++ {
		if b, ok := res.At(i).Type().Underlying().(*types.Basic); ok && b.Kind() == types.Bool {
			boolIdx = i
		}
	}
	if boolIdx < 0 || len(seqBlocks) == 0 {
		return
	}
	// the "#seq" arm makes the function report that it has one
	for i, arm := range seqArms {
		lost := c14Reach(arm, nil, c14Search{targetK: func(b *ssa.BasicBlock, known map[ssa.Value]bool) bool {
			ret, ok := b.Instrs[len(b.Instrs)-1].(*ssa.Return)
			if !ok || boolIdx >= len(ret.Results) {
				return false
			}
			val, ok := c14EvalBool(ret.Results[boolIdx], known)
			return ok && !val
		}})
		ru.Check(!lost, fmt.Sprintf("%s|flag-set#%d", fn, i+1), p.Rel(f.Pos()), "an element with \"#seq\" reports it to its parent",
			"in "+fn+" an element whose object has a \"#seq\" key can still report that it has none: the parent never selects the #seq ordering")
	}
	nCall := 0
	for _, ci := range fw.CallsIn(f) {
		c, ok := ci.(*ssa.Call)
		if !ok || c14Resolve(c) != f {
			continue
		}
		has := extractOf(c, boolIdx)
		if has == nil {
			continue
		}
		nCall++
		escaped := c14Reach(c.Block(), map[ssa.Value]bool{has: true}, c14Search{
			target: c14IsReturnBlock,
			cut:    func(b *ssa.BasicBlock) bool { return seqBlocks[b] },
		})
		ru.Check(!escaped, fmt.Sprintf("%s|flag#%d", fn, nCall), p.Rel(c.Pos()), "a child with #seq forces the numeric sibling order",
			"in "+fn+" a child element that carries \"#seq\" does not force the #seq ordering (the has-seq flag is lost or combined wrongly): siblings fall back to name order")
	}
}

// ---------------------------------------------------------------------------
// C14.json (string scanning state, replacement escape, exponent clean-up)

func c14JSONScan(cx *c14Ctx, ru *fw.Rule) {
	p := cx.p
	for _, f := range p.FqFunctions() {
		if pkgRel(f) != "internal/colorjson" {
			continue
		}
		fn := fw.ShortFn(f)
		env := fw.NewPolyEnv(f)
		// (a) scanning state of the string encoder
		for _, l := range c14Loops(f) {
			var s ssa.Value
			var iPhi, startPhi *ssa.Phi
			for _, ins := range l.head.Instrs {
				ph, ok := ins.(*ssa.Phi)
				if !ok || ph.Referrers() == nil {
					continue
				}
				for _, ref := range *ph.Referrers() {
					if v, ok := ref.(ssa.Value); ok {
						if x, idx, ok := c14StrIndex(v); ok && idx == ssa.Value(ph) {
							if _, isParam := x.(*ssa.Parameter); isParam {
								s, iPhi = x, ph
							}
						}
					}
				}
			}
			if iPhi == nil {
				continue
			}
			for _, ins := range l.head.Instrs {
				ph, ok := ins.(*ssa.Phi)
				if !ok || ph == iPhi || ph.Referrers() == nil {
					continue
				}
				for _, ref := range *ph.Referrers() {
					if sl, ok := ref.(*ssa.Slice); ok && sl.X == s && sl.Low == ssa.Value(ph) {
						startPhi = ph
					}
				}
			}
			if startPhi == nil {
				continue
			}
			nSl := 0
			fw.EachInstr(f, func(ins ssa.Instruction) {
				sl, ok := ins.(*ssa.Slice)
				if !ok || sl.X != s || sl.Referrers() == nil {
					return
				}
				written := false
				for _, ref := range *sl.Referrers() {
					if c, ok := ref.(*ssa.Call); ok && c14Name(c) == "(*bytes.Buffer).WriteString" {
						written = true
					}
				}
				nSl++
				key := fmt.Sprintf("%s|slice#%d", fn, nSl)
				pos := p.Rel(sl.Pos())
				switch {
				case written && l.body[sl.Block()]:
					ru.Check(sl.Low == ssa.Value(startPhi) && sl.High == ssa.Value(iPhi), key, pos, "copies s[start:i]",
						"inside the scan loop the unescaped run is copied with other bounds than s[start:i]: bytes are dropped or written twice")
				case written:
					ru.Check(sl.Low == ssa.Value(startPhi) && sl.High == nil, key, pos, "copies the tail s[start:]",
						"after the scan loop the tail is copied with other bounds than s[start:]")
				default:
					ru.Check(sl.Low == ssa.Value(iPhi) && sl.High == nil, key, pos, "decodes the rune at s[i:]",
						"the rune is decoded from another position than s[i:]")
				}
			})
			// blocks that copy the pending run s[start:i], and the "nothing pending" edges of start < i tests
			flush := map[*ssa.BasicBlock]bool{}
			nothing := map[[2]*ssa.BasicBlock]bool{}
			for b := range l.body {
				for _, ins := range b.Instrs {
					switch x := ins.(type) {
					case *ssa.Slice:
						if x.X == s && x.Low == ssa.Value(startPhi) && x.High == ssa.Value(iPhi) && x.Referrers() != nil {
							for _, ref := range *x.Referrers() {
								if c, ok := ref.(*ssa.Call); ok && c14Name(c) == "(*bytes.Buffer).WriteString" {
									flush[c.Block()] = true
								}
							}
						}
					case *ssa.If:
						if bo, ok := x.Cond.(*ssa.BinOp); ok {
							switch {
							case bo.Op == token.LSS && bo.X == ssa.Value(startPhi) && bo.Y == ssa.Value(iPhi), bo.Op == token.GTR && bo.X == ssa.Value(iPhi) && bo.Y == ssa.Value(startPhi):
								nothing[[2]*ssa.BasicBlock{b, b.Succs[1]}] = true
							case bo.Op == token.GEQ && bo.X == ssa.Value(startPhi) && bo.Y == ssa.Value(iPhi), bo.Op == token.LEQ && bo.X == ssa.Value(iPhi) && bo.Y == ssa.Value(startPhi):
								nothing[[2]*ssa.BasicBlock{b, b.Succs[0]}] = true
							}
						}
					}
				}
			}
			nBack := 0
			for k, pred := range l.head.Preds {
				if !l.body[pred] {
					continue
				}
				if startPhi.Edges[k] != ssa.Value(startPhi) {
					pred := pred
					unflushed := c14Reach(l.head, nil, c14Search{
						target: func(b *ssa.BasicBlock) bool { return b == pred },
						cut:    func(b *ssa.BasicBlock) bool { return flush[b] },
						avoid: func(from, to *ssa.BasicBlock) bool {
							return to == l.head || !l.body[to] || nothing[[2]*ssa.BasicBlock{from, to}]
						},
					})
					ru.Check(!unflushed, fmt.Sprintf("%s|flush-before-resume#%d", fn, nBack+1), p.Rel(f.Pos()), "the pending run s[start:i] is copied before start moves",
						"in "+fn+" the start of the unescaped run is moved on a path that did not copy the pending run s[start:i] (and did not establish start >= i): the bytes before an escape are lost")
				}
				nBack++
				se, ie := startPhi.Edges[k], iPhi.Edges[k]
				good := se == ssa.Value(startPhi) || env.Of(se).Equal(env.Of(ie))
				ru.Check(good, fmt.Sprintf("%s|resume#%d", fn, nBack), p.Rel(f.Pos()), "start is unchanged or resumes at the new i",
					"after writing an escape the start of the next unescaped run is not the new scan position (start = "+env.Of(se).String()+", i = "+env.Of(ie).String()+"): the escaped byte is also copied raw, or bytes are skipped")
			}
		}
		// (b) \uXXXX constants other than \u00: written for the rune they name
		for _, ci := range fw.CallsIn(f) {
			c, ok := ci.(*ssa.Call)
			if !ok || c14Name(c) != "(*bytes.Buffer).WriteString" {
				continue
			}
			str, ok := c14Str(c.Call.Args[1])
			if !ok || len(str) != 6 || !strings.HasPrefix(str, `\u`) {
				continue
			}
			good := false
			for _, g := range fw.Guards(c.Block()) {
				g = g.Normalize()
				bo, ok := g.Cond.(*ssa.BinOp)
				if !ok || !g.True || bo.Op != token.EQL {
					continue
				}
				k, isC := c14ConstInt(bo.Y)
				if !isC {
					k, isC = c14ConstInt(bo.X)
				}
				if isC && k > 255 && strings.EqualFold(str, fmt.Sprintf(`\u%04x`, k)) {
					good = true
				}
			}
			ru.Check(good, fn+"|escape:"+strings.ToLower(str[1:]), p.Rel(c.Pos()), "written where the rune equals that code point",
				fmt.Sprintf("the escape %q is not written under a test that the rune equals that code point (invalid UTF-8 must become U+FFFD)", str))
		}
		// (c) the exponent clean-up (e-09 -> e-9) removes exactly the byte that was tested to be '0'
		c14ExpCleanup(cx, ru, f, env)
	}
}

// c14ExpCleanup: where the text produced by strconv.AppendFloat is edited under a test
// buf[x] == '0', the edit removes index x and nothing else. Two forms are modelled:
//
//	buf[a] = buf[b]; buf = buf[:h]      needs a == x, b == x+1, h == b
//	append(buf[:k], buf[j]) / append(buf[:k], buf[j:]...)   needs k == x, j == x+1
func c14ExpCleanup(cx *c14Ctx, ru *fw.Rule, f *ssa.Function, env *fw.PolyEnv) {
	p := cx.p
	fn := fw.ShortFn(f)
	var buf ssa.Value
	for _, ci := range fw.CallsIn(f) {
		if c, ok := ci.(*ssa.Call); ok && c14Name(c) == "strconv.AppendFloat" {
			buf = c
		}
	}
	if buf == nil {
		return
	}
	loadIdx := func(v ssa.Value) (ssa.Value, bool) {
		ld, ok := v.(*ssa.UnOp)
		if !ok || ld.Op != token.MUL {
			return nil, false
		}
		ia, ok := ld.X.(*ssa.IndexAddr)
		if !ok || ia.X != buf {
			return nil, false
		}
		return ia.Index, true
	}
	n := 0
	fw.EachInstr(f, func(ins ssa.Instruction) {
		ifi, ok := ins.(*ssa.If)
		if !ok {
			return
		}
		bo, ok := ifi.Cond.(*ssa.BinOp)
		if !ok || bo.Op != token.EQL {
			return
		}
		var xi ssa.Value
		if idx, ok := loadIdx(bo.X); ok && c14IsConst(bo.Y, '0') {
			xi = idx
		} else if idx, ok := loadIdx(bo.Y); ok && c14IsConst(bo.X, '0') {
			xi = idx
		}
		if xi == nil {
			return
		}
		arm := ifi.Block().Succs[0]
		if len(arm.Preds) != 1 {
			return
		}
		n++
		key := fn + "|delete-byte"
		if n > 1 {
			key = fmt.Sprintf("%s|delete-byte#%d", fn, n)
		}
		x := env.Of(xi)
		x1 := x.Add(fw.PConst(1))
		var problems []string
		forms := 0
		for _, b := range f.Blocks {
			if b != arm && !arm.Dominates(b) {
				continue
			}
			for _, i2 := range b.Instrs {
				switch e := i2.(type) {
				case *ssa.Store:
					dst, ok := e.Addr.(*ssa.IndexAddr)
					if !ok || dst.X != buf {
						continue
					}
					forms++
					src, ok := loadIdx(e.Val)
					if !ok {
						problems = append(problems, "a byte of the number text is overwritten with something that is not another byte of it")
						continue
					}
					if !env.Of(dst.Index).Equal(x) {
						problems = append(problems, "the byte overwritten (index "+env.Of(dst.Index).String()+") is not the one tested to be '0' (index "+x.String()+")")
					}
					if !env.Of(src).Equal(x1) {
						problems = append(problems, "the byte moved down (index "+env.Of(src).String()+") is not the one right after the '0'")
					}
					cut := false
					for _, b2 := range f.Blocks {
						if b2 != arm && !arm.Dominates(b2) {
							continue
						}
						for _, i3 := range b2.Instrs {
							if sl, ok := i3.(*ssa.Slice); ok && sl.X == buf && sl.Low == nil && sl.High != nil {
								cut = true
								if !env.Of(sl.High).Equal(x1) {
									problems = append(problems, "the new length "+env.Of(sl.High).String()+" is not "+x1.String()+" (one byte shorter)")
								}
							}
						}
					}
					if !cut {
						problems = append(problems, "the text is not shortened after the byte was moved down")
					}
				case *ssa.Call:
					if !fw.IsBuiltinCall(e, "append") || len(e.Call.Args) != 2 {
						continue
					}
					head, ok := e.Call.Args[0].(*ssa.Slice)
					if !ok || head.X != buf {
						continue
					}
					forms++
					if head.Low != nil || head.High == nil || !env.Of(head.High).Equal(x) {
						problems = append(problems, "the kept head of the text does not end right before the '0' (index "+x.String()+")")
					}
					tail, ok := e.Call.Args[1].(*ssa.Slice)
					if !ok {
						problems = append(problems, "appended tail not modelled")
						continue
					}
					switch tx := tail.X.(type) {
					case *ssa.Alloc:
						// variadic elements: every element is a byte of buf, the first one right after the '0'
						first := true
						if tx.Referrers() != nil {
							for _, ref := range *tx.Referrers() {
								ia, ok := ref.(*ssa.IndexAddr)
								if !ok || ia.Referrers() == nil {
									continue
								}
								for _, r2 := range *ia.Referrers() {
									st, ok := r2.(*ssa.Store)
									if !ok {
										continue
									}
									src, ok := loadIdx(st.Val)
									k, isC := c14ConstInt(ia.Index)
									if !ok || !isC || !env.Of(src).Equal(x1.Add(fw.PConst(k))) {
										problems = append(problems, "an appended byte is not the byte of the text that follows the '0' at its position")
									}
									first = false
								}
							}
						}
						if first {
							problems = append(problems, "appended tail not modelled")
						}
					default:
						if tail.X != buf || tail.Low == nil || !env.Of(tail.Low).Equal(x1) {
							problems = append(problems, "the appended tail does not start right after the '0'")
						}
					}
				}
			}
		}
		if forms == 0 {
			ru.Undecided(key, p.Rel(ifi.Cond.Pos()), "the number text is tested for a '0' but the edit that follows is not one of the modelled forms")
			return
		}
		ru.Check(len(problems) == 0, key, p.Rel(ifi.Cond.Pos()), "exactly the byte tested to be '0' is removed", "exponent clean-up of the float text: "+strings.Join(problems, "; "))
	})
}

// ---------------------------------------------------------------------------
// C14.norm (scalar function only on the value itself; recursion on the element)

func c14NormScalar(cx *c14Ctx, ru *fw.Rule) {
	p := cx.p
	f := p.Fn("internal/gojqx.NormalizeFn")
	if f == nil || len(f.Params) < 2 {
		return // reported by c14NormRec
	}
	v, fnParam := ssa.Value(f.Params[0]), ssa.Value(f.Params[1])
	unwrap := func(x ssa.Value) ssa.Value {
		for {
			switch t := x.(type) {
			case *ssa.MakeInterface:
				x = t.X
			case *ssa.ChangeInterface:
				x = t.X
			case *ssa.TypeAssert:
				x = t.X
			case *ssa.Extract:
				if ta, ok := t.Tuple.(*ssa.TypeAssert); ok && t.Index == 0 {
					x = ta.X
				} else {
					return x
				}
			default:
				return x
			}
		}
	}
	n := 0
	for _, ci := range fw.CallsIn(f) {
		c, ok := ci.(*ssa.Call)
		if !ok || c.Call.Value != fnParam || len(c.Call.Args) != 1 {
			continue
		}
		n++
		ru.Check(unwrap(c.Call.Args[0]) == v, fmt.Sprintf("NormalizeFn|scalar-fn#%d", n), p.Rel(c.Pos()), "the scalar mapper is applied to the value itself",
			"gojqx.NormalizeFn applies the scalar mapper to a derived value (e.g. the result of JQValueToGoJQ) instead of recursing: containers inside it are not normalised")
	}
	if n == 0 {
		ru.Undecided("NormalizeFn|scalar-fn", p.Rel(f.Pos()), "NormalizeFn never calls its scalar mapper")
	}
	// recursion in a loop passes something defined in that loop (the element)
	nRec := 0
	for i, l := range c14Loops(f) {
		for b := range l.body {
			for _, ins := range b.Instrs {
				c, ok := ins.(*ssa.Call)
				if !ok || c.Call.StaticCallee() != f {
					continue
				}
				elem := false
				for d := range c14Deps(c.Call.Args[0]) {
					if _, isNext := d.(*ssa.Next); isNext && c14DefinedIn(l, d) {
						elem = true
					}
					if ld, isLoad := d.(*ssa.UnOp); isLoad && ld.Op == token.MUL && c14DefinedIn(l, d) {
						if _, isIA := ld.X.(*ssa.IndexAddr); isIA {
							elem = true
						}
					}
				}
				nRec++
				ru.Check(elem, fmt.Sprintf("NormalizeFn|loop#%d|element#%d", i+1, nRec), p.Rel(c.Pos()), "recursion on the loop element",
					"a container loop of gojqx.NormalizeFn recurses on something that is not the current element")
			}
		}
	}
}
