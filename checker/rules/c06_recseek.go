package rules

import (
	"fmt"
	"go/constant"
	"go/token"
	"go/types"
	"os"
	"sort"
	"strings"

	"golang.org/x/tools/go/ssa"

	"fqverif/fw"
)

// ---------------------------------------------------------------------------
// C06.loopguard, clause recseek: recursion that repositions by an offset from the input carries a
// visited set
//
// tiff's decodeIfd seeks to a sub-IFD offset read from the file (d.SeekAbs(offset) without a callback)
// and calls itself; an IFD that points at itself or at a parent recursed until `fatal error: stack
// overflow`. The shape: a top-level decoder function on a static call cycle, and on that cycle a
// d.SeekAbs / d.SeekRel whose position does not come from d.Pos() (a saved position being restored) and,
// for SeekRel, is not an unsigned quantity (forward only). Obligation recseek:<fn>: the cycle pushes on a
// recursion detector (then the clauses above apply), or every such seek is dominated, in its function,
// by a comma-ok lookup in a map whose found-arm never continues (d.Fatalf; d.Errorf returns under force)
// and the same map is updated with the same key in that function (a visited set that is consulted but
// never filled detects nothing).

// c06FromPos: v derives only from results of d.Pos() (saved positions), constants and arithmetic on them.
func c06FromPos(v ssa.Value, depth int) bool {
	if depth > 8 {
		return false
	}
	switch x := v.(type) {
	case *ssa.Const:
		return true
	case *ssa.Call:
		cal := x.Common().StaticCallee()
		return cal != nil && cal.Name() == "Pos" && cal.Signature.Recv() != nil && isDecodeD(cal.Signature.Recv().Type())
	case *ssa.BinOp:
		return c06FromPos(x.X, depth+1) && c06FromPos(x.Y, depth+1)
	case *ssa.Convert:
		return c06FromPos(x.X, depth+1)
	case *ssa.ChangeType:
		return c06FromPos(x.X, depth+1)
	case *ssa.Phi:
		for _, e := range x.Edges {
			if !c06FromPos(e, depth+1) {
				return false
			}
		}
		return true
	case *ssa.UnOp:
		// a local cell (captured variable): everything stored into it
		if x.Op == token.MUL {
			sts := nfCellStores(x.X)
			if len(sts) == 0 {
				return false
			}
			for _, st := range sts {
				if !c06FromPos(st.Val, depth+1) {
					return false
				}
			}
			return true
		}
	}
	return false
}

// c06NonNegUnsigned: v is a conversion of an unsigned value, possibly scaled by a positive constant.
func c06NonNegUnsigned(v ssa.Value, depth int) bool {
	if depth > 6 {
		return false
	}
	switch x := v.(type) {
	case *ssa.Const:
		return x.Value != nil && constant.Sign(x.Value) >= 0
	case *ssa.Convert:
		if b, ok := x.X.Type().Underlying().(*types.Basic); ok && b.Info()&types.IsUnsigned != 0 {
			// a 64-bit unsigned converted to int64 may wrap; the seek target check in D.SeekRel refuses a
			// position before the current one only for negative deltas, which is what a wrapped value is:
			// it ends in a recoverable decode error, not in recursion
			return true
		}
		return c06NonNegUnsigned(x.X, depth+1)
	case *ssa.BinOp:
		if x.Op == token.MUL || x.Op == token.ADD || x.Op == token.SHL {
			return c06NonNegUnsigned(x.X, depth+1) && c06NonNegUnsigned(x.Y, depth+1)
		}
	case *ssa.UnOp:
		if x.Op == token.MUL {
			sts := nfCellStores(x.X)
			if len(sts) == 0 {
				return false
			}
			for _, st := range sts {
				if !c06NonNegUnsigned(st.Val, depth+1) {
					return false
				}
			}
			return true
		}
	}
	return false
}

// c06SameExpr: two SSA values compute the same expression (go/ssa does no CSE): same value, or the same
// conversion / arithmetic over the same operands, or loads of the same variable cell.
func c06SameExpr(a, b ssa.Value, depth int) bool {
	if a == b {
		return true
	}
	if depth > 6 {
		return false
	}
	switch x := a.(type) {
	case *ssa.Convert:
		y, ok := b.(*ssa.Convert)
		return ok && types.Identical(x.Type(), y.Type()) && c06SameExpr(x.X, y.X, depth+1)
	case *ssa.ChangeType:
		y, ok := b.(*ssa.ChangeType)
		return ok && types.Identical(x.Type(), y.Type()) && c06SameExpr(x.X, y.X, depth+1)
	case *ssa.BinOp:
		y, ok := b.(*ssa.BinOp)
		return ok && x.Op == y.Op && c06SameExpr(x.X, y.X, depth+1) && c06SameExpr(x.Y, y.Y, depth+1)
	case *ssa.Const:
		y, ok := b.(*ssa.Const)
		return ok && x.Value != nil && y.Value != nil && x.Value.ExactString() == y.Value.ExactString()
	case *ssa.UnOp:
		y, ok := b.(*ssa.UnOp)
		if !ok || x.Op != y.Op {
			return false
		}
		if x.Op == token.MUL {
			pa, pb := nfPath(x), nfPath(y)
			return pa == pb && !strings.HasPrefix(pa, "v:")
		}
		return c06SameExpr(x.X, y.X, depth+1)
	}
	return false
}

func c06RecSeek(ru *fw.Rule, p *fw.Program) {
	linked := linkedPackages(p)
	for _, fn := range p.FqFunctions() {
		pr := pkgRel(fn)
		if !strings.HasPrefix(pr, "format") || !linked[fw.FnPkgPath(fn)] || fn.Parent() != nil || len(fn.Blocks) == 0 {
			continue
		}
		if fn.TypeParams().Len() > 0 && len(fn.TypeArgs()) == 0 {
			continue
		}
		reach := c06StaticReach(fn, 12)
		members := []*ssa.Function{fn}
		for g := range reach {
			if g != fn && c06StaticReach(g, 12)[fn] {
				members = append(members, g)
			}
		}
		selfRec := false
		for _, g := range members {
			for _, c := range fw.CallsIn(g) {
				if c.Common().StaticCallee() == fn {
					selfRec = true
				}
			}
		}
		if !selfRec {
			continue
		}
		sort.Slice(members, func(i, j int) bool { return fw.ShortFn(members[i]) < fw.ShortFn(members[j]) })
		hasDetector := false
		type seekSite struct {
			fn  *ssa.Function
			ins ssa.CallInstruction
		}
		var seeks []seekSite
		for _, g := range members {
			for _, c := range fw.CallsIn(g) {
				cal := c.Common().StaticCallee()
				if cal == nil || cal.Signature.Recv() == nil {
					continue
				}
				if strings.HasPrefix(cal.Name(), "Push") && c06IsLoopDetector(cal.Signature.Recv().Type()) {
					hasDetector = true
				}
				if !isDecodeD(cal.Signature.Recv().Type()) {
					continue
				}
				n := cal.Name()
				if n != "SeekAbs" && n != "SeekRel" && n != "TrySeekAbs" && n != "TrySeekRel" {
					continue
				}
				args := c.Common().Args
				if len(args) < 2 || c06FromPos(args[1], 0) {
					continue
				}
				if strings.HasSuffix(n, "SeekRel") && c06NonNegUnsigned(args[1], 0) {
					continue
				}
				seeks = append(seeks, seekSite{g, c})
			}
		}
		if len(seeks) == 0 {
			continue
		}
		key := "recseek:" + fw.ShortFn(fn)
		if hasDetector {
			ru.Ok(key, p.Rel(seeks[0].ins.Pos()), "the recursion cycle pushes on a recursion detector")
			continue
		}
		bad := ""
		for _, s := range seeks {
			// a dominating comma-ok map lookup whose found arm fails, with an update of the same map and key in the function
			ok := false
			fw.EachInstr(s.fn, func(ins ssa.Instruction) {
				lk, isLk := ins.(*ssa.Lookup)
				if !isLk || !lk.CommaOk || ok {
					return
				}
				if _, isMap := lk.X.Type().Underlying().(*types.Map); !isMap {
					return
				}
				if !(lk.Block() == s.ins.Block() || lk.Block().Dominates(s.ins.Block())) {
					return
				}
				// the ok flag decides an If whose true arm never continues
				foundFails := false
				if lk.Referrers() != nil {
					for _, rf := range *lk.Referrers() {
						ex, isEx := rf.(*ssa.Extract)
						if !isEx || ex.Index != 1 || ex.Referrers() == nil {
							continue
						}
						for _, r2 := range *ex.Referrers() {
							if ifi, isIf := r2.(*ssa.If); isIf && fw.CurrentNR != nil && fw.CurrentNR.BlockFails(ifi.Block().Succs[0]) && ifi.Block().Succs[1].Dominates(s.ins.Block()) {
								foundFails = true
							}
						}
					}
				}
				if !foundFails {
					return
				}
				// update of the same map with the same key
				fw.EachInstr(s.fn, func(i2 ssa.Instruction) {
					if mu, isMu := i2.(*ssa.MapUpdate); isMu && nfPath(mu.Map) == nfPath(lk.X) && c06SameExpr(mu.Key, lk.Index, 0) {
						ok = true
					}
				})
			})
			if !ok {
				bad = p.Rel(s.ins.Pos())
				break
			}
		}
		ru.Check(bad == "", key, p.Rel(seeks[0].ins.Pos()), "every input-controlled seek on the recursion cycle is behind a visited-set test that fails and a matching update", "recursive decoder seeks to an offset taken from the input at "+bad+" with neither a recursion detector nor a visited set (a comma-ok map lookup whose found arm ends in d.Fatalf, plus an update of that map with the same key) in front of it: a structure that points at itself recurses until the fatal stack overflow")
	}
}

// exploration: recursion cycles in decoder code that contain an absolute/relative seek
func c06ExploreRecSeek(p *fw.Program) {
	if os.Getenv("C06_EXPLORE_REC") == "" {
		return
	}
	linked := linkedPackages(p)
	var lines []string
	for _, fn := range p.FqFunctions() {
		pr := pkgRel(fn)
		if !strings.HasPrefix(pr, "format") || !linked[fw.FnPkgPath(fn)] || fn.Parent() != nil || len(fn.Blocks) == 0 {
			continue
		}
		// cycle members: functions reachable from fn that reach fn
		reach := c06StaticReach(fn, 12)
		var cyc []*ssa.Function
		for g := range reach {
			if g == fn {
				continue
			}
			if c06StaticReach(g, 12)[fn] {
				cyc = append(cyc, g)
			}
		}
		selfRec := false
		for _, g := range append([]*ssa.Function{fn}, cyc...) {
			for _, c := range fw.CallsIn(g) {
				if c.Common().StaticCallee() == fn {
					selfRec = true
				}
			}
		}
		if !selfRec {
			continue
		}
		seeks, guards := []string{}, []string{}
		for _, g := range append([]*ssa.Function{fn}, cyc...) {
			fw.EachInstr(g, func(ins ssa.Instruction) {
				switch x := ins.(type) {
				case ssa.CallInstruction:
					cal := x.Common().StaticCallee()
					if cal == nil {
						return
					}
					n := cal.Name()
					if (n == "SeekAbs" || n == "SeekRel" || n == "RangeFn" || n == "FieldRangeFn" || strings.HasPrefix(n, "FieldFormatRange") || n == "TrySeekAbs") && pkgRel(cal) == "pkg/decode" {
						if len(x.Common().Args) > 1 {
							if _, isC := x.Common().Args[1].(*ssa.Const); isC {
								return
							}
						}
						seeks = append(seeks, n+"@"+p.Rel(ins.Pos()))
					}
					if strings.Contains(n, "Push") && cal.Signature.Recv() != nil && c06IsLoopDetector(cal.Signature.Recv().Type()) {
						guards = append(guards, "detector@"+p.Rel(ins.Pos()))
					}
				case *ssa.Lookup:
					if x.CommaOk {
						guards = append(guards, "maplookup@"+p.Rel(ins.Pos()))
					}
				}
			})
		}
		if len(seeks) == 0 {
			continue
		}
		sort.Strings(seeks)
		lines = append(lines, fmt.Sprintf("RECSEEK %s cycle=%d seeks=%v guards=%v", fw.ShortFn(fn), len(cyc)+1, seeks[:min(4, len(seeks))], guards[:min(4, len(guards))]))
	}
	sort.Strings(lines)
	for _, l := range lines {
		fmt.Println(l)
	}
}
