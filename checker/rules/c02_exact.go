package rules

import (
	"fmt"
	"sort"
	"strings"

	"golang.org/x/tools/go/ssa"

	"fqverif/fw"
)

// ---------------------------------------------------------------------------
// "exactly when": a one-armed conditional action (byte reversal, sign correction) must not depend
// on anything beyond the condition its contract names.

// ambient: the guards that hold on every successful way out of the function (argument checks,
// err==nil of earlier reads). Guards of b beyond these are the conditions of the action itself.
func (l *c02Lf) ambient(b *ssa.BasicBlock) map[string]bool {
	var sets [][]string
	_, rs := l.successValues()
	for _, r := range rs {
		sets = append(sets, l.env.GuardSx(r.b))
	}
	out := map[string]bool{}
	if len(sets) == 0 {
		return out
	}
	for _, g := range sets[0] {
		all := true
		for _, s := range sets[1:] {
			if !c02HasAny(s, g) {
				all = false
				break
			}
		}
		if all {
			out[g] = true
		}
	}
	return out
}

// onlyWhen: besides the ambient guards, the block is entered under one of wants and under nothing
// else (allowed may admit further guards that cannot exclude a valid input).
func (l *c02Lf) onlyWhen(fact string, b *ssa.BasicBlock, what string, allowed func(g string) bool, wants ...string) {
	if l.dead || b == nil {
		return
	}
	amb := l.ambient(b)
	var extra []string
	for _, g := range l.env.GuardSx(b) {
		if amb[g] || c02HasAny(wants, g) || (allowed != nil && allowed(g)) {
			continue
		}
		extra = append(extra, g)
	}
	l.ru.Check(len(extra) == 0, l.name+":"+fact, l.pos, "no further condition", what+": additionally requires "+strings.Join(extra, " ")+" (inputs that do not satisfy it are decoded without the step)")
}

// ---------------------------------------------------------------------------
// domain: valid requests must not be rejected

// c02Domain lists, per reader, the parameter values the property quantifies over; each of them
// must get past the argument checks to the read.
type c02Domain struct {
	fn, short, sink, param string
	vals                   []int64
	why                    string
}

func c02Range(lo, hi int64) []int64 {
	var out []int64
	for v := lo; v <= hi; v++ {
		out = append(out, v)
	}
	return out
}

func c02IsRejectBlock(b *ssa.BasicBlock) bool {
	switch t := b.Instrs[len(b.Instrs)-1].(type) {
	case *ssa.Panic:
		return true
	case *ssa.Return:
		if len(t.Results) == 0 {
			return false
		}
		last := t.Results[len(t.Results)-1]
		if !c02IsErrorType(last.Type()) {
			return false
		}
		if k, ok := last.(*ssa.Const); ok && k.Value == nil {
			return false
		}
		return true
	}
	if fw.CurrentNR != nil && fw.CurrentNR.BlockFails(b) {
		return true
	}
	return false
}

func (c *c02) domainFacts(ru *fw.Rule) {
	wide := append(c02Range(0, 130), 255, 256, 257, 511, 512, 513, 1000, 1024, 4096, 65536)
	for _, x := range []c02Domain{
		{c02DM + "TryUintBits", "TryUintBits", c02DM + "TryBits", "p0", c02Range(0, 64), "every width 0..64 fits a uint64"},
		{c02DM + "TryBits", "TryBits", "pkg/bitio.ReadFull", "p0", wide, "any non-negative bit count"},
		{c02DM + "TryBytesLen", "TryBytesLen", "pkg/bitio.ReadFull", "p0", wide, "any non-negative byte count"},
		{c02DM + "tryUEndian", "tryUEndian", c02DM + "TryUintBits", "p0", c02Range(1, 64), "unsigned integers of every width 1..64"},
		{c02DM + "trySEndian", "trySEndian", c02DM + "tryUEndian", "p0", c02Range(1, 64), "signed integers of every width 1..64"},
		{c02DM + "tryFPEndian", "tryFPEndian", c02DM + "TryUintBits", "p0", c02Range(1, 64), "fixed point of every width 1..64"},
		{c02DM + "tryFEndian", "tryFEndian", c02DM + "TryBits", "p0", []int64{16, 32, 64, 80}, "IEEE 16/32/64/80-bit floats"},
		{c02DM + "tryBigIntEndianSign", "tryBigIntEndianSign", "pkg/bitio.ReadFull", "p0", wide[1:], "big integers of arbitrary width"},
		{c02DM + "tryTextNull", "tryTextNull", c02DM + "TryPeekFind", "p0", []int64{1, 2}, "one and two byte code units (UTF-8, UTF-16)"},
		{c02DM + "tryText", "tryText", c02DM + "TryBytesLen", "p0", wide, "text of any length"},
		{c02DM + "tryTextNullLen", "tryTextNullLen", c02DM + "TryBytesLen", "p0", wide, "text of any fixed length"},
		{c02DM + "tryTextLenPrefixed", "tryTextLenPrefixed", c02DM + "TryUintBits", "p0", []int64{1, 2, 4, 8}, "length prefixes of 1..8 bytes"},
		{c02DM + "tryTextLenPrefixed", "tryTextLenPrefixed#fixed", c02DM + "TryUintBits", "p1", append([]int64{-1}, wide[1:]...), "no fixed size (-1) or any positive fixed size"},
	} {
		l := c.lfOf(ru, x.fn, x.short)
		if l.dead {
			continue
		}
		var sinks []*ssa.BasicBlock
		for _, cl := range l.calls(x.sink) {
			sinks = append(sinks, cl.Block())
		}
		if len(sinks) == 0 {
			ru.Undecided(x.short+":domain", l.pos, "read "+x.sink+" not found")
			continue
		}
		msg := ""
		for _, b := range sinks {
			for _, g := range fw.Guards(b) {
				if g.If == nil {
					continue
				}
				other := g.If.Block().Succs[0]
				if g.True {
					other = g.If.Block().Succs[1]
				}
				if !c02IsRejectBlock(other) {
					continue
				}
				n := g.Normalize()
				sx := l.env.Of(n.Cond)
				if !strings.Contains(sx, x.param) {
					continue
				}
				for _, v := range x.vals {
					r, ok := fw.SxEval(sx, map[string]int64{x.param: v})
					if !ok {
						break
					}
					if (r != 0) != n.True && msg == "" {
						msg = fmt.Sprintf("%s = %d is rejected with an error by the check %s although it is a valid request (%s)", x.param, v, sx, x.why)
					}
				}
			}
		}
		ru.Check(msg == "", x.short+":domain", l.pos, fmt.Sprintf("%d valid values of %s reach the read", len(x.vals), x.param), msg)
	}
}

// ---------------------------------------------------------------------------
// phi leaves with their edge guards

type c02Leaf struct {
	val    string
	guards []string
}

// phiLeaves lists the incoming values of phi (through nested phis of other blocks) with the guards
// under which each is chosen.
func (l *c02Lf) phiLeaves(phi *ssa.Phi, depth int) []c02Leaf {
	var out []c02Leaf
	b := phi.Block()
	for i, ed := range phi.Edges {
		pred := b.Preds[i]
		gs := l.env.GuardSx(pred)
		if ifi, ok := pred.Instrs[len(pred.Instrs)-1].(*ssa.If); ok && pred.Succs[0] != pred.Succs[1] {
			g := fw.Guard{Cond: ifi.Cond, True: pred.Succs[0] == b}.Normalize()
			s := l.env.Of(g.Cond)
			if g.True {
				gs = append(gs, "+"+s)
			} else {
				gs = append(gs, "-"+s)
			}
		}
		if in := c02PhiOf(ed); in != nil && in.Block() != b && depth < 4 {
			if _, aliased := l.al[in]; !aliased {
				for _, lf := range l.phiLeaves(in, depth+1) {
					out = append(out, c02Leaf{lf.val, append(append([]string{}, gs...), lf.guards...)})
				}
				continue
			}
		}
		out = append(out, c02Leaf{l.env.Of(ed), gs})
	}
	sort.Slice(out, func(i, j int) bool { return out[i].val < out[j].val })
	return out
}

// minByBranches: phi spells min(a, b) with branches: b is chosen only where a > b is known and a
// only where it is not.
func (l *c02Lf) minByBranches(phi *ssa.Phi, a, b string, unless ...string) bool {
	if phi == nil {
		return false
	}
	nb := 0
	for _, lf := range l.phiLeaves(phi, 0) {
		switch lf.val {
		case b:
			nb++
			if !c02HasAny(lf.guards, "+(> "+a+" "+b+")", "-(>= "+b+" "+a+")") {
				return false
			}
		case a:
			if !c02HasAny(lf.guards, "-(> "+a+" "+b+")", "+(>= "+b+" "+a+")") && !c02HasAny(lf.guards, unless...) {
				return false
			}
		default:
			return false
		}
	}
	return nb > 0
}

// c02MsbGuarded: in mathx.BigIntSetBytesSigned the modulus is subtracted exactly when the top bit
// of buf[0] is set: among the guards of the subtraction one is, as a predicate of the byte, b >= 128
// (however it is spelled), and the others cannot exclude a non-empty buffer.
func c02MsbGuarded(l *c02Lf, b *ssa.BasicBlock) {
	if l.dead || b == nil {
		return
	}
	amb := l.ambient(b)
	msb := false
	var extra []string
	for _, g := range l.env.GuardSx(b) {
		if amb[g] {
			continue
		}
		pos := g[0] == '+'
		body := strings.NewReplacer("(idx p1 0)", "B", "(len p1)", "LEN").Replace(g[1:])
		switch {
		case strings.Contains(body, "B") && !strings.Contains(body, "LEN"):
			ok := true
			for v := int64(0); v < 256 && ok; v++ {
				r, evald := fw.SxEval(body, map[string]int64{"B": v})
				ok = evald && ((r != 0) == pos) == (v >= 128)
			}
			if ok {
				msb = true
			} else {
				extra = append(extra, g)
			}
		case strings.Contains(body, "LEN") && !strings.Contains(body, "B"):
			for v := int64(1); v <= 64; v++ {
				r, evald := fw.SxEval(body, map[string]int64{"LEN": v})
				if !evald || (r != 0) != pos {
					extra = append(extra, g)
					break
				}
			}
		default:
			extra = append(extra, g)
		}
	}
	l.ru.Check(msb, l.name+":sub-when-msb", l.pos, "top bit of buf[0]", "modulus must be subtracted exactly when the top bit of buf[0] is set; guards: "+strings.Join(l.env.GuardSx(b), " "))
	l.ru.Check(len(extra) == 0, l.name+":sub-only", l.pos, "no further condition", "the correction additionally requires "+strings.Join(extra, " ")+": negative values of buffers that do not satisfy it come out positive")
}

// c02PeekFindMatch: the search stops with the running offset exactly when the predicate accepts the
// value just read: the branch on fn(v) leaves the loop on true and steps on false, and the offset is
// returned only where fn(v) held (directly, or through a flag that is true only on that exit).
func c02PeekFindMatch(l *c02Lf, u *ssa.Call) {
	pred := "(calldyn p3 (#0 U))"
	exitOK, seen := false, false
	for _, blk := range l.fn.Blocks {
		f, ok := blk.Instrs[len(blk.Instrs)-1].(*ssa.If)
		if !ok {
			continue
		}
		g := fw.Guard{Cond: f.Cond, True: true}.Normalize()
		if l.env.Of(g.Cond) != pred {
			continue
		}
		seen = true
		t, e := blk.Succs[0], blk.Succs[1]
		if !g.True {
			t, e = e, t
		}
		exitOK = !c02BlockReaches(t, u.Block()) && c02BlockReaches(e, u.Block())
	}
	if !seen {
		l.ru.Undecided(l.name+":match-exit", l.pos, "no branch on fn(v)")
		return
	}
	l.ru.Check(exitOK, l.name+":match-exit", l.pos, "a match ends the search, a mismatch steps on", "the search must stop when fn(v) is true and step to the next position when it is false")
	// where CNT is returned
	msg := ""
	n := 0
	for _, ch := range l.successChoices() {
		if ch.val != "CNT" {
			continue
		}
		n++
		if c02HasAny(ch.guards, "+"+pred) {
			continue
		}
		ok := false
		for _, g := range ch.guards {
			if !strings.HasPrefix(g, "+phi{") {
				continue
			}
			// a boolean flag: find the phi and require true only on the matched exit
			fw.EachInstr(l.fn, func(ins ssa.Instruction) {
				ph, isPhi := ins.(*ssa.Phi)
				if !isPhi || "+"+l.env.Of(ph) != g {
					return
				}
				good, some := true, false
				for _, lf := range l.phiLeaves(ph, 0) {
					switch lf.val {
					case "true":
						some = true
						if !c02HasAny(lf.guards, "+"+pred) {
							good = false
						}
					case "false":
					default:
						good = false
					}
				}
				if good && some {
					ok = true
				}
			})
		}
		if !ok {
			msg = "the offset is returned under " + strings.Join(ch.guards, " ") + ", must be returned only where fn(v) accepted the value (directly or through a flag set only there)"
		}
	}
	if n == 0 {
		msg = "the running offset is never returned"
	}
	l.ru.Check(msg == "", l.name+":found", l.pos, "offset returned only on a match", msg)
}

// edgesExactly: every incoming value of phi is one of the listed values and is chosen under one of
// the guards listed for it (so a two-way choice is decided in both directions: the alternative is
// taken exactly when the condition does not hold).
func (l *c02Lf) edgesExactly(fact string, phi *ssa.Phi, what string, wants map[string][]string) {
	if l.dead {
		return
	}
	if phi == nil {
		l.ru.Undecided(l.name+":"+fact, l.pos, what+": value is not a choice any more")
		return
	}
	for _, lf := range l.phiLeaves(phi, 0) {
		ws, ok := wants[lf.val]
		if !ok {
			l.ru.Fail(l.name+":"+fact, l.pos, what+": unexpected alternative "+lf.val)
			return
		}
		if !c02HasAny(lf.guards, ws...) {
			l.ru.Fail(l.name+":"+fact, l.pos, what+": "+lf.val+" is chosen under "+strings.Join(lf.guards, " ")+", must be under "+strings.Join(ws, " / "))
			return
		}
	}
	l.ru.Ok(l.name+":"+fact, l.pos, "both directions")
}

// c02OnlyReturnedWith: use is a pure computation (comparison, arithmetic, conversion) whose result
// goes nowhere but into returns that hand back errV as well: the derived value travels with the error.
func c02OnlyReturnedWith(use ssa.Instruction, errV ssa.Value, depth int) bool {
	if depth > 4 {
		return false
	}
	var v ssa.Value
	switch x := use.(type) {
	case *ssa.BinOp:
		v = x
	case *ssa.UnOp:
		if x.Op.String() == "*" || x.Op.String() == "<-" {
			return false
		}
		v = x
	case *ssa.Convert:
		v = x
	case *ssa.ChangeType:
		v = x
	default:
		return false
	}
	refs := v.Referrers()
	if refs == nil || len(*refs) == 0 {
		return false
	}
	for _, r := range *refs {
		switch y := r.(type) {
		case *ssa.DebugRef:
		case *ssa.Return:
			if len(y.Results) == 0 || y.Results[len(y.Results)-1] != errV {
				return false
			}
		default:
			if !c02OnlyReturnedWith(r, errV, depth+1) {
				return false
			}
		}
	}
	return true
}

// ---------------------------------------------------------------------------
// controls of the exactness / domain obligations

func init() {
	ctl := func(id, rule, file, old, new, expect string) {
		AddControl(Control{ID: id, Prop: "C02", Rule: rule, File: file, Old: old, New: new, ExpectKey: expect})
	}
	rd := "pkg/decode/read.go"
	dc := "pkg/decode/decode.go"
	ctl("c02-domain-signed1", "C02.guard", rd, "	if nBits < 1 {\n		return 0, fmt.Errorf(\"trySEndian nBits must be >= 1 (%d)\", nBits)", "	if nBits <= 1 {\n		return 0, fmt.Errorf(\"trySEndian nBits must be >= 1 (%d)\", nBits)", "trySEndian:domain")
	ctl("c02-domain-uint64", "C02.guard", dc, "if nBits < 0 || nBits > 64 {\n		return 0, fmt.Errorf(\"nBits must be 0-64 (%d)\", nBits)", "if nBits < 0 || nBits >= 64 {\n		return 0, fmt.Errorf(\"nBits must be 0-64 (%d)\", nBits)", "TryUintBits:domain")
	ctl("c02-domain-float80", "C02.guard", rd, "	if nBits < 0 {\n		return 0, fmt.Errorf(\"tryFEndian", "	if nBits < 0 || nBits > 64 {\n		return 0, fmt.Errorf(\"tryFEndian", "tryFEndian:domain")
	ctl("c02-domain-emptytext", "C02.guard", rd, "	if nBytes < 0 {\n		return \"\", fmt.Errorf(\"tryText nBytes", "	if nBytes <= 0 {\n		return \"\", fmt.Errorf(\"tryText nBytes", "tryText:domain")
	ctl("c02-leaf-rev-only", "C02.leaf", rd, "	if endian == LittleEndian {\n		n = bitio.ReverseBytes64(nBits, n)\n	}\n\n	return n, nil", "	if endian == LittleEndian && nBits%8 == 0 {\n		n = bitio.ReverseBytes64(nBits, n)\n	}\n\n	return n, nil", "tryUEndian:rev-le-only")
	ctl("c02-float-rev-only", "C02.float", rd, "	if endian == LittleEndian {\n		ReverseBytes(b)\n	}", "	if endian == LittleEndian && nBits != 80 {\n		ReverseBytes(b)\n	}", "tryFEndian:rev-le-only")
	ctl("c02-leaf-msb-only", "C02.leaf", "internal/mathx/big.go", "if len(buf) > 0 && buf[0]&0x80 > 0 {", "if len(buf) > 1 && buf[0]&0x80 > 0 {", "BigIntSetBytesSigned:sub-only")
	ctl("c02-leaf-msb-test", "C02.leaf", "internal/mathx/big.go", "if len(buf) > 0 && buf[0]&0x80 > 0 {", "if len(buf) > 0 && buf[0] > 0x80 {", "BigIntSetBytesSigned:sub-when-msb")
	ctl("c02-leaf-peekfind-neg", "C02.leaf", dc, "		if fn(v) {\n			found = true\n			break\n		}", "		if !fn(v) {\n			found = true\n			break\n		}", "TryPeekFind:match-exit")
	ctl("c02-leaf-peekfind-found", "C02.leaf", dc, "	if !found {\n		return -1, 0, nil\n	}\n\n	return count, v, nil", "	if found {\n		return -1, 0, nil\n	}\n\n	return count, v, nil", "TryPeekFind:found")
	ctl("c02-leb-signroom", "C02.leb", rd, "if shift < n && (b&0x40) == 0x40 {", "if shift < 63 && (b&0x40) == 0x40 {", "trySLEB128:sign-room")
	ctl("c02-leaf-fixed-iff", "C02.leaf", rd, "	if fixedBytes != -1 {\n		// TODO: error?", "	if fixedBytes != -1 && fixedBytes > prefixLenBytes {\n		// TODO: error?", "tryTextLenPrefixed:fixed-iff-set")
	ctl("c02-leaf-cut-iff", "C02.leaf", rd, "	if nullIndex != -1 {\n		bs = bs[:nullIndex]\n	}", "	if nullIndex != -1 && nullIndex < len(bs)-1 {\n		bs = bs[:nullIndex]\n	}", "tryTextNullLen:cut-iff-found")
	ctl("c02-leaf-grow-only", "C02.leaf", dc, "	if len(*d.readBuf) < n {", "	if len(*d.readBuf) < n && n > 8 {", "SharedReadBuf:grow-only")
	ctl("c02-leaf-bytecount-only", "C02.leaf", "pkg/bitio/bitio.go", "	if nBits%8 != 0 {\n		n++\n	}\n	return n", "	if nBits%8 != 0 && nBits > 8 {\n		n++\n	}\n	return n", "BitsByteCount:roundup-when-rem")
	ctl("c02-leaf-reverse-swap", "C02.leaf", rd, "opp := len(a) - 1 - i", "opp := len(a) - i", "ReverseBytes:swap")
	ctl("c02-leaf-reverse-half", "C02.leaf", rd, "for i := len(a)/2 - 1; i >= 0; i-- {", "for i := len(a)/2 - 1; i > 0; i-- {", "ReverseBytes:loop")
	ctl("c02-leaf-narrow-shift", "C02.leaf", rd, "return float64(n) / float64(uint64(1<<fBits)), nil", "return float64(n) / float64(uint32(1<<fBits)), nil", "tryFPEndian:value")
	ctl("c02-leaf-narrow-conv", "C02.leaf", rd, "		s = int64(n)\n	}\n\n	return s, nil", "		s = int64(int32(n))\n	}\n\n	return s, nil", "trySEndian")
}

// ---------------------------------------------------------------------------
// in-place byte reversal

// c02IsSlicesReverse: a call of the standard library's slices.Reverse (any instantiation).
func c02IsSlicesReverse(cl *ssa.Call) bool {
	f := cl.Common().StaticCallee()
	if f == nil {
		return false
	}
	if o := f.Origin(); o != nil {
		f = o
	}
	return f.Name() == "Reverse" && f.Pkg != nil && f.Pkg.Pkg.Path() == "slices"
}

// oneReverse: the single in-place byte reversal of the function: decode.ReverseBytes (held to its
// contract by ReverseBytes:swap/loop) or slices.Reverse.
func (l *c02Lf) oneReverse() *ssa.Call {
	if l.dead {
		return nil
	}
	var cs []*ssa.Call
	fw.EachInstr(l.fn, func(ins ssa.Instruction) {
		if c, ok := ins.(*ssa.Call); ok && (fw.SxCallee(c.Common()) == "pkg/decode.ReverseBytes" || c02IsSlicesReverse(c)) {
			cs = append(cs, c)
		}
	})
	if len(cs) != 1 {
		l.ru.Undecided(l.name+":call:pkg/decode.ReverseBytes", l.pos, fmt.Sprintf("%d byte reversal calls (decode.ReverseBytes / slices.Reverse; the rule expects exactly one)", len(cs)))
		return nil
	}
	return cs[0]
}

// c02ReverseInPlace: decode.ReverseBytes reverses its argument in place: either it hands the slice
// to slices.Reverse and does nothing else, or it exchanges a[i] and a[len-1-i] for exactly the
// indices of the first half, in any of the usual loop shapes.
func c02ReverseInPlace(l *c02Lf) {
	var stores, conds []string
	var calls []*ssa.Call
	fw.EachInstr(l.fn, func(ins ssa.Instruction) {
		switch x := ins.(type) {
		case *ssa.Store:
			stores = append(stores, l.env.Of(x.Addr)+" <- "+l.env.Of(x.Val))
		case *ssa.If:
			conds = append(conds, l.env.Of(x.Cond))
		case *ssa.Call:
			if _, builtin := x.Common().Value.(*ssa.Builtin); !builtin {
				calls = append(calls, x)
			}
		}
	})
	sort.Strings(stores)
	if len(stores) == 0 && len(conds) == 0 && len(calls) == 1 && c02IsSlicesReverse(calls[0]) {
		ok := l.args(calls[0]) == "p0"
		l.ru.Check(ok, l.name+":swap", l.pos, "slices.Reverse(a)", "slices.Reverse is applied to "+l.args(calls[0])+", must be the argument slice")
		l.ru.Check(ok, l.name+":loop", l.pos, "whole slice (standard library)", "slices.Reverse must cover the whole argument slice")
		return
	}
	half := "(/ (len p0) 2)"
	type form struct {
		i, j, what string
		conds      []string
	}
	down := "phi{-1 + " + half + " | -1 + @0}"
	up := "phi{0 | 1 + @0}"
	top := "phi{-1 + (len p0) | -1 + @0}"
	forms := []form{
		{down, "-1 + (len p0) + -1*" + down, "i = len/2-1 .. 0", []string{"(>= " + down + " 0)", "(> " + down + " -1)"}},
		{up, "-1 + (len p0) + -1*" + up, "i = 0 .. len/2-1", []string{"(> " + half + " " + up + ")", "(>= -1 + " + half + " " + up + ")", "(> -1 + (len p0) + -1*" + up + " " + up + ")"}},
		{up, top, "i = 0.., j = len-1.. while i < j", []string{"(> " + top + " " + up + ")"}},
	}
	pick := -1
	wantOf := func(f form) string {
		w := []string{"(&idx p0 " + f.i + ") <- (idx p0 " + f.j + ")", "(&idx p0 " + f.j + ") <- (idx p0 " + f.i + ")"}
		sort.Strings(w)
		return strings.Join(w, " ; ")
	}
	got := strings.Join(stores, " ; ")
	for k, f := range forms {
		if got == wantOf(f) {
			pick = k
		}
	}
	if pick < 0 {
		l.ru.Fail(l.name+":swap", l.pos, "the stores are "+got+"; a[i] and a[len-1-i] must be exchanged (e.g. "+wantOf(forms[0])+"), or the slice handed to slices.Reverse")
		l.ru.Fail(l.name+":loop", l.pos, "exchange not recognised, so the index range is not decided")
		return
	}
	f := forms[pick]
	l.ru.Ok(l.name+":swap", l.pos, "a[i] and a[len-1-i] are exchanged, "+f.what)
	l.ru.Check(len(calls) == 0 && len(conds) == 1 && c02HasAny(f.conds, conds[0]), l.name+":loop", l.pos, "loop covers exactly the first half ("+f.what+")",
		"loop condition(s) "+strings.Join(conds, " ; ")+", must be "+f.conds[0]+" (exactly the first half, "+f.what+")")
}
