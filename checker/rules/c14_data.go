package rules

import (
	"fmt"
	"go/token"
	"go/types"
	"reflect"
	"sort"
	"strings"

	"golang.org/x/tools/go/ssa"

	"fqverif/fw"
)

// ---------------------------------------------------------------------------
// C14.bits: decoded bytes become a binary of exactly those bits

func c14Bits(cx *c14Ctx) {
	ru := cx.r.Rule("C14.bits", "the binary result of from_hex/_from_base64/_to_strencoding/_to_hash is NewBinaryFromBitReader(NewBitReader(codec output, -1 or 8*len), unit 8, pad 0): exactly the bytes the reference codec produced, no padding bits", 4)
	p := cx.p
	for _, jq := range []string{"from_hex", "_from_base64", "_to_strencoding", "_to_hash"} {
		root := cx.reg[jq]
		if root == nil {
			ru.Undecided(jq, "", "registered function not found")
			continue
		}
		n := 0
		for _, f := range c14Local(root) {
			for _, ci := range fw.CallsIn(f) {
				c, ok := ci.(*ssa.Call)
				if !ok || c14Name(c) != fw.Mod+"/pkg/interp.NewBinaryFromBitReader" || len(c.Call.Args) != 3 {
					continue
				}
				n++
				key := fmt.Sprintf("%s#%d", jq, n)
				pos := p.Rel(c.Pos())
				var problems []string
				if u, ok := c14ConstInt(c.Call.Args[1]); !ok || u != 8 {
					problems = append(problems, "unit is not the constant 8")
				}
				if pad, ok := c14ConstInt(c.Call.Args[2]); !ok || pad != 0 {
					problems = append(problems, "pad is not the constant 0 (pad bits would be prepended to the value)")
				}
				br, ok := c14Strip(c.Call.Args[0]).(*ssa.Call)
				if !ok || c14Name(br) != fw.Mod+"/pkg/bitio.NewBitReader" || len(br.Call.Args) != 2 {
					problems = append(problems, "bit reader is not bitio.NewBitReader(bytes, nbits)")
				} else {
					buf, nbits := br.Call.Args[0], br.Call.Args[1]
					if k, isC := c14ConstInt(nbits); isC {
						if k != -1 {
							problems = append(problems, fmt.Sprintf("bit length is the constant %d, expected -1 (all bytes)", k))
						}
					} else {
						env := fw.NewPolyEnv(f)
						want := false
						fw.EachInstr(f, func(ins ssa.Instruction) {
							if l, ok := ins.(*ssa.Call); ok && fw.IsBuiltinCall(l, "len") && l.Call.Args[0] == buf {
								if env.Of(nbits).Equal(env.Of(l).MulC(8)) {
									want = true
								}
							}
						})
						if !want {
							problems = append(problems, "bit length "+env.Of(nbits).String()+" is neither -1 nor 8*len(bytes)")
						}
					}
					if !c14FromCodec(buf) {
						problems = append(problems, "the bytes do not come from a codec call or a buffer written by one")
					}
				}
				ru.Check(len(problems) == 0, key, pos, "NewBinaryFromBitReader(NewBitReader(codec bytes, -1), 8, 0)", strings.Join(problems, "; "))
			}
		}
		if n == 0 {
			ru.Fail(jq, p.Rel(root.Pos()), jq+" does not build its result with interp.NewBinaryFromBitReader")
		}
	}
}

// c14FromCodec: v depends on the result of a codec-package call, or on a buffer handed to one.
func c14FromCodec(v ssa.Value) bool {
	for d := range c14Deps(v) {
		switch x := d.(type) {
		case *ssa.Call:
			if c14CodecPkgs[c14CalleePkg(x)] {
				return true
			}
		case *ssa.Alloc:
			// a buffer passed (as io.Writer) to a codec call or to io.Copy
			if c14PassedToCodec(x, 0) {
				return true
			}
		}
	}
	return false
}

func c14PassedToCodec(a ssa.Value, depth int) bool {
	if depth > 3 || a.Referrers() == nil {
		return false
	}
	for _, ref := range *a.Referrers() {
		switch x := ref.(type) {
		case *ssa.MakeInterface:
			if c14PassedToCodec(x, depth+1) {
				return true
			}
		case *ssa.ChangeInterface:
			if c14PassedToCodec(x, depth+1) {
				return true
			}
		case *ssa.Call:
			if c14CodecPkgs[c14CalleePkg(x)] || c14Name(x) == "io.Copy" {
				return true
			}
		}
	}
	return false
}

// ---------------------------------------------------------------------------
// C14.norm: values are normalised between jq and the third-party codec

func c14Norm(cx *c14Ctx) {
	ru := cx.r.Rule("C14.norm", "values crossing to/from a third-party serialiser are normalised: the Encode/Write argument depends on gojqx.Normalize / NormalizeToStrings of the input, the decoded value stored as Actual depends on gojqx.Normalize (yaml, toml) or gojq.NormalizeNumbers of a json.Decoder with UseNumber; gojqx.NormalizeFn recurses in every container loop on the loop element and applies the scalar mapper only to the value itself", 20)
	p := cx.p
	gq := fw.Mod + "/internal/gojqx."
	type sink struct {
		row   string // jq name or group
		group bool
		call  string // codec call whose argument is checked ("" = store to scalar.Any.Actual)
		arg   int
		norm  []string // acceptable normaliser callees
	}
	sinks := []sink{
		{"_to_yaml", false, "(*gopkg.in/yaml.v3.Encoder).Encode", 0, []string{gq + "Normalize"}},
		{"_to_toml", false, "(*github.com/BurntSushi/toml.Encoder).Encode", 0, []string{gq + "Normalize"}},
		{"_to_csv", false, "(*encoding/csv.Writer).Write", 0, []string{gq + "NormalizeToStrings"}},
		{"to_xml", false, "(*encoding/xml.Encoder).Encode", 0, []string{gq + "NormalizeToStrings"}},
		{"to_urlquery", false, "(net/url.Values).Encode", -1, []string{gq + "NormalizeToStrings"}},
		{"to_url", false, "(net/url.Values).Encode", -1, []string{gq + "NormalizeToStrings"}},
		{"YAML", true, "", 0, []string{gq + "Normalize"}},
		{"TOML", true, "", 0, []string{gq + "Normalize"}},
		{"JSON", true, "", 0, []string{"github.com/wader/gojq.NormalizeNumbers"}},
		{"JSONL", true, "", 0, []string{"github.com/wader/gojq.NormalizeNumbers"}},
	}
	anyNamed := p.NamedType("pkg/scalar", "Any")
	for _, s := range sinks {
		var root *ssa.Function
		key := s.row
		if s.group {
			root = c14DecodeRoot(p, s.row)
			key = "decode:" + strings.ToLower(s.row)
		} else {
			root = cx.reg[s.row]
		}
		if root == nil {
			ru.Undecided(key, "", "entry point not found")
			continue
		}
		fns := c14Local(root)
		found := 0
		for _, f := range fns {
			fw.EachInstr(f, func(ins ssa.Instruction) {
				var v ssa.Value
				switch x := ins.(type) {
				case *ssa.Call:
					if s.call == "" || c14Name(x) != s.call {
						return
					}
					args := x.Call.Args
					if s.arg == -1 {
						v = args[0] // receiver
					} else {
						if x.Call.StaticCallee() != nil && x.Call.StaticCallee().Signature.Recv() != nil {
							args = args[1:]
						}
						if s.arg >= len(args) {
							return
						}
						v = args[s.arg]
					}
				case *ssa.Store:
					if s.call != "" || anyNamed == nil {
						return
					}
					fa, ok := x.Addr.(*ssa.FieldAddr)
					if !ok || fieldNameOf(fa.X.Type(), fa.Field) != "Actual" {
						return
					}
					pt, ok := fa.X.Type().Underlying().(*types.Pointer)
					if !ok || !types.Identical(pt.Elem(), anyNamed) {
						return
					}
					v = x.Val
				default:
					return
				}
				found++
				k := fmt.Sprintf("%s#%d", key, found)
				calls := c14DepCalls(v)
				// the sink value may be built by a local helper (toURLValues(c), toXMLFromObject(...)): look through its arguments too
				okNorm := false
				for _, n := range s.norm {
					if calls[n] != nil {
						okNorm = true
					}
				}
				if !okNorm {
					// the value is a parameter-derived tree inside a helper: check the helper's call sites
					okNorm = c14CallersNormalise(fns, ins.Parent(), s.norm, 0)
				}
				extra := ""
				if okNorm && s.group && strings.HasPrefix(s.row, "JSON") {
					// big integers survive only with UseNumber on the decoder the value was read from
					useNum := false
					for _, f2 := range fns {
						for _, c := range fw.CallsIn(f2) {
							if c14Name(c) == "(*encoding/json.Decoder).UseNumber" {
								useNum = true
							}
						}
					}
					if !useNum {
						okNorm, extra = false, " (json.Decoder without UseNumber: big integers lose precision)"
					}
				}
				ru.Check(okNorm, k, p.Rel(ins.Pos()), "normalised by "+strings.Join(s.norm, "|"), "value reaching "+c14SinkName(s.call)+" in "+fw.ShortFn(ins.Parent())+" is not normalised with "+strings.Join(s.norm, " or ")+extra)
			})
		}
		if found == 0 {
			ru.Undecided(key, p.Rel(root.Pos()), "no "+c14SinkName(s.call)+" found from "+fw.ShortFn(root))
		}
	}
	c14NormRec(cx, ru)
	c14NormScalar(cx, ru)
}

func c14SinkName(call string) string {
	if call == "" {
		return "scalar.Any.Actual store"
	}
	return call
}

// c14CallersNormalise: fn is a local helper; every call of it from the local set passes an
// argument that depends on a normaliser call (or the caller is itself such a helper).
func c14CallersNormalise(fns []*ssa.Function, fn *ssa.Function, norm []string, depth int) bool {
	if depth > 3 {
		return false
	}
	// the helper or one of its enclosing functions
	targets := map[*ssa.Function]bool{}
	for f := fn; f != nil; f = f.Parent() {
		targets[f] = true
	}
	sites, good := 0, 0
	for _, f := range fns {
		if targets[f] {
			continue
		}
		for _, c := range fw.CallsIn(f) {
			g := c14Resolve(c)
			if g == nil || !targets[g] {
				continue
			}
			sites++
			ok := false
			for _, a := range c.Common().Args {
				calls := c14DepCalls(a)
				for _, n := range norm {
					if calls[n] != nil {
						ok = true
					}
				}
			}
			if !ok && c14CallersNormalise(fns, f, norm, depth+1) {
				ok = true
			}
			if ok {
				good++
			}
		}
	}
	return sites > 0 && sites == good
}

// ---------------------------------------------------------------------------
// loops

type c14Loop struct {
	head *ssa.BasicBlock
	body map[*ssa.BasicBlock]bool
}

func c14Loops(f *ssa.Function) []*c14Loop {
	byHead := map[*ssa.BasicBlock]*c14Loop{}
	for _, b := range f.Blocks {
		for _, s := range b.Succs {
			if !s.Dominates(b) {
				continue
			}
			l := byHead[s]
			if l == nil {
				l = &c14Loop{head: s, body: map[*ssa.BasicBlock]bool{s: true}}
				byHead[s] = l
			}
			stack := []*ssa.BasicBlock{b}
			for len(stack) > 0 {
				x := stack[len(stack)-1]
				stack = stack[:len(stack)-1]
				if l.body[x] {
					continue
				}
				l.body[x] = true
				stack = append(stack, x.Preds...)
			}
		}
	}
	var out []*c14Loop
	for _, l := range byHead {
		out = append(out, l)
	}
	sort.Slice(out, func(i, j int) bool { return out[i].head.Index < out[j].head.Index })
	return out
}

func c14Innermost(loops []*c14Loop, b *ssa.BasicBlock) *c14Loop {
	var best *c14Loop
	for _, l := range loops {
		if l.body[b] && (best == nil || len(l.body) < len(best.body)) {
			best = l
		}
	}
	return best
}

func c14DefinedIn(l *c14Loop, v ssa.Value) bool {
	ins, ok := v.(ssa.Instruction)
	return ok && ins.Block() != nil && l.body[ins.Block()]
}

// c14Induction: phi at a loop head whose in-loop edges are phi +/- constant.
func c14Induction(ph *ssa.Phi, l *c14Loop) bool {
	for i, e := range ph.Edges {
		if !l.body[ph.Block().Preds[i]] {
			continue
		}
		bo, ok := e.(*ssa.BinOp)
		if !ok || (bo.Op != token.ADD && bo.Op != token.SUB) || bo.X != ssa.Value(ph) {
			return false
		}
		if _, isC := bo.Y.(*ssa.Const); !isC {
			return false
		}
	}
	return true
}

// ---------------------------------------------------------------------------
// C14.multi: multi-valued data is not collapsed

var c14Scope = []string{"format/text", "format/xml", "format/csv", "format/yaml", "format/toml", "format/json", "format/crypto", "internal/gojqx", "internal/colorjson"}

func c14InScope(f *ssa.Function) bool {
	rel := pkgRel(f)
	for _, s := range c14Scope {
		if rel == s {
			return true
		}
	}
	return false
}

func c14IsURLValues(t types.Type) bool {
	n, ok := t.(*types.Named)
	return ok && n.Obj().Pkg() != nil && n.Obj().Pkg().Path() == "net/url" && n.Obj().Name() == "Values"
}

func c14Multi(cx *c14Ctx) {
	ru := cx.r.Rule("C14.multi", "inside loops of the conversion packages a map entry (or url.Values.Set) with a key that does not change in the innermost loop must accumulate (append of the previous entry), otherwise each iteration overwrites the last: repeated query keys / repeated child elements keep all values; an entry known to exist (ok of a lookup) is merged, not replaced; a constant index into a url.Values entry is guarded by len <= index+1 and not by len <= index", 18)
	p := cx.p
	for _, f := range p.FqFunctions() {
		if !c14InScope(f) {
			continue
		}
		loops := c14Loops(f)
		n := 0
		fw.EachInstr(f, func(ins ssa.Instruction) {
			var m, key, val ssa.Value
			what := ""
			switch x := ins.(type) {
			case *ssa.MapUpdate:
				m, key, val, what = x.Map, x.Key, x.Value, "map store"
			case *ssa.Call:
				if c14Name(x) != "(net/url.Values).Set" {
					return
				}
				m, key, val, what = x.Call.Args[0], x.Call.Args[1], x.Call.Args[2], "url.Values.Set"
			default:
				return
			}
			// an entry that is known to exist (guarded by the ok of a lookup of the same map and key) is merged, not replaced
			if mu, isMU := ins.(*ssa.MapUpdate); isMU {
				for _, g := range fw.Guards(ins.Block()) {
					g = g.Normalize()
					ex, ok := g.Cond.(*ssa.Extract)
					if !ok || ex.Index != 1 || !g.True {
						continue
					}
					lk, ok := ex.Tuple.(*ssa.Lookup)
					if !ok || lk.X != mu.Map || lk.Index != mu.Key {
						continue
					}
					n++
					k := fmt.Sprintf("%s|merge#%d", fw.ShortFn(f), n)
					merged := false
					for d := range c14Deps(val) {
						if e0, ok := d.(*ssa.Extract); ok && e0.Tuple == ssa.Value(lk) && e0.Index == 0 {
							merged = true
						}
					}
					ru.Check(merged, k, p.Rel(ins.Pos()), "existing entry is merged", "an entry that already exists under this key is replaced instead of merged in "+fw.ShortFn(f)+": repeated children / values collapse to the last one")
					return
				}
			}
			l := c14Innermost(loops, ins.Block())
			if l == nil {
				return
			}
			n++
			k := fmt.Sprintf("%s|store#%d", fw.ShortFn(f), n)
			pos := p.Rel(ins.Pos())
			// key varies with the loop?
			varies := false
			for d := range c14Deps(key) {
				if c14DefinedIn(l, d) {
					if _, isPhi := d.(*ssa.Phi); isPhi {
						varies = true
					}
					if _, isNext := d.(*ssa.Next); isNext {
						varies = true
					}
					if ld, isLoad := d.(*ssa.UnOp); isLoad && ld.Op == token.MUL {
						varies = true
					}
					if _, isCall := d.(*ssa.Call); isCall {
						varies = true
					}
				}
			}
			if varies {
				ru.Ok(k, pos, "key changes with the loop")
				return
			}
			// accumulating: the stored value depends on a lookup of the same map
			acc := false
			for d := range c14Deps(val) {
				if lk, ok := d.(*ssa.Lookup); ok && lk.X == m {
					acc = true
				}
				if c, ok := d.(*ssa.Call); ok && c14Name(c) == "(net/url.Values).Get" {
					acc = true
				}
				// a loop-carried variable other than the induction index (ss = append(ss, s); sb.WriteString)
				if ph, ok := d.(*ssa.Phi); ok && ph.Block() == l.head && !c14Induction(ph, l) {
					acc = true
				}
			}
			ru.Check(acc, k, pos, "accumulates the previous entry", what+" in "+fw.ShortFn(f)+" uses a key that is fixed during the innermost loop and does not accumulate: every iteration overwrites the previous value (multi-valued data collapses to the last value)")
		})
		// constant index into a []string that is a url.Values entry
		env := fw.NewPolyEnv(f)
		fw.EachInstr(f, func(ins ssa.Instruction) {
			ia, ok := ins.(*ssa.IndexAddr)
			if !ok {
				return
			}
			idx, isC := c14ConstInt(ia.Index)
			if !isC {
				return
			}
			ex, ok := ia.X.(*ssa.Extract)
			if !ok {
				return
			}
			nx, ok := ex.Tuple.(*ssa.Next)
			if !ok {
				return
			}
			rg, ok := nx.Iter.(*ssa.Range)
			if !ok || !c14IsURLValues(rg.X.Type()) {
				return
			}
			k := fmt.Sprintf("%s|index[%d]", fw.ShortFn(f), idx)
			proved, dead := false, false
			fw.EachInstr(f, func(i2 ssa.Instruction) {
				if l, ok := i2.(*ssa.Call); ok && fw.IsBuiltinCall(l, "len") && l.Call.Args[0] == ia.X {
					q := fw.Cmp{P: env.Of(l).Sub(fw.PConst(idx + 1)), Rel: fw.LE}
					if env.Proves(ia.Block(), q) {
						proved = true
					}
					// the guard must leave room for the element itself: len <= index means the arm only sees lists without it
					if env.Proves(ia.Block(), fw.Cmp{P: env.Of(l).Sub(fw.PConst(idx)), Rel: fw.LE}) {
						dead = true
					}
				}
			})
			if dead {
				ru.Fail(k, p.Rel(ia.Pos()), fmt.Sprintf("element %d of a query value list is used in an arm that is only reached when the list has at most %d elements: a key with exactly one value never takes the scalar form (and the index is out of range)", idx, idx))
				return
			}
			ru.Check(proved, k, p.Rel(ia.Pos()), "guarded by len <= index+1", fmt.Sprintf("only element %d of a query value list is used without a guard proving the list has no further elements: additional values of a repeated key are dropped", idx))
		})
	}
}

// ---------------------------------------------------------------------------
// C14.seq: xml "#seq" ordering is numeric

func c14Seq(cx *c14Ctx) {
	ru := cx.r.Rule("C14.seq", "to_xml (object mode): in the arm for the \"#seq\" key the value is parsed with an integer parser, that integer reaches the function's integer result, and the sibling sort fed from those results uses integer keys and an ascending a<b comparison (numeric, not lexicographic order); the \"#seq\" arm makes the element report it, a child reporting it always selects the #seq sort, and the key and element slices of every sortx proxy sort are appended in lock-step, and every such sort is the stable one (sortx.ProxyStable, which calls sort.Stable): siblings with equal keys - the elements of an array under one name - keep their order", 10)
	p := cx.p
	root := cx.reg["to_xml"]
	if root == nil {
		ru.Undecided("to_xml", "", "registered function to_xml not found")
		return
	}
	found := false
	for _, f := range c14Local(root) {
		var seqArms []*ssa.BasicBlock
		fw.EachInstr(f, func(ins ssa.Instruction) {
			ifi, ok := ins.(*ssa.If)
			if !ok {
				return
			}
			bo, ok := ifi.Cond.(*ssa.BinOp)
			if !ok || bo.Op != token.EQL {
				return
			}
			sx, okx := c14Str(bo.X)
			sy, oky := c14Str(bo.Y)
			if (okx && sx == "#seq") || (oky && sy == "#seq") {
				seqArms = append(seqArms, ifi.Block().Succs[0])
			}
		})
		if len(seqArms) == 0 {
			continue
		}
		found = true
		fn := fw.ShortFn(f)
		// (a) integer parse in the arm
		var parsed ssa.Value
		for _, arm := range seqArms {
			for _, b := range f.Blocks {
				if b != arm && !arm.Dominates(b) {
					continue
				}
				for _, ins := range b.Instrs {
					c, ok := ins.(*ssa.Call)
					if !ok {
						continue
					}
					switch c14Name(c) {
					case "strconv.Atoi", "strconv.ParseInt", "strconv.ParseUint":
						parsed = extractOf(c, 0)
					}
				}
			}
		}
		if !ru.Check(parsed != nil, fn+"|parse", p.Rel(f.Pos()), "#seq value parsed with strconv", "the \"#seq\" arm of "+fn+" does not parse the value as an integer (strconv.Atoi/ParseInt): sibling order would not be numeric") {
			continue
		}
		// (b) reaches an integer result
		resIdx := -1
		for _, ret := range returnsOf(f) {
			for i, res := range ret.Results {
				if b, ok := res.Type().Underlying().(*types.Basic); ok && b.Info()&types.IsInteger != 0 && c14Deps(res)[parsed] {
					resIdx = i
				}
			}
		}
		if !ru.Check(resIdx >= 0, fn+"|result", p.Rel(f.Pos()), "parsed #seq is returned", "the parsed \"#seq\" integer does not reach an integer result of "+fn) {
			continue
		}
		// (c) the sort whose keys come from the recursive results
		nSort := 0
		seqBlocks := map[*ssa.BasicBlock]bool{}
		for _, ci := range fw.CallsIn(f) {
			c, ok := ci.(*ssa.Call)
			if !ok || c14ProxySortKind(c) == "" || len(c.Call.Args) != 3 {
				continue
			}
			fromSeq := false
			for d := range c14Deps(c.Call.Args[0]) {
				ex, ok := d.(*ssa.Extract)
				if !ok || ex.Index != resIdx {
					continue
				}
				if call, ok := ex.Tuple.(*ssa.Call); ok && c14Resolve(call) == f {
					fromSeq = true
				}
			}
			if !fromSeq {
				continue
			}
			nSort++
			seqBlocks[c.Block()] = true
			key := fmt.Sprintf("%s|sort#%d", fn, nSort)
			pos := p.Rel(c.Pos())
			st, _ := c.Call.Args[0].Type().Underlying().(*types.Slice)
			isInt := false
			if st != nil {
				if b, ok := st.Elem().Underlying().(*types.Basic); ok && b.Info()&types.IsInteger != 0 {
					isInt = true
				}
			}
			less := c14FuncValue(c.Call.Args[2], 0)
			asc := false
			if less != nil && len(less.Params) == 2 && len(less.Blocks) == 1 {
				if ret, ok := less.Blocks[0].Instrs[len(less.Blocks[0].Instrs)-1].(*ssa.Return); ok && len(ret.Results) == 1 {
					if bo, ok := ret.Results[0].(*ssa.BinOp); ok {
						a, b := ssa.Value(less.Params[0]), ssa.Value(less.Params[1])
						asc = (bo.Op == token.LSS && bo.X == a && bo.Y == b) || (bo.Op == token.GTR && bo.X == b && bo.Y == a)
					}
				}
			}
			var problems []string
			if !isInt {
				problems = append(problems, "sort keys have type "+c.Call.Args[0].Type().String()+", not integers: \"10\" sorts before \"2\"")
			}
			if !asc {
				problems = append(problems, "comparison is not the ascending a < b")
			}
			ru.Check(len(problems) == 0, key, pos, "integer keys, ascending", strings.Join(problems, "; "))
		}
		if nSort == 0 {
			ru.Fail(fn+"|sort", p.Rel(f.Pos()), "no sortx proxy sort (ProxySort/ProxyStable) in "+fn+" is keyed by the #seq results of the child elements")
		}
		c14SeqExtra(cx, ru, f, seqBlocks, seqArms)
	}
	if !found {
		ru.Undecided("to_xml|#seq", p.Rel(root.Pos()), "no comparison with the \"#seq\" key found below to_xml")
	}
}

// ---------------------------------------------------------------------------
// C14.prefix: a tested prefix is stripped by its own length

func c14Prefix(cx *c14Ctx) {
	ru := cx.r.Rule("C14.prefix", "where a key passed strings.HasPrefix(k, P), the slice k[n:] taken in that arm strips n = len(P) bytes (or TrimPrefix/CutPrefix is used): to_xml removes exactly the attribute prefix from_xml added", 1)
	p := cx.p
	for _, f := range p.FqFunctions() {
		if !c14InScope(f) {
			continue
		}
		for _, ci := range fw.CallsIn(f) {
			hp, ok := ci.(*ssa.Call)
			if !ok || c14Name(hp) != "strings.HasPrefix" || hp.Referrers() == nil {
				continue
			}
			s, pre := hp.Call.Args[0], hp.Call.Args[1]
			for _, ref := range *hp.Referrers() {
				ifi, ok := ref.(*ssa.If)
				if !ok {
					continue
				}
				arm := ifi.Block().Succs[0]
				if len(arm.Preds) != 1 {
					continue
				}
				n := 0
				for _, b := range f.Blocks {
					if b != arm && !arm.Dominates(b) {
						continue
					}
					for _, ins := range b.Instrs {
						sl, ok := ins.(*ssa.Slice)
						if !ok || sl.X != s || sl.High != nil || sl.Low == nil {
							continue
						}
						n++
						key := fmt.Sprintf("%s|strip#%d", fw.ShortFn(f), n)
						ok2, why := c14IsLenOf(sl.Low, pre)
						ru.Check(ok2, key, p.Rel(sl.Pos()), "strips len(prefix)", "after strings.HasPrefix(k, P) the key is cut with k["+why+":] instead of k[len(P):]: a prefix of any other length is stripped wrongly")
					}
				}
			}
		}
	}
}

// c14IsLenOf: n is len(P') where P' is P or a load of the same access path; or both constant.
func c14IsLenOf(n, pre ssa.Value) (bool, string) {
	if c, ok := n.(*ssa.Call); ok && fw.IsBuiltinCall(c, "len") {
		a := c.Call.Args[0]
		if a == pre {
			return true, ""
		}
		pa, ok1 := fw.AccessPath(a)
		pb, ok2 := fw.AccessPath(pre)
		if ok1 && ok2 && pa == pb {
			return true, ""
		}
		return false, "len(<other>)"
	}
	if k, ok := c14ConstInt(n); ok {
		if s, isC := c14Str(pre); isC && int64(len(s)) == k {
			return true, ""
		}
		return false, fmt.Sprint(k)
	}
	return false, n.String()
}

// ---------------------------------------------------------------------------
// C14.xmlkeys: special keys agree between from_xml and to_xml

func c14XMLKeys(cx *c14Ctx) {
	ru := cx.r.Rule("C14.xmlkeys", "per mode (object/array) the set of '#'-keys from_xml writes equals the set to_xml recognises, each such key is tied to the same node field (Chardata/Comment) in both directions, the default attribute prefix of to_xml equals the decoder's default, and attribute keys are prefixed by from_xml exactly in the mode where to_xml recognises them by prefix", 10)
	p := cx.p
	toRoot := cx.reg["to_xml"]
	fromRoot := c14DecodeRoot(p, "XML")
	if toRoot == nil || fromRoot == nil {
		ru.Undecided("anchors", "", "to_xml or the xml decode root not found")
		return
	}
	hashKeys := func(f *ssa.Function, written bool) map[string]bool {
		out := map[string]bool{}
		for _, g := range fw.WithClosures(f) {
			fw.EachInstr(g, func(ins ssa.Instruction) {
				switch x := ins.(type) {
				case *ssa.MapUpdate:
					if s, ok := c14Str(x.Key); ok && written && strings.HasPrefix(s, "#") {
						out[s] = true
					}
				case *ssa.BinOp:
					if written || x.Op != token.EQL {
						return
					}
					if s, ok := c14Str(x.X); ok && strings.HasPrefix(s, "#") {
						out[s] = true
					}
					if s, ok := c14Str(x.Y); ok && strings.HasPrefix(s, "#") {
						out[s] = true
					}
				}
			})
		}
		return out
	}
	topLevel := func(root *ssa.Function) []*ssa.Function {
		var out []*ssa.Function
		for _, f := range c14Local(root) {
			if f.Parent() == nil && f != root {
				out = append(out, f)
			}
		}
		return out
	}
	for _, mode := range []string{"Object", "Array"} {
		var from, to *ssa.Function
		for _, f := range topLevel(fromRoot) {
			if strings.HasSuffix(f.Name(), mode) && len(hashKeys(f, true)) > 0 {
				from = f
			}
		}
		for _, f := range topLevel(toRoot) {
			if strings.HasSuffix(f.Name(), mode) && len(hashKeys(f, false)) > 0 {
				to = f
			}
		}
		if from == nil || to == nil {
			ru.Undecided("mode:"+mode, "", "could not pair the from/to helpers of mode "+mode+" (helpers ending in "+mode+" that write / test '#' keys)")
			continue
		}
		w, r := fw.SortedKeys(hashKeys(from, true)), fw.SortedKeys(hashKeys(to, false))
		ru.Check(reflect.DeepEqual(w, r), "mode:"+mode, p.Rel(to.Pos()), "keys "+strings.Join(w, ","),
			fmt.Sprintf("%s writes %v but %s recognises %v: a special key is lost or becomes a child element on the way back", fw.ShortFn(from), w, fw.ShortFn(to), r))
		// each special key is tied to the same node field in both directions
		for _, k := range w {
			ff, tf := c14KeyFieldsFrom(from, k), c14KeyFieldsTo(to, k)
			ru.Check(reflect.DeepEqual(ff, tf), "mode:"+mode+":"+k, p.Rel(to.Pos()), fmt.Sprintf("%s <-> %v", k, ff),
				fmt.Sprintf("key %q is filled from node field(s) %v by %s but stored into %v by %s", k, ff, fw.ShortFn(from), tf, fw.ShortFn(to)))
		}
		c14XMLAttrPrefix(cx, ru, mode, from, to)
	}
	// default attribute prefix
	optsT := p.NamedType("format/xml", "ToXMLOpts")
	var tagDefault string
	okTag := false
	if optsT != nil {
		if st, ok := optsT.Underlying().(*types.Struct); ok {
			for i := 0; i < st.NumFields(); i++ {
				if st.Field(i).Name() == "AttributePrefix" {
					tagDefault, okTag = reflect.StructTag(st.Tag(i)).Lookup("default")
				}
			}
		}
	}
	inT := p.NamedType("format", "XML_In")
	var decDefault string
	okDec := false
	if inT != nil {
		for _, f := range p.FqFunctions() {
			if pkgRel(f) != "format/xml" {
				continue
			}
			fw.EachInstr(f, func(ins ssa.Instruction) {
				st, ok := ins.(*ssa.Store)
				if !ok {
					return
				}
				fa, ok := st.Addr.(*ssa.FieldAddr)
				if !ok || fieldNameOf(fa.X.Type(), fa.Field) != "AttributePrefix" {
					return
				}
				pt, ok := fa.X.Type().Underlying().(*types.Pointer)
				if !ok || !types.Identical(pt.Elem(), inT) {
					return
				}
				if s, ok := c14Str(st.Val); ok {
					decDefault, okDec = s, true
				}
			})
		}
	}
	if !okTag || !okDec {
		ru.Undecided("attribute-prefix-default", "", "ToXMLOpts.AttributePrefix default tag or the XML_In default literal not found")
	} else {
		ru.Check(tagDefault == decDefault, "attribute-prefix-default", "", "both "+tagDefault, fmt.Sprintf("to_xml defaults attribute_prefix to %q but from_xml to %q", tagDefault, decDefault))
	}
}

// ---------------------------------------------------------------------------
// C14.json: the JSON writer's number and string constants

func c14JSON(cx *c14Ctx) {
	ru := cx.r.Rule("C14.json", "colorjson (to_json, tojson, to_jsonl): integers and big integers are written in base 10, floats with shortest round-trip precision (-1) at 64 bits; every escaped byte is written as the JSON escape of that byte, \\u00XX with high nibble first from a hex alphabet, and a byte is copied unescaped only when it is >= 0x20 and neither '\"' nor '\\'; the string scanner copies exactly s[start:i] / s[start:], moves start only to the new i and only after the pending run was copied; invalid UTF-8 is written as the escape of U+FFFD; the exponent clean-up deletes exactly the tested byte", 22)
	p := cx.p
	esc := map[byte]byte{'"': '"', '\\': '\\', '/': '/', 'b': 8, 'f': 12, 'n': 10, 'r': 13, 't': 9}
	nNum := 0
	for _, f := range p.FqFunctions() {
		if pkgRel(f) != "internal/colorjson" {
			continue
		}
		fn := fw.ShortFn(f)
		for _, ci := range fw.CallsIn(f) {
			c, ok := ci.(*ssa.Call)
			if !ok {
				continue
			}
			pos := p.Rel(c.Pos())
			switch c14Name(c) {
			case "strconv.AppendInt", "strconv.FormatInt", "strconv.AppendUint", "strconv.FormatUint":
				nNum++
				b, ok := c14ConstInt(c.Call.Args[len(c.Call.Args)-1])
				ru.Check(ok && b == 10, fn+"|int-base", pos, "base 10", "integers are not written in base 10")
			case "(*math/big.Int).Append", "(*math/big.Int).Text":
				nNum++
				b, ok := c14ConstInt(c.Call.Args[len(c.Call.Args)-1])
				ru.Check(ok && b == 10, fn+"|bigint-base", pos, "base 10", "big integers are not written in base 10")
			case "strconv.AppendFloat", "strconv.FormatFloat":
				nNum++
				n := len(c.Call.Args)
				prec, ok1 := c14ConstInt(c.Call.Args[n-2])
				bits, ok2 := c14ConstInt(c.Call.Args[n-1])
				ru.Check(ok1 && prec == -1 && ok2 && bits == 64, fn+"|float", pos, "precision -1, 64 bit", "floats are not written with precision -1 (shortest representation that parses back to the same value) and bitSize 64")
			}
		}
		// escapes: if b == C { WriteString("\\x") }
		fw.EachInstr(f, func(ins ssa.Instruction) {
			ifi, ok := ins.(*ssa.If)
			if !ok {
				return
			}
			bo, ok := ifi.Cond.(*ssa.BinOp)
			if !ok || bo.Op != token.EQL {
				return
			}
			cv, isC := c14ConstInt(bo.Y)
			other := bo.X
			if !isC {
				cv, isC = c14ConstInt(bo.X)
				other = bo.Y
			}
			if !isC || cv < 0 || cv > 255 {
				return
			}
			// only tests of the byte of the string under encoding (s[i]) select an escape
			if _, _, isByte := c14StrIndex(other); !isByte {
				return
			}
			arm := ifi.Block().Succs[0]
			for _, ai := range arm.Instrs {
				c, ok := ai.(*ssa.Call)
				if !ok || c14Name(c) != "(*bytes.Buffer).WriteString" {
					continue
				}
				s, ok := c14Str(c.Call.Args[1])
				if !ok || !strings.HasPrefix(s, `\`) {
					continue
				}
				key := fmt.Sprintf("%s|escape:0x%02x", fn, cv)
				good := len(s) == 2 && esc[s[1]] == byte(cv) && (esc[s[1]] != 0)
				ru.Check(good, key, p.Rel(c.Pos()), "writes "+s, fmt.Sprintf("byte 0x%02x is written as %q, which is not the JSON escape of that byte", cv, s))
			}
		})
		// \u00 + two hex digits
		for _, b := range f.Blocks {
			for i, ins := range b.Instrs {
				c, ok := ins.(*ssa.Call)
				if !ok || c14Name(c) != "(*bytes.Buffer).WriteString" {
					continue
				}
				if s, ok := c14Str(c.Call.Args[1]); !ok || s != `\u00` {
					continue
				}
				var nib []ssa.Value
				for _, later := range b.Instrs[i+1:] {
					wb, ok := later.(*ssa.Call)
					if ok && c14Name(wb) == "(*bytes.Buffer).WriteByte" {
						nib = append(nib, wb.Call.Args[1])
					}
				}
				key := fn + "|escape:u00XX"
				good := len(nib) == 2
				why := "expected two WriteByte calls after \\u00"
				if good {
					hi, alpha1 := c14HexIndex(nib[0])
					lo, alpha2 := c14HexIndex(nib[1])
					hiOK := hi != nil && hi.Op == token.SHR && c14IsConst(hi.Y, 4)
					loOK := lo != nil && lo.Op == token.AND && (c14IsConst(lo.Y, 15) || c14IsConst(lo.X, 15))
					sameByte := hi != nil && lo != nil && hi.X == c14Other(lo, 15)
					alphaOK := strings.ToLower(alpha1) == "0123456789abcdef" && alpha1 == alpha2
					good = hiOK && loOK && sameByte && alphaOK
					why = fmt.Sprintf("high nibble first (b>>4): %v, low nibble second (b&15): %v, same byte: %v, hex alphabet %q/%q", hiOK, loOK, sameByte, alpha1, alpha2)
				}
				ru.Check(good, key, p.Rel(c.Pos()), `\u00 + hex[b>>4] + hex[b&15]`, "control characters are not written as \\u00XX: "+why)
			}
		}
		// pass-through of unescaped bytes
		env := fw.NewPolyEnv(f)
		for _, b := range f.Blocks {
			back := false
			for _, s := range b.Succs {
				if s.Dominates(b) {
					back = true
				}
			}
			if !back {
				continue
			}
			hasCall := false
			for _, ins := range b.Instrs {
				if _, ok := ins.(*ssa.Call); ok {
					hasCall = true
				}
			}
			if hasCall {
				continue
			}
			// the byte under test: a string index lookup compared with 0x80 on a dominating guard
			var bv ssa.Value
			var asciiArm *ssa.BasicBlock
			for _, g := range fw.Guards(b) {
				g = g.Normalize()
				bo, ok := g.Cond.(*ssa.BinOp)
				if !ok || !g.True || bo.Op != token.LSS || !c14IsConst(bo.Y, 128) {
					continue
				}
				if _, _, ok := c14StrIndex(bo.X); ok {
					bv = bo.X
					asciiArm = g.If.Block().Succs[0]
				}
			}
			if bv == nil {
				continue
			}
			// pass-through: b is reachable from the ASCII arm without any call (nothing written)
			reach := false
			seenB := map[*ssa.BasicBlock]bool{}
			var walk func(x *ssa.BasicBlock)
			walk = func(x *ssa.BasicBlock) {
				if seenB[x] || reach {
					return
				}
				seenB[x] = true
				for _, ins := range x.Instrs {
					if _, ok := ins.(*ssa.Call); ok {
						return
					}
				}
				if x == b {
					reach = true
					return
				}
				for _, s := range x.Succs {
					walk(s)
				}
			}
			walk(asciiArm)
			if !reach {
				continue
			}
			key := fn + "|passthrough"
			pb := env.Of(bv)
			ge := env.Proves(b, fw.Cmp{P: pb.Sub(fw.PConst(32)), Rel: fw.GE})
			nq := env.Proves(b, fw.Cmp{P: pb.Sub(fw.PConst('"')), Rel: fw.NE})
			nb := env.Proves(b, fw.Cmp{P: pb.Sub(fw.PConst('\\')), Rel: fw.NE})
			ru.Check(ge && nq && nb, key, p.Rel(b.Instrs[0].Pos()), "guarded by b >= 0x20, b != '\"', b != '\\\\'",
				fmt.Sprintf("an ASCII byte is copied unescaped without all of: b >= 0x20 (%v), b != '\"' (%v), b != '\\' (%v): the output is not valid JSON for that byte", ge, nq, nb))
		}
	}
	if nNum == 0 {
		ru.Undecided("numbers", "", "no strconv/big number formatting found in internal/colorjson")
	}
	c14JSONScan(cx, ru)
}

func c14IsConst(v ssa.Value, k int64) bool {
	c, ok := c14ConstInt(v)
	return ok && c == k
}

func c14Other(bo *ssa.BinOp, k int64) ssa.Value {
	if c14IsConst(bo.Y, k) {
		return bo.X
	}
	return bo.Y
}

// c14HexIndex: v is CONST[idx] of a constant string; returns idx as BinOp and the string.
func c14HexIndex(v ssa.Value) (*ssa.BinOp, string) {
	x, idx, ok := c14StrIndex(v)
	if !ok {
		return nil, ""
	}
	s, ok := c14Str(x)
	if !ok {
		return nil, ""
	}
	for {
		if cv, ok := idx.(*ssa.Convert); ok {
			idx = cv.X
			continue
		}
		break
	}
	bo, _ := idx.(*ssa.BinOp)
	return bo, s
}

// c14StrIndex: v is s[i] of a string s.
func c14StrIndex(v ssa.Value) (x, idx ssa.Value, ok bool) {
	switch t := v.(type) {
	case *ssa.Index:
		x, idx = t.X, t.Index
	case *ssa.Lookup:
		x, idx = t.X, t.Index
	default:
		return nil, nil, false
	}
	bt, isB := x.Type().Underlying().(*types.Basic)
	if !isB || bt.Info()&types.IsString == 0 {
		return nil, nil, false
	}
	return x, idx, true
}

// ---------------------------------------------------------------------------
// C14.flush: buffered stream encoders are closed / flushed before the buffer is read

func c14Flush(cx *c14Ctx) {
	ru := cx.r.Rule("C14.flush", "a buffering stream encoder (base64.NewEncoder, csv.NewWriter) is Closed/Flushed on the path to, and before, every read of the output buffer: the last partial base64 group / buffered csv rows are part of the result", 2)
	p := cx.p
	type row struct {
		jq, ctor string
		finish   []string // method names
	}
	for _, rw := range []row{
		{"_to_base64", "encoding/base64.NewEncoder", []string{"Close"}},
		{"_to_csv", "encoding/csv.NewWriter", []string{"Flush"}},
	} {
		root := cx.reg[rw.jq]
		if root == nil {
			ru.Undecided(rw.jq, "", "registered function not found")
			continue
		}
		n := 0
		for _, f := range c14Local(root) {
			for _, ci := range fw.CallsIn(f) {
				ctor, ok := ci.(*ssa.Call)
				if !ok || c14Name(ctor) != rw.ctor {
					continue
				}
				n++
				key := fmt.Sprintf("%s#%d", rw.jq, n)
				// finishing calls on the encoder value
				var fin []*ssa.Call
				var walk func(v ssa.Value, depth int)
				walk = func(v ssa.Value, depth int) {
					if depth > 3 || v.Referrers() == nil {
						return
					}
					for _, ref := range *v.Referrers() {
						switch x := ref.(type) {
						case *ssa.ChangeInterface:
							walk(x, depth+1)
						case *ssa.MakeInterface:
							walk(x, depth+1)
						case *ssa.Call:
							name := ""
							if x.Call.IsInvoke() && x.Call.Value == v {
								name = x.Call.Method.Name()
							} else if sc := x.Call.StaticCallee(); sc != nil && len(x.Call.Args) > 0 && x.Call.Args[0] == v {
								name = sc.Name()
							}
							for _, m := range rw.finish {
								if name == m {
									fin = append(fin, x)
								}
							}
						}
					}
				}
				walk(ctor, 0)
				// reads of the output buffer: String()/Bytes() on the *bytes.Buffer handed to the constructor
				var reads []*ssa.Call
				for _, a := range ctor.Call.Args {
					buf := c14Strip(a)
					if buf.Referrers() == nil {
						continue
					}
					for _, ref := range *buf.Referrers() {
						if c, ok := ref.(*ssa.Call); ok {
							switch c14Name(c) {
							case "(*bytes.Buffer).String", "(*bytes.Buffer).Bytes":
								reads = append(reads, c)
							}
						}
					}
				}
				if len(reads) == 0 {
					ru.Undecided(key, p.Rel(ctor.Pos()), "no read (String/Bytes) of the buffer written by "+rw.ctor+" found")
					continue
				}
				good := true
				for _, rd := range reads {
					okRead := false
					for _, fc := range fin {
						if precedesOnAllPaths(fc, rd) {
							okRead = true
						}
					}
					if !okRead {
						good = false
					}
				}
				ru.Check(good, key, p.Rel(ctor.Pos()), strings.Join(rw.finish, "/")+" precedes the buffer read", "the encoder created by "+rw.ctor+" is not "+strings.Join(rw.finish, "/")+"ed before the output buffer is read: the tail of the output is missing")
			}
		}
		if n == 0 {
			// a non-streaming API (EncodeToString, WriteAll) needs no finishing call
			ru.Ok(rw.jq, p.Rel(root.Pos()), "no stream encoder constructed")
		}
	}
}

// ---------------------------------------------------------------------------
// C14.urlkeys: what from_url extracts, to_url consumes

func c14URLKeys(cx *c14Ctx) {
	ru := cx.r.Rule("C14.urlkeys", "every constant key from_url writes into its result object is read by to_url (a component that is extracted but ignored on the way back cannot round-trip); a key filled from a url.URL field is stored back into the same field; username/password keep their places in Userinfo / url.UserPassword", 17)
	p := cx.p
	from, to := cx.reg["from_url"], cx.reg["to_url"]
	if from == nil || to == nil {
		ru.Undecided("anchors", "", "from_url or to_url not registered")
		return
	}
	written := map[string]ssa.Instruction{}
	for _, f := range fw.WithClosures(from) {
		fw.EachInstr(f, func(ins ssa.Instruction) {
			if mu, ok := ins.(*ssa.MapUpdate); ok {
				if s, ok := c14Str(mu.Key); ok {
					written[s] = ins
				}
			}
		})
	}
	read := map[string]bool{}
	for _, f := range fw.WithClosures(to) {
		fw.EachInstr(f, func(ins ssa.Instruction) {
			if lk, ok := ins.(*ssa.Lookup); ok {
				if s, ok := c14Str(lk.Index); ok {
					read[s] = true
				}
			}
		})
	}
	for _, k := range fw.SortedKeys(written) {
		ru.Check(read[k], "key:"+k, p.Rel(written[k].Pos()), "read by to_url", fmt.Sprintf("from_url emits %q but to_url never reads it: that component of the URL is lost by from_url | to_url", k))
	}
	c14URLFields(cx, ru, from, to)
}

// ---------------------------------------------------------------------------
// C14.csv: reader and writer options agree

func c14CSV(cx *c14Ctx) {
	ru := cx.r.Rule("C14.csv", "csv: every option of the decoder (format.CSV_In) that changes how a line is read has a same-named option of to_csv, and each csv.Reader / csv.Writer field is set from the same-named option field only", 4)
	p := cx.p
	inT, outT := p.NamedType("format", "CSV_In"), p.NamedType("format/csv", "ToCSVOpts")
	if inT == nil || outT == nil {
		ru.Undecided("anchors", "", "format.CSV_In or csv.ToCSVOpts not found")
		return
	}
	fields := func(n *types.Named) map[string]bool {
		out := map[string]bool{}
		if st, ok := n.Underlying().(*types.Struct); ok {
			for i := 0; i < st.NumFields(); i++ {
				out[st.Field(i).Name()] = true
			}
		}
		return out
	}
	outF := fields(outT)
	for _, name := range fw.SortedKeys(fields(inT)) {
		ru.Check(outF[name], "option:"+name, "", "to_csv has option "+name, fmt.Sprintf("from_csv honours the option %s (with a non-empty default) but to_csv has no such option: what to_csv writes is read back differently (e.g. a row whose first field starts with the comment character is dropped)", name))
	}
	// field flow
	for _, f := range p.FqFunctions() {
		if pkgRel(f) != "format/csv" {
			continue
		}
		fw.EachInstr(f, func(ins ssa.Instruction) {
			st, ok := ins.(*ssa.Store)
			if !ok {
				return
			}
			fa, ok := st.Addr.(*ssa.FieldAddr)
			if !ok {
				return
			}
			pt, ok := fa.X.Type().Underlying().(*types.Pointer)
			if !ok {
				return
			}
			n, ok := pt.Elem().(*types.Named)
			if !ok || n.Obj().Pkg() == nil || n.Obj().Pkg().Path() != "encoding/csv" {
				return
			}
			fname := fieldNameOf(fa.X.Type(), fa.Field)
			if _, isConst := st.Val.(*ssa.Const); isConst {
				return
			}
			src := map[string]bool{}
			for d := range c14Deps(st.Val) {
				fa2, ok := d.(*ssa.FieldAddr)
				if !ok {
					continue
				}
				pt2, ok := fa2.X.Type().Underlying().(*types.Pointer)
				if !ok {
					continue
				}
				if types.Identical(pt2.Elem(), inT) || types.Identical(pt2.Elem(), outT) {
					src[fieldNameOf(fa2.X.Type(), fa2.Field)] = true
				}
			}
			key := fmt.Sprintf("%s|csv.%s.%s", fw.ShortFn(f), n.Obj().Name(), fname)
			ru.Check(len(src) == 1 && src[fname], key, p.Rel(st.Pos()), "set from option "+fname, fmt.Sprintf("csv.%s.%s is set from option field(s) %v", n.Obj().Name(), fname, fw.SortedKeys(src)))
		})
	}
}

// c14NodeFieldName: fa addresses a field of a struct declared in format/xml (the xml node).
func c14NodeFieldName(fa *ssa.FieldAddr) (string, bool) {
	pt, ok := fa.X.Type().Underlying().(*types.Pointer)
	if !ok {
		return "", false
	}
	n, ok := pt.Elem().(*types.Named)
	if !ok || n.Obj().Pkg() == nil || n.Obj().Pkg().Path() != fw.Mod+"/format/xml" {
		return "", false
	}
	return fieldNameOf(fa.X.Type(), fa.Field), true
}

// c14KeyFieldsFrom: node fields the value stored under constant key k is computed from.
func c14KeyFieldsFrom(f *ssa.Function, k string) []string {
	set := map[string]bool{}
	for _, g := range fw.WithClosures(f) {
		fw.EachInstr(g, func(ins ssa.Instruction) {
			mu, ok := ins.(*ssa.MapUpdate)
			if !ok {
				return
			}
			if s, ok := c14Str(mu.Key); !ok || s != k {
				return
			}
			// direct operands only (one level through conversions/calls), not the whole closure: the map itself depends on everything
			var walk func(v ssa.Value, depth int)
			walk = func(v ssa.Value, depth int) {
				if depth > 6 {
					return
				}
				switch x := v.(type) {
				case *ssa.FieldAddr:
					if n, ok := c14NodeFieldName(x); ok {
						set[n] = true
					}
					return
				case *ssa.Lookup, *ssa.MakeMap, *ssa.Phi, *ssa.Parameter, *ssa.FreeVar:
					return
				}
				if ins, ok := v.(ssa.Instruction); ok {
					for _, op := range ins.Operands(nil) {
						if op != nil && *op != nil {
							walk(*op, depth+1)
						}
					}
				}
			}
			walk(mu.Value, 0)
		})
	}
	return fw.SortedKeys(set)
}

// c14KeyFieldsTo: node fields stored in the arm selected by "key == k".
func c14KeyFieldsTo(f *ssa.Function, k string) []string {
	set := map[string]bool{}
	for _, g := range fw.WithClosures(f) {
		fw.EachInstr(g, func(ins ssa.Instruction) {
			ifi, ok := ins.(*ssa.If)
			if !ok {
				return
			}
			bo, ok := ifi.Cond.(*ssa.BinOp)
			if !ok || bo.Op != token.EQL {
				return
			}
			sx, okx := c14Str(bo.X)
			sy, oky := c14Str(bo.Y)
			if !((okx && sx == k) || (oky && sy == k)) {
				return
			}
			arm := ifi.Block().Succs[0]
			for _, b := range g.Blocks {
				if b != arm && !(len(arm.Preds) == 1 && arm.Dominates(b)) {
					continue
				}
				// stay inside the arm: stop at blocks that other arms also reach
				if b != arm && len(b.Preds) > 1 {
					continue
				}
				for _, i2 := range b.Instrs {
					if st, ok := i2.(*ssa.Store); ok {
						if fa, ok := st.Addr.(*ssa.FieldAddr); ok {
							if n, ok := c14NodeFieldName(fa); ok {
								set[n] = true
							}
						}
					}
				}
			}
		})
	}
	return fw.SortedKeys(set)
}

// ---------------------------------------------------------------------------
// C14.err (json): the EOF flag that backs the path-sensitive exception of decodeJSONEx

func c14JSONEOF(cx *c14Ctx, ru *fw.Rule) {
	p := cx.p
	root := c14DecodeRoot(p, "JSON")
	if root == nil {
		return
	}
	found := false
	for _, f := range c14Local(root) {
		for _, ci := range fw.CallsIn(f) {
			dec, ok := ci.(*ssa.Call)
			if !ok || c14Name(dec) != "(*encoding/json.Decoder).Decode" || dec.Referrers() == nil {
				continue
			}
			// errors.Is(err, io.EOF)
			var eofArm *ssa.BasicBlock
			for _, ref := range *dec.Referrers() {
				is, ok := ref.(*ssa.Call)
				if !ok || c14Name(is) != "errors.Is" || len(is.Call.Args) != 2 || is.Referrers() == nil {
					continue
				}
				if g := c14LoadedGlobal(is.Call.Args[1]); g == nil || g.Name() != "EOF" || g.Pkg.Pkg.Path() != "io" {
					continue
				}
				for _, r2 := range *is.Referrers() {
					if ifi, ok := r2.(*ssa.If); ok {
						eofArm = ifi.Block().Succs[0]
					}
				}
			}
			if eofArm == nil {
				continue
			}
			found = true
			key := "decode:json|eof-flag"
			// boolean phis that are true only below the EOF arm
			good := false
			fw.EachInstr(f, func(ins ssa.Instruction) {
				ph, ok := ins.(*ssa.Phi)
				if !ok {
					return
				}
				if b, ok := ph.Type().Underlying().(*types.Basic); !ok || b.Kind() != types.Bool {
					return
				}
				nTrue, nFalse, onlyEOF := 0, 0, true
				for i, e := range ph.Edges {
					v, isC := c14ConstInt(e)
					if !isC {
						onlyEOF = false
						continue
					}
					if v == 1 {
						nTrue++
						pred := ph.Block().Preds[i]
						if pred != eofArm && !eofArm.Dominates(pred) {
							onlyEOF = false
						}
					} else {
						nFalse++
					}
				}
				if nTrue == 0 || nFalse == 0 || !onlyEOF || ph.Referrers() == nil {
					return
				}
				for _, ref := range *ph.Referrers() {
					ifi, ok := ref.(*ssa.If)
					if !ok || fw.CurrentNR == nil {
						continue
					}
					if fw.CurrentNR.BlockFails(ifi.Block().Succs[1]) {
						good = true
					}
				}
			})
			ru.Check(good, key, p.Rel(dec.Pos()), "a flag set only on io.EOF is required for success", "no flag that is true only after errors.Is(err, io.EOF) guards the successful completion of "+fw.ShortFn(f)+": a syntax error after the first value (trailing garbage) would be accepted")
		}
	}
	if !found {
		ru.Undecided("decode:json|eof-flag", p.Rel(root.Pos()), "json.Decoder.Decode error is not matched against io.EOF")
	}
}

// c14NormRec: gojqx.NormalizeFn reaches every element: each loop contains a recursive call.
func c14NormRec(cx *c14Ctx, ru *fw.Rule) {
	p := cx.p
	f := p.Fn("internal/gojqx.NormalizeFn")
	if f == nil {
		ru.Undecided("NormalizeFn", "", "internal/gojqx.NormalizeFn not found")
		return
	}
	loops := c14Loops(f)
	if len(loops) == 0 {
		ru.Undecided("NormalizeFn", p.Rel(f.Pos()), "NormalizeFn has no loops over containers")
		return
	}
	for i, l := range loops {
		rec := false
		for b := range l.body {
			for _, ins := range b.Instrs {
				if c, ok := ins.(*ssa.Call); ok && c.Call.StaticCallee() == f {
					rec = true
				}
			}
		}
		ru.Check(rec, fmt.Sprintf("NormalizeFn|loop#%d", i+1), p.Rel(l.head.Instrs[0].Pos()), "elements are normalised recursively", "a container loop of gojqx.NormalizeFn does not call NormalizeFn on the element: nested values reach the serialiser / jq un-normalised")
		// a loop that builds its result with append starts from an empty slice: the result has exactly one
		// element per input element (make([]any, len(v)) followed by append doubles the length with nulls in front)
		for b := range l.body {
			for _, ins := range b.Instrs {
				c, ok := ins.(*ssa.Call)
				if !ok || !fw.IsBuiltinCall(c, "append") || len(c.Call.Args) == 0 {
					continue
				}
				ph, ok := c.Call.Args[0].(*ssa.Phi)
				if !ok {
					continue
				}
				empty := true
				for ei, e := range ph.Edges {
					if l.body[ph.Block().Preds[ei]] {
						continue // the back edge
					}
					switch x := e.(type) {
					case *ssa.Const:
						empty = empty && x.IsNil()
					case *ssa.MakeSlice:
						ln, isC := x.Len.(*ssa.Const)
						empty = empty && isC && ln.Value != nil && ln.Int64() == 0
					default:
						empty = false
					}
				}
				ru.Check(empty, fmt.Sprintf("NormalizeFn|loop#%d:append-from-empty", i+1), p.Rel(c.Pos()), "the appended-to result starts empty", "a container loop of gojqx.NormalizeFn appends the normalised elements to a slice that does not start empty (make([]any, len(v)) then append): the result has leading nulls and twice the length, e.g. for toml arrays of tables")
			}
		}
	}
}
