package rules

import (
	"go/token"

	"golang.org/x/tools/go/ssa"

	"fqverif/fw"
)

// ---------------------------------------------------------------------------
// Guards through failing arms that are shared (`if a || b { d.Fatalf(..) }`)
//
// fw.Guards recognises a failing arm only when it has a single predecessor. The usual range test
// `if v < 0 || v >= len(x) { d.Fatalf(...) }` lowers to two Ifs that share the failing block, and go/ssa
// lets control continue after the no-return call, so neither test is seen as a guard of what follows.
// c06Guards decides edge dominance on the control-flow graph with the out-edges of no-return blocks
// removed: the condition of If-block d holds at b when (1) every path from the entry to b passes d and
// (2) b cannot be reached from d's false successor without passing d again (symmetrically for "does not
// hold"). With (1) and (2) the last evaluation of the condition on any path to b took the true edge.

type c06CFGInfo struct {
	cut map[*ssa.BasicBlock]bool
}

var c06CFGCache = map[*ssa.Function]*c06CFGInfo{}
var c06GuardCache = map[*ssa.BasicBlock][]fw.Guard{}

func c06CFG(fn *ssa.Function) *c06CFGInfo {
	if ci := c06CFGCache[fn]; ci != nil {
		return ci
	}
	ci := &c06CFGInfo{cut: map[*ssa.BasicBlock]bool{}}
	if fw.CurrentNR != nil {
		for _, b := range fn.Blocks {
			if fw.CurrentNR.CutIndex(b) >= 0 {
				ci.cut[b] = true
			}
		}
	}
	c06CFGCache[fn] = ci
	return ci
}

// reach: is `to` reachable from `from` (a block or the start) without entering `avoid`?
func (ci *c06CFGInfo) reach(from, to, avoid *ssa.BasicBlock) bool {
	if from == avoid {
		return false
	}
	seen := map[*ssa.BasicBlock]bool{}
	stack := []*ssa.BasicBlock{from}
	for len(stack) > 0 {
		x := stack[len(stack)-1]
		stack = stack[:len(stack)-1]
		if seen[x] || x == avoid {
			continue
		}
		seen[x] = true
		if x == to {
			return true
		}
		if ci.cut[x] {
			continue
		}
		stack = append(stack, x.Succs...)
	}
	return false
}

// c06Guards returns the branch conditions known at the start of block b (superset of fw.Guards for
// functions whose failing arms are shared).
func c06Guards(b *ssa.BasicBlock) []fw.Guard {
	if g, ok := c06GuardCache[b]; ok {
		return g
	}
	out := fw.Guards(b)
	fn := b.Parent()
	ci := c06CFG(fn)
	if len(ci.cut) == 0 || len(fn.Blocks) > 4000 {
		c06GuardCache[b] = out
		return out
	}
	have := map[*ssa.If]bool{}
	for _, g := range out {
		have[g.If] = true
	}
	entry := fn.Blocks[0]
	if !ci.reach(entry, b, nil) {
		c06GuardCache[b] = out
		return out
	}
	// ancestors of b in the pruned graph
	anc := map[*ssa.BasicBlock]bool{}
	stack := []*ssa.BasicBlock{b}
	for len(stack) > 0 {
		x := stack[len(stack)-1]
		stack = stack[:len(stack)-1]
		for _, pr := range x.Preds {
			if ci.cut[pr] || anc[pr] {
				continue
			}
			anc[pr] = true
			stack = append(stack, pr)
		}
	}
	for _, d := range fn.Blocks {
		if !anc[d] || d == b || len(d.Succs) != 2 || d.Succs[0] == d.Succs[1] {
			continue
		}
		ifi, ok := d.Instrs[len(d.Instrs)-1].(*ssa.If)
		if !ok || have[ifi] {
			continue
		}
		if d != entry && ci.reach(entry, b, d) {
			continue // (1) fails: b reachable without d
		}
		viaT := ci.reach(d.Succs[0], b, d)
		viaF := ci.reach(d.Succs[1], b, d)
		switch {
		case viaT && !viaF:
			out = append(out, fw.Guard{Cond: ifi.Cond, True: true, If: ifi})
		case viaF && !viaT:
			out = append(out, fw.Guard{Cond: ifi.Cond, True: false, If: ifi})
		}
	}
	c06GuardCache[b] = out
	return out
}

// c06Facts: the integer comparison facts known at block b (fw.PolyEnv.Facts over c06Guards).
func c06Facts(e *fw.PolyEnv, b *ssa.BasicBlock) []fw.Cmp {
	var out []fw.Cmp
	for _, g := range c06Guards(b) {
		g = g.Normalize()
		c, ok := e.CmpOf(g.Cond)
		if !ok {
			continue
		}
		if !g.True {
			c.Rel = c.Rel.Negate()
		}
		out = append(out, c)
	}
	return out
}

// c06At: interval of v at block b refined by c06Facts.
func c06At(env *fw.IntervalEnv, v ssa.Value, b *ssa.BasicBlock) fw.Interval {
	r := env.At(v, b)
	pv := env.Poly.Of(v)
	for _, f := range c06Facts(env.Poly, b) {
		r = r.Meet(fw.BoundFromFact(f, pv))
	}
	return r
}

// c06ProvedNonNeg: env.ProvedNonNeg or proved by the extended facts.
func c06ProvedNonNeg(env *fw.IntervalEnv, v ssa.Value, b *ssa.BasicBlock) bool {
	if env.ProvedNonNegDeep(v, b) || c06At(env, v, b).NonNeg() {
		return true
	}
	return fw.ProvesFrom(c06Facts(env.Poly, b), fw.Cmp{P: env.Poly.Of(v), Rel: fw.GE})
}

// c06NewPolyEnv: a PolyEnv in which loads through pointers that have no access path (an element of a
// slice of structs, a range copy) are named by their structure (base register, field chain, constant
// indexes), so that two loads of the same field get the same atom (as fw does for access paths).
func c06NewPolyEnv(fn *ssa.Function) *fw.PolyEnv {
	env := fw.NewPolyEnv(fn)
	env.Subst = map[ssa.Value]*fw.Poly{}
	fw.EachInstr(fn, func(ins ssa.Instruction) {
		ld, ok := ins.(*ssa.UnOp)
		if !ok || ld.Op != token.MUL {
			return
		}
		if _, hasPath := fw.AccessPath(ld.X); hasPath {
			return
		}
		if sp, ok := c06StructPath(ld.X, 0); ok {
			env.Subst[ld] = fw.PAtom("@" + sp)
		}
	})
	return env
}

// c06StructPath names an address by base value and field / constant-index chain; ok only when at least
// one field or index step was taken.
func c06StructPath(v ssa.Value, depth int) (string, bool) {
	if depth > 6 {
		return "", false
	}
	switch x := v.(type) {
	case *ssa.FieldAddr:
		base, _ := c06StructBase(x.X, depth+1)
		if base == "" {
			return "", false
		}
		return base + "." + fieldNameOf(x.X.Type(), x.Field), true
	case *ssa.IndexAddr:
		c, ok := x.Index.(*ssa.Const)
		if !ok || c.Value == nil {
			return "", false
		}
		base, _ := c06StructBase(x.X, depth+1)
		if base == "" {
			return "", false
		}
		return base + "[" + c.Value.ExactString() + "]", true
	}
	return "", false
}

func c06StructBase(v ssa.Value, depth int) (string, bool) {
	if sp, ok := c06StructPath(v, depth); ok {
		return sp, true
	}
	switch x := v.(type) {
	case *ssa.UnOp:
		if x.Op == token.MUL {
			if sp, ok := c06StructPath(x.X, depth+1); ok {
				return "*" + sp, true
			}
		}
		return x.Name(), true
	case *ssa.Parameter, *ssa.FreeVar, *ssa.Global:
		return "", false // has an access path
	default:
		if v.Name() == "" {
			return "", false
		}
		return v.Name(), true
	}
}
