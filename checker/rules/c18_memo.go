package rules

import (
	"go/token"
	"go/types"

	"golang.org/x/tools/go/ssa"

	"fqverif/fw"
)

// Memo tables of the interpreter (map-typed fields of interp.Interp / interp.EvalInstance): lookups and
// stores, whether written inline or through a one-line getter / setter helper.

type c18MemoEvent struct {
	ins   ssa.Instruction
	field string // "pkg/interp.Interp.includeCache"
	key   ssa.Value
	val   ssa.Value // stored value (stores only)
	store bool
	base  ssa.Value // the pointer the owning object is reached through (inline accesses only)
}

type c18MemoHelper struct {
	field    string
	keyParam int
	valParam int // -1 for a getter
}

var c18MemoOwners = map[string]bool{"pkg/interp.Interp": true, "pkg/interp.EvalInstance": true}

// c18MemoField: m is the value of a map-typed field of a memo owner; returns "owner.field".
func c18MemoField(m ssa.Value) string {
	u, ok := m.(*ssa.UnOp)
	if !ok || u.Op != token.MUL {
		return ""
	}
	fa, ok := u.X.(*ssa.FieldAddr)
	if !ok {
		return ""
	}
	pt, ok := fa.X.Type().Underlying().(*types.Pointer)
	if !ok || !c18MemoOwners[shortType(pt.Elem())] {
		return ""
	}
	if _, isMap := u.Type().Underlying().(*types.Map); !isMap {
		return ""
	}
	return shortType(pt.Elem()) + "." + fieldNameOf(fa.X.Type(), fa.Field)
}

func c18ParamIndex(fn *ssa.Function, v ssa.Value) int {
	v = c18StripConv(v)
	for i, pa := range fn.Params {
		if ssa.Value(pa) == v {
			return i
		}
	}
	return -1
}

var c18MemoHelperCache map[*ssa.Function]c18MemoHelper
var c18MemoHelperFor *fw.Program

// c18MemoHelpers: functions of pkg/interp whose only memo access is one lookup / one store keyed (and valued)
// by their own parameters.
func c18MemoHelpers(p *fw.Program) map[*ssa.Function]c18MemoHelper {
	if c18MemoHelperFor == p {
		return c18MemoHelperCache
	}
	c18MemoHelperFor = p
	res := map[*ssa.Function]c18MemoHelper{}
	for _, fn := range p.FqFunctions() {
		if pkgRel(fn) != "pkg/interp" || fn.Parent() != nil {
			continue
		}
		var hs []c18MemoHelper
		other := false
		fw.EachInstr(fn, func(ins ssa.Instruction) {
			switch x := ins.(type) {
			case *ssa.Lookup:
				if f := c18MemoField(x.X); f != "" {
					if k := c18ParamIndex(fn, x.Index); k >= 0 {
						hs = append(hs, c18MemoHelper{f, k, -1})
					} else {
						other = true
					}
				}
			case *ssa.MapUpdate:
				if f := c18MemoField(x.Map); f != "" {
					k, v := c18ParamIndex(fn, x.Key), c18ParamIndex(fn, x.Value)
					if k >= 0 && v >= 0 {
						hs = append(hs, c18MemoHelper{f, k, v})
					} else {
						other = true
					}
				}
			}
		})
		if len(hs) == 1 && !other {
			res[fn] = hs[0]
		}
	}
	c18MemoHelperCache = res
	return res
}

// c18MemoEvents: memo lookups and stores performed by fn, inline or through helpers.
func c18MemoEvents(p *fw.Program, fn *ssa.Function) []c18MemoEvent {
	helpers := c18MemoHelpers(p)
	if _, isH := helpers[fn]; isH {
		return nil
	}
	var out []c18MemoEvent
	fw.EachInstr(fn, func(ins ssa.Instruction) {
		switch x := ins.(type) {
		case *ssa.Lookup:
			if f := c18MemoField(x.X); f != "" {
				out = append(out, c18MemoEvent{ins: ins, field: f, key: x.Index, base: c18MemoBase(x.X)})
			}
		case *ssa.MapUpdate:
			if f := c18MemoField(x.Map); f != "" {
				out = append(out, c18MemoEvent{ins: ins, field: f, key: x.Key, val: x.Value, store: true, base: c18MemoBase(x.Map)})
			}
		case ssa.CallInstruction:
			cal := x.Common().StaticCallee()
			if cal == nil {
				return
			}
			h, ok := helpers[cal]
			if !ok {
				return
			}
			args := x.Common().Args
			if h.keyParam >= len(args) || h.valParam >= len(args) {
				return
			}
			ev := c18MemoEvent{ins: ins, field: h.field, key: args[h.keyParam]}
			if h.valParam >= 0 {
				ev.store = true
				ev.val = args[h.valParam]
			}
			out = append(out, ev)
		}
	})
	return out
}

// c18MemoBase: the pointer at the bottom of the field chain the map value was loaded from.
func c18MemoBase(m ssa.Value) ssa.Value {
	u, ok := m.(*ssa.UnOp)
	if !ok {
		return nil
	}
	b, _ := c18BasePtr(u.X)
	return b
}
