package rules

import (
	"fmt"
	"go/token"
	"go/types"
	"sort"
	"strings"

	"golang.org/x/tools/go/ssa"

	"fqverif/fw"
)

// C05: tobytes/tobits of a value are exactly the input bits of its range.
//
// The rules decide the plumbing between a decode value and the bits that reach the user:
// which reader and which range a value is converted with (C05.prov, C05.rootbase, C05.range),
// how the left zero padding is computed and attached (C05.pad), that the raw output path copies
// that same reader (C05.raw), that every bits_format renderer encodes the whole reader with the
// codec its label names and keeps no state between values (C05.fmt), the small helpers in
// internal/bitiox the above rest on (C05.bitiox) and the jq definitions that select unit,
// keep_range, padding and raw output (C05.jq). Bit-exactness of the readers themselves is C01.

func init() { Register("C05", runC05) }

func runC05(r *fw.Run, p *fw.Program) {
	formB := c05Prov(r, p)
	c05Range(r, p)
	c05RootBase(r, p, formB)
	c05Pad(r, p)
	c05Bitiox(r, p)
	c05Raw(r, p)
	c05Fmt(r, p)
	c05JQ(r, p)
	// the emitted bits travel through IOBitReadSeeker.ReadBitsAt (file/stdin/nested buffers), bitio.Buffer (the
	// fifo inside the byte view every renderer and raw output read from) and, for arrays of values, through
	// toBitReaderEx's concatenation (borrowed from C01.fetch, C01.bufstate, C09.accept)
	{
		sc := r.Scratch()
		c01Fetch(sc, p)
		c01BufState(sc, p)
		c09Accept(sc, p)
		r.Import(sc, "C01.fetch", "C05.transport", "the bits of a range reach the output unchanged: IOBitReadSeeker.ReadBitsAt moves every fetched byte to its place (C01.fetch); bitio.Buffer, the fifo inside the byte view, makes room for exactly the bits it holds and never relocates them other than by the decided reset (C01.bufstate); an array of values is the concatenation of one reader per member, in order, each member read from its own reader and range (C09.accept)", 12, nil)
		r.Import(sc, "C01.bufstate", "C05.transport", "", 12, nil)
		r.Import(sc, "C09.accept", "C05.transport", "", 12, nil)
		// the bytes of a file reach the bit reader through the read-ahead cache and the position-independent ReadBitsAt
		c01Ahead(sc, p)
		c01ReadAt(sc, p)
		r.Import(sc, "C01.ahead", "C05.transport", "", 12, nil)
		r.Import(sc, "C01.readat", "C05.transport", "", 12, nil)
		// the byte view bitiox.CopyBits reads from hands out bytes only from its carry buffer, in order
		c01Bytes(sc, p)
		r.Import(sc, "C01.bytes", "C05.transport", "", 12, nil)
	}
	// the bytes a value denotes are RootReader[Range]: decode() must rebase ranges AND retarget the reader of every
	// value of a nested format to the enclosing buffer (borrowed from C03.rebase)
	{
		sc := r.Scratch()
		runC03(sc, p)
		r.Import(sc, "C03.rebase", "C05.rebase", "decode(): every value decoded through a sub-reader window gets its range rebased and its RootReader set to the enclosing reader unconditionally, so Range and RootReader always refer to the same buffer (C03.rebase obligations except the recorded nested-roots finding)", 5,
			func(k string) bool { return k != "decode:nested-roots-rebased" })
		// the Range a compound is converted with is the span of its own buffer's children: postProcess folds
		// exactly the non-root, non-synthetic children (a nested root's Range is a position in ANOTHER buffer),
		// nested compound roots are marked IsRoot before their fields are added and are post-processed even
		// when the callback fails, and MinMax/Stop are the span arithmetic (borrowed from C03.post/sub/minmax)
		const spanDesc = "the Range a compound value is converted with is the span of the fields of its own buffer: postProcess folds every child except roots of other buffers and synthetic values with ranges.MinMax = {min start, max stop - min start}; nested compound roots are marked IsRoot before their fields are decoded and get their range from a deferred postProcess"
		r.Import(sc, "C03.post", "C05.span", spanDesc, 8, func(k string) bool {
			switch k {
			case "postProcess:walk-post-order-one-root", "postProcess:fold-shape", "postProcess:first-child-only", "postProcess:every-child-counted", "postProcess:other-buffer-excluded":
				return true
			}
			return false
		})
		r.Import(sc, "C03.sub", "C05.span", spanDesc, 8, func(k string) bool {
			return strings.HasSuffix(k, ":root-before-fn") || strings.HasSuffix(k, ":postprocess-deferred")
		})
		r.Import(sc, "C03.minmax", "C05.span", spanDesc, 8, nil)
	}
	// the root value yields the WHOLE input: its Range spans the decoded range only because gap fields are added
	// over {0, decodeRange.Len} on every path of decode() that returns a value (borrowed from C04.path)
	{
		sc := r.Scratch()
		runC04(sc, p)
		r.Import(sc, "C04.path", "C05.cover", "decode(): with FillGaps (every root) each path returning a value has run d.FillGaps over {0, decodeRange.Len} of the returned decoder before the ranges are rebased, so the root's Range — what tobytes of the root reads — covers every bit it was given (C04.path obligations)", 10, nil)
	}
	// the padded reader Binary.toReader hands to every consumer is NewMultiReader(zero pad, section): the pad bits are
	// zero only if the zero reader clears every byte it reports (including the trailing partial one — the copy buffer is
	// reused between the parts of a concatenation), reports min(n, left) bits and its end at nBits; MultiReader places
	// the data right after the pad; BitsByteCount is the byte count of a bit count (borrowed from C01)
	{
		sc := r.Scratch()
		runC01(sc, p)
		const d = "readers composed by Binary.toReader/bitiox.Range (C01 obligations): ZeroReadAtSeeker.ReadBitsAt returns min(nBits, left) bits for offsets inside the pad and zero-fills BitsByteCount(count) bytes of the caller's buffer (no stale bits in the trailing partial byte); its SeekBits/constructor/clone keep nBits; Section/Limit/Multi readers clamp count and offset to their window; MultiReader.readerEnds is the running sum of its parts and reads part i at bitOff - end(i-1); BitsByteCount(n) = ceil(n/8)"
		zero := func(k string) bool { return strings.Contains(k, "Zero") }
		r.Import(sc, "C01.clamp", "C05.padreader", d, 30, nil)
		r.Import(sc, "C01.multi", "C05.padreader", d, 30, nil)
		r.Import(sc, "C01.count", "C05.padreader", d, 30, nil)
		r.Import(sc, "C01.seek", "C05.padreader", d, 30, zero)
		r.Import(sc, "C01.ctor", "C05.padreader", d, 30, zero)
		r.Import(sc, "C01.clone", "C05.padreader", d, 30, zero)
	}
	r.Assumption("C05: bit-exactness of bitio.SectionReader/MultiReader/IOReader/LimitReader is decided under C01; Value.Range being the range the decoder actually read is C03/C04")
}

// ---------------------------------------------------------------------------
// small helpers

const (
	c05InnerRange = "(*pkg/decode.Value).InnerRange"
	c05BitioxRng  = "internal/bitiox.Range"
)

func c05Anchor(ru *fw.Rule, p *fw.Program, name string) *ssa.Function {
	f := p.Fn(name)
	if f == nil || f.Blocks == nil {
		ru.Undecided("anchor:"+name, "", "anchored function "+name+" not found (renamed or removed): update the rule's anchor")
		return nil
	}
	return f
}

// c05FieldsEq compares a flat field map with the expected one, ignoring zero-valued entries.
func c05FieldsEq(got, want map[string]string) (bool, string) {
	var diffs []string
	for k, w := range want {
		if got[k] != w {
			diffs = append(diffs, fmt.Sprintf("%s is %q, expected %q", k, got[k], w))
		}
	}
	for k, g := range got {
		if _, ok := want[k]; !ok && !fw.IsZeroDesc(g) {
			diffs = append(diffs, fmt.Sprintf("unexpected %s=%q", k, g))
		}
	}
	sort.Strings(diffs)
	return len(diffs) == 0, strings.Join(diffs, "; ")
}

// c05Branch returns, for every If in fn whose condition is v (possibly negated), the successor
// taken when v has truth value val.
func c05Branch(fn *ssa.Function, v ssa.Value, val bool) []*ssa.BasicBlock {
	var out []*ssa.BasicBlock
	for _, b := range fn.Blocks {
		ifi, ok := b.Instrs[len(b.Instrs)-1].(*ssa.If)
		if !ok {
			continue
		}
		g := fw.Guard{Cond: ifi.Cond, True: true}.Normalize()
		if g.Cond != v {
			continue
		}
		// g.True==true: cond true <=> v true
		takeTrue := val == g.True
		if takeTrue {
			out = append(out, b.Succs[0])
		} else {
			out = append(out, b.Succs[1])
		}
	}
	return out
}

// c05GuardDescs returns the dominating branch facts at block b as "desc=true|false".
func c05GuardDescs(e *fw.SymEnv, b *ssa.BasicBlock) map[string]bool {
	out := map[string]bool{}
	for _, g := range fw.Guards(b) {
		g = g.Normalize()
		out[e.Of(g.Cond)] = g.True
	}
	return out
}

func c05Returns(fn *ssa.Function) []*ssa.Return {
	var out []*ssa.Return
	fw.EachInstr(fn, func(i ssa.Instruction) {
		if r, ok := i.(*ssa.Return); ok {
			out = append(out, r)
		}
	})
	return out
}

func c05IsNamed(t types.Type, pkgRelPath, name string) bool {
	if p, ok := t.(*types.Pointer); ok {
		t = p.Elem()
	}
	n, ok := t.(*types.Named)
	if !ok || n.Obj().Pkg() == nil {
		return false
	}
	return n.Obj().Name() == name && n.Obj().Pkg().Path() == fw.Mod+"/"+pkgRelPath
}

// c05FieldAddr reports whether addr is &X.field of the named struct and returns X.
func c05FieldAddr(addr ssa.Value, pkgRelPath, typ, field string) (ssa.Value, bool) {
	fa, ok := addr.(*ssa.FieldAddr)
	if !ok {
		return nil, false
	}
	pt, ok := fa.X.Type().Underlying().(*types.Pointer)
	if !ok || !c05IsNamed(pt.Elem(), pkgRelPath, typ) {
		return nil, false
	}
	st, ok := pt.Elem().Underlying().(*types.Struct)
	if !ok || fa.Field >= st.NumFields() || st.Field(fa.Field).Name() != field {
		return nil, false
	}
	return fa.X, true
}

func c05PkgFns(p *fw.Program, rel string) []*ssa.Function {
	var out []*ssa.Function
	for _, fn := range p.FqFunctions() {
		if pkgRel(fn) == rel {
			out = append(out, fn)
		}
	}
	return out
}

// ---------------------------------------------------------------------------
// C05.prov

// c05Prov returns whether InnerRange distinguishes parentless roots ("form B").
func c05Prov(r *fw.Run, p *fw.Program) (formB bool) {
	ru := r.Rule("C05.prov", "a decode value becomes Binary{br: dv.RootReader, r: dv.InnerRange(), unit: 8} (never dv.Range, no alternative arm), synthetic values are rejected; InnerRange is {0,Range.Len} exactly for nested roots and Range otherwise; every Binary built over a value's RootReader uses that value's InnerRange; files and plain values enter through NewBinaryFromBitReader(br,8,0); _decode decodes toBinary's reader and range as a gap-filled root; the keys ._bits/._bytes are that binary with unit 1/8, no padding, never for a synthetic value", 16)

	// (1) decodeValueBase.ToBinary
	if fn := c05Anchor(ru, p, "(pkg/interp.decodeValueBase).ToBinary"); fn != nil {
		e := fw.NewSymEnv(fn)
		var okBlocks []*ssa.BasicBlock
		n := 0
		for _, ret := range c05Returns(fn) {
			if len(ret.Results) != 2 {
				ru.Undecided("ToBinary:signature", p.Rel(ret.Pos()), "ToBinary no longer returns (Binary, error)")
				continue
			}
			if e.Of(ret.Results[1]) != "nil" {
				continue
			}
			n++
			okBlocks = append(okBlocks, ret.Block())
			key := fmt.Sprintf("ToBinary:ok-return#%d", n)
			fields, base, ok := e.Fields(ret.Results[0])
			if !ok || base != "" {
				ru.Fail(key, p.Rel(ret.Pos()), "success return is not a Binary literal built from the value: "+e.Of(ret.Results[0]))
				continue
			}
			eq, diff := c05FieldsEq(fields, map[string]string{
				"br":   "P0.dv->RootReader",
				"r":    c05InnerRange + "(P0.dv)",
				"unit": "8",
			})
			ru.Check(eq, key, p.Rel(ret.Pos()), "Binary{br: dv.RootReader, r: dv.InnerRange(), unit: 8}",
				"decode value is converted with the wrong reader/range/unit: "+diff)
		}
		if n == 0 {
			ru.Fail("ToBinary:ok-return", p.Rel(fn.Pos()), "ToBinary has no success return")
		}
		// synthetic guard
		found := false
		for _, c := range c05SynTests(fn, e, "P0.dv") {
			found = true
			leak := false
			for _, s := range c05Branch(fn, c, true) {
				for _, ob := range okBlocks {
					if fw.BlockReaches(s, ob) {
						leak = true
					}
				}
			}
			if len(c05Branch(fn, c, true)) == 0 {
				leak = true
			}
			ru.Check(!leak, "ToBinary:synthetic", p.Rel(c.Pos()), "a synthetic value never reaches the success return",
				"a synthetic value (no bits of its own) reaches the success return of ToBinary")
		}
		if !found {
			ru.Fail("ToBinary:synthetic", p.Rel(fn.Pos()), "ToBinary no longer tests ScalarFlags().IsSynthetic() of the value (inline or through a helper that is true exactly for synthetic scalars)")
		}
	}

	// (2) every Binary literal over a decode value's RootReader uses InnerRange of the same value
	n := 0
	for _, top := range c05PkgFns(p, "pkg/interp") {
		fn := top
		e := fw.NewSymEnv(fn)
		fw.EachInstr(fn, func(ins ssa.Instruction) {
			st, ok := ins.(*ssa.Store)
			if !ok {
				return
			}
			bx, ok := c05FieldAddr(st.Addr, "pkg/interp", "Binary", "br")
			if !ok {
				return
			}
			ld, ok := fw.StripConv(st.Val).(*ssa.UnOp)
			if !ok || ld.Op != token.MUL {
				return
			}
			dv, ok := c05FieldAddr(ld.X, "pkg/decode", "Value", "RootReader")
			if !ok {
				return
			}
			n++
			fields, _, fok := e.Fields(bx)
			key := "binary-of-value:" + fw.ShortFn(fn) + "#unit=" + fields["unit"]
			if !fok {
				ru.Undecided(key, p.Rel(st.Pos()), "Binary over a value's RootReader is not assembled in a local literal")
				return
			}
			want := c05InnerRange + "(" + e.Of(dv) + ")"
			ru.Check(fields["r"] == want, key, p.Rel(st.Pos()), "range is InnerRange() of the value whose RootReader is used",
				"Binary over "+e.Of(dv)+".RootReader uses range "+fields["r"]+" instead of "+want+
					": for a nested root Range.Start is a position in the parent buffer, not in RootReader")
			if fw.ShortFn(fn) == "(pkg/interp.decodeValueBase).JQValueKey" {
				c05ValueKey(ru, p, fn, e, st, fields)
			}
		})
	}
	if n == 0 {
		ru.Undecided("binary-of-value", "", "no Binary literal over decode.Value.RootReader found in pkg/interp")
	}

	// (3) InnerRange
	if fn := c05Anchor(ru, p, c05InnerRange); fn != nil {
		e := fw.NewSymEnv(fn)
		paths, ok := fw.EnumRetPaths(fn, 16)
		if !ok || len(paths) == 0 {
			ru.Undecided("InnerRange:shape", p.Rel(fn.Pos()), "InnerRange is no longer a small acyclic function")
		} else {
			type cls struct {
				isRoot, hasRoot, hasParent, parentNonNil, other bool
			}
			classify := func(pt fw.RetPath) cls {
				var c cls
				for _, pc := range pt.Conds {
					g := fw.Guard{Cond: pc.Cond, True: pc.True}.Normalize()
					switch e.Of(g.Cond) {
					case "P0->IsRoot":
						c.hasRoot, c.isRoot = true, g.True
					case "(P0->Parent != nil)":
						c.hasParent, c.parentNonNil = true, g.True
					case "(P0->Parent == nil)":
						c.hasParent, c.parentNonNil = true, !g.True
					default:
						c.other = true
					}
				}
				return c
			}
			for _, pt := range paths {
				if classify(pt).hasParent {
					formB = true
				}
			}
			cnt := map[string]int{}
			for _, pt := range paths {
				c := classify(pt)
				pos := p.Rel(pt.Ret.Pos())
				if c.other || len(pt.Ret.Results) != 1 {
					ru.Undecided("InnerRange:shape", pos, "InnerRange branches on something other than IsRoot / Parent")
					continue
				}
				nestedRoot := c.hasRoot && c.isRoot && (!c.hasParent || c.parentNonNil)
				got := e.Of(pt.Ret.Results[0])
				if nestedRoot {
					cnt["root"]++
					key := fmt.Sprintf("InnerRange:root#%d", cnt["root"])
					fields, base, fok := e.Fields(pt.Ret.Results[0])
					eq, diff := false, "result is "+got
					if fok && base == "" {
						eq, diff = c05FieldsEq(fields, map[string]string{"Len": "P0->Range.Len"})
					}
					ru.Check(eq, key, pos, "root: {Start: 0, Len: Range.Len}", "for a root value InnerRange must be {0, Range.Len} (Range.Start is the position in the parent buffer): "+diff)
				} else {
					cnt["plain"]++
					key := fmt.Sprintf("InnerRange:non-root#%d", cnt["plain"])
					ru.Check(got == "P0->Range", key, pos, "non-root: Range", "for a non-root value InnerRange must be Range itself, got "+got)
				}
			}
			if cnt["root"] == 0 || cnt["plain"] == 0 {
				ru.Fail("InnerRange:cases", p.Rel(fn.Pos()), "InnerRange no longer distinguishes root and non-root values")
			}
		}
	}

	// (4) entry points for non-decode values
	if fn := c05Anchor(ru, p, "(*pkg/interp.openFile).ToBinary"); fn != nil {
		e := fw.NewSymEnv(fn)
		cs := fw.CallsTo(fn, "pkg/interp.NewBinaryFromBitReader")
		good := len(cs) == 1 && e.Of(cs[0]) == "pkg/interp.NewBinaryFromBitReader(P0->Binary.br,8,0)"
		d := ""
		if len(cs) > 0 {
			d = e.Of(cs[0])
		}
		ru.Check(good, "openFile.ToBinary", p.Rel(fn.Pos()), "whole file, unit 8, no padding", "an opened file must convert as NewBinaryFromBitReader(of.br, 8, 0), got "+d)
	}
	if fn := c05Anchor(ru, p, "pkg/interp.toBinary"); fn != nil {
		e := fw.NewSymEnv(fn)
		cs := fw.CallsTo(fn, "pkg/interp.NewBinaryFromBitReader")
		good := len(cs) == 1 && e.Of(cs[0]) == "pkg/interp.NewBinaryFromBitReader(pkg/interp.ToBitReader(P0)#0,8,0)"
		d := ""
		if len(cs) > 0 {
			d = e.Of(cs[0])
		}
		ru.Check(good, "toBinary:plain", p.Rel(fn.Pos()), "plain values: whole bit reader, unit 8, no padding", "toBinary must wrap ToBitReader(v) as NewBinaryFromBitReader(br, 8, 0), got "+d)
		inv := false
		for _, c := range fw.CallsIn(fn) {
			if c.Common().IsInvoke() && c.Common().Method.Name() == "ToBinary" {
				inv = true
			}
		}
		ru.Check(inv, "toBinary:ToBinary", p.Rel(fn.Pos()), "values implementing ToBinary convert themselves", "toBinary no longer dispatches to the value's own ToBinary()")
	}
	if fn := c05Anchor(ru, p, "(*pkg/interp.Interp)._decode"); fn != nil {
		e := fw.NewSymEnv(fn)
		cs := fw.CallsTo(fn, "pkg/decode.Decode")
		if len(cs) != 1 || len(cs[0].Call.Args) != 4 {
			ru.Undecided("_decode:call", p.Rel(fn.Pos()), "_decode does not call decode.Decode exactly once")
		} else {
			c := cs[0]
			ru.Check(e.Of(c.Call.Args[1]) == "pkg/interp.toBinary(P1)#0.br", "_decode:reader", p.Rel(c.Pos()), "decodes the input binary's reader",
				"_decode must decode toBinary(c).br, got "+e.Of(c.Call.Args[1]))
			fields, base, ok := e.Fields(c.Call.Args[3])
			if !ok || base != "" {
				ru.Undecided("_decode:options", p.Rel(c.Pos()), "decode.Options is not a literal")
			} else {
				good := fields["Range"] == "pkg/interp.toBinary(P1)#0.r" && fields["IsRoot"] == "true" && fields["FillGaps"] == "true"
				ru.Check(good, "_decode:options", p.Rel(c.Pos()), "Range: bv.r, IsRoot, FillGaps",
					fmt.Sprintf("_decode must decode exactly the input binary's range as a gap-filled root (Range=%q IsRoot=%q FillGaps=%q)", fields["Range"], fields["IsRoot"], fields["FillGaps"]))
			}
		}
	}
	return formB
}

// ---------------------------------------------------------------------------
// C05.range

func c05Range(r *fw.Run, p *fw.Program) {
	ru := r.Rule("C05.range", "every bitiox.Range over a Binary's reader in pkg/interp is sliced at (R.Start, R.Len) of one range R, and R is that Binary's own r (the parameter in toBytesBuffer, whose string/number callers pass b.r)", 6)
	for _, fn := range c05PkgFns(p, "pkg/interp") {
		e := fw.NewSymEnv(fn)
		k := 0
		for _, c := range fw.CallsTo(fn, c05BitioxRng) {
			if len(c.Call.Args) != 3 {
				continue
			}
			a0 := fw.StripConv(c.Call.Args[0])
			isBinBr := false
			switch x := a0.(type) {
			case *ssa.UnOp:
				if x.Op == token.MUL {
					_, isBinBr = c05FieldAddr(x.X, "pkg/interp", "Binary", "br")
				}
			case *ssa.Field:
				if c05IsNamed(x.X.Type(), "pkg/interp", "Binary") && fieldNameOf(x.X.Type(), x.Field) == "br" {
					isBinBr = true
				}
			}
			if !isBinBr {
				continue
			}
			k++
			key := fmt.Sprintf("section:%s#%d", fw.ShortFn(fn), k)
			d0, d1, d2 := e.Of(c.Call.Args[0]), e.Of(c.Call.Args[1]), e.Of(c.Call.Args[2])
			b := strings.TrimSuffix(d0, ".br")
			b = strings.TrimSuffix(b, "->br")
			rng := strings.TrimSuffix(d1, ".Start")
			good := d1 == rng+".Start" && d2 == rng+".Len" && rng != d1
			if good {
				own := rng == b+".r" || rng == b+"->r"
				param := fn.Name() == "toBytesBuffer" && rng == "P1"
				good = own || param
			}
			ru.Check(good, key, p.Rel(c.Pos()), "Range(b.br, r.Start, r.Len)",
				fmt.Sprintf("reader %s is sliced at (%s, %s): start and length must be Start and Len of the binary's own range", d0, d1, d2))
		}
		// callers of toBytesBuffer that render the whole binary
		if fn.Name() == "JQValueToGoJQ" || fn.Name() == "JQValueToNumber" {
			for _, c := range fw.CallsTo(fn, "(pkg/interp.Binary).toBytesBuffer") {
				if len(c.Call.Args) != 2 || e.Of(c.Call.Args[0]) != "P0" {
					continue
				}
				ru.Check(e.Of(c.Call.Args[1]) == "P0.r", "whole:"+fw.ShortFn(fn), p.Rel(c.Pos()), "toBytesBuffer(b.r)",
					"the whole binary must be read at its own range b.r, got "+e.Of(c.Call.Args[1]))
			}
		}
	}
}

// ---------------------------------------------------------------------------
// C05.rootbase

func c05RootBase(r *fw.Run, p *fw.Program, formB bool) {
	ru := r.Rule("C05.rootbase", "RootReader/Range base agreement: decode() rebases every value by decodeRange.Start and points it at the unsliced reader; a root decoded with IsRoot (whose Start InnerRange drops) is decoded from offset 0 of its own reader; nested-root constructors store the nested reader; sub-formats decode d.bitBuf; every other Value.RootReader store is d.bitBuf; the walk's stores are unconditional; a raw nested root has exactly the length of its reader; a caller of decode() only places Range.Start of a nested root and keeps Range.Len/RootReader; AddChild gives every value its Parent (InnerRange tells nested from top-level roots by it); every value handed to AddChild already has its RootReader (stored inline or by a stamping helper, or it comes from decode()/fieldDecoder) because the walk does not descend into nested roots", 44)

	dec := c05Anchor(ru, p, "pkg/decode.decode")
	decW := c05Anchor(ru, p, "pkg/decode.Decode")
	if decW != nil {
		e := fw.NewSymEnv(decW)
		cs := fw.CallsTo(decW, "pkg/decode.decode")
		ru.Check(len(cs) == 1 && e.Of(cs[0]) == "pkg/decode.decode(P0,P1,P2,P3)", "Decode:passthrough", p.Rel(decW.Pos()),
			"Decode forwards its arguments unchanged", "decode.Decode no longer forwards (ctx, br, group, opts) unchanged to decode")
	}

	// (a) every call of decode/Decode: IsRoot vs Range, and which reader
	for _, fn := range p.FqFunctions() {
		if fn == decW {
			continue
		}
		e := fw.NewSymEnv(fn)
		k := 0
		for _, c := range fw.CallsIn(fn) {
			callee := c.Common().StaticCallee()
			if callee == nil || (callee != dec && callee != decW) || len(c.Common().Args) != 4 {
				continue
			}
			k++
			key := fmt.Sprintf("decode-call:%s#%d", fw.ShortFn(fn), k)
			fields, base, ok := e.Fields(c.Common().Args[3])
			if !ok || base != "" {
				ru.Undecided(key, p.Rel(c.Pos()), "decode.Options argument is not a literal; cannot tell whether a root is decoded from a sub-range")
				continue
			}
			isRoot := fields["IsRoot"]
			hasRange := false
			for f, d := range fields {
				if (f == "Range" || strings.HasPrefix(f, "Range.")) && !fw.IsZeroDesc(d) {
					hasRange = true
				}
			}
			switch {
			case isRoot == "true":
				if formB && pkgRel(fn) != "pkg/decode" {
					// decoded outside a decoder: the root has no parent and InnerRange keeps its Range
					ru.Ok(key, p.Rel(c.Pos()), "parentless root; InnerRange keeps the Range of parentless roots")
				} else {
					ru.Check(!hasRange, key, p.Rel(c.Pos()), "root decoded from offset 0 of its reader",
						"a root (IsRoot: true) is decoded from a sub-range ("+fields["Range"]+fields["Range.Start"]+") of its reader: decode() leaves RootReader unsliced and Range.Start = sub-range start, but InnerRange() drops Range.Start for every root, so tobytes/tobits of this root read the reader from bit 0")
				}
			case fw.IsZeroDesc(isRoot):
				ru.Ok(key, p.Rel(c.Pos()), "not a root")
			default:
				ru.Undecided(key, p.Rel(c.Pos()), "IsRoot is not a constant: "+isRoot)
			}
			if pkgRel(fn) == "pkg/decode" {
				rd := e.Of(c.Common().Args[1])
				key2 := fmt.Sprintf("decode-call-reader:%s#%d", fw.ShortFn(fn), k)
				if isRoot == "true" {
					ru.Check(strings.HasPrefix(rd, "P") && !strings.Contains(rd, "->"), key2, p.Rel(c.Pos()), "nested root decodes the nested reader it was given",
						"a nested root must be decoded from the nested reader parameter, got "+rd)
				} else {
					ru.Check(rd == "P0->bitBuf", key2, p.Rel(c.Pos()), "sub-format decodes d.bitBuf",
						"a sub-format in the same buffer must be decoded from d.bitBuf (its values' RootReader), got "+rd)
				}
				c05DecodeResultStores(ru, p, fn, e, c, isRoot == "true", fmt.Sprintf("decode-result:%s#%d", fw.ShortFn(fn), k))
			}
		}
	}

	// (b) tail of decode()
	if dec != nil {
		c05DecodeTail(ru, p, dec)
	}
	c05AddChildParent(ru, p, formB)
	c05LinkedHaveReader(ru, p, dec, decW)

	// (c)+(d) stores to Value.IsRoot / Value.RootReader in pkg/decode
	for _, fn := range c05PkgFns(p, "pkg/decode") {
		e := fw.NewSymEnv(fn)
		// does fn store a parameter into D.bitBuf?
		bitBufParams := map[string]bool{}
		rootVals := map[ssa.Value]bool{}
		fw.EachInstr(fn, func(ins ssa.Instruction) {
			st, ok := ins.(*ssa.Store)
			if !ok {
				return
			}
			if _, ok := c05FieldAddr(st.Addr, "pkg/decode", "D", "bitBuf"); ok {
				bitBufParams[e.Of(st.Val)] = true
			}
			if x, ok := c05FieldAddr(st.Addr, "pkg/decode", "Value", "IsRoot"); ok && e.Of(st.Val) == "true" {
				rootVals[x] = true
			}
		})
		nr, ni := 0, 0
		fw.EachInstr(fn, func(ins ssa.Instruction) {
			st, ok := ins.(*ssa.Store)
			if !ok {
				return
			}
			if x, ok := c05FieldAddr(st.Addr, "pkg/decode", "Value", "RootReader"); ok {
				nr++
				key := fmt.Sprintf("rootreader-store:%s#%d", fw.ShortFn(fn), nr)
				d := e.Of(st.Val)
				isParam := strings.HasPrefix(d, "P") && !strings.ContainsAny(d, "->.(")
				switch {
				case d == "P0->bitBuf":
					ru.Ok(key, p.Rel(st.Pos()), "RootReader = d.bitBuf")
				case isParam && (bitBufParams[d] || rootVals[x]):
					ru.Ok(key, p.Rel(st.Pos()), "RootReader = the reader the new decoder / nested root is built over")
				case fn.Parent() != nil && fw.Top(fn) == p.Fn("pkg/decode.decode"):
					// checked by decode:walk-rootreader
				case isParam && c05CallersPassReader(p, fn, st.Val):
					ru.Ok(key, p.Rel(st.Pos()), "RootReader = reader parameter of a helper whose callers pass d.bitBuf or their own reader parameter")
				default:
					ru.Fail(key, p.Rel(st.Pos()), "Value.RootReader is set to "+d+": it must be the buffer the value's Range refers to (d.bitBuf, or the nested reader of a new root)")
				}
			}
			if x, ok := c05FieldAddr(st.Addr, "pkg/decode", "Value", "IsRoot"); ok {
				d := e.Of(st.Val)
				if d == "false" {
					return
				}
				ni++
				key := fmt.Sprintf("nested-root:%s#%d", fw.ShortFn(fn), ni)
				if d != "true" {
					// newDecoder: IsRoot: opts.IsRoot
					fields, _, fok := e.Fields(x)
					good := fok && fn.Name() == "newDecoder" && d == "P3.IsRoot" && fields["RootReader"] == "P2" && bitBufParams["P2"]
					ru.Check(good, key, p.Rel(st.Pos()), "newDecoder: IsRoot from options, RootReader = bitBuf = br",
						"IsRoot is set from "+d+" on a value whose RootReader is "+fields["RootReader"])
					return
				}
				switch xv := x.(type) {
				case *ssa.Alloc:
					fields, _, fok := e.Fields(xv)
					rd := fields["RootReader"]
					ln := fields["Range.Len"]
					if ln == "" && strings.Contains(fields["Range"], "Len:") {
						ln = fields["Range"]
					}
					wantLen := "internal/bitiox.Len(" + rd + ")#0"
					lenOK := ln == wantLen || strings.Contains(ln, "Len:"+wantLen+",") || strings.Contains(ln, "Len:"+wantLen+"}")
					good := fok && strings.HasPrefix(rd, "P") && !strings.ContainsAny(rd, "->.(") && lenOK
					ru.Check(good, key, p.Rel(st.Pos()), "raw nested root: RootReader = br, Range.Len = Len(br)",
						"a nested root must carry its own reader and that reader's length (RootReader="+rd+", Range="+fields["Range"]+ln+")")
				default:
					d := e.Of(x)
					good := strings.HasPrefix(d, "(*pkg/decode.D).fieldDecoder(P0,P1,P2,") && strings.HasSuffix(d, ")->Value")
					ru.Check(good, key, p.Rel(st.Pos()), "compound nested root: decoder built over the nested reader parameter",
						"IsRoot set on "+d+": expected the value of fieldDecoder(name, br, ...) built over the nested reader parameter")
				}
			}
		})
	}
	if fn := c05Anchor(ru, p, "(*pkg/decode.D).fieldDecoder"); fn != nil {
		e := fw.NewSymEnv(fn)
		good := false
		d := ""
		for _, ret := range c05Returns(fn) {
			if len(ret.Results) != 1 {
				continue
			}
			df, _, ok := e.Fields(ret.Results[0])
			if !ok {
				continue
			}
			var val *ssa.Alloc
			fw.EachInstr(fn, func(ins ssa.Instruction) {
				if st, ok := ins.(*ssa.Store); ok {
					if _, ok := c05FieldAddr(st.Addr, "pkg/decode", "D", "Value"); ok {
						val, _ = st.Val.(*ssa.Alloc)
					}
				}
			})
			if val == nil {
				continue
			}
			vf, _, ok := e.Fields(val)
			d = fmt.Sprintf("D.bitBuf=%s Value.RootReader=%s", df["bitBuf"], vf["RootReader"])
			good = ok && df["bitBuf"] == "P2" && vf["RootReader"] == "P2"
		}
		ru.Check(good, "fieldDecoder", p.Rel(fn.Pos()), "field decoder reads and roots its value in the same reader parameter",
			"fieldDecoder must use its reader parameter both as D.bitBuf and as Value.RootReader: "+d)
	}
}

// c05CallersPassReader: v is a parameter of the helper fn and every static call of fn in pkg/decode
// passes d.bitBuf or the caller's own reader parameter for it (at least one call).
func c05CallersPassReader(p *fw.Program, fn *ssa.Function, v ssa.Value) bool {
	idx := -1
	for i, prm := range fn.Params {
		if ssa.Value(prm) == v {
			idx = i
		}
	}
	if idx < 0 {
		return false
	}
	n := 0
	for _, caller := range c05PkgFns(p, "pkg/decode") {
		e := fw.NewSymEnv(caller)
		for _, c := range fw.CallsIn(caller) {
			if c.Common().StaticCallee() != fn || c.Common().IsInvoke() || idx >= len(c.Common().Args) {
				continue
			}
			n++
			d := e.Of(c.Common().Args[idx])
			if d != "P0->bitBuf" && !(strings.HasPrefix(d, "P") && !strings.ContainsAny(d, "->.(")) {
				return false
			}
		}
	}
	return n > 0
}

// c05DecodeTail checks the rebasing walk at the end of decode().
func c05DecodeTail(ru *fw.Rule, p *fw.Program, dec *ssa.Function) {
	pos := p.Rel(dec.Pos())
	// the closure handed to WalkRootPreOrder
	var mc *ssa.MakeClosure
	for _, c := range fw.CallsTo(dec, "(*pkg/decode.Value).WalkRootPreOrder") {
		if len(c.Call.Args) == 2 {
			if m, ok := fw.StripConv(c.Call.Args[1]).(*ssa.MakeClosure); ok {
				mc = m
			}
		}
	}
	if mc == nil {
		ru.Undecided("decode:walk", pos, "decode() no longer walks the decoded tree with a closure (WalkRootPreOrder)")
		return
	}
	cl := mc.Fn.(*ssa.Function)
	binding := func(v ssa.Value) ssa.Value {
		fv, ok := v.(*ssa.FreeVar)
		if !ok {
			return nil
		}
		for i, x := range cl.FreeVars {
			if x == fv && i < len(mc.Bindings) {
				return mc.Bindings[i]
			}
		}
		return nil
	}
	loadOf := func(v ssa.Value) ssa.Value { // v = *addr -> addr
		u, ok := fw.StripConv(v).(*ssa.UnOp)
		if !ok || u.Op != token.MUL {
			return nil
		}
		return u.X
	}
	// cell holding parameter br
	var brCell, drCell, mmCell ssa.Value
	okReader, okRebase := false, false
	condStore, condRebase := false, false
	var descReader, descRebase string
	ce := fw.NewSymEnv(cl)
	fw.EachInstr(cl, func(ins ssa.Instruction) {
		st, ok := ins.(*ssa.Store)
		if !ok {
			return
		}
		if x, ok := c05FieldAddr(st.Addr, "pkg/decode", "Value", "RootReader"); ok {
			descReader = ce.Of(st.Val)
			if !c05StoreUnconditional(cl, st) {
				descReader += " (only on some paths)"
				condStore = true
			}
			if a := loadOf(st.Val); a != nil && x == ssa.Value(cl.Params[0]) {
				if b := binding(a); b != nil {
					brCell = b
					okReader = true
				}
			}
		}
		if fa, ok := st.Addr.(*ssa.FieldAddr); ok && fieldNameOf(fa.X.Type(), fa.Field) == "Start" {
			if x, ok := c05FieldAddr(fa.X, "pkg/decode", "Value", "Range"); ok && x == ssa.Value(cl.Params[0]) {
				descRebase = ce.Of(st.Val)
				if !c05StoreUnconditional(cl, st) {
					descRebase += " (only on some paths)"
					condRebase = true
				}
				if bo, ok := st.Val.(*ssa.BinOp); ok && bo.Op == token.ADD {
					for _, pair := range [][2]ssa.Value{{bo.X, bo.Y}, {bo.Y, bo.X}} {
						if ce.Of(pair[0]) != "P0->Range.Start" {
							continue
						}
						if a, ok := loadOf(pair[1]).(*ssa.FieldAddr); ok && fieldNameOf(a.X.Type(), a.Field) == "Start" {
							if b := binding(a.X); b != nil {
								drCell = b
								okRebase = true
							}
						}
					}
				}
			}
		}
		if b := binding(st.Addr); b != nil && strings.HasPrefix(ce.Of(st.Val), "pkg/ranges.MinMax(") && strings.Contains(ce.Of(st.Val), "P0->Range") {
			mmCell = b
		}
	})
	// br cell holds exactly parameter #1
	if okReader {
		a, isAlloc := brCell.(*ssa.Alloc)
		okReader = false
		if isAlloc && len(dec.Params) > 1 {
			n, good := 0, true
			for _, ref := range *a.Referrers() {
				if st, ok := ref.(*ssa.Store); ok && st.Addr == ssa.Value(a) {
					n++
					if st.Val != ssa.Value(dec.Params[1]) {
						good = false
					}
				}
			}
			okReader = n == 1 && good
		}
	}
	ru.Check(okReader && !condStore, "decode:walk-rootreader", p.Rel(cl.Pos()), "every decoded value gets RootReader = br (the unsliced reader)",
		"the walk in decode() must set v.RootReader to decode's reader parameter br, got "+descReader)
	ru.Check(okRebase && !condRebase, "decode:walk-rebase", p.Rel(cl.Pos()), "every decoded value gets Range.Start += decodeRange.Start",
		"the walk in decode() must rebase v.Range.Start by decodeRange.Start (the values were decoded relative to the sliced reader), got "+descRebase)
	if !okRebase {
		return
	}
	dr, isAlloc := drCell.(*ssa.Alloc)
	if !isAlloc {
		ru.Undecided("decode:range-cell", pos, "decodeRange is not a local of decode()")
		return
	}
	e := fw.NewSymEnv(dec)
	// stores to decodeRange: opts.Range; and under IsZero(): zero + Len = Len(br)
	good := true
	why := ""
	sawOpts, sawWhole := false, false
	fw.EachInstr(dec, func(ins ssa.Instruction) {
		st, ok := ins.(*ssa.Store)
		if !ok {
			return
		}
		base, path := fw.AddrPath(st.Addr)
		if base != ssa.Value(dr) {
			return
		}
		d := e.Of(st.Val)
		switch {
		case len(path) == 0 && (d == "P3.Range" || strings.HasSuffix(d, "->Range") && strings.Contains(d, "Options")):
			sawOpts = true
		case len(path) == 0 && d == "zero", len(path) == 1 && path[0] == "Len" && strings.HasPrefix(d, "internal/bitiox.Len(") && strings.HasSuffix(d, ")#0"),
			len(path) == 1 && path[0] == "Start" && d == "0":
			sawWhole = true
			guarded := false
			for _, g := range fw.Guards(st.Block()) {
				g = g.Normalize()
				if c, ok := g.Cond.(*ssa.Call); ok && g.True {
					if f := c.Common().StaticCallee(); f != nil && fw.ShortFn(f) == "(pkg/ranges.Range).IsZero" {
						guarded = true
					}
				}
			}
			if !guarded {
				good, why = false, "the whole-buffer default is not guarded by decodeRange.IsZero()"
			}
		default:
			good, why = false, fmt.Sprintf("decodeRange.%s is set to %s", strings.Join(path, "."), d)
		}
	})
	ru.Check(good && sawOpts && sawWhole, "decode:range-cell", pos, "decodeRange = opts.Range, or {0, Len(br)} when that is zero",
		"decodeRange must be opts.Range, defaulting to the whole reader from bit 0: "+why)
	// the section the decoder reads
	secOK := false
	secDesc := ""
	for _, c := range fw.CallsTo(dec, c05BitioxRng) {
		if len(c.Call.Args) != 3 {
			continue
		}
		secDesc = e.CallDesc(c)
		a0 := loadOf(c.Call.Args[0])
		a1, _ := loadOf(c.Call.Args[1]).(*ssa.FieldAddr)
		a2, _ := loadOf(c.Call.Args[2]).(*ssa.FieldAddr)
		if a0 != nil && a0 == brCell && a1 != nil && a2 != nil && a1.X == ssa.Value(dr) && a2.X == ssa.Value(dr) &&
			fieldNameOf(a1.X.Type(), a1.Field) == "Start" && fieldNameOf(a2.X.Type(), a2.Field) == "Len" {
			secOK = true
		}
	}
	ru.Check(secOK, "decode:section", pos, "the decoder reads Range(br, decodeRange.Start, decodeRange.Len)",
		"the decoder's reader must be the section (decodeRange.Start, decodeRange.Len) of br — the same Start the walk adds back: "+secDesc)
	// gaps are filled over the whole decoded range, so a root covers every bit it was given
	fgOK, fgDesc := false, ""
	for _, c := range fw.CallsTo(dec, "(*pkg/decode.D).FillGaps") {
		if len(c.Call.Args) != 3 {
			continue
		}
		fgDesc = e.Of(c.Call.Args[1])
		a, ok := loadOf(c.Call.Args[1]).(*ssa.Alloc)
		if !ok {
			continue
		}
		fs, _, ok := e.Fields(a)
		if !ok || !fw.IsZeroDesc(fs["Start"]) {
			continue
		}
		var lenSrc *ssa.FieldAddr
		for _, ref := range *a.Referrers() {
			if fa, ok := ref.(*ssa.FieldAddr); ok && fieldNameOf(fa.X.Type(), fa.Field) == "Len" {
				for _, r2 := range *fa.Referrers() {
					if s2, ok := r2.(*ssa.Store); ok && s2.Addr == ssa.Value(fa) {
						lenSrc, _ = loadOf(s2.Val).(*ssa.FieldAddr)
					}
				}
			}
		}
		g := c05GuardDescs(e, c.Block())
		fill := false
		for d, v := range g {
			if strings.HasSuffix(d, "FillGaps") && v {
				fill = true
			}
		}
		if lenSrc != nil && lenSrc.X == ssa.Value(dr) && fieldNameOf(lenSrc.X.Type(), lenSrc.Field) == "Len" && fill {
			fgOK = true
		}
	}
	ru.Check(fgOK, "decode:fillgaps-whole", pos, "FillGaps({0, decodeRange.Len}) when opts.FillGaps",
		"with FillGaps the decoder must add gap fields over the whole decoded range {0, decodeRange.Len} (otherwise a root does not cover its input): "+fgDesc)
	// the root's range
	rootOK := false
	rootDesc := ""
	fw.EachInstr(dec, func(ins ssa.Instruction) {
		st, ok := ins.(*ssa.Store)
		if !ok {
			return
		}
		if _, ok := c05FieldAddr(st.Addr, "pkg/decode", "Value", "Range"); !ok {
			return
		}
		rootDesc = e.Of(st.Val)
		src := loadOf(st.Val)
		a, ok := src.(*ssa.Alloc)
		if !ok {
			return
		}
		var sStart, sLen ssa.Value
		for _, ref := range *a.Referrers() {
			fa, ok := ref.(*ssa.FieldAddr)
			if !ok {
				continue
			}
			for _, r2 := range *fa.Referrers() {
				if s2, ok := r2.(*ssa.Store); ok && s2.Addr == ssa.Value(fa) {
					switch fieldNameOf(fa.X.Type(), fa.Field) {
					case "Start":
						sStart = s2.Val
					case "Len":
						sLen = s2.Val
					}
				}
			}
		}
		fs, _ := loadOf(sStart).(*ssa.FieldAddr)
		fl, _ := loadOf(sLen).(*ssa.FieldAddr)
		if fs != nil && fl != nil && fs.X == ssa.Value(dr) && fieldNameOf(fs.X.Type(), fs.Field) == "Start" &&
			mmCell != nil && fl.X == mmCell && fieldNameOf(fl.X.Type(), fl.Field) == "Len" {
			rootOK = true
		}
	})
	ru.Check(rootOK, "decode:root-range", pos, "root Range = {decodeRange.Start, minMax(children).Len}",
		"the decoded root's Range must start at decodeRange.Start and span the min-max of its values: "+rootDesc)
}
