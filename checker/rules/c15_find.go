package rules

import (
	"fmt"
	"go/constant"
	"go/token"
	"go/types"
	"strings"

	"golang.org/x/tools/go/ssa"

	"fqverif/fw"
)

// ---------------------------------------------------------------------------
// C15.find: the bounded signature search decode.D.TryPeekFind.
//
// zip is parsed from its end: the end-of-central-directory record is found by searching the
// signature backwards over the last maxLen bits (and gzip/png/gif read their NUL terminated
// names through the forward search). "The archive's members are reported" therefore needs the
// search window to be exactly what the contract says:
//
//	forward  (seekBits > 0): candidates at offsets 0, s, 2s, ... while offset <  maxLen
//	backward (seekBits < 0): candidates at offsets -nBits, -nBits+s, ... while offset >= -maxLen
//	maxLen <= 0: unbounded
//
// i.e. the first candidate lies completely inside the window and the LAST backward candidate
// starts exactly maxLen bits back (an EOCD record followed by a maximal comment). The rule
// decides this on the comparison's polynomial normal form (count < -maxLen, -count > maxLen and
// count+maxLen < 0 are the same fact), on which successor leaves the search loop, and on the
// branch conditions that dominate the comparison, so the loop may be written with a negated
// condition, with breaks, or as a switch.
//
// The obligations about the running offset (0 / -nBits, + seekBits per step), the absolute re-seek,
// the predicate and the returned offset are C02.leaf's and are borrowed under this rule id.

const c15FindDesc = "decode.D.TryPeekFind (zip end-of-central-directory search, NUL terminated names): the offset starts at 0, or at -nBits after seeking there when searching backwards, and moves by seekBits; the search leaves the loop exactly when offset >= maxLen (forward) or offset < -maxLen (backward) and only if maxLen > 0; the match is fn(value just read); a match returns (offset, value), no match returns -1, both after the position was restored (offset/step/match/value obligations borrowed from C02.leaf); zip searches the last min(len, 22+65535) bytes of the file for its end-of-central-directory signature, takes the last occurrence, fails when there is none and decodes the record at start + 8*index"

const c15FindFn = "(*pkg/decode.D).TryPeekFind"

func c15Find(r *fw.Run, p *fw.Program) {
	{
		sc := r.Scratch()
		runC02(sc, p)
		r.Import(sc, "C02.leaf", "C15.find", c15FindDesc, 14, func(k string) bool { return strings.HasPrefix(k, "TryPeekFind:") })
	}
	ru := r.Rule("C15.find", c15FindDesc, 14)
	c15FindZipEOCD(ru, p)
	fn := getFn(ru, p, c15FindFn)
	if fn == nil {
		return
	}
	pos := p.Rel(fn.Pos())
	key := func(s string) string { return "TryPeekFind|" + s }
	if len(fn.Params) != 5 || !isIntegerT(fn.Params[1].Type()) || !isIntegerT(fn.Params[2].Type()) || !isIntegerT(fn.Params[3].Type()) || !isFuncT(fn.Params[4].Type()) {
		ru.Undecided(key("signature"), pos, "TryPeekFind(nBits, seekBits, maxLen, fn) changed its parameters: the rule must be revisited")
		return
	}
	newEnv := func() *fw.PolyEnv {
		e := fw.NewPolyEnv(fn)
		e.Subst = map[ssa.Value]*fw.Poly{}
		for i, n := range []string{"d", "nBits", "seekBits", "maxLen", "fn"} {
			e.Subst[fn.Params[i]] = fw.PAtom(n)
		}
		return e
	}
	seek, nb, ml := fw.PAtom("seekBits"), fw.PAtom("nBits"), fw.PAtom("maxLen")

	// anchors inside the function: the saved position, the candidate read, the predicate call
	var start ssa.Value
	var seeks []*ssa.Call
	var read, match *ssa.Call
	nRead, nMatch := 0, 0
	fw.EachInstr(fn, func(ins ssa.Instruction) {
		c, ok := ins.(*ssa.Call)
		if !ok || c.Parent() != fn {
			return
		}
		cc := c.Common()
		switch {
		case cc.IsInvoke() && cc.Method.Name() == "SeekBits" && len(cc.Args) == 2:
			seeks = append(seeks, c)
		case cc.StaticCallee() != nil && cc.StaticCallee().Name() == "TryU" && fw.FnPkgPath(cc.StaticCallee()) == fw.FnPkgPath(fn):
			read = c
			nRead++
		case cc.StaticCallee() == nil && !cc.IsInvoke() && stripConv(cc.Value) == ssa.Value(fn.Params[4]):
			match = c
			nMatch++
		}
	})
	if nRead != 1 || nMatch != 1 || len(seeks) == 0 {
		ru.Undecided(key("shape"), pos, "expected exactly one candidate read d.TryU(nBits), one call of the predicate and SeekBits calls on the reader")
		return
	}
	pre := newEnv()
	for _, c := range seeks {
		a := c.Common().Args
		if k, ok := pre.Of(a[0]).IsConst(); ok && k == 0 {
			if w, ok := pre.Of(a[1]).IsConst(); ok && w == 1 && c.Block() == fn.Blocks[0] {
				start = c15Extract(c, 0)
			}
		}
	}
	if start == nil {
		ru.Undecided(key("start"), pos, "the saved start position (SeekBits(0, io.SeekCurrent) in the entry block) was not found")
		return
	}

	// the running offset: the loop-carried integer phi whose back edge is itself + seekBits
	var cnt *ssa.Phi
	fw.EachInstr(fn, func(ins ssa.Instruction) {
		ph, ok := ins.(*ssa.Phi)
		if !ok || cnt != nil || !isIntegerT(ph.Type()) {
			return
		}
		e := newEnv()
		e.Subst[ph] = fw.PAtom("CNT")
		for _, ed := range ph.Edges {
			if e.Of(ed).Equal(fw.PAtom("CNT").Add(seek)) {
				cnt = ph
			}
		}
	})
	if cnt == nil {
		ru.Fail(key("offset-step"), pos, "no running offset that moves by seekBits per step: candidates are not tried at start + k*seekBits")
		return
	}
	ru.Ok(key("offset-step"), pos, "the offset moves by seekBits per candidate")
	env := newEnv()
	env.Subst[cnt] = fw.PAtom("CNT")
	env.Subst[start] = fw.PAtom("START")
	CNT := fw.PAtom("CNT")

	// ---- initial offsets and the condition each one is chosen under
	type leaf struct {
		v          ssa.Value
		pred, succ *ssa.BasicBlock
	}
	var leaves []leaf
	seenPhi := map[*ssa.Phi]bool{cnt: true}
	var expand func(ph *ssa.Phi)
	expand = func(ph *ssa.Phi) {
		for i, ed := range ph.Edges {
			if ph == cnt && env.Of(ed).Equal(CNT.Add(seek)) {
				continue
			}
			if q, ok := ed.(*ssa.Phi); ok && !seenPhi[q] {
				seenPhi[q] = true
				expand(q)
				continue
			}
			leaves = append(leaves, leaf{ed, ph.Block().Preds[i], ph.Block()})
		}
	}
	expand(cnt)
	bwd := fw.Cmp{P: seek, Rel: fw.LE} // seekBits == 0 never terminates and is not a search direction: <0 and <=0 are both accepted
	notBwd := fw.Cmp{P: seek, Rel: fw.GE}
	nFwd, nBwd, badInit := 0, 0, ""
	for _, l := range leaves {
		v := env.Of(l.v)
		facts := env.EdgeFacts(l.pred, l.succ)
		switch {
		case v.Equal(fw.PConst(0)) && fw.ProvesFrom(facts, notBwd):
			nFwd++
		case v.Equal(nb.Neg()) && fw.ProvesFrom(facts, bwd):
			nBwd++
		default:
			badInit = "the search starts at offset " + v.String() + " " + c15Facts(facts)
		}
	}
	ru.Check(badInit == "" && nFwd >= 1 && nBwd >= 1, key("offset-init"), pos, "offset starts at 0, and at -nBits iff seekBits < 0",
		"the first candidate must be at offset 0 when searching forwards and at -nBits (the last nBits before the position) iff seekBits < 0: "+badInit)

	// ---- backward: the reader is moved to start-nBits before the first read
	loopHas := func(b *ssa.BasicBlock) bool { return c15Reaches(b, read.Block()) }
	preSeek := false
	restore := []*ssa.Call{}
	for _, c := range seeks {
		a := c.Common().Args
		w, okw := env.Of(a[1]).IsConst()
		if !okw || w != 0 {
			continue
		}
		to := env.Of(a[0])
		if to.Equal(fw.PAtom("START").Sub(nb)) && env.Proves(c.Block(), bwd) && loopHas(c.Block()) && !c15Reaches(cnt.Block(), c.Block()) {
			preSeek = true
		}
		if to.Equal(fw.PAtom("START")) && !loopHas(c.Block()) {
			restore = append(restore, c)
		}
	}
	ru.Check(preSeek, key("backward-start"), pos, "backward search first seeks to start - nBits",
		"when seekBits < 0 the reader must be moved to start - nBits (absolute) before the first candidate is read")

	// ---- bounds
	wantF := fw.Cmp{P: CNT.Sub(ml), Rel: fw.GE}
	wantB := fw.Cmp{P: CNT.Add(ml), Rel: fw.LT}
	gotF, gotB := 0, 0
	for _, b := range fn.Blocks {
		ifi, ok := b.Instrs[len(b.Instrs)-1].(*ssa.If)
		if !ok {
			continue
		}
		g := fw.Guard{Cond: ifi.Cond, True: true}.Normalize()
		cmp, ok := env.CmpOf(g.Cond)
		if !ok || cmp.P.Coef("CNT") == 0 || cmp.P.Coef("maxLen") == 0 {
			continue
		}
		ipos := p.Rel(ifi.Pos())
		if ipos == "?" {
			ipos = pos
		}
		if !g.True {
			cmp.Rel = cmp.Rel.Negate()
		}
		tIn, fIn := loopHas(b.Succs[0]), loopHas(b.Succs[1])
		if tIn == fIn {
			ru.Undecided(key("bound:"+cmp.String()), ipos, "a comparison of the offset with maxLen does not decide between continuing and leaving the search")
			continue
		}
		exit := cmp
		if tIn {
			exit.Rel = exit.Rel.Negate()
		}
		facts := env.Facts(b)
		bounded := fw.ProvesFrom(facts, fw.Cmp{P: ml, Rel: fw.GT})
		switch {
		case fw.ProvesFrom(facts, notBwd):
			gotF++
			ru.Check(c15Equiv(exit, wantF) && bounded, key("bound:forward"), ipos, "forward search ends when offset >= maxLen, maxLen > 0",
				"a forward search must leave the loop exactly when offset >= maxLen and only for maxLen > 0 (candidates start inside the window; -1 is unbounded); the code leaves when "+exit.String()+" "+c15Facts(facts))
		case fw.ProvesFrom(facts, bwd):
			gotB++
			ru.Check(c15Equiv(exit, wantB) && bounded, key("bound:backward"), ipos, "backward search ends when offset < -maxLen, maxLen > 0",
				"a backward search must leave the loop exactly when offset < -maxLen and only for maxLen > 0: the candidate that starts exactly maxLen bits back (zip: an end-of-central-directory record followed by the longest comment inside the window) is still tried; the code leaves when "+exit.String()+" "+c15Facts(facts))
		default:
			ru.Fail(key("bound:"+exit.String()), ipos, "the search is bounded by "+exit.String()+" without a dominating test of the direction (seekBits > 0 / seekBits < 0) "+c15Facts(facts))
		}
	}
	if gotF == 0 {
		ru.Fail(key("bound:forward"), pos, "no bound of the forward search (offset >= maxLen under seekBits > 0 && maxLen > 0) found")
	}
	if gotB == 0 {
		ru.Fail(key("bound:backward"), pos, "no bound of the backward search (offset < -maxLen under seekBits < 0 && maxLen > 0) found")
	}

	// ---- results: a match is the predicate's true arm; (offset, value) there, -1 otherwise; position restored first
	mIf := c15BranchOn(match)
	if mIf == nil {
		ru.Undecided(key("match"), pos, "the predicate's result does not decide a branch")
		return
	}
	found := mIf.Block().Succs[0]
	if len(found.Preds) != 1 {
		ru.Undecided(key("match"), pos, "the predicate's true arm is shared with other paths")
		return
	}
	okArg := len(match.Common().Args) == 1 && stripConv(match.Common().Args[0]) == c15Extract(read, 0)
	ru.Check(okArg, key("match"), pos, "fn(v) is applied to the candidate just read", "the predicate must be applied to the value returned by the candidate read d.TryU(nBits)")
	ru.Check(!loopHas(found), key("match-exits"), pos, "the first match ends the search", "a match must end the search (the nearest candidate wins: zip takes the end-of-central-directory signature closest to the end of file); the predicate's true arm continues with further candidates")
	nRet := 0
	for _, b := range fn.Blocks {
		ret, ok := b.Instrs[len(b.Instrs)-1].(*ssa.Return)
		if !ok || len(ret.Results) != 3 {
			continue
		}
		if c, ok := ret.Results[2].(*ssa.Const); !ok || !c.IsNil() {
			continue
		}
		nRet++
		rpos := p.Rel(ret.Pos())
		isFound, decided := c15FoundAt(b, found)
		if !decided {
			ru.Undecided(key("result"), rpos, "cannot tell whether this successful return is the match or the no-match outcome")
			continue
		}
		restored := false
		for _, c := range restore {
			if c.Block() == b || c.Block().Dominates(b) {
				restored = true
			}
		}
		off := env.Of(ret.Results[0])
		if isFound {
			ru.Check(off.Equal(CNT) && stripConv(ret.Results[1]) == c15Extract(read, 0) || off.Equal(CNT) && c15PhiOnly(ret.Results[1], c15Extract(read, 0)),
				key("result:found"), rpos, "a match returns (offset, value)", "a match must return the offset of the matching candidate and the value read there; the code returns offset "+off.String())
			ru.Check(restored, key("restore:found"), rpos, "position restored before returning", "the reader must be back at the start position (SeekBits(start, io.SeekStart)) when a match is returned: callers seek relative to it")
		} else {
			ru.Check(off.Equal(fw.PConst(-1)), key("result:none"), rpos, "no match returns -1", "an exhausted search must return -1 (callers test p != -1 / p == -1); the code returns "+off.String())
			ru.Check(restored, key("restore:none"), rpos, "position restored before returning", "the reader must be back at the start position when the search is exhausted")
		}
	}
	if nRet < 2 {
		ru.Fail(key("result"), pos, "expected a successful return for a match and one for an exhausted search")
	}
}

// c15FindZipEOCD: the caller side: how zip locates its end-of-central-directory record. The
// record is 22 bytes followed by an archive comment of up to 65535 bytes (APPNOTE 4.3.16, 4.4.12:
// the comment length is a 2 byte field), so its signature starts at most 22+65535 bytes before the
// end of the file. Obligations (decided on resolved callees and polynomial normal forms):
//
//	window      the bytes searched are BytesRange(len - 8*n, n) with n = min(len/8, K), K >= 22+65535
//	            (or the whole file)
//	last        the LAST occurrence of the signature in that range is taken (bytes.LastIndex): a
//	            member or comment may contain "PK\x05\x06", the record closest to the end is the real one
//	none-fatal  index -1 (no signature) ends the decode with Fatalf
//	seek        the record is decoded at start + 8*index (absolute)
func c15FindZipEOCD(ru *fw.Rule, p *fw.Program) {
	const root = "format/zip.zipDecode"
	const need = 22 + 65535
	key := func(s string) string { return root + "|eocd-search|" + s }
	fn := getFn(ru, p, root)
	if fn == nil {
		return
	}
	pos := p.Rel(fn.Pos())
	f := newC15World(p).fam(fn)
	// the search call: bytes.Index / bytes.LastIndex whose needle is the "PK\x05\x06" signature
	var search *ssa.Call
	fw.EachInstr(fn, func(ins ssa.Instruction) {
		c, ok := ins.(*ssa.Call)
		if !ok || c.Parent() != fn {
			return
		}
		callee := c.Common().StaticCallee()
		if callee == nil || callee.Pkg == nil || callee.Pkg.Pkg.Path() != "bytes" || len(c.Common().Args) != 2 {
			return
		}
		if (callee.Name() == "LastIndex" || callee.Name() == "Index") && strings.Contains(f.expr(c.Common().Args[1]), `bytes("PK\x05\x06")`) {
			search = c
		}
	})
	if search == nil {
		ru.Undecided(key("shape"), pos, "no bytes.LastIndex search for the end-of-central-directory signature \"PK\\x05\\x06\" found in zipDecode: the obligation must be revisited")
		return
	}
	spos := p.Rel(search.Pos())
	ru.Check(search.Common().StaticCallee().Name() == "LastIndex", key("last"), spos, "the last occurrence of the signature is taken",
		"the end-of-central-directory record is the LAST occurrence of its signature in the searched range (member data or the comment may contain the same four bytes); the decoder takes the first one (bytes.Index)")

	// the searched range
	hay, _ := stripConv(search.Common().Args[0]).(*ssa.Call)
	if m, ok := isDMethodCall(hay); !ok || m != "BytesRange" || len(hay.Common().Args) != 3 {
		ru.Undecided(key("window"), spos, "the searched bytes are not a d.BytesRange(start, n) of the input")
		return
	}
	startV, nV := hay.Common().Args[1], hay.Common().Args[2]
	pN, pS := f.poly(nV, 0), f.poly(startV, 0)
	base := pS.Add(pN.MulC(8)) // must be the input length
	atoms := base.Atoms()
	okBase := len(atoms) == 1 && strings.HasPrefix(atoms[0], "Len@") && base.Coef(atoms[0]) == 1 && base.Const() == 0
	k, whole, okN := c15MinLenBytes(f, nV)
	switch {
	case !okBase:
		ru.Fail(key("window"), spos, "the searched range must end at the end of the file: start = len - 8*n; the decoder searches BytesRange("+pS.String()+", "+pN.String()+")")
	case !okN:
		ru.Undecided(key("window"), spos, "the number of bytes searched is not min(len/8, K): "+pN.String())
	case whole || k >= need:
		ru.Ok(key("window"), spos, "the last min(len, 22+65535) bytes (or more) are searched")
	default:
		ru.Fail(key("window"), spos, fmt.Sprintf("the end-of-central-directory record is searched in the last %d bytes only: the record is 22 bytes plus an archive comment of up to 65535 bytes, so an intact archive whose comment is longer than %d bytes is not decoded; the window must be at least %d bytes", k, k-22, need))
	}

	// no occurrence is fatal
	env := fw.NewPolyEnv(fn)
	env.Subst = map[ssa.Value]*fw.Poly{search: fw.PAtom("IDX")}
	neg := fw.Cmp{P: fw.PAtom("IDX"), Rel: fw.LT}
	fatal := false
	fw.EachInstr(fn, func(ins ssa.Instruction) {
		c, ok := ins.(*ssa.Call)
		if !ok || c.Parent() != fn {
			return
		}
		if m, ok := isDMethod(c); ok && (m == "Fatalf" || m == "Errorf") && env.Proves(c.Block(), neg) {
			fatal = true
		}
	})
	ru.Check(fatal, key("none-fatal"), spos, "index -1 ends the decode with an error", "when the signature does not occur (index -1) the decode must fail (d.Fatalf): otherwise the record is decoded 8 bits before the searched range and the error, if any, is an unrelated assert")

	// the record is decoded at start + 8*index
	want := pS.Add(f.poly(search, 0).MulC(8))
	seek := false
	fw.EachInstr(fn, func(ins ssa.Instruction) {
		c, ok := ins.(*ssa.Call)
		if !ok || c.Parent() != fn {
			return
		}
		if m, ok := isDMethod(c); ok && m == "SeekAbs" && len(c.Common().Args) >= 2 && f.poly(c.Common().Args[1], 0).Equal(want) && !env.Proves(c.Block(), neg) {
			seek = true
		}
	})
	ru.Check(seek, key("seek"), spos, "the record is decoded at start + 8*index", "the reader must be moved to start + 8*index (absolute, bits) before the end-of-central-directory record is decoded; no d.SeekAbs("+want.String()+") found")
}

func isDMethodCall(c *ssa.Call) (string, bool) {
	if c == nil {
		return "", false
	}
	return isDMethod(c)
}

// c15MinLenBytes: v is min(len/8, K) (builtin min, either operand order, or the equivalent
// if-clamp merged in a phi) -> (K, false, true); v is len/8 -> (0, true, true).
func c15MinLenBytes(f *c15Family, v ssa.Value) (k int64, whole bool, ok bool) {
	isLenBytes := func(x ssa.Value) bool {
		bo, ok := stripConv(x).(*ssa.BinOp)
		if !ok || bo.Op != token.QUO {
			return false
		}
		c, ok := bo.Y.(*ssa.Const)
		if !ok || c.Value == nil || c.Value.ExactString() != "8" {
			return false
		}
		call, ok := stripConv(bo.X).(*ssa.Call)
		m, isD := isDMethodCall(call)
		return ok && isD && m == "Len"
	}
	v = stripConv(v)
	if isLenBytes(v) {
		return 0, true, true
	}
	var ops []ssa.Value
	switch x := v.(type) {
	case *ssa.Call:
		if b, isB := x.Common().Value.(*ssa.Builtin); isB && b.Name() == "min" {
			ops = x.Common().Args
		}
	case *ssa.Phi:
		if name, a, b, ok := c15ClampPhi(x); ok && name == "min" {
			ops = []ssa.Value{a, b}
		}
	}
	if len(ops) != 2 {
		return 0, false, false
	}
	for i := 0; i < 2; i++ {
		if c, isC := stripConv(ops[i]).(*ssa.Const); isC && c.Value != nil && c.Value.Kind() == constant.Int && isLenBytes(ops[1-i]) {
			if n, okI := constant.Int64Val(c.Value); okI {
				return n, false, true
			}
		}
	}
	return 0, false, false
}

// c15Extract returns the Extract of index i of a tuple call (nil if absent).
func c15Extract(c *ssa.Call, i int) ssa.Value {
	if c.Referrers() == nil {
		return nil
	}
	for _, r := range *c.Referrers() {
		if e, ok := r.(*ssa.Extract); ok && e.Index == i {
			return e
		}
	}
	return nil
}

// c15BranchOn: the If whose condition is the call's (possibly negated) boolean result.
func c15BranchOn(c *ssa.Call) *ssa.If {
	var out *ssa.If
	if c.Referrers() == nil {
		return nil
	}
	for _, r := range *c.Referrers() {
		if ifi, ok := r.(*ssa.If); ok && ifi.Cond == ssa.Value(c) {
			out = ifi
		}
	}
	return out
}

// c15Reaches: to is reachable from from (from == to counts).
func c15Reaches(from, to *ssa.BasicBlock) bool {
	if from == to {
		return true
	}
	seen := map[*ssa.BasicBlock]bool{}
	stack := []*ssa.BasicBlock{from}
	for len(stack) > 0 {
		b := stack[len(stack)-1]
		stack = stack[:len(stack)-1]
		if seen[b] {
			continue
		}
		seen[b] = true
		if b == to {
			return true
		}
		stack = append(stack, b.Succs...)
	}
	return false
}

// c15FoundAt decides whether block b is only reached after the predicate's true arm `found` ran
// (b is dominated by it, or b is guarded by a boolean flag that is true exactly on edges coming
// from that arm), or only without it.
func c15FoundAt(b, found *ssa.BasicBlock) (isFound, decided bool) {
	if found == b || found.Dominates(b) {
		return true, true
	}
	for _, g := range fw.Guards(b) {
		g = g.Normalize()
		ph, ok := g.Cond.(*ssa.Phi)
		if !ok {
			continue
		}
		if bt, ok := ph.Type().Underlying().(*types.Basic); !ok || bt.Kind() != types.Bool {
			continue
		}
		allTrueFromFound, anyTrue, ok2 := true, false, true
		var walk func(ph *ssa.Phi, seen map[*ssa.Phi]bool)
		walk = func(ph *ssa.Phi, seen map[*ssa.Phi]bool) {
			seen[ph] = true
			for i, e := range ph.Edges {
				pred := ph.Block().Preds[i]
				switch x := e.(type) {
				case *ssa.Const:
					if x.Value == nil {
						ok2 = false
						continue
					}
					isT := x.Value.ExactString() == "true"
					from := pred == found || found.Dominates(pred)
					if isT {
						anyTrue = true
						if !from {
							allTrueFromFound = false
						}
					} else if from {
						// flag false although the match arm ran
						allTrueFromFound = false
					}
				case *ssa.Phi:
					if !seen[x] {
						walk(x, seen)
					}
				default:
					ok2 = false
				}
			}
		}
		walk(ph, map[*ssa.Phi]bool{})
		if !ok2 || !anyTrue || !allTrueFromFound {
			continue
		}
		return g.True, true
	}
	// not dominated by the match arm and not reachable from it: the no-match outcome
	if !c15Reaches(found, b) {
		return false, true
	}
	return false, false
}

// c15PhiOnly: v is a phi whose non-zero-constant edges are all `want` (the value variable that is
// zero until a candidate was read).
func c15PhiOnly(v, want ssa.Value) bool {
	ph, ok := stripConv(v).(*ssa.Phi)
	if !ok {
		return false
	}
	seen := map[*ssa.Phi]bool{}
	res := true
	n := 0
	var walk func(ph *ssa.Phi)
	walk = func(ph *ssa.Phi) {
		seen[ph] = true
		for _, e := range ph.Edges {
			switch x := stripConv(e).(type) {
			case *ssa.Phi:
				if !seen[x] {
					walk(x)
				}
			case *ssa.Const:
			default:
				if stripConv(e) == want {
					n++
				} else {
					res = false
				}
			}
		}
	}
	walk(ph)
	return res && n > 0
}

func c15Equiv(a, b fw.Cmp) bool { return a.Implies(b) && b.Implies(a) }

func c15Facts(fs []fw.Cmp) string {
	if len(fs) == 0 {
		return "(under no condition)"
	}
	var s []string
	for _, f := range fs {
		s = append(s, f.String())
	}
	return "(under " + strings.Join(s, " && ") + ")"
}

// ---------------------------------------------------------------------------
// C15.attach: "exposes decompressed payloads that equal the originals" also needs the nested
// buffer to be attached with ITS OWN reader and length: FieldRootBitBuf / TryFieldFormatBitBuf
// (called by Field(Format)ReaderRange* / FieldFormatReaderLen, see C15.inflate) store the
// decompressed reader as RootReader, mark the value IsRoot and give it the reader's length, so
// `.uncompressed | tobytes` reads the decompressed bytes and not the compressed bytes of the
// parent. That is decided by C05.rootbase; its obligations about these two constructors are
// borrowed here.
func c15Attach(r *fw.Run, p *fw.Program) {
	sc := r.Scratch()
	formB := c05Prov(sc, p)
	c05RootBase(sc, p, formB)
	r.Import(sc, "C05.rootbase", "C15.attach", "the nested buffer produced by a decompressor is attached with its own reader: FieldRootBitBuf / TryFieldFormatBitBuf store the decompressed reader as RootReader of an IsRoot value whose length is the reader's length and only place Range.Start at the parent's position, so tobytes of .uncompressed yields the decompressed payload (C05.rootbase obligations about the two constructors)", 3,
		func(k string) bool {
			return strings.Contains(k, "FieldRootBitBuf") || strings.Contains(k, "TryFieldFormatBitBuf")
		})
}
