package rules

import (
	"fmt"
	"go/token"
	"strings"

	"golang.org/x/tools/go/ssa"

	"fqverif/fw"
)

// ---------------------------------------------------------------------------
// C05.pad

func c05Pad(r *fw.Run, p *fw.Program) {
	ru := r.Rule("C05.pad", "_toBits: pad = (P - r.Len mod P) mod P with P = unit*pad_to_units, or unit when that is 0, over the unchanged range of toBinary(c); keep_range returns that binary, otherwise toReader() is re-wrapped with unit and pad 0; toReader prepends NewZeroAtSeeker(pad) to the section (b.r.Start, b.r.Len) only when pad != 0; the zero reader yields min(n, left) zero bits; unit > 0 and pad_to_units >= 0 are established before the modulo", 15)

	if fn := c05Anchor(ru, p, "(*pkg/interp.Interp)._toBits"); fn != nil {
		c05ToBits(ru, p, fn)
	}

	if fn := c05Anchor(ru, p, "(pkg/interp.Binary).toReader"); fn != nil {
		e := fw.NewSymEnv(fn)
		sec := "internal/bitiox.Range(P0.br,P0.r.Start,P0.r.Len)"
		cs := fw.CallsTo(fn, c05BitioxRng)
		ru.Check(len(cs) == 1 && e.Of(cs[0]) == sec, "toReader:section", p.Rel(fn.Pos()), "data = Range(b.br, b.r.Start, b.r.Len)",
			"toReader must read the section (b.r.Start, b.r.Len) of b.br exactly once")
		nNoPad, nPad := 0, 0
		for _, ret := range c05Returns(fn) {
			if len(ret.Results) != 2 {
				continue
			}
			d0, d1 := e.Of(ret.Results[0]), e.Of(ret.Results[1])
			g := c05GuardDescs(e, ret.Block())
			padZero, known := g["(0 == P0.pad)"]
			if v, ok := g["(0 != P0.pad)"]; ok {
				padZero, known = !v, true
			}
			switch {
			case d0 == "nil" && d1 == sec+"#1":
				// error of the section
			case d0 == sec+"#0" && d1 == "nil":
				nNoPad++
				ru.Check(known && padZero, "toReader:nopad", p.Rel(ret.Pos()), "unpadded data returned only when pad == 0",
					"toReader returns the bare data on a path where pad == 0 is not established: the zero padding is dropped")
			case strings.HasPrefix(d0, "pkg/bitio.NewMultiReader("):
				nPad++
				var mr *ssa.Call
				for _, c := range fw.CallsTo(fn, "pkg/bitio.NewMultiReader") {
					mr = c
				}
				good := false
				detail := d0
				if mr != nil && len(mr.Call.Args) == 1 {
					if elems, ok := fw.VarArgs(mr.Call.Args[0]); ok && len(elems) == 2 {
						detail = fmt.Sprintf("NewMultiReader(%s, %s)", e.Of(elems[0]), e.Of(elems[1]))
						good = e.Of(elems[0]) == "internal/bitiox.NewZeroAtSeeker(P0.pad)" && e.Of(elems[1]) == sec+"#0"
					}
				}
				ru.Check(good && d1 == d0[:len(d0)-2]+"#1" && !(known && padZero), "toReader:prepend", p.Rel(ret.Pos()), "NewMultiReader(zero(b.pad), data)",
					"the padded reader must be exactly b.pad zero bits FOLLOWED by the data, got "+detail)
			default:
				ru.Fail("toReader:return", p.Rel(ret.Pos()), "unexpected result of toReader: "+d0+", "+d1)
			}
		}
		if nNoPad == 0 || nPad == 0 {
			ru.Fail("toReader:cases", p.Rel(fn.Pos()), "toReader no longer has both the unpadded and the zero-prepended result")
		}
	}

	if fn := c05Anchor(ru, p, "pkg/interp.NewBinaryFromBitReader"); fn != nil {
		e := fw.NewSymEnv(fn)
		n := 0
		for _, ret := range c05Returns(fn) {
			if len(ret.Results) != 2 || e.Of(ret.Results[1]) != "nil" {
				continue
			}
			n++
			fields, base, ok := e.Fields(ret.Results[0])
			eq, diff := false, e.Of(ret.Results[0])
			if ok && base == "" {
				eq, diff = c05FieldsEq(fields, map[string]string{"br": "P0", "r.Len": "internal/bitiox.Len(P0)#0", "unit": "P1", "pad": "P2"})
			}
			ru.Check(eq, "NewBinaryFromBitReader", p.Rel(ret.Pos()), "Binary{br, {0, Len(br)}, unit, pad}", "a binary over a whole reader must have range {0, Len(br)} and the given unit and pad: "+diff)
		}
		if n == 0 {
			ru.Fail("NewBinaryFromBitReader", p.Rel(fn.Pos()), "no success return")
		}
	}

	if fn := c05Anchor(ru, p, "internal/bitiox.NewZeroAtSeeker"); fn != nil {
		e := fw.NewSymEnv(fn)
		good := false
		for _, ret := range c05Returns(fn) {
			if len(ret.Results) == 1 {
				if fields, _, ok := e.Fields(ret.Results[0]); ok {
					good, _ = c05FieldsEq(fields, map[string]string{"nBits": "P0"})
				}
			}
		}
		ru.Check(good, "NewZeroAtSeeker", p.Rel(fn.Pos()), "zero reader of nBits bits at position 0", "NewZeroAtSeeker(n) must be a reader of exactly n bits positioned at 0")
	}
	if fn := c05Anchor(ru, p, "(*internal/bitiox.ZeroReadAtSeeker).ReadBitsAt"); fn != nil {
		e := fw.NewSymEnv(fn)
		nz, bad := 0, ""
		fw.EachInstr(fn, func(ins ssa.Instruction) {
			st, ok := ins.(*ssa.Store)
			if !ok {
				return
			}
			if ia, ok := st.Addr.(*ssa.IndexAddr); ok && ia.X == ssa.Value(fn.Params[1]) {
				nz++
				if e.Of(st.Val) != "0" {
					bad = e.Of(st.Val)
				}
			}
		})
		ru.Check(nz > 0 && bad == "", "ZeroReader:fill", p.Rel(fn.Pos()), "fills the buffer with zero bytes", "the pad reader must write zero bytes into the buffer, writes "+bad)
		cnt := false
		for _, ret := range c05Returns(fn) {
			if len(ret.Results) == 2 && e.Of(ret.Results[1]) == "nil" {
				cnt = e.Of(ret.Results[0]) == "min((P0->nBits - P3),P2)"
				if !cnt {
					bad = e.Of(ret.Results[0])
				}
			}
		}
		ru.Check(cnt, "ZeroReader:count", p.Rel(fn.Pos()), "returns min(nBits, z.nBits-bitOff)", "the pad reader must return min(nBits, z.nBits - bitOff) bits, returns "+bad)
	}
}

func c05ToBits(ru *fw.Rule, p *fw.Program, fn *ssa.Function) {
	e := fw.NewSymEnv(fn)
	pos := p.Rel(fn.Pos())
	const src = "pkg/interp.toBinary(P1)#0"
	// the local binary
	var bv *ssa.Alloc
	var padStore *ssa.Store
	fw.EachInstr(fn, func(ins ssa.Instruction) {
		st, ok := ins.(*ssa.Store)
		if !ok {
			return
		}
		if x, ok := c05FieldAddr(st.Addr, "pkg/interp", "Binary", "pad"); ok {
			if a, ok := x.(*ssa.Alloc); ok {
				bv, padStore = a, st
			}
		}
	})
	if bv == nil {
		ru.Undecided("_toBits:pad-formula", pos, "_toBits no longer stores the padding into a local Binary")
		return
	}
	fields, base, ok := e.Fields(bv)
	if !ok {
		ru.Undecided("_toBits:binary", pos, "the local Binary of _toBits escapes")
		return
	}
	ru.Check(base == src, "_toBits:source", pos, "binary comes from toBinary(c)", "_toBits must pad the binary of its input value toBinary(c), got "+base)
	rangeKept := true
	for k := range fields {
		if k == "r" || strings.HasPrefix(k, "r.") || k == "br" {
			rangeKept = false
		}
	}
	ru.Check(rangeKept, "_toBits:range-kept", pos, "reader and range of the value are not modified", "_toBits overwrites the reader or range of the value's binary")
	ru.Check(fields["unit"] == "P2.Unit", "_toBits:unit", pos, "unit = opts.Unit", "_toBits must set the unit from opts.Unit, got "+fields["unit"])

	// formula
	outer, _ := fw.StripConv(padStore.Val).(*ssa.BinOp)
	var P ssa.Value
	if outer != nil && outer.Op == token.REM {
		P = outer.Y
	}
	if P == nil {
		ru.Fail("_toBits:pad-formula", p.Rel(padStore.Pos()), "pad is not computed as (P - len mod P) mod P: "+e.Of(padStore.Val))
		return
	}
	pd := e.Of(P)
	want := fmt.Sprintf("((%[1]s - (%[2]s.r.Len %% %[1]s)) %% %[1]s)", pd, src)
	ru.Check(e.Of(padStore.Val) == want, "_toBits:pad-formula", p.Rel(padStore.Pos()), "pad = (P - r.Len mod P) mod P",
		"left padding must be (P - bv.r.Len % P) % P — the number of bits missing to the next multiple of P of the value's LENGTH — got "+e.Of(padStore.Val))

	// P = unit*pad_to_units, or unit when that is zero
	const prod = "(P2.PadToUnits * P2.Unit)"
	phi, isPhi := fw.StripConv(P).(*ssa.Phi)
	if !isPhi {
		ru.Fail("_toBits:pad-unit", p.Rel(padStore.Pos()), "padding unit P is not 'unit*pad_to_units, or unit when that is 0': "+pd)
	} else {
		good := len(phi.Edges) == 2
		why := ""
		sawProd, sawUnit := false, false
		for i, ed := range phi.Edges {
			pred := phi.Block().Preds[i]
			// facts on the edge pred -> phi block
			facts := c05GuardDescs(e, pred)
			if ifi, ok := pred.Instrs[len(pred.Instrs)-1].(*ssa.If); ok {
				g := fw.Guard{Cond: ifi.Cond, True: pred.Succs[0] == phi.Block()}.Normalize()
				facts[e.Of(g.Cond)] = g.True
			}
			isZero, known := facts["("+prod+" == 0)"]
			if v, ok := facts["("+prod+" != 0)"]; ok {
				isZero, known = !v, true
			}
			if v, ok := facts["(0 == "+prod+")"]; ok { // operand order after sorting
				isZero, known = v, true
			}
			if v, ok := facts["(0 != "+prod+")"]; ok {
				isZero, known = !v, true
			}
			switch e.Of(ed) {
			case prod:
				sawProd = true
				if !known || isZero {
					good, why = false, "unit*pad_to_units is used on the edge where it is zero"
				}
			case "P2.Unit":
				sawUnit = true
				if !known || !isZero {
					good, why = false, "unit replaces unit*pad_to_units on an edge where that product is not known to be zero"
				}
			default:
				good, why = false, "unexpected padding unit "+e.Of(ed)
			}
		}
		ru.Check(good && sawProd && sawUnit, "_toBits:pad-unit", p.Rel(padStore.Pos()), "P = unit*pad_to_units, or unit when that is 0",
			"padding unit must be opts.Unit*opts.PadToUnits, falling back to opts.Unit exactly when that product is 0: "+why+" ("+pd+")")
	}
	// positive unit established before the modulo
	g := c05GuardDescs(e, padStore.Block())
	posUnit := false
	if v, ok := g["(P2.Unit <= 0)"]; ok && !v {
		posUnit = true
	}
	if v, ok := g["(P2.Unit > 0)"]; ok && v {
		posUnit = true
	}
	if v, ok := g["(P2.Unit < 1)"]; ok && !v {
		posUnit = true
	}
	if v, ok := g["(P2.Unit >= 1)"]; ok && v {
		posUnit = true
	}
	ru.Check(posUnit, "_toBits:unit-positive", p.Rel(padStore.Pos()), "unit > 0 is established before the modulo", "the modulo by the padding unit is reachable with unit <= 0")
	nonNeg := false
	if v, ok := g["(P2.PadToUnits < 0)"]; ok && !v {
		nonNeg = true
	}
	if v, ok := g["(P2.PadToUnits >= 0)"]; ok && v {
		nonNeg = true
	}
	if v, ok := g["(P2.PadToUnits <= -1)"]; ok && !v {
		nonNeg = true
	}
	if v, ok := g["(P2.PadToUnits > -1)"]; ok && v {
		nonNeg = true
	}
	ru.Check(nonNeg, "_toBits:padunits-nonneg", p.Rel(padStore.Pos()), "pad_to_units >= 0 is established before the modulo",
		"the padding is computed with a possibly negative pad_to_units: P = unit*pad_to_units < 0 makes (P - len mod P) mod P negative, so a negative number of zero bits is prepended")

	// results
	nKeep, nRepack := 0, 0
	for _, ret := range c05Returns(fn) {
		if len(ret.Results) != 1 {
			continue
		}
		v := fw.StripConv(ret.Results[0])
		gd := c05GuardDescs(e, ret.Block())
		if u, ok := v.(*ssa.UnOp); ok && u.Op == token.MUL && u.X == ssa.Value(bv) {
			nKeep++
			keep, known := gd["P2.KeepRange"]
			ru.Check(known && keep && c05InstrDominates(padStore, ret), "_toBits:keep-range", p.Rel(ret.Pos()), "keep_range returns the padded binary with its range",
				"the ranged binary is returned on a path where keep_range is not set or before the padding is stored")
			continue
		}
		d := e.Of(ret.Results[0])
		if strings.HasPrefix(d, "pkg/interp.NewBinaryFromBitReader(") && strings.HasSuffix(d, "#0") {
			nRepack++
			var nb *ssa.Call
			for _, c := range fw.CallsTo(fn, "pkg/interp.NewBinaryFromBitReader") {
				nb = c
			}
			good := false
			detail := d
			if nb != nil && len(nb.Call.Args) == 3 {
				a0, a1, a2 := nb.Call.Args[0], e.Of(nb.Call.Args[1]), e.Of(nb.Call.Args[2])
				detail = fmt.Sprintf("NewBinaryFromBitReader(%s, %s, %s)", e.Of(a0), a1, a2)
				if ex, ok := fw.StripConv(a0).(*ssa.Extract); ok && ex.Index == 0 {
					if tc, ok := ex.Tuple.(*ssa.Call); ok && tc.Call.StaticCallee() != nil && fw.ShortFn(tc.Call.StaticCallee()) == "(pkg/interp.Binary).toReader" && len(tc.Call.Args) == 1 {
						if u, ok := tc.Call.Args[0].(*ssa.UnOp); ok && u.Op == token.MUL && u.X == ssa.Value(bv) && c05InstrDominates(padStore, tc) {
							good = a1 == "P2.Unit" && a2 == "0"
						}
					}
				}
			}
			keep, known := gd["P2.KeepRange"]
			ru.Check(good && known && !keep, "_toBits:repack", p.Rel(ret.Pos()), "NewBinaryFromBitReader(bv.toReader(), unit, 0)",
				"without keep_range the result must be the padded reader of the value re-wrapped with the unit and NO further padding, got "+detail)
		}
	}
	if nKeep == 0 || nRepack == 0 {
		ru.Fail("_toBits:results", pos, "_toBits no longer has both the keep_range result and the re-wrapped result")
	}
}

// c05InstrDominates: a executes before b on every path to b.
func c05InstrDominates(a, b ssa.Instruction) bool {
	if a.Block() == b.Block() {
		for _, x := range a.Block().Instrs {
			if x == a {
				return true
			}
			if x == b {
				return false
			}
		}
	}
	return a.Block().Dominates(b.Block())
}

// ---------------------------------------------------------------------------
// C05.bitiox

func c05Bitiox(r *fw.Run, p *fw.Program) { c05BitioxAs(r, p, "C05.bitiox") }

// c05BitioxAs runs the bitiox plumbing rule under the given rule id (shared by C01 and C03, whose
// anchors include internal/bitiox/bitiox.go and the sub-reader windows built on bitiox.Range).
func c05BitioxAs(r *fw.Run, p *fw.Program, id string) {
	ru := r.Rule(id, "internal/bitiox: Range(br,start,n) is NewSectionReader(br,start,n) after rejecting n<0 and start+n>Len; CopyBits copies src through bitio.NewIOReader into dst; Len returns the SeekEnd position and restores the position", 6)
	if fn := c05Anchor(ru, p, c05BitioxRng); fn != nil {
		e := fw.NewSymEnv(fn)
		cs := fw.CallsTo(fn, "pkg/bitio.NewSectionReader")
		if len(cs) != 1 {
			ru.Fail("Range:section", p.Rel(fn.Pos()), "bitiox.Range does not build exactly one SectionReader")
		} else {
			c := cs[0]
			ru.Check(e.Of(c) == "pkg/bitio.NewSectionReader(P0,P1,P2)", "Range:section", p.Rel(c.Pos()), "NewSectionReader(br, firstBitOffset, nBits)",
				"bitiox.Range must be the section (firstBitOffset, nBits) of br, got "+e.Of(c))
			g := c05GuardDescs(e, c.Block())
			neg, k1 := g["(P2 < 0)"]
			out, k2 := g["((P1 + P2) > internal/bitiox.Len(P0)#0)"]
			ru.Check(k1 && !neg && k2 && !out, "Range:bounds", p.Rel(c.Pos()), "nBits >= 0 and start+nBits <= Len(br) established",
				"bitiox.Range must reject a negative length and a range ending after the reader's end before slicing")
		}
	}
	if fn := c05Anchor(ru, p, "internal/bitiox.CopyBits"); fn != nil {
		e := fw.NewSymEnv(fn)
		cs := fw.CallsTo(fn, "internal/bitiox.CopyBitsBuffer")
		ru.Check(len(cs) == 1 && e.Of(cs[0]) == "internal/bitiox.CopyBitsBuffer(P0,P1,nil)", "CopyBits", p.Rel(fn.Pos()), "CopyBitsBuffer(dst, src, nil)",
			"CopyBits(dst, src) must copy src into dst")
	}
	if fn := c05Anchor(ru, p, "internal/bitiox.CopyBitsBuffer"); fn != nil {
		e := fw.NewSymEnv(fn)
		cs := fw.CallsTo(fn, "io.CopyBuffer")
		ru.Check(len(cs) == 1 && e.Of(cs[0]) == "io.CopyBuffer(P0,pkg/bitio.NewIOReader(P1),P2)", "CopyBitsBuffer", p.Rel(fn.Pos()), "io.CopyBuffer(dst, bitio.NewIOReader(src), buf)",
			"CopyBitsBuffer must copy all of src (as bytes, last byte zero padded) into dst")
	}
	if fn := c05Anchor(ru, p, "internal/bitiox.Len"); fn != nil {
		e := fw.NewSymEnv(fn)
		end := "invoke.SeekBits(P0,0,2)#0"
		good, restore := false, false
		for _, ret := range c05Returns(fn) {
			if len(ret.Results) == 2 && e.Of(ret.Results[1]) == "nil" {
				good = e.Of(ret.Results[0]) == end
			}
		}
		for _, c := range fw.CallsIn(fn) {
			if e.CallDesc(c) == "invoke.SeekBits(P0,invoke.SeekBits(P0,0,1)#0,0)" {
				restore = true
			}
		}
		ru.Check(good, "Len:end", p.Rel(fn.Pos()), "Len = SeekBits(0, SeekEnd)", "bitiox.Len must return the end position of the reader")
		ru.Check(restore, "Len:restore", p.Rel(fn.Pos()), "position restored", "bitiox.Len must seek back to the position it started from (readers are shared)")
	}
}

// ---------------------------------------------------------------------------
// C05.raw

func c05Raw(r *fw.Run, p *fw.Program) {
	ru := r.Rule("C05.raw", "Binary.Display with RawOutput copies b.toReader() to the writer with bitiox.CopyBits, propagates its errors and never falls into the hex dump; without RawOutput it dumps; _display hands the evaluation's output and the parsed options to Display", 4)
	if fn := c05Anchor(ru, p, "(pkg/interp.Binary).Display"); fn != nil {
		e := fw.NewSymEnv(fn)
		var rawCond ssa.Value
		for _, b := range fn.Blocks {
			if ifi, ok := b.Instrs[len(b.Instrs)-1].(*ssa.If); ok {
				g := fw.Guard{Cond: ifi.Cond, True: true}.Normalize()
				if e.Of(g.Cond) == "P2->RawOutput" {
					rawCond = g.Cond
				}
			}
		}
		if rawCond == nil {
			ru.Fail("Display:raw-branch", p.Rel(fn.Pos()), "Binary.Display no longer branches on opts.RawOutput")
		} else {
			rawEntry := c05Branch(fn, rawCond, true)
			dumpEntry := c05Branch(fn, rawCond, false)
			inRaw := func(b *ssa.BasicBlock) bool {
				for _, s := range rawEntry {
					if fw.BlockReaches(s, b) {
						return true
					}
				}
				return false
			}
			inDump := func(b *ssa.BasicBlock) bool {
				for _, s := range dumpEntry {
					if fw.BlockReaches(s, b) {
						return true
					}
				}
				return false
			}
			const cp = "internal/bitiox.CopyBits(P1,(pkg/interp.Binary).toReader(P0)#0)"
			copies := fw.CallsTo(fn, "internal/bitiox.CopyBits")
			good := len(copies) == 1 && e.Of(copies[0]) == cp && inRaw(copies[0].Block()) && !inDump(copies[0].Block())
			d := ""
			if len(copies) > 0 {
				d = e.Of(copies[0])
			}
			ru.Check(good, "Display:raw-copy", p.Rel(fn.Pos()), "CopyBits(w, b.toReader())", "raw output must copy the binary's own (padded) reader to the writer: "+d)
			okRaw, okDump := true, false
			why := ""
			for _, ret := range c05Returns(fn) {
				if len(ret.Results) != 1 {
					continue
				}
				d := e.Of(ret.Results[0])
				switch {
				case inRaw(ret.Block()) && !inDump(ret.Block()):
					switch d {
					case "(pkg/interp.Binary).toReader(P0)#1", cp + "#1":
					case "nil":
						// success: the copy must have happened
						if len(copies) != 1 || !c05InstrDominates(copies[0], ret) {
							okRaw, why = false, "raw path returns success without copying"
						} else if !c05ErrNilAt(e, ret.Block(), "internal/bitiox.CopyBits(") {
							okRaw, why = false, "raw path returns success although the copy to the writer may have failed (truncated output reported as complete)"
						}
					default:
						okRaw, why = false, "raw path returns "+d
					}
				case inDump(ret.Block()) && !inRaw(ret.Block()):
					if d == "pkg/interp.hexdump(P1,P0,P2)" {
						okDump = true
					}
				default:
					okRaw, why = false, "a return is reachable both with and without raw output"
				}
			}
			ru.Check(okRaw, "Display:raw-returns", p.Rel(fn.Pos()), "raw path returns only the copy's outcome", "raw output path of Binary.Display: "+why)
			ru.Check(okDump, "Display:dump", p.Rel(fn.Pos()), "non-raw path is hexdump(w, b, opts)", "without raw output Binary.Display must hex dump the binary")
		}
	}
	if fn := c05Anchor(ru, p, "(*pkg/interp.Interp)._display"); fn != nil {
		e := fw.NewSymEnv(fn)
		good := false
		d := ""
		for _, c := range fw.CallsIn(fn) {
			if c.Common().IsInvoke() && c.Common().Method.Name() == "Display" {
				d = e.CallDesc(c)
				good = strings.HasSuffix(d, ",P0->EvalInstance.Output,pkg/interp.OptionsFromValue(P2)#0)") && strings.HasPrefix(d, "invoke.Display(assert<pkg/interp.Display>(P1)#0,")
			}
		}
		ru.Check(good, "_display", p.Rel(fn.Pos()), "v.Display(i.EvalInstance.Output, OptionsFromValue(v))", "_display must display its input on the evaluation's output with the options it was given: "+d)
	}
}

// c05ErrNilAt: at block b the error result (#1) of the call whose descriptor starts with callPrefix is known to be nil.
func c05ErrNilAt(e *fw.SymEnv, b *ssa.BasicBlock, callPrefix string) bool {
	for d, v := range c05GuardDescs(e, b) {
		if strings.HasPrefix(d, "("+callPrefix) && strings.HasSuffix(d, "#1 != nil)") && !v {
			return true
		}
		if strings.HasPrefix(d, "("+callPrefix) && strings.HasSuffix(d, "#1 == nil)") && v {
			return true
		}
		if strings.HasPrefix(d, "(nil != "+callPrefix) && !v || strings.HasPrefix(d, "(nil == "+callPrefix) && v {
			return true
		}
	}
	return false
}
