package rules

import (
	"fmt"
	"go/token"
	"go/types"
	"sort"
	"strings"

	"fqverif/fw"

	"golang.org/x/tools/go/ssa"
)

// ---------------------------------------------------------------------------
// C13.wrap: the generated adapters between gojq's (input, []args) calling convention and fq's typed
// Go functions
//
// Every gojqx.FuncN / IterN takes fn(env, c, a0..a{N-1}) and returns the adapter func(c any, a []any).
// gojq calls the adapter with between MinArity and MaxArity arguments. Necessary for totality:
//
//	arity    the Function literal declares MinArity == MaxArity == N (a smaller MinArity lets jq call the
//	         adapter with a shorter slice than it indexes: index out of range, an uncatchable panic)
//	index    every index into the argument slice is a constant < N
//	cast     the input and every argument a[k] go through CastFn, and fn receives exactly the cast
//	         result of c and of a[k] in position k (no raw `any` reaches the typed function, no argument
//	         is cast twice / from the wrong slot)
//	reject   the call of fn is reached only when every cast reported ok (a mismatch returns the typed
//	         error value instead of calling fn with a zero value)
//
// N is read from the signature of the fn parameter, adapters are found through the types
// (func(any, []any) closures nested in a gojqx function that returns func(env) Function).
func c13Wrap(r *fw.Run, p *fw.Program) {
	ru := r.Rule("C13.wrap", "every generated gojqx.FuncN/IterN adapter declares MinArity == MaxArity == N, indexes the argument slice only with constants < N, passes the input and each a[k] through CastFn into position k of the typed function, and calls the typed function only when every cast succeeded", 60)
	var wrappers []*ssa.Function
	for _, fn := range p.FqFunctions() {
		if pkgRel(fn) != "internal/gojqx" || fn.Parent() != nil || fn.Signature.Recv() != nil {
			continue
		}
		if fn.TypeParams().Len() == 0 || len(fn.TypeArgs()) != 0 {
			continue // the generic origin carries the body shared by all instances
		}
		if c13WrapArity(fn) < 0 {
			continue
		}
		wrappers = append(wrappers, fn)
	}
	sort.Slice(wrappers, func(i, j int) bool { return wrappers[i].Name() < wrappers[j].Name() })
	if len(wrappers) < 6 {
		ru.Undecided("anchor:wrappers", "", fmt.Sprintf("only %d gojqx adapter constructors (func(name, fn) func(env) Function) found, expected Func0-3 and Iter0-2", len(wrappers)))
	}
	for _, w := range wrappers {
		n := c13WrapArity(w)
		name := w.Name()
		pos := p.Rel(w.Pos())
		// the middle closure builds the Function value, the innermost one is the adapter
		var mids, adapters []*ssa.Function
		for _, f := range fw.WithClosures(w) {
			if f == w {
				continue
			}
			if c13IsAdapterSig(f.Signature) {
				adapters = append(adapters, f)
			} else if res := f.Signature.Results(); res.Len() == 1 && shortType(res.At(0).Type()) == "internal/gojqx.Function" {
				mids = append(mids, f)
			}
		}
		if len(mids) != 1 || len(adapters) != 1 {
			ru.Undecided(name+"|shape", pos, fmt.Sprintf("expected one closure building the Function value and one adapter closure, found %d and %d", len(mids), len(adapters)))
			continue
		}
		mid, ad := mids[0], adapters[0]
		// arity
		got := map[string]string{}
		fw.EachInstr(mid, func(ins ssa.Instruction) {
			st, ok := ins.(*ssa.Store)
			if !ok {
				return
			}
			fa, ok := st.Addr.(*ssa.FieldAddr)
			if !ok || structTypeShort(fa.X.Type()) != "internal/gojqx.Function" {
				return
			}
			f := fieldNameOf(fa.X.Type(), fa.Field)
			if f != "MinArity" && f != "MaxArity" {
				return
			}
			v := "non-constant"
			if c, ok := st.Val.(*ssa.Const); ok && c.Value != nil {
				v = fmt.Sprint(c.Int64())
			}
			if old, seen := got[f]; seen && old != v {
				v = "assigned twice"
			}
			got[f] = v
		})
		for _, f := range []string{"MinArity", "MaxArity"} {
			v, ok := got[f]
			if !ok {
				v = "0" // field left at its zero value
			}
			ru.Check(v == fmt.Sprint(n), name+"|arity:"+f, pos, fmt.Sprintf("%s == %d", f, n),
				fmt.Sprintf("%s declares %s = %s but its adapter takes %d arguments: gojq then calls it with an argument slice of another length than the adapter indexes (index out of range ends fq) or refuses valid calls", name, f, v, n))
		}
		// index
		if len(ad.Params) != 2 {
			ru.Undecided(name+"|shape", pos, "adapter without (c, a) parameters")
			continue
		}
		cPar, aPar := ad.Params[0], ad.Params[1]
		badIdx := ""
		fw.EachInstr(ad, func(ins ssa.Instruction) {
			ia, ok := ins.(*ssa.IndexAddr)
			if !ok || ia.X != ssa.Value(aPar) {
				return
			}
			c, ok := ia.Index.(*ssa.Const)
			if !ok || c.Value == nil {
				badIdx = "a non-constant index"
				return
			}
			if k := c.Int64(); k < 0 || k >= int64(n) {
				badIdx = fmt.Sprintf("a[%d]", k)
			}
		})
		if aPar.Referrers() != nil {
			for _, u := range *aPar.Referrers() {
				switch u.(type) {
				case *ssa.IndexAddr, *ssa.DebugRef:
				default:
					if badIdx == "" {
						badIdx = "the argument slice used other than by constant index"
					}
				}
			}
		}
		ru.Check(badIdx == "", name+"|index", pos, "argument slice indexed by constants below the arity only",
			fmt.Sprintf("%s's adapter uses %s but is called with exactly %d arguments: index out of range is an uncatchable runtime panic", name, badIdx, n))
		// cast + pass + reject
		var fnCall ssa.CallInstruction
		nCalls := 0
		for _, c := range fw.CallsIn(ad) {
			v := c.Common().Value
			if u, ok := v.(*ssa.UnOp); ok && u.Op == token.MUL {
				v = u.X
			}
			if fv, ok := v.(*ssa.FreeVar); ok && fv.Name() == "fn" && !c.Common().IsInvoke() {
				fnCall = c
				nCalls++
			}
		}
		if nCalls != 1 {
			ru.Undecided(name+"|call", pos, fmt.Sprintf("expected exactly one call of the typed function fn in the adapter, found %d", nCalls))
			continue
		}
		args := fnCall.Common().Args
		if len(args) != n+2 {
			ru.Fail(name+"|call", pos, fmt.Sprintf("the typed function is called with %d values, expected env, input and %d arguments", len(args), n))
			continue
		}
		guards := fw.Guards(fnCall.Block())
		for k := -1; k < n; k++ {
			slot := "c"
			if k >= 0 {
				slot = fmt.Sprintf("a[%d]", k)
			}
			arg := args[k+2]
			ex, _ := arg.(*ssa.Extract)
			var cast *ssa.Call
			if ex != nil && ex.Index == 0 {
				cast, _ = ex.Tuple.(*ssa.Call)
			}
			isCast := false
			if cast != nil {
				if cal := cast.Common().StaticCallee(); cal != nil && c13OriginName(cal) == fw.Mod+"/internal/gojqx.CastFn" {
					isCast = true
				}
			}
			if !isCast {
				ru.Fail(name+"|cast:"+slot, pos, fmt.Sprintf("position %d of the typed function does not receive the result of CastFn: an unconverted jq value would reach typed Go code", k+1))
				continue
			}
			src := cast.Common().Args[0]
			okSrc := false
			if k < 0 {
				okSrc = src == ssa.Value(cPar)
			} else if u, ok := src.(*ssa.UnOp); ok && u.Op == token.MUL {
				if ia, ok := u.X.(*ssa.IndexAddr); ok && ia.X == ssa.Value(aPar) {
					if c, ok := ia.Index.(*ssa.Const); ok && c.Value != nil && c.Int64() == int64(k) {
						okSrc = true
					}
				}
			}
			ru.Check(okSrc, name+"|cast:"+slot, pos, "cast result of "+slot+" passed in its own position",
				fmt.Sprintf("position %d of the typed function receives a cast of something else than %s (wrong slot of the argument slice)", k+1, slot))
			// reject: fn is called only under ok == true of this cast
			rejected := false
			for _, g := range guards {
				g = g.Normalize()
				if ge, ok := g.Cond.(*ssa.Extract); ok && ge.Tuple == ssa.Value(cast) && ge.Index == 1 && g.True {
					rejected = true
				}
			}
			ru.Check(rejected, name+"|reject:"+slot, pos, "typed function called only when the cast of "+slot+" succeeded",
				fmt.Sprintf("%s calls the typed function although the cast of %s may have failed: a mistyped jq value is replaced by a zero value instead of being rejected with a type error", name, slot))
		}
	}
}

// c13WrapArity: fn is func(name string, fn func(env, c, a0..aN-1) R) func(env) Function; returns N or -1.
func c13WrapArity(fn *ssa.Function) int {
	sig := fn.Signature
	if sig.Params().Len() != 2 || sig.Results().Len() != 1 {
		return -1
	}
	inner, ok := sig.Params().At(1).Type().Underlying().(*types.Signature)
	if !ok || inner.Params().Len() < 2 {
		return -1
	}
	res, ok := sig.Results().At(0).Type().Underlying().(*types.Signature)
	if !ok || res.Results().Len() != 1 || !strings.HasSuffix(types.TypeString(res.Results().At(0).Type(), nil), "internal/gojqx.Function") {
		return -1
	}
	return inner.Params().Len() - 2
}

// c13IsAdapterSig: func(any, []any) X
func c13IsAdapterSig(sig *types.Signature) bool {
	if sig.Params().Len() != 2 || sig.Results().Len() != 1 {
		return false
	}
	i, ok := sig.Params().At(0).Type().Underlying().(*types.Interface)
	if !ok || !i.Empty() {
		return false
	}
	sl, ok := sig.Params().At(1).Type().Underlying().(*types.Slice)
	if !ok {
		return false
	}
	ei, ok := sl.Elem().Underlying().(*types.Interface)
	return ok && ei.Empty()
}
