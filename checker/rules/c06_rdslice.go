package rules

import (
	"fmt"
	"go/types"
	"regexp"
	"strings"

	"golang.org/x/tools/go/ssa"

	"fqverif/fw"
)

// ---------------------------------------------------------------------------
// C06.rdslice: what a reader returned is only indexed / re-sliced inside what it returned
//
// In decoder code a []byte obtained from d.BytesLen(n) / PeekBytes(n) / BytesRange(_, n) has exactly n
// bytes; a string obtained from a text reader (UTF8(n), UTF16.., FieldUTF8.., ...) has *about* n bytes: the
// decoder strips a byte order mark and replaces invalid sequences, mappers trim it. Obligation, for every
// index or slice expression with a non-constant operand applied directly to such a value: the operand is
// proved inside by a dominating test against len(value) whose failing arm does not continue; for the byte
// readers the requested length n may stand for the length (operand - n proved <= 0 / < 0, where unsigned
// atoms of the difference are taken at their interval).

var rdsliceExceptions = map[string]string{}

var c06TextReaderRe = regexp.MustCompile(`^(Try)?(Field)?(UTF8|UTF16|UTF16LE|UTF16BE|Str|Text)`)

// c06ReaderBuffer: v is the direct result of a decode.D byte or text reader; returns the call, the
// requested length argument (nil for text readers) and whether the length is exact.
func c06ReaderBuffer(v ssa.Value) (call *ssa.Call, n ssa.Value, exact bool) {
	switch x := v.(type) {
	case *ssa.Extract:
		if c, ok := x.Tuple.(*ssa.Call); ok && x.Index == 0 {
			return c06ReaderBuffer(c)
		}
	case *ssa.Call:
		cal := x.Common().StaticCallee()
		if cal == nil || cal.Signature.Recv() == nil || !isDecodeD(cal.Signature.Recv().Type()) {
			return nil, nil, false
		}
		args := x.Common().Args
		switch cal.Name() {
		case "BytesLen", "TryBytesLen", "PeekBytes", "TryPeekBytes":
			if len(args) > 1 {
				return x, args[1], true
			}
		case "BytesRange", "TryBytesRange":
			if len(args) > 2 {
				return x, args[2], true
			}
		}
		res := cal.Signature.Results()
		if res.Len() >= 1 && c06TextReaderRe.MatchString(cal.Name()) {
			if bt, ok := res.At(0).Type().Underlying().(*types.Basic); ok && bt.Kind() == types.String {
				return x, nil, false
			}
		}
	}
	return nil, nil, false
}

func c06RdSlice(r *fw.Run, p *fw.Program) {
	ru := r.Rule("C06.rdslice", "in decoder code (format/**) a []byte returned by d.BytesLen/PeekBytes/BytesRange(n) or a string returned by a text reader (UTF8, UTF16.., Str.., with or without Field) that is indexed or re-sliced with a non-constant operand has that operand proved inside by a dominating test against len of the value (for the byte readers: against the requested n); a text reader's result may be shorter than requested (BOM stripped, trimmed)", 6)
	for _, fn := range p.FqFunctions() {
		pr := pkgRel(fn)
		if !strings.HasPrefix(pr, "format") || !linkedPackages(p)[fw.FnPkgPath(fn)] {
			continue
		}
		var env *fw.PolyEnv
		var ienv *fw.IntervalEnv
		ord := map[string]int{}
		fw.EachInstr(fn, func(ins ssa.Instruction) {
			type opnd struct {
				v    ssa.Value
				what string
				rel  fw.Rel
			}
			var xs ssa.Value
			var ops []opnd
			switch y := ins.(type) {
			case *ssa.IndexAddr:
				xs, ops = y.X, []opnd{{y.Index, "index", fw.LT}}
			case *ssa.Index:
				xs, ops = y.X, []opnd{{y.Index, "index", fw.LT}}
			case *ssa.Slice:
				xs, ops = y.X, []opnd{{y.Low, "slice low", fw.LE}, {y.High, "slice high", fw.LE}}
			default:
				return
			}
			call, n, exact := c06ReaderBuffer(xs)
			if call == nil {
				return
			}
			for _, o := range ops {
				if o.v == nil {
					continue
				}
				if _, isC := o.v.(*ssa.Const); isC {
					continue
				}
				if env == nil {
					env = c06NewPolyEnv(fn)
					ienv = fw.NewIntervalEnv(fn)
					ienv.CallRange = readerCallRange
				}
				name := call.Common().StaticCallee().Name()
				ord[name]++
				key := fmt.Sprintf("%s|%s|%s|%d", fw.ShortFn(fn), name, o.what, ord[name])
				if c06MinWithLen(env, o.v, xs) && o.rel == fw.LE {
					ru.Ok(key, p.Rel(ins.Pos()), "operand is min(.., len(value))")
					continue
				}
				if c06ProvedInside(env, xs, o.v, o.rel, ins.Block()) {
					ru.Ok(key, p.Rel(ins.Pos()), "operand tested against the length of the value")
					continue
				}
				if exact && n != nil && c06DiffWithin(env, ienv, o.v, n, o.rel, ins.Block()) {
					ru.Ok(key, p.Rel(ins.Pos()), "operand proved inside the requested length")
					continue
				}
				if reason, ok := rdsliceExceptions[key]; ok {
					ru.Except(key, p.Rel(ins.Pos()), reason)
					continue
				}
				what := "a []byte of the requested length"
				if !exact {
					what = "a string that can be shorter than requested (byte order mark stripped, mapper trimmed) or longer (invalid sequences replaced)"
				}
				ru.Fail(key, p.Rel(ins.Pos()), fmt.Sprintf("%s %s of the result of %s, %s, with no dominating test against its length: slice bounds / index out of range on crafted input", o.what, env.Of(o.v).String(), name, what))
			}
		})
	}
}

// c06DiffWithin: (v - n) rel 0 by polynomial facts, or because the difference is a polynomial whose
// non-constant terms are single values of known interval (evaluated at the worst end).
func c06DiffWithin(env *fw.PolyEnv, ienv *fw.IntervalEnv, v, n ssa.Value, rel fw.Rel, b *ssa.BasicBlock) bool {
	q := fw.StripVersions(env.Of(v)).Sub(fw.StripVersions(env.Of(n)))
	want := fw.Cmp{P: q, Rel: rel}
	if c, isConst := q.IsConst(); isConst {
		return (rel == fw.LT && c < 0) || (rel == fw.LE && c <= 0)
	}
	for _, f := range c06Facts(env, b) {
		f.P = fw.StripVersions(f.P)
		if f.Implies(want) {
			return true
		}
	}
	// interval evaluation: collect the values under v and n whose polynomial is a single atom
	atomIv := map[string]fw.Interval{}
	var walk func(x ssa.Value, depth int)
	seen := map[ssa.Value]bool{}
	walk = func(x ssa.Value, depth int) {
		if x == nil || depth > 8 || seen[x] {
			return
		}
		seen[x] = true
		px := fw.StripVersions(env.Of(x))
		if at := px.Atoms(); len(at) == 1 && px.Coef(at[0]) == 1 && px.Const() == 0 && c06Linear(px, at[0]) {
			iv := c06At(ienv, x, b)
			if old, ok := atomIv[at[0]]; ok {
				iv = iv.Meet(old)
			}
			atomIv[at[0]] = iv
		}
		switch y := x.(type) {
		case *ssa.BinOp:
			walk(y.X, depth+1)
			walk(y.Y, depth+1)
		case *ssa.Convert:
			walk(y.X, depth+1)
		case *ssa.Phi:
			for _, e := range y.Edges {
				walk(e, depth+1)
			}
		}
	}
	walk(v, 0)
	walk(n, 0)
	hi := q.Const()
	for _, at := range q.Atoms() {
		if !c06Linear(q.Sub(q.Sub(fw.PAtom(at).MulC(q.Coef(at)))), at) {
			return false
		}
		c := q.Coef(at)
		iv, ok := atomIv[at]
		if !ok || c == 0 {
			return false
		}
		if c > 0 {
			if iv.HiInf {
				return false
			}
			hi += c * iv.Hi
		} else {
			if iv.LoInf {
				return false
			}
			hi += c * iv.Lo
		}
	}
	// every monomial must have been a plain atom (no products)
	for k := range q.T {
		if k != "" && strings.Contains(k, "*") {
			return false
		}
	}
	return (rel == fw.LT && hi < 0) || (rel == fw.LE && hi <= 0)
}

// c06MinWithLen: v is min(...) (through integer conversions) with len(xs) among its arguments.
func c06MinWithLen(env *fw.PolyEnv, v ssa.Value, xs ssa.Value) bool {
	c, ok := stripIntConv(v).(*ssa.Call)
	if !ok || !fw.IsBuiltinCall(c, "min") {
		return false
	}
	la, _ := c06LenAtom(env, xs)
	for _, a := range c.Common().Args {
		if fw.StripVersions(env.Of(a)).Equal(la) {
			return true
		}
		if lc, ok := stripIntConv(a).(*ssa.Call); ok && fw.IsBuiltinCall(lc, "len") && lc.Common().Args[0] == xs {
			return true
		}
	}
	return false
}
