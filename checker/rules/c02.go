package rules

// C02 — scalar readers return the mathematical value of the bits they consume.
//
// c02.go       reader-family rules over the ~2.5k generated methods of *decode.D
//              (C02.family, C02.flow, C02.nilerr, C02.scalarfn, C02.enc)
// c02_leaf.go  the hand-written leaf readers of read.go and the primitives of decode.go
//              (C02.leaf, C02.guard, C02.err, C02.pos, C02.leb, C02.twos, C02.float)
// c02_bits.go  bit-level facts: ReverseBytes64, ReverseBytes, float80/float16 assembly
//              (C02.rev, C02.f80, C02.f16)

import (
	"fmt"
	"go/constant"
	"go/types"
	"regexp"
	"sort"
	"strconv"
	"strings"

	"golang.org/x/tools/go/ssa"

	"fqverif/fw"
)

func init() { Register("C02", runC02) }

func runC02(r *fw.Run, p *fw.Program) {
	c := newC02(r, p)
	if c == nil {
		return
	}
	c02DebugDump(p)
	c.family()
	c.scalarFn()
	c.encodings()
	c.leafRules()
	c.bitRules()
	// readers of more than 64 bits (big integers, text, raw bytes) get their bytes from IOBitReadSeeker.ReadBitsAt:
	// every fetched byte is moved to its place (borrowed from C01.fetch)
	{
		sc := r.Scratch()
		c01Fetch(sc, p)
		r.Import(sc, "C01.fetch", "C02.fetch", "the wide readers (big integers, text, byte slices: more than one Read64) get their bytes through IOBitReadSeeker.ReadBitsAt, which moves every fetched byte to its place: byte-copy arm only for aligned offsets, the extraction loop reads byte i of the destination from source bit readSkipBits + 8*i with i running over every destination byte (C01.fetch obligations)", 5, nil)
	}
	r.Assumption("math/big, encoding/binary, math.Float32frombits/Float64frombits and golang.org/x/text decoders behave as documented")
	r.Assumption("bitio.Read64/ReadFull (MSB-first extraction at any alignment) are the subject of C01, not re-decided here")
}

type c02 struct {
	r      *fw.Run
	p      *fw.Program
	dNamed *types.Named
	le, be string // constant values of decode.LittleEndian / BigEndian as Sx strings
	sigs   map[*ssa.Function]*c02Sig
	floatW map[int]bool
}

func newC02(r *fw.Run, p *fw.Program) *c02 {
	c := &c02{r: r, p: p, sigs: map[*ssa.Function]*c02Sig{}}
	c.dNamed = p.NamedType("pkg/decode", "D")
	if c.dNamed == nil {
		r.Fatal("anchor missing: pkg/decode.D")
		return nil
	}
	pk := p.Pkg("pkg/decode")
	for name, dst := range map[string]*string{"LittleEndian": &c.le, "BigEndian": &c.be} {
		o, _ := pk.Types.Scope().Lookup(name).(*types.Const)
		if o == nil || o.Val().Kind() != constant.Int {
			r.Fatal("anchor missing: decode." + name + " constant")
			return nil
		}
		*dst = o.Val().ExactString()
	}
	if c.le == c.be {
		r.Fatal("decode.LittleEndian == decode.BigEndian")
		return nil
	}
	return c
}

// isDMethod reports whether fn is a method with receiver *decode.D.
func (c *c02) isDMethod(fn *ssa.Function) bool {
	if fn == nil || fn.Signature.Recv() == nil {
		return false
	}
	pt, ok := fn.Signature.Recv().Type().(*types.Pointer)
	return ok && types.Identical(pt.Elem(), c.dNamed)
}

func (c *c02) dMethod(name string) *ssa.Function {
	return c.p.Fn("(*pkg/decode.D)." + name)
}

// ---------------------------------------------------------------------------
// reader-family names (the public contract)

type c02FamName struct {
	Try, Field, Scalar bool
	Reader             string
}

var (
	c02ReInt    = regexp.MustCompile(`^(U|S)(\d+)?(E|LE|BE)?$`)
	c02ReBigInt = regexp.MustCompile(`^(U|S)BigInt(E|LE|BE)?$`)
	c02ReFlt    = regexp.MustCompile(`^F(\d+)?(E|LE|BE)?$`)
	c02ReFP     = regexp.MustCompile(`^FP(\d+)?(E|LE|BE)?$`)
	c02ReUTF    = regexp.MustCompile(`^UTF(8|16|16LE|16BE)(Null)?$`)
	c02RePlumb  = regexp.MustCompile(`^TryFieldScalar([A-Z][A-Za-z]*)Fn$`)
)

var c02LeafNames = map[string]bool{
	"tryUEndian": true, "trySEndian": true, "tryBigIntEndianSign": true, "tryFEndian": true, "tryFPEndian": true,
	"tryBool": true, "tryUnary": true, "tryULEB128": true, "trySLEB128": true,
	"tryText": true, "tryTextLenPrefixed": true, "tryTextNull": true, "tryTextNullLen": true, "tryBitBuf": true,
}

func c02ParseFam(name string) (c02FamName, bool) {
	f := c02FamName{}
	rest := name
	if strings.HasPrefix(rest, "Try") {
		f.Try = true
		rest = rest[3:]
	}
	if strings.HasPrefix(rest, "Field") {
		f.Field = true
		rest = rest[5:]
		if strings.HasPrefix(rest, "Scalar") {
			f.Scalar = true
			rest = rest[6:]
		}
	}
	f.Reader = rest
	if _, ok := (&c02{le: "1", be: "0"}).expected(rest); !ok {
		return f, false
	}
	return f, true
}

type c02Sig struct {
	Leaf string
	Args []string
	Err  string
}

func (s *c02Sig) String() string {
	if s == nil {
		return "<none>"
	}
	if s.Err != "" {
		return "<" + s.Err + ">"
	}
	return s.Leaf + "(" + strings.Join(s.Args, ", ") + ")"
}

// expected derives, from the reader part of a method name alone, the leaf reader and the
// arguments it must be called with. aN = N-th reader parameter of the method.
func (c *c02) expected(reader string) (*c02Sig, bool) {
	endian := func(suffix string, next int) string {
		switch suffix {
		case "":
			return "recv.Endian"
		case "E":
			return "a" + strconv.Itoa(next)
		case "LE":
			return c.le
		case "BE":
			return c.be
		}
		return "?"
	}
	if m := c02ReBigInt.FindStringSubmatch(reader); m != nil {
		sign := "false"
		if m[1] == "S" {
			sign = "true"
		}
		return &c02Sig{Leaf: "tryBigIntEndianSign", Args: []string{"a0", endian(m[2], 1), sign}}, true
	}
	if m := c02ReInt.FindStringSubmatch(reader); m != nil {
		leaf := "tryUEndian"
		if m[1] == "S" {
			leaf = "trySEndian"
		}
		if m[2] == "" {
			return &c02Sig{Leaf: leaf, Args: []string{"a0", endian(m[3], 1)}}, true
		}
		if m[3] == "E" {
			return nil, false
		}
		n, _ := strconv.Atoi(m[2])
		if n < 1 || n > 64 {
			return &c02Sig{Err: "integer width outside 1..64"}, true
		}
		return &c02Sig{Leaf: leaf, Args: []string{m[2], endian(m[3], 0)}}, true
	}
	if m := c02ReFP.FindStringSubmatch(reader); m != nil {
		if m[1] == "" {
			return &c02Sig{Leaf: "tryFPEndian", Args: []string{"a0", "a1", endian(m[2], 2)}}, true
		}
		if m[2] == "E" {
			return nil, false
		}
		n, _ := strconv.Atoi(m[1])
		if n%2 != 0 {
			return &c02Sig{Err: "odd fixed point width"}, true
		}
		return &c02Sig{Leaf: "tryFPEndian", Args: []string{m[1], strconv.Itoa(n / 2), endian(m[2], 0)}}, true
	}
	if m := c02ReFlt.FindStringSubmatch(reader); m != nil {
		if m[1] == "" {
			return &c02Sig{Leaf: "tryFEndian", Args: []string{"a0", endian(m[2], 1)}}, true
		}
		if m[2] == "E" {
			return nil, false
		}
		return &c02Sig{Leaf: "tryFEndian", Args: []string{m[1], endian(m[2], 0)}}, true
	}
	if m := c02ReUTF.FindStringSubmatch(reader); m != nil {
		enc := map[string]string{"8": "g:decode.UTF8BOM", "16": "g:decode.UTF16BOM", "16LE": "g:decode.UTF16LE", "16BE": "g:decode.UTF16BE"}[m[1]]
		if m[2] == "Null" {
			cb := "2"
			if m[1] == "8" {
				cb = "1"
			}
			return &c02Sig{Leaf: "tryTextNull", Args: []string{cb, enc}}, true
		}
		return &c02Sig{Leaf: "tryText", Args: []string{"a0", enc}}, true
	}
	switch reader {
	case "Bool":
		return &c02Sig{Leaf: "tryBool"}, true
	case "Unary":
		return &c02Sig{Leaf: "tryUnary", Args: []string{"a0"}}, true
	case "ULEB128":
		return &c02Sig{Leaf: "tryULEB128"}, true
	case "SLEB128":
		return &c02Sig{Leaf: "trySLEB128"}, true
	case "UTF8ShortString":
		return &c02Sig{Leaf: "tryTextLenPrefixed", Args: []string{"1", "-1", "g:decode.UTF8BOM"}}, true
	case "UTF8ShortStringFixedLen":
		return &c02Sig{Leaf: "tryTextLenPrefixed", Args: []string{"1", "a0", "g:decode.UTF8BOM"}}, true
	case "UTF8NullFixedLen":
		return &c02Sig{Leaf: "tryTextNullLen", Args: []string{"a0", "g:decode.UTF8BOM"}}, true
	case "Str":
		return &c02Sig{Leaf: "tryText", Args: []string{"a0", "a1"}}, true
	case "RawLen":
		return &c02Sig{Leaf: "tryBitBuf", Args: []string{"a0"}}, true
	}
	return nil, false
}

// ---------------------------------------------------------------------------
// per-method analysis

// c02Method is what one family method does: its single reader call (leaf, sibling or the
// TryFieldScalar<T>Fn plumbing with a closure holding the leaf call).
type c02Method struct {
	fn       *ssa.Function
	fam      c02FamName
	env      *fw.SxEnv
	call     *ssa.Call // the reader/plumbing call in fn itself
	kind     string    // "leaf" | "sibling" | "plumb"
	inner    *ssa.Call // for plumb: the leaf/sibling call inside the closure
	innerEnv *fw.SxEnv
	innerFn  *ssa.Function
	problems []string
}

func (c *c02) classify(callee *ssa.Function) string {
	if !c.isDMethod(callee) {
		return ""
	}
	n := callee.Name()
	if c02LeafNames[n] {
		return "leaf"
	}
	if c02RePlumb.MatchString(n) {
		return "plumb"
	}
	if _, ok := c02ParseFam(n); ok {
		return "sibling"
	}
	if n == "IOPanic" {
		return "iopanic"
	}
	return "other:" + n
}

func (c *c02) analyse(fn *ssa.Function, fam c02FamName) *c02Method {
	m := &c02Method{fn: fn, fam: fam, env: fw.NewSxEnv(fn)}
	var readers []*ssa.Call
	var kinds []string
	fw.EachInstr(fn, func(ins ssa.Instruction) {
		switch x := ins.(type) {
		case *ssa.Call:
			k := c.classify(x.Common().StaticCallee())
			switch {
			case k == "leaf" || k == "sibling" || k == "plumb":
				readers = append(readers, x)
				kinds = append(kinds, k)
			case strings.HasPrefix(k, "other:"):
				m.problems = append(m.problems, "calls (*D)."+k[6:])
			}
		case *ssa.Go, *ssa.Defer:
			m.problems = append(m.problems, "go/defer in a reader method")
		}
	})
	if len(readers) != 1 {
		m.problems = append(m.problems, fmt.Sprintf("%d reader calls in the method body (want exactly 1)", len(readers)))
		return m
	}
	m.call, m.kind = readers[0], kinds[0]
	if m.kind != "plumb" {
		if len(fn.AnonFuncs) != 0 {
			m.problems = append(m.problems, "closure in a non-plumbing reader method")
		}
		return m
	}
	// plumbing: the closure argument holds the single leaf call
	var cfn *ssa.Function
	var binds []ssa.Value
	for _, a := range m.call.Common().Args {
		if f, b, ok := fw.SxAnonArg(a); ok {
			if cfn != nil {
				m.problems = append(m.problems, "two closures passed to the plumbing call")
			}
			cfn, binds = f, b
		}
	}
	if cfn == nil || len(fn.AnonFuncs) != 1 || fn.AnonFuncs[0] != cfn {
		m.problems = append(m.problems, "plumbing call without exactly one closure argument")
		return m
	}
	m.innerFn = cfn
	m.innerEnv = m.env.SubEnvFn(cfn, binds)
	var inner []*ssa.Call
	fw.EachInstr(m.innerFn, func(ins ssa.Instruction) {
		switch x := ins.(type) {
		case *ssa.MakeClosure:
			m.problems = append(m.problems, "nested closure in reader closure")
		case *ssa.Call:
			k := c.classify(x.Common().StaticCallee())
			switch {
			case k == "leaf" || k == "sibling":
				inner = append(inner, x)
			case k == "plumb" || strings.HasPrefix(k, "other:"):
				m.problems = append(m.problems, "reader closure calls (*D)."+x.Common().StaticCallee().Name())
			}
		}
	})
	if len(inner) != 1 {
		m.problems = append(m.problems, fmt.Sprintf("%d reader calls in the closure (want exactly 1)", len(inner)))
		return m
	}
	m.inner = inner[0]
	return m
}

// c02RoleOf translates a canonical argument of fn (p<k>, q0, ...) into a role term.
func c02RoleOf(fn *ssa.Function, fam c02FamName, s string) string {
	np := len(fn.Params) - 1 // without receiver
	conv := func(tok string) (string, bool) {
		if !strings.HasPrefix(tok, "p") {
			return "", false
		}
		k, err := strconv.Atoi(tok[1:])
		if err != nil {
			return "", false
		}
		off := 0
		if fam.Field {
			if k == 0 {
				return "name", true
			}
			off = 1
		}
		if fn.Signature.Variadic() && k == np-1 {
			return "sms", true
		}
		return "a" + strconv.Itoa(k-off), true
	}
	switch {
	case s == "q0":
		return "recv"
	case s == "q0.Endian":
		return "recv.Endian"
	}
	if r, ok := conv(s); ok {
		return r
	}
	return s
}

func (c *c02) sigOf(fn *ssa.Function, depth int) *c02Sig {
	if s, ok := c.sigs[fn]; ok {
		return s
	}
	if depth > 6 {
		return &c02Sig{Err: "delegation chain too deep"}
	}
	fam, ok := c02ParseFam(fn.Name())
	if !ok {
		return &c02Sig{Err: "not a family method"}
	}
	m := c.analyse(fn, fam)
	s := c.sigOfMethod(m, depth)
	c.sigs[fn] = s
	return s
}

func (c *c02) sigOfMethod(m *c02Method, depth int) *c02Sig {
	if len(m.problems) > 0 {
		return &c02Sig{Err: strings.Join(m.problems, "; ")}
	}
	call, env, inClosure := m.call, m.env, false
	if m.kind == "plumb" {
		call, env, inClosure = m.inner, m.innerEnv, true
	}
	callee := call.Common().StaticCallee()
	var args []string
	for _, a := range call.Common().Args {
		args = append(args, c02RoleOf(m.fn, m.fam, env.Of(a)))
	}
	if len(args) == 0 || args[0] != "recv" {
		return &c02Sig{Err: "reader called on a different *D than the receiver"}
	}
	_ = inClosure
	args = args[1:]
	if c02LeafNames[callee.Name()] {
		return &c02Sig{Leaf: callee.Name(), Args: args}
	}
	// sibling: substitute
	cf, _ := c02ParseFam(callee.Name())
	if cf.Field {
		if len(args) == 0 || args[0] != "name" {
			return &c02Sig{Err: "field name not forwarded to " + callee.Name()}
		}
		args = args[1:]
	}
	if callee.Signature.Variadic() {
		if len(args) == 0 || args[len(args)-1] != "sms" {
			return &c02Sig{Err: "mappers not forwarded to " + callee.Name()}
		}
		args = args[:len(args)-1]
	}
	cs := c.sigOf(callee, depth+1)
	if cs.Err != "" {
		return &c02Sig{Err: "via " + callee.Name() + ": " + cs.Err}
	}
	out := &c02Sig{Leaf: cs.Leaf}
	for _, a := range cs.Args {
		if strings.HasPrefix(a, "a") {
			if k, err := strconv.Atoi(a[1:]); err == nil {
				if k >= len(args) {
					return &c02Sig{Err: "too few arguments forwarded to " + callee.Name()}
				}
				a = args[k]
			}
		}
		out.Args = append(out.Args, a)
	}
	return out
}

func c02EqualSig(a, b *c02Sig) bool {
	if a.Err != "" || b.Err != "" || a.Leaf != b.Leaf || len(a.Args) != len(b.Args) {
		return false
	}
	for i := range a.Args {
		if a.Args[i] != b.Args[i] {
			return false
		}
	}
	return true
}

// c02TemplateKey abstracts the reader token of a family method name: TryFieldU37LE -> TryField<R>.
func c02TemplateKey(f c02FamName) string {
	s := ""
	if f.Try {
		s += "Try"
	}
	if f.Field {
		s += "Field"
	}
	if f.Scalar {
		s += "Scalar"
	}
	return s + "<R>"
}

func (c *c02) family() {
	r, p := c.r, c.p
	ruFam := r.Rule("C02.family", "every reader-family method of *decode.D (name = contract: width, endian, signedness, kind) reaches, through same-family delegation only, exactly one leaf reader call whose constant width/endian/sign/encoding arguments are the ones its name states", 2400)
	ruFlow := r.Rule("C02.flow", "every reader-family method returns the value and the error of its single reader call (or .Actual of its scalar), never a value on the error path: non-Try variants reach return only with err==nil proven (failing arm does not return)", 2400)
	ruNil := r.Rule("C02.nilerr", "a reader-family method dereferences the scalar pointer of a fallible sibling only where err==nil is proven", 800)

	c.floatW = c.floatWidths()
	var methods []*ssa.Function
	for _, fn := range p.FqFunctions() {
		if fn.Parent() == nil && c.isDMethod(fn) {
			if _, ok := c02ParseFam(fn.Name()); ok {
				methods = append(methods, fn)
			}
		}
	}
	sort.Slice(methods, func(i, j int) bool { return methods[i].Name() < methods[j].Name() })
	nilFail := map[string][]string{}
	nilPos := map[string]string{}
	readers := map[string]int{}
	for _, fn := range methods {
		fam, _ := c02ParseFam(fn.Name())
		readers[fam.Reader]++
		key := fn.Name()
		pos := p.Rel(fn.Pos())
		want, _ := c.expected(fam.Reader)
		got := c.sigOf(fn, 0)
		switch {
		case want.Err != "":
			ruFam.Fail(key, pos, "name promises an impossible reader: "+want.Err)
		case got.Err != "":
			ruFam.Undecided(key, pos, "cannot resolve the reader call: "+got.Err)
		case !c02EqualSig(want, got):
			ruFam.Fail(key, pos, fmt.Sprintf("name promises %s but the method reads %s", want, got))
		case want.Leaf == "tryFEndian" && c02IsNum(want.Args[0]) && !c.floatW[c02Atoi(want.Args[0])]:
			ruFam.Fail(key, pos, "float width "+want.Args[0]+" is not one tryFEndian converts")
		default:
			ruFam.Ok(key, pos, got.String())
		}
		m := c.analyse(fn, fam)
		if len(m.problems) > 0 {
			ruFlow.Undecided(key, pos, strings.Join(m.problems, "; "))
			continue
		}
		if msg := c.flow(m); msg != "" {
			ruFlow.Fail(key, pos, msg)
		} else {
			ruFlow.Ok(key, pos, "value and error of the reader call are what is returned")
		}
		derefs, bad := c.nilDeref(m)
		if derefs > 0 {
			if bad != "" {
				tk := c02TemplateKey(fam)
				nilFail[tk] = append(nilFail[tk], fn.Name())
				if nilPos[tk] == "" {
					nilPos[tk] = pos + ": " + bad
				}
			} else {
				ruNil.Ok(key, pos, "dereference guarded or callee infallible")
			}
		}
	}
	for _, tk := range fw.SortedKeys(nilFail) {
		names := nilFail[tk]
		ex := names
		if len(ex) > 4 {
			ex = ex[:4]
		}
		ruNil.Fail("tmpl:"+tk, strings.SplitN(nilPos[tk], ": ", 2)[0], fmt.Sprintf("%d methods (%s, ...) %s", len(names), strings.Join(ex, ", "), strings.SplitN(nilPos[tk], ": ", 2)[1]))
	}
	// every reader kind of the property statement is present with all six variants
	ruKinds := r.Rule("C02.kinds", "the quantifier domain of the property is present: U and S readers exist for every width 1..64, LE/BE for every width 8..64, each in all six API variants (so that C02.family decides every width, endian and signedness the property names)", 2)
	for _, k := range []string{"U", "S"} {
		missing := []string{}
		for n := 1; n <= 64; n++ {
			for _, e := range []string{"", "LE", "BE"} {
				if e != "" && n < 8 {
					continue
				}
				if readers[k+strconv.Itoa(n)+e] != 6 {
					missing = append(missing, k+strconv.Itoa(n)+e)
				}
			}
		}
		ruKinds.Check(len(missing) == 0, "widths:"+k, "", "1..64 complete", "missing readers: "+strings.Join(missing, " "))
	}
	r.Notes["C02.family.methods"] = len(methods)
}

func c02IsNum(s string) bool { _, err := strconv.Atoi(s); return err == nil }
func c02Atoi(s string) int   { n, _ := strconv.Atoi(s); return n }

// flow checks what a family method returns. "" = fine.
func (c *c02) flow(m *c02Method) string {
	if m.kind == "plumb" {
		// closure: returns (scalar{Actual: leaf#0}, leaf#1)
		if msg := c.flowOf(m.innerFn, m.innerEnv, m.inner, true); msg != "" {
			return "closure: " + msg
		}
	}
	return c.flowOf(m.fn, m.env, m.call, false)
}

// flowOf: fn returns the results of call R.
func (c *c02) flowOf(fn *ssa.Function, env *fw.SxEnv, call *ssa.Call, wrapScalar bool) string {
	res := call.Common().Signature().Results()
	hasErr := res.Len() == 2
	if res.Len() < 1 || res.Len() > 2 {
		return "reader call with unexpected result arity"
	}
	fres := fn.Signature.Results()
	if fres.Len() < 1 || fres.Len() > 2 {
		return "method with unexpected result arity"
	}
	retErr := fres.Len() == 2
	if retErr && !hasErr {
		return "Try method built on an infallible (panicking) reader"
	}
	var vVal, eVal ssa.Value
	if hasErr {
		if call.Referrers() != nil {
			for _, ref := range *call.Referrers() {
				if ex, ok := ref.(*ssa.Extract); ok {
					if ex.Index == 0 {
						vVal = ex
					} else {
						eVal = ex
					}
				}
			}
		}
		if eVal == nil {
			return "error result of the reader call is dropped"
		}
		if vVal == nil {
			return "value result of the reader call is dropped"
		}
	} else {
		vVal = call
	}
	// name the two results V and E
	env2 := *env
	e := &env2
	e.Alias = map[ssa.Value]string{vVal: "V"}
	e.ResetMemo()
	if eVal != nil {
		e.Alias[eVal] = "E"
	}
	okVals := map[string]bool{"V": true}
	vt := vVal.Type()
	rt := fres.At(0).Type()
	switch {
	case wrapScalar:
		okVals = map[string]bool{}
	case types.Identical(vt, rt):
	default:
		okVals = map[string]bool{"V.Actual": true}
	}
	nret := 0
	for _, b := range fn.Blocks {
		ret, ok := b.Instrs[len(b.Instrs)-1].(*ssa.Return)
		if !ok {
			continue
		}
		nret++
		errKnown := eVal != nil && (e.HasGuard(b, "+(!= E nil)") || e.HasGuard(b, "-(== E nil)"))
		okKnown := eVal == nil || e.HasGuard(b, "-(!= E nil)") || e.HasGuard(b, "+(== E nil)")
		v := e.Of(ret.Results[0])
		if wrapScalar {
			// {Actual:V} possibly with further constant fields
			if !errKnown && !(strings.HasPrefix(v, "{") && strings.Contains(v, "Actual:V")) {
				return "closure returns " + v + " instead of a scalar holding the value read"
			}
		} else if !errKnown && !okVals[v] {
			return "returns " + v + " instead of the value read"
		}
		if retErr {
			ev := e.Of(ret.Results[1])
			if !(ev == "E" || (ev == "nil" && okKnown)) {
				return "returns error " + ev + " instead of the reader's error"
			}
		} else if !okKnown {
			return "non-Try method can return while the reader's error is non-nil"
		}
	}
	if nret == 0 {
		return "method never returns"
	}
	return ""
}

// nilDeref: number of dereferences of the pointer result of a fallible reader call, and a
// description of an unguarded one.
func (c *c02) nilDeref(m *c02Method) (int, string) {
	call := m.call
	if call.Common().Signature().Results().Len() != 2 {
		// infallible sibling: returns only on success
		n := 0
		if _, ok := call.Type().Underlying().(*types.Pointer); ok && call.Referrers() != nil {
			for _, ref := range *call.Referrers() {
				if _, ok := ref.(*ssa.FieldAddr); ok {
					n++
				}
			}
		}
		return n, ""
	}
	var vVal, eVal ssa.Value
	if call.Referrers() != nil {
		for _, ref := range *call.Referrers() {
			if ex, ok := ref.(*ssa.Extract); ok {
				if ex.Index == 0 {
					vVal = ex
				} else {
					eVal = ex
				}
			}
		}
	}
	if vVal == nil || eVal == nil {
		return 0, ""
	}
	if _, ok := vVal.Type().Underlying().(*types.Pointer); !ok || vVal.Referrers() == nil {
		return 0, ""
	}
	env2 := *m.env
	e := &env2
	e.Alias = map[ssa.Value]string{eVal: "E"}
	e.ResetMemo()
	n := 0
	bad := ""
	for _, ref := range *vVal.Referrers() {
		fa, ok := ref.(*ssa.FieldAddr)
		if !ok {
			continue
		}
		n++
		b := fa.Block()
		if e.HasGuard(b, "-(!= E nil)") || e.HasGuard(b, "+(== E nil)") {
			continue
		}
		// callee never returns a nil pointer?
		if c.neverNilResult(call.Common().StaticCallee()) {
			continue
		}
		bad = "dereference the *scalar result of " + call.Common().StaticCallee().Name() + " without testing its error; that callee returns a nil pointer together with the error, so a failed read is a nil-pointer runtime panic instead of an error"
	}
	return n, bad
}

// neverNilResult: no return of fn has a nil constant as first result.
func (c *c02) neverNilResult(fn *ssa.Function) bool {
	if fn == nil || fn.Blocks == nil {
		return false
	}
	ok := true
	fw.EachInstr(fn, func(ins ssa.Instruction) {
		ret, isRet := ins.(*ssa.Return)
		if !isRet || len(ret.Results) == 0 {
			return
		}
		switch x := ret.Results[0].(type) {
		case *ssa.Alloc:
		case *ssa.Extract:
			if _, isTA := x.Tuple.(*ssa.TypeAssert); !isTA {
				ok = false
			}
		default:
			ok = false
		}
	})
	return ok
}

// ---------------------------------------------------------------------------
// C02.scalarfn — the eight TryFieldScalar<T>Fn plumbing functions

func (c *c02) scalarFn() {
	ru := c.r.Rule("C02.scalarfn", "TryFieldScalar<T>Fn calls the reader closure exactly once with its own receiver, stores the scalar it returned (updated only by the mappers) as the field value, returns the reader's error, and hands back that same scalar", 8)
	var fns []*ssa.Function
	for _, fn := range c.p.FqFunctions() {
		if fn.Parent() == nil && c.isDMethod(fn) && c02RePlumb.MatchString(fn.Name()) {
			fns = append(fns, fn)
		}
	}
	sort.Slice(fns, func(i, j int) bool { return fns[i].Name() < fns[j].Name() })
	for _, fn := range fns {
		key := fn.Name()
		pos := c.p.Rel(fn.Pos())
		msg := c.scalarFnOne(fn)
		ru.Check(msg == "", key, pos, "fn(d) once, &s stored in Value.V, error forwarded, v.V.(*scalar.T) returned", msg)
	}
}

func (c *c02) scalarFnOne(fn *ssa.Function) string {
	env := fw.NewSxEnv(fn)
	var tfv *ssa.Call
	n := 0
	fw.EachInstr(fn, func(ins ssa.Instruction) {
		if cl, ok := ins.(*ssa.Call); ok {
			if cal := cl.Common().StaticCallee(); cal != nil && c.isDMethod(cal) {
				if cal.Name() == "TryFieldValue" {
					tfv = cl
					n++
				} else if k := c.classify(cal); k != "iopanic" {
					n += 100
				}
			}
		}
	})
	if tfv == nil || n != 1 {
		return "does not consist of exactly one TryFieldValue call on *D"
	}
	args := tfv.Common().Args
	if env.Of(args[0]) != "recv" || env.Of(args[1]) != "p0" {
		return "TryFieldValue not called as d.TryFieldValue(name, ...)"
	}
	cf, binds, ok := fw.SxAnonArg(args[2])
	if !ok {
		return "TryFieldValue callback is not a closure literal"
	}
	sub := env.SubEnvFn(cf, binds)
	// calls of the fn parameter inside the closure
	var fnCalls []*ssa.Call
	fw.EachInstr(cf, func(ins ssa.Instruction) {
		if cl, ok := ins.(*ssa.Call); ok && !cl.Common().IsInvoke() && cl.Common().StaticCallee() == nil {
			if _, isB := cl.Common().Value.(*ssa.Builtin); !isB {
				fnCalls = append(fnCalls, cl)
			}
		}
	})
	if len(fnCalls) != 1 {
		return fmt.Sprintf("reader closure invoked %d times (want once)", len(fnCalls))
	}
	fc := fnCalls[0]
	if sub.Of(fc.Common().Value) != "p1" {
		return "the dynamic call in the callback is not the fn parameter: " + sub.Of(fc.Common().Value)
	}
	if len(fc.Common().Args) != 1 || sub.Of(fc.Common().Args[0]) != "recv" {
		return "fn is not called with the receiver d"
	}
	if fc.Block() != cf.Blocks[0] {
		return "fn is not called unconditionally"
	}
	sub.Alias = map[ssa.Value]string{fc: "F"}
	sub.ResetMemo()
	// the scalar cell: stores are F#0 and mapper results only
	var cell *ssa.Alloc
	fw.EachInstr(cf, func(ins ssa.Instruction) {
		if st, ok := ins.(*ssa.Store); ok && sub.Of(st.Val) == "(#0 F)" {
			if a, ok := st.Addr.(*ssa.Alloc); ok {
				cell = a
			}
		}
	})
	if cell == nil {
		return "result of fn(d) is not stored in a local scalar"
	}
	for _, ref := range *cell.Referrers() {
		if st, ok := ref.(*ssa.Store); ok && st.Addr == ssa.Value(cell) {
			v := sub.Of(st.Val)
			if v == "(#0 F)" {
				continue
			}
			if ex, ok := st.Val.(*ssa.Extract); ok && ex.Index == 0 {
				if cl, ok := ex.Tuple.(*ssa.Call); ok && cl.Common().IsInvoke() && strings.HasPrefix(cl.Common().Method.Name(), "Map") {
					continue
				}
			}
			return "the scalar is overwritten by " + v
		}
	}
	// every return: Value.V = &cell ; error = F#1 on the first failing arm
	sawErrRet := false
	bad := ""
	for _, b := range cf.Blocks {
		ret, ok := b.Instrs[len(b.Instrs)-1].(*ssa.Return)
		if !ok {
			continue
		}
		al, ok := ret.Results[0].(*ssa.Alloc)
		if !ok {
			bad = "callback returns something else than a fresh *Value"
			continue
		}
		vOK := false
		for _, ref := range *al.Referrers() {
			if fa, ok := ref.(*ssa.FieldAddr); ok && c02FwFieldName(fa) == "V" {
				for _, r2 := range *fa.Referrers() {
					if st, ok := r2.(*ssa.Store); ok {
						if mi, ok := st.Val.(*ssa.MakeInterface); ok && mi.X == ssa.Value(cell) {
							vOK = true
						}
					}
				}
			}
		}
		if !vOK {
			bad = "a returned Value does not hold &s (the scalar that was read)"
		}
		if sub.HasGuard(b, "+(!= (#1 F) nil)") {
			if sub.Of(ret.Results[1]) != "(#1 F)" {
				bad = "reader error is not returned on the failing arm"
			}
			sawErrRet = true
		}
	}
	if bad != "" {
		return bad
	}
	if !sawErrRet {
		return "no return guarded by the reader's error != nil"
	}
	// outer: success return is the asserted v.V
	env.Alias = map[ssa.Value]string{tfv: "T"}
	env.ResetMemo()
	sawOK := false
	for _, b := range fn.Blocks {
		ret, ok := b.Instrs[len(b.Instrs)-1].(*ssa.Return)
		if !ok {
			continue
		}
		ev := env.Of(ret.Results[1])
		if env.HasGuard(b, "+(!= (#1 T) nil)") {
			if ev != "(#1 T)" {
				return "TryFieldValue's error is not returned"
			}
			continue
		}
		if !env.HasGuard(b, "-(!= (#1 T) nil)") {
			return "a return is reachable without testing TryFieldValue's error"
		}
		v := env.Of(ret.Results[0])
		if !strings.HasPrefix(v, "(#0 (assert ") || !strings.HasSuffix(v, " (#0 T).V))") {
			return "success path returns " + v + " instead of v.V.(*scalar.T)"
		}
		if ev != "nil" && ev != "(#1 T)" {
			return "success path returns error " + ev
		}
		sawOK = true
	}
	if !sawOK {
		return "no success return"
	}
	return ""
}

func c02FwFieldName(fa *ssa.FieldAddr) string {
	t := fa.X.Type()
	if p, ok := t.Underlying().(*types.Pointer); ok {
		t = p.Elem()
	}
	if s, ok := t.Underlying().(*types.Struct); ok && fa.Field < s.NumFields() {
		return s.Field(fa.Field).Name()
	}
	return ""
}

// ---------------------------------------------------------------------------
// C02.enc — the text encodings the family rule resolves globals to

func (c *c02) encodings() {
	ru := c.r.Rule("C02.enc", "the package-level text encodings named by the UTF readers are initialised with the byte order / BOM policy their name states and are assigned nowhere else", 4)
	pk := c.p.Pkg("pkg/decode")
	uni := c.p.ByPath["golang.org/x/text/encoding/unicode"]
	if pk == nil || uni == nil {
		ru.Undecided("anchor", "", "pkg/decode or golang.org/x/text/encoding/unicode not loaded")
		return
	}
	cv := func(name string) string {
		o, _ := uni.Types.Scope().Lookup(name).(*types.Const)
		if o == nil {
			return "?" + name
		}
		return o.Val().ExactString()
	}
	want := map[string]string{
		"UTF8BOM":  "g:unicode.UTF8BOM",
		"UTF16BOM": "(call golang.org/x/text/encoding/unicode.UTF16 " + cv("LittleEndian") + " " + cv("UseBOM") + ")",
		"UTF16BE":  "(call golang.org/x/text/encoding/unicode.UTF16 " + cv("BigEndian") + " " + cv("IgnoreBOM") + ")",
		"UTF16LE":  "(call golang.org/x/text/encoding/unicode.UTF16 " + cv("LittleEndian") + " " + cv("IgnoreBOM") + ")",
	}
	stores := map[string][]string{}
	where := map[string][]string{}
	for _, fn := range c.p.FqFunctions() {
		env := fw.NewSxEnv(fn)
		fw.EachInstr(fn, func(ins ssa.Instruction) {
			st, ok := ins.(*ssa.Store)
			if !ok {
				return
			}
			g, ok := st.Addr.(*ssa.Global)
			if !ok || g.Pkg.Pkg != pk.Types {
				return
			}
			if _, ok := want[g.Name()]; !ok {
				return
			}
			stores[g.Name()] = append(stores[g.Name()], env.Of(st.Val))
			where[g.Name()] = append(where[g.Name()], fw.ShortFn(fn))
		})
	}
	for _, name := range fw.SortedKeys(want) {
		s := stores[name]
		switch {
		case len(s) == 0:
			ru.Undecided("enc:"+name, "", "no initialising store of decode."+name+" found")
		case len(s) > 1:
			ru.Fail("enc:"+name, "", "decode."+name+" is assigned in "+strings.Join(where[name], ", "))
		case where[name][0] != "pkg/decode.init":
			ru.Fail("enc:"+name, "", "decode."+name+" is assigned outside package initialisation: "+where[name][0])
		default:
			ru.Check(s[0] == want[name], "enc:"+name, "", s[0], "decode."+name+" is initialised with "+s[0]+", its name promises "+want[name])
		}
	}
}

// ---------------------------------------------------------------------------
// controls

func init() {
	ctl := func(id, rule, file, old, new, expect string) {
		AddControl(Control{ID: id, Prop: "C02", Rule: rule, File: file, Old: old, New: new, ExpectKey: expect})
	}
	gen := "pkg/decode/decode_gen.go"
	ctl("c02-family-width", "C02.family", gen,
		"func (d *D) TryU37() (uint64, error) { return d.tryUEndian(37, d.Endian) }",
		"func (d *D) TryU37() (uint64, error) { return d.tryUEndian(36, d.Endian) }", "TryU37")
	ctl("c02-family-endian", "C02.family", gen,
		"func (d *D) TryS24BE() (int64, error) { return d.trySEndian(24, BigEndian) }",
		"func (d *D) TryS24BE() (int64, error) { return d.trySEndian(24, LittleEndian) }", "TryS24BE")
	ctl("c02-family-sign", "C02.family", gen,
		"func (d *D) TryS9() (int64, error) { return d.trySEndian(9, d.Endian) }",
		"func (d *D) TryS9() (int64, error) { v, err := d.tryUEndian(9, d.Endian); return int64(v), err }", "TryS9")
	ctl("c02-family-fp", "C02.family", gen,
		"func (d *D) TryFP32() (float64, error) { return d.tryFPEndian(32, 16, d.Endian) }",
		"func (d *D) TryFP32() (float64, error) { return d.tryFPEndian(32, 15, d.Endian) }", "TryFP32")
	ctl("c02-family-delegate", "C02.family", gen,
		"	s, err := d.TryFieldScalarU13(name, sms...)\n	if err != nil {\n		d.IOPanic(err, name, \"U13\")",
		"	s, err := d.TryFieldScalarU12(name, sms...)\n	if err != nil {\n		d.IOPanic(err, name, \"U13\")", "FieldScalarU13")
	ctl("c02-flow-dropcheck", "C02.flow", gen,
		"	v, err := d.tryUEndian(41, d.Endian)\n	if err != nil {\n		d.IOPanic(err, \"\", \"U41\")\n	}\n	return v",
		"	v, _ := d.tryUEndian(41, d.Endian)\n	return v", "U41")
	ctl("c02-flow-wrongvalue", "C02.flow", gen,
		"		v, err := d.trySEndian(19, d.Endian)\n		return scalar.Sint{Actual: v}, err",
		"		v, err := d.trySEndian(19, d.Endian)\n		return scalar.Sint{Actual: -v}, err", "TryFieldScalarS19")
	ctl("c02-nilerr", "C02.nilerr", gen,
		"func (d *D) FieldU5(name string, sms ...scalar.UintMapper) uint64 {\n	return d.FieldScalarU5(name, sms...).Actual\n}",
		"func (d *D) FieldU5(name string, sms ...scalar.UintMapper) uint64 {\n	s, _ := d.TryFieldScalarU5(name, sms...)\n	return s.Actual\n}", "tmpl:Field<R>")
	ctl("c02-nilerr-template", "C02.nilerr", gen,
		"	s, err := d.TryFieldScalarU5(name, sms...)\n	if err != nil {\n		return 0, err\n	}\n	return s.Actual, err",
		"	s, err := d.TryFieldScalarU5(name, sms...)\n	return s.Actual, err", "tmpl:TryField<R>")
	ctl("c02-scalarfn", "C02.scalarfn", gen,
		"func (d *D) TryFieldScalarSintFn(name string, fn func(d *D) (scalar.Sint, error), sms ...scalar.SintMapper) (*scalar.Sint, error) {\n	v, err := d.TryFieldValue(name, func() (*Value, error) {\n		s, err := fn(d)\n		if err != nil {\n			return &Value{V: &s}, err",
		"func (d *D) TryFieldScalarSintFn(name string, fn func(d *D) (scalar.Sint, error), sms ...scalar.SintMapper) (*scalar.Sint, error) {\n	v, err := d.TryFieldValue(name, func() (*Value, error) {\n		s, err := fn(d)\n		if err != nil {\n			return &Value{V: &s}, nil", "TryFieldScalarSintFn")
	ctl("c02-enc", "C02.enc", "pkg/decode/read.go",
		"var UTF16BE = unicode.UTF16(unicode.BigEndian, unicode.IgnoreBOM)",
		"var UTF16BE = unicode.UTF16(unicode.LittleEndian, unicode.IgnoreBOM)", "UTF16BE")
	ctl("c02-kinds", "C02.kinds", gen,
		"func (d *D) TryU23() (uint64, error) { return d.tryUEndian(23, d.Endian) }",
		"func (d *D) TryU23x() (uint64, error) { return d.tryUEndian(23, d.Endian) }", "widths:U")
}
