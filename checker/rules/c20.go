package rules

// C20: an interrupt cancels exactly the innermost running evaluation, safely.
//
// This file: the model of internal/ctxstack and the lockset rules (engine E10)
//   C20.lock    every access to mutable Stack state happens with the Stack's own mutex held
//   C20.atomic  compound operations (len test + index, load + append + store, ...) are one critical section
//   C20.order   no deadlock: no relock, no lock leak, nothing unknown or blocking is called with the lock held
// c20_stack.go: C20.stack (push/pop/stop/trigger arithmetic), c20_eval.go: C20.eval, C20.writer,
// C20.ctxrs, C20.sig, C20.repl; c20_sigclose.go: C20.sigclose (channel typestate of the signal bridge);
// c20_controls.go: the positive controls.

import (
	"fmt"
	"go/ast"
	"go/token"
	"go/types"
	"sort"
	"strings"

	"golang.org/x/tools/go/ssa"

	"fqverif/fw"
)

func init() { Register("C20", runC20) }

func runC20(r *fw.Run, p *fw.Program) {
	r.Assumption("C20: sync.Mutex, context.WithCancel/CancelFunc, channels and os/signal behave as documented; cancel functions obtained from package context never call back into fq")
	r.Assumption("C20: unexported fields of ctxstack.Stack are reachable only from package internal/ctxstack (no reflect/unsafe access)")
	cs := c20Model(r, p)
	if cs != nil {
		c20Lock(r, cs)
		c20Atomic(r, cs)
		c20Order(r, cs)
		c20Stack(r, cs)
	}
	c20Eval(r, p)
	c20Writer(r, p)
	c20CtxRS(r, p)
	c20Sig(r, p)
	c20SigClose(r, p)
	c20Repl(r, p)
}

const c20StackPkg = fw.Mod + "/internal/ctxstack"

// c20ctx is the resolved model of package internal/ctxstack.
type c20ctx struct {
	p       *fw.Program
	stack   *types.Named
	st      *types.Struct
	mutexes map[int]bool // field indices of sync.Mutex / sync.RWMutex fields
	guarded map[int]bool // fields written after construction
	fns     []*ssa.Function

	accs      []*c20acc
	escapes   []string
	flows     map[*ssa.Function]*fw.LockFlow
	inFlow    map[*ssa.Function]bool
	unlockers map[*ssa.Function]bool
	lockers   map[*ssa.Function]bool
}

// c20acc is one access to a field of Stack (or to memory reachable from it).
type c20acc struct {
	fn     *ssa.Function
	ins    ssa.Instruction
	field  int
	owner  ssa.Value // the *Stack value
	write  bool
	kind   string
	hdr    *ssa.UnOp // for derived accesses: the load of the slice header they derive from
	constr bool      // executed on a Stack not yet visible to any other goroutine
}

func (cs *c20ctx) fieldName(i int) string { return cs.st.Field(i).Name() }

func isSyncMutex(t types.Type) bool {
	n, ok := t.(*types.Named)
	if !ok || n.Obj().Pkg() == nil || n.Obj().Pkg().Path() != "sync" {
		return false
	}
	return n.Obj().Name() == "Mutex" || n.Obj().Name() == "RWMutex"
}

func c20Model(r *fw.Run, p *fw.Program) *c20ctx {
	ru := r.Rule("C20.lock", "every read and write of mutable ctxstack.Stack state (cancelFns slice header, its elements, len, append, reslice; the pop closure's flag) happens while the sync.Mutex field of the same Stack is held: Lock dominates, no Unlock/deferred-unlock run in between on any path", 18)
	named := p.NamedType("internal/ctxstack", "Stack")
	if named == nil {
		ru.Undecided("anchor:ctxstack.Stack", "", "type internal/ctxstack.Stack not found")
		return nil
	}
	st, ok := named.Underlying().(*types.Struct)
	if !ok {
		ru.Undecided("anchor:ctxstack.Stack", "", "ctxstack.Stack is not a struct")
		return nil
	}
	cs := &c20ctx{p: p, stack: named, st: st, mutexes: map[int]bool{}, guarded: map[int]bool{},
		flows: map[*ssa.Function]*fw.LockFlow{}, inFlow: map[*ssa.Function]bool{}}
	for i := 0; i < st.NumFields(); i++ {
		if isSyncMutex(st.Field(i).Type()) {
			cs.mutexes[i] = true
		}
	}
	for _, fn := range p.FqFunctions() {
		if fw.FnPkgPath(fn) == c20StackPkg && fn.Synthetic == "" {
			cs.fns = append(cs.fns, fn)
		}
	}
	if len(cs.fns) < 5 {
		ru.Undecided("anchor:ctxstack functions", "", fmt.Sprintf("only %d functions found in internal/ctxstack", len(cs.fns)))
		return nil
	}
	cs.summaries()
	for _, fn := range cs.fns {
		cs.collect(fn)
	}
	for _, a := range cs.accs {
		if a.write && !a.constr {
			cs.guarded[a.field] = true
		}
	}
	// anchor by role: the slice of cancel functions must be among the guarded fields
	found := false
	for i := range cs.guarded {
		if sl, ok := st.Field(i).Type().Underlying().(*types.Slice); ok {
			if _, ok := sl.Elem().Underlying().(*types.Signature); ok {
				found = true
			}
		}
	}
	if !found {
		ru.Undecided("anchor:Stack.cancelFns", "", "no slice-of-functions field of Stack is written after construction: the interrupt stack state was not recognised")
		return nil
	}
	return cs
}

func (cs *c20ctx) isStackPtr(t types.Type) bool {
	pt, ok := t.Underlying().(*types.Pointer)
	return ok && types.Identical(pt.Elem(), cs.stack)
}

// summaries computes which package functions (transitively through static calls inside the
// package) acquire or release a mutex field of Stack.
func (cs *c20ctx) summaries() {
	cs.unlockers = map[*ssa.Function]bool{}
	cs.lockers = map[*ssa.Function]bool{}
	isStackMutex := func(addr ssa.Value) bool {
		fa, ok := addr.(*ssa.FieldAddr)
		return ok && cs.isStackPtr(fa.X.Type()) && cs.mutexes[fa.Field]
	}
	for _, fn := range cs.fns {
		fw.EachInstr(fn, func(ins ssa.Instruction) {
			c, ok := ins.(ssa.CallInstruction)
			if !ok {
				return
			}
			if _, isGo := ins.(*ssa.Go); isGo {
				return
			}
			op, addr := fw.MutexOp(c.Common())
			if op == fw.LockNone || !isStackMutex(addr) {
				return
			}
			if op == fw.LockAcquire || op == fw.LockRAcquire {
				cs.lockers[fn] = true
			} else {
				cs.unlockers[fn] = true
			}
		})
	}
	for changed := true; changed; {
		changed = false
		for _, fn := range cs.fns {
			for _, c := range fw.CallsIn(fn) {
				if _, isGo := c.(*ssa.Go); isGo {
					continue
				}
				var cal *ssa.Function
				if f := c.Common().StaticCallee(); f != nil {
					cal = f
				} else if mc, ok := c.Common().Value.(*ssa.MakeClosure); ok {
					cal, _ = mc.Fn.(*ssa.Function)
				}
				if cal == nil {
					continue
				}
				if cs.lockers[cal] && !cs.lockers[fn] {
					cs.lockers[fn] = true
					changed = true
				}
				if cs.unlockers[cal] && !cs.unlockers[fn] {
					cs.unlockers[fn] = true
					changed = true
				}
			}
		}
	}
}

// kill: a call (other than the mutex operations themselves) into package code that may unlock.
func (cs *c20ctx) kill(ins ssa.Instruction) bool {
	c, ok := ins.(*ssa.Call)
	if !ok {
		return false
	}
	if f := c.Common().StaticCallee(); f != nil {
		return cs.unlockers[f]
	}
	if mc, ok := c.Common().Value.(*ssa.MakeClosure); ok {
		if f, ok := mc.Fn.(*ssa.Function); ok {
			return cs.unlockers[f]
		}
	}
	return false
}

// flow returns the lockset of fn; the entry set of unexported helpers and of closures that are
// only ever called directly is the intersection of the locksets at their call sites.
func (cs *c20ctx) flow(fn *ssa.Function) *fw.LockFlow {
	if lf, ok := cs.flows[fn]; ok {
		return lf
	}
	var entry fw.LockSet
	if !cs.inFlow[fn] {
		cs.inFlow[fn] = true
		entry = cs.entryLocks(fn)
		cs.inFlow[fn] = false
	}
	lf := fw.NewLockFlow(fn, entry, cs.kill)
	cs.flows[fn] = lf
	return lf
}

func (cs *c20ctx) entryLocks(fn *ssa.Function) fw.LockSet {
	var sets []fw.LockSet
	if fn.Parent() != nil {
		mcs := fw.MakeClosuresOf(fn)
		if len(mcs) == 0 {
			return nil
		}
		for _, mc := range mcs {
			if mc.Referrers() == nil || len(*mc.Referrers()) == 0 {
				return nil
			}
			for _, ref := range *mc.Referrers() {
				c, ok := ref.(*ssa.Call)
				if !ok || c.Common().Value != ssa.Value(mc) {
					return nil
				}
				sets = append(sets, cs.flow(mc.Parent()).MustAt(c))
			}
		}
	} else {
		if ast.IsExported(fn.Name()) {
			return nil
		}
		for _, caller := range cs.fns {
			bad := false
			fw.EachInstr(caller, func(ins ssa.Instruction) {
				c, isCall := ins.(ssa.CallInstruction)
				for _, op := range ins.Operands(nil) {
					if *op != ssa.Value(fn) {
						continue
					}
					if !isCall || c.Common().Value != ssa.Value(fn) {
						bad = true // used as a value
					}
				}
				if !isCall || c.Common().StaticCallee() != fn {
					return
				}
				call, ok := ins.(*ssa.Call)
				if !ok {
					bad = true // go / defer
					return
				}
				held := cs.flow(caller).MustAt(call)
				tr := fw.LockSet{}
				for i, prm := range fn.Params {
					if i >= len(call.Call.Args) {
						break
					}
					ak := fw.OwnerKey(call.Call.Args[i])
					pk := fw.OwnerKey(prm)
					if ak == "" || pk == "" {
						continue
					}
					for k, mode := range held {
						if strings.HasPrefix(k, ak+"#") {
							tr[pk+strings.TrimPrefix(k, ak)] = mode
						}
					}
				}
				sets = append(sets, tr)
			})
			if bad {
				return nil
			}
		}
	}
	if len(sets) == 0 {
		return nil
	}
	out := fw.LockSet{}
	for k, v := range sets[0] {
		all := true
		for _, s := range sets[1:] {
			if _, ok := s[k]; !ok {
				all = false
			}
		}
		if all {
			out[k] = v
		}
	}
	return out
}

// ---------------------------------------------------------------------------
// access collection

func (cs *c20ctx) escape(fn *ssa.Function, ins ssa.Instruction, what string) {
	cs.escapes = append(cs.escapes, fmt.Sprintf("%s: %s at %s", fw.ShortFn(fn), what, cs.p.Rel(ins.Pos())))
}

// fresh: owner is a Stack allocated in fn and ins executes before the Stack can be seen by
// another goroutine (no go statement and no call receiving it may precede ins).
func (cs *c20ctx) fresh(fn *ssa.Function, owner ssa.Value, ins ssa.Instruction) bool {
	a, ok := fw.C20Resolve(owner).(*ssa.Alloc)
	if !ok || a.Parent() != fn || !cs.isStackPtr(a.Type()) {
		return false
	}
	// aliases: the allocation, the variable cells it is stored in, closures capturing such a cell
	alias := map[ssa.Value]bool{a: true}
	is := func(v ssa.Value) bool {
		return v != nil && (alias[v] || fw.C20Resolve(v) == ssa.Value(a))
	}
	for changed := true; changed; {
		changed = false
		fw.EachInstr(fn, func(x ssa.Instruction) {
			switch y := x.(type) {
			case *ssa.Store:
				if is(y.Val) && !alias[y.Addr] {
					if _, local := y.Addr.(*ssa.Alloc); local {
						alias[y.Addr] = true
						changed = true
					}
				}
			case *ssa.MakeClosure:
				if alias[y] {
					return
				}
				for _, b := range y.Bindings {
					if is(b) {
						alias[y] = true
						changed = true
					}
				}
			}
		})
	}
	pub := false
	fw.EachInstr(fn, func(x ssa.Instruction) {
		if x == ins || pub {
			return
		}
		publishes := false
		switch y := x.(type) {
		case ssa.CallInstruction:
			if _, b := y.Common().Value.(*ssa.Builtin); b {
				return
			}
			if op, _ := fw.MutexOp(y.Common()); op != fw.LockNone {
				return
			}
			if is(y.Common().Value) {
				publishes = true
			}
			for _, arg := range y.Common().Args {
				if is(arg) {
					publishes = true
				}
			}
		case *ssa.Store:
			if is(y.Val) {
				if _, local := y.Addr.(*ssa.Alloc); !local {
					publishes = true
				}
			}
		case *ssa.Send:
			publishes = is(y.X)
		}
		if publishes && fw.InstrReach(x, ins, nil) {
			pub = true
		}
	})
	return !pub
}

func (cs *c20ctx) add(a *c20acc) {
	a.constr = cs.fresh(a.fn, a.owner, a.ins)
	cs.accs = append(cs.accs, a)
}

func (cs *c20ctx) collect(fn *ssa.Function) {
	fw.EachInstr(fn, func(ins ssa.Instruction) {
		switch x := ins.(type) {
		case *ssa.FieldAddr:
			if !cs.isStackPtr(x.X.Type()) || cs.mutexes[x.Field] {
				return
			}
			if x.Referrers() == nil {
				return
			}
			for _, ref := range *x.Referrers() {
				switch y := ref.(type) {
				case *ssa.UnOp:
					if y.Op == token.MUL {
						cs.add(&c20acc{fn: fn, ins: y, field: x.Field, owner: x.X, kind: "load"})
						cs.derived(fn, y, y, x)
					}
				case *ssa.Store:
					if y.Addr == ssa.Value(x) {
						cs.add(&c20acc{fn: fn, ins: y, field: x.Field, owner: x.X, write: true, kind: "store"})
					} else {
						cs.escape(fn, y, "address of Stack."+cs.fieldName(x.Field)+" stored")
					}
				case *ssa.DebugRef:
				default:
					cs.escape(fn, ref, "address of Stack."+cs.fieldName(x.Field)+" escapes")
				}
			}
		case *ssa.Field:
			if types.Identical(x.X.Type(), cs.stack) {
				cs.escape(fn, x, "Stack copied by value")
			}
		}
	})
}

// derived records the uses of a value derived from the loaded slice header hdr.
func (cs *c20ctx) derived(fn *ssa.Function, v ssa.Value, hdr *ssa.UnOp, fa *ssa.FieldAddr) {
	switch v.Type().Underlying().(type) {
	case *types.Slice, *types.Map, *types.Pointer:
	default:
		return // scalars, channels (immutable handle) and functions carry no shared memory of the Stack
	}
	seen := map[ssa.Value]bool{}
	var rec func(v ssa.Value)
	acc := func(ins ssa.Instruction, write bool, kind string) {
		cs.add(&c20acc{fn: fn, ins: ins, field: fa.Field, owner: fa.X, write: write, kind: kind, hdr: hdr})
	}
	rec = func(v ssa.Value) {
		if seen[v] || v.Referrers() == nil {
			return
		}
		seen[v] = true
		for _, ref := range *v.Referrers() {
			switch y := ref.(type) {
			case *ssa.DebugRef:
			case *ssa.BinOp: // comparison with nil
			case *ssa.Call:
				b, ok := y.Common().Value.(*ssa.Builtin)
				if !ok {
					cs.escape(fn, y, "Stack."+cs.fieldName(fa.Field)+" passed to a call")
					continue
				}
				switch b.Name() {
				case "len", "cap":
					acc(y, false, b.Name())
				case "append":
					acc(y, false, "append")
					if y.Common().Args[0] == v {
						rec(y)
					}
				case "copy":
					acc(y, y.Common().Args[0] == v, "copy")
				case "clear":
					acc(y, true, "clear")
				case "delete":
					acc(y, true, "delete")
				default:
					acc(y, false, b.Name())
				}
			case *ssa.IndexAddr:
				if y.X != v {
					continue
				}
				if y.Referrers() == nil {
					continue
				}
				for _, r2 := range *y.Referrers() {
					switch z := r2.(type) {
					case *ssa.UnOp:
						acc(z, false, "elem")
					case *ssa.Store:
						if z.Addr == ssa.Value(y) {
							acc(z, true, "elem-store")
						} else {
							cs.escape(fn, z, "element address stored")
						}
					case *ssa.DebugRef:
					default:
						cs.escape(fn, r2, "element address escapes")
					}
				}
			case *ssa.Index, *ssa.Lookup:
				acc(ref, false, "elem")
			case *ssa.MapUpdate:
				acc(y, true, "map-update")
			case *ssa.Slice:
				if y.X == v {
					acc(y, false, "slice")
					rec(y)
				}
			case *ssa.Range:
				acc(y, false, "range")
				if y.Referrers() != nil {
					for _, r2 := range *y.Referrers() {
						if nx, ok := r2.(*ssa.Next); ok {
							acc(nx, false, "range-next")
						}
					}
				}
			case *ssa.Phi:
				rec(y)
			case *ssa.Store:
				if y.Val != v {
					continue
				}
				if fa2, ok := y.Addr.(*ssa.FieldAddr); ok && cs.isStackPtr(fa2.X.Type()) && fa2.Field == fa.Field {
					continue // written back into the same field (an access of its own)
				}
				cs.escape(fn, y, "Stack."+cs.fieldName(fa.Field)+" copied into another variable")
			default:
				cs.escape(fn, ref, "Stack."+cs.fieldName(fa.Field)+" escapes")
			}
		}
	}
	rec(v)
}

// ownMutexKeys: the keys of the mutex fields of the Stack designated by owner.
func (cs *c20ctx) ownMutexKeys(owner ssa.Value) []string {
	o := fw.OwnerKey(owner)
	if o == "" {
		return nil
	}
	var out []string
	for i := range cs.mutexes {
		out = append(out, fmt.Sprintf("%s#%d", o, i))
	}
	sort.Strings(out)
	return out
}

// heldKey returns the own-mutex key held (must) at ins in a mode sufficient for the access.
func (cs *c20ctx) heldKey(fn *ssa.Function, owner ssa.Value, ins ssa.Instruction, write bool) string {
	held := cs.flow(fn).MustAt(ins)
	for _, k := range cs.ownMutexKeys(owner) {
		if m, ok := held[k]; ok && (m == 1 || !write) {
			return k
		}
	}
	return ""
}

// staleBetween: the mutex key may be released on a path from d to u (without re-executing d).
func (cs *c20ctx) staleBetween(fn *ssa.Function, d, u ssa.Instruction, key string) ssa.Instruction {
	lf := cs.flow(fn)
	var hit ssa.Instruction
	fw.EachInstr(fn, func(x ssa.Instruction) {
		if hit != nil || !lf.Releases(x, key) {
			return
		}
		if fw.InstrReach(d, x, d) && (x == u || fw.InstrReach(x, u, d)) {
			hit = x
		}
	})
	return hit
}

// ---------------------------------------------------------------------------
// C20.lock

func c20Lock(r *fw.Run, cs *c20ctx) {
	ru := r.Rule("C20.lock", "", 0)
	p := cs.p
	for _, e := range cs.escapes {
		ru.Undecided("escape:"+e, "", "a guarded field (or its address / a copy of its slice header) leaves the analysed access patterns: "+e)
	}
	if len(cs.mutexes) == 0 {
		ru.Fail("Stack:mutex", "", "ctxstack.Stack has no sync.Mutex field although its state is shared with the trigger goroutine")
	}
	ord := map[string]int{}
	for _, a := range cs.accs {
		if !cs.guarded[a.field] {
			continue
		}
		base := fmt.Sprintf("%s:%s:%s", fw.ShortFn(a.fn), cs.fieldName(a.field), a.kind)
		ord[base]++
		key := fmt.Sprintf("%s#%d", base, ord[base])
		pos := p.Rel(a.ins.Pos())
		if a.constr {
			ru.Ok(key, pos, "construction: the Stack is not yet visible to another goroutine")
			continue
		}
		if fw.OwnerKey(a.owner) == "" {
			ru.Undecided(key, pos, "cannot identify which Stack is accessed (receiver value has no stable identity)")
			continue
		}
		k := cs.heldKey(a.fn, a.owner, a.ins, a.write)
		if k == "" {
			ru.Fail(key, pos, fmt.Sprintf("%s of Stack.%s without the Stack's mutex held on every path (held here: %v)", a.kind, cs.fieldName(a.field), keysOf(cs.flow(a.fn).MustAt(a.ins))))
			continue
		}
		if a.hdr != nil {
			if cs.heldKey(a.fn, a.owner, a.hdr, false) == "" {
				ru.Fail(key, pos, "the slice header used here was loaded without the mutex held")
				continue
			}
			if rel := cs.staleBetween(a.fn, a.hdr, a.ins, k); rel != nil {
				ru.Fail(key, pos, fmt.Sprintf("the mutex may be released (%s) between the load of the slice header (%s) and this use", p.Rel(rel.Pos()), p.Rel(a.hdr.Pos())))
				continue
			}
		}
		ru.Ok(key, pos, "mutex "+shortKey(k)+" held")
	}
	// closure-shared flags: captured variables written inside a closure that takes the Stack lock
	for _, fn := range cs.fns {
		if fn.Parent() == nil || !cs.lockers[fn] {
			continue
		}
		for _, fv := range fn.FreeVars {
			cell := fw.CellAlloc(fv)
			if cell == nil {
				continue
			}
			written := false
			var uses []ssa.Instruction
			if fv.Referrers() != nil {
				for _, ref := range *fv.Referrers() {
					switch y := ref.(type) {
					case *ssa.Store:
						if y.Addr == ssa.Value(fv) {
							written = true
							uses = append(uses, y)
						}
					case *ssa.UnOp:
						uses = append(uses, y)
					}
				}
			}
			if !written {
				continue
			}
			for i, u := range uses {
				key := fmt.Sprintf("%s:captured %s#%d", fw.ShortFn(fn), fv.Name(), i+1)
				held := cs.flow(fn).MustAt(u)
				ok := false
				for k := range held {
					if cs.isStackMutexKey(k) {
						ok = true
					}
				}
				ru.Check(ok, key, p.Rel(u.Pos()), "captured variable accessed with the Stack mutex held",
					fmt.Sprintf("captured variable %s is written by this closure (state shared between its calls) but accessed here without the Stack mutex held", fv.Name()))
			}
			// the declaring function may only touch the cell before the closure exists
			par := fn.Parent()
			mcs := fw.MakeClosuresOf(fn)
			fw.EachInstr(par, func(x ssa.Instruction) {
				var addr ssa.Value
				switch y := x.(type) {
				case *ssa.Store:
					addr = y.Addr
				case *ssa.UnOp:
					if y.Op == token.MUL {
						addr = y.X
					}
				}
				if addr == nil || addr != ssa.Value(cell) {
					return
				}
				key := fmt.Sprintf("%s:captured %s:init", fw.ShortFn(par), fv.Name())
				after := false
				for _, mc := range mcs {
					if fw.InstrReach(mc, x, nil) {
						after = true
					}
				}
				held := false
				for k := range cs.flow(par).MustAt(x) {
					if cs.isStackMutexKey(k) {
						held = true
					}
				}
				ru.Check(!after || held, key, p.Rel(x.Pos()), "initialised before the closure exists (or under the mutex)",
					"variable shared with the returned closure is accessed after the closure was created without the mutex")
			})
		}
	}
}

func (cs *c20ctx) isStackMutexKey(k string) bool {
	i := strings.LastIndex(k, "#")
	if i < 0 {
		return false
	}
	for f := range cs.mutexes {
		if k[i+1:] == fmt.Sprint(f) {
			return true
		}
	}
	return false
}

func keysOf(s fw.LockSet) []string {
	var out []string
	for k := range s {
		out = append(out, shortKey(k))
	}
	sort.Strings(out)
	return out
}

func shortKey(k string) string { return strings.ReplaceAll(k, fw.Mod+"/", "") }

// ---------------------------------------------------------------------------
// C20.atomic

// guardedLoadsIn collects the loads of guarded Stack fields in the backward slice of v
// (arithmetic, phis, len/cap/append/min/max, reslicing, local variables of the same function).
func (cs *c20ctx) guardedLoadsIn(fn *ssa.Function, v ssa.Value, out map[*ssa.UnOp]bool, seen map[ssa.Value]bool) {
	if v == nil || seen[v] {
		return
	}
	seen[v] = true
	switch x := v.(type) {
	case *ssa.UnOp:
		if x.Op == token.MUL {
			if fa, ok := x.X.(*ssa.FieldAddr); ok && cs.isStackPtr(fa.X.Type()) && cs.guarded[fa.Field] {
				out[x] = true
				return
			}
			if a, ok := x.X.(*ssa.Alloc); ok && a.Parent() == fn {
				st, _ := fw.CellStores(a)
				for _, s := range st {
					if s.Parent() == fn {
						cs.guardedLoadsIn(fn, s.Val, out, seen)
					}
				}
			}
			if ia, ok := x.X.(*ssa.IndexAddr); ok {
				cs.guardedLoadsIn(fn, ia.X, out, seen)
				cs.guardedLoadsIn(fn, ia.Index, out, seen)
			}
			return
		}
		cs.guardedLoadsIn(fn, x.X, out, seen)
	case *ssa.BinOp:
		cs.guardedLoadsIn(fn, x.X, out, seen)
		cs.guardedLoadsIn(fn, x.Y, out, seen)
	case *ssa.Convert:
		cs.guardedLoadsIn(fn, x.X, out, seen)
	case *ssa.ChangeType:
		cs.guardedLoadsIn(fn, x.X, out, seen)
	case *ssa.Phi:
		for _, e := range x.Edges {
			cs.guardedLoadsIn(fn, e, out, seen)
		}
	case *ssa.Slice:
		cs.guardedLoadsIn(fn, x.X, out, seen)
		cs.guardedLoadsIn(fn, x.Low, out, seen)
		cs.guardedLoadsIn(fn, x.High, out, seen)
		cs.guardedLoadsIn(fn, x.Max, out, seen)
	case *ssa.Extract:
		cs.guardedLoadsIn(fn, x.Tuple, out, seen)
	case *ssa.Call:
		if _, ok := x.Common().Value.(*ssa.Builtin); ok {
			for _, a := range x.Common().Args {
				cs.guardedLoadsIn(fn, a, out, seen)
			}
		}
	}
}

func c20Atomic(r *fw.Run, cs *c20ctx) {
	ru := r.Rule("C20.atomic", "compound operations on the cancel-function slice are ONE critical section: every load of Stack state that feeds an index / reslice bound / stored value, or a branch condition guarding it (the len test before the indexed call), is made under the same uninterrupted hold of the mutex as the operation itself", 4)
	p := cs.p
	ord := map[string]int{}
	for _, fn := range cs.fns {
		fw.EachInstr(fn, func(ins ssa.Instruction) {
			var owner ssa.Value
			var kind string
			deps := map[*ssa.UnOp]bool{}
			seen := map[ssa.Value]bool{}
			switch x := ins.(type) {
			case *ssa.IndexAddr:
				cs.guardedLoadsIn(fn, x.X, deps, seen)
				if len(deps) == 0 {
					return
				}
				kind = "index"
				cs.guardedLoadsIn(fn, x.Index, deps, seen)
			case *ssa.Slice:
				cs.guardedLoadsIn(fn, x.X, deps, seen)
				if len(deps) == 0 {
					return
				}
				kind = "reslice"
				cs.guardedLoadsIn(fn, x.Low, deps, seen)
				cs.guardedLoadsIn(fn, x.High, deps, seen)
				cs.guardedLoadsIn(fn, x.Max, deps, seen)
			case *ssa.Store:
				fa, ok := x.Addr.(*ssa.FieldAddr)
				if !ok || !cs.isStackPtr(fa.X.Type()) || !cs.guarded[fa.Field] {
					return
				}
				owner = fa.X
				kind = "store " + cs.fieldName(fa.Field)
				cs.guardedLoadsIn(fn, x.Val, deps, seen)
			default:
				return
			}
			for _, g := range fw.Guards(ins.Block()) {
				cs.guardedLoadsIn(fn, g.Cond, deps, seen)
			}
			base := fmt.Sprintf("%s:%s", fw.ShortFn(fn), kind)
			ord[base]++
			key := fmt.Sprintf("%s#%d", base, ord[base])
			pos := p.Rel(ins.Pos())
			var ds []*ssa.UnOp
			for d := range deps {
				ds = append(ds, d)
			}
			sort.Slice(ds, func(i, j int) bool { return ds[i].Pos() < ds[j].Pos() })
			if owner == nil && len(ds) > 0 {
				owner = ds[0].X.(*ssa.FieldAddr).X
			}
			if owner != nil && cs.fresh(fn, owner, ins) {
				ru.Ok(key, pos, "construction")
				return
			}
			k := ""
			if owner != nil {
				k = cs.heldKey(fn, owner, ins, false)
			}
			if k == "" {
				ru.Fail(key, pos, kind+" of the cancel-function slice outside any critical section of the Stack's mutex")
				return
			}
			for _, d := range ds {
				ok := fw.OwnerKey(d.X.(*ssa.FieldAddr).X) == fw.OwnerKey(owner)
				if !ok {
					ru.Undecided(key, pos, "operands come from different Stack values")
					return
				}
				if cs.heldKey(fn, owner, d, false) == "" {
					ru.Fail(key, pos, fmt.Sprintf("%s depends on Stack state read at %s without the mutex held", kind, p.Rel(d.Pos())))
					return
				}
				if rel := cs.staleBetween(fn, d, ins, k); rel != nil {
					ru.Fail(key, pos, fmt.Sprintf("%s depends on Stack state read at %s in an EARLIER critical section: the mutex may be released at %s in between, so the length/index can be stale (index out of range, wrong context cancelled)", kind, p.Rel(d.Pos()), p.Rel(rel.Pos())))
					return
				}
			}
			ru.Ok(key, pos, fmt.Sprintf("%d loads of Stack state, all in the critical section of %s", len(ds), shortKey(k)))
		})
	}
}

// ---------------------------------------------------------------------------
// C20.order

// c20FromContext: v is (a conversion of) a cancel function returned by a function of package context.
func c20FromContext(v ssa.Value) bool {
	v = fw.C20Resolve(v)
	ex, ok := v.(*ssa.Extract)
	if !ok {
		return false
	}
	call, ok := ex.Tuple.(*ssa.Call)
	if !ok {
		return false
	}
	f := call.Common().StaticCallee()
	if f == nil || f.Pkg == nil || f.Pkg.Pkg.Path() != "context" {
		return false
	}
	n, ok := ex.Type().(*types.Named)
	return ok && n.Obj().Pkg() != nil && n.Obj().Pkg().Path() == "context" && strings.HasPrefix(n.Obj().Name(), "Cancel")
}

// c20ElemOfGuarded: v is an element loaded from a guarded slice of the Stack.
func (cs *c20ctx) elemOfGuarded(fn *ssa.Function, v ssa.Value) *ssa.IndexAddr {
	u, ok := v.(*ssa.UnOp)
	if !ok || u.Op != token.MUL {
		return nil
	}
	ia, ok := u.X.(*ssa.IndexAddr)
	if !ok {
		return nil
	}
	deps := map[*ssa.UnOp]bool{}
	cs.guardedLoadsIn(fn, ia.X, deps, map[ssa.Value]bool{})
	if len(deps) == 0 {
		return nil
	}
	return ia
}

func c20Order(r *fw.Run, cs *c20ctx) {
	ru := r.Rule("C20.order", "no deadlock through the Stack mutex: it is never re-acquired while (possibly) held, never left held at a return, the only functions called with it held are cancel functions from package context (stored in / loaded from cancelFns) which cannot call back into Stack, nothing that locks is called statically, no blocking channel operation runs under it, and only context cancel functions are ever stored in cancelFns", 15)
	p := cs.p
	ord := map[string]int{}
	mk := func(fn *ssa.Function, what string) string {
		base := fw.ShortFn(fn) + ":" + what
		ord[base]++
		return fmt.Sprintf("%s#%d", base, ord[base])
	}
	stackHeld := func(s fw.LockSet) []string {
		var out []string
		for k := range s {
			if cs.isStackMutexKey(k) || k == "?" {
				out = append(out, shortKey(k))
			}
		}
		sort.Strings(out)
		return out
	}
	for _, fn := range cs.fns {
		lf := cs.flow(fn)
		fw.EachInstr(fn, func(ins ssa.Instruction) {
			pos := p.Rel(ins.Pos())
			switch x := ins.(type) {
			case *ssa.Call:
				cc := x.Common()
				op, addr := fw.MutexOp(cc)
				if op == fw.LockAcquire || op == fw.LockRAcquire {
					k := fw.MutexKey(addr)
					key := mk(fn, "lock")
					if k == "" {
						ru.Undecided(key, pos, "mutex has no stable identity")
						return
					}
					_, held := lf.MayAt(x)[k]
					ru.Check(!held, key, pos, "acquired while not held", "the mutex may already be held here (missing Unlock on some path, e.g. around the loop): sync.Mutex is not re-entrant, this deadlocks")
					return
				}
				if op != fw.LockNone {
					return
				}
				if _, b := cc.Value.(*ssa.Builtin); b {
					return
				}
				held := stackHeld(lf.MayAt(x))
				var callee *ssa.Function
				if f := cc.StaticCallee(); f != nil {
					callee = f
				} else if mc, ok := cc.Value.(*ssa.MakeClosure); ok {
					callee, _ = mc.Fn.(*ssa.Function)
				}
				if callee != nil {
					if !fw.InFq(callee) {
						return
					}
					key := mk(fn, "call "+callee.Name())
					ru.Check(len(held) == 0 || !cs.lockers[callee], key, pos, "callee does not take the Stack mutex (or no lock held)",
						"calls "+fw.ShortFn(callee)+" which locks the Stack mutex while it may already be held: self-deadlock")
					return
				}
				// dynamic call
				key := mk(fn, "dyncall")
				if len(held) == 0 {
					ru.Ok(key, pos, "no lock held")
					return
				}
				if ia := cs.elemOfGuarded(fn, cc.Value); ia != nil {
					ru.Ok(key, pos, "element of cancelFns (context cancel function) called under the lock")
					return
				}
				if !cc.IsInvoke() && c20FromContext(cc.Value) {
					ru.Ok(key, pos, "context cancel function called under the lock")
					return
				}
				ru.Fail(key, pos, "an unknown function value is called while the Stack mutex may be held: it can block (the trigger wait) or call back into Stack and deadlock")
			case *ssa.Send:
				key := mk(fn, "chan")
				ru.Check(len(stackHeld(lf.MayAt(x))) == 0, key, pos, "no lock held", "channel send while the Stack mutex may be held")
			case *ssa.UnOp:
				if x.Op == token.ARROW {
					key := mk(fn, "chan")
					ru.Check(len(stackHeld(lf.MayAt(x))) == 0, key, pos, "no lock held", "channel receive while the Stack mutex may be held")
				}
			case *ssa.Select:
				key := mk(fn, "chan")
				ru.Check(!x.Blocking || len(stackHeld(lf.MayAt(x))) == 0, key, pos, "non-blocking or no lock held", "blocking select while the Stack mutex may be held")
			case *ssa.Return:
				if fn.Recover != nil && x.Block() == fn.Recover {
					return
				}
				key := mk(fn, "return")
				may := lf.MayAt(x)
				for k := range lf.Entry {
					delete(may, k) // held by the caller of this helper
				}
				held := stackHeld(may)
				ru.Check(len(held) == 0, key, pos, "no lock held at return", fmt.Sprintf("returns with the Stack mutex still held on some path (%v): the next Push / pop / interrupt blocks forever", held))
			case *ssa.Store:
				fa, ok := x.Addr.(*ssa.FieldAddr)
				if !ok || !cs.isStackPtr(fa.X.Type()) || !cs.guarded[fa.Field] {
					return
				}
				if _, isSlice := cs.st.Field(fa.Field).Type().Underlying().(*types.Slice); !isSlice {
					return
				}
				key := mk(fn, "stored "+cs.fieldName(fa.Field))
				if cs.fresh(fn, fa.X, x) {
					ru.Ok(key, pos, "construction")
					return
				}
				st, msg := cs.storedElems(fn, x.Val)
				switch st {
				case fw.OK:
					ru.Ok(key, pos, msg)
				case fw.Violation:
					ru.Fail(key, pos, msg)
				default:
					ru.Undecided(key, pos, msg)
				}
			}
		})
	}
}

// storedElems classifies the value stored into the cancel-function slice: a reslice of the
// slice itself, or an append of context cancel functions.
func (cs *c20ctx) storedElems(fn *ssa.Function, v ssa.Value) (fw.Status, string) {
	switch x := v.(type) {
	case *ssa.Const:
		if x.IsNil() {
			return fw.OK, "nil: the stack is emptied, nothing left to call"
		}
	case *ssa.Slice:
		deps := map[*ssa.UnOp]bool{}
		cs.guardedLoadsIn(fn, x.X, deps, map[ssa.Value]bool{})
		if len(deps) > 0 {
			return fw.OK, "reslice of the slice itself"
		}
	case *ssa.Call:
		if b, ok := x.Common().Value.(*ssa.Builtin); ok && b.Name() == "append" && len(x.Common().Args) == 2 {
			deps := map[*ssa.UnOp]bool{}
			cs.guardedLoadsIn(fn, x.Common().Args[0], deps, map[ssa.Value]bool{})
			if len(deps) == 0 {
				return fw.Undecided, "append to something else than the slice itself"
			}
			sl, ok := x.Common().Args[1].(*ssa.Slice)
			if !ok {
				return fw.Undecided, "appended elements are not a literal argument list"
			}
			arr, ok := sl.X.(*ssa.Alloc)
			if !ok || arr.Referrers() == nil {
				return fw.Undecided, "appended elements are not a literal argument list"
			}
			n := 0
			for _, ref := range *arr.Referrers() {
				ia, ok := ref.(*ssa.IndexAddr)
				if !ok || ia.Referrers() == nil {
					continue
				}
				for _, r2 := range *ia.Referrers() {
					st, ok := r2.(*ssa.Store)
					if !ok || st.Addr != ssa.Value(ia) {
						continue
					}
					n++
					if !c20FromContext(st.Val) {
						return fw.Violation, "a function that is not a cancel function returned by package context is pushed on the interrupt stack; it is later called with the Stack mutex held"
					}
				}
			}
			if n == 0 {
				return fw.Undecided, "no appended element found"
			}
			return fw.OK, fmt.Sprintf("append of %d context cancel function(s)", n)
		}
	}
	return fw.Undecided, "value stored into the cancel-function slice is neither a reslice of it nor an append to it"
}
