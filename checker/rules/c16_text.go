package rules

import (
	"fmt"
	"go/token"
	"go/types"
	"strings"

	"golang.org/x/tools/go/ssa"

	"fqverif/fw"
)

// text decoders: exactly one top-level value, then EOF.

// errSource: the call whose error result v is.
func c16ErrSource(v ssa.Value) *ssa.Call {
	switch x := v.(type) {
	case *ssa.Call:
		return x
	case *ssa.Extract:
		if c, ok := x.Tuple.(*ssa.Call); ok {
			return c
		}
	case *ssa.ChangeInterface:
		return c16ErrSource(x.X)
	}
	return nil
}

func c16IsEOFLoad(v ssa.Value) bool {
	ld, ok := v.(*ssa.UnOp)
	if !ok || ld.Op != token.MUL {
		return false
	}
	g, ok := ld.X.(*ssa.Global)
	return ok && g.Pkg != nil && g.Pkg.Pkg.Path() == "io" && g.Name() == "EOF"
}

// eofKnown: calls whose error is known to be io.EOF (pol true) / known not to be (pol false) in fs.
func (f *c16FS) eofKnown(pol bool) []*ssa.Call {
	var out []*ssa.Call
	for v, p := range f.facts {
		switch x := v.(type) {
		case *ssa.Call:
			cal := x.Common().StaticCallee()
			if cal != nil && cal.String() == "errors.Is" && len(x.Common().Args) == 2 && c16IsEOFLoad(x.Common().Args[1]) && p == pol {
				if s := c16ErrSource(x.Common().Args[0]); s != nil {
					out = append(out, s)
				}
			}
		case *ssa.BinOp:
			if x.Op != token.EQL && x.Op != token.NEQ {
				continue
			}
			var other ssa.Value
			if c16IsEOFLoad(x.X) {
				other = x.Y
			} else if c16IsEOFLoad(x.Y) {
				other = x.X
			} else {
				continue
			}
			if ((x.Op == token.EQL) == p) == pol {
				if s := c16ErrSource(other); s != nil {
					out = append(out, s)
				}
			}
		}
	}
	return out
}

// errNil: calls whose error is known nil (pol true) / non-nil (pol false) in fs.
func (f *c16FS) errNil(pol bool) []*ssa.Call {
	var out []*ssa.Call
	for v, p := range f.facts {
		bo, ok := v.(*ssa.BinOp)
		if !ok || (bo.Op != token.EQL && bo.Op != token.NEQ) {
			continue
		}
		var other ssa.Value
		if isNilConst(bo.X) {
			other = bo.Y
		} else if isNilConst(bo.Y) {
			other = bo.X
		} else {
			continue
		}
		if !types.Identical(other.Type(), types.Universe.Lookup("error").Type()) {
			continue
		}
		isNil := (bo.Op == token.EQL) == p
		if isNil == pol {
			if s := c16ErrSource(other); s != nil {
				out = append(out, s)
			}
		}
	}
	return out
}

func c16CalleeIs(c *ssa.Call, full string) bool {
	cal := c.Common().StaticCallee()
	return cal != nil && cal.String() == full
}

// formatRoots: group name -> DecodeFn registered under it.
func (x *c16) formatRoots() map[string]*ssa.Function {
	out := map[string]*ssa.Function{}
	regFn := x.p.Fn("pkg/interp.RegisterFormat")
	named, idx := decodeFormatField(x.p, "DecodeFn")
	if regFn == nil || named == nil {
		return out
	}
	for _, fn := range x.p.FqFunctions() {
		if !strings.HasPrefix(pkgRel(fn), "format/") {
			continue
		}
		for _, c := range fw.CallsIn(fn) {
			if c.Common().StaticCallee() != regFn || len(c.Common().Args) != 2 {
				continue
			}
			name := x.groupName(c.Common().Args[0])
			fw.EachInstr(fn, func(ins ssa.Instruction) {
				st, ok := ins.(*ssa.Store)
				if !ok || !isFieldAddrOf(st.Addr, named, idx) || st.Addr.(*ssa.FieldAddr).X != c.Common().Args[1] {
					return
				}
				if f := c16AsFn(st.Val); f != nil {
					out[name] = f
				}
			})
		}
	}
	return out
}

// returns lists the fact sets at the exit of every returning block of fn.
func c16Returns(fn *ssa.Function, fl *c16Flow) (out []*c16FS, blocks []*ssa.BasicBlock) {
	for _, b := range fn.Blocks {
		if _, ok := b.Instrs[len(b.Instrs)-1].(*ssa.Return); !ok {
			continue
		}
		for _, fs := range fl.AtExit(b) {
			out = append(out, fs)
			blocks = append(blocks, b)
		}
	}
	return
}

func (x *c16) text() {
	re := x.r.Rule("C16.text.eof", "text decoders: a successful return implies the parser's next read after the top-level value returned exactly io.EOF (json: exactly one value and EOF; yaml: second Decode is EOF; xml: Token loop ends at EOF and accepts only whitespace / processing instructions; csv: Read loop ends at EOF and any other error is fatal; toml: Decode error is fatal); json keeps 64-bit integers (UseNumber)", 11)
	rroot := x.r.Rule("C16.text.root", "text decoders: yaml/toml/xml return only when the decoded root is an object or array; every text decoder stores the decoded value into d.Value.V before returning", 8)
	roots := x.formatRoots()
	need := func(name string) *ssa.Function {
		f := roots[name]
		if f == nil {
			re.Undecided(name+":root", "", "no DecodeFn registered under group "+name)
		}
		return f
	}
	storeV := func(ins ssa.Instruction) string {
		st, ok := ins.(*ssa.Store)
		if !ok {
			return ""
		}
		if fa, ok := st.Addr.(*ssa.FieldAddr); ok && fieldNameOf(fa.X.Type(), fa.Field) == "V" {
			if pt, ok := fa.X.Type().Underlying().(*types.Pointer); ok {
				if n, ok := pt.Elem().(*types.Named); ok && n.Obj().Name() == "Value" && n.Obj().Pkg().Path() == fw.Mod+"/pkg/decode" {
					return "storeV"
				}
			}
		}
		return ""
	}
	valueStored := func(name string, fn *ssa.Function, fss []*c16FS) {
		ok := len(fss) > 0
		for _, fs := range fss {
			if !fs.events["storeV"] {
				ok = false
			}
		}
		rroot.Check(ok, name+":value", x.p.Rel(fn.Pos()), "d.Value.V set on every return", "a return path does not store the decoded value into d.Value.V")
	}
	rootType := func(name string, fn *ssa.Function, fss []*c16FS) {
		ok := len(fss) > 0
		for _, fs := range fss {
			hit := false
			for v, pol := range fs.facts {
				ex, isEx := v.(*ssa.Extract)
				if !isEx || !pol || ex.Index != 1 {
					continue
				}
				ta, isTA := ex.Tuple.(*ssa.TypeAssert)
				if !isTA {
					continue
				}
				switch t := ta.AssertedType.Underlying().(type) {
				case *types.Map, *types.Slice:
					_ = t
					hit = true
				}
			}
			if !hit {
				ok = false
			}
		}
		rroot.Check(ok, name+":root-type", x.p.Rel(fn.Pos()), "root is map or slice on every return", "a return path accepts a root that is neither object nor array")
	}

	// ---- json / jsonl
	jroot, lroot := need("json"), need("jsonl")
	if jroot != nil && lroot != nil {
		var ex *ssa.Function
		var jArgs, lArgs []ssa.Value
		for _, c := range fw.CallsIn(jroot) {
			if cal := c.Common().StaticCallee(); cal != nil && pkgRel(cal) == "format/json" {
				ex, jArgs = cal, c.Common().Args
			}
		}
		for _, c := range fw.CallsIn(lroot) {
			if cal := c.Common().StaticCallee(); cal == ex && ex != nil {
				lArgs = c.Common().Args
			}
		}
		linesIdx := -1
		for i := range jArgs {
			cj, ok1 := jArgs[i].(*ssa.Const)
			if ok1 && cj.Value != nil && cj.Value.String() == "false" && i < len(lArgs) {
				if cl, ok2 := lArgs[i].(*ssa.Const); ok2 && cl.Value != nil && cl.Value.String() == "true" {
					linesIdx = i
				}
			}
		}
		if ex == nil || linesIdx < 0 {
			re.Fail("json:mode", x.p.Rel(jroot.Pos()), "the json root does not call the shared decoder with lines=false (and jsonl with lines=true): json would accept a stream of values")
		} else {
			re.Ok("json:mode", x.p.Rel(jroot.Pos()), "json passes lines=false, jsonl lines=true")
			x.textJSON(re, ex, ex.Params[linesIdx])
			fl := c16Facts(ex, storeV)
			fss, _ := c16Returns(ex, fl)
			valueStored("json", ex, fss)
		}
	}
	// ---- yaml
	if fn := need("yaml"); fn != nil {
		fl := c16Facts(fn, storeV)
		fss, _ := c16Returns(fn, fl)
		ok := len(fss) > 0
		msg := ""
		for _, fs := range fss {
			var first, second *ssa.Call
			for _, c := range fs.errNil(true) {
				if c16CalleeIs(c, "(*gopkg.in/yaml.v3.Decoder).Decode") {
					first = c
				}
			}
			for _, c := range fs.eofKnown(true) {
				if c16CalleeIs(c, "(*gopkg.in/yaml.v3.Decoder).Decode") {
					second = c
				}
			}
			switch {
			case first == nil:
				ok, msg = false, "a return path does not know the first Decode succeeded"
			case second == nil:
				ok, msg = false, "a return path does not know that the second Decode returned io.EOF (a further well-formed document, or any non-EOF outcome, is accepted as if the input ended)"
			case second == first || second.Common().Args[0] != first.Common().Args[0] || !(first.Block().Dominates(second.Block())):
				ok, msg = false, "the EOF test is not on a second Decode of the same decoder after the first"
			}
		}
		re.Check(ok, "yaml:eof", x.p.Rel(fn.Pos()), "first Decode ok, second Decode is io.EOF", "yaml: "+msg)
		rootType("yaml", fn, fss)
		valueStored("yaml", fn, fss)
	}
	// ---- toml
	if fn := need("toml"); fn != nil {
		fl := c16Facts(fn, storeV)
		fss, _ := c16Returns(fn, fl)
		ok := len(fss) > 0
		for _, fs := range fss {
			hit := false
			for _, c := range fs.errNil(true) {
				if cal := c.Common().StaticCallee(); cal != nil && cal.Name() == "Decode" && strings.Contains(cal.String(), "BurntSushi/toml") {
					hit = true
				}
			}
			if !hit {
				ok = false
			}
		}
		re.Check(ok, "toml:err", x.p.Rel(fn.Pos()), "Decode error is fatal", "toml: a return path does not know that toml Decode (which consumes the whole input) succeeded")
		rootType("toml", fn, fss)
		valueStored("toml", fn, fss)
	}
	// ---- xml
	if fn := need("xml"); fn != nil {
		fl := c16Facts(fn, storeV)
		fss, _ := c16Returns(fn, fl)
		ok := len(fss) > 0
		msg := ""
		var tok *ssa.Call
		for _, fs := range fss {
			var dec *ssa.Call
			tok = nil
			for _, c := range fs.errNil(true) {
				if c16CalleeIs(c, "(*encoding/xml.Decoder).Decode") {
					dec = c
				}
			}
			for _, c := range fs.eofKnown(true) {
				if c16CalleeIs(c, "(*encoding/xml.Decoder).Token") {
					tok = c
				}
			}
			switch {
			case dec == nil:
				ok, msg = false, "a return path does not know the root element decoded without error"
			case tok == nil:
				ok, msg = false, "a return path does not know that Token() reached io.EOF after the root element"
			case tok.Common().Args[0] != dec.Common().Args[0]:
				ok, msg = false, "the trailing-token scan uses another decoder"
			}
		}
		re.Check(ok, "xml:eof", x.p.Rel(fn.Pos()), "root decoded, then tokens until io.EOF", "xml: "+msg)
		// tokens that let the scan continue
		if tok == nil {
			re.Fail("xml:trailing", x.p.Rel(fn.Pos()), "xml: no Token() scan after the root element")
		} else {
			hdr := tok.Block()
			for !hasBackEdge(hdr) && hdr.Idom() != nil {
				hdr = hdr.Idom()
			}
			okTok := true
			n := 0
			for _, p := range hdr.Preds {
				if !hdr.Dominates(p) {
					continue
				}
				for _, fs := range fl.OnEdge(p, hdr) {
					n++
					benign := false
					for v, pol := range fs.facts {
						ex, isEx := v.(*ssa.Extract)
						if !isEx || !pol || ex.Index != 1 {
							continue
						}
						ta, isTA := ex.Tuple.(*ssa.TypeAssert)
						if !isTA {
							continue
						}
						switch types.TypeString(ta.AssertedType, nil) {
						case "encoding/xml.ProcInst":
							benign = true
						case "encoding/xml.CharData":
							for v2, pol2 := range fs.facts {
								if c, ok := v2.(*ssa.Call); ok && pol2 && c16CalleeIs(c, "(*regexp.Regexp).Match") {
									benign = true
								}
							}
						}
					}
					if !benign {
						okTok = false
					}
				}
			}
			re.Check(okTok && n > 0, "xml:trailing", x.p.Rel(tok.Pos()), "only whitespace and processing instructions may follow the root", "xml: the trailing scan continues past a token that is neither whitespace character data nor a processing instruction")
		}
		rootType("xml", fn, fss)
		valueStored("xml", fn, fss)
	}
	// ---- csv
	if fn := need("csv"); fn != nil {
		fl := c16Facts(fn, storeV)
		fss, _ := c16Returns(fn, fl)
		ok := len(fss) > 0
		for _, fs := range fss {
			hit := false
			for _, c := range fs.eofKnown(true) {
				if c16CalleeIs(c, "(*encoding/csv.Reader).Read") {
					hit = true
				}
			}
			if !hit {
				ok = false
			}
		}
		re.Check(ok, "csv:eof", x.p.Rel(fn.Pos()), "record loop ends at io.EOF", "csv: a return path does not know that Read returned io.EOF")
		// any other error is fatal
		okErr := true
		fl.eachLiveEdge(func(fs *c16FS) {
			if len(fs.eofKnown(false)) > 0 && len(fs.errNil(false)) > 0 {
				okErr = false
			}
		})
		re.Check(okErr, "csv:err", x.p.Rel(fn.Pos()), "non-EOF read error is fatal", "csv: decoding continues after a read error that is not io.EOF (truncated or malformed input is reported as success)")
		valueStored("csv", fn, fss)
	}
}

// eachLiveEdge visits the fact sets on every CFG edge whose target does not end in a no-return call.
func (fl *c16Flow) eachLiveEdge(f func(*c16FS)) {
	for ek, m := range fl.edge {
		if fw.CurrentNR != nil && fw.CurrentNR.CutIndex(ek[1]) >= 0 {
			continue
		}
		for _, fs := range m {
			f(fs)
		}
	}
}

func hasBackEdge(b *ssa.BasicBlock) bool {
	for _, p := range b.Preds {
		if b.Dominates(p) {
			return true
		}
	}
	return false
}

// textJSON: the shared json/jsonl decoder with its `lines` parameter.
func (x *c16) textJSON(re *fw.Rule, fn *ssa.Function, lines *ssa.Parameter) {
	pos := x.p.Rel(fn.Pos())
	fl := c16Facts(fn, nil)
	fss, _ := c16Returns(fn, fl)
	ok := len(fss) > 0
	msg := ""
	nStrict := 0
	var lenArg ssa.Value
	for _, fs := range fss {
		if pol, known := fs.facts[lines]; known && pol {
			continue
		}
		nStrict++
		eof := false
		for _, c := range fs.eofKnown(true) {
			if c16CalleeIs(c, "(*encoding/json.Decoder).Decode") {
				eof = true
			}
		}
		one := false
		for _, ef := range fs.eqFacts() {
			call, isCall := ef.X.(*ssa.Call)
			if !isCall || !fw.IsBuiltinCall(call, "len") || !ef.Eq {
				continue
			}
			if i, isI := c16KeyInt(ef.C); isI && i == 1 {
				one = true
				lenArg = call.Common().Args[0]
			}
		}
		if !eof {
			ok, msg = false, "a non-lines return path does not know that Decode returned io.EOF after the value (trailing garbage or a syntax error after the first value is accepted)"
		} else if !one {
			ok, msg = false, "a non-lines return path does not know that exactly one value was decoded (len(values) == 1)"
		}
	}
	if nStrict == 0 {
		ok, msg = false, "no return path for lines == false"
	}
	re.Check(ok, "json:eof", pos, "lines==false returns only with exactly one value and io.EOF", "json: "+msg)
	// the returned value is element 0 of the counted slice
	first := false
	fw.EachInstr(fn, func(ins ssa.Instruction) {
		if ia, isIA := ins.(*ssa.IndexAddr); isIA && lenArg != nil && ia.X == lenArg {
			if i, isI := c16ConstInt(ia.Index); isI && i == 0 {
				first = true
			}
		}
	})
	re.Check(first, "json:value", pos, "value is element 0 of the counted values", "json: the stored value is not element 0 of the slice whose length is tested")
	// values are appended only after a successful Decode
	okApp, nApp := true, 0
	for _, c := range fw.CallsIn(fn) {
		if !fw.IsBuiltinCall(c, "append") {
			continue
		}
		nApp++
		for _, fs := range fl.At(c.Block()) {
			hit := false
			for _, s := range fs.errNil(true) {
				if c16CalleeIs(s, "(*encoding/json.Decoder).Decode") {
					hit = true
				}
			}
			if !hit {
				okApp = false
			}
		}
	}
	re.Check(okApp && nApp > 0, "json:append", pos, "a value is counted only when Decode succeeded", "json: a value is appended without knowing that Decode returned nil")
	// UseNumber before Decode; NormalizeNumbers on the result
	useNum, norm := false, false
	for _, c := range fw.CallsIn(fn) {
		if cc, isC := c.(*ssa.Call); isC {
			if c16CalleeIs(cc, "(*encoding/json.Decoder).UseNumber") {
				useNum = true
			}
			if cal := cc.Common().StaticCallee(); cal != nil && cal.Name() == "NormalizeNumbers" {
				norm = true
			}
		}
	}
	re.Check(useNum && norm, "json:numbers", pos, "UseNumber + NormalizeNumbers", "json: numbers are not decoded with UseNumber and normalised (integers above 2^53 lose precision)")
	// non-EOF error in lines mode is fatal
	okErr := true
	fl.eachLiveEdge(func(fs *c16FS) {
		if pol, known := fs.facts[lines]; known && pol && len(fs.eofKnown(false)) > 0 && len(fs.errNil(false)) > 0 {
			okErr = false
		}
	})
	re.Check(okErr, "jsonl:err", pos, "lines mode: non-EOF error is fatal", "jsonl: decoding continues after a syntax error")
	_ = fmt.Sprint
}
