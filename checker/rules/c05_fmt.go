package rules

import (
	"fmt"
	"go/types"
	"os"
	"path/filepath"
	"regexp"
	"sort"
	"strconv"
	"strings"

	"github.com/wader/gojq"
	"golang.org/x/tools/go/ssa"

	"fqverif/fw"
)

// ---------------------------------------------------------------------------
// C05.fmt

// what each documented bits_format label must be bound to
type c05Arm struct {
	sink    string // how the destination writer of CopyBits is built, %B = the fresh buffer
	limited bool   // source is a bit-limited prefix of the reader
	closes  bool   // the encoder must be closed (flushed) before the buffer is read
	result  string // descriptor of the success result, %B = (*bytes.Buffer).String(buf) etc.
}

var c05Arms = map[string]c05Arm{
	"string":     {sink: "buf", result: "string(buf)"},
	"truncate":   {sink: "buf", limited: true, result: "string(buf)"},
	"hex":        {sink: "encoding/hex.NewEncoder(buf)", result: "string(buf)"},
	"base64":     {sink: "encoding/base64.NewEncoder(*encoding/base64.StdEncoding,buf)", closes: true, result: "string(buf)"},
	"snippet":    {sink: "encoding/base64.NewEncoder(*encoding/base64.StdEncoding,buf)", limited: true, closes: true, result: "snippet"},
	"md5":        {sink: "crypto/md5.New()", result: "md5"},
	"byte_array": {sink: "buf", result: "bytes(buf)"},
}

func c05Fmt(r *fw.Run, p *fw.Program) {
	ru := r.Rule("C05.fmt", "bitsFormatFnFromOptions: the labels are exactly the documented bits_format values, default is an error; each renderer copies the whole reader (a byte-aligned constant-limited prefix for truncate/snippet) with one CopyBits into a writer created inside the call (no state shared between values), through the codec its label names, checks the copy error, closes base64 encoders before reading the buffer and returns that buffer's content; snippet prints the length of the whole reader in the sizebase option's base, byte_array keeps each byte 0..255; Binary values reach the renderer with their own toReader(), decode values with ToBinary() exactly when raw, scalar and not synthetic", 36)

	fn := c05Anchor(ru, p, "pkg/interp.bitsFormatFnFromOptions")
	if fn != nil {
		c05FmtSwitch(ru, p, fn)
	}

	// the chain from a value to the renderer
	if f := c05Anchor(ru, p, "(pkg/interp.Binary).JQValueToGoJQEx"); f != nil {
		e := fw.NewSymEnv(f)
		good := false
		d := ""
		for _, c := range fw.CallsIn(f) {
			if c.Common().StaticCallee() != nil || c.Common().IsInvoke() {
				continue
			}
			d = e.CallDesc(c)
			if strings.HasPrefix(d, "dyn[") && strings.Contains(d, "BitsFormatFn](") {
				good = strings.HasSuffix(d, "BitsFormatFn](pkg/bitio.CloneReaderAtSeeker((pkg/interp.Binary).toReader(P0)#0)#0)") && strings.HasPrefix(d, "dyn[dyn[P1]()#0->BitsFormatFn]")
				break
			}
		}
		ru.Check(good, "chain:Binary", p.Rel(f.Pos()), "opts.BitsFormatFn(clone(b.toReader()))", "a binary must be rendered from a clone of its own (padded) reader by the BitsFormatFn of the given options: "+d)
	}
	if f := c05Anchor(ru, p, "(pkg/interp.decodeValue).JQValueToGoJQEx"); f != nil {
		e := fw.NewSymEnv(f)
		good := false
		d := ""
		for _, c := range fw.CallsTo(f, "(pkg/interp.Binary).JQValueToGoJQEx") {
			d = e.Of(c)
			good = d == "(pkg/interp.Binary).JQValueToGoJQEx((pkg/interp.decodeValueBase).ToBinary(P0.decodeValueBase)#0,P1)"
			if good {
				// exactly: raw, scalar, not synthetic (every other raw value would ignore bits_format)
				gb := c.Block()
				if ex, ok := c.Call.Args[0].(*ssa.Extract); ok {
					if tc, ok := ex.Tuple.(*ssa.Call); ok {
						gb = tc.Block() // conditions under which the value is converted with ToBinary
					}
				}
				synTests := map[ssa.Value]bool{}
				for _, t := range c05SynTests(f, e, "P0.decodeValueBase.dv") {
					synTests[t] = true
				}
				nRaw, nScalar, nSyn, nOther := 0, 0, 0, 0
				seen := map[ssa.Value]bool{}
				for _, gg := range fw.Guards(gb) {
					gg = gg.Normalize()
					if seen[gg.Cond] {
						continue
					}
					seen[gg.Cond] = true
					gd, v := e.Of(gg.Cond), gg.True
					_, helper := gg.Cond.(*ssa.Call)
					helper = helper && synTests[gg.Cond] && !strings.HasPrefix(gd, "(pkg/scalar.Flags).IsSynthetic(")
					switch {
					case gd == "P0.isRaw" && v:
						nRaw++
					case gd == "assert<pkg/scalar.Scalarable>(P0.decodeValueBase.dv->V)#1" && v:
						nScalar++
					case synTests[gg.Cond] && !v && helper:
						// helper(dv) == false: not (scalar and synthetic); a raw value is always a scalar
						nSyn++
						nScalar++
					case synTests[gg.Cond] && !v:
						nSyn++
					default:
						nOther++
						d += fmt.Sprintf(" [extra condition %s=%v]", gd, v)
					}
				}
				if nRaw != 1 || nScalar != 1 || nSyn != 1 || nOther != 0 {
					good = false
					d += fmt.Sprintf(" (conditions: isRaw %d, scalar %d, not-synthetic %d, other %d)", nRaw, nScalar, nSyn, nOther)
				}
			}
		}
		ru.Check(good, "chain:decodeValue", p.Rel(f.Pos()), "raw decode value: ToBinary().JQValueToGoJQEx(optsFn)", "every raw, non-synthetic scalar decode value (and only those) must be rendered through its own ToBinary() with the caller's options: "+d)
	}
	if f := c05Anchor(ru, p, "pkg/interp.OptionsFromValue"); f != nil {
		e := fw.NewSymEnv(f)
		good := false
		d := ""
		fw.EachInstr(f, func(ins ssa.Instruction) {
			st, ok := ins.(*ssa.Store)
			if !ok {
				return
			}
			if _, ok := c05FieldAddr(st.Addr, "pkg/interp", "Options", "BitsFormatFn"); ok {
				d = e.Of(st.Val)
				good = strings.HasPrefix(d, "pkg/interp.bitsFormatFnFromOptions(") && strings.HasSuffix(d, ")#0")
				if c, ok := st.Val.(*ssa.Extract); ok {
					if call, ok := c.Tuple.(*ssa.Call); ok && len(call.Call.Args) == 1 {
						// the argument is the options being built
						if u, ok := call.Call.Args[0].(*ssa.UnOp); ok {
							base, path := fw.AddrPath(u.X)
							sb, _ := fw.AddrPath(st.Addr)
							good = good && base == sb && len(path) == 0
						} else {
							good = false
						}
					}
				}
			}
		})
		ru.Check(good, "chain:options", p.Rel(f.Pos()), "opts.BitsFormatFn = bitsFormatFnFromOptions(opts)", "OptionsFromValue must bind BitsFormatFn to the renderer selected by the same options: "+d)
		nerr := false
		for _, ret := range c05Returns(f) {
			if len(ret.Results) == 2 && strings.HasPrefix(e.Of(ret.Results[1]), "pkg/interp.bitsFormatFnFromOptions(") && e.Of(ret.Results[0]) == "nil" {
				nerr = true
			}
		}
		ru.Check(nerr, "chain:options-error", p.Rel(f.Pos()), "an invalid bits_format is an error", "OptionsFromValue must fail when bitsFormatFnFromOptions fails (invalid bits_format)")
	}
	if f := c05Anchor(ru, p, "pkg/interp.toValue"); f != nil {
		good := false
		for _, cl := range fw.WithClosures(f) {
			e := fw.NewSymEnv(cl)
			for _, c := range fw.CallsIn(cl) {
				if c.Common().IsInvoke() && c.Common().Method.Name() == "JQValueToGoJQEx" {
					d := e.CallDesc(c)
					g := c05GuardDescs(e, c.Block())
					nilOpts, known := g["(FV0 == nil)"]
					if v, ok := g["(*FV0 == nil)"]; ok {
						nilOpts, known = v, true
					}
					good = (strings.HasSuffix(d, ",FV0)") || strings.HasSuffix(d, ",*FV0)")) && cl.Parent() == f && len(cl.FreeVars) > 0 && known && !nilOpts
				}
			}
		}
		ru.Check(good, "chain:toValue", p.Rel(f.Pos()), "tovalue converts with the caller's options when given", "toValue must call JQValueToGoJQEx(optsFn) with the options function it was given")
	}
}

var c05DocRe = regexp.MustCompile("`-[a-z] bits_format=([a-z0-9_]+)`")

// c05DocLabels parses the documented list of bits_format values from doc/usage.md.
func c05DocLabels(repo string) []string {
	b, err := os.ReadFile(filepath.Join(repo, "doc", "usage.md"))
	if err != nil {
		return nil
	}
	s := string(b)
	i := strings.Index(s, "### `-o bits_format=")
	if i < 0 {
		return nil
	}
	s = s[i+4:]
	if j := strings.Index(s, "\n#"); j >= 0 {
		s = s[:j]
	}
	set := map[string]bool{}
	for _, line := range strings.Split(s, "\n") {
		if !strings.HasPrefix(strings.TrimSpace(line), "- ") {
			continue
		}
		if m := c05DocRe.FindStringSubmatch(line); m != nil {
			set[m[1]] = true
		}
	}
	var out []string
	for k := range set {
		out = append(out, k)
	}
	sort.Strings(out)
	return out
}

func c05FmtSwitch(ru *fw.Rule, p *fw.Program, fn *ssa.Function) {
	e := fw.NewSymEnv(fn)
	pos := p.Rel(fn.Pos())
	// label -> renderer
	arms := map[string]*ssa.Function{}
	var lastFalse *ssa.BasicBlock
	for _, b := range fn.Blocks {
		ifi, ok := b.Instrs[len(b.Instrs)-1].(*ssa.If)
		if !ok {
			continue
		}
		bo, ok := ifi.Cond.(*ssa.BinOp)
		if !ok || bo.Op.String() != "==" {
			continue
		}
		var lab string
		var tag ssa.Value
		if s, ok := constString(bo.Y); ok {
			lab, tag = s, bo.X
		} else if s, ok := constString(bo.X); ok {
			lab, tag = s, bo.Y
		} else {
			continue
		}
		if !c05IsOptsField(tag, "BitsFormat") {
			continue
		}
		lab, _ = strconv.Unquote(`"` + lab + `"`)
		t := b.Succs[0]
		ret, ok := t.Instrs[len(t.Instrs)-1].(*ssa.Return)
		if !ok || len(ret.Results) != 2 || e.Of(ret.Results[1]) != "nil" {
			ru.Fail("label:"+lab, p.Rel(ifi.Pos()), "bits_format "+lab+" does not return a renderer")
			continue
		}
		var f *ssa.Function
		switch x := ret.Results[0].(type) {
		case *ssa.Function:
			f = x
		case *ssa.MakeClosure:
			f = x.Fn.(*ssa.Function)
		}
		if f == nil {
			ru.Undecided("label:"+lab, p.Rel(ifi.Pos()), "renderer of bits_format "+lab+" is not a function literal")
			continue
		}
		if _, dup := arms[lab]; dup {
			ru.Fail("label:"+lab, p.Rel(ifi.Pos()), "bits_format "+lab+" is matched twice")
		}
		arms[lab] = f
		lastFalse = b.Succs[1]
	}
	if len(arms) == 0 {
		ru.Undecided("labels", pos, "bitsFormatFnFromOptions is no longer a switch on opts.BitsFormat with string cases")
		return
	}
	// documented set
	doc := c05DocLabels(p.Repo)
	if len(doc) == 0 {
		ru.Undecided("labels:doc", "doc/usage.md", "cannot find the documented bits_format list")
	} else {
		have := fw.SortedKeys(arms)
		ru.Check(strings.Join(have, ",") == strings.Join(doc, ","), "labels:doc", pos, "case labels = documented bits_format values",
			fmt.Sprintf("bits_format labels in code %v differ from the documented ones %v", have, doc))
	}
	for _, lab := range fw.SortedKeys(arms) {
		if _, ok := c05Arms[lab]; !ok {
			ru.Undecided("label:"+lab, pos, "bits_format "+lab+" has no codec binding in the rule table (new format: add its expected codec)")
		}
	}
	for _, lab := range fw.SortedKeys(c05Arms) {
		if _, ok := arms[lab]; !ok {
			ru.Fail("label:"+lab, pos, "bits_format "+lab+" is no longer handled")
		}
	}
	// default is an error
	defOK := false
	if lastFalse != nil {
		defOK = true
		seen := map[*ssa.BasicBlock]bool{}
		var walk func(b *ssa.BasicBlock)
		walk = func(b *ssa.BasicBlock) {
			if seen[b] {
				return
			}
			seen[b] = true
			if ret, ok := b.Instrs[len(b.Instrs)-1].(*ssa.Return); ok {
				if len(ret.Results) != 2 || e.Of(ret.Results[0]) != "nil" || e.Of(ret.Results[1]) == "nil" {
					defOK = false
				}
			}
			for _, s := range b.Succs {
				walk(s)
			}
		}
		walk(lastFalse)
	}
	ru.Check(defOK, "default", pos, "unknown bits_format is an error", "an unknown bits_format must return (nil, error)")

	for _, lab := range fw.SortedKeys(arms) {
		want, ok := c05Arms[lab]
		if !ok {
			continue
		}
		c05Renderer(ru, p, lab, arms[lab], want)
	}
}

// c05IsOptsField: v is a read of interp.Options.<field> (of the options parameter or its spilled copy).
func c05IsOptsField(v ssa.Value, field string) bool {
	switch x := fw.StripConv(v).(type) {
	case *ssa.UnOp:
		_, ok := c05FieldAddr(x.X, "pkg/interp", "Options", field)
		return ok
	case *ssa.Field:
		return c05IsNamed(x.X.Type(), "pkg/interp", "Options") && fieldNameOf(x.X.Type(), x.Field) == field
	}
	return false
}

func c05Renderer(ru *fw.Rule, p *fw.Program, lab string, f *ssa.Function, want c05Arm) {
	e := fw.NewSymEnv(f)
	pos := p.Rel(f.Pos())
	k := func(s string) string { return "render:" + lab + ":" + s }
	copies := fw.CallsTo(f, "internal/bitiox.CopyBits")
	if len(copies) != 1 || len(copies[0].Call.Args) != 2 {
		ru.Fail(k("copy"), pos, fmt.Sprintf("renderer has %d CopyBits calls, expected exactly one copy of the reader", len(copies)))
		return
	}
	cp := copies[0]
	if c05InLoop(cp.Block()) {
		ru.Fail(k("copy"), p.Rel(cp.Pos()), "the copy is inside a loop")
		return
	}
	// source
	src := e.Of(cp.Call.Args[1])
	if want.limited {
		good := false
		if c, ok := fw.StripConv(cp.Call.Args[1]).(*ssa.Call); ok && c.Call.StaticCallee() != nil && fw.ShortFn(c.Call.StaticCallee()) == "pkg/bitio.NewLimitReader" && len(c.Call.Args) == 2 {
			lim, err := strconv.ParseInt(e.Of(c.Call.Args[1]), 10, 64)
			good = e.Of(c.Call.Args[0]) == "P0" && err == nil && lim > 0 && lim%8 == 0
		}
		ru.Check(good, k("source"), p.Rel(cp.Pos()), "prefix of the reader with a positive byte-aligned constant limit",
			"a truncating renderer must copy NewLimitReader(br, <positive multiple of 8>), copies "+src)
	} else {
		ru.Check(src == "P0", k("source"), p.Rel(cp.Pos()), "copies the whole reader", "the renderer must copy the whole reader br, copies "+src)
	}
	// sink: built inside this call from a fresh buffer / hasher
	var buf ssa.Value // the fresh *bytes.Buffer
	sinkDesc := c05SinkDesc(e, cp.Call.Args[0], &buf)
	fresh := len(f.FreeVars) == 0 || !c05UsesFreeVar(cp.Call.Args[0])
	ru.Check(sinkDesc == want.sink && fresh, k("sink"), p.Rel(cp.Pos()), "writes into "+want.sink+" created in this call",
		"the destination of the copy must be "+want.sink+" created inside the renderer call (state shared between values corrupts every value after the first), got "+sinkDesc)
	if sinkDesc != want.sink {
		return
	}
	// copy error is checked: the success returns are only reachable when err == nil
	errV := ""
	okRets := []*ssa.Return{}
	for _, ret := range c05Returns(f) {
		if len(ret.Results) == 2 && e.Of(ret.Results[1]) == "nil" {
			okRets = append(okRets, ret)
		}
	}
	errChecked := len(okRets) > 0
	for _, ret := range okRets {
		g := c05GuardDescs(e, ret.Block())
		found := false
		for d, v := range g {
			if strings.HasPrefix(d, "(internal/bitiox.CopyBits(") && strings.HasSuffix(d, "#1 != nil)") && !v {
				found = true
			}
			if strings.HasPrefix(d, "(internal/bitiox.CopyBits(") && strings.HasSuffix(d, "#1 == nil)") && v {
				found = true
			}
			if strings.HasPrefix(d, "(nil != internal/bitiox.CopyBits(") && !v || strings.HasPrefix(d, "(nil == internal/bitiox.CopyBits(") && v {
				found = true
			}
		}
		if !found {
			errChecked = false
			errV = e.Of(ret.Results[0])
		}
	}
	ru.Check(errChecked, k("error"), pos, "result only when the copy succeeded", "a rendering is returned although the copy of the bits failed (partial data rendered as if complete): "+errV)
	// close before reading
	if want.closes {
		closed := false
		for _, c := range fw.CallsIn(f) {
			if c.Common().IsInvoke() && c.Common().Method.Name() == "Close" && fw.StripConv(c.Common().Value) == fw.StripConv(cp.Call.Args[0]) {
				closed = true
				for _, ret := range okRets {
					if !c05InstrDominates(c, ret) || !c05InstrDominates(cp, c) {
						closed = false
					}
				}
			}
		}
		ru.Check(closed, k("close"), pos, "encoder closed after the copy and before the result", "the base64 encoder must be closed after the copy and before the buffer is read (otherwise the last 1-2 bytes are missing)")
	}
	// result
	for i, ret := range okRets {
		got := e.Of(ret.Results[0])
		key := k(fmt.Sprintf("result#%d", i+1))
		bufStr := func(v ssa.Value) bool { // (*bytes.Buffer).String(buf)
			c, ok := fw.StripConv(v).(*ssa.Call)
			return ok && c.Call.StaticCallee() != nil && c.Call.StaticCallee().String() == "(*bytes.Buffer).String" && len(c.Call.Args) == 1 && c.Call.Args[0] == buf && c05InstrDominates(cp, c)
		}
		switch want.result {
		case "string(buf)":
			ru.Check(bufStr(ret.Results[0]), key, p.Rel(ret.Pos()), "returns the buffer's content", "the renderer must return the content of the buffer it copied into, returns "+got)
		case "md5":
			good := false
			if c, ok := fw.StripConv(ret.Results[0]).(*ssa.Call); ok && c.Call.StaticCallee() != nil && c.Call.StaticCallee().String() == "encoding/hex.EncodeToString" {
				if s, ok := c.Call.Args[0].(*ssa.Call); ok && s.Call.IsInvoke() && s.Call.Method.Name() == "Sum" && fw.StripConv(s.Call.Value) == fw.StripConv(cp.Call.Args[0]) &&
					len(s.Call.Args) == 1 && e.Of(s.Call.Args[0]) == "nil" && c05InstrDominates(cp, s) {
					good = true
				}
			}
			ru.Check(good, key, p.Rel(ret.Pos()), "hex(d.Sum(nil)) of the hasher copied into", "md5 must return the hex digest d.Sum(nil) of the hasher the bits were copied into, returns "+got)
		case "bytes(buf)":
			good := false
			var bytesCall ssa.Value
			for _, c := range fw.CallsIn(f) {
				if sc := c.Common().StaticCallee(); sc != nil && sc.String() == "(*bytes.Buffer).Bytes" && c.Common().Args[0] == buf && c05InstrDominates(cp, c) {
					bytesCall = c.Value()
				}
			}
			if bytesCall != nil {
				// the result is a slice grown by append of the converted elements of Bytes()
				if ph, ok := fw.StripConv(ret.Results[0]).(*ssa.Phi); ok {
					for _, ed := range ph.Edges {
						if ap, ok := ed.(*ssa.Call); ok && fw.IsBuiltinCall(ap, "append") && len(ap.Call.Args) == 2 && ap.Call.Args[0] == ssa.Value(ph) {
							if els, ok := fw.VarArgs(ap.Call.Args[1]); ok && len(els) == 1 {
								if ld, ok := c05WideningByte(els[0]); ok {
									if ia, ok := ld.X.(*ssa.IndexAddr); ok && ia.X == bytesCall {
										good = true
									}
								}
							}
						}
					}
				}
			}
			ru.Check(good, key, p.Rel(ret.Pos()), "array of the buffer's bytes", "byte_array must return every byte of the buffer it copied into, in order, returns "+got)
		case "snippet":
			good := false
			if c, ok := fw.StripConv(ret.Results[0]).(*ssa.Call); ok && c.Call.StaticCallee() != nil && c.Call.StaticCallee().String() == "fmt.Sprintf" && len(c.Call.Args) == 2 {
				if els, ok := fw.VarArgs(c.Call.Args[1]); ok && len(els) == 2 && e.Of(c.Call.Args[0]) == `"<%s>%s"` {
					d0 := e.Of(els[0])
					good = strings.HasPrefix(d0, "(internal/mathx.Bits).StringByteBits(internal/bitiox.Len(P0)#0,") && bufStr(els[1])
					if sc, ok := fw.StripConv(els[0]).(*ssa.Call); ok && len(sc.Call.Args) == 2 {
						good = good && c05IsOptsField(sc.Call.Args[1], "Sizebase")
					} else {
						good = false
					}
				}
			}
			ru.Check(good, key, p.Rel(ret.Pos()), "<length of the whole reader in sizebase> + base64 prefix", "snippet must be the bit length of the WHOLE reader (in the sizebase option's base) followed by the buffer's content, returns "+got)
		}
	}
}

// c05SinkDesc renders the writer of the copy with the fresh buffer replaced by "buf".
func c05SinkDesc(e *fw.SymEnv, w ssa.Value, buf *ssa.Value) string {
	w = fw.StripConv(w)
	if a, ok := w.(*ssa.Alloc); ok && a.Heap && strings.HasSuffix(a.Type().String(), "bytes.Buffer") {
		if len(c05StoresToAlloc(a)) == 0 {
			*buf = a
			return "buf"
		}
	}
	if c, ok := w.(*ssa.Call); ok && c.Call.StaticCallee() != nil && !c.Call.IsInvoke() {
		var args []string
		for _, a := range c.Call.Args {
			args = append(args, c05SinkDesc(e, a, buf))
		}
		return c.Call.StaticCallee().String() + "(" + strings.Join(args, ",") + ")"
	}
	return e.Of(w)
}

func c05StoresToAlloc(a *ssa.Alloc) []*ssa.Store {
	var out []*ssa.Store
	for _, ref := range *a.Referrers() {
		switch x := ref.(type) {
		case *ssa.Store:
			if x.Addr == ssa.Value(a) {
				out = append(out, x)
			}
		case *ssa.FieldAddr:
			for _, r2 := range *x.Referrers() {
				if s, ok := r2.(*ssa.Store); ok {
					out = append(out, s)
				}
			}
		}
	}
	return out
}

func c05UsesFreeVar(v ssa.Value) bool {
	seen := map[ssa.Value]bool{}
	var rec func(v ssa.Value) bool
	rec = func(v ssa.Value) bool {
		if seen[v] {
			return false
		}
		seen[v] = true
		if _, ok := v.(*ssa.FreeVar); ok {
			return true
		}
		if ins, ok := v.(ssa.Instruction); ok {
			for _, op := range ins.Operands(nil) {
				if *op != nil && rec(*op) {
					return true
				}
			}
		}
		return false
	}
	return rec(v)
}

func c05InLoop(b *ssa.BasicBlock) bool {
	seen := map[*ssa.BasicBlock]bool{}
	stack := append([]*ssa.BasicBlock{}, b.Succs...)
	for len(stack) > 0 {
		x := stack[len(stack)-1]
		stack = stack[:len(stack)-1]
		if x == b {
			return true
		}
		if seen[x] {
			continue
		}
		seen[x] = true
		stack = append(stack, x.Succs...)
	}
	return false
}

// ---------------------------------------------------------------------------
// C05.jq

func c05JQ(r *fw.Run, p *fw.Program) {
	ru := r.Rule("C05.jq", "binary.jq: tobits/tobytes/tobitsrange/tobytesrange(/1) call _tobits with unit 1|8, keep_range false|true and pad_to_units 0|$pad, keys matching the Go option struct; interp.jq: only an explicit display clears raw_output, display_implicit is display($opts; false), the CLI displays implicitly and defaults raw_output to 'stdout is not a terminal'; tovalue/0,1 convert with options(...); between its input and _display display/2 applies only _todisplay and the value_output conversion and selects _display exactly by _can_display", 15)
	j, err := fw.LoadJQ(p.Repo)
	if err != nil {
		ru.Undecided("jq", "", "cannot load bundled jq sources: "+err.Error())
		return
	}
	// option struct of _toBits
	snake := map[string]bool{}
	if fn := p.Fn("(*pkg/interp.Interp)._toBits"); fn != nil && len(fn.Params) == 3 {
		if st, ok := fn.Params[2].Type().Underlying().(*types.Struct); ok {
			for i := 0; i < st.NumFields(); i++ {
				snake[c05CamelToSnake(st.Field(i).Name())] = true
			}
		}
	}
	if len(snake) == 0 {
		ru.Undecided("tobits:opts-struct", "", "cannot resolve the option struct of _toBits")
	}
	type row struct {
		name      string
		arity     int
		unit      string
		keepRange string
		pad       string
	}
	for _, w := range []row{
		{"tobits", 0, "1", "false", "0"},
		{"tobytes", 0, "8", "false", "0"},
		{"tobitsrange", 0, "1", "true", "0"},
		{"tobytesrange", 0, "8", "true", "0"},
		{"tobits", 1, "1", "false", "$pad"},
		{"tobytes", 1, "8", "false", "$pad"},
	} {
		key := fmt.Sprintf("def:%s/%d", w.name, w.arity)
		d := j.Def("pkg/interp/binary.jq", w.name, w.arity)
		if d == nil {
			ru.Undecided(key, "pkg/interp/binary.jq", "definition not found")
			continue
		}
		call := fw.JQIsCall(d.Def.Body, "_tobits", 1)
		if call == nil {
			ru.Fail(key, d.File.Rel, "body is not a single call of _tobits/1: "+fw.JQStr(d.Def.Body))
			continue
		}
		obj := c05JQObject(call.Args[0])
		if obj == nil {
			ru.Fail(key, d.File.Rel, "argument of _tobits is not an object literal")
			continue
		}
		got := map[string]string{}
		badKey := ""
		for _, kv := range obj.KeyVals {
			kname := kv.Key
			if kname == "" && kv.KeyString != nil {
				kname = kv.KeyString.Str
			}
			got[kname] = fw.JQStr(kv.Val)
			if len(snake) > 0 && !snake[kname] {
				badKey = kname
			}
		}
		if w.arity == 1 && (len(d.Def.Args) != 1 || d.Def.Args[0] != "$pad") {
			w.pad = d.Def.Args[0]
		}
		good := got["unit"] == w.unit && got["keep_range"] == w.keepRange && got["pad_to_units"] == w.pad && badKey == "" && len(got) == 3
		ru.Check(good, key, d.File.Rel, fmt.Sprintf("_tobits({unit: %s, keep_range: %s, pad_to_units: %s})", w.unit, w.keepRange, w.pad),
			fmt.Sprintf("%s/%d must call _tobits({unit: %s, keep_range: %s, pad_to_units: %s}), calls %s (unknown option key %q)", w.name, w.arity, w.unit, w.keepRange, w.pad, fw.JQStr(d.Def.Body), badKey))
	}

	// raw output selection
	const ij = "pkg/interp/interp.jq"
	if d := j.Def(ij, "display", 2); d == nil || len(d.Def.Args) != 2 {
		ru.Undecided("display/2", ij, "definition not found")
	} else {
		optsArg, explArg := d.Def.Args[0], d.Def.Args[1]
		var call *gojq.Func
		n := 0
		for _, c := range fw.JQCalls(d.Def.Body) {
			if c.Name == "_display" && len(c.Args) == 1 {
				call = c
				n++
			}
		}
		if n != 1 {
			ru.Fail("display/2:_display", ij, "display/2 does not call _display/1 exactly once")
		} else {
			pl := fw.JQPipeline(call.Args[0])
			good := len(pl) == 2 && fw.JQStr(pl[0]) == optsArg && fw.JQStr(pl[1]) == "if "+explArg+" then .raw_output = false end"
			ru.Check(good, "display/2:raw_output", ij, "raw_output cleared only for an explicit display call",
				"_display must get the caller's options with raw_output cleared only when display was called explicitly, gets "+fw.JQStr(call.Args[0]))
		}
		// nothing else in display/2 touches raw_output
		cnt := strings.Count(fw.JQStr(d.Def.Body), "raw_output")
		ru.Check(cnt == 1, "display/2:raw_output-once", ij, "raw_output is touched once", fmt.Sprintf("display/2 mentions raw_output %d times", cnt))
		// what happens to the value between the input of display/2 and _display
		qs, ss := c05JQStageQueries(d.Def.Body), c05JQStages(d.Def.Body)
		inputVars := map[string]bool{}
		dispIdx, condOK := -1, false
		var extra []string
		for i, q := range qs {
			if i >= len(ss) {
				break
			}
			if q == nil {
				if strings.HasPrefix(ss[i], ". as ") {
					inputVars[strings.TrimPrefix(ss[i], ". as ")] = true
				}
				continue
			}
			if ife := c05JQIf(q); ife != nil && fw.JQIsCall(ife.Then, "_display", 1) != nil {
				dispIdx = i
				condOK = fw.JQStr(ife.Cond) == "_can_display" && len(ife.Elif) == 0
				break
			}
			st := ss[i]
			switch {
			case strings.HasPrefix(st, "try _todisplay catch ") && inputVars[strings.TrimPrefix(st, "try _todisplay catch ")]:
			case c05ValueOutputRe.MatchString(st):
			default:
				extra = append(extra, st)
			}
		}
		if dispIdx < 0 {
			ru.Undecided("display/2:stages", ij, "display/2 is no longer a pipeline ending in `if _can_display then _display(...)`")
		} else {
			ru.Check(condOK && len(extra) == 0, "display/2:stages", ij, "input | _todisplay (or input) | value_output conversion | if _can_display then _display",
				fmt.Sprintf("a displayable value (binary: raw bytes) must reach _display unchanged except for _todisplay and the value_output conversion, and exactly when _can_display: extra stages %q, condition ok=%v", extra, condOK))
		}
	}
	for _, w := range []struct {
		name  string
		arity int
		want  string
	}{
		{"display_implicit", 1, "display(%s; false)"},
		{"display", 1, "display(%s; true)"},
	} {
		key := fmt.Sprintf("def:%s/%d", w.name, w.arity)
		d := j.Def(ij, w.name, w.arity)
		if d == nil || len(d.Def.Args) != 1 {
			ru.Undecided(key, ij, "definition not found")
			continue
		}
		want := fmt.Sprintf(w.want, d.Def.Args[0])
		ru.Check(fw.JQStr(d.Def.Body) == want, key, ij, want, w.name+" must be "+want+", is "+fw.JQStr(d.Def.Body))
	}
	if d := j.Def("pkg/interp/init.jq", "_cli_display", 0); d == nil {
		ru.Undecided("def:_cli_display/0", "pkg/interp/init.jq", "definition not found")
	} else {
		c := fw.JQIsCall(d.Def.Body, "display_implicit", 1)
		ru.Check(c != nil, "def:_cli_display/0", d.File.Rel, "CLI output is an implicit display", "the CLI must display results implicitly (raw bytes when stdout is not a terminal), does "+fw.JQStr(d.Def.Body))
		// the options the CLI displays with leave raw_output at its default
		if c != nil {
			arg := fw.JQStr(c.Args[0])
			good := !strings.Contains(arg, "raw_output")
			detail := arg
			if ac := fw.JQIsCall(c.Args[0], arg, 0); ac != nil {
				if dd := j.TopDefs(arg, 0); len(dd) == 1 {
					detail = arg + " = " + fw.JQStr(dd[0].Def.Body)
					good = good && !strings.Contains(fw.JQStr(dd[0].Def.Body), "raw_output")
				} else {
					good = false
					detail = arg + " (definition not found or ambiguous)"
				}
			}
			ru.Check(good, "def:_cli_display/0:raw_output-default", d.File.Rel, "CLI display options do not override raw_output",
				"the options the CLI displays results with must leave raw_output at its default (stdout is not a terminal), they are "+detail)
		}
	}
	// default of raw_output
	nDef := 0
	for _, f := range j.Files {
		if f.Rel != "pkg/interp/options.jq" {
			continue
		}
		fw.WalkJQ(f.Query, func(n any) bool {
			if kv, ok := n.(*gojq.ObjectKeyVal); ok && kv.Key == "raw_output" && kv.Val != nil {
				s := fw.JQStr(kv.Val)
				if strings.Contains(s, "is_terminal") {
					nDef++
					ru.Check(s == "($stdout.is_terminal | not)" || s == "$stdout.is_terminal | not", "options:raw_output-default", f.Rel, "raw_output defaults to 'stdout is not a terminal'",
						"raw_output must default to ($stdout.is_terminal | not), is "+s)
				}
			}
			return true
		}, false)
	}
	if nDef == 0 {
		ru.Fail("options:raw_output-default", "pkg/interp/options.jq", "raw_output no longer defaults from $stdout.is_terminal")
	}
	for _, ar := range []int{0, 1} {
		key := fmt.Sprintf("def:tovalue/%d", ar)
		d := j.Def("pkg/interp/decode.jq", "tovalue", ar)
		if d == nil {
			ru.Undecided(key, "pkg/interp/decode.jq", "definition not found")
			continue
		}
		want := "_tovalue(options({}))"
		if ar == 1 {
			want = "_tovalue(options(" + d.Def.Args[0] + "))"
		}
		ru.Check(fw.JQStr(d.Def.Body) == want, key, d.File.Rel, want, "tovalue must convert with the effective options: "+fw.JQStr(d.Def.Body))
	}
}

func c05JQObject(q *gojq.Query) *gojq.Object {
	if q == nil || q.Term == nil || q.Left != nil || len(q.Term.SuffixList) > 0 {
		return nil
	}
	if q.Term.Type == gojq.TermTypeQuery {
		return c05JQObject(q.Term.Query)
	}
	return q.Term.Object
}

var c05ValueOutputRe = regexp.MustCompile(`^if \$\w+\.value_output then tovalue end$`)

var c05CamelRe = regexp.MustCompile(`[[:lower:]][[:upper:]]`)

// c05CamelToSnake mirrors the documented convention of fq's option structs ("AaaBbb" -> "aaa_bbb").
func c05CamelToSnake(s string) string {
	return strings.ToLower(c05CamelRe.ReplaceAllStringFunc(s, func(s string) string { return s[0:1] + "_" + s[1:2] }))
}
