package rules

// C11.go, body: the two Go halves of the round trip, read across fq-local helper functions.
//
// The obligations are about where values come from and go to (gojq.Parse gets the jq input, json.Marshal
// gets the tree Parse returned, ...), so they are decided on a small interprocedural view: the
// registered function plus the functions of its own package it calls (two levels). A value that is a
// parameter of such a helper stands for the argument at the helper's single call site, a value that
// is the result of a helper call stands for the single non-error value the helper returns. Extracting
// or inlining a helper therefore does not change any verdict.

import (
	"fmt"
	"go/token"
	"go/types"

	"golang.org/x/tools/go/ssa"

	"fqverif/fw"
)

type c11GoView struct {
	ru    *fw.Rule
	p     *fw.Program
	fn    *ssa.Function
	inF   map[*ssa.Function]bool
	order []*ssa.Function
	sites map[*ssa.Function][]*ssa.Call // call sites (inside the view) of each helper
}

func c11NewGoView(ru *fw.Rule, p *fw.Program, fn *ssa.Function) *c11GoView {
	v := &c11GoView{ru: ru, p: p, fn: fn, inF: map[*ssa.Function]bool{fn: true}, order: []*ssa.Function{fn}, sites: map[*ssa.Function][]*ssa.Call{}}
	level := []*ssa.Function{fn}
	for depth := 0; depth < 2; depth++ {
		var next []*ssa.Function
		for _, g := range level {
			for _, ci := range fw.CallsIn(g) {
				c, ok := ci.(*ssa.Call)
				if !ok {
					continue
				}
				h := c.Common().StaticCallee()
				if h == nil || h.Blocks == nil || h.Pkg == nil || h.Pkg != fn.Pkg || h == fn {
					continue
				}
				if !v.inF[h] {
					v.inF[h] = true
					v.order = append(v.order, h)
					next = append(next, h)
				}
			}
		}
		level = next
	}
	for _, g := range v.order {
		for _, ci := range fw.CallsIn(g) {
			if c, ok := ci.(*ssa.Call); ok {
				if h := c.Common().StaticCallee(); h != nil && v.inF[h] && h != v.fn {
					v.sites[h] = append(v.sites[h], c)
				}
			}
		}
	}
	return v
}

func c11Strip(v ssa.Value) ssa.Value {
	for {
		switch x := v.(type) {
		case *ssa.MakeInterface:
			v = x.X
		case *ssa.ChangeInterface:
			v = x.X
		case *ssa.ChangeType:
			v = x.X
		default:
			return v
		}
	}
}

// c11SameLoad: two loads of the same allocation (the value a helper returns on its different paths).
func c11SameLoad(a, b ssa.Value) bool {
	la, ok1 := a.(*ssa.UnOp)
	lb, ok2 := b.(*ssa.UnOp)
	if !ok1 || !ok2 || la.Op != token.MUL || lb.Op != token.MUL {
		return false
	}
	_, isAlloc := la.X.(*ssa.Alloc)
	return isAlloc && la.X == lb.X
}

func c11IsErrorValue(v ssa.Value) bool {
	t := c11Strip(v).Type()
	return t != nil && types.Implements(t, c11ErrorIface)
}

func c11ExtractOf(c *ssa.Call, idx int) *ssa.Extract {
	if c.Referrers() == nil {
		return nil
	}
	for _, ref := range *c.Referrers() {
		if e, ok := ref.(*ssa.Extract); ok && e.Index == idx {
			return e
		}
	}
	return nil
}

// helperCall: v is the result (or one result) of a call of a helper of the view.
func (v *c11GoView) helperCall(x ssa.Value) (*ssa.Call, int, bool) {
	switch y := x.(type) {
	case *ssa.Call:
		if h := y.Common().StaticCallee(); h != nil && v.inF[h] && h != v.fn {
			return y, 0, true
		}
	case *ssa.Extract:
		if c, ok := y.Tuple.(*ssa.Call); ok {
			if h := c.Common().StaticCallee(); h != nil && v.inF[h] && h != v.fn {
				return c, y.Index, true
			}
		}
	}
	return nil, 0, false
}

// origin follows a value back through interface conversions, helper parameters (to the argument at
// the helper's single call site) and helper results (to the single non-nil, non-error value the
// helper returns in that position).
func (v *c11GoView) origin(x ssa.Value) ssa.Value {
	for i := 0; i < 12; i++ {
		x = c11Strip(x)
		if par, ok := x.(*ssa.Parameter); ok && par.Parent() != v.fn && v.inF[par.Parent()] {
			cs := v.sites[par.Parent()]
			if len(cs) != 1 {
				return x
			}
			idx := -1
			for k, q := range par.Parent().Params {
				if q == par {
					idx = k
				}
			}
			if idx < 0 || idx >= len(cs[0].Call.Args) {
				return x
			}
			x = cs[0].Call.Args[idx]
			continue
		}
		if c, idx, ok := v.helperCall(x); ok {
			h := c.Common().StaticCallee()
			var leaves []ssa.Value
			for _, ret := range c11Returns(h) {
				if idx >= len(ret.Results) {
					return x
				}
				r := ret.Results[idx]
				if c11IsNil(c11Strip(r)) || c11IsErrorValue(r) {
					continue
				}
				o := v.origin(r)
				dup := false
				for _, l := range leaves {
					dup = dup || l == o || c11SameLoad(l, o)
				}
				if !dup {
					leaves = append(leaves, o)
				}
			}
			if len(leaves) != 1 {
				return x
			}
			x = leaves[0]
			continue
		}
		return x
	}
	return x
}

// leafReturns: the return instructions that deliver the result of the registered function — its own,
// or those of a helper whose call is returned as is.
type c11Leaf struct {
	ret *ssa.Return
	val ssa.Value
}

func (v *c11GoView) leafReturns(fn *ssa.Function, idx, depth int) []c11Leaf {
	var out []c11Leaf
	for _, ret := range c11Returns(fn) {
		if idx >= len(ret.Results) {
			continue
		}
		val := ret.Results[idx]
		if c, hidx, ok := v.helperCall(c11Strip(val)); ok && depth < 3 {
			out = append(out, v.leafReturns(c.Common().StaticCallee(), hidx, depth+1)...)
			continue
		}
		out = append(out, c11Leaf{ret, val})
	}
	return out
}

func (v *c11GoView) calleeIs(c *ssa.Call, path, recv, name string) bool {
	f := c.Common().StaticCallee()
	if f == nil || f.Name() != name {
		return false
	}
	if f.Pkg == nil || f.Pkg.Pkg.Path() != path {
		return false
	}
	sigRecv := f.Signature.Recv()
	if recv == "" {
		return sigRecv == nil
	}
	if sigRecv == nil {
		return false
	}
	t := sigRecv.Type()
	if pt, ok := t.(*types.Pointer); ok {
		t = pt.Elem()
	}
	n, ok := t.(*types.Named)
	return ok && n.Obj().Name() == recv
}

func (v *c11GoView) find(path, recv, name string) []*ssa.Call {
	var out []*ssa.Call
	for _, g := range v.order {
		for _, ci := range fw.CallsIn(g) {
			if c, ok := ci.(*ssa.Call); ok && v.calleeIs(c, path, recv, name) {
				out = append(out, c)
			}
		}
	}
	return out
}

func (v *c11GoView) one(who, path, recv, name string) *ssa.Call {
	cs := v.find(path, recv, name)
	if path == "encoding/json" && name == "Marshal" {
		// MarshalIndent differs only in insignificant whitespace
		cs = append(cs, v.find(path, recv, "MarshalIndent")...)
	}
	key := who + ":call:" + name
	if len(cs) != 1 {
		v.ru.Fail(key, v.p.Rel(v.fn.Pos()), fmt.Sprintf("%s must call %s.%s exactly once (found %d)", who, path, name, len(cs)))
		return nil
	}
	return cs[0]
}

// flowsOnlyTo: every use of x — followed through interface conversions and into helper parameters —
// is the instruction `sink`. It returns the first other use.
func (v *c11GoView) flowsOnlyTo(x ssa.Value, sink ssa.Instruction, depth int) (ssa.Instruction, bool) {
	refs := x.Referrers()
	if refs == nil {
		return nil, true
	}
	for _, ref := range *refs {
		switch r := ref.(type) {
		case *ssa.DebugRef:
			continue
		case *ssa.MakeInterface:
			if bad, ok := v.flowsOnlyTo(r, sink, depth); !ok {
				return bad, false
			}
			continue
		case *ssa.ChangeInterface:
			if bad, ok := v.flowsOnlyTo(r, sink, depth); !ok {
				return bad, false
			}
			continue
		case *ssa.Call:
			if ssa.Instruction(r) == sink {
				continue
			}
			if h := r.Common().StaticCallee(); h != nil && v.inF[h] && h != v.fn && depth < 3 {
				ok := true
				var bad ssa.Instruction
				for k, a := range r.Call.Args {
					if a == x && k < len(h.Params) {
						if b, o := v.flowsOnlyTo(h.Params[k], sink, depth+1); !o {
							ok, bad = false, b
						}
					}
				}
				if !ok {
					return bad, false
				}
				continue
			}
			return ref, false
		}
		if ref == sink {
			continue
		}
		if ret, isRet := ref.(*ssa.Return); isRet && ret.Parent() != v.fn && v.inF[ret.Parent()] && depth < 3 {
			// handed up by a helper: follow the result at the helper's call sites
			h := ret.Parent()
			okAll := len(v.sites[h]) > 0
			var bad ssa.Instruction
			for k, res := range ret.Results {
				if res != x {
					continue
				}
				for _, cs := range v.sites[h] {
					var up ssa.Value = cs
					if h.Signature.Results().Len() > 1 {
						e := c11ExtractOf(cs, k)
						if e == nil {
							continue
						}
						up = e
					}
					if b, o := v.flowsOnlyTo(up, sink, depth+1); !o {
						okAll, bad = false, b
					}
				}
			}
			if okAll {
				continue
			}
			if bad == nil {
				bad = ref
			}
			return bad, false
		}
		return ref, false
	}
	return nil, true
}

// errGuardedAt: instruction ins runs only when error result #idx (-1: the only result) of c was tested nil.
func c11ErrGuardedAt(ins ssa.Instruction, c *ssa.Call, idx int) bool {
	var errv ssa.Value
	if idx < 0 {
		errv = c
	} else if e := c11ExtractOf(c, idx); e != nil {
		errv = e
	} else {
		return false
	}
	for _, g := range fw.Guards(ins.Block()) {
		g = g.Normalize()
		bo, ok := g.Cond.(*ssa.BinOp)
		if !ok {
			continue
		}
		var other ssa.Value
		if c11IsNil(bo.X) {
			other = bo.Y
		} else if c11IsNil(bo.Y) {
			other = bo.X
		} else {
			continue
		}
		if other != errv {
			continue
		}
		if (bo.Op == token.EQL && g.True) || (bo.Op == token.NEQ && !g.True) {
			return true
		}
	}
	return false
}

// callPath: the call instruction inside `from` through which `to` is (transitively) called.
func (v *c11GoView) callPath(from, to *ssa.Function, depth int) *ssa.Call {
	if depth > 3 {
		return nil
	}
	for _, ci := range fw.CallsIn(from) {
		c, ok := ci.(*ssa.Call)
		if !ok {
			continue
		}
		h := c.Common().StaticCallee()
		if h == nil || !v.inF[h] || h == v.fn || h == from {
			continue
		}
		if h == to || v.callPath(h, to, depth+1) != nil {
			return c
		}
	}
	return nil
}

// guarded: the success delivery `leaf` happens only when the error of call c (result #idx, -1: only
// result) was tested nil — in the same function, in a caller on the way down to the leaf, or, when c
// sits in a helper that reports through a trailing error result, by that helper returning a nil error
// only behind the test and its caller testing the helper's error in turn.
func (v *c11GoView) guarded(leaf ssa.Instruction, c *ssa.Call, idx int, depth int) bool {
	if leaf == nil || c == nil || depth > 3 {
		return false
	}
	R, C := leaf.Parent(), c.Parent()
	if R == C {
		return c11ErrGuardedAt(leaf, c, idx)
	}
	if cs := v.callPath(C, R, 0); cs != nil {
		return c11ErrGuardedAt(cs, c, idx)
	}
	// c is in a helper that hands its value up
	res := C.Signature.Results()
	if res.Len() == 0 || !types.Identical(res.At(res.Len()-1).Type(), types.Universe.Lookup("error").Type()) {
		return false
	}
	last := res.Len() - 1
	n := 0
	for _, ret := range c11Returns(C) {
		if len(ret.Results) <= last {
			return false
		}
		e := c11Strip(ret.Results[last])
		switch {
		case c11IsNil(e):
			n++
			if !c11ErrGuardedAt(ret, c, idx) {
				return false
			}
		case idx >= 0 && e == ssa.Value(c11ExtractOf(c, idx)), idx < 0 && e == ssa.Value(c):
			// the error of c is handed up as is: the caller's test of the helper's error is a test of it
			n++
		}
	}
	if n == 0 || len(v.sites[C]) != 1 {
		return false
	}
	up := v.sites[C][0]
	uidx := last
	if res.Len() == 1 {
		uidx = -1
	}
	return v.guarded(leaf, up, uidx, depth+1)
}

func (v *c11GoView) param() ssa.Value {
	// last parameter is the jq input value (receiver first)
	if len(v.fn.Params) == 0 {
		return nil
	}
	return v.fn.Params[len(v.fn.Params)-1]
}

// ptrUsesOK: the decoded tree behind pointer x is touched by nothing but json.Unmarshal (through an
// interface), the printer call, plain hand-overs (returned, passed to a helper, copied into a local
// that is itself only printed) and — when loads is set — whole-value loads that are returned.
func (v *c11GoView) ptrUsesOK(x ssa.Value, unm, str ssa.Instruction, depth int) (ssa.Instruction, bool) {
	if x.Referrers() == nil || depth > 4 {
		return nil, depth <= 4
	}
	for _, ref := range *x.Referrers() {
		switch r := ref.(type) {
		case *ssa.DebugRef:
			continue
		case *ssa.Return:
			continue
		case *ssa.MakeInterface:
			if bad, ok := v.flowsOnlyTo(r, unm, 0); !ok {
				return bad, false
			}
			continue
		case *ssa.Call:
			if ssa.Instruction(r) == str || ssa.Instruction(r) == unm {
				continue
			}
			if h := r.Common().StaticCallee(); h != nil && v.inF[h] && h != v.fn {
				for k, a := range r.Call.Args {
					if a == x && k < len(h.Params) {
						if bad, ok := v.ptrUsesOK(h.Params[k], unm, str, depth+1); !ok {
							return bad, false
						}
					}
				}
				continue
			}
			return ref, false
		case *ssa.UnOp:
			if r.Op != token.MUL {
				return ref, false
			}
			// a whole-value copy: returned by a helper, or stored into a local that is only printed
			for _, rr := range *r.Referrers() {
				switch y := rr.(type) {
				case *ssa.DebugRef, *ssa.Return:
				case *ssa.Store:
					a, isAlloc := y.Addr.(*ssa.Alloc)
					if !isAlloc || y.Val != ssa.Value(r) {
						return rr, false
					}
					if bad, ok := v.ptrUsesOK(a, unm, str, depth+1); !ok {
						return bad, false
					}
				default:
					return rr, false
				}
			}
			continue
		case *ssa.Store:
			// the single initialising store of a copy (checked from the source side) is fine; any
			// other write into the tree is not
			if r.Addr == x {
				if ld, ok := r.Val.(*ssa.UnOp); ok && ld.Op == token.MUL {
					continue
				}
				if _, _, isHelper := v.helperCall(r.Val); isHelper {
					continue
				}
			}
			return ref, false
		}
		return ref, false
	}
	return nil, true
}

// ptrOrigin: the allocation a pointer value stands for, through helper hand-overs and whole-value copies.
func (v *c11GoView) ptrOrigin(x ssa.Value, depth int, via *[]*ssa.Alloc) ssa.Value {
	x = v.origin(x)
	if depth > 4 {
		return x
	}
	a, ok := x.(*ssa.Alloc)
	if !ok || a.Referrers() == nil {
		return x
	}
	if via != nil {
		*via = append(*via, a)
	}
	// a local that is initialised exactly once from a whole-value copy of another tree
	var stores []*ssa.Store
	for _, ref := range *a.Referrers() {
		if st, ok := ref.(*ssa.Store); ok && st.Addr == ssa.Value(a) {
			stores = append(stores, st)
		}
	}
	if len(stores) != 1 {
		return x
	}
	src := v.origin(stores[0].Val)
	if ld, ok := src.(*ssa.UnOp); ok && ld.Op == token.MUL {
		return v.ptrOrigin(ld.X, depth+1, via)
	}
	return x
}

func c11GoBody(ru *fw.Rule, p *fw.Program, from, to *ssa.Function) {
	// ---- _query_fromstring
	{
		v := c11NewGoView(ru, p, from)
		fn := from
		who := "_query_fromstring"
		parse := v.one(who, c11GojqPath, "", "Parse")
		marsh := v.one(who, "encoding/json", "", "Marshal")
		unm := v.one(who, "encoding/json", "", "Unmarshal")
		if parse != nil && marsh != nil && unm != nil {
			pos := p.Rel(parse.Pos())
			ru.Check(len(parse.Call.Args) == 1 && v.origin(parse.Call.Args[0]) == v.param(), who+":parse-arg", pos,
				"gojq.Parse receives the jq input string itself", "gojq.Parse is not given the unmodified input string: the program parsed is not the program the user wrote")
			q := c11ExtractOf(parse, 0)
			ru.Check(q != nil && len(marsh.Call.Args) >= 1 && v.origin(marsh.Call.Args[0]) == ssa.Value(q), who+":marshal-arg", p.Rel(marsh.Pos()),
				"json.Marshal receives the *gojq.Query returned by Parse", "json.Marshal is not given the tree returned by gojq.Parse directly")
			if q != nil {
				bad, ok := v.flowsOnlyTo(q, marsh, 0)
				msg := ""
				if !ok {
					msg = "the parsed tree is also used by `" + bad.String() + "` before it is serialised (a transformation or mutation between parse and JSON)"
				}
				ru.Check(ok, who+":tree-untouched", pos, "parsed tree flows only into json.Marshal", msg)
			}
			b := c11ExtractOf(marsh, 0)
			okb := b != nil && len(unm.Call.Args) == 2 && v.origin(unm.Call.Args[0]) == ssa.Value(b)
			if okb {
				_, okb = v.flowsOnlyTo(b, unm, 0)
			}
			ru.Check(okb, who+":bytes", p.Rel(unm.Pos()), "json.Unmarshal receives exactly the bytes of json.Marshal, used nowhere else", "the JSON bytes are altered or replaced between json.Marshal and json.Unmarshal")
			// destination and returned value
			var dst *ssa.Alloc
			if len(unm.Call.Args) == 2 {
				dst, _ = v.origin(unm.Call.Args[1]).(*ssa.Alloc)
			}
			okret := false
			var retIns ssa.Instruction
			if dst != nil {
				stores := 0
				for _, ref := range *dst.Referrers() {
					if st, ok := ref.(*ssa.Store); ok && st.Addr == ssa.Value(dst) {
						stores++
					}
				}
				for _, leaf := range v.leafReturns(fn, 0, 0) {
					if len(leaf.ret.Results) != 1 {
						continue
					}
					if ld, ok := leaf.val.(*ssa.UnOp); ok && ld.X == ssa.Value(dst) {
						okret = stores == 0
						retIns = leaf.ret
					}
				}
			}
			ru.Check(okret, who+":result", p.Rel(fn.Pos()), "returns the value json.Unmarshal decoded, written by nothing else", "the value returned to jq is not exactly what json.Unmarshal decoded from the tree's JSON")
			if retIns != nil {
				ru.Check(v.guarded(retIns, parse, 1, 0), who+":err:Parse", pos, "result returned only when Parse succeeded", "the success return is not dominated by a test of gojq.Parse's error")
				ru.Check(v.guarded(retIns, marsh, 1, 0), who+":err:Marshal", p.Rel(marsh.Pos()), "result returned only when Marshal succeeded", "the success return is not dominated by a test of json.Marshal's error")
				ru.Check(v.guarded(retIns, unm, -1, 0), who+":err:Unmarshal", p.Rel(unm.Pos()), "result returned only when Unmarshal succeeded", "the success return is not dominated by a test of json.Unmarshal's error")
			}
		}
	}
	// ---- _query_tostring
	{
		v := c11NewGoView(ru, p, to)
		fn := to
		who := "_query_tostring"
		marsh := v.one(who, "encoding/json", "", "Marshal")
		unm := v.one(who, "encoding/json", "", "Unmarshal")
		str := v.one(who, c11GojqPath, "Query", "String")
		if marsh != nil && unm != nil && str != nil {
			ru.Check(len(marsh.Call.Args) >= 1 && v.origin(marsh.Call.Args[0]) == v.param(), who+":marshal-arg", p.Rel(marsh.Pos()),
				"json.Marshal receives the jq input value itself", "json.Marshal is not given the unmodified jq value")
			b := c11ExtractOf(marsh, 0)
			okb := b != nil && len(unm.Call.Args) == 2 && v.origin(unm.Call.Args[0]) == ssa.Value(b)
			if okb {
				_, okb = v.flowsOnlyTo(b, unm, 0)
			}
			ru.Check(okb, who+":bytes", p.Rel(unm.Pos()), "json.Unmarshal receives exactly the bytes of json.Marshal, used nowhere else", "the JSON bytes are altered or replaced between json.Marshal and json.Unmarshal")
			var dst *ssa.Alloc
			if len(unm.Call.Args) == 2 {
				dst, _ = v.origin(unm.Call.Args[1]).(*ssa.Alloc)
			}
			var via []*ssa.Alloc
			okq := dst != nil && len(str.Call.Args) == 1 && v.ptrOrigin(str.Call.Args[0], 0, &via) == ssa.Value(dst)
			if okq {
				named, _ := dst.Type().(*types.Pointer).Elem().(*types.Named)
				okq = named != nil && named.Obj().Name() == "Query" && named.Obj().Pkg().Path() == c11GojqPath
			}
			msg := "the query printed is not the gojq.Query that json.Unmarshal filled"
			if okq {
				bad, ok := v.ptrUsesOK(dst, unm, str, 0)
				for _, a := range via {
					if ok && a != dst {
						bad, ok = v.ptrUsesOK(a, unm, str, 0)
					}
				}
				if !ok {
					okq = false
					what := "?"
					if bad != nil {
						what = bad.String()
					}
					msg = "the rebuilt gojq.Query is also used by `" + what + "` (a transformation between decode and print)"
				}
			}
			ru.Check(okq, who+":tree-untouched", p.Rel(str.Pos()), "String() is called on the Query json.Unmarshal filled; nothing else touches it", msg)
			// the value of the printed string as seen in the registered function: the call itself, or
			// the call of the helper that returns exactly it
			var carrier *ssa.Call
			if str.Parent() == fn {
				carrier = str
			} else if cs := v.callPath(fn, str.Parent(), 0); cs != nil && v.origin(cs) == ssa.Value(str) {
				if _, only := v.flowsOnlyToReturn(str); only {
					carrier = cs
				}
			}
			okret := false
			var retIns ssa.Instruction
			if carrier != nil {
				if res := c11ResultCell(fn); res != nil {
					// named result kept in a cell (captured by a deferred closure): the normal path stores
					// exactly String() into it and returns; every other write is judged below
					okret, retIns = c11ToStringCell(ru, p, fn, who, res, carrier, c11Strip)
				} else {
					for _, ret := range c11Returns(fn) {
						if len(ret.Results) == 1 && c11Strip(ret.Results[0]) == ssa.Value(carrier) {
							okret = true
							retIns = ret
						}
					}
					if okret {
						_, okret = v.flowsOnlyTo(carrier, retIns, 5)
					}
				}
			}
			ru.Check(okret, who+":result", p.Rel(str.Pos()), "returns exactly (*gojq.Query).String()", "the string returned to jq is not exactly the result of (*gojq.Query).String(): the printed program is post-processed")
			if retIns != nil {
				ru.Check(v.guarded(retIns, marsh, 1, 0), who+":err:Marshal", p.Rel(marsh.Pos()), "printed only when Marshal succeeded", "the success return is not dominated by a test of json.Marshal's error")
				ru.Check(v.guarded(retIns, unm, -1, 0), who+":err:Unmarshal", p.Rel(unm.Pos()), "printed only when Unmarshal succeeded", "the success return is not dominated by a test of json.Unmarshal's error: a tree the decoder rejected half-way would be printed")
			}
		}
	}
}

// flowsOnlyToReturn: the value is used for nothing but being returned (through interface conversions).
func (v *c11GoView) flowsOnlyToReturn(x ssa.Value) (ssa.Instruction, bool) {
	if x.Referrers() == nil {
		return nil, true
	}
	for _, ref := range *x.Referrers() {
		switch r := ref.(type) {
		case *ssa.DebugRef, *ssa.Return:
		case *ssa.MakeInterface:
			if bad, ok := v.flowsOnlyToReturn(r); !ok {
				return bad, false
			}
		default:
			return ref, false
		}
	}
	return nil, true
}
