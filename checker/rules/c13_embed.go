package rules

import (
	"fmt"
	"go/types"

	"fqverif/fw"

	"golang.org/x/tools/go/ssa"
)

// the JSON encoder buffers its whole output and writes depth x Indent spaces per line: an indent that is a
// free jq option member exhausts memory (to_json({indent: 1e9})). Every writer of the field establishes a
// finite range (checked by C13.inv like the other field invariants).
func init() {
	c13FieldFacts["internal/colorjson.Options.Indent"] = fw.Range(0, 1<<16)
}

// ---------------------------------------------------------------------------
// C13.embed: a value that contains an interp.Binary is handed out with that Binary filled in
//
// interp.Binary answers length, .size, .start, .stop and index by dividing by its unit; C13.inv makes sure
// every Binary literal sets a unit. A struct that holds a Binary by value (openFile embeds one) and is built
// with a composite literal that leaves the Binary out carries a zero Binary: unit 0, nil reader. Rule: for
// every composite literal of such a struct type, the literal sets the Binary field, or every return of the
// function that hands the value out is preceded on all paths by an assignment of the whole Binary field (or
// of its unit) of that struct type.

func c13Embed(r *fw.Run, p *fw.Program) {
	ru := r.Rule("C13.embed", "every composite literal of a struct type that holds an interp.Binary by value sets that field, or every return handing the value out is preceded on all paths by an assignment of the Binary field (a zero Binary has unit 0: length, .size and index divide by zero)", 1)
	bin := p.NamedType("pkg/interp", "Binary")
	if bin == nil {
		ru.Undecided("anchor:Binary", "", "type pkg/interp.Binary not found")
		return
	}
	unitIdx := -1
	if st, ok := bin.Underlying().(*types.Struct); ok {
		for i := 0; i < st.NumFields(); i++ {
			if st.Field(i).Name() == "unit" {
				unitIdx = i
			}
		}
	}
	if unitIdx < 0 {
		ru.Undecided("anchor:Binary.unit", "", "field unit of pkg/interp.Binary not found")
		return
	}
	holder := func(t types.Type) (*types.Named, int) {
		if pt, ok := t.Underlying().(*types.Pointer); ok {
			t = pt.Elem()
		}
		n, ok := t.(*types.Named)
		if !ok || types.Identical(n, bin) {
			return nil, -1
		}
		st, ok := n.Underlying().(*types.Struct)
		if !ok {
			return nil, -1
		}
		for i := 0; i < st.NumFields(); i++ {
			if types.Identical(st.Field(i).Type(), bin) {
				return n, i
			}
		}
		return nil, -1
	}
	// setsBinary: st assigns the Binary field fi of a value of type T (whole field, or its unit)
	setsBinary := func(st *ssa.Store, T *types.Named, fi int) bool {
		fa, ok := st.Addr.(*ssa.FieldAddr)
		if !ok {
			return false
		}
		if n, i := holder(fa.X.Type()); n != nil && types.Identical(n, T) && i == fi && fa.Field == fi {
			return true
		}
		if fa.Field == unitIdx && structTypeShort(fa.X.Type()) == "pkg/interp.Binary" {
			if in, ok := fa.X.(*ssa.FieldAddr); ok {
				if n, i := holder(in.X.Type()); n != nil && types.Identical(n, T) && i == fi && in.Field == fi {
					return true
				}
			}
		}
		return false
	}
	for _, fn := range p.FqFunctions() {
		if fn.TypeParams().Len() > 0 && len(fn.TypeArgs()) == 0 {
			continue
		}
		ord := map[string]int{}
		fw.EachInstr(fn, func(ins ssa.Instruction) {
			al, ok := ins.(*ssa.Alloc)
			if !ok || al.Comment != "complit" {
				return
			}
			T, fi := holder(al.Type())
			if T == nil {
				return
			}
			name := shortType(T)
			ord[name]++
			key := fmt.Sprintf("%s|literal:%s#%d", fw.ShortFn(fn), name, ord[name])
			// assignments of the Binary field in this function, or calls of an fq helper that makes one
			var sets []ssa.Instruction
			fw.EachInstr(fn, func(i2 ssa.Instruction) {
				switch x := i2.(type) {
				case *ssa.Store:
					if setsBinary(x, T, fi) {
						sets = append(sets, x)
					}
				case ssa.CallInstruction:
					cal := x.Common().StaticCallee()
					if cal == nil || !fw.InFq(cal) || cal.Blocks == nil || cal == fn {
						return
					}
					hit := false
					fw.EachInstr(cal, func(i3 ssa.Instruction) {
						if st, ok := i3.(*ssa.Store); ok && setsBinary(st, T, fi) {
							hit = true
						}
					})
					if hit {
						sets = append(sets, x)
					}
				}
			})
			var bad *ssa.Return
			nret := 0
			for _, ret := range returnsOf(fn) {
				if !precedesOnAllPaths(al, ret) && al.Block() != ret.Block() {
					continue
				}
				hands := false
				for _, res := range ret.Results {
					v := res
					if mi, ok := v.(*ssa.MakeInterface); ok {
						v = mi.X
					}
					if n, _ := holder(v.Type()); n != nil && types.Identical(n, T) {
						hands = true
					}
				}
				if !hands {
					continue
				}
				nret++
				okRet := false
				for _, st := range sets {
					if precedesOnAllPaths(st, ret) {
						okRet = true
					}
				}
				if !okRet && bad == nil {
					bad = ret
				}
			}
			if bad != nil {
				ru.Fail(key, p.Rel(bad.Pos()), "a "+name+" built here is returned without its Binary having been assigned on every path: the zero Binary has unit 0 and a nil reader (length, .size, .start, index on the value divide by zero, an uncatchable runtime panic)")
				return
			}
			ru.Ok(key, p.Rel(al.Pos()), fmt.Sprintf("Binary assigned before each of the %d returns that hand the value out", nret))
		})
	}
}
