package rules

// Positive controls for the second-round C18 rules and clauses (self-review by mutation).

func init() {
	// ---- C18.once
	AddControl(Control{ID: "c18-once-groups-unresolved", Prop: "C18", Rule: "C18.once", File: "pkg/interp/registry.go",
		Old: "func (r *Registry) Groups() map[string]*decode.Group {\n	r.resolveGroups()\n", New: "func (r *Registry) Groups() map[string]*decode.Group {\n",
		ExpectKey: "reader:(*pkg/interp.Registry).Groups"})
	AddControl(Control{ID: "c18-once-resolve-after-lookup", Prop: "C18", Rule: "C18.once", File: "pkg/interp/registry.go",
		Old: "	r.resolveGroups()\n	if g, ok := r.groups[name]; ok {\n		return g, nil\n	}", New: "	if g, ok := r.groups[name]; ok {\n		r.resolveGroups()\n		return g, nil\n	}",
		ExpectKey: "reader:(*pkg/interp.Registry).Group"})
	AddControl(Control{ID: "c18-once-local-copy", Prop: "C18", Rule: "C18.once", File: "pkg/interp/registry.go",
		Old: "	r.formatResolveOnce.Do(func() {", New: "	once := r.formatResolveOnce\n	once.Do(func() {",
		ExpectKey: "write-formatResolved"})
	AddControl(Control{ID: "c18-once-refuse-late", Prop: "C18", Rule: "C18.once", File: "pkg/interp/registry.go",
		Old:       "	if r.formatResolved {\n		// for now can't change after resolved\n		panic(\"registry already resolved\")\n	}\n\n	if _, ok := r.groups[group.Name]; ok {\n		panic(fmt.Sprintf(\"%s: format already registered\", group.Name))\n	}\n	group.Formats = append(group.Formats, format)",
		New:       "	if _, ok := r.groups[group.Name]; ok {\n		panic(fmt.Sprintf(\"%s: format already registered\", group.Name))\n	}\n	group.Formats = append(group.Formats, format)\n	if r.formatResolved {\n		// for now can't change after resolved\n		panic(\"registry already resolved\")\n	}",
		ExpectKey: "Format:refuse-before-write"})

	// ---- C18.evalcopy
	AddControl(Control{ID: "c18-evalcopy-envfn-receiver", Prop: "C18", Rule: "C18.evalcopy", File: "pkg/interp/interp.go",
		Old: "		f := fn(ni)\n", New: "		f := fn(i)\n", ExpectKey: "envfn-arg"})
	AddControl(Control{ID: "c18-evalcopy-ctx-into-receiver", Prop: "C18", Rule: "C18.evalcopy", File: "pkg/interp/interp.go",
		Old: "	ni.EvalInstance.Ctx = runCtx\n", New: "	i.EvalInstance.Ctx = runCtx\n", ExpectKey: "store:EvalInstance.Ctx"})
	AddControl(Control{ID: "c18-evalcopy-seen-of-receiver", Prop: "C18", Rule: "C18.evalcopy", File: "pkg/interp/interp.go",
		Old: "			if _, ok := ni.EvalInstance.includeSeen[filename]; ok {", New: "			if _, ok := i.EvalInstance.includeSeen[filename]; ok {",
		ExpectKey: "recv-evalinstance:includeSeen"})

	// ---- C18.cachefill
	AddControl(Control{ID: "c18-cachefill-store-before-reparse", Prop: "C18", Rule: "C18.cachefill", File: "pkg/interp/interp.go",
		Old: "			// has some root expression, threat as dynamic include\n", New: "			i.includeCache[filename] = q\n			// has some root expression, threat as dynamic include\n",
		ExpectKey: "|value"})
	AddControl(Control{ID: "c18-cachefill-store-before-errcheck", Prop: "C18", Rule: "C18.cachefill", File: "pkg/interp/interp.go",
		Old:       "			q, err := gojq.Parse(s)\n			if err != nil {\n				p := queryErrorPosition(s, err)\n				return nil, compileError{\n					err:      err,\n					what:     \"parse\",\n					filename: absPath,",
		New:       "			q, err := gojq.Parse(s)\n			i.includeCache[filename] = q\n			if err != nil {\n				p := queryErrorPosition(s, err)\n				return nil, compileError{\n					err:      err,\n					what:     \"parse\",\n					filename: absPath,",
		ExpectKey: "|value"})

	AddControl(Control{ID: "c18-cachefill-flag-wrong-polarity", Prop: "C18", Rule: "C18.cachefill", File: "pkg/interp/interp.go",
		Old: "			if useCache {\n				i.includeCache[filename] = q", New: "			if !useCache {\n				i.includeCache[filename] = q",
		ExpectKey: "success-only"})
	AddControl(Control{ID: "c18-cachefill-flag-other-error", Prop: "C18", Rule: "C18.cachefill", File: "pkg/interp/interp.go",
		Old:       "			f, absPath, err := pr.open(filenamePart)\n			// don't cache the empty module of a failed try include, a later\n			// non-try include of the same file should fail\n			useCache := err == nil\n",
		New:       "			useCache := err == nil\n			f, absPath, err := pr.open(filenamePart)\n",
		ExpectKey: "success-only"})
	AddControl(Control{ID: "c18-cachefill-flag-untested", Prop: "C18", Rule: "C18.cachefill", File: "pkg/interp/interp.go",
		Old: "			if useCache {\n				i.includeCache[filename] = q\n			}", New: "			_ = useCache\n			i.includeCache[filename] = q",
		ExpectKey: "success-only"})

	// ---- C18.globals: aliases of package-level memory
	AddControl(Control{ID: "c18-global-commaok-alias", Prop: "C18", Rule: "C18.globals", File: "format/csv/csv.go",
		Old: "func decodeCSV(d *decode.D) any {", New: "type csvStat struct{ n int }\n\nvar csvStats = map[string]*csvStat{\"rows\": {}}\n\nfunc decodeCSV(d *decode.D) any {\n	if s, ok := csvStats[\"rows\"]; ok {\n		s.n++\n	}",
		ExpectKey: "csvStats"})
	AddControl(Control{ID: "c18-global-maprange-alias", Prop: "C18", Rule: "C18.globals", File: "format/csv/csv.go",
		Old: "func decodeCSV(d *decode.D) any {", New: "type csvStat struct{ n int }\n\nvar csvStats = map[string]*csvStat{\"rows\": {}}\n\nfunc decodeCSV(d *decode.D) any {\n	for _, s := range csvStats {\n		s.n++\n	}",
		ExpectKey: "csvStats"})
	AddControl(Control{ID: "c18-global-assert-alias", Prop: "C18", Rule: "C18.globals", File: "format/csv/csv.go",
		Old: "func decodeCSV(d *decode.D) any {", New: "type csvStat struct{ n int }\n\nvar csvAnyStat any = &csvStat{}\n\nfunc decodeCSV(d *decode.D) any {\n	csvAnyStat.(*csvStat).n++",
		ExpectKey: "csvAnyStat"})
	AddControl(Control{ID: "c18-global-accessor-alias", Prop: "C18", Rule: "C18.globals", File: "format/csv/csv.go",
		Old: "func decodeCSV(d *decode.D) any {", New: "type csvStat struct{ n int }\n\nvar csvStatList = []*csvStat{{}}\n\nfunc csvGetStat() *csvStat { return csvStatList[0] }\n\nfunc decodeCSV(d *decode.D) any {\n	csvGetStat().n++",
		ExpectKey: "csvStatList"})
	AddControl(Control{ID: "c18-global-address-parked", Prop: "C18", Rule: "C18.globals", File: "pkg/decode/decode.go",
		Old: "func (d *D) SharedReadBuf(n int) []byte {\n	if d.readBuf == nil {\n		d.readBuf = new([]byte)", New: "var defaultReadBuf []byte\n\nfunc (d *D) SharedReadBuf(n int) []byte {\n	if d.readBuf == nil {\n		d.readBuf = &defaultReadBuf",
		ExpectKey: "&pkg/decode.defaultReadBuf"})

	// ---- C18.shared: writes other than plain stores
	AddControl(Control{ID: "c18-shared-swap-elements", Prop: "C18", Rule: "C18.shared", File: "pkg/decode/decode.go",
		Old: "	formatsErr := FormatsError{}\n", New: "	formatsErr := FormatsError{}\n	if opts.Force && len(group.Formats) > 1 {\n		group.Formats[0], group.Formats[1] = group.Formats[1], group.Formats[0]\n	}\n",
		ExpectKey: "pkg/decode.decode|Group.Formats[i]"})
	AddControl(Control{ID: "c18-shared-inplace-reverse", Prop: "C18", Rule: "C18.shared", File: "pkg/interp/registry.go",
		Old: "	r.resolveGroups()\n	if g, ok := r.groups[name]; ok {\n		return g, nil\n	}", New: "	r.resolveGroups()\n	if g, ok := r.groups[name]; ok {\n		slices.Reverse(g.Formats)\n		return g, nil\n	}",
		ExpectKey: "Group.Formats[*]"})

	// ---- C18.buf: stale use
	AddControl(Control{ID: "c18-buf-stale-after-read", Prop: "C18", Rule: "C18.buf", File: "format/leveldb/leveldb_log_blocks.go",
		Old: "		bytesToCheck := d.Bits(int(d.BitsLeft()))\n		actualChecksum := computeChecksum(bytesToCheck)", New: "		bytesToCheck := d.Bits(int(d.BitsLeft()) - 8)\n		last := d.U8()\n		actualChecksum := computeChecksum(bytesToCheck) + uint32(last)",
		ExpectKey: "still used"})
	AddControl(Control{ID: "c18-buf-stale-peek", Prop: "C18", Rule: "C18.buf", File: "pkg/decode/read.go",
		Old: "	if endian == LittleEndian {\n		ReverseBytes(b)\n	}\n	switch nBits {\n	case 16:", New: "	if endian == LittleEndian {\n		ReverseBytes(b)\n	}\n	if nBits == 80 {\n		if _, err := d.TryPeekBits(8); err != nil {\n			return 0, err\n		}\n	}\n	switch nBits {\n	case 16:",
		ExpectKey: "tryFEndian|TryBits"})

	// ---- C18.lazy: establishing function reads early
	AddControl(Control{ID: "c18-lazy-read-before-do", Prop: "C18", Rule: "C18.lazy", File: "format/wasm/wasm.go",
		Old: "	d.Endian = decode.LittleEndian\n\n	// delayed initialization", New: "	d.Endian = decode.LittleEndian\n	if instrMap[opcodeBlock].f == nil {\n		d.Endian = decode.LittleEndian\n	}\n\n	// delayed initialization",
		ExpectKey: "reader:format/wasm.decodeWASM"})

	// ---- C18.mapper: by-value receiver holding a map
	AddControl(Control{ID: "c18-mapper-memo-by-value", Prop: "C18", Rule: "C18.mapper", File: "pkg/scalar/scalar.go",
		Old: "var unixTimeEpochDate = time.Date(", New: "type UintMemoMap struct {\n	M    UintMap\n	last map[uint64]Uint\n}\n\nfunc (m UintMemoMap) MapUint(s Uint) (Uint, error) {\n	if c, ok := m.last[s.Actual]; ok {\n		return c, nil\n	}\n	r, err := m.M.MapUint(s)\n	m.last[s.Actual] = r\n	return r, err\n}\n\nvar unixTimeEpochDate = time.Date(",
		ExpectKey: "UintMemoMap"})

	// ---- C18.ambient
	AddControl(Control{ID: "c18-ambient-wall-clock", Prop: "C18", Rule: "C18.ambient", File: "format/tar/tar.go",
		Old: "var unixTimeEpochDate = time.Date(", New: "func tarAge(mtime int64) time.Duration { return time.Since(time.Unix(mtime, 0)) }\n\nvar unixTimeEpochDate = time.Date(",
		ExpectKey: "time.Since"})
	AddControl(Control{ID: "c18-ambient-goroutine", Prop: "C18", Rule: "C18.ambient", File: "format/tar/tar.go",
		Old: "var unixTimeEpochDate = time.Date(", New: "func tarSpawn(d *decode.D) {\n	go func() { d.FieldValueStr(\"late\", \"x\") }()\n}\n\nvar unixTimeEpochDate = time.Date(",
		ExpectKey: "tarSpawn|go"})
	AddControl(Control{ID: "c18-ambient-local-zone", Prop: "C18", Rule: "C18.ambient", File: "format/tzif/tzif.go",
		Old: "time.Unix(s.Actual, 0).UTC().Format(time.RFC3339)", New: "time.Unix(s.Actual, 0).Local().Format(time.RFC3339)",
		ExpectKey: "(time.Time).Local"})

	// ---- C18.tz
	AddControl(Control{ID: "c18-tz-utc-dropped", Prop: "C18", Rule: "C18.tz", File: "format/tzif/tzif.go",
		Old: "time.Unix(s.Actual, 0).UTC().Format(time.RFC3339)", New: "time.Unix(s.Actual, 0).Format(time.RFC3339)",
		ExpectKey: "Time.Format"})
	AddControl(Control{ID: "c18-tz-epoch-local", Prop: "C18", Rule: "C18.tz", File: "format/tar/tar.go",
		Old: "var unixTimeEpochDate = time.Date(1970, time.January, 1, 0, 0, 0, 0, time.UTC)", New: "var unixTimeEpochDate = time.Unix(0, 0)",
		ExpectKey: "Time.Format"})

	// ---- C18.maporder
	AddControl(Control{ID: "c18-maporder-sort-dropped", Prop: "C18", Rule: "C18.maporder", File: "format/fit/fit.go",
		Old: "	slices.Sort(keys)\n", New: "	_ = slices.Sort[[]int]\n", ExpectKey: "format/fit.fitDecodeDataMessage|range#1"})
	AddControl(Control{ID: "c18-maporder-json-keys-unsorted", Prop: "C18", Rule: "C18.maporder", File: "internal/colorjson/encoder.go",
		Old: "	slices.SortFunc(kvs, func(a, b keyVal) int {\n		return cmp.Compare(a.key, b.key)\n	})", New: "	_ = slices.SortFunc[[]keyVal]\n	_ = cmp.Compare[string]",
		ExpectKey: "encodeMap|range#1"})
	AddControl(Control{ID: "c18-maporder-fields-in-map-order", Prop: "C18", Rule: "C18.maporder", File: "format/tar/tar.go",
		Old: "var unixTimeEpochDate = time.Date(", New: "func tarExtra(d *decode.D, kv map[string]string) {\n	for k, v := range kv {\n		d.FieldValueStr(k, v)\n	}\n}\n\nvar unixTimeEpochDate = time.Date(",
		ExpectKey: "format/tar.tarExtra|range#1|effect"})
	AddControl(Control{ID: "c18-maporder-attrs-unstable-multi", Prop: "C18", Rule: "C18.maporder", File: "format/xml/xml.go",
		Old:       "				s, _ := v.(string)\n				n.Attrs = append(n.Attrs, xml.Attr{\n					Name:  xmlNameFromStr(k),\n					Value: s,\n				})",
		New:       "				s, _ := v.(string)\n				for _, part := range strings.Fields(s) {\n					n.Attrs = append(n.Attrs, xml.Attr{\n						Name:  xmlNameFromStr(k),\n						Value: part,\n					})\n				}",
		ExpectKey: "toXMLFromArray$1|range#1|n.Attrs"})
}

// round 5: memo values determined by the key; shared objects mutated inside libraries / through parked references
func init() {
	AddControl(Control{ID: "c18-memodep-value-from-call-opts", Prop: "C18", Rule: "C18.memodep", File: "pkg/interp/interp.go",
		Old:       "			s := string(b)\n			q, err := gojq.Parse(s)",
		New:       "			s := string(b) + opts.filename\n			q, err := gojq.Parse(s)",
		ExpectKey: "parameter opts of (*pkg/interp.Interp).Eval"})
	AddControl(Control{ID: "c18-memodep-value-from-raw-name", Prop: "C18", Rule: "C18.memodep", File: "pkg/interp/interp.go",
		Old:       "			s := string(b)\n			q, err := gojq.Parse(s)",
		New:       "			s := string(b) + name\n			q, err := gojq.Parse(s)",
		ExpectKey: "parameter name of"})
	AddControl(Control{ID: "c18-statictype-ebml-unknown", Prop: "C18", Rule: "C18.statictype", File: "format/matroska/matroska.go",
		Old: "\t\t\t\t\t\t\tchildElm = &ebml.Unknown{}\n", New: "\t\t\t\t\t\t\tchildElm = &ebml.Unknown{}\n\t\t\t\t\t\t\telm.Master[ebml.ID(n)] = childElm\n", ExpectKey: "ebml.Master.Master|mapupdate"})
	AddControl(Control{ID: "c18-parked-shared-defragmenter", Prop: "C18", Rule: "C18.parked", File: "format/inet/flowsdecoder/flowsdecoder.go",
		Old:       "	flowDecoder.ipv4Defrag = ip4defrag.NewIPv4Defragmenter()\n\n	return flowDecoder\n}\n",
		New:       "	flowDecoder.ipv4Defrag = ipv4Defragmenter\n\n	return flowDecoder\n}\n\nvar ipv4Defragmenter = ip4defrag.NewIPv4Defragmenter()\n",
		ExpectKey: "field:format/inet/flowsdecoder.Decoder.ipv4Defrag"})
	AddControl(Control{ID: "c18-parked-library-call-on-global", Prop: "C18", Rule: "C18.parked", File: "format/csv/csv.go",
		Old:       "func decodeCSV(d *decode.D) any {",
		New:       "var csvLog = &bytes.Buffer{}\n\nfunc decodeCSV(d *decode.D) any {\n	csvLog.WriteString(\"x\")",
		ExpectKey: "csvLog"})
	AddControl(Control{ID: "c18-parked-map-through-field", Prop: "C18", Rule: "C18.parked", File: "format/csv/csv.go",
		Old:       "func decodeCSV(d *decode.D) any {",
		New:       "type csvState struct{ seen map[string]int }\n\nvar csvSeen = map[string]int{}\n\nfunc csvBump(s *csvState) { s.seen[\"x\"]++ }\n\nfunc decodeCSV(d *decode.D) any {\n	st := &csvState{}\n	st.seen = csvSeen\n	csvBump(st)",
		ExpectKey: "field:format/csv.csvState.seen"})
}
