package rules

import (
	"fmt"
	"go/token"
	"go/types"

	"fqverif/fw"

	"golang.org/x/tools/go/ssa"
)

// ---------------------------------------------------------------------------
// C13.errzero: a struct value that is the zero value when its producer failed is not used before the
// failure has been excluded
//
// fq helpers of the shape `func f(...) (S, error)` answer `S{}, err` on failure (toBinary,
// NewBinaryFromBitReader ...). The zero S is not a usable value: a zero interp.Binary has a nil reader
// (nil dereference when decoded / read) and unit 0 (integer divide by zero in length, .size, index). In
// jq-callable code every use of such a result other than handing it back together with the error - reading a
// field, passing it on, boxing it into a jq value, calling a method - must be dominated by a test that
// excludes the failure (err == nil of the same call; no-return arms and merged variables are treated as in
// C13.nilret). A condition that lets some failing path through (`if err != nil && other { return }`)
// does not dominate with err == nil and is reported.

func c13ErrZero(r *fw.Run, p *fw.Program, scope []*ssa.Function) {
	ru := r.Rule("C13.errzero", "in jq-callable code a struct result of an fq function that answers the zero struct together with an error on some path (toBinary, NewBinaryFromBitReader ...) is used (field read, passed on, boxed, method call) only where a dominating test excludes the failure (err == nil of the same call); forwarding it together with the error is not a use", 12)
	for _, fn := range scope {
		if fn.TypeParams().Len() > 0 && len(fn.TypeArgs()) == 0 {
			continue
		}
		ord := map[string]int{}
		fw.EachInstr(fn, func(ins ssa.Instruction) {
			call, ok := ins.(*ssa.Call)
			if !ok {
				return
			}
			res := call.Common().Signature().Results()
			if res.Len() < 2 || !types.Identical(res.At(res.Len()-1).Type(), types.Universe.Lookup("error").Type()) {
				return
			}
			callee := c13ResolveCallee(fn, call)
			if callee == nil || !fw.InFq(callee) || callee.Blocks == nil {
				return
			}
			errV := c13Extract(call, res.Len()-1)
			for i := 0; i < res.Len()-1; i++ {
				if _, isStruct := res.At(i).Type().Underlying().(*types.Struct); !isStruct {
					continue
				}
				if !c13MayReturnZeroStruct(callee, i, 0) {
					continue
				}
				v := c13Extract(call, i)
				if v == nil {
					continue
				}
				name := fw.ShortFn(callee)
				ord[name]++
				key := fmt.Sprintf("%s|errzero:%s#%d", fw.ShortFn(fn), name, ord[name])
				src := c13NilSrc{val: v, fail: errV, kind: "errzero", what: name, at: call}
				var bad ssa.Instruction
				for _, u := range c13ZeroUses(src) {
					if c13FailureExcluded(fw.Guards(u.Block()), src, v) {
						continue
					}
					if bad == nil {
						bad = u
					}
				}
				if bad == nil {
					ru.Ok(key, p.Rel(call.Pos()), "every use is dominated by err == nil of the call (or the value is only handed back with the error)")
					continue
				}
				if reason, ok := c13ErrZeroExceptions[key]; ok {
					ru.Except(key, p.Rel(call.Pos()), reason)
					continue
				}
				msg := "the " + shortType(res.At(i).Type()) + " answered by " + name + " is the zero value when the call failed, but it is used where the failure is not excluded by a dominating err == nil test"
				if errV == nil {
					msg = "the error of " + name + " is discarded, but its " + shortType(res.At(i).Type()) + " result (the zero value on failure) is used"
				}
				pos := bad.Pos()
				if !pos.IsValid() {
					pos = call.Pos()
				}
				ru.Fail(key, p.Rel(pos), msg+": a zero value of this type faults when used (nil reader, unit 0: nil dereference / integer divide by zero end fq instead of raising a catchable error)")
			}
		})
	}
}

// c13ErrZeroExceptions: key -> why the call cannot fail at this site.
var c13ErrZeroExceptions = map[string]string{
	"(*pkg/interp.Interp)._open|errzero:pkg/interp.NewBinaryFromBitReader#1": "completion dummy: the reader is bitio.NewBitReader over an empty byte slice literal, whose length query (the only failing step of NewBinaryFromBitReader) cannot fail",
}

// c13MayReturnZeroStruct: some return of f yields the zero struct in position i (directly, through a phi, or
// forwarded from another fq call that does).
func c13MayReturnZeroStruct(f *ssa.Function, i int, depth int) bool {
	if f == nil || f.Blocks == nil || depth > 3 {
		return false
	}
	found := false
	var visit func(v ssa.Value, seen map[ssa.Value]bool)
	visit = func(v ssa.Value, seen map[ssa.Value]bool) {
		if found || seen[v] {
			return
		}
		seen[v] = true
		switch x := v.(type) {
		case *ssa.Const:
			if _, isStruct := x.Type().Underlying().(*types.Struct); isStruct && x.Value == nil {
				found = true
			}
		case *ssa.Phi:
			for _, e := range x.Edges {
				visit(e, seen)
			}
		case *ssa.Extract:
			if c, ok := x.Tuple.(*ssa.Call); ok {
				if cal := c.Common().StaticCallee(); cal != nil && c13MayReturnZeroStruct(cal, x.Index, depth+1) {
					found = true
				}
			}
		case *ssa.UnOp:
			// load of a composite literal / local that no path has filled in
			if al, ok := x.X.(*ssa.Alloc); ok && x.Op == token.MUL && al.Referrers() != nil {
				written := false
				for _, rf := range *al.Referrers() {
					switch y := rf.(type) {
					case *ssa.Store:
						if y.Addr == ssa.Value(al) {
							written = true
							visit(y.Val, seen)
						}
					case *ssa.FieldAddr:
						written = true
					}
				}
				if !written {
					found = true
				}
			}
		}
	}
	for _, ret := range returnsOf(f) {
		if i < len(ret.Results) {
			visit(ret.Results[i], map[ssa.Value]bool{})
		} else if len(ret.Results) == 1 {
			// `return g(...)` forwarding a tuple
			if c, ok := ret.Results[0].(*ssa.Call); ok {
				if cal := c.Common().StaticCallee(); cal != nil && c13MayReturnZeroStruct(cal, i, depth+1) {
					found = true
				}
			}
		}
	}
	return found
}

// c13ZeroUses: the instructions that use the struct value of src (anything but handing it back: Return),
// following a spill into a single-assigned local and, edge by edge, merges with other values.
func c13ZeroUses(src c13NilSrc) []ssa.Instruction {
	var out []ssa.Instruction
	seen := map[ssa.Value]bool{}
	var walk func(v ssa.Value)
	walk = func(v ssa.Value) {
		if seen[v] || v.Referrers() == nil {
			return
		}
		seen[v] = true
		for _, u := range *v.Referrers() {
			switch x := u.(type) {
			case *ssa.Return, *ssa.DebugRef:
			case *ssa.Store:
				al, ok := x.Addr.(*ssa.Alloc)
				if !ok || x.Val != v || !c13SingleStore(al) {
					out = append(out, u)
					continue
				}
				for _, r := range *al.Referrers() {
					if r == ssa.Instruction(x) {
						continue
					}
					if ld, ok := r.(*ssa.UnOp); ok && ld.Op == token.MUL {
						walk(ld) // the value read back: its own uses count
						continue
					}
					if _, ok := r.(*ssa.DebugRef); ok {
						continue
					}
					out = append(out, r)
				}
			case *ssa.Phi:
				follow := false
				for k, e := range x.Edges {
					if e != v || k >= len(x.Block().Preds) {
						continue
					}
					pred := x.Block().Preds[k]
					gs := fw.Guards(pred)
					if ifi, ok := pred.Instrs[len(pred.Instrs)-1].(*ssa.If); ok && len(pred.Succs) == 2 && pred.Succs[0] != pred.Succs[1] {
						gs = append(gs, fw.Guard{Cond: ifi.Cond, True: pred.Succs[0] == x.Block(), If: ifi})
					}
					if !c13FailureExcluded(gs, src, v) {
						follow = true
					}
				}
				if follow {
					walk(x)
				}
			default:
				out = append(out, u)
			}
		}
	}
	walk(src.val)
	return out
}
