package rules

// Positive controls of C14: small seeded edits (applied in memory) that must make the named rule fire.

func init() {
	const (
		enc   = "format/text/encoding.go"
		encJQ = "format/text/encoding.jq"
		urlGo = "format/text/url.go"
		xmlGo = "format/xml/xml.go"
		cj    = "internal/colorjson/encoder.go"
	)
	add := func(id, rule, file, old, new, expect string) {
		AddControl(Control{ID: id, Prop: "C14", Rule: rule, File: file, Old: old, New: new, ExpectKey: expect})
	}

	// C14.bind
	add("c14-bind-urlencode-path", "C14.bind", urlGo, "return url.QueryEscape(c)", "return url.PathEscape(c)", "to_urlencode")
	add("c14-bind-strenc-direction", "C14.bind", enc, "io.Copy(h.NewEncoder().Writer(bb), strings.NewReader(c))", "io.Copy(bb, h.NewDecoder().Reader(strings.NewReader(c)))", "_to_strencoding")
	add("c14-bind-usenumber", "C14.bind", "format/json/json.go", "\tjd.UseNumber()\n", "", "decode:json")

	// C14.case
	add("c14-case-base64-rawstd", "C14.case", enc, "return base64.RawStdEncoding", "return base64.RawURLEncoding", "base64:rawstd")
	add("c14-case-utf16be", "C14.case", enc, "unicode.UTF16(unicode.BigEndian, unicode.IgnoreBOM)", "unicode.UTF16(unicode.LittleEndian, unicode.IgnoreBOM)", "strencoding:UTF16BE")
	add("c14-case-utf16-bom", "C14.case", enc, "unicode.UTF16(unicode.LittleEndian, unicode.UseBOM)", "unicode.UTF16(unicode.LittleEndian, unicode.IgnoreBOM)", "strencoding:UTF16")
	add("c14-case-hash", "C14.case", "format/crypto/hash.go", "return sha256.New()", "return sha256.New224()", "hash:sha256")
	add("c14-case-nil-default", "C14.case", enc,
		"\t\tif h == nil {\n\t\t\treturn fmt.Errorf(\"unknown string encoding %s\", opts.Encoding)\n\t\t}\n\n\t\tbb := &bytes.Buffer{}\n\t\tif _, err := io.Copy(bb,",
		"\t\tbb := &bytes.Buffer{}\n\t\tif _, err := io.Copy(bb,", "nil-default:_from_strencoding")
	add("c14-case-selector-bypass", "C14.case", enc, "b, err := base64Encoding(opts.Encoding).DecodeString(c)", "b, err := base64.StdEncoding.DecodeString(c)", "selector:_from_base64")

	// C14.err
	add("c14-err-hex-dropped", "C14.err", enc, "b, err := hex.DecodeString(c)\n\t\tif err != nil {\n\t\t\treturn err\n\t\t}", "b, _ := hex.DecodeString(c)", "from_hex|encoding/hex.DecodeString")
	add("c14-err-yaml-swallow", "C14.err", "format/yaml/yaml.go", "if err := e.Encode(gojqx.Normalize(c)); err != nil {\n\t\treturn err\n\t}", "_ = e.Encode(gojqx.Normalize(c))", "_to_yaml|")
	add("c14-err-toml-continue", "C14.err", "format/toml/toml.go", "if _, err := toml.NewDecoder(br).Decode(&r); err != nil {\n\t\td.Fatalf(\"%s\", err)", "if _, err := toml.NewDecoder(br).Decode(&r); err != nil {\n\t\td.Errorf(\"%s\", err)", "decode:toml|")

	// C14.bits
	add("c14-bits-len", "C14.bits", enc, "bb, err := interp.NewBinaryFromBitReader(bitio.NewBitReader(b, -1), 8, 0)", "bb, err := interp.NewBinaryFromBitReader(bitio.NewBitReader(b, int64(len(b))), 8, 0)", "from_hex#1")
	add("c14-bits-pad", "C14.bits", "format/crypto/hash.go", "interp.NewBinaryFromBitReader(outBR, 8, 0)", "interp.NewBinaryFromBitReader(outBR, 8, 8)", "_to_hash#1")

	// C14.norm
	add("c14-norm-yaml", "C14.norm", "format/yaml/yaml.go", "e.Encode(gojqx.Normalize(c))", "e.Encode(c)", "_to_yaml#1")
	add("c14-norm-toml-decode", "C14.norm", "format/toml/toml.go", "s.Actual = gojqx.Normalize(r)", "s.Actual = r", "decode:toml#1")

	// C14.multi
	add("c14-multi-set-in-loop", "C14.multi", urlGo, "ss = append(ss, s)", "qv.Set(k, s)", "store#")
	add("c14-multi-len-guard", "C14.multi", urlGo, "if len(v) > 1 {", "if len(v) > 2 {", "index[0]")

	// C14.seq
	add("c14-seq-descending", "C14.seq", xmlGo, "func(a, b int) bool { return a < b }", "func(a, b int) bool { return b < a }", "sort#1")
	add("c14-seq-not-parsed", "C14.seq", xmlGo, "seq, _ = strconv.Atoi(s)", "_, _ = strconv.Atoi(s)", "|result")

	// C14.prefix (the xml instance is a known finding on the pinned tree; this control seeds a second instance)
	add("c14-prefix-const", "C14.prefix", "internal/gojqx/error.go", "if strings.HasPrefix(s, \"_\") {", "if strings.HasPrefix(s, \"__\") {", "internal/gojqx.funcName|strip#1")

	// C14.xmlkeys
	add("c14-xmlkeys-comment", "C14.xmlkeys", xmlGo, "case k == \"#comment\":", "case k == \"#comments\":", "mode:Object")
	add("c14-xmlkeys-prefix-default", "C14.xmlkeys", xmlGo, "AttributePrefix string `default:\"@\"`", "AttributePrefix string `default:\"_\"`", "attribute-prefix-default")

	// C14.json
	add("c14-json-escape-cr", "C14.json", cj, "case '\\r':\n\t\t\t\te.w.WriteString(`\\r`)", "case '\\r':\n\t\t\t\te.w.WriteString(`\\n`)", "escape:0x0d")
	add("c14-json-nibbles", "C14.json", cj, "e.w.WriteByte(hex[b>>4])\n\t\t\t\te.w.WriteByte(hex[b&0xF])", "e.w.WriteByte(hex[b&0xF])\n\t\t\t\te.w.WriteByte(hex[b>>4])", "u00XX")
	add("c14-json-float-bits", "C14.json", cj, "strconv.AppendFloat(e.buf[:0], f, format, -1, 64)", "strconv.AppendFloat(e.buf[:0], f, format, -1, 32)", "|float")
	add("c14-json-passthrough", "C14.json", cj, "if ' ' <= b && b <= '~' && b != '\"' && b != '\\\\' {", "if ' ' <= b && b <= '~' && b != '\"' {", "passthrough")

	// C14.pair
	add("c14-pair-utf16be", "C14.pair", encJQ, "def from_utf16be: _from_strencoding({encoding: \"UTF16BE\"});", "def from_utf16be: _from_strencoding({encoding: \"UTF16LE\"});", "strencoding:from_utf16be")
	add("c14-pair-hash", "C14.pair", "format/crypto/hash.jq", "def to_sha512: _to_hash({name: \"sha512\"});", "def to_sha512: _to_hash({name: \"sha256\"});", "hash:to_sha512")
	add("c14-pair-base64-default", "C14.pair", encJQ, "def from_base64($opts): _from_base64({encoding: \"std\"} + $opts);", "def from_base64($opts): _from_base64({encoding: \"url\"} + $opts);", "base64/1")
	add("c14-pair-alias", "C14.pair", encJQ, "def hex: _binary_or_orig(to_hex; from_hex);", "def hex: _binary_or_orig(from_hex; to_hex);", "alias:hex")
	add("c14-pair-arity0", "C14.pair", "format/toml/toml.jq", "def to_toml: _to_toml(null);", "def to_toml: _to_yaml(null);", "arity0:to_toml")

	// C14.radix
	add("c14-radix-table", "C14.radix", "format/math/radix.jq", "\"A\": 36, \"B\": 37,", "\"A\": 37, \"B\": 36,", "digit:36")
	add("c14-radix-base-guard", "C14.radix", "format/math/radix.jq", "if $base <= ($table | length) then", "if $base < ($table | length) then", "to-base-guard")

	// C14.regex
	add("c14-regex-w", "C14.regex", "format/json/jq.jq", "test(\"^[a-zA-Z_][a-zA-Z_0-9]*$\")", "test(\"^\\\\w+$\")", "ident:_is_ident")
	add("c14-regex-polarity", "C14.regex", "format/json/jq.jq", "def _key: if _is_ident | not then tojson end;", "def _key: if _is_ident then tojson end;", "quote-when-not-ident")

	// C14.flush
	add("c14-flush-close", "C14.flush", enc, "\t\twc.Close()\n", "", "_to_base64#1")
	add("c14-flush-csv-order", "C14.flush", "format/csv/csv.go", "w.Flush()\n\n\treturn b.String()", "s := b.String()\n\tw.Flush()\n\treturn s", "_to_csv#1")

	// C14.urlkeys
	add("c14-urlkeys-fragment", "C14.urlkeys", urlGo, "Fragment: str(c[\"fragment\"]),", "Fragment: str(c[\"frag\"]),", "key:fragment")

	// C14.csv
	add("c14-csv-comma-from-comment", "C14.csv", "format/csv/csv.go", "r.Comma = rune(ci.Comma[0])", "r.Comma = rune(ci.Comment[0])", "csv.Reader.Comma")

	// clauses added after the first round
	add("c14-bind-hostname", "C14.bind", urlGo, "m[\"host\"] = u.Host\n", "m[\"host\"] = u.Hostname()\n", "from_url")
	add("c14-err-json-eof", "C14.err", "format/json/json.go", "\tif !lines && (len(vs) != 1 || !foundEOF) {", "\t_ = foundEOF\n\tif !lines && len(vs) != 1 {", "eof-flag")
	add("c14-norm-rec", "C14.norm", "internal/gojqx/types.go", "vs[i] = NormalizeFn(e, fn)", "vs[i] = fn(e)", "NormalizeFn|loop")
	add("c14-multi-merge", "C14.multi", xmlGo, "attrs[nname] = append(ea, naddrs)", "_ = ea\n\t\t\t\t\tattrs[nname] = []any{naddrs}", "merge#")
	add("c14-xmlkeys-field", "C14.xmlkeys", xmlGo, "\t\t\tcase \"#comment\":\n\t\t\t\ts, _ := v.(string)\n\t\t\t\tn.Comment = []byte(s)", "\t\t\tcase \"#comment\":\n\t\t\t\ts, _ := v.(string)\n\t\t\t\tn.Chardata = []byte(s)", "mode:Array:#comment")
	add("c14-pair-pem", "C14.pair", "format/crypto/pem.jq", "| _from_base64({encoding: \"std\"})", "| _from_base64({encoding: \"url\"})", "base64-pair:to_pem")
	add("c14-jqerr-fromjson", "C14.jqerr", "format/json/json.jq", "def fromjson: decode(\"json\") | _decode_value_error as $e | if $e then error($e.error) end;", "def fromjson: decode(\"json\");", "fromjson")
	add("c14-jqerr-term", "C14.jqerr", "format/json/jq.jq", "else error(\"unsupported term \\($v.term.type)\")", "else null", "unsupported-term")

	// C14.shape
	add("c14-shape-append-on-make", "C14.shape", "internal/gojqx/types.go", "\t\tvar vs []any\n\t\tfor _, e := range v {\n\t\t\tvs = append(vs, NormalizeFn(e, fn))", "\t\tvs := make([]any, len(v))\n\t\tfor _, e := range v {\n\t\t\tvs = append(vs, NormalizeFn(e, fn))", "NormalizeFn|append")
	add("c14-shape-make-len", "C14.shape", "internal/gojqx/totype.go", "vvs := make([]any, len(vv))", "vvs := make([]any, len(vv)+1)", "ToGoJQValueFn|make")
	add("c14-shape-fixed-index", "C14.shape", "internal/gojqx/totype.go", "vvs[i] = v", "vvs[i/2] = v", "ToGoJQValueFn|make")

	// clauses added by the self-review by mutation (round 3)
	const (
		hashGo  = "format/crypto/hash.go"
		jsonGo  = "format/json/json.go"
		csvGo   = "format/csv/csv.go"
		typesGo = "internal/gojqx/types.go"
		radixJQ = "format/math/radix.jq"
		jqJQ    = "format/json/jq.jq"
	)
	// C14.feed
	add("c14-feed-source", "C14.feed", enc, "strings.NewReader(c)", "strings.NewReader(opts.Encoding)", "_to_strencoding|source")
	add("c14-feed-hash-sink", "C14.feed", hashGo, "io.Copy(h, bitio.NewIOReader(inBR))", "io.Copy(io.Discard, bitio.NewIOReader(inBR))", "_to_hash|sink")
	add("c14-feed-hex-sink", "C14.feed", enc, "io.Copy(hex.NewEncoder(buf), bitio.NewIOReader(br))", "io.Copy(hex.NewEncoder(&bytes.Buffer{}), bitio.NewIOReader(br))", "to_hex|sink")
	add("c14-feed-jsonl-newline", "C14.feed", "format/json/jsonl.go", "\t\tbb.WriteByte('\\n')\n", "", "to_jsonl|newline")
	// C14.flow
	add("c14-flow-entry", "C14.flow", urlGo, "qv[k] = []string{vs}", "_ = vs\n\t\t\t\tqv[k] = []string{k}", "|entry#")
	add("c14-flow-fresh", "C14.flow", csvGo,
		"\tfor _, row := range c {\n\t\trs, ok := gojqx.Cast[[]any](row)\n\t\tif !ok {\n\t\t\treturn fmt.Errorf(\"expected row to be an array, got %s\", gojqx.TypeErrorPreview(row))\n\t\t}\n\t\tvs, ok := gojqx.NormalizeToStrings(rs).([]any)\n\t\tif !ok {\n\t\t\tpanic(\"not array\")\n\t\t}\n\t\tvar ss []string\n",
		"\tvar ss []string\n\tfor _, row := range c {\n\t\trs, ok := gojqx.Cast[[]any](row)\n\t\tif !ok {\n\t\t\treturn fmt.Errorf(\"expected row to be an array, got %s\", gojqx.TypeErrorPreview(row))\n\t\t}\n\t\tvs, ok := gojqx.NormalizeToStrings(rs).([]any)\n\t\tif !ok {\n\t\t\tpanic(\"not array\")\n\t\t}\n",
		"toCSV|fresh#")
	add("c14-flow-sole-entry", "C14.flow", xmlGo, "} else if len(attrs) == 1 && attrs[\"#text\"] != nil {", "} else if len(attrs) >= 1 && attrs[\"#text\"] != nil {", "sole-entry#")
	// C14.urlkeys
	add("c14-urlkeys-field", "C14.urlkeys", urlGo, "m[\"host\"] = u.Host\n", "m[\"host\"] = u.Path\n", "field:host")
	add("c14-urlkeys-userinfo", "C14.urlkeys", urlGo, "url.UserPassword(username, password)", "url.UserPassword(password, username)", "userinfo:to_url")
	// C14.err
	add("c14-err-json-single", "C14.err", jsonGo, "(len(vs) != 1 || !foundEOF)", "(len(vs) < 1 || !foundEOF)", "single-value")
	add("c14-err-json-lines", "C14.err", jsonGo, "\t\t\t} else if lines {\n\t\t\t\td.Fatalf(\"%s\", err.Error())\n\t\t\t}\n", "\t\t\t}\n", "error-continues")
	add("c14-err-xml-default", "C14.err", xmlGo, "\t\tdefault:\n\t\t\td.Fatalf(\"root element has trailing data\")\n", "", "trailing-default")
	// C14.xmlkeys
	add("c14-xmlkeys-attr-prefix", "C14.xmlkeys", xmlGo, "attrs[xi.AttributePrefix+name] = a.Value", "attrs[name] = a.Value", "mode:Object:attr-prefix")
	// C14.seq
	add("c14-seq-flag-and", "C14.seq", xmlGo,
		"f(k, v)\n\t\t\t\t\t\tn.Nodes = append(n.Nodes, nn)\n\t\t\t\t\t\torderNames = append(orderNames, k)\n\t\t\t\t\t\torderSeqs = append(orderSeqs, nseq)\n\t\t\t\t\t\torderHasSeq = orderHasSeq || nHasSeq",
		"f(k, v)\n\t\t\t\t\t\tn.Nodes = append(n.Nodes, nn)\n\t\t\t\t\t\torderNames = append(orderNames, k)\n\t\t\t\t\t\torderSeqs = append(orderSeqs, nseq)\n\t\t\t\t\t\torderHasSeq = orderHasSeq && nHasSeq", "|flag#")
	add("c14-seq-lockstep", "C14.seq", xmlGo,
		"f(k, \"\")\n\t\t\t\t\t\t\tn.Nodes = append(n.Nodes, nn)\n\t\t\t\t\t\t\torderNames = append(orderNames, k)\n\t\t\t\t\t\t\torderSeqs = append(orderSeqs, nseq)\n",
		"f(k, \"\")\n\t\t\t\t\t\t\tn.Nodes = append(n.Nodes, nn)\n\t\t\t\t\t\t\torderNames = append(orderNames, k)\n\t\t\t\t\t\t\t_ = nseq\n", "|lockstep#")
	add("c14-seq-unstable", "C14.seq", xmlGo, "sortx.ProxyStable(orderNames, n.Nodes,", "sortx.ProxySort(orderNames, n.Nodes,", "|stable#")
	add("c14-seq-unstable-impl", "C14.seq", "internal/sortx/proxysort.go", "sort.Stable(proxySort[Tae, Ta, Tbe, Tb]{a: a, b: b, fn: fn})", "sort.Sort(proxySort[Tae, Ta, Tbe, Tb]{a: a, b: b, fn: fn})", "stable-impl")
	add("c14-seq-flag-set", "C14.seq", xmlGo, "\t\t\t\t\thasSeq = true\n", "\t\t\t\t\thasSeq = false\n", "|flag-set#")
	// C14.json
	add("c14-json-resume", "C14.json", cj, "\t\t\ti++\n\t\t\tstart = i\n\t\t\tcontinue\n\t\t}\n\t\tc, size", "\t\t\tstart = i\n\t\t\ti++\n\t\t\tcontinue\n\t\t}\n\t\tc, size", "|resume#")
	add("c14-json-ufffd", "C14.json", cj, "`\\ufffd`", "`\\ufffe`", "escape:ufffe")
	add("c14-json-delete-byte", "C14.json", cj, "buf = buf[:n-1]", "buf = buf[:n-2]", "delete-byte")
	add("c14-json-flush", "C14.json", cj, "\t\t\tif start < i {\n\t\t\t\te.w.WriteString(s[start:i])\n\t\t\t}\n\t\t\te.w.WriteString(`\\ufffd`)", "\t\t\te.w.WriteString(`\\ufffd`)", "flush-before-resume")
	// C14.norm
	add("c14-norm-scalar", "C14.norm", typesGo, "return NormalizeFn(v.JQValueToGoJQ(), fn)", "return fn(v.JQValueToGoJQ())", "scalar-fn")
	// C14.multi
	add("c14-multi-index-dead", "C14.multi", urlGo, "if len(v) > 1 {", "if len(v) > 0 {", "index[0]")
	// C14.radix
	add("c14-radix-digit-guard", "C14.radix", radixJQ, ". >= $base then error", ". > $base then error", "from-digit-guard")
	add("c14-radix-null-digit", "C14.radix", radixJQ, "if . == null or . >= $base then", "if . >= $base then", "from-unknown-digit")
	add("c14-radix-positional", "C14.radix", radixJQ, "[$b, .[1] + (.[0] * $c)]", "[$b, .[1] + ($b * $c)]", "from-positional")
	add("c14-radix-reverse", "C14.radix", radixJQ, "  | split(\"\")\n  | reverse\n", "  | split(\"\")\n", "from-positional")
	add("c14-radix-mod", "C14.radix", radixJQ, ". % $base]", ". % 10]", "to-divmod")
	add("c14-radix-order", "C14.radix", radixJQ, "      | .[1:]\n", "      | .[:-1]\n", "to-digit-order")
	// C14.jqlit
	add("c14-jqlit-number", "C14.jqlit", jqJQ, "$v.term.number | tonumber", "$v.term.number", "from_jq|number")
	add("c14-jqlit-true", "C14.jqlit", jqJQ, "elif . == \"TermTypeTrue\" then true", "elif . == \"TermTypeTrue\" then false", "literal:true")
	add("c14-jqlit-keys", "C14.jqlit", jqJQ, "                  elif .key then .key\n", "", "object-keys")
	add("c14-jqlit-emptystr", "C14.jqlit", jqJQ, "else $v.term.str.str // \"\"", "else $v.term.str.str", "string-text")
	add("c14-jqlit-negative", "C14.jqlit", jqJQ, "then -(.term.number | tonumber)", "then (.term.number | tonumber)", "from_jq|negative")
	// C14.pair
	add("c14-pair-default-order", "C14.pair", encJQ, "def to_base64($opts): _to_base64({encoding: \"std\"} + $opts);", "def to_base64($opts): _to_base64($opts + {encoding: \"std\"});", "overrides the caller")

	// C14.xmlns
	add("c14-xmlns-order", "C14.xmlns", xmlGo, "\tfor i := len(nss) - 1; i >= 0; i-- {\n\t\tns := nss[i]\n", "\tfor _, ns := range nss {\n", "xmlns|lookup-order")
	add("c14-xmlns-push-front", "C14.xmlns", xmlGo, "n = append(n, xmlNS{name: name, url: url})", "n = append([]xmlNS{{name: name, url: url}}, n...)", "xmlns|lookup-order")
	add("c14-xmlns-bounds", "C14.xmlns", xmlGo, "for i := len(nss) - 1; i >= 0; i-- {", "for i := len(nss) - 1; i > 0; i-- {", "xmlns|lookup-bounds")
	add("c14-xmlns-start", "C14.xmlns", xmlGo, "for i := len(nss) - 1; i >= 0; i-- {", "for i := len(nss) - 2; i >= 0; i-- {", "xmlns|lookup-bounds")
	add("c14-xmlns-fields", "C14.xmlns", xmlGo, "if name.Space == ns.url {", "if name.Space == ns.name {", "xmlns|lookup-fields")
	add("c14-xmlns-args", "C14.xmlns", xmlGo,
		"f = func(n xmlNode, seq int, nss xmlNNStack) (string, any) {\n\t\tattrs := map[string]any{}\n\n\t\tfor _, a := range n.Attrs {\n\t\t\tlocal, space := a.Name.Local, a.Name.Space\n\t\t\tif space == \"xmlns\" {\n\t\t\t\tnss = nss.push(local, a.Value)",
		"f = func(n xmlNode, seq int, nss xmlNNStack) (string, any) {\n\t\tattrs := map[string]any{}\n\n\t\tfor _, a := range n.Attrs {\n\t\t\tlocal, space := a.Name.Local, a.Name.Space\n\t\t\tif space == \"xmlns\" {\n\t\t\t\tnss = nss.push(a.Value, local)", "xmlns|push-args#")
}
