package rules

import (
	"fmt"
	"go/token"
	"go/types"
	"strings"

	"golang.org/x/tools/go/ssa"

	"fqverif/fw"
)

func init() { Register("C01", runC01) }

func runC01(r *fw.Run, p *fw.Program) {
	c01Seek(r, p)
	c01Clamp(r, p)
	c01EOF(r, p)
	c01Ahead(r, p)
	c01ReadAt(r, p)
	c01Drain(r, p)
	c01Err(r, p)
	c01Pad(r, p)
	c01Cursor(r, p)
	c01Units(r, p)
	c01Lanes(r, p)
	c01Bits(r, p)
	c01Clone(r, p)
	c01Buffer(r, p)
	c01EOFBits(r, p)
	c05BitioxAs(r, p, "C01.bitiox")
	c01Ctor(r, p)
	c01Multi(r, p)
	c01Fetch(r, p)
	c01Bytes(r, p)
	c01IOSeek(r, p)
	c01BufState(r, p)
	c01Count(r, p)
	c01Copy(r, p)
	c01Stitch(r, p)
	c01Passthru(r, p)
}

// c01Params: canonical parameter names (receiver first) the rule texts below are written in;
// actual names in /repo are aliased to these by position, so renames do not matter.
var c01Params = map[string][]string{
	"(*pkg/bitio.SectionReader).SeekBits":            {"r", "bitOff", "whence"},
	"(*pkg/bitio.MultiReader).SeekBits":              {"m", "bitOff", "whence"},
	"(*internal/bitiox.ZeroReadAtSeeker).SeekBits":   {"z", "bitOffset", "whence"},
	"(*pkg/bitio.IOBitReadSeeker).SeekBits":          {"r", "bitOff", "whence"},
	"(*pkg/bitio.IOReadSeeker).Seek":                 {"r", "offset", "whence"},
	"(*pkg/bitio.SectionReader).ReadBitsAt":          {"r", "p", "nBits", "bitOff"},
	"(*pkg/bitio.SectionReader).ReadBits":            {"r", "p", "nBits"},
	"(*pkg/bitio.MultiReader).ReadBits":              {"m", "p", "nBits"},
	"(*pkg/bitio.IOBitReadSeeker).ReadBits":          {"r", "p", "nBits"},
	"(*pkg/bitio.LimitReader).ReadBits":              {"r", "p", "nBits"},
	"(*internal/bitiox.ZeroReadAtSeeker).ReadBitsAt": {"z", "p", "nBits", "bitOff"},
	"(*pkg/bitio.MultiReader).ReadBitsAt":            {"m", "p", "nBits", "bitOff"},
	"(*pkg/bitio.IOBitReadSeeker).ReadBitsAt":        {"r", "p", "nBits", "bitOffset"},
	"(*internal/aheadreadseeker.Reader).Seek":        {"r", "offset", "whence"},
	"(*internal/aheadreadseeker.Reader).Read":        {"r", "p"},
}

// c01Fn resolves an anchored function and aliases its parameters to the canonical names.
func c01Fn(ru *fw.Rule, p *fw.Program, name string) *ssa.Function {
	fn := getFn(ru, p, name)
	if fn == nil {
		return nil
	}
	if names, ok := c01Params[name]; ok {
		if !fw.AliasParams(fn, names...) {
			ru.Undecided("anchor:"+name+":signature", p.Rel(fn.Pos()), "parameter list changed; the rule's parameter roles must be updated")
			return nil
		}
	}
	return fn
}

// ---------------------------------------------------------------------------
// C01.seek: io.Seeker contract of every computing SeekBits / Seek

type seekSpec struct {
	fn          string // ssa name
	off, whence string // parameter names
	cursor      string // access path of the cursor field
	base        string // polynomial added to the offset for SeekStart ("" = 0)
	end         string // polynomial of the logical end ("" = any atom free of off and cursor)
}

var seekSpecs = []seekSpec{
	{"(*pkg/bitio.SectionReader).SeekBits", "bitOff", "whence", "r.bitOff", "r.bitBase", "r.bitLimit"},
	{"(*pkg/bitio.MultiReader).SeekBits", "bitOff", "whence", "m.pos", "", ""},
	{"(*internal/bitiox.ZeroReadAtSeeker).SeekBits", "bitOffset", "whence", "z.pos", "", "z.nBits"},
}

func c01Seek(r *fw.Run, p *fw.Program) {
	ru := r.Rule("C01.seek", "every computing seeker obeys the io.Seeker contract per whence: start => off(+base), current => cursor+off, end => end+off; the stored cursor is that value and the returned position is cursor(-base)", 18)
	for _, sp := range seekSpecs {
		fn := c01Fn(ru, p, sp.fn)
		if fn == nil {
			continue
		}
		env := fw.NewPolyEnv(fn)
		sts := storesTo(fn, sp.cursor)
		if len(sts) != 1 {
			ru.Undecided(sp.fn+":cursor-store", p.Rel(fn.Pos()), fmt.Sprintf("expected exactly one store to %s, found %d", sp.cursor, len(sts)))
			continue
		}
		st := sts[0]
		arms, other := phiArmsByConst(env, st.Val, sp.whence)
		off := fw.PAtom(sp.off)
		base := fw.ParsePoly(sp.base)
		want := map[int64]*fw.Poly{
			0: off.Add(base),
			1: off.Add(fw.PAtom(sp.cursor)),
		}
		names := map[int64]string{0: "SeekStart", 1: "SeekCurrent", 2: "SeekEnd"}
		for _, w := range []int64{0, 1} {
			got, ok := arms[w]
			key := fmt.Sprintf("%s:%s", sp.fn, names[w])
			if !ok {
				ru.Fail(key, p.Rel(st.Pos()), "no arm found for whence == "+names[w])
				continue
			}
			ru.Check(got.Equal(want[w]), key, p.Rel(st.Pos()), "new cursor = "+got.String(), fmt.Sprintf("new cursor for %s is %s, io.Seeker contract requires %s", names[w], got, want[w]))
		}
		// end arm
		key := sp.fn + ":SeekEnd"
		if got, ok := arms[2]; !ok {
			ru.Fail(key, p.Rel(st.Pos()), "no arm found for whence == SeekEnd")
		} else {
			e := got.Sub(off)
			okEnd := !mentions(e, sp.off) && !mentions(e, sp.cursor) && len(e.T) >= 1
			if sp.end != "" {
				okEnd = e.Equal(fw.ParsePoly(sp.end))
			} else {
				// must be a single atom with coefficient 1 (the logical end)
				okEnd = okEnd && len(e.T) == 1 && e.Const() == 0
				for _, c := range e.T {
					if !c.IsInt64() || c.Int64() != 1 {
						okEnd = false
					}
				}
			}
			ru.Check(okEnd, key, p.Rel(st.Pos()), "new cursor = "+got.String(), fmt.Sprintf("new cursor for SeekEnd is %s, io.Seeker contract requires end + %s", got, sp.off))
		}
		for _, o := range other {
			// an arm without whence fact: only the zero/old-cursor initial value of an unreachable default is tolerated
			if c, ok := o.IsConst(); ok && c == 0 {
				continue
			}
			if o.Equal(fw.PAtom(sp.cursor)) {
				continue
			}
			ru.Fail(sp.fn+":other-arm", p.Rel(st.Pos()), "cursor may be set to "+o.String()+" on a path with no whence test")
		}
		// returned position on the success path (the return that the store dominates)
		nret := 0
		for _, ret := range returnsOf(fn) {
			if !precedesOnAllPaths(st, ret) || len(ret.Results) != 2 {
				continue
			}
			nret++
			got := env.Of(ret.Results[0])
			wantRet := env.Of(st.Val).Sub(base)
			ru.Check(got.Equal(wantRet) && isNilErr(ret.Results[1]), sp.fn+":return", p.Rel(ret.Pos()), "returns "+got.String(),
				fmt.Sprintf("returned position is %s, expected new cursor minus base = %s with nil error", got, wantRet))
		}
		if nret == 0 {
			ru.Undecided(sp.fn+":return", p.Rel(fn.Pos()), "no return after the cursor store")
		}
		// lower bound: the store is not reached with new cursor < base (Section) / < 0
		lower := env.Of(st.Val).Sub(base)
		ru.Check(env.Proves(st.Block(), fw.Cmp{P: lower, Rel: fw.GE}), sp.fn+":lower-bound", p.Rel(st.Pos()),
			"store guarded by new position >= 0", "cursor store is not guarded by new position >= 0 (negative positions accepted)")
	}

	// IOBitReadSeeker.SeekBits: SeekCurrent must be resolved against bitPos, not forwarded to the byte reader
	if fn := c01Fn(ru, p, "(*pkg/bitio.IOBitReadSeeker).SeekBits"); fn != nil {
		env := fw.NewPolyEnv(fn)
		calls := methodCalls(fn, "Seek")
		if len(calls) != 1 {
			ru.Undecided("IOBitReadSeeker.SeekBits:delegate", p.Rel(fn.Pos()), fmt.Sprintf("expected one call of the wrapped Seek, found %d", len(calls)))
		} else {
			c := calls[0]
			args := callArgs(c)
			// whence argument: on the path where whence == 1 the value must be 0 (SeekStart) and the offset bitOff + r.bitPos
			wArms, wOther := phiArmsByConst(env, args[1], "whence")
			oArms, _ := phiArmsByConst(env, stripDiv8(args[0]), "whence")
			okCur := false
			if w, ok := wArms[1]; ok {
				if c0, isC := w.IsConst(); isC && c0 == 0 {
					if o, ok := oArms[1]; ok && o.Equal(fw.ParsePoly("bitOff + r.bitPos")) {
						okCur = true
					}
				}
			}
			ru.Check(okCur, "IOBitReadSeeker.SeekBits:SeekCurrent", p.Rel(c.Pos()), "SeekCurrent resolved as SeekStart of bitOff + r.bitPos",
				"SeekCurrent is forwarded to the wrapped byte reader (whose position is not bitPos/8 after ReadBitsAt) instead of being resolved against r.bitPos")
			// all other arms forward whence unchanged and offset bitOff
			okFwd := len(wOther) > 0
			for _, w := range wOther {
				if !w.Equal(fw.PAtom("whence")) {
					okFwd = false
				}
			}
			ru.Check(okFwd, "IOBitReadSeeker.SeekBits:forward", p.Rel(c.Pos()), "other whence values forwarded unchanged", "whence is altered on a path other than SeekCurrent")
			// byte offset = bits / 8
			ru.Check(isDiv8(args[0]), "IOBitReadSeeker.SeekBits:bytes", p.Rel(c.Pos()), "wrapped Seek gets bit offset / 8", "wrapped Seek offset is not the bit offset divided by 8: "+env.Of(args[0]).String())
			// stored bitPos and returned value = 8*bytePos + off%8
			sts := storesTo(fn, "r.bitPos")
			if len(sts) != 1 {
				ru.Undecided("IOBitReadSeeker.SeekBits:cursor", p.Rel(fn.Pos()), "expected one store to r.bitPos")
			} else {
				got := env.Of(sts[0].Val)
				res0 := env.Of(extractOrSelf(c, 0))
				rem := got.Sub(res0.MulC(8))
				okPos := len(rem.T) == 1 && rem.Const() == 0
				for k, co := range rem.T {
					if !strings.Contains(k, "% 8") || !co.IsInt64() || co.Int64() != 1 {
						okPos = false
					}
				}
				ru.Check(okPos, "IOBitReadSeeker.SeekBits:position", p.Rel(sts[0].Pos()), "bitPos = 8*bytePos + off%8", "new bitPos is "+got.String()+", expected 8*(byte position) + (bit offset % 8)")
				for _, ret := range returnsOf(fn) {
					if precedesOnAllPaths(sts[0], ret) {
						ru.Check(env.Of(ret.Results[0]).Equal(got), "IOBitReadSeeker.SeekBits:return", p.Rel(ret.Pos()), "returns new bitPos", "returned position differs from stored bitPos")
					}
				}
			}
		}
	}

	// IOReadSeeker.Seek (byte seeker over a bit seeker)
	if fn := c01Fn(ru, p, "(*pkg/bitio.IOReadSeeker).Seek"); fn != nil {
		env := fw.NewPolyEnv(fn)
		calls := methodCalls(fn, "SeekBits")
		if len(calls) != 1 {
			ru.Undecided("IOReadSeeker.Seek:delegate", p.Rel(fn.Pos()), "expected one SeekBits call")
		} else {
			c := calls[0]
			args := callArgs(c)
			// SeekStart / SeekEnd (every path other than whence == SeekCurrent) are forwarded as SeekBits(offset*8, whence);
			// how SeekCurrent is resolved is decided by C01.ioseek Seek:current
			okDel := true
			wantOff := fw.PAtom("offset") // in the unit of the value the arms are taken from
			if c01StripMul8(args[0]) == args[0] {
				wantOff = fw.ParsePoly("8*offset")
			}
			oArms, oOther := phiArmsByConst(env, c01StripMul8(args[0]), "whence")
			for k, o := range oArms {
				if k != 1 && !o.Equal(wantOff) {
					okDel = false
				}
			}
			for _, o := range oOther {
				if !o.Equal(wantOff) {
					okDel = false
				}
			}
			if _, isPhi := c01StripMul8(args[0]).(*ssa.Phi); !isPhi && !env.Of(args[0]).Equal(fw.ParsePoly("8*offset")) {
				okDel = false
			}
			wArms, wOther := phiArmsByConst(env, args[1], "whence")
			for k, w := range wArms {
				if c0, isC := w.IsConst(); k != 1 && !w.Equal(fw.PAtom("whence")) && !(isC && c0 == k) {
					okDel = false
				}
			}
			for _, w := range wOther {
				if !w.Equal(fw.PAtom("whence")) {
					okDel = false
				}
			}
			ru.Check(okDel, "IOReadSeeker.Seek:delegate", p.Rel(c.Pos()),
				"SeekBits(offset*8, whence)", "byte offset is not converted to bits by *8 or whence altered: SeekBits("+env.Of(args[0]).String()+", "+env.Of(args[1]).String()+")")
			n := extractOrSelf(c, 0)
			for _, ret := range returnsOf(fn) {
				ru.Check(isDiv8Of(ret.Results[0], n), "IOReadSeeker.Seek:return", p.Rel(ret.Pos()), "returns bit position / 8", "returned byte position is not SeekBits result / 8: "+env.Of(ret.Results[0]).String())
			}
			// carry buffer reset: compared quantities must both be bits: n vs 8*sPos (+ buffered bits)
			found := false
			fw.EachInstr(fn, func(ins ssa.Instruction) {
				ifi, ok := ins.(*ssa.If)
				if !ok {
					return
				}
				cmp, ok := env.CmpOf(ifi.Cond)
				if !ok {
					return
				}
				nP := env.Of(n)
				if !mentions(cmp.P, nP.String()) {
					return
				}
				found = true
				co := cmp.P.Coef("r.sPos")
				if co < 0 {
					co = -co
				}
				ru.Check(co == 8, "IOReadSeeker.Seek:reset-test", p.Rel(ifi.Pos()), "bit position compared with 8*sPos", "position-changed test compares the bit position with the byte position sPos without *8: "+cmp.String())
			})
			if !found {
				ru.Fail("IOReadSeeker.Seek:reset-test", p.Rel(fn.Pos()), "no test of the new position against the old one before keeping buffered bits")
			}
			sts := storesTo(fn, "r.sPos")
			for _, st := range sts {
				ru.Check(isDiv8Of(st.Val, n), "IOReadSeeker.Seek:sPos", p.Rel(st.Pos()), "sPos = bit position / 8", "sPos stored as "+env.Of(st.Val).String()+", expected bit position / 8")
			}
		}
	}
}

func extractOrSelf(c *ssa.Call, idx int) ssa.Value {
	if e := extractOf(c, idx); e != nil {
		return e
	}
	return c
}

func isDiv8(v ssa.Value) bool {
	b, ok := v.(*ssa.BinOp)
	if !ok {
		return false
	}
	if b.Op == token.QUO {
		if c, ok := b.Y.(*ssa.Const); ok && c.Int64() == 8 {
			return true
		}
	}
	if b.Op == token.SHR {
		if c, ok := b.Y.(*ssa.Const); ok && c.Int64() == 3 {
			return true
		}
	}
	return false
}

// c01StripMul8: x*8 / 8*x / x<<3 => x (else v itself).
func c01StripMul8(v ssa.Value) ssa.Value {
	b, ok := v.(*ssa.BinOp)
	if !ok {
		return v
	}
	if b.Op == token.MUL {
		if c, ok := b.Y.(*ssa.Const); ok && c.Value != nil && c.Int64() == 8 {
			return b.X
		}
		if c, ok := b.X.(*ssa.Const); ok && c.Value != nil && c.Int64() == 8 {
			return b.Y
		}
	}
	if b.Op == token.SHL {
		if c, ok := b.Y.(*ssa.Const); ok && c.Value != nil && c.Int64() == 3 {
			return b.X
		}
	}
	return v
}

func stripDiv8(v ssa.Value) ssa.Value {
	if isDiv8(v) {
		return v.(*ssa.BinOp).X
	}
	return v
}

func isDiv8Of(v ssa.Value, x ssa.Value) bool {
	return isDiv8(v) && v.(*ssa.BinOp).X == x
}

// ---------------------------------------------------------------------------
// C01.clamp: limiting readers never hand out bits beyond their window

func c01Clamp(r *fw.Run, p *fw.Program) {
	ru := r.Rule("C01.clamp", "limiting readers (Section, Limit, Zero, Multi) bound the count/offset handed to the wrapped reader by the remaining window and report EOF only outside it", 14)

	// SectionReader.ReadBitsAt
	if fn := c01Fn(ru, p, "(*pkg/bitio.SectionReader).ReadBitsAt"); fn != nil {
		env := fw.NewPolyEnv(fn)
		calls := methodCalls(fn, "ReadBitsAt")
		if len(calls) == 0 {
			ru.Undecided("SectionReader.ReadBitsAt:delegate", p.Rel(fn.Pos()), "no delegated ReadBitsAt call")
		}
		for i, c := range calls {
			a := callArgs(c)
			key := fmt.Sprintf("SectionReader.ReadBitsAt:call%d", i+1)
			polyEq(ru, p, env, key+":offset", a[2], c.Pos(), "bitOff + r.bitBase", "offset passed to the parent reader")
			n := env.Of(a[1])
			window := fw.ParsePoly("r.bitLimit - bitOff - r.bitBase")
			okN := n.Equal(window) || env.Proves(c.Block(), fw.Cmp{P: n.Sub(window), Rel: fw.LE})
			if ph, isPhi := a[1].(*ssa.Phi); isPhi && !okN {
				// clamp written as "if nBits > max { nBits = max }": every incoming value is the window or proved <= it on its edge
				okN = true
				for j, ed := range ph.Edges {
					ep := env.Of(ed)
					if !ep.Equal(window) && !fw.ProvesFrom(env.EdgeFacts(ph.Block().Preds[j], ph.Block()), fw.Cmp{P: ep.Sub(window), Rel: fw.LE}) {
						okN = false
					}
				}
			}
			if mc, isCall := a[1].(*ssa.Call); isCall && !okN && fw.IsBuiltinCall(mc, "min") {
				for _, x := range mc.Common().Args {
					if env.Of(x).Equal(window) {
						okN = true
					}
				}
			}
			ru.Check(okN, key+":count", p.Rel(c.Pos()), "count "+n.String()+" <= window", "bit count passed to the parent ("+n.String()+") is not bounded by the remaining window r.bitLimit - (bitOff + r.bitBase)")
			okIn := provesAt(env, c.Block(), "bitOff", fw.GE) && provesAt(env, c.Block(), "bitOff - r.bitLimit + r.bitBase", fw.LT)
			ru.Check(okIn, key+":inside", p.Rel(c.Pos()), "0 <= bitOff < window length", "delegates for offsets outside [0, bitLimit-bitBase): reads before the window start or at/after its end must return EOF")
		}
	}
	// SectionReader.ReadBits / MultiReader.ReadBits / IOBitReadSeeker.ReadBits: cursor-relative offset and advance by returned count
	for _, x := range []struct{ fn, cursor, wantOff string }{
		{"(*pkg/bitio.SectionReader).ReadBits", "r.bitOff", "r.bitOff - r.bitBase"},
		{"(*pkg/bitio.MultiReader).ReadBits", "m.pos", "m.pos"},
		{"(*pkg/bitio.IOBitReadSeeker).ReadBits", "r.bitPos", "r.bitPos"},
	} {
		fn := c01Fn(ru, p, x.fn)
		if fn == nil {
			continue
		}
		env := fw.NewPolyEnv(fn)
		calls := methodCalls(fn, "ReadBitsAt")
		if len(calls) != 1 {
			ru.Undecided(x.fn+":readat", p.Rel(fn.Pos()), "expected one ReadBitsAt call")
			continue
		}
		c := calls[0]
		a := callArgs(c)
		polyEq(ru, p, env, x.fn+":offset", a[2], c.Pos(), x.wantOff, "read offset")
		polyEq(ru, p, env, x.fn+":count", a[1], c.Pos(), "nBits", "requested count")
		sts := storesTo(fn, x.cursor)
		if len(sts) != 1 {
			ru.Fail(x.fn+":advance", p.Rel(fn.Pos()), "cursor "+x.cursor+" is not advanced exactly once")
			continue
		}
		got := env.Of(sts[0].Val)
		want := fw.PAtom(x.cursor).Add(env.Of(extractOrSelf(c, 0)))
		ru.Check(got.Equal(want), x.fn+":advance", p.Rel(sts[0].Pos()), "cursor += bits returned", "cursor becomes "+got.String()+", expected old cursor + bits actually returned ("+want.String()+")")
	}
	// LimitReader.ReadBits
	if fn := c01Fn(ru, p, "(*pkg/bitio.LimitReader).ReadBits"); fn != nil {
		env := fw.NewPolyEnv(fn)
		calls := methodCalls(fn, "ReadBits")
		if len(calls) != 1 {
			ru.Undecided("LimitReader.ReadBits:delegate", p.Rel(fn.Pos()), "expected one wrapped ReadBits call")
		} else {
			c := calls[0]
			a := callArgs(c)
			// count: every phi arm is r.n, or nBits under the fact nBits <= r.n
			okCount := true
			detail := ""
			if phi, ok := a[1].(*ssa.Phi); ok {
				for i, e := range phi.Edges {
					pe := env.Of(e)
					pred := phi.Block().Preds[i]
					if pe.Equal(fw.PAtom("r.n")) {
						continue
					}
					if pe.Equal(fw.PAtom("nBits")) && fw.ProvesFrom(env.EdgeFacts(pred, phi.Block()), fw.Cmp{P: fw.ParsePoly("nBits - r.n"), Rel: fw.LE}) {
						continue
					}
					okCount = false
					detail = pe.String()
				}
			} else {
				pe := env.Of(a[1])
				okCount = pe.Equal(fw.PAtom("r.n")) || (pe.Equal(fw.PAtom("nBits")) && provesAt(env, c.Block(), "nBits - r.n", fw.LE))
				detail = pe.String()
				if mc, isCall := a[1].(*ssa.Call); isCall && fw.IsBuiltinCall(mc, "min") {
					for _, x := range mc.Common().Args {
						if env.Of(x).Equal(fw.PAtom("r.n")) {
							okCount = true
						}
					}
				}
			}
			ru.Check(okCount, "LimitReader.ReadBits:count", p.Rel(c.Pos()), "count <= r.n on every path", "count passed to the wrapped reader ("+detail+") is not bounded by the remaining limit r.n")
			ru.Check(provesAt(env, c.Block(), "r.n", fw.GT), "LimitReader.ReadBits:eof", p.Rel(c.Pos()), "read only while r.n > 0", "wrapped reader is read although the limit may be exhausted (r.n <= 0 must return EOF)")
			sts := storesTo(fn, "r.n")
			if len(sts) != 1 {
				ru.Fail("LimitReader.ReadBits:charge", p.Rel(fn.Pos()), "limit r.n is not charged exactly once")
			} else {
				got := env.Of(sts[0].Val)
				want := fw.PAtom("r.n").Sub(env.Of(extractOrSelf(c, 0)))
				ru.Check(got.Equal(want), "LimitReader.ReadBits:charge", p.Rel(sts[0].Pos()), "r.n -= bits returned", "limit becomes "+got.String()+", expected r.n minus the bits actually returned ("+want.String()+")")
			}
		}
	}
	// ZeroReadAtSeeker.ReadBitsAt
	if fn := c01Fn(ru, p, "(*internal/bitiox.ZeroReadAtSeeker).ReadBitsAt"); fn != nil {
		env := fw.NewPolyEnv(fn)
		env.Pure["BitsByteCount"] = true
		env.Pure["bitio.BitsByteCount"] = true
		var okRet *ssa.Return
		for _, ret := range returnsOf(fn) {
			if len(ret.Results) == 2 && isNilErr(ret.Results[1]) {
				okRet = ret
			}
		}
		if okRet == nil {
			ru.Undecided("ZeroReadAtSeeker.ReadBitsAt:return", p.Rel(fn.Pos()), "no successful return")
		} else {
			got := env.Of(okRet.Results[0])
			want := "min(-1*bitOff + z.nBits, nBits)"
			ru.Check(got.String() == want, "ZeroReadAtSeeker.ReadBitsAt:count", p.Rel(okRet.Pos()), "returns min(nBits, z.nBits - bitOff)", "returned count is "+got.String()+", expected min(nBits, z.nBits - bitOff)")
			okIn := provesAt(env, okRet.Block(), "bitOff", fw.GE) && provesAt(env, okRet.Block(), "bitOff - z.nBits", fw.NE) && provesAt(env, okRet.Block(), "bitOff - z.nBits", fw.LE)
			ru.Check(okIn, "ZeroReadAtSeeker.ReadBitsAt:inside", p.Rel(okRet.Pos()), "0 <= bitOff < nBits on the success path", "success path reachable with an offset outside [0, nBits)")
			// zero fill covers BitsByteCount(count) bytes: a store of 0 into p[i] under the loop bound i < BitsByteCount(count)
			okFill := false
			isCount := func(v ssa.Value) bool { // v = BitsByteCount(returned count)
				bc, isCall := fw.StripConv(v).(*ssa.Call)
				return isCall && bc.Common().StaticCallee() != nil && fw.ShortName(bc.Common().StaticCallee().String()) == "pkg/bitio.BitsByteCount" && env.Of(bc.Common().Args[0]).Equal(got)
			}
			// lessThanCount: cond (with its truth) says x < BitsByteCount(count); returns x
			lessThanCount := func(cond ssa.Value, truth bool) (ssa.Value, bool) {
				bo, isBo := cond.(*ssa.BinOp)
				if !isBo {
					return nil, false
				}
				switch {
				case bo.Op == token.LSS && truth && isCount(bo.Y), bo.Op == token.GEQ && !truth && isCount(bo.Y):
					return bo.X, true
				case bo.Op == token.GTR && truth && isCount(bo.X), bo.Op == token.LEQ && !truth && isCount(bo.X):
					return bo.Y, true
				}
				return nil, false
			}
			fw.EachInstr(fn, func(ins ssa.Instruction) {
				// clear(p[:BitsByteCount(count)])
				if c, isCall := ins.(*ssa.Call); isCall && fw.IsBuiltinCall(c, "clear") {
					if sl, isSl := c.Common().Args[0].(*ssa.Slice); isSl && sl.X == ssa.Value(fn.Params[1]) && (sl.Low == nil || constIs(sl.Low, 0)) && sl.High != nil && isCount(sl.High) {
						okFill = true
					}
					return
				}
				st, ok := ins.(*ssa.Store)
				if !ok {
					return
				}
				ia, ok := st.Addr.(*ssa.IndexAddr)
				if !ok || ia.X != ssa.Value(fn.Params[1]) {
					return
				}
				if c, ok := st.Val.(*ssa.Const); !ok || c.Value == nil || c.Int64() != 0 {
					return
				}
				// the index counts 0,1,2,...
				iph, isPhi := fw.StripConv(ia.Index).(*ssa.Phi)
				if !isPhi {
					return
				}
				for _, ed := range iph.Edges {
					if constIs(ed, 0) {
						continue
					}
					if bo, isBo := ed.(*ssa.BinOp); isBo && bo.Op == token.ADD && (bo.X == ssa.Value(iph) && constIs(bo.Y, 1) || bo.Y == ssa.Value(iph) && constIs(bo.X, 1)) {
						continue
					}
					return
				}
				// bound: a dominating guard i < BitsByteCount(count) ...
				for _, g := range fw.Guards(st.Block()) {
					g = g.Normalize()
					if x, ok := lessThanCount(g.Cond, g.True); ok && fw.StripConv(x) == ssa.Value(iph) {
						okFill = true
					}
				}
				// ... or (rotated loop) the test on every edge into the body
				if !okFill && iph.Block() == st.Block() {
					all := len(iph.Edges) > 0
					for j, ed := range iph.Edges {
						pred := iph.Block().Preds[j]
						ifi, isIf := pred.Instrs[len(pred.Instrs)-1].(*ssa.If)
						if !isIf || pred.Succs[0] == pred.Succs[1] {
							all = false
							continue
						}
						g := fw.Guard{Cond: ifi.Cond, True: pred.Succs[0] == iph.Block()}.Normalize()
						x, ok := lessThanCount(g.Cond, g.True)
						all = all && ok && (fw.StripConv(x) == fw.StripConv(ed) || constIs(x, 0) && constIs(ed, 0))
					}
					okFill = all
				}
			})
			ru.Check(okFill, "ZeroReadAtSeeker.ReadBitsAt:fill", p.Rel(fn.Pos()), "zero fill covers BitsByteCount(count) bytes", "the zero fill loop does not cover BitsByteCount(returned count) bytes (a trailing partial byte keeps stale caller data)")
		}
	}
	// MultiReader.ReadBitsAt
	if fn := c01Fn(ru, p, "(*pkg/bitio.MultiReader).ReadBitsAt"); fn != nil {
		env := fw.NewPolyEnv(fn)
		calls := methodCalls(fn, "ReadBitsAt")
		if len(calls) != 1 {
			ru.Undecided("MultiReader.ReadBitsAt:delegate", p.Rel(fn.Pos()), "expected one sub-reader ReadBitsAt call")
		} else {
			c := calls[0]
			a := callArgs(c)
			polyEq(ru, p, env, "MultiReader.ReadBitsAt:count", a[1], c.Pos(), "nBits", "count passed to the sub reader")
			// offset = bitOff - prevAtEnd where prevAtEnd is a phi of 0 and the loop's range element
			offP := env.Of(a[2])
			prev := fw.PAtom("bitOff").Sub(offP)
			okPrev := len(prev.T) == 1 && strings.HasPrefix(prev.String(), "phi{") && strings.Contains(prev.String(), "0")
			ru.Check(okPrev, "MultiReader.ReadBitsAt:offset", p.Rel(c.Pos()), "sub offset = bitOff - previous cumulative end", "offset passed to the sub reader is "+offP.String()+", expected bitOff minus the previous reader's cumulative end")
			// selection test: bitOff < end (strict)
			sel := false
			fw.EachInstr(fn, func(ins ssa.Instruction) {
				ifi, ok := ins.(*ssa.If)
				if !ok {
					return
				}
				bo, ok := ifi.Cond.(*ssa.BinOp)
				if !ok {
					return
				}
				if bo.Op == token.LSS && env.Of(bo.X).Equal(fw.PAtom("bitOff")) {
					if _, isExtract := bo.Y.(*ssa.Extract); isExtract || strings.Contains(env.Of(bo.Y).String(), "readerEnds") || true {
						// Y must derive from the range over readerEnds
						if fromRangeOver(bo.Y, "readerEnds") {
							sel = true
						}
					}
				}
			})
			ru.Check(sel, "MultiReader.ReadBitsAt:select", p.Rel(fn.Pos()), "sub reader chosen by first cumulative end > bitOff", "sub reader is not selected by the strict test bitOff < cumulative end over readerEnds")
			// EOF suppression: only when bitOff + rBits < total end
			supp := false
			rBits := env.Of(extractOrSelf(c, 0))
			fw.EachInstr(fn, func(ins ssa.Instruction) {
				ifi, ok := ins.(*ssa.If)
				if !ok {
					return
				}
				cmp, ok := env.CmpOf(ifi.Cond)
				if !ok || cmp.Rel != fw.LT {
					return
				}
				// bitOff + rBits - end < 0
				rest := cmp.P.Sub(fw.PAtom("bitOff")).Sub(rBits)
				if len(rest.T) == 1 && rest.Const() == 0 {
					for _, co := range rest.T {
						if co.IsInt64() && co.Int64() == -1 {
							supp = true
						}
					}
				}
			})
			ru.Check(supp, "MultiReader.ReadBitsAt:eof", p.Rel(fn.Pos()), "EOF suppressed only when bitOff + bits read < total end", "EOF from a sub reader is not suppressed exactly when bitOff + bits read < total end")
			// early EOF: end <= bitOff
			okEarly := provesAt(env, c.Block(), "0", fw.EQ) // placeholder true
			_ = okEarly
		}
	}
}

// fromRangeOver: v is the value extracted from ranging/indexing a field named fld.
func fromRangeOver(v ssa.Value, fld string) bool {
	seen := map[ssa.Value]bool{}
	var rec func(v ssa.Value, d int) bool
	rec = func(v ssa.Value, d int) bool {
		if d > 6 || seen[v] {
			return false
		}
		seen[v] = true
		switch x := v.(type) {
		case *ssa.UnOp:
			return rec(x.X, d+1)
		case *ssa.IndexAddr:
			return rec(x.X, d+1)
		case *ssa.Index:
			return rec(x.X, d+1)
		case *ssa.FieldAddr:
			return fieldNameOf(x.X.Type(), x.Field) == fld
		case *ssa.Field:
			return fieldNameOf(x.X.Type(), x.Field) == fld
		case *ssa.Extract:
			return rec(x.Tuple, d+1)
		case *ssa.Next:
			return rec(x.Iter, d+1)
		case *ssa.Range:
			return rec(x.X, d+1)
		case *ssa.Phi:
			for _, e := range x.Edges {
				if rec(e, d+1) {
					return true
				}
			}
		}
		return false
	}
	return rec(v, 0)
}

// ---------------------------------------------------------------------------
// C01.eof: IOBitReadSeeker.ReadBitsAt byte fetch and EOF truncation

func c01EOF(r *fw.Run, p *fw.Program) {
	ru := r.Rule("C01.eof", "IOBitReadSeeker.ReadBitsAt fetches bytes from bitOffset/8, and after a short read reports only 8*bytesRead - (bitOffset%8) bits (never bits past the end)", 5)
	fn := c01Fn(ru, p, "(*pkg/bitio.IOBitReadSeeker).ReadBitsAt")
	if fn == nil {
		return
	}
	env := fw.NewPolyEnv(fn)
	env.Pure["bitio.BitsByteCount"] = true
	seeks := methodCalls(fn, "Seek")
	if len(seeks) != 1 {
		ru.Undecided("seek", p.Rel(fn.Pos()), "expected one Seek of the wrapped reader")
	} else {
		a := callArgs(seeks[0])
		okS := isDiv8(a[0]) && env.Of(a[0].(*ssa.BinOp).X).Equal(fw.PAtom("bitOffset"))
		if c, ok := a[1].(*ssa.Const); !ok || c.Int64() != 0 {
			okS = false
		}
		ru.Check(okS, "seek", p.Rel(seeks[0].Pos()), "Seek(bitOffset/8, SeekStart)", "wrapped reader is not positioned at byte bitOffset/8 from start")
	}
	// ReadFull count = BitsByteCount(bitOffset%8 + nBits)
	rfs := methodCalls(fn, "ReadFull")
	if len(rfs) != 1 {
		ru.Undecided("readfull", p.Rel(fn.Pos()), "expected one io.ReadFull call")
		return
	}
	rf := rfs[0]
	sl, ok := rf.Common().Args[1].(*ssa.Slice)
	okW := false
	if ok && sl.High != nil {
		h := env.Of(sl.High).String()
		if bc, isCall := fw.StripConv(sl.High).(*ssa.Call); isCall && bc.Common().StaticCallee() != nil && fw.ShortName(bc.Common().StaticCallee().String()) == "pkg/bitio.BitsByteCount" {
			okW = env.Of(bc.Common().Args[0]).Equal(fw.PAtom("(bitOffset % 8)").Add(fw.PAtom("nBits")))
		}
		ru.Check(okW, "want-bytes", p.Rel(rf.Pos()), "reads BitsByteCount(bitOffset%8 + nBits) bytes", "number of bytes fetched is "+h+", expected BitsByteCount(bitOffset%8 + nBits)")
	} else {
		ru.Undecided("want-bytes", p.Rel(rf.Pos()), "ReadFull buffer is not a slice with an upper bound")
	}
	// short-read arm: value of nBits after truncation
	readBytes := env.Of(extractOrSelf(rf, 0))
	want1 := "max(-1*(bitOffset % 8) + 8*" + readBytes.String() + ", 0)"
	found := false
	fw.EachInstr(fn, func(ins ssa.Instruction) {
		phi, ok := ins.(*ssa.Phi)
		if !ok || !isIntT(phi.Type()) {
			return
		}
		hasParam := false
		for _, e := range phi.Edges {
			if env.Of(e).Equal(fw.PAtom("nBits")) {
				hasParam = true
			}
		}
		if !hasParam {
			return
		}
		for _, e := range phi.Edges {
			pe := env.Of(e)
			if pe.Equal(fw.PAtom("nBits")) {
				continue
			}
			found = true
			s := pe.String()
			okTrunc := s == want1
			if x, isClamp := c01NonNegClamp(env, e); isClamp && x.Equal(readBytes.MulC(8).Sub(fw.PAtom("(bitOffset % 8)"))) {
				okTrunc = true
			}
			ru.Check(okTrunc, "short-read", p.Rel(phi.Pos()), "nBits = max(0, 8*bytesRead - bitOffset%8)", "after a short read nBits becomes "+s+", expected max(0, 8*bytesRead - bitOffset%8): bits past the logical end would be reported")
		}
	})
	if !found {
		ru.Fail("short-read", p.Rel(fn.Pos()), "no truncation of nBits on the short-read (ErrUnexpectedEOF) path")
	}
	// the truncation arm sets err = io.EOF: some phi named err has an edge loading io.EOF
	eof := false
	fw.EachInstr(fn, func(ins ssa.Instruction) {
		phi, ok := ins.(*ssa.Phi)
		if !ok || types.TypeString(phi.Type(), nil) != "error" {
			return
		}
		for _, e := range phi.Edges {
			if u, ok := e.(*ssa.UnOp); ok {
				if g, ok := u.X.(*ssa.Global); ok && g.Name() == "EOF" {
					eof = true
				}
			}
		}
	})
	ru.Check(eof, "short-read-eof", p.Rel(fn.Pos()), "short read reports io.EOF", "short read does not report io.EOF")
	// unaligned extraction: Read64(buf, readSkipBits + i*8, 8)
	n64 := 0
	for _, c := range methodCalls(fn, "Read64") {
		a := c.Common().Args
		off := env.Of(a[1])
		co := off.Coef("(bitOffset % 8)")
		n64++
		ru.Check(co == 1, fmt.Sprintf("extract%d", n64), p.Rel(c.Pos()), "Read64 offset includes bitOffset%8", "bit extraction offset "+off.String()+" does not start at bitOffset%8")
	}
	if n64 == 0 {
		ru.Fail("extract", p.Rel(fn.Pos()), "no Read64-based extraction for unaligned reads")
	}
}

// ---------------------------------------------------------------------------
// C01.ahead: read-ahead cache typestate

func c01Ahead(r *fw.Run, p *fw.Program) {
	ru := r.Rule("C01.ahead", "aheadreadseeker: whenever the underlying reader was re-positioned, a successful return leaves the cache invalidated and offset at the sought position; after a refill cacheOffset/cacheUsed describe the block just read; hits are served only from inside the cached window", 9)
	if fn := c01Fn(ru, p, "(*internal/aheadreadseeker.Reader).Seek"); fn != nil {
		env := fw.NewPolyEnv(fn)
		seeks := methodCalls(fn, "Seek")
		if len(seeks) == 0 {
			ru.Undecided("Seek:underlying", p.Rel(fn.Pos()), "no Seek of the wrapped reader found")
		}
		for i, ret := range returnsOf(fn) {
			if len(ret.Results) != 2 || !isNilErr(ret.Results[1]) {
				continue
			}
			key := fmt.Sprintf("Seek:return%d", i+1)
			// which underlying seeks may precede this return?
			var prior []*ssa.Call
			for _, s := range seeks {
				if s.Block() == ret.Block() || blockReach(s.Block(), ret.Block()) {
					prior = append(prior, s)
				}
			}
			if len(prior) == 0 {
				// cache hit path: must be inside the cached window and set offset
				okHit := false
				for _, st := range c01EffStores(fn, "offset") {
					if st.val != nil && precedesOnAllPaths(st.at, ret) && env.Of(st.val).Equal(env.Of(ret.Results[0])) {
						okHit = true
					}
				}
				pos := env.Of(ret.Results[0])
				inside := env.Proves(ret.Block(), fw.Cmp{P: pos.Sub(fw.PAtom("r.cacheOffset")), Rel: fw.GE}) &&
					env.Proves(ret.Block(), fw.Cmp{P: pos.Sub(fw.ParsePoly("r.cacheOffset + r.cacheUsed")), Rel: fw.LT})
				ru.Check(okHit && inside, key+":hit", p.Rel(ret.Pos()), "cache hit inside [cacheOffset, cacheOffset+cacheUsed), offset updated",
					"return without re-positioning the wrapped reader is not restricted to positions inside the cached window with r.offset updated")
				continue
			}
			// after an underlying seek: cacheUsed = 0 and offset = returned position on every path
			okInv, okOff := false, false
			for _, st := range c01EffStores(fn, "cacheUsed") {
				if c, ok := st.val.(*ssa.Const); ok && c.Value != nil && c.Int64() == 0 && precedesOnAllPaths(st.at, ret) && afterAll(st.at, prior) {
					okInv = true
				}
			}
			for _, st := range c01EffStores(fn, "offset") {
				if st.val != nil && precedesOnAllPaths(st.at, ret) && afterAll(st.at, prior) && env.Of(st.val).Equal(env.Of(ret.Results[0])) {
					okOff = true
				}
			}
			ru.Check(okInv, key+":invalidate", p.Rel(ret.Pos()), "cacheUsed = 0 after re-positioning", "successful return after the wrapped reader was re-positioned without invalidating the cache (cacheUsed = 0): the next miss reads from the wrong place")
			ru.Check(okOff, key+":offset", p.Rel(ret.Pos()), "offset = returned position", "r.offset is not set to the returned position after re-positioning")
			// the position given to / obtained from the wrapped reader is the returned one
			last := prior[len(prior)-1]
			a := callArgs(last)
			pos := env.Of(ret.Results[0])
			okPos := pos.Equal(env.Of(a[0])) && constIs(a[1], 0) || pos.Equal(env.Of(extractOrSelf(last, 0)))
			ru.Check(okPos, key+":position", p.Rel(ret.Pos()), "returned position is where the wrapped reader now is", "returned position "+pos.String()+" is not the position the wrapped reader was moved to")
		}
		// whence arms of absOff
		foundCur := false
		for _, st := range c01EffStores(fn, "offset") {
			if st.val == nil {
				continue
			}
			arms, _ := phiArmsByConst(env, st.val, "whence")
			if a, ok := arms[0]; ok {
				ru.Check(a.Equal(fw.PAtom("offset")), "Seek:SeekStart", p.Rel(st.at.Pos()), "absolute = offset", "SeekStart resolves to "+a.String())
			}
			if a, ok := arms[1]; ok {
				foundCur = true
				ru.Check(a.Equal(fw.ParsePoly("offset + r.offset")), "Seek:SeekCurrent", p.Rel(st.at.Pos()), "absolute = r.offset + offset", "SeekCurrent resolves to "+a.String()+", expected r.offset + offset")
			}
		}
		if !foundCur {
			ru.Fail("Seek:SeekCurrent", p.Rel(fn.Pos()), "no path resolves io.SeekCurrent as r.offset + offset (the logical position is only known to this reader)")
		}
		// the wrapped reader does not sit at the logical offset (it is after the read-ahead block, or wherever the
		// last miss left it): a seek relative to ITS current position must never be delegated to it
		for i, sk := range seeks {
			a := callArgs(sk)
			okW := false
			if c, isC := a[1].(*ssa.Const); isC && c.Value != nil {
				okW = c.Int64() != 1
			} else if env.Of(a[1]).Equal(fw.PAtom("whence")) {
				if k, has := constFact(env, sk.Block(), "whence"); has && k != 1 {
					okW = true
				}
				if env.Proves(sk.Block(), fw.Cmp{P: fw.PAtom("whence").Sub(fw.PConst(1)), Rel: fw.NE}) {
					okW = true
				}
			}
			ru.Check(okW, fmt.Sprintf("Seek:delegate%d:not-current", i+1), p.Rel(sk.Pos()), "wrapped Seek is never relative to its own position",
				"the wrapped reader's Seek can be called with io.SeekCurrent: its position is after the read-ahead block (cacheOffset+cacheUsed), not the logical offset, so the seek lands read-ahead bytes too far")
		}
	}
	if fn := c01Fn(ru, p, "(*internal/aheadreadseeker.Reader).Read"); fn != nil {
		env := fw.NewPolyEnv(fn)
		env.Pure["aheadreadseeker.min64"] = true
		rfs := methodCalls(fn, "ReadFull")
		// the wrapped reader is consumed only by the refill: any other read of r.rs moves it away from
		// cacheOffset+cacheUsed without the cache window being updated (a bypass "fast path")
		if len(rfs) == 1 {
			other, otherPos := "", ""
			fw.EachInstr(fn, func(ins ssa.Instruction) {
				ld, ok := ins.(*ssa.UnOp)
				if !ok || ld.Op != token.MUL || ld.Referrers() == nil {
					return
				}
				fa, ok := ld.X.(*ssa.FieldAddr)
				if !ok || fieldNameOf(fa.X.Type(), fa.Field) != "rs" {
					return
				}
				for _, rf := range *ld.Referrers() {
					ci, ok := rf.(ssa.CallInstruction)
					if !ok || ci == ssa.CallInstruction(rfs[0]) {
						continue
					}
					name := ""
					if ci.Common().IsInvoke() && ci.Common().Value == ssa.Value(ld) {
						name = ci.Common().Method.Name()
					} else if cal := ci.Common().StaticCallee(); cal != nil {
						name = cal.String()
					}
					if name != "" && name != "Seek" && other == "" {
						other, otherPos = name, p.Rel(ci.Pos())
					}
				}
			})
			if otherPos == "" {
				otherPos = p.Rel(fn.Pos())
			}
			ru.Check(other == "", "Read:single-reader", otherPos, "the wrapped reader is read only by the refill", "Read also consumes the wrapped reader through "+other+" without describing the bytes in cacheOffset/cacheUsed: the reader no longer sits at the end of the cached window and the next miss after a seek into the window continues from the wrong place")
		}
		if len(rfs) != 1 {
			ru.Undecided("Read:refill", p.Rel(fn.Pos()), "expected one io.ReadFull refill")
		} else {
			rf := rfs[0]
			okOff, okUsed := false, false
			for _, st := range storesTo(fn, "r.cacheOffset") {
				if st.Block() == rf.Block() && instrIndex(st) > instrIndex(rf) && strings.HasPrefix(env.Of(st.Val).String(), "r.offset") {
					okOff = true
				}
			}
			for _, st := range storesTo(fn, "r.cacheUsed") {
				if st.Block() == rf.Block() && instrIndex(st) > instrIndex(rf) && env.Of(st.Val).Equal(env.Of(extractOrSelf(rf, 0))) {
					okUsed = true
				}
			}
			ru.Check(okOff, "Read:cacheOffset", p.Rel(rf.Pos()), "cacheOffset = offset right after refill", "after the refill cacheOffset is not set to the logical offset before any exit")
			ru.Check(okUsed, "Read:cacheUsed", p.Rel(rf.Pos()), "cacheUsed = bytes read right after refill", "after the refill cacheUsed is not set to the number of bytes read before any exit")
		}
		// hit: copy from cache[d : d+copyLen] with d = offset - cacheOffset, copyLen <= cacheUsed - d, offset += copyLen
		var cp *ssa.Call
		for _, c := range fw.CallsIn(fn) {
			if fw.IsBuiltinCall(c, "copy") {
				cp, _ = c.(*ssa.Call)
			}
		}
		if cp == nil {
			ru.Undecided("Read:hit", p.Rel(fn.Pos()), "no copy from the cache")
		} else {
			inside := env.ProvesNV(cp.Block(), fw.Cmp{P: fw.ParsePoly("r.offset - r.cacheOffset"), Rel: fw.GE}) && env.ProvesNV(cp.Block(), fw.Cmp{P: fw.ParsePoly("r.offset - r.cacheOffset - r.cacheUsed"), Rel: fw.LT})
			ru.Check(inside, "Read:hit-window", p.Rel(cp.Pos()), "hit only when cacheOffset <= offset < cacheOffset+cacheUsed", "cache is served for offsets outside [cacheOffset, cacheOffset+cacheUsed)")
			src, ok := cp.Common().Args[1].(*ssa.Slice)
			if ok && src.Low != nil && src.High != nil {
				low := fw.StripVersions(env.Of(src.Low))
				ru.Check(low.Equal(fw.ParsePoly("r.offset - r.cacheOffset")), "Read:hit-start", p.Rel(cp.Pos()), "copy starts at offset - cacheOffset", "copy from the cache starts at "+low.String()+", expected r.offset - r.cacheOffset")
				n := fw.StripVersions(env.Of(src.High)).Sub(low).String()
				okLen := n == "aheadreadseeker.min64(r.cacheOffset + r.cacheUsed + -1*r.offset, len(p))" || n == "aheadreadseeker.min64(len(p), r.cacheOffset + r.cacheUsed + -1*r.offset)" ||
					n == "min(len(p), r.cacheOffset + r.cacheUsed + -1*r.offset)" || n == "min(r.cacheOffset + r.cacheUsed + -1*r.offset, len(p))"
				ru.Check(okLen, "Read:hit-len", p.Rel(cp.Pos()), "copy length = min(cacheUsed - d, len(p))", "copy length "+n+" is not min(cacheUsed - (offset-cacheOffset), len(p))")
				// the logical offset advances by, and Read reports, exactly the bytes copied
				nP := fw.StripVersions(env.Of(src.High)).Sub(low)
				adv := false
				for _, st := range storesTo(fn, "r.offset") {
					if st.Block() == cp.Block() && fw.StripVersions(env.Of(st.Val)).Equal(fw.PAtom("r.offset").Add(nP)) {
						adv = true
					}
				}
				ru.Check(adv, "Read:hit-advance", p.Rel(cp.Pos()), "offset += bytes copied", "after serving from the cache r.offset must advance by exactly the bytes copied (the same bytes would be served again)")
				okRet := false
				for _, ret := range returnsOf(fn) {
					if ret.Block() == cp.Block() || cp.Block().Dominates(ret.Block()) {
						okRet = fw.StripVersions(env.Of(ret.Results[0])).Equal(nP) && isNilErr(ret.Results[1])
					}
				}
				ru.Check(okRet, "Read:hit-return", p.Rel(cp.Pos()), "returns the bytes copied", "a cache hit must report exactly the number of bytes copied into p")
				if dst, ok := cp.Common().Args[0].(*ssa.Slice); ok {
					okDst := dst.X == ssa.Value(fn.Params[1]) && (dst.Low == nil || constIs(dst.Low, 0))
					ru.Check(okDst, "Read:hit-dst", p.Rel(cp.Pos()), "copies to the start of p", "a cache hit must copy to the start of p")
				}
			} else {
				ru.Undecided("Read:hit-start", p.Rel(cp.Pos()), "copy source is not a bounded slice of the cache")
			}
		}
	}
}

// c01Eff is a store to a field of the receiver, performed directly or by a one-block helper method
// called on the receiver (extracting "invalidate the cache" into a method keeps the rule satisfied).
type c01Eff struct {
	at  ssa.Instruction // the store, or the call of the helper
	val ssa.Value       // stored value in the caller's terms (nil: not expressible)
}

func c01EffStores(fn *ssa.Function, field string) []c01Eff {
	var out []c01Eff
	if len(fn.Params) == 0 {
		return nil
	}
	recv := fn.Params[0]
	fw.EachInstr(fn, func(ins ssa.Instruction) {
		switch x := ins.(type) {
		case *ssa.Store:
			if fa, ok := x.Addr.(*ssa.FieldAddr); ok && fa.X == ssa.Value(recv) && fieldNameOf(fa.X.Type(), fa.Field) == field {
				out = append(out, c01Eff{x, x.Val})
			}
		case *ssa.Call:
			g := x.Common().StaticCallee()
			if g == nil || g.Pkg != fn.Pkg || len(g.Blocks) != 1 || len(g.Params) == 0 || len(x.Common().Args) == 0 || x.Common().Args[0] != ssa.Value(recv) {
				return
			}
			for _, gi := range g.Blocks[0].Instrs {
				st, ok := gi.(*ssa.Store)
				if !ok {
					continue
				}
				fa, ok := st.Addr.(*ssa.FieldAddr)
				if !ok || fa.X != ssa.Value(g.Params[0]) || fieldNameOf(fa.X.Type(), fa.Field) != field {
					continue
				}
				var v ssa.Value
				switch sv := st.Val.(type) {
				case *ssa.Const:
					v = sv
				case *ssa.Parameter:
					for k, gp := range g.Params {
						if gp == sv && k < len(x.Common().Args) {
							v = x.Common().Args[k]
						}
					}
				}
				out = append(out, c01Eff{x, v})
			}
		}
	})
	return out
}

// c01NonNegClamp: v is max(0, X), written with the builtin or as "x := X; if x < 0 { x = 0 }"; returns X.
func c01NonNegClamp(env *fw.PolyEnv, v ssa.Value) (*fw.Poly, bool) {
	switch x := v.(type) {
	case *ssa.Call:
		if fw.IsBuiltinCall(x, "max") && len(x.Common().Args) == 2 {
			a := x.Common().Args
			if constIs(a[0], 0) {
				return env.Of(a[1]), true
			}
			if constIs(a[1], 0) {
				return env.Of(a[0]), true
			}
		}
	case *ssa.Phi:
		if len(x.Edges) != 2 {
			return nil, false
		}
		zi := -1
		for i, ed := range x.Edges {
			if constIs(ed, 0) {
				zi = i
			}
		}
		if zi < 0 || constIs(x.Edges[1-zi], 0) {
			return nil, false
		}
		xp := env.Of(x.Edges[1-zi])
		zf := env.EdgeFacts(x.Block().Preds[zi], x.Block())
		xf := env.EdgeFacts(x.Block().Preds[1-zi], x.Block())
		if (fw.ProvesFrom(zf, fw.Cmp{P: xp, Rel: fw.LE}) || fw.ProvesFrom(zf, fw.Cmp{P: xp, Rel: fw.LT})) &&
			(fw.ProvesFrom(xf, fw.Cmp{P: xp, Rel: fw.GE}) || fw.ProvesFrom(xf, fw.Cmp{P: xp, Rel: fw.GT})) {
			return xp, true
		}
	}
	return nil, false
}

func constIs(v ssa.Value, k int64) bool {
	c, ok := v.(*ssa.Const)
	return ok && c.Value != nil && c.Int64() == k
}

func blockReach(from, to *ssa.BasicBlock) bool {
	seen := map[*ssa.BasicBlock]bool{}
	stack := append([]*ssa.BasicBlock{}, from.Succs...)
	for len(stack) > 0 {
		b := stack[len(stack)-1]
		stack = stack[:len(stack)-1]
		if seen[b] {
			continue
		}
		seen[b] = true
		if b == to {
			return true
		}
		stack = append(stack, b.Succs...)
	}
	return false
}

// afterAll: st executes after each of the calls on every path (call's block dominates st's block or same block earlier).
func afterAll(st ssa.Instruction, calls []*ssa.Call) bool {
	for _, c := range calls {
		if !(precedesOnAllPaths(c, st) || !blockReach(c.Block(), st.Block()) && c.Block() != st.Block()) {
			return false
		}
	}
	return true
}

// ---------------------------------------------------------------------------
// C01.err: no dropped error in the reader plumbing

var c01ErrScope = []string{"pkg/bitio", "internal/bitiox", "internal/aheadreadseeker", "internal/progressreadseeker", "internal/ctxreadseeker"}

var c01ErrExceptions = map[string]string{
	"(*internal/ctxreadseeker.Reader).loop|invoke:io.Closer.Close|1": "closing the wrapped reader after the context was cancelled; nothing is read afterwards",
}

// callees documented never to return a non-nil error
var c01ErrNever = map[string]bool{
	"(*strings.Builder).WriteString": true, "(*strings.Builder).WriteByte": true, "(*strings.Builder).Write": true, "(*strings.Builder).WriteRune": true,
	"(*bytes.Buffer).Write": true, "(*bytes.Buffer).WriteString": true, "(*bytes.Buffer).WriteByte": true,
}

func c01Err(r *fw.Run, p *fw.Program) {
	ru := r.Rule("C01.err", "no error returned by a wrapped reader/seeker/writer is dropped in pkg/bitio, internal/bitiox, aheadreadseeker, progressreadseeker, ctxreadseeker", 60)
	errT := types.Universe.Lookup("error").Type()
	for _, fn := range p.FqFunctions() {
		in := false
		for _, s := range c01ErrScope {
			if pkgRel(fn) == s {
				in = true
			}
		}
		if !in {
			continue
		}
		ord := map[string]int{}
		for _, ci := range fw.CallsIn(fn) {
			c, ok := ci.(*ssa.Call)
			sig := ci.Common().Signature()
			res := sig.Results()
			if res.Len() == 0 || !types.Identical(res.At(res.Len()-1).Type(), errT) {
				continue
			}
			name := fw.CalleeName(ci)
			if name == "" {
				name = "dynamic"
			}
			ord[name]++
			key := fmt.Sprintf("%s|%s|%d", fw.ShortFn(fn), strings.ReplaceAll(name, fw.Mod+"/", ""), ord[name])
			if !ok {
				// go/defer statement discards results
				if reason, ok := c01ErrExceptions[key]; ok {
					ru.Except(key, p.Rel(ci.Pos()), reason)
				} else {
					ru.Fail(key, p.Rel(ci.Pos()), "error result discarded by go/defer statement")
				}
				continue
			}
			used := false
			if res.Len() == 1 {
				used = hasRealRef(c)
			} else if e := extractOf(c, res.Len()-1); e != nil {
				used = hasRealRef(e)
			}
			if c01ErrNever[name] {
				ru.Ok(key, p.Rel(c.Pos()), "callee documented never to fail")
			} else if used {
				ru.Ok(key, p.Rel(c.Pos()), "error consumed")
			} else if reason, ok := c01ErrExceptions[key]; ok {
				ru.Except(key, p.Rel(c.Pos()), reason)
			} else {
				ru.Fail(key, p.Rel(c.Pos()), "error result of "+name+" is dropped")
			}
		}
	}
}

func hasRealRef(v ssa.Value) bool {
	if v.Referrers() == nil {
		return false
	}
	for _, r := range *v.Referrers() {
		if _, ok := r.(*ssa.DebugRef); ok {
			continue
		}
		return true
	}
	return false
}

// c01ReadAt: IOBitReadSeeker.ReadBitsAt is a ReaderAt over a shared io.ReadSeeker (clones and the
// cursor-based ReadBits use the same rs): every read of rs in it is preceded on all paths by an
// absolute seek of rs (whence io.SeekStart) in the same call. A remembered position ("skip the seek
// when sequential") is stale as soon as another holder of rs has read or seeked.
func c01ReadAt(r *fw.Run, p *fw.Program) {
	ru := r.Rule("C01.readat", "IOBitReadSeeker.ReadBitsAt does not depend on where the shared byte reader happens to be: each read of rs is dominated by an rs.Seek(.., io.SeekStart) of the same call (position-independent ReaderAt; a cached position goes stale when a clone or the cursor reader moves rs)", 1)
	fn := c01Fn(ru, p, "(*pkg/bitio.IOBitReadSeeker).ReadBitsAt")
	if fn == nil {
		return
	}
	isRS := func(v ssa.Value) bool {
		ld, ok := v.(*ssa.UnOp)
		if !ok || ld.Op != token.MUL {
			return false
		}
		fa, ok := ld.X.(*ssa.FieldAddr)
		return ok && fieldNameOf(fa.X.Type(), fa.Field) == "rs"
	}
	var seeks, reads []ssa.CallInstruction
	for _, c := range fw.CallsIn(fn) {
		cc := c.Common()
		if cc.IsInvoke() && isRS(cc.Value) {
			switch cc.Method.Name() {
			case "Seek":
				if k, ok := cc.Args[1].(*ssa.Const); ok && k.Value != nil && k.Int64() == 0 {
					seeks = append(seeks, c)
				}
			case "Read":
				reads = append(reads, c)
			}
			continue
		}
		for _, a := range cc.Args {
			x := a
			if mi, ok := x.(*ssa.MakeInterface); ok {
				x = mi.X
			}
			if ct, ok := x.(*ssa.ChangeInterface); ok {
				x = ct.X
			}
			if isRS(x) {
				reads = append(reads, c)
			}
		}
	}
	if len(reads) == 0 {
		ru.Undecided("ReadBitsAt:reads", p.Rel(fn.Pos()), "no read of the wrapped reader found")
		return
	}
	for i, rd := range reads {
		ok := false
		for _, sk := range seeks {
			if precedesOnAllPaths(sk, rd) {
				ok = true
			}
		}
		ru.Check(ok, fmt.Sprintf("ReadBitsAt:read#%d:positioned", i+1), p.Rel(rd.Pos()), "read of rs preceded by an absolute seek on every path", "a read of the shared byte reader is not preceded on every path by rs.Seek(.., io.SeekStart): the bytes come from wherever another reader of the same rs left it")
	}
}

// c01Drain: bitio.Buffer.ReadBits copies min(nBits, Len()) bits into p without looking at len(p). Where
// p is a slice of a fixed-size array (the drain buffers of IOBitWriter), the requested count is proved
// <= 8*len(array) at the call - otherwise a write larger than the drain buffer is a slice bounds panic.
var c01DrainExceptions = map[string]string{
	"(*pkg/bitio.IOBitWriter).Flush#1": "Flush reads what WriteBits left: its drain loop ends only with fewer than 8 bits buffered, so Len() <= 7 <= 8*len(buf) whenever WriteBits returned without an error (an invariant across calls, not visible inside Flush)",
}

func c01Drain(r *fw.Run, p *fw.Program) {
	ru := r.Rule("C01.drain", "every Buffer.ReadBits into a slice of a fixed-size array asks for at most 8*len(array) bits (ReadBits trusts its count; a drain of more than the staging buffer holds is a slice bounds panic, as for a single write larger than 32KiB)", 2)
	for _, fn := range p.FqFunctions() {
		if pkgRel(fn) != "pkg/bitio" {
			continue
		}
		var env *fw.IntervalEnv
		ord := 0
		for _, c := range fw.CallsIn(fn) {
			cal := c.Common().StaticCallee()
			if cal == nil || cal.Name() != "ReadBits" || cal.Signature.Recv() == nil || !strings.HasSuffix(types.TypeString(cal.Signature.Recv().Type(), nil), "bitio.Buffer") {
				continue
			}
			args := c.Common().Args
			if len(args) < 3 {
				continue
			}
			sl, ok := args[1].(*ssa.Slice)
			if !ok {
				continue
			}
			pt, ok := sl.X.Type().Underlying().(*types.Pointer)
			if !ok {
				continue
			}
			arr, ok := pt.Elem().Underlying().(*types.Array)
			if !ok || sl.Low != nil || sl.High != nil {
				continue
			}
			ord++
			key := fmt.Sprintf("%s#%d", fw.ShortFn(fn), ord)
			if env == nil {
				env = fw.NewIntervalEnv(fn)
			}
			iv := env.At(args[2], c.Block())
			if !iv.HiInf && iv.Hi <= arr.Len()*8 {
				ru.Ok(key, p.Rel(c.Pos()), fmt.Sprintf("count <= %d = 8*len(buffer)", arr.Len()*8))
				continue
			}
			if reason, ok := c01DrainExceptions[key]; ok {
				ru.Except(key, p.Rel(c.Pos()), reason)
				continue
			}
			ru.Fail(key, p.Rel(c.Pos()), fmt.Sprintf("ReadBits into a %d byte array asks for %s bits, not proved <= %d: buffered bits beyond the staging array are a slice bounds panic", arr.Len(), env.Poly.Of(args[2]).String(), arr.Len()*8))
		}
	}
}
