package rules

// C20.stack, second part: helpers added by the mutation self-review.
//
//   - Push: the context handed back to the evaluation and the cancel function put on the stack
//     come from ONE context.With* call (else an interrupt cancels a context nobody runs under),
//     and that context descends from Push's parent parameter.
//   - pop: some loop visits EVERY index own..len-1 (the called element follows the loop variable).
//   - the non-empty test of the trigger goroutine may be written len != 0.
//   - the already-popped flag may be set after the effects it guards (same critical section).

import (
	"go/types"

	"golang.org/x/tools/go/ssa"

	"fqverif/fw"
)

// c20LenNonZero: a dominating fact says len(cancelFns) != 0; with len >= 0 that is len-1 >= 0.
func c20LenNonZero(info *c20idx, b *ssa.BasicBlock) bool {
	if info.len == nil {
		return false
	}
	for _, f := range info.env.Facts(b) {
		if f.Rel == fw.NE && (f.P.Equal(info.len) || f.P.Neg().Equal(info.len)) {
			return true
		}
	}
	return false
}

// c20FollowedBy: every path from e to a return of its function executes st.
func c20FollowedBy(e, st ssa.Instruction, isRecover func(ssa.Instruction) bool) bool {
	if e.Parent() != st.Parent() {
		return false
	}
	n := 0
	for _, ret := range returnsOf(e.Parent()) {
		if isRecover(ret) {
			continue
		}
		n++
		if fw.InstrReach(e, ret, st) {
			return false
		}
	}
	return n > 0
}

// c20CtxWith: v is (after resolving cells / conversions) result #idx of a call of a
// context.With* function (not WithoutCancel): returns the call.
func c20CtxWith(v ssa.Value, idx int) *ssa.Call {
	ex, ok := fw.C20Resolve(v).(*ssa.Extract)
	if !ok || ex.Index != idx {
		return nil
	}
	call, ok := ex.Tuple.(*ssa.Call)
	if !ok {
		return nil
	}
	f := call.Common().StaticCallee()
	if f == nil || f.Pkg == nil || f.Pkg.Pkg.Path() != "context" || len(f.Name()) < 4 || f.Name()[:4] != "With" || f.Name() == "WithoutCancel" {
		return nil
	}
	return call
}

// c20CtxDerived: the context v is root, or derived from it by context.With* calls that keep
// the cancellation of the parent.
func c20CtxDerived(v ssa.Value, root func(ssa.Value) bool) bool {
	for i := 0; i < 8; i++ {
		r := fw.C20Resolve(v)
		if root(r) {
			return true
		}
		if c := c20CtxWith(r, 0); c != nil && len(c.Common().Args) > 0 {
			v = c.Common().Args[0]
			continue
		}
		if c, ok := r.(*ssa.Call); ok {
			f := c.Common().StaticCallee()
			if f != nil && f.Pkg != nil && f.Pkg.Pkg.Path() == "context" && f.Name() == "WithValue" && len(c.Common().Args) > 0 {
				v = c.Common().Args[0]
				continue
			}
		}
		return false
	}
	return false
}

func c20IsContextType(t types.Type) bool {
	n, ok := t.(*types.Named)
	return ok && n.Obj().Pkg() != nil && n.Obj().Pkg().Path() == "context" && n.Obj().Name() == "Context"
}

// c20AppendedElems lists the element values of append(<slice>, e1, e2...) stored by st.
func c20AppendedElems(st *ssa.Store) []ssa.Value {
	c, ok := st.Val.(*ssa.Call)
	if !ok || !fw.IsBuiltinCall(c, "append") || len(c.Common().Args) != 2 {
		return nil
	}
	sl, ok := c.Common().Args[1].(*ssa.Slice)
	if !ok {
		return nil
	}
	arr, ok := sl.X.(*ssa.Alloc)
	if !ok || arr.Referrers() == nil {
		return nil
	}
	var out []ssa.Value
	for _, ref := range *arr.Referrers() {
		ia, ok := ref.(*ssa.IndexAddr)
		if !ok || ia.Referrers() == nil {
			continue
		}
		for _, r2 := range *ia.Referrers() {
			if s2, ok := r2.(*ssa.Store); ok && s2.Addr == ssa.Value(ia) {
				out = append(out, s2.Val)
			}
		}
	}
	return out
}

// c20PushCtx: the returned context and the pushed cancel function belong together and descend
// from the parent.
func c20PushCtx(ru *fw.Rule, cs *c20ctx, push *ssa.Function, pushStores []*ssa.Store, isRecover func(ssa.Instruction) bool) {
	p := cs.p
	var with *ssa.Call
	bad := ""
	n := 0
	for _, ret := range returnsOf(push) {
		if isRecover(ret) || len(ret.Results) != 2 {
			continue
		}
		n++
		w := c20CtxWith(ret.Results[0], 0)
		switch {
		case w == nil:
			bad = "the context Push returns is not the context result of a context.With* call made in Push"
		case with != nil && with != w:
			bad = "Push returns contexts of different context.With* calls"
		default:
			with = w
		}
	}
	if n == 0 {
		ru.Undecided("Push:pushes the cancel of the returned context", p.Rel(push.Pos()), "Push has no return with (context, pop function)")
		return
	}
	nel := 0
	for _, st := range pushStores {
		for _, el := range c20AppendedElems(st) {
			nel++
			if w := c20CtxWith(el, 1); bad == "" && (w == nil || w != with) {
				bad = "the cancel function put on the stack does not belong to the context Push returns (they are results of different calls): the interrupt cancels a context the evaluation does not run under"
			}
		}
	}
	if nel == 0 && bad == "" {
		ru.Undecided("Push:pushes the cancel of the returned context", p.Rel(push.Pos()), "no appended cancel function found")
		return
	}
	ru.Check(bad == "", "Push:pushes the cancel of the returned context", p.Rel(push.Pos()), "ctx, cancel := context.WithCancel(..); append(cancelFns, cancel); return ctx", bad)
	if with == nil {
		return
	}
	isParent := func(v ssa.Value) bool {
		prm, ok := v.(*ssa.Parameter)
		return ok && prm.Parent() == push && c20IsContextType(prm.Type())
	}
	ok := len(with.Common().Args) > 0 && c20CtxDerived(with.Common().Args[0], isParent)
	ru.Check(ok, "Push:context derived from parent", p.Rel(with.Pos()), "context.WithCancel(parent)",
		"the pushed context is not derived from Push's parent parameter: cancelling the enclosing evaluation's context (or a completion timeout) no longer ends the nested evaluation")
}

// c20PopCancelsOwn: the pop closure calls the cancel function of its own context directly
// (the captured result of the context.With* call in Push).
func c20PopCancelsOwn(cs *c20ctx, pop *ssa.Function) bool {
	found := false
	fw.EachInstr(pop, func(ins ssa.Instruction) {
		c, ok := ins.(*ssa.Call)
		if !ok || c.Common().IsInvoke() || c.Common().StaticCallee() != nil {
			return
		}
		if w := c20CtxWith(c.Common().Value, 1); w != nil && w.Parent() == pop.Parent() {
			found = true
		}
	})
	return found
}

// c20StackWrites lists the instructions of fn, and of the functions of package ctxstack it calls
// statically (transitively), that modify the cancel-function stack: a store of the slice header
// field, or a store into one of its elements.
func c20StackWrites(cs *c20ctx, fn *ssa.Function, field int) []ssa.Instruction {
	var out []ssa.Instruction
	seen := map[*ssa.Function]bool{}
	var visit func(f *ssa.Function, depth int)
	visit = func(f *ssa.Function, depth int) {
		if f == nil || seen[f] || f.Blocks == nil || depth > 6 {
			return
		}
		seen[f] = true
		fw.EachInstr(f, func(ins ssa.Instruction) {
			switch x := ins.(type) {
			case *ssa.Store:
				switch a := x.Addr.(type) {
				case *ssa.FieldAddr:
					if cs.isStackPtr(a.X.Type()) && a.Field == field {
						out = append(out, ins)
					}
				case *ssa.IndexAddr:
					deps := map[*ssa.UnOp]bool{}
					cs.guardedLoadsIn(f, a.X, deps, map[ssa.Value]bool{})
					if len(deps) > 0 {
						out = append(out, ins)
					}
				}
			case ssa.CallInstruction:
				callee := x.Common().StaticCallee()
				if callee == nil {
					if mc, ok := fw.C20Resolve(x.Common().Value).(*ssa.MakeClosure); ok {
						callee, _ = mc.Fn.(*ssa.Function)
					}
				}
				if callee != nil && fw.FnPkgPath(callee) == c20StackPkg {
					visit(callee, depth+1)
				}
			}
		})
	}
	visit(fn, 0)
	return out
}

// c20TriggerReadOnly: membership of the stack is owned by Push and the pop closure alone. An
// evaluation the trigger goroutine has cancelled is still IN PROGRESS until its iterator
// wrapper has seen the cancellation and popped it; if the trigger goroutine removes (or
// replaces) the entry itself, the enclosing evaluation becomes the top of the stack while the
// interrupted one is still unwinding, and the next interrupt (^C hit twice, key repeat)
// cancels the enclosing evaluation.
func c20TriggerReadOnly(ru *fw.Rule, cs *c20ctx, trigger *ssa.Function, field int) {
	p := cs.p
	ws := c20StackWrites(cs, trigger, field)
	if len(ws) == 0 {
		ru.Ok("trigger:does not modify the stack", p.Rel(trigger.Pos()), "no store to cancelFns or its elements in the trigger goroutine (helpers followed)")
		return
	}
	ru.Fail("trigger:does not modify the stack", p.Rel(ws[0].Pos()), "the trigger goroutine (or a helper it calls) modifies the cancel-function stack: the evaluation it has just cancelled is still unwinding and has not popped itself, so with its entry removed or replaced a second interrupt arriving before that cancels the ENCLOSING evaluation (only Push may add and only the pop closure may remove entries)")
}
