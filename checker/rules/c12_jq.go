package rules

import (
	"regexp/syntax"
	"strings"

	"github.com/wader/gojq"

	"fqverif/fw"
)

// jq side of C12: extkey wrappers of decode.jq, _escape_ident, _is_ident, _path_to_expr,
// _expr_to_path. All decisions are taken on the gojq AST of the bundled sources; string
// literals are the parsed (unescaped) values, regexes are parsed with regexp/syntax (the engine
// gojq's test/sub use), nothing is evaluated.

func c12Unparen(q *gojq.Query) *gojq.Query {
	for q != nil && q.Term != nil && q.Left == nil && len(q.FuncDefs) == 0 &&
		q.Term.Type == gojq.TermTypeQuery && q.Term.Query != nil && len(q.Term.SuffixList) == 0 {
		q = q.Term.Query
	}
	return q
}

// c12Flatten flattens a left/right tree of one binary operator.
func c12Flatten(q *gojq.Query, op gojq.Operator) []*gojq.Query {
	q = c12Unparen(q)
	if q == nil {
		return nil
	}
	if q.Left != nil && q.Op == op && len(q.FuncDefs) == 0 {
		return append(c12Flatten(q.Left, op), c12Flatten(q.Right, op)...)
	}
	return []*gojq.Query{q}
}

// c12FieldAccess: q is exactly `.name`.
func c12FieldAccess(q *gojq.Query) (string, bool) {
	q = c12Unparen(q)
	if q == nil || q.Term == nil || q.Left != nil || len(q.FuncDefs) > 0 {
		return "", false
	}
	t := q.Term
	if t.Type == gojq.TermTypeIndex && t.Index != nil && t.Index.Name != "" && len(t.SuffixList) == 0 {
		return t.Index.Name, true
	}
	return "", false
}

func c12IsIdentity(q *gojq.Query) bool {
	q = c12Unparen(q)
	return q != nil && q.Term != nil && q.Left == nil && q.Term.Type == gojq.TermTypeIdentity && len(q.Term.SuffixList) == 0
}

// c12StrParts splits a string term into literal / interpolated parts.
type c12Part struct {
	lit   string
	query *gojq.Query
}

func c12StrParts(q *gojq.Query) ([]c12Part, bool) {
	q = c12Unparen(q)
	if q == nil || q.Term == nil || q.Left != nil || q.Term.Type != gojq.TermTypeString || q.Term.Str == nil || len(q.Term.SuffixList) > 0 {
		return nil, false
	}
	s := q.Term.Str
	if s.Queries == nil {
		return []c12Part{{lit: s.Str}}, true
	}
	var out []c12Part
	for _, e := range s.Queries {
		if e.Term != nil && e.Term.Str != nil && e.Left == nil && e.Term.Type == gojq.TermTypeString && len(e.Term.Str.Queries) == 0 {
			out = append(out, c12Part{lit: e.Term.Str.Str})
		} else {
			out = append(out, c12Part{query: e})
		}
	}
	return out, true
}

// c12ClassRunes returns the members of a (small) character class / literal regexp node.
func c12ClassRunes(re *syntax.Regexp) ([]rune, bool) {
	switch re.Op {
	case syntax.OpLiteral:
		if len(re.Rune) == 1 && re.Flags&syntax.FoldCase == 0 {
			return re.Rune, true
		}
	case syntax.OpCharClass:
		var out []rune
		for i := 0; i+1 < len(re.Rune); i += 2 {
			if re.Rune[i+1]-re.Rune[i] > 64 {
				return nil, false
			}
			for c := re.Rune[i]; c <= re.Rune[i+1]; c++ {
				out = append(out, c)
			}
		}
		return out, true
	}
	return nil, false
}

func c12ClassWithin(re *syntax.Regexp, allowed func(rune) bool) (bool, rune) {
	switch re.Op {
	case syntax.OpLiteral:
		for _, c := range re.Rune {
			if !allowed(c) || re.Flags&syntax.FoldCase != 0 {
				return false, c
			}
		}
		return true, 0
	case syntax.OpCharClass:
		for i := 0; i+1 < len(re.Rune); i += 2 {
			if re.Rune[i+1]-re.Rune[i] > 256 {
				return false, re.Rune[i]
			}
			for c := re.Rune[i]; c <= re.Rune[i+1]; c++ {
				if !allowed(c) {
					return false, c
				}
			}
		}
		return true, 0
	}
	return false, 0
}

func c12JQ(r *fw.Run, p *fw.Program) {
	jq, err := fw.LoadJQ(p.Repo)
	if err != nil {
		r.Fatal("C12: bundled jq sources: " + err.Error())
		return
	}
	c12JQKeys(r, jq)
	c12Escape(r, jq)
	c12Expr(r, jq)
}

// ---------------------------------------------------------------------------
// C12.jqkeys

func c12JQKeys(r *fw.Run, jq *fw.JQ) {
	ru := r.Rule("C12.jqkeys", "the jq navigation functions read the extkey of the same meaning: topath->._path, root->._root, buffer_root->._buffer_root, format_root->._format_root, parent->._parent, parents iterates ._parent only; _decode_value(f) evaluates f on decode values (and the error branch otherwise)", 8)
	const file = "pkg/interp/decode.jq"
	// the wrapper all of them go through
	if d := jq.Def(file, "_decode_value", 2); d == nil || len(d.Def.Args) != 2 {
		ru.Undecided("def:_decode_value/2", file, "def _decode_value/2 not found")
	} else {
		b := c12Unparen(d.Def.Body)
		good := b.Term != nil && b.Left == nil && b.Term.Type == gojq.TermTypeIf && b.Term.If != nil && len(b.Term.SuffixList) == 0
		if good {
			i := b.Term.If
			good = fw.JQIsCall(i.Cond, "_is_decode_value", 0) != nil && len(i.Elif) == 0 &&
				fw.JQIsCall(i.Then, d.Def.Args[0], 0) != nil && fw.JQIsCall(i.Else, d.Def.Args[1], 0) != nil
		}
		ru.Check(good, "def:_decode_value/2", file, "if _is_decode_value then f else ef", "_decode_value(f; ef) is not `if _is_decode_value then f else ef end` (first argument on decode values): "+fw.JQStr(d.Def.Body))
	}
	if d := jq.Def(file, "_decode_value", 1); d == nil || len(d.Def.Args) != 1 {
		ru.Undecided("def:_decode_value/1", file, "def _decode_value/1 not found")
	} else {
		call := fw.JQIsCall(d.Def.Body, "_decode_value", 2)
		ru.Check(call != nil && fw.JQIsCall(call.Args[0], d.Def.Args[0], 0) != nil, "def:_decode_value/1", file, "passes its argument as the decode-value branch", "_decode_value(f) does not pass f as the first argument of _decode_value/2: "+fw.JQStr(d.Def.Body))
	}
	for _, w := range [][2]string{{"topath", "_path"}, {"root", "_root"}, {"buffer_root", "_buffer_root"}, {"format_root", "_format_root"}, {"parent", "_parent"}} {
		d := jq.Def(file, w[0], 0)
		if d == nil {
			ru.Undecided("def:"+w[0], file, "def "+w[0]+"/0 not found")
			continue
		}
		call := fw.JQIsCall(d.Def.Body, "_decode_value", 1)
		if call == nil {
			ru.Undecided("def:"+w[0], file, "body is not _decode_value(.key): "+fw.JQStr(d.Def.Body))
			continue
		}
		k, ok := c12FieldAccess(call.Args[0])
		ru.Check(ok && k == w[1], "def:"+w[0], file, "reads ."+w[1], w[0]+" reads "+fw.JQStr(call.Args[0])+" instead of ."+w[1])
	}
	// parents: first step and every further step are ._parent
	if d := jq.Def(file, "parents", 0); d == nil {
		ru.Undecided("def:parents", file, "def parents/0 not found")
	} else {
		keys := map[string]int{}
		recurse := false
		fw.WalkJQ(d.Def.Body, func(n any) bool {
			switch x := n.(type) {
			case *gojq.Term:
				if x.Type == gojq.TermTypeIndex && x.Index != nil && strings.HasPrefix(x.Index.Name, "_") {
					keys[x.Index.Name]++
				}
			case *gojq.Func:
				if x.Name == "_recurse_break" || x.Name == "recurse" {
					recurse = true
				}
			}
			return true
		}, false)
		ru.Check(len(keys) == 1 && keys["_parent"] >= 2 && recurse, "def:parents", file, "starts at ._parent and recurses over ._parent",
			"parents must start with ._parent and recurse over ._parent only; extkeys used: "+strings.Join(fw.SortedKeys(keys), ","))
	}
}

// ---------------------------------------------------------------------------
// C12.escape

func c12Escape(r *fw.Run, jq *fw.JQ) {
	ru := r.Rule("C12.escape", "_escape_ident replaces globally every character of a class that is exactly {backslash, double quote} by backslash + that character; _is_ident accepts only ^[A-Za-z_][A-Za-z0-9_]*$", 5)
	const file = "pkg/interp/internal.jq"
	d := jq.Def(file, "_escape_ident", 0)
	if d == nil {
		ru.Undecided("_escape_ident", file, "def _escape_ident/0 not found")
	} else if call := fw.JQIsCall(d.Def.Body, "", -1); call == nil || (call.Name != "gsub" && call.Name != "sub") || len(call.Args) < 2 {
		ru.Undecided("_escape_ident", file, "body is not gsub(regex; replacement): "+fw.JQStr(d.Def.Body))
	} else {
		global := call.Name == "gsub" && len(call.Args) == 2
		if len(call.Args) == 3 {
			if fl, ok := fw.JQConstString(call.Args[2]); ok && strings.Contains(fl, "g") && !strings.ContainsAny(fl, "xi") {
				global = true
			} else if call.Name == "gsub" && ok && !strings.ContainsAny(fl, "xi") {
				global = true
			}
		}
		ru.Check(global, "_escape_ident:global", file, "gsub: every occurrence is escaped", "only the first occurrence is escaped ("+call.Name+" without the g flag)")
		reStr, ok := fw.JQConstString(call.Args[0])
		var re *syntax.Regexp
		if ok {
			var perr error
			if re, perr = syntax.Parse(reStr, syntax.Perl); perr != nil {
				ok = false
			}
		}
		if !ok {
			ru.Undecided("_escape_ident:class", file, "regex is not a constant, valid regular expression")
		} else {
			group := ""
			node := re
			if node.Op == syntax.OpCapture {
				group = node.Name
				node = node.Sub[0]
			}
			members, small := c12ClassRunes(node)
			if !small {
				ru.Fail("_escape_ident:class", file, "regex "+reStr+" is not a single small character class (in a named group)")
			} else {
				has := map[rune]bool{}
				extra := ""
				for _, c := range members {
					has[c] = true
					if c != '\\' && c != '"' && c != '/' {
						extra += string(c)
					}
				}
				switch {
				case !has['\\']:
					ru.Fail("_escape_ident:class", file, "character class of "+reStr+" lacks the backslash: a key containing \\ is emitted unescaped and is re-read as an escape sequence or interpolation")
				case !has['"']:
					ru.Fail("_escape_ident:class", file, "character class of "+reStr+" lacks the double quote: a key containing \" ends the quoted key early")
				case extra != "":
					ru.Fail("_escape_ident:class", file, "character class also escapes "+extra+": backslash + that character is not that character in a jq string")
				default:
					ru.Ok("_escape_ident:class", file, "class is {\\, \"}")
				}
			}
			// replacement: "\\" + \(.group)
			parts, ok := c12StrParts(call.Args[1])
			good := ok && len(parts) == 2 && parts[0].query == nil && parts[0].lit == `\` && parts[1].query != nil
			if good {
				name, isField := c12FieldAccess(parts[1].query)
				good = isField && group != "" && name == group
			}
			ru.Check(good, "_escape_ident:replacement", file, "replacement is one backslash followed by the matched character",
				"replacement "+fw.JQStr(call.Args[1])+" is not a single backslash followed by the captured character (group "+group+")")
		}
	}
	// _is_ident
	if d := jq.Def(file, "_is_ident", 0); d == nil {
		ru.Undecided("_is_ident", file, "def _is_ident/0 not found")
	} else {
		var tests []*gojq.Func
		for _, c := range fw.JQCalls(d.Def.Body) {
			if c.Name == "test" {
				tests = append(tests, c)
			}
		}
		if len(tests) != 1 || len(tests[0].Args) != 1 {
			ru.Undecided("_is_ident", file, "body has not exactly one test(regex): "+fw.JQStr(d.Def.Body))
		} else if s, ok := fw.JQConstString(tests[0].Args[0]); !ok {
			ru.Undecided("_is_ident", file, "test regex is not a constant string")
		} else if re, err := syntax.Parse(s, syntax.Perl); err != nil {
			ru.Fail("_is_ident", file, "test regex does not parse: "+err.Error())
		} else {
			ru.Check(c12IdentRegex(re) == "", "_is_ident", file, "accepts only jq identifiers, anchored at both ends", "_is_ident regex "+s+": "+c12IdentRegex(re)+" — a key that is not an identifier would be emitted unquoted")
			// all conjuncts/disjuncts: the test must not be or-ed with something weaker
			top := c12Flatten(d.Def.Body, gojq.OpOr)
			ru.Check(len(top) == 1, "_is_ident:conj", file, "test is not weakened by an alternative", "_is_ident has an `or` alternative next to the regex test")
		}
	}
}

// c12IdentRegex: "" when L(re) is within ^[A-Za-z_][A-Za-z0-9_]*$, else the reason.
func c12IdentRegex(re *syntax.Regexp) string {
	if re.Op != syntax.OpConcat || len(re.Sub) < 3 {
		return "not of the form ^first rest*$"
	}
	subs := re.Sub
	if subs[0].Op != syntax.OpBeginText {
		return "not anchored at the start"
	}
	if subs[len(subs)-1].Op != syntax.OpEndText {
		return "not anchored at the end"
	}
	start := func(c rune) bool { return c == '_' || (c >= 'a' && c <= 'z') || (c >= 'A' && c <= 'Z') }
	rest := func(c rune) bool { return start(c) || (c >= '0' && c <= '9') }
	mid := subs[1 : len(subs)-1]
	for i, m := range mid {
		allowed := rest
		if i == 0 {
			allowed = start
		}
		node := m
		switch m.Op {
		case syntax.OpStar, syntax.OpPlus, syntax.OpQuest, syntax.OpRepeat:
			if i == 0 && (m.Op == syntax.OpStar || m.Op == syntax.OpQuest || (m.Op == syntax.OpRepeat && m.Min == 0)) {
				return "first character optional"
			}
			node = m.Sub[0]
			if i == 0 {
				// repeated first class: later repetitions are "rest" characters, fine as start ⊆ rest
			}
		}
		if ok, c := c12ClassWithin(node, allowed); !ok {
			if node.Op != syntax.OpCharClass && node.Op != syntax.OpLiteral {
				return "not a sequence of character classes"
			}
			return "admits character " + string(c)
		}
	}
	return ""
}

// ---------------------------------------------------------------------------
// C12.expr

func c12Expr(r *fw.Run, jq *fw.JQ) {
	ru := r.Rule("C12.expr", "_path_to_expr emits [n] for numbers and .key for keys, unquoted only when _is_ident, otherwise \"…\" through _escape_ident, joined without separator, with a leading . for paths starting with an index; _expr_to_path evaluates null | path(EXPR); public wrappers call them; the stages are exactly placeholder | map | join, _path_to_expr/0 asks for no colour and _ansi_if is the identity then; _is_number/_is_string test the type they name", 16)
	const file = "pkg/interp/internal.jq"
	d := jq.Def(file, "_path_to_expr", 1)
	if d == nil {
		ru.Undecided("_path_to_expr", file, "def _path_to_expr/1 not found")
	} else {
		pipe := fw.JQPipeline(d.Def.Body)
		// join("") last
		last := pipe[len(pipe)-1]
		j := fw.JQIsCall(last, "join", 1)
		sep, isConst := "", false
		if j != nil {
			sep, isConst = fw.JQConstString(j.Args[0])
		}
		ru.Check(j != nil && isConst && sep == "", "_path_to_expr:join", file, "components are joined with the empty string", "components are not joined with \"\": "+fw.JQStr(last))
		// nothing else touches the component list or the result
		{
			extra := ""
			if len(pipe) != 3 {
				for i, st := range pipe {
					u := c12Unparen(st)
					isIf := u.Term != nil && u.Term.Type == gojq.TermTypeIf && u.Left == nil
					if !isIf && fw.JQIsCall(st, "map", 1) == nil && !(i == len(pipe)-1 && fw.JQIsCall(st, "join", 1) != nil) && !c12IsIdentity(st) {
						extra = fw.JQStr(st)
					}
				}
				if extra == "" {
					extra = "a repeated stage"
				}
			}
			ru.Check(extra == "", "_path_to_expr:stages", file, "stages are placeholder | map(component) | join", "_path_to_expr has the extra stage `"+extra+"` between placeholder, map and join: components or the joined expression are altered")
		}
		// leading placeholder for paths that do not start with a key
		var prefixIf *gojq.If
		var numIf *gojq.If
		for _, st := range pipe {
			st = c12Unparen(st)
			if st.Term != nil && st.Term.Type == gojq.TermTypeIf && st.Left == nil && prefixIf == nil {
				prefixIf = st.Term.If
			}
			if m := fw.JQIsCall(st, "map", 1); m != nil {
				b := c12Unparen(m.Args[0])
				if b.Term != nil && b.Term.Type == gojq.TermTypeIf && b.Left == nil {
					numIf = b.Term.If
				}
			}
		}
		if prefixIf == nil {
			ru.Fail("_path_to_expr:leading", file, "no step that prepends a placeholder key for paths starting with an index: [0] would be emitted as \"[0]\", an array literal")
		} else {
			add := c12Flatten(prefixIf.Then, gojq.OpAdd)
			// the placeholder must be a value that cannot be a path component key: null
			good := len(add) == 2 && c12IsIdentity(add[1]) && fw.JQStr(add[0]) == `[null]` && prefixIf.Else == nil && len(prefixIf.Elif) == 0
			// condition must cover the empty path and a non-string head
			cond := fw.JQStr(prefixIf.Cond)
			ors := c12Flatten(prefixIf.Cond, gojq.OpOr)
			condOK := false
			for _, o := range ors {
				switch {
				case c12HeadNotString(o):
					condOK = true
				case c12EmptyPathTest(o):
				default:
					// any other disjunct adds the placeholder in front of a key; a conjunction would withhold it
					good = false
				}
			}
			ru.Check(good && condOK, "_path_to_expr:leading", file, "[null] (not a possible key) is prepended when the path does not start with a key", "leading placeholder step is not `if … (.[0] | type) != \"string\" then [null] + . end` (a string placeholder collides with a real key): "+cond+" then "+fw.JQStr(prefixIf.Then))
		}
		if numIf == nil {
			ru.Undecided("_path_to_expr:map", file, "no map(if _is_number then … else … end) stage")
		} else {
			ru.Check(fw.JQIsCall(numIf.Cond, "_is_number", 0) != nil && len(numIf.Elif) == 0, "_path_to_expr:number-test", file, "components are split by _is_number", "component kind test is "+fw.JQStr(numIf.Cond)+", expected _is_number")
			// number arm: "[" , number , "]"
			items := c12Flatten(numIf.Then, gojq.OpComma)
			lit := func(q *gojq.Query) (string, bool) {
				pl := fw.JQPipeline(q)
				if len(pl) == 0 {
					return "", false
				}
				return fw.JQConstString(pl[0])
			}
			okNum := len(items) == 3
			if okNum {
				o, ok1 := lit(items[0])
				c, ok2 := lit(items[2])
				_, midLit := lit(items[1])
				mid := fw.JQPipeline(items[1])
				midOK := !midLit && len(mid) >= 1
				for _, m := range mid {
					if !(c12IsIdentity(m) || fw.JQIsCall(m, "_ansi_if", 2) != nil || fw.JQIsCall(m, "tostring", 0) != nil || fw.JQIsCall(m, "tojson", 0) != nil) {
						midOK = false
					}
				}
				okNum = ok1 && ok2 && o == "[" && c == "]" && midOK
			}
			ru.Check(okNum, "_path_to_expr:index", file, "a number n is emitted as [ n ]", "number arm does not emit \"[\", the number itself, \"]\" in this order: "+fw.JQStr(numIf.Then))
			// key arm: "." , if COND then raw else "\"\(_escape_ident)\"" end
			items = c12Flatten(numIf.Else, gojq.OpComma)
			var keyIf *gojq.If
			dot := ""
			if len(items) == 2 {
				dot, _ = lit(items[0])
				k := c12Unparen(items[1])
				if k.Term != nil && k.Term.Type == gojq.TermTypeIf && k.Left == nil {
					keyIf = k.Term.If
				}
			}
			if keyIf == nil || dot != "." {
				ru.Fail("_path_to_expr:key", file, "key arm is not \".\" followed by a quoted-or-raw choice: "+fw.JQStr(numIf.Else))
			} else {
				ru.Ok("_path_to_expr:key", file, "a key is emitted as . followed by the key")
				// arms of the key choice: the placeholder arm (. == null => empty), the identifier arm (raw key); anything else must be quoted
				type arm struct{ cond, then *gojq.Query }
				arms := []arm{{keyIf.Cond, keyIf.Then}}
				for _, e := range keyIf.Elif {
					arms = append(arms, arm{e.Cond, e.Then})
				}
				rawSeen := false
				for _, a := range arms {
					for _, c := range c12Flatten(a.cond, gojq.OpOr) {
						s := fw.JQStr(c)
						thenPl := fw.JQPipeline(a.then)
						switch {
						case fw.JQIsCall(c, "_is_ident", 0) != nil:
							rawSeen = true
							rawOK := len(thenPl) == 1 && (c12IsIdentity(thenPl[0]) || fw.JQIsCall(thenPl[0], "_ansi_if", 2) != nil)
							ru.Check(rawOK, "_path_to_expr:raw", file, "identifier keys are emitted raw", "raw arm emits "+fw.JQStr(a.then)+" instead of the key")
						case s == ". == null" || s == "null == .":
							emp, isLit := "x", false
							if len(thenPl) >= 1 {
								emp, isLit = fw.JQConstString(thenPl[0])
							}
							okRest := true
							for _, rest := range thenPl[1:] {
								if fw.JQIsCall(rest, "_ansi_if", 2) == nil {
									okRest = false
								}
							}
							ru.Check(isLit && emp == "" && okRest, "_path_to_expr:placeholder", file, "the null placeholder is emitted as nothing", "placeholder arm emits "+fw.JQStr(a.then)+" instead of the empty string")
						default:
							ru.Fail("_path_to_expr:unquoted:"+s, file, "a key satisfying `"+s+"` is emitted unquoted although it need not be an identifier; the expression does not read back as that key")
						}
					}
				}
				if !rawSeen {
					ru.Fail("_path_to_expr:raw", file, "no arm emitting identifier keys raw")
				}
				// quoted arm
				okQ := false
				got := fw.JQStr(keyIf.Else)
				if pl := fw.JQPipeline(keyIf.Else); len(pl) >= 1 {
					if parts, ok := c12StrParts(pl[0]); ok && len(parts) == 3 &&
						parts[0].lit == `"` && parts[0].query == nil && parts[2].lit == `"` && parts[2].query == nil && parts[1].query != nil {
						okQ = fw.JQIsCall(parts[1].query, "_escape_ident", 0) != nil
					}
					for _, rest := range pl[1:] {
						if fw.JQIsCall(rest, "_ansi_if", 2) == nil {
							okQ = false
						}
					}
				}
				ru.Check(okQ, "_path_to_expr:quoted", file, "other keys are emitted as \"…\" with the content passed through _escape_ident", "quoted arm is not \"\\\"\\(_escape_ident)\\\"\": "+got)
			}
		}
	}
	// _path_to_expr/0
	if d0 := jq.Def(file, "_path_to_expr", 0); d0 == nil {
		ru.Undecided("_path_to_expr/0", file, "def _path_to_expr/0 not found")
	} else {
		c0 := fw.JQIsCall(d0.Def.Body, "_path_to_expr", 1)
		ru.Check(c0 != nil, "_path_to_expr/0", file, "calls _path_to_expr/1", "_path_to_expr/0 does not call _path_to_expr/1")
		if c0 != nil {
			arg := fw.JQStr(c12Unparen(c0.Args[0]))
			ru.Check(arg == "null" || arg == "{}", "_path_to_expr/0:plain", file, "asks for an undecorated expression (no options)", "_path_to_expr/0 passes options "+arg+": colour escape sequences end up in the expression expr_to_path has to parse")
		}
	}
	// _ansi_if is the identity when no colour is asked for
	if d := jq.Def("pkg/interp/ansi.jq", "_ansi_if", 2); d == nil || len(d.Def.Args) != 2 {
		ru.Undecided("_ansi_if", "pkg/interp/ansi.jq", "def _ansi_if/2 not found")
	} else {
		b := c12Unparen(d.Def.Body)
		good := b.Term != nil && b.Left == nil && b.Term.Type == gojq.TermTypeIf && b.Term.If != nil && len(b.Term.SuffixList) == 0
		if good {
			i := b.Term.If
			good = fw.JQStr(c12Unparen(i.Cond)) == d.Def.Args[0]+".color" && len(i.Elif) == 0 && (i.Else == nil || c12IsIdentity(i.Else))
		}
		ru.Check(good, "_ansi_if", "pkg/interp/ansi.jq", "without $opts.color the input passes unchanged", "_ansi_if($opts; $name) is not `if $opts.color then … end` with the input unchanged otherwise: every component of an undecorated path expression passes through it")
	}
	// the type tests the component split rests on
	for _, w := range [][2]string{{"_is_number", "number"}, {"_is_string", "string"}} {
		d := jq.Def(file, w[0], 0)
		if d == nil {
			ru.Undecided("def:"+w[0], file, "def "+w[0]+"/0 not found")
			continue
		}
		b := c12Unparen(d.Def.Body)
		tn, isConst := "", false
		if b.Op == gojq.OpEq && b.Left != nil && b.Right != nil && fw.JQIsCall(b.Left, "type", 0) != nil {
			tn, isConst = fw.JQConstString(c12Unparen(b.Right))
		}
		ru.Check(isConst && tn == w[1], "def:"+w[0], file, "type == \""+w[1]+"\"", w[0]+" is "+fw.JQStr(d.Def.Body)+", expected type == \""+w[1]+"\": keys and indexes are told apart by it")
	}
	// _expr_to_path
	if d := jq.Def(file, "_expr_to_path", 0); d == nil {
		ru.Undecided("_expr_to_path", file, "def _expr_to_path/0 not found")
	} else {
		var ev *gojq.Func
		for _, c := range fw.JQCalls(d.Def.Body) {
			if c.Name == "_eval" {
				ev = c
			}
		}
		if ev == nil || len(ev.Args) < 1 {
			ru.Undecided("_expr_to_path", file, "no _eval(program; …) call")
		} else if parts, ok := c12StrParts(ev.Args[0]); !ok {
			ru.Undecided("_expr_to_path", file, "evaluated program is not a string literal")
		} else {
			prog := ""
			nq := 0
			ident := true
			for _, pt := range parts {
				if pt.query != nil {
					nq++
					ident = ident && c12IsIdentity(pt.query)
					prog += ".c12_placeholder"
				} else {
					prog += pt.lit
				}
			}
			q, err := gojq.Parse(prog)
			good := err == nil && nq == 1 && ident
			if good {
				q = c12Unparen(q)
				good = q.Op == gojq.OpPipe && q.Left != nil && q.Right != nil && fw.JQStr(c12Unparen(q.Left)) == "null"
				if good {
					pc := fw.JQIsCall(q.Right, "path", 1)
					name, isF := "", false
					if pc != nil {
						name, isF = c12FieldAccess(pc.Args[0])
					}
					good = pc != nil && isF && name == "c12_placeholder"
				}
			}
			ru.Check(good, "_expr_to_path", file, "evaluates null | path(<input string>)", "evaluated program "+fw.JQStr(ev.Args[0])+" is not `null | path(\\(.))`")
		}
	}
	// public wrappers
	for _, w := range [][2]string{{"path_to_expr", "_path_to_expr"}, {"expr_to_path", "_expr_to_path"}} {
		d := jq.Def("pkg/interp/funcs.jq", w[0], 0)
		if d == nil {
			ru.Undecided("def:"+w[0], "pkg/interp/funcs.jq", "def "+w[0]+"/0 not found")
			continue
		}
		ru.Check(fw.JQIsCall(d.Def.Body, w[1], 0) != nil, "def:"+w[0], "pkg/interp/funcs.jq", "calls "+w[1], w[0]+" is "+fw.JQStr(d.Def.Body)+", expected "+w[1])
	}
}

// c12HeadNotString: q is `(.[0] | type) != "string"` or `.[0] | _is_string | not`.
func c12HeadNotString(q *gojq.Query) bool {
	q = c12Unparen(q)
	if q == nil {
		return false
	}
	head := func(x *gojq.Query) bool { return fw.JQStr(c12Unparen(x)) == ".[0]" }
	if q.Op == gojq.OpNe && q.Left != nil && q.Right != nil {
		l, r := q.Left, q.Right
		if _, ok := fw.JQConstString(c12Unparen(l)); ok {
			l, r = r, l
		}
		s, ok := fw.JQConstString(c12Unparen(r))
		pl := fw.JQPipeline(l)
		return ok && s == "string" && len(pl) == 2 && head(pl[0]) && fw.JQIsCall(pl[1], "type", 0) != nil
	}
	pl := fw.JQPipeline(q)
	return len(pl) == 3 && head(pl[0]) && fw.JQIsCall(pl[1], "_is_string", 0) != nil && fw.JQIsCall(pl[2], "not", 0) != nil
}

// c12EmptyPathTest: q is `length == 0` or `. == []`.
func c12EmptyPathTest(q *gojq.Query) bool {
	q = c12Unparen(q)
	if q == nil || q.Op != gojq.OpEq || q.Left == nil || q.Right == nil {
		return false
	}
	l, r := c12Unparen(q.Left), c12Unparen(q.Right)
	for i := 0; i < 2; i++ {
		if n, ok := fw.JQConstNumber(r); ok && n == "0" && fw.JQIsCall(l, "length", 0) != nil {
			return true
		}
		if c12IsIdentity(l) && fw.JQStr(r) == "[]" {
			return true
		}
		l, r = r, l
	}
	return false
}
