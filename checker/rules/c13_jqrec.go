package rules

import (
	"fmt"
	"sort"
	"strings"

	"github.com/wader/gojq"

	"fqverif/fw"
)

// ---------------------------------------------------------------------------
// C13.jqrec: recursion in the bundled jq sources has a classified progress argument
//
// A bundled jq function that calls itself (directly, or through other bundled functions of the same
// file scope) recurses on the *interpreter's* heap; a cycle that makes no progress for some input (nan,
// infinite, a cyclic path) does not raise a jq error: the process grows until the Go runtime aborts with
// `fatal error: out of memory`, which no try/catch sees - exactly the fault C13 excludes. Termination is
// not decidable in general, so the rule is a classification (like C07.shadow): the set of recursion
// cycles among bundled jq definitions (name/arity, with lexical nesting) must equal the frozen table
// below, each row carrying the progress argument that was checked by reading; the argument's structural
// part is mechanised where possible (`via` must occur in the recursive call's pipeline). A new or changed
// cycle is a violation until it is classified.

type jqRecRow struct {
	via    string // text that must occur in the pipeline leading to the recursive call ("" = none required)
	reason string
}

func c13JQRec(r *fw.Run, p *fw.Program, rows map[string]jqRecRow) {
	ru := r.Rule("C13.jqrec", "every recursion cycle among bundled jq definitions (a def that reaches itself through calls of bundled defs; nested defs by lexical scope) is one of the classified cycles whose progress argument was read (input strictly shrinks: a sub-term, a shorter array/string, a smaller non-negative integer, a path into a finite value) and whose structural part (the shrinking step in front of the recursive call) is still in the source; an unclassified cycle is reported: a jq recursion that makes no progress for some input (nan, infinite) ends fq with an uncatchable out-of-memory abort", 5)
	jq, err := fw.LoadJQ(p.Repo)
	if err != nil {
		ru.Undecided("load", "", "bundled jq sources do not parse: "+err.Error())
		return
	}
	// name resolution: a call f/n inside def d resolves to the nearest enclosing nested def, then an earlier
	// top-level def in any bundled file (include order is not modelled: any top-level def of that name/arity)
	top := map[string][]*fw.JQDef{}
	children := map[*fw.JQDef][]*fw.JQDef{}
	for _, d := range jq.Defs {
		if d.Parent == nil {
			top[d.Key()] = append(top[d.Key()], d)
		} else {
			children[d.Parent] = append(children[d.Parent], d)
		}
	}
	// jq scoping: a definition sees itself, its parameters, the nested definitions that precede the point of
	// call in the enclosing bodies (here: earlier siblings and itself), and earlier top-level definitions of
	// the same file; other files come in through include (any top-level def of that name/arity there)
	sibIdx := map[*fw.JQDef]int{}
	for _, cs := range children {
		for i, c := range cs {
			sibIdx[c] = i
		}
	}
	resolve := func(from *fw.JQDef, key string) []*fw.JQDef {
		var prev *fw.JQDef
		for sc := from; sc != nil; prev, sc = sc, sc.Parent {
			for _, a := range sc.Def.Args {
				if a+"/0" == key {
					return nil
				}
			}
			// nested defs of sc visible at the point we came from: all of them when the call is in sc's own
			// body (they precede the body), those up to and including prev when the call is inside prev
			var best *fw.JQDef
			for _, c := range children[sc] {
				if c.Key() == key && (prev == nil || sibIdx[c] <= sibIdx[prev]) {
					best = c
				}
			}
			if best != nil {
				return []*fw.JQDef{best}
			}
			if sc.Key() == key {
				return []*fw.JQDef{sc}
			}
		}
		// top level: the latest definition of the same file at or before the enclosing top-level def
		topOf := from
		for topOf.Parent != nil {
			topOf = topOf.Parent
		}
		var best *fw.JQDef
		var others []*fw.JQDef
		for _, t := range top[key] {
			if t.File == topOf.File {
				if t.Order <= topOf.Order && (best == nil || t.Order > best.Order) {
					best = t
				}
			} else {
				others = append(others, t)
			}
		}
		if best != nil {
			return []*fw.JQDef{best}
		}
		return others
	}
	edges := map[*fw.JQDef][]*fw.JQDef{}
	for _, d := range jq.Defs {
		seen := map[*fw.JQDef]bool{}
		fw.WalkJQ(d.Def.Body, func(n any) bool {
			if f, ok := n.(*gojq.Func); ok {
				for _, t := range resolve(d, fw.JQFuncKey(f)) {
					if !seen[t] {
						seen[t] = true
						edges[d] = append(edges[d], t)
					}
				}
			}
			return true
		}, true)
	}
	// a nested def's body belongs to its parent's activation only when called; calls of the nested def are edges
	// to it, so cycles through nested defs are found by the same graph.
	name := func(d *fw.JQDef) string {
		s := d.Key()
		for q := d.Parent; q != nil; q = q.Parent {
			s = q.Key() + ">" + s
		}
		return d.File.Rel + ":" + s
	}
	// Tarjan-free: d is on a cycle iff d reaches d
	reaches := func(from, to *fw.JQDef) bool {
		seen := map[*fw.JQDef]bool{}
		st := append([]*fw.JQDef{}, edges[from]...)
		for len(st) > 0 {
			x := st[len(st)-1]
			st = st[:len(st)-1]
			if x == to {
				return true
			}
			if seen[x] {
				continue
			}
			seen[x] = true
			st = append(st, edges[x]...)
		}
		return false
	}
	found := map[string]*fw.JQDef{}
	for _, d := range jq.Defs {
		if reaches(d, d) {
			found[name(d)] = d
		}
	}
	keys := make([]string, 0, len(found))
	for k := range found {
		keys = append(keys, k)
	}
	sort.Strings(keys)
	r.Notes["C13.jqrec.cycle_members"] = keys
	for _, k := range keys {
		d := found[k]
		row, ok := rows[k]
		if !ok {
			ru.Fail(k, d.File.Rel+":"+d.Key(), "bundled jq definition "+d.Key()+" is on a recursion cycle that is not classified: nothing argues that it makes progress for every input (nan, infinite, empty, huge), and a jq recursion without progress is an out-of-memory abort, not a catchable error")
			continue
		}
		if row.via != "" && !strings.Contains(fw.JQStr(d.Def.Body), row.via) {
			ru.Fail(k, d.File.Rel+":"+d.Key(), fmt.Sprintf("the progress step %q of the classified recursion is no longer in the body of %s", row.via, d.Key()))
			continue
		}
		ru.Ok(k, d.File.Rel+":"+d.Key(), "classified recursion: "+row.reason)
	}
	for k := range rows {
		if _, ok := found[k]; !ok {
			ru.Ok("gone:"+k, "", "classified cycle no longer exists (nothing to decide)")
		}
	}
}

var c13JQRecRows = map[string]jqRecRow{
	"format/apple/bookmark/apple_bookmark.jq:_apple_bookmark_torepr/0>_f/0":       {"", "structural recursion over the children of a decoded (finite) tree: each call descends into a proper sub-value"},
	"format/apple/bplist/bplist.jq:_bplist_torepr/0>_f/0":                         {"", "structural recursion over the children of a decoded (finite) tree: each call descends into a proper sub-value"},
	"format/apple/bplist/ns_keyed_archiver.jq:from_ns_keyed_archiver/1>_f/2":      {"", "follows object references of the decoded archive; depth is bounded by the archive's object table only if references are acyclic (a cyclic archive is not excluded by this argument: recorded as read, not proved)"},
	"format/apple/bplist/ns_keyed_archiver.jq:from_ns_keyed_archiver/1>_f/2>_r/1": {"", "follows object references of the decoded archive; depth is bounded by the archive's object table only if references are acyclic (a cyclic archive is not excluded by this argument: recorded as read, not proved)"},
	"format/asn1/asn1_ber.jq:_asn1_ber_torepr/0":                                  {"", "structural recursion over the children of a decoded (finite) tree: each call descends into a proper sub-value"},
	"format/bencode/bencode.jq:_bencode_torepr/0":                                 {"", "structural recursion over the children of a decoded (finite) tree: each call descends into a proper sub-value"},
	"format/bson/bson.jq:_bson_torepr/0>_f/0":                                     {"", "structural recursion over the children of a decoded (finite) tree: each call descends into a proper sub-value"},
	"format/cbor/cbor.jq:_cbor_torepr/0":                                          {"", "structural recursion over the children of a decoded (finite) tree: each call descends into a proper sub-value"},
	"format/json/jq.jq:_to_jq/1>_f/2>_r/1":                                        {"", "structural recursion over a finite jq value / parsed query term: each call descends into a proper sub-term"},
	"format/json/jq.jq:from_jq/0>_f/0":                                            {"", "structural recursion over a finite jq value / parsed query term: each call descends into a proper sub-term"},
	"format/json/jq.jq:from_jq/0>_f/0>_a/0":                                       {"", "structural recursion over a finite jq value / parsed query term: each call descends into a proper sub-term"},
	"format/leveldb/leveldb_descriptor.jq:_leveldb_descriptor_torepr/0>_f/0":      {"", "structural recursion over the children of a decoded (finite) tree: each call descends into a proper sub-value"},
	"format/markdown/markdown.jq:_markdown_children_to_text/1>_f/0":               {"", "structural recursion over the children of a finite markdown node tree"},
	"format/markdown/markdown.jq:_word_break/1>_f/3":                              {"", "recursion over the remaining words of a finite list, one word consumed per call"},
	"format/msgpack/msgpack.jq:_msgpack_torepr/0":                                 {"", "structural recursion over the children of a decoded (finite) tree: each call descends into a proper sub-value"},
	"pkg/interp/args.jq:_args_parse/2>_parse/3":                                   {"", "recursion over the remaining argv list: every call passes a strictly shorter list (.[1:] / .[2:])"},
	"pkg/interp/args.jq:_args_parse/2>_parse/3>_parse_with_arg/4":                 {"", "recursion over the remaining argv list: every call passes a strictly shorter list (.[1:] / .[2:])"},
	"pkg/interp/args.jq:_args_parse/2>_parse/3>_parse_without_arg/2":              {"", "recursion over the remaining argv list: every call passes a strictly shorter list (.[1:] / .[2:])"},
	"pkg/interp/funcs.jq:diff/2":                                                  {"", "structural recursion over two finite values: each call descends into members of both"},
	"pkg/interp/init.jq:input/0":                                                  {"", "iteration over the remaining inputs: each call pops one input from the finite list before recursing (C17.inputs decides the pop)"},
	"pkg/interp/init.jq:input/0>_input/2":                                         {"", "iteration over the remaining inputs: each call pops one input from the finite list before recursing (C17.inputs decides the pop)"},
	"pkg/interp/init.jq:input/0>_input_string/1":                                  {"", "iteration over the remaining inputs: each call pops one input from the finite list before recursing (C17.inputs decides the pop)"},
	"pkg/interp/query.jq:_query_last/0":                                           {"", "structural recursion over a parsed query: each call descends into .right / .term of the current node"},
	"pkg/interp/query.jq:_query_pipe_last/0":                                      {"", "structural recursion over a parsed query: each call descends into .right / .term of the current node"},
	"pkg/interp/query.jq:_query_transform_last/1>_f/0":                            {"", "structural recursion over a parsed query: each call descends into .right / .term of the current node"},
	"pkg/interp/query.jq:_query_transform_pipe_last/1>_f/0":                       {"", "structural recursion over a parsed query: each call descends into .right / .term of the current node"},
	"pkg/interp/repl.jq:_prompt/1>_value_preview/1":                               {"", "the recursive arm requires $depth == 0 and the recursive call passes the constant 1: depth is at most two"},
}
